import PfVerif.Proofs.C09Geom
/-! 8-neighbour adjacency of the coarse links produced by `eam_nextidx`, `ihu_nextidx` (first pass) and
`dmm_nextidx`, by construction (C09). Core Lean only. -/
namespace Pf

/-! ### `eam_nextidx`: the trace stops at the first effective-area pixel of another cell -/

theorem eamTrace_near (ds : Array Nat) (ea : Array Bool) (g : Geo) (idx0 : Nat) (hg : g.OK ds) (hwf : FineWF ds)
    (hd8 : FineD8 ds g.subncol) (hea : EaCross g ea ds.size) :
    ∀ fuel p r, eamTrace ds ea g.cell idx0 fuel p = some r → ValidPx ds p → Near2 g idx0 p → Good2 g idx0 p →
      ∃ q, ValidPx ds q ∧ Near2 g idx0 q ∧ r = g.cell q := by
  intro fuel
  induction fuel with
  | zero => intro p r h; simp [eamTrace] at h
  | succ f ih =>
    intro p r h hp hn hgd
    have hp1 : ValidPx ds ds[p]! := hwf.next hp
    have hn1 : Near2 g idx0 ds[p]! := near2_step g idx0 p _ hg.cs hn hgd (hd8 p hp.1 hp.2)
    simp only [eamTrace] at h
    split at h
    · simp only [Option.some.injEq] at h; exact ⟨_, hp1, hn1, h.symm⟩
    · split at h
      · simp only [Option.some.injEq] at h; exact ⟨_, hp1, hn1, h.symm⟩
      · rename_i hc
        refine ih _ _ h hp1 hn1 ?_
        by_cases hcell : g.cell ds[p]! = idx0
        · exact (near2_of_cell g ds hg idx0 _ hp1.1 hcell).2
        · exact good2_of_not_ea g ea ds.size idx0 _ hea hp1.1 (fun he => hc ⟨hcell, he⟩)

/-! ### `ihu_nextidx`: next outlet pixel if it is in the 3×3 neighbourhood, else the first effective-area pixel -/

theorem ihuNextTrace_near (ds out : Array Nat) (ea : Array Bool) (g : Geo) (idx0 : Nat) (hg : g.OK ds)
    (hwf : FineWF ds) (hd8 : FineD8 ds g.subncol) (hea : EaCross g ea ds.size) :
    ∀ fuel p sd r, ihuNextTrace ds out ea g.cell g.ncol idx0 fuel p sd = some r → ValidPx ds p →
      (sd = none → Near2 g idx0 p ∧ Good2 g idx0 p) → (∀ q, sd = some q → ValidPx ds q ∧ Near2 g idx0 q) →
      ∃ q, r.1 = some q ∧ ValidPx ds q ∧ inD8 idx0 (g.cell q) g.ncol = true := by
  intro fuel
  induction fuel with
  | zero => intro p sd r h; simp [ihuNextTrace] at h
  | succ f ih =>
    intro p sd r h hp hnone hsome
    have hp1 : ValidPx ds ds[p]! := hwf.next hp
    have hn1 : sd = none → Near2 g idx0 ds[p]! := fun hs =>
      near2_step g idx0 p _ hg.cs (hnone hs).1 (hnone hs).2 (hd8 p hp.1 hp.2)
    simp only [ihuNextTrace] at h
    split at h
    · split at h
      · rename_i hnd
        simp only [Option.some.injEq] at h; subst h
        cases hsd : sd with
        | none =>
          have := near2_inD8 g ds hg idx0 _ hp1.1 (hn1 hsd)
          rw [this] at hnd; cases hnd
        | some q =>
          obtain ⟨hv, hn⟩ := hsome q hsd
          exact ⟨q, rfl, hv, near2_inD8 g ds hg idx0 q hv.1 hn⟩
      · rename_i hnd
        simp only [Option.some.injEq] at h; subst h
        exact ⟨_, rfl, hp1, by simpa using hnd⟩
    · refine ih _ _ _ h hp1 ?_ ?_
      · intro hs
        split at hs
        · cases hs
        · rename_i hc
          subst hs
          refine ⟨hn1 rfl, good2_of_not_ea g ea ds.size idx0 _ hea hp1.1 (fun he => hc ⟨rfl, he⟩)⟩
      · intro q hq
        split at hq
        · rename_i hc
          simp only [Option.some.injEq] at hq; subst hq
          have hs : sd = none := by
            cases sd with
            | none => rfl
            | some _ => simp at hc
          exact ⟨hp1, hn1 hs⟩
        · exact hsome q hq

/-! ### `dmm_nextidx`: the trace stops at the first pixel outside the offset window -/

theorem dmmTrace_near (ds : Array Nat) (cell : Nat → Nat) (outside : Nat → Bool) (idx0 : Nat) (hwf : FineWF ds)
    (N : Nat → Prop) (hN : ∀ p, ValidPx ds p → outside p = false → N ds[p]!) :
    ∀ fuel p idx r, dmmTrace ds cell outside idx0 fuel p idx = some r → ValidPx ds p → idx = cell p →
      (cell p = idx0 ∨ N p) → ∃ q, ValidPx ds q ∧ (cell q = idx0 ∨ N q) ∧ r = cell q := by
  intro fuel
  induction fuel with
  | zero => intro p idx r h; simp [dmmTrace] at h
  | succ f ih =>
    intro p idx r h hp hidx hinv
    simp only [dmmTrace] at h
    split at h
    · simp only [Option.some.injEq] at h; exact ⟨p, hp, hinv, by rw [← h, hidx]⟩
    · split at h
      · simp only [Option.some.injEq] at h; exact ⟨p, hp, hinv, by rw [← h, hidx]⟩
      · rename_i hc
        refine ih _ _ _ h (hwf.next hp) rfl ?_
        by_cases hcell : cell ds[p]! = idx0
        · exact Or.inl hcell
        · refine Or.inr (hN p hp ?_)
          cases ho : outside p
          · rfl
          · exact absurd ⟨hcell, ho⟩ hc

/-- within one cell size of the cell that starts at `t` -/
theorem within_cell (cs R0 x : Nat) (hcs : 0 < cs) (h1 : R0 * cs ≤ x + cs) (h2 : x < R0 * cs + 2 * cs) :
    x / cs ≤ R0 + 1 ∧ R0 ≤ x / cs + 1 := by
  have e1 : (R0 + 1) * cs = R0 * cs + cs := Nat.succ_mul R0 cs
  by_cases ha : x < R0 * cs
  · have hR : 1 ≤ R0 := by
      rcases Nat.eq_zero_or_pos R0 with h0 | h0
      · subst h0; simp at ha
      · exact h0
    have e2 : (R0 - 1) * cs + cs = R0 * cs := by
      have := Nat.succ_mul (R0 - 1) cs
      rw [show (R0 - 1).succ = R0 by omega] at this
      exact this.symm
    have := (div_mod_of_bounds x cs (R0 - 1) (by omega) (by omega)).1; omega
  · by_cases hb : x < R0 * cs + cs
    · have := (div_mod_of_bounds x cs R0 (by omega) hb).1; omega
    · have := (div_mod_of_bounds x cs (R0 + 1) (by omega) (by omega)).1; omega

/-- one axis of the offset window of `dmm_nextidx` (`dmmCentre`): a coordinate at most one pixel outside the window
lies in the cell `R0` or a neighbouring one -/
theorem win_axis (cs R0 ri x : Nat) (hcs : 0 < cs) (hri : ri < cs)
    (h : (2 * Int.ofNat x - (if cs = 1 then 2 * Int.ofNat R0 else 2 * Int.ofNat ((R0 + (2 * ri) / cs) * cs) - 1)).natAbs
      ≤ (if cs = 1 then 0 else cs) + 2) :
    x / cs ≤ R0 + 1 ∧ R0 ≤ x / cs + 1 := by
  by_cases h1 : cs = 1
  · subst h1
    simp only [if_true, Int.ofNat_eq_natCast] at h
    rw [Nat.div_one]; omega
  · simp only [h1, if_false, Int.ofNat_eq_natCast] at h
    have hdr : (2 * ri) / cs < 2 := by rw [Nat.div_lt_iff_lt_mul hcs]; omega
    have hdr' : (2 * ri) / cs = 1 ∨ (2 * ri) / cs = 0 := by
      generalize (2 * ri) / cs = d at hdr ⊢; omega
    apply within_cell cs R0 x hcs
    · rcases hdr' with e | e
      · rw [e, Nat.add_mul, Nat.one_mul] at h; push_cast at h; omega
      · rw [e, Nat.add_zero] at h; omega
    · rcases hdr' with e | e
      · rw [e, Nat.add_mul, Nat.one_mul] at h; push_cast at h; omega
      · rw [e, Nat.add_zero] at h; omega

end Pf
