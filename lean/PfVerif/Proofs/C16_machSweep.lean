import PfVerif.Proofs.C16_machEnc
/-! Refinement of the generic sweeps and of the generic trace: the machine-level loops of
`Model/C16_mach.lean`, run on the encoded network, compute what the `Nat` loops of `Core/Sweep.lean` /
`Model/Core.lean` compute on the abstract network. Core Lean only. -/
namespace Pf.C16m
open Pf

section
variable {α : Type} [Inhabited α]

theorem get!_oob (xs : Array α) (i : Nat) (h : xs.size ≤ i) : xs[i]! = default := by
  simp [getElem!_def, Array.getElem?_eq_none h]

omit [Inhabited α] in
theorem setIfInBounds_oob (xs : Array α) (i : Nat) (a : α) (h : xs.size ≤ i) :
    xs.setIfInBounds i a = xs := by
  have : ¬ i < xs.size := by omega
  simp [Array.setIfInBounds, this]

omit [Inhabited α] in
theorem map_get! {β γ : Type} [Inhabited β] [Inhabited γ] (xs : Array γ) (f : γ → β) {i : Nat} (hi : i < xs.size) :
    (xs.map f)[i]! = f xs[i]! := by
  have h1 : i < (xs.map f).size := by simpa using hi
  rw [getElem!_pos (xs.map f) i h1, getElem!_pos xs i hi, Array.getElem_map]

/-- reading at the machine position of an abstract index: the same element, or both out of bounds -/
theorem read_enc {t : IdxTy} {n : Nat} (hc : Cap t n) (out : Array α) (j : Nat)
    (h : j < n ∨ out.size ≤ n) : out[(enc t n j).toNat]! = out[j]! := by
  by_cases hj : j < n
  · rw [enc_toNat hc hj]
  · have hsz : out.size ≤ n := by omega
    rw [enc_missing (by omega), mv_toNat]
    have := (cap_bound hc).1
    rw [get!_oob out _ (by omega), get!_oob out j (by omega)]

omit [Inhabited α] in
theorem write_enc {t : IdxTy} {n : Nat} (hc : Cap t n) (out : Array α) (j : Nat) (a : α)
    (h : j < n ∨ out.size ≤ n) : out.setIfInBounds (enc t n j).toNat a = out.setIfInBounds j a := by
  by_cases hj : j < n
  · rw [enc_toNat hc hj]
  · have hsz : out.size ≤ n := by omega
    rw [enc_missing (by omega), mv_toNat]
    have := (cap_bound hc).1
    rw [setIfInBounds_oob out _ a (by omega), setIfInBounds_oob out j a (by omega)]

/-! ### down-to-upstream sweep -/

theorem stepDownM_eq {t : IdxTy} {n : Nat} (hc : Cap t n) (ds : Array Nat) (hsz : ds.size = n)
    (g gM : Nat → α → α → α) (out : Array α) (i : Nat) (hi : i < n)
    (hsafe : ds[i]! < n ∨ out.size ≤ n) (hg : ∀ a b, gM i a b = g i a b) :
    stepDownM (ds.map (enc t n)) gM out (enc t n i) = stepDown ds g out i := by
  unfold stepDownM stepDown
  rw [enc_toNat hc hi, map_get! ds (enc t n) (by omega), read_enc hc out _ hsafe, hg]

theorem sweepDownM_eq {t : IdxTy} {n : Nat} (hc : Cap t n) (ds : Array Nat) (hsz : ds.size = n)
    (g gM : Nat → α → α → α) (seq : List Nat) (out : Array α) (hseq : ∀ i ∈ seq, i < n)
    (hsafe : ∀ i ∈ seq, ds[i]! < n ∨ out.size ≤ n) (hg : ∀ i ∈ seq, ∀ a b, gM i a b = g i a b) :
    sweepDownM (ds.map (enc t n)) gM (seq.map (enc t n)) out = sweepDown ds g seq out := by
  induction seq generalizing out with
  | nil => rfl
  | cons i rest ih =>
    simp only [sweepDownM, sweepDown, List.map_cons, List.foldl_cons] at ih ⊢
    rw [stepDownM_eq hc ds hsz g gM out i (hseq i (by simp)) (hsafe i (by simp)) (hg i (by simp))]
    exact ih (stepDown ds g out i) (fun j hj => hseq j (by simp [hj]))
      (fun j hj => by simpa using hsafe j (by simp [hj])) (fun j hj => hg j (by simp [hj]))

/-! ### up-to-downstream sweep -/

theorem size_stepUp (ds : Array Nat) (upd : Nat → α → α → α) (i : Nat) (out : Array α) :
    (stepUp ds upd i out).size = out.size := by
  unfold stepUp; split <;> simp

theorem size_sweepUp (ds : Array Nat) (upd : Nat → α → α → α) (seq : List Nat) (out : Array α) :
    (sweepUp ds upd seq out).size = out.size := by
  induction seq with
  | nil => rfl
  | cons i rest ih => simp only [sweepUp, List.foldr_cons] at *; rw [size_stepUp, ih]

theorem stepUpM_eq {t : IdxTy} {n : Nat} (hc : Cap t n) (ds : Array Nat) (hsz : ds.size = n)
    (upd updM : Nat → α → α → α) (out : Array α) (i : Nat) (hi : i < n)
    (hsafe : ds[i]! < n ∨ out.size ≤ n) (hu : ∀ a b, updM i a b = upd i a b) :
    stepUpM (ds.map (enc t n)) updM (enc t n i) out = stepUp ds upd i out := by
  unfold stepUpM stepUp
  rw [enc_toNat hc hi, map_get! ds (enc t n) (by omega)]
  by_cases hp : ds[i]! = i
  · rw [if_pos hp, if_pos ((enc_inj' hc hi _).2 hp)]
  · rw [if_neg hp, if_neg (fun h => hp ((enc_inj' hc hi _).1 h)), read_enc hc out _ hsafe,
      write_enc hc out _ _ hsafe, hu]

theorem sweepUpM_eq {t : IdxTy} {n : Nat} (hc : Cap t n) (ds : Array Nat) (hsz : ds.size = n)
    (upd updM : Nat → α → α → α) (seq : List Nat) (out : Array α) (hseq : ∀ i ∈ seq, i < n)
    (hsafe : ∀ i ∈ seq, ds[i]! < n ∨ out.size ≤ n) (hu : ∀ i ∈ seq, ∀ a b, updM i a b = upd i a b) :
    sweepUpM (ds.map (enc t n)) updM (seq.map (enc t n)) out = sweepUp ds upd seq out := by
  induction seq with
  | nil => rfl
  | cons i rest ih =>
    simp only [sweepUpM, sweepUp, List.map_cons, List.foldr_cons] at ih ⊢
    rw [ih (fun j hj => hseq j (by simp [hj])) (fun j hj => hsafe j (by simp [hj]))
      (fun j hj => hu j (by simp [hj]))]
    have hs := size_sweepUp ds upd rest out
    simp only [sweepUp] at hs
    exact stepUpM_eq hc ds hsz upd updM _ i (hseq i (by simp)) (by rw [hs]; exact hsafe i (by simp))
      (hu i (by simp))

end

/-! ### trace -/

/-- the pair returned by the trace, encoded -/
def encRes (t : IdxTy) (n : Nat) (r : Option (List Nat × Int)) : Option (List (BitVec t.w) × Int) :=
  r.map fun p => (p.1.map (enc t n), p.2)

def stopAt (mask : Option (Array Bool)) (i : Nat) : Bool :=
  match mask with
  | none => false
  | some m => m[i]!

def overAt (maxLen : Option Int) (x : Int) : Bool :=
  match maxLen with
  | none => false
  | some ml => decide (x > ml)

theorem trace_succ (nxt : Array Nat) (mask : Option (Array Bool)) (maxLen : Option Int)
    (step : Nat → Nat → Int) (fuel idx0 : Nat) (acc : List Nat) (dist : Int) :
    trace nxt mask maxLen step (fuel+1) idx0 acc dist =
      if stopAt mask idx0 then some (acc.reverse, dist) else
      if nxt[idx0]! = idx0 ∨ nxt[idx0]! = nxt.size then some (acc.reverse, dist) else
      if overAt maxLen (dist + step idx0 nxt[idx0]!) then some (acc.reverse, dist)
      else trace nxt mask maxLen step fuel nxt[idx0]! (nxt[idx0]! :: acc) (dist + step idx0 nxt[idx0]!) := by
  cases mask <;> cases maxLen <;> rfl

theorem traceM_succ {w : Nat} (nxtM : Array (BitVec w)) (mv : BitVec w) (mask : Option (Array Bool))
    (maxLen : Option Int) (step : Nat → Nat → Int) (fuel : Nat) (idx0 : BitVec w) (acc : List (BitVec w))
    (dist : Int) :
    traceM nxtM mv mask maxLen step (fuel+1) idx0 acc dist =
      if stopAt mask idx0.toNat then some (acc.reverse, dist) else
      if nxtM[idx0.toNat]! = idx0 ∨ nxtM[idx0.toNat]! = mv then some (acc.reverse, dist) else
      if overAt maxLen (dist + step idx0.toNat nxtM[idx0.toNat]!.toNat) then some (acc.reverse, dist)
      else traceM nxtM mv mask maxLen step fuel nxtM[idx0.toNat]! (nxtM[idx0.toNat]! :: acc)
        (dist + step idx0.toNat nxtM[idx0.toNat]!.toNat) := by
  cases mask <;> cases maxLen <;> rfl

theorem traceM_eq {t : IdxTy} {n : Nat} (hc : Cap t n) (nxt : Array Nat) (hsz : nxt.size = n)
    (hwf : ∀ i, i < n → nxt[i]! ≤ n) (mask : Option (Array Bool)) (maxLen : Option Int)
    (step : Nat → Nat → Int) (fuel : Nat) :
    ∀ (i0 : Nat) (acc : List Nat) (dist : Int), i0 < n →
      traceM (nxt.map (enc t n)) t.mv mask maxLen step fuel (enc t n i0) (acc.map (enc t n)) dist
        = encRes t n (trace nxt mask maxLen step fuel i0 acc dist) := by
  induction fuel with
  | zero => intro i0 acc dist _; rfl
  | succ fuel ih =>
    intro i0 acc dist hi0
    rw [traceM_succ, trace_succ]
    simp only [enc_toNat hc hi0, map_get! nxt (enc t n) (by omega : i0 < nxt.size)]
    by_cases hstop : stopAt mask i0 = true
    · simp only [hstop, if_true, encRes, Option.map_some, List.map_reverse]
    · simp only [hstop, Bool.false_eq_true, if_false]
      have hle := hwf i0 hi0
      by_cases hend : nxt[i0]! = i0 ∨ nxt[i0]! = nxt.size
      · have hendM : enc t n nxt[i0]! = enc t n i0 ∨ enc t n nxt[i0]! = t.mv := by
          rcases hend with h | h
          · exact Or.inl ((enc_inj' hc hi0 _).2 h)
          · exact Or.inr ((enc_eq_mv_iff' hc _).2 (by omega))
        rw [if_pos hend, if_pos hendM]
        simp only [encRes, Option.map_some, List.map_reverse]
      · have hendM : ¬ (enc t n nxt[i0]! = enc t n i0 ∨ enc t n nxt[i0]! = t.mv) := by
          rintro (h | h)
          · exact hend (Or.inl ((enc_inj' hc hi0 _).1 h))
          · exact hend (Or.inr (by have := (enc_eq_mv_iff' hc _).1 h; omega))
        have h1 : nxt[i0]! < n := by
          have : nxt[i0]! ≠ nxt.size := fun h => hend (Or.inr h)
          omega
        rw [if_neg hend, if_neg hendM]
        simp only [enc_toNat hc h1]
        by_cases hover : overAt maxLen (dist + step i0 nxt[i0]!) = true
        · simp only [hover, if_true, encRes, Option.map_some, List.map_reverse]
        · simp only [hover, Bool.false_eq_true, if_false]
          have := ih nxt[i0]! (nxt[i0]! :: acc) (dist + step i0 nxt[i0]!) h1
          simpa using this

/-! ### machine arrays that come from outside: decode, then re-encode -/

theorem map_enc_dec {t : IdxTy} {n : Nat} (dsM : Array (BitVec t.w)) (h : ∀ v ∈ dsM, WfM t n v) :
    (dsM.map (dec t n)).map (enc t n) = dsM := by
  apply Array.ext
  · simp
  · intro i h1 h2
    simp only [Array.getElem_map]
    exact enc_dec' (h _ (Array.getElem_mem _))

theorem list_map_enc_dec {t : IdxTy} {n : Nat} (l : List (BitVec t.w)) (h : ∀ v ∈ l, WfM t n v) :
    (l.map (dec t n)).map (enc t n) = l := by
  induction l with
  | nil => rfl
  | cons a rest ih =>
    simp only [List.map_cons]
    rw [enc_dec' (h a (by simp)), ih (fun v hv => h v (by simp [hv]))]

theorem dec_cell {t : IdxTy} {n : Nat} (hc : Cap t n) {v : BitVec t.w} (hv : v.toNat < n) :
    dec t n v = v.toNat := by
  unfold dec
  rw [if_neg]
  intro h
  rw [h, mv_toNat] at hv
  have := (cap_bound hc).1
  omega

end Pf.C16m
