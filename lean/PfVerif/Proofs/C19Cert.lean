import PfVerif.Proofs.C19Split
/-! Soundness of the decidable certificate `StreamsOK` (C19). Core Lean only. -/
namespace Pf.C19
open Pf

theorem head!_cons (x : Nat) (r : List Nat) : (x :: r).head! = x := rfl

variable {ds : Array Nat} {mask : Option (Array Bool)} {maxLen : Nat} {feats : List (List Nat)}

theorem streamsOK_parts (h : StreamsOK ds mask maxLen feats = true) :
    okLinked ds mask feats = true ∧ okOnce feats = true ∧ okCover ds mask feats = true ∧
    okInterior ds mask feats = true ∧ okEnds ds mask maxLen feats = true ∧
    okPits ds mask feats = true ∧ okSize maxLen feats = true := by
  simpa [StreamsOK, Bool.and_eq_true, and_assoc] using h

theorem linked_of_ok (h : okLinked ds mask feats = true) :
    ∀ p ∈ allPairs feats, inStream ds mask p.1 = true ∧ ds[p.1]! = p.2 ∧ p.1 ≠ p.2 := by
  intro p hp
  have := List.all_eq_true.mp h p hp
  simpa [Bool.and_eq_true, and_assoc] using this

/-- a polyline whose consecutive vertices are linked is the flow path of its first vertex -/
theorem path_of_pairs (ds : Array Nat) : ∀ (f : List Nat), (∀ p ∈ pairsOf f, ds[p.1]! = p.2) →
    ∀ k, k < f.length → f[k]? = some (iterA ds k f.head!) := by
  intro f
  induction f with
  | nil => intro _ k hk; simp at hk
  | cons x r ih =>
    intro hp k hk
    cases k with
    | zero => simp [iterA, head!_cons]
    | succ k =>
      cases r with
      | nil => simp at hk
      | cons y r' =>
        have hxy : ds[x]! = y := hp (x, y) (by rw [pairsOf_cons_cons]; simp)
        have := ih (fun p hpm => hp p (by rw [pairsOf_cons_cons]; simp [hpm])) k (by simpa using hk)
        simp only [List.getElem?_cons_succ, head!_cons, iterA] at this ⊢
        rw [hxy]; exact this

theorem mem_allPairs_of_mem {f : List Nat} (hf : f ∈ streamFeats feats) {p : Nat × Nat}
    (hp : p ∈ pairsOf f) : p ∈ allPairs feats := by
  unfold allPairs
  rw [List.mem_flatMap]
  exact ⟨f, hf, hp⟩

/-- every link of a stream cell occurs exactly once among the consecutive vertex pairs -/
theorem count_link_eq_one (hl : okLinked ds mask feats = true) (ho : okOnce feats = true)
    (hc : okCover ds mask feats = true) (i : Nat) (hi : inStream ds mask i = true) (hnp : ds[i]! ≠ i) :
    (allPairs feats).count (i, ds[i]!) = 1 := by
  have hlink := linked_of_ok hl
  have hnd : ((allPairs feats).map (·.1)).Nodup := by simpa [okOnce] using ho
  have hnd' : (allPairs feats).Nodup := List.Pairwise.of_map (·.1) (fun a b h hab => h (by rw [hab])) hnd
  have hisz : i < ds.size := by
    simp only [inStream, isValid, Bool.and_eq_true, decide_eq_true_eq] at hi
    exact hi.1.1
  have hmem : i ∈ (allPairs feats).map (·.1) := by
    have := List.all_eq_true.mp hc i (List.mem_range.mpr hisz)
    simpa [hi, hnp] using this
  rw [List.mem_map] at hmem
  obtain ⟨p, hp, hpi⟩ := hmem
  have h2 := (hlink p hp).2.1
  have hpe : p = (i, ds[i]!) := by
    cases p with
    | mk a b => simp only at hpi h2; subst hpi; rw [h2]
  rw [hpe] at hp
  rw [List.Nodup.count hnd']
  simp [hp]

/-- the zero-length feature of a pit of the stream network occurs exactly once -/
theorem count_pit_eq_one (hp : okPits ds mask feats = true) (p : Nat) (hi : inStream ds mask p = true)
    (hpit : ds[p]! = p) : feats.count [p, p] = 1 := by
  simp only [okPits, Bool.and_eq_true, decide_eq_true_eq] at hp
  obtain ⟨⟨hnd, _⟩, hall⟩ := hp
  have hisz : p < ds.size := by
    simp only [inStream, isValid, Bool.and_eq_true, decide_eq_true_eq] at hi
    exact hi.1.1
  have hmem : [p, p] ∈ pitFeats feats := by
    have := List.all_eq_true.mp hall p (List.mem_range.mpr hisz)
    simpa [hi, hpit] using this
  have hpf : isPitFeat [p, p] = true := by simp [isPitFeat]
  have : (pitFeats feats).count [p, p] = feats.count [p, p] := by
    unfold pitFeats; exact List.count_filter hpf
  rw [← this, List.Nodup.count hnd]
  simp [hmem]

theorem isPitFeat_iff (f : List Nat) : isPitFeat f = true ↔ ∃ p, f = [p, p] := by
  constructor
  · intro h
    match f, h with
    | [a, b], h =>
      have : a = b := by simpa [isPitFeat] using h
      exact ⟨a, by rw [this]⟩
  · rintro ⟨p, rfl⟩; simp [isPitFeat]

theorem pit_feat_is_pit (hp : okPits ds mask feats = true) (f : List Nat) (hf : f ∈ feats)
    (hz : isPitFeat f = true) : ∃ p, f = [p, p] ∧ inStream ds mask p = true ∧ ds[p]! = p := by
  simp only [okPits, Bool.and_eq_true, decide_eq_true_eq] at hp
  obtain ⟨⟨_, hall⟩, _⟩ := hp
  obtain ⟨p, rfl⟩ := (isPitFeat_iff f).mp hz
  have hm : [p, p] ∈ pitFeats feats := by
    unfold pitFeats; rw [List.mem_filter]; exact ⟨hf, hz⟩
  have := List.all_eq_true.mp hall [p, p] hm
  simp only [head!_cons, Bool.and_eq_true, beq_iff_eq] at this
  exact ⟨p, rfl, this.1, this.2⟩

end Pf.C19
