import PfVerif.Proofs.C03Rank
/-! Orders, loop cells, validity and repair, all relative to a rank certificate. -/
namespace Pf

/-! ### complete downstream-first orders -/

theorem completeTopo_char {ds : Array Nat} {seq : List Nat} (hwf : WF ds)
    (h : isCompleteTopo ds seq = true) :
    Topo ds seq ∧ seq.Nodup ∧ ∀ i, i ∈ seq ↔ (Valid ds i ∧ ReachesPit ds i) := by
  have htopo : isTopo ds seq = true := by
    simp only [isCompleteTopo, Bool.and_eq_true] at h; exact h.1
  obtain ⟨ht, hb⟩ := isTopo_sound' ds seq htopo
  refine ⟨ht, ht.nodup, fun i => ⟨fun hi => ⟨ht.valid hb i hi, ht.reaches i hi⟩, ?_⟩⟩
  rintro ⟨hv, k, hk⟩
  exact closed_contains_reaching ds hwf (· ∈ seq) (isCompleteTopo_closure h) k i hv hk

theorem RankCertA.nonneg_valid {ds : Array Nat} {rk : Array Int} (h : RankCertA ds rk) {i : Nat}
    (hi : i < ds.size) (h0 : 0 ≤ rk[i]!) : Valid ds i := by
  refine ⟨hi, ?_⟩
  by_cases hd : ds[i]! = ds.size
  · have := h.nodata i hi hd; omega
  · exact h.lt i hi hd

/-- a downstream-first order whose members are the cells of rank ≥ 0 lists exactly the cells draining
to a pit, once each, and its length is the number of such cells -/
theorem topo_complete' {ds : Array Nat} {rk : Array Int} {seq : List Nat} (h : RankCertA ds rk)
    (ht : Topo ds seq) (hmem : ∀ i, i ∈ seq ↔ (i < ds.size ∧ 0 ≤ rk[i]!)) :
    (∀ i, i ∈ seq ↔ (Valid ds i ∧ ReachesPit ds i)) ∧ seq.Nodup ∧
    seq.length = (List.range ds.size).countP (fun i => decide ((0:Int) ≤ rk[i]!)) := by
  refine ⟨fun i => ?_, ht.nodup, ?_⟩
  · rw [hmem]
    constructor
    · rintro ⟨hi, h0⟩
      have hv := h.nonneg_valid hi h0
      exact ⟨hv, (h.rank_nonneg_iff hv).1 h0⟩
    · rintro ⟨hv, hr⟩
      exact ⟨hv.1, (h.rank_nonneg_iff hv).2 hr⟩
  · rw [List.countP_eq_length_filter]
    apply List.Perm.length_eq
    rw [List.perm_ext_iff_of_nodup ht.nodup (List.Nodup.sublist List.filter_sublist List.nodup_range)]
    intro a
    simp [hmem a]

/-! ### rank-sorted lists are downstream-first -/

theorem sorted_closed_topo {ds : Array Nat} {rk : Array Int} (h : RankCertA ds rk) :
    ∀ (l : List Nat), l.reverse.Pairwise (fun a b => rk[a]! ≤ rk[b]!) → l.reverse.Nodup →
      (∀ i ∈ l.reverse, i < ds.size ∧ 0 ≤ rk[i]!) →
      (∀ i ∈ l.reverse, ds[i]! ≠ i → ds[i]! ∈ l.reverse) → Topo ds l.reverse := by
  intro l
  induction l with
  | nil => intro _ _ _ _; exact Topo.nil
  | cons x l ih =>
    intro hs hn hm hc
    rw [List.reverse_cons] at hs hn hm hc ⊢
    rw [List.pairwise_append] at hs
    rw [List.nodup_append] at hn
    obtain ⟨hs1, _, hs3⟩ := hs
    obtain ⟨hn1, _, hn3⟩ := hn
    have hxm := hm x (by simp)
    have hxv := h.nonneg_valid hxm.1 hxm.2
    have hxne : ds[x]! ≠ ds.size := by have := hxv.2; omega
    have hnotin : x ∉ l.reverse := fun hx => hn3 x hx x (by simp) rfl
    have hpre : Topo ds l.reverse := by
      refine ih hs1 hn1 (fun i hi => hm i (by simp [hi])) (fun j hj hp => ?_)
      have := hc j (by simp [hj]) hp
      simp only [List.mem_append, List.mem_singleton] at this
      rcases this with h1 | h1
      · exact h1
      · exfalso
        have hjm := hm j (by simp [hj])
        have hjv := h.nonneg_valid hjm.1 hjm.2
        have hjne : ds[j]! ≠ ds.size := by have := hjv.2; omega
        have hle := hs3 j hj x (by simp)
        rcases h.step j hjm.1 hjne hp with ⟨h2, _⟩ | ⟨_, h2⟩
        · omega
        · rw [h1] at h2; omega
    refine Topo.snoc hpre hnotin ?_
    by_cases hp : ds[x]! = x
    · exact Or.inl hp
    · have := hc x (by simp) hp
      simp only [List.mem_append, List.mem_singleton] at this
      rcases this with h1 | h1
      · exact Or.inr h1
      · exact absurd h1 hp

theorem seq_sort_topo' {ds : Array Nat} {rk : Array Int} {seq : List Nat} (h : RankCertA ds rk)
    (hs : seq.Pairwise (fun a b => rk[a]! ≤ rk[b]!)) (hn : seq.Nodup)
    (hmem : ∀ i, i ∈ seq ↔ (i < ds.size ∧ 0 ≤ rk[i]!)) : Topo ds seq := by
  have := sorted_closed_topo h seq.reverse (by simpa using hs) (by simpa using hn)
    (by simpa using fun i hi => (hmem i).1 hi) ?_
  · simpa using this
  · intro i hi hp
    rw [List.reverse_reverse] at hi ⊢
    have him := (hmem i).1 hi
    have hv := h.nonneg_valid him.1 him.2
    have hne : ds[i]! ≠ ds.size := by have := hv.2; omega
    rcases h.step i him.1 hne hp with ⟨h2, _⟩ | ⟨h2, _⟩
    · omega
    · exact (hmem _).2 ⟨hv.2, h2⟩

/-! ### loop cells and validity -/

theorem loops_exact' {ds : Array Nat} {rk : Array Int} (h : RankCertA ds rk) (i : Nat) :
    i ∈ (List.range ds.size).filter (fun i => rk[i]! == -1) ↔ (Valid ds i ∧ ¬ ReachesPit ds i) := by
  simp only [List.mem_filter, List.mem_range, beq_iff_eq]
  constructor
  · rintro ⟨hi, h1⟩
    have hv : Valid ds i := by
      refine ⟨hi, ?_⟩
      by_cases hd : ds[i]! = ds.size
      · have := h.nodata i hi hd; omega
      · exact h.lt i hi hd
    exact ⟨hv, (h.rank_neg_iff hv).1 h1⟩
  · rintro ⟨hv, hn⟩
    exact ⟨hv.1, (h.rank_neg_iff hv).2 hn⟩

theorem isvalid_iff' {ds : Array Nat} {rk : Array Int} (h : RankCertA ds rk) :
    ((List.range ds.size).all (fun i => rk[i]! != -1) = true) ↔ ∀ i, Valid ds i → ReachesPit ds i := by
  simp only [List.all_eq_true, List.mem_range, bne_iff_ne, ne_eq]
  constructor
  · intro hall i hv
    have := hall i hv.1
    rcases h.range hv with h1 | h1
    · exact absurd h1 this
    · exact (h.rank_nonneg_iff hv).1 h1
  · intro hall i hi h1
    have hv : Valid ds i := by
      refine ⟨hi, ?_⟩
      by_cases hd : ds[i]! = ds.size
      · have := h.nodata i hi hd; omega
      · exact h.lt i hi hd
    exact (h.rank_neg_iff hv).1 h1 (hall i hv)

/-! ### repair -/

theorem addPits_size (ds : Array Nat) (l : List Nat) : (addPits ds l).size = ds.size := by
  unfold addPits
  induction l generalizing ds with
  | nil => rfl
  | cons x l ih => simp [List.foldl_cons, ih]

theorem addPits_get (ds : Array Nat) (l : List Nat) (j : Nat) :
    (addPits ds l)[j]! = if j ∈ l ∧ j < ds.size then j else ds[j]! := by
  unfold addPits
  induction l generalizing ds with
  | nil => simp
  | cons x l ih =>
    rw [List.foldl_cons, ih, get!_setIfInBounds]
    simp only [Array.size_setIfInBounds, List.mem_cons]
    by_cases hjl : j ∈ l <;> by_cases hj : j < ds.size <;> by_cases hx : x = j <;> simp_all
    · intro h; exact absurd h.symm hx
    · intro h; exact absurd h.symm hx

theorem repairBy_get (ds : Array Nat) (rk : Array Int) (j : Nat) :
    (repairBy ds rk)[j]! = if rk[j]! = -1 ∧ j < ds.size then j else ds[j]! := by
  unfold repairBy
  rw [addPits_get]
  simp only [List.mem_filter, List.mem_range, beq_iff_eq]
  by_cases h1 : rk[j]! = -1 <;> by_cases h2 : j < ds.size <;> simp [h1, h2]

theorem rankAfterRepair_get (rk : Array Int) (j : Nat) :
    (rankAfterRepair rk)[j]! = if rk[j]! = -1 then 0 else rk[j]! := by
  unfold rankAfterRepair
  by_cases hj : j < rk.size
  · simp [hj]
  · simp [hj]

theorem repair_cert' {ds : Array Nat} {rk : Array Int} (h : RankCertA ds rk) :
    RankCertA (repairBy ds rk) (rankAfterRepair rk) := by
  have hsz : (repairBy ds rk).size = ds.size := addPits_size _ _
  refine ⟨by simp [rankAfterRepair, hsz, h.size], ?_, ?_, ?_, ?_⟩
  all_goals (intro i hi; rw [hsz] at hi; simp only [hsz, repairBy_get, rankAfterRepair_get])
  · intro hd
    by_cases h1 : rk[i]! = -1
    · simp only [h1, hi, and_self, if_true] at hd; omega
    · simp only [h1, false_and, if_false] at hd
      simp [h.nodata i hi hd]
  · intro hd
    by_cases h1 : rk[i]! = -1
    · simp [h1, hi]
    · simp only [h1, false_and, if_false] at hd ⊢
      exact h.lt i hi hd
  · intro hd
    by_cases h1 : rk[i]! = -1
    · simp [h1]
    · simp only [h1, false_and, if_false] at hd
      simp [h.pit i hi hd]
  · intro hd hp
    by_cases h1 : rk[i]! = -1
    · simp [h1, hi] at hp
    · simp only [h1, false_and, if_false] at hd hp ⊢
      rcases h.step i hi hd hp with ⟨h2, _⟩ | ⟨h2, h3⟩
      · exact absurd h2 h1
      · have hne : rk[ds[i]!]! ≠ -1 := by omega
        refine Or.inr ?_
        simp only [hne, if_false]
        exact ⟨h2, h3⟩

end Pf
