import PfVerif.Proofs.C06Elv
/-! `max_depth >= 0`: the measure of the depth-limited priority flood (heap size + cells not done),
which drops by one per pop and rises by at most 10 per too-deep event; termination given a bound on
the number of too-deep events. Core Lean only. -/
namespace Pf.C06
open Pf

/-! ### sizes -/
def SizedD (G : Grid) (s : StD) : Prop :=
  s.done.size = G.n ∧ s.queued.size = G.n ∧ s.f.size = G.n ∧ s.d8.size = G.n ∧ s.delv.size = G.n

theorem reopen_size (G : Grid) (conn : Nat) (nod : Array Bool) (j : Nat) (d : Array Bool) :
    (reopen G conn nod j d).size = d.size := by
  unfold reopen
  generalize offsets conn = l
  induction l generalizing d with
  | nil => rfl
  | cons o l ih =>
    simp only [List.foldl_cons]
    rw [ih]
    split
    · split <;> simp
    · rfl

theorem sizedD_deep {G : Grid} {conn : Nat} {elev : Array Int} {nod : Array Bool} (s : StD) (j : Nat)
    (h : SizedD G s) : SizedD G (deepStep G conn elev nod s j) := by
  obtain ⟨h1, h2, h3, h4, h5⟩ := h
  exact ⟨by simp [deepStep, reopen_size, h1], by simp [deepStep, h2], h3, h4, h5⟩

theorem sizedD_reset {G : Grid} {elev : Array Int} (s : StD) (j : Nat) (h : SizedD G s) :
    SizedD G (resetStep elev s j) := by
  obtain ⟨h1, h2, h3, h4, h5⟩ := h
  unfold resetStep
  split
  · exact ⟨h1, by simp [h2], by simp [h3], h4, by simp [h5]⟩
  · exact ⟨h1, h2, h3, h4, h5⟩

theorem sizedD_fill {G : Grid} {elev : Array Int} {z0 : Int} (s : StD) (j code : Nat) (h : SizedD G s) :
    SizedD G (fillStep elev z0 s j code) := by
  obtain ⟨h1, h2, h3, h4, h5⟩ := h
  unfold fillStep
  refine ⟨by simp [h1], ?_, ?_, by simp [h4], ?_⟩
  · simp only; split <;> simp [h2]
  · simp only; split <;> simp [h3]
  · simp only; split <;> simp [h5]

theorem sizedD_visit {G : Grid} {conn : Nat} {elev : Array Int} {nod : Array Bool} {md z0 : Int} {i0 : Nat}
    (s : StD) (o : Int × Int) (h : SizedD G s) : SizedD G (visitD G conn elev nod md z0 i0 s o) := by
  unfold visitD
  split
  · exact h
  · split
    · exact h
    · split
      · exact sizedD_deep s _ h
      · exact sizedD_fill _ _ _ (sizedD_reset s _ h)

theorem sizedD_fold {G : Grid} {conn : Nat} {elev : Array Int} {nod : Array Bool} {md z0 : Int} {i0 : Nat}
    (l : List (Int × Int)) (s : StD) (h : SizedD G s) :
    SizedD G (l.foldl (visitD G conn elev nod md z0 i0) s) := by
  induction l generalizing s with
  | nil => exact h
  | cons o l ih => exact ih _ (sizedD_visit s o h)

/-! ### the potential -/

/-- potential of the depth-limited loop: heap size + number of cells that are not done -/
def potD (G : Grid) (s : StD) : Nat := s.q.length + unq G.n s.done

theorem countP_set_false_le (a : Array Bool) (k : Nat) (l : List Nat) (hl : l.Nodup) :
    l.countP (fun c => !(a.setIfInBounds k false)[c]!) ≤ l.countP (fun c => !a[c]!) + (if k ∈ l then 1 else 0) := by
  induction l with
  | nil => simp
  | cons x r ih =>
    have hn := List.nodup_cons.1 hl
    have ih := ih hn.2
    rw [List.countP_cons, List.countP_cons, get!_setIfInBounds]
    by_cases hkx : k = x
    · subst hkx
      have : k ∉ r := hn.1
      simp only [this, if_false, Nat.add_zero] at ih
      simp only [List.mem_cons, true_or, if_true]
      split <;> split <;> omega
    · have h1 : ¬ (k = x ∧ k < a.size) := fun h => hkx h.1
      have h2 : (k ∈ x :: r) ↔ k ∈ r := by simp [hkx]
      simp only [h1, if_false, h2]
      omega

theorem unq_set_false_le (n : Nat) (a : Array Bool) (k : Nat) :
    unq n (a.setIfInBounds k false) ≤ unq n a + 1 := by
  have := countP_set_false_le a k (List.range n) List.nodup_range
  unfold unq
  split at this <;> omega

theorem unq_reopen_le (G : Grid) (conn : Nat) (nod : Array Bool) (j : Nat) (d : Array Bool) :
    unq G.n (reopen G conn nod j d) ≤ unq G.n d + (offsets conn).length := by
  unfold reopen
  generalize offsets conn = l
  induction l generalizing d with
  | nil => simp
  | cons o l ih =>
    simp only [List.foldl_cons, List.length_cons]
    refine Nat.le_trans (ih _) ?_
    split
    · split
      · omega
      · have := unq_set_false_le G.n d (by assumption); omega
    · omega

theorem offsets_length_le (conn : Nat) : (offsets conn).length ≤ 9 := by
  unfold offsets; split <;> simp

theorem potD_deep {G : Grid} {conn : Nat} {elev : Array Int} {nod : Array Bool} (s : StD) (j : Nat) :
    (deepStep G conn elev nod s j).ev = s.ev + 1 ∧
    potD G (deepStep G conn elev nod s j) ≤ potD G s + 10 := by
  refine ⟨rfl, ?_⟩
  unfold potD deepStep
  simp only [length_hpush]
  have := unq_reopen_le G conn nod j s.done
  have := offsets_length_le conn
  omega

theorem potD_reset {G : Grid} {elev : Array Int} (s : StD) (j : Nat) :
    (resetStep elev s j).ev = s.ev ∧ potD G (resetStep elev s j) = potD G s ∧
    (resetStep elev s j).done = s.done := by
  unfold resetStep
  split <;> exact ⟨rfl, rfl, rfl⟩

theorem potD_fill {G : Grid} {elev : Array Int} {z0 : Int} (s : StD) (j code : Nat) (hs : SizedD G s)
    (hj : j < G.n) (hd : s.done[j]! = false) :
    (fillStep elev z0 s j code).ev = s.ev ∧ potD G (fillStep elev z0 s j code) ≤ potD G s := by
  refine ⟨rfl, ?_⟩
  unfold potD fillStep
  simp only
  have h1 := unq_set s.done j hs.1 hj hd
  split
  · simp only [length_hpush]; omega
  · omega

/-- one visit: the potential rises by at most 10 per too-deep event and never otherwise -/
theorem potD_visit {G : Grid} {conn : Nat} {elev : Array Int} {nod : Array Bool} {md z0 : Int} {i0 : Nat}
    (s : StD) (o : Int × Int) (hs : SizedD G s) :
    s.ev ≤ (visitD G conn elev nod md z0 i0 s o).ev ∧
    potD G (visitD G conn elev nod md z0 i0 s o) + 10 * s.ev ≤
      potD G s + 10 * (visitD G conn elev nod md z0 i0 s o).ev := by
  unfold visitD
  split
  · exact ⟨Nat.le_refl _, Nat.le_refl _⟩
  · rename_i j hsh
    have hj : j < G.n := (shift_spec.1 hsh).1
    by_cases hd : s.done[j]! = true
    · rw [if_pos hd]; exact ⟨Nat.le_refl _, Nat.le_refl _⟩
    · rw [if_neg hd]
      have hd' : s.done[j]! = false := by simpa using hd
      split
      · obtain ⟨a, b⟩ := potD_deep (G := G) (conn := conn) (elev := elev) (nod := nod) s j
        rw [a]; exact ⟨Nat.le_succ _, by omega⟩
      · obtain ⟨r1, r2, r3⟩ := potD_reset (G := G) (elev := elev) s j
        obtain ⟨a, b⟩ := potD_fill (G := G) (elev := elev) (z0 := z0) (resetStep elev s j) j (usCode o.1 o.2)
          (sizedD_reset s j hs) hj (by rw [r3]; exact hd')
        rw [a, r1]
        exact ⟨Nat.le_refl _, by omega⟩

theorem potD_fold {G : Grid} {conn : Nat} {elev : Array Int} {nod : Array Bool} {md z0 : Int} {i0 : Nat}
    (l : List (Int × Int)) (s : StD) (hs : SizedD G s) :
    s.ev ≤ (l.foldl (visitD G conn elev nod md z0 i0) s).ev ∧
    potD G (l.foldl (visitD G conn elev nod md z0 i0) s) + 10 * s.ev ≤
      potD G s + 10 * (l.foldl (visitD G conn elev nod md z0 i0) s).ev := by
  induction l generalizing s with
  | nil => exact ⟨Nat.le_refl _, Nat.le_refl _⟩
  | cons o l ih =>
    simp only [List.foldl_cons]
    obtain ⟨a1, a2⟩ := potD_visit (conn := conn) (elev := elev) (nod := nod) (md := md) (z0 := z0) (i0 := i0) s o hs
    obtain ⟨b1, b2⟩ := ih _ (sizedD_visit s o hs)
    exact ⟨Nat.le_trans a1 b1, by omega⟩

/-- **the measure**: every iteration of the `while` loop lowers `potD` by at least one, except that
each too-deep event may add up to 10. So after `fuel` iterations with a non-empty heap,
`fuel + potD ≤ potD₀ + 10 · (events so far)`. -/
theorem potD_loop {G : Grid} {conn : Nat} {elev : Array Int} {nod : Array Bool} {md : Int}
    (fuel : Nat) (s : StD) (hs : SizedD G s) :
    s.ev ≤ (fillLoopD G conn elev nod md fuel s).ev ∧
    ((fillLoopD G conn elev nod md fuel s).q ≠ [] →
      fuel + potD G (fillLoopD G conn elev nod md fuel s) + 10 * s.ev ≤
        potD G s + 10 * (fillLoopD G conn elev nod md fuel s).ev) := by
  induction fuel generalizing s with
  | zero =>
    unfold fillLoopD
    exact ⟨Nat.le_refl _, fun _ => by omega⟩
  | succ k ih =>
    unfold fillLoopD
    split
    · rename_i hq
      exact ⟨Nat.le_refl _, fun h => absurd hq h⟩
    · rename_i h rest hq
      have hs0 : SizedD G { s with q := rest } := hs
      obtain ⟨a1, a2⟩ := potD_fold (conn := conn) (elev := elev) (nod := nod) (md := md) (z0 := h.z)
        (i0 := h.idx) (offsets conn) { s with q := rest } hs0
      obtain ⟨b1, b2⟩ := ih (popStepD G conn elev nod md h { s with q := rest }) (sizedD_fold _ _ hs0)
      have hp0 : potD G { s with q := rest } + 1 = potD G s := by
        unfold potD; rw [hq]; simp only [List.length_cons]; omega
      have hev0 : ({ s with q := rest } : StD).ev = s.ev := rfl
      rw [hev0] at a1 a2
      unfold popStepD at b1 b2 ⊢
      refine ⟨Nat.le_trans a1 b1, fun hne => ?_⟩
      have := b2 hne
      omega


theorem sizedD_init {G : Grid} {elev : Array Int} {nod seed : Array Bool} (hN : nod.size = G.n)
    (hE : elev.size = G.n) (hS : seed.size = G.n) : SizedD G (initStateD G elev nod seed) :=
  ⟨by simp [initStateD, hN], by simp [initStateD, hS], by simp [initStateD, hE],
    by simp [initStateD, hN], by simp [initStateD]⟩

theorem potD_init_le (G : Grid) (elev : Array Int) (nod seed : Array Bool) :
    potD G (initStateD G elev nod seed) ≤ 2 * G.n := by
  unfold potD initStateD initHeap unq
  simp only
  rw [length_initHeap_fold]
  have h1 := List.countP_le_length (p := fun c => seed[c]!) (l := List.range G.n)
  have h2 := List.countP_le_length (p := fun c => !nod[c]!) (l := List.range G.n)
  simp only [List.length_range, List.length_nil] at h1 h2 ⊢
  omega

/-- **termination of the depth-limited fill, given a bound on the too-deep events**: if the run saw at
most `n` too-deep events (one per cell), the loop ended with an empty heap within `fuelD = 12 n + 1`
pops. Contrapositive: a run that exhausts its fuel has seen more than `n` too-deep events. -/
theorem fillModelDepth_fin_of_events {G : Grid} {conn : Nat} {elev : Array Int} {nod : Array Bool}
    {pits : Option (List Nat)} {minMode : Bool} {elvMax : Option Int} {md : Int}
    {f : Array Int} {d8 : Array Nat} {fin : Bool} {ev : Nat} {evc : Array Nat}
    (hN : nod.size = G.n) (hE : elev.size = G.n)
    (h : fillModelDepth G conn elev nod pits minMode elvMax md = .ok (f, d8, fin, ev, evc))
    (hev : ev ≤ G.n) : fin = true := by
  unfold fillModelDepth at h
  split at h
  · cases h
  · rename_i seed hseed
    injection h with h
    simp only [Prod.mk.injEq] at h
    obtain ⟨_, _, h3, h4, _⟩ := h
    have hs := sizedD_init (elev := elev) hN hE (seedsOfE_size hseed)
    obtain ⟨_, hl⟩ := potD_loop (conn := conn) (elev := elev) (nod := nod) (md := md) (fuelD G) _ hs
    have hp := potD_init_le G elev nod seed
    rw [← h3]
    cases hq : (fillLoopD G conn elev nod md (fuelD G) (initStateD G elev nod seed)).q with
    | nil => rfl
    | cons a r =>
      have := hl (by rw [hq]; simp)
      rw [h4] at this
      have h0 : (initStateD G elev nod seed).ev = 0 := rfl
      unfold fuelD at this
      omega

end Pf.C06
