import PfVerif.Proofs.C18PfInner
import PfVerif.Proofs.C18PfLinkInv
import PfVerif.Proofs.C18PfRefInv
/-! Pfafstetter link rule (stage 4): the inner loop `pfInner` keeps, in addition to the joint invariant of
`pfInner_joint`, the link invariant `PfHIn` and the queue discipline. Core Lean only. -/
namespace Pf.C18
open Pf

/-- queue discipline and position of the pending blocks while `pfInner (pfaf0, d0)` runs -/
structure PfQIn (depth : Nat) (labs : List (Int × Nat)) (pfaf0 : Int) (d0 : Nat) (p lo hi : Int) : Prop where
  qlev : ∀ en ∈ labs, d0 ≤ en.2 ∧ en.2 ≤ d0 + 1 ∧ en.2 ≤ depth ∧
    en.1 % (10 : Int) ^ (depth - en.2 + 1) = R1 (depth - en.2 + 1)
  qsorted : labs.Pairwise (fun a b => a.2 ≤ b.2)
  i1p : ∀ en ∈ labs, en.1 + Bsz depth en.2 ≤ pfaf0 ∨ hi ≤ en.1 ∨
    (pfaf0 + p ≤ en.1 ∧ en.1 + Bsz depth en.2 ≤ lo ∧ en.2 = d0 + 1)

theorem mem_push {α : Type} {b : Prop} [Decidable b] {labs : List α} {x en : α}
    (h : en ∈ (if b then labs ++ [x] else labs)) : en ∈ labs ∨ (b ∧ en = x) := by
  split at h
  · rename_i hb
    rcases List.mem_append.1 h with h | h
    · exact Or.inl h
    · exact Or.inr ⟨hb, by simpa using h⟩
  · exact Or.inl h

/-- writing the code `lo` and queueing it one level deeper -/
theorem PfQIn.push {depth d0 : Nat} {labs : List (Int × Nat)} {pfaf0 p lo hi : Int}
    (h : PfQIn depth labs pfaf0 d0 p lo hi) (hpe : p = (10 : Int) ^ (depth - d0))
    (hlo : pfaf0 + p ≤ lo)
    (hR : lo % (10 : Int) ^ (depth - d0) = R1 (depth - d0)) :
    PfQIn depth (if d0 < depth then labs ++ [(lo, d0 + 1)] else labs) pfaf0 d0 p (lo + p) hi := by
  refine ⟨fun en hen => ?_, ?_, fun en hen => ?_⟩
  · rcases mem_push hen with h1 | ⟨hb, h1⟩
    · exact h.qlev en h1
    · subst h1
      refine ⟨by simp, by simp, by simp; omega, ?_⟩
      have : depth - (d0 + 1) + 1 = depth - d0 := by omega
      simp only [this]
      exact hR
  · split
    · rw [List.pairwise_append]
      refine ⟨h.qsorted, by simp, fun a ha b hb => ?_⟩
      simp only [List.mem_singleton] at hb
      subst hb
      exact (h.qlev a ha).2.1
    · exact h.qsorted
  · rcases mem_push hen with h1 | ⟨hb, h1⟩
    · rcases h.i1p en h1 with h2 | h2 | h2
      · exact Or.inl h2
      · exact Or.inr (Or.inl h2)
      · exact Or.inr (Or.inr ⟨h2.1, by omega, h2.2.2⟩)
    · subst h1
      right; right
      simp only
      rw [Bsz_push hb, ← hpe]
      exact ⟨hlo, Int.le_refl _, trivial⟩

theorem PfQIn.mono {depth d0 : Nat} {labs : List (Int × Nat)} {pfaf0 p lo lo' hi : Int}
    (h : PfQIn depth labs pfaf0 d0 p lo hi) (hle : lo ≤ lo') : PfQIn depth labs pfaf0 d0 p lo' hi :=
  ⟨h.qlev, h.qsorted, fun en hen => by
    rcases h.i1p en hen with h2 | h2 | h2
    · exact Or.inl h2
    · exact Or.inr (Or.inl h2)
    · exact Or.inr (Or.inr ⟨h2.1, by omega, h2.2.2⟩)⟩

theorem PfQIn.toPfQ {depth d0 : Nat} {labs : List (Int × Nat)} {pfaf0 p lo hi : Int}
    (h : PfQIn depth labs pfaf0 d0 p lo hi) (hd0 : 1 ≤ d0) : PfQ depth labs :=
  ⟨h.qsorted, fun a ha b hb => by
      have := h.qlev a ha; have := h.qlev b hb; omega,
    fun en hen => by
      obtain ⟨h1, _, h3, h4⟩ := h.qlev en hen
      exact ⟨by omega, h3, h4⟩⟩

theorem pf_k_bound {k : Int} {i : Nat} {p pfaf0 : Int} (hk : 0 ≤ k) (hki : k ≤ i) (hp : 0 < p) :
    pfaf0 ≤ pfaf0 + 2 * k * p ∧ pfaf0 + 2 * k * p < pfaf0 + (2 * (i : Int) + 1) * p ∧
      0 ≤ 2 * k * p ∧ 2 * k * p ≤ 2 * (i : Int) * p := by
  have h1 : 2 * k * p ≤ 2 * (i : Int) * p := Int.mul_le_mul_of_nonneg_right (by omega) (by omega)
  have h2 : 0 ≤ 2 * k * p := Int.mul_nonneg (by omega) (by omega)
  have h3 : (2 * (i : Int) + 1) * p = 2 * (i : Int) * p + p := by grind
  omega

theorem pf_two (i : Nat) (p a : Int) :
    a + (2 * (i : Int) + 1) * p + p = a + (2 * (i : Int) + 2) * p ∧
    a + (2 * (i : Int) + 1) * p + p = a + 2 * (((i + 1 : Nat) : Int)) * p ∧
    (2 * (i : Int) + 1) * p = 2 * (i : Int) * p + p := by
  refine ⟨by grind, by grind, by grind⟩

/-- the part of the invariant that the link rule adds, for one state of `pfInner` -/
structure PfLinkIn (ds : Array Nat) (uparea : Array Int) (depth : Nat) (br : Array Int) (idxs : List Nat)
    (labs : List (Int × Nat)) (pfaf0 : Int) (d0 : Nat) (p lo hi : Int) (i : Nat) (intDs : Int)
    (l : List Nat) : Prop where
  h : PfHIn ds uparea depth br idxs labs pfaf0 d0 lo hi l
  q : PfQIn depth labs pfaf0 d0 p lo hi
  intk : ∃ k : Int, 0 ≤ k ∧ k ≤ i ∧ intDs = pfaf0 + 2 * k * p
  remk : ∀ t ∈ l, ∃ k : Int, 0 ≤ k ∧ k ≤ i ∧ br[ds[t]!]! = pfaf0 + 2 * k * p

variable {ds usMain : Array Nat} {seq : List Nat} {uparea so : Array Int}

/-- **the inner loop keeps the joint invariant, the link invariant and the queue discipline** -/
theorem pfInner_link (c : PfCtx ds usMain seq uparea) (depth : Nat) (pfaf0 : Int) (d0 : Nat)
    (hp0 : 0 < pfaf0) (hd0 : 1 ≤ d0) (hd0' : d0 ≤ depth)
    (hbase : pfaf0 % (10 : Int) ^ (depth - d0 + 1) = R1 (depth - d0 + 1))
    (W : Prop) (soraw : Array Int)
    (hS : W → (∀ s : Nat, so[s]! ≠ 0 → soraw[s]! ≠ 0) ∧
      (∀ c, c < ds.size → usMain[c]! < ds.size →
        soraw[usMain[c]!]! = 0 ∨ soraw[usMain[c]!]! = soraw[c]!))
    (br0 : Array Int) :
    ∀ (l : List Nat) (i : Nat) (st r : PfSt × Int × Bool), i + l.length ≤ 4 →
      pfInner ds usMain so depth pfaf0 d0 l i st = some r →
      PfG ds usMain so st.1.1 st.1.2.1 →
      PfFreshIn depth st.1.1 st.1.2.2 (pfaf0 + (2 * (i : Int) + 1) * (10 : Int) ^ (depth - d0))
        (pfaf0 + 10 * (10 : Int) ^ (depth - d0)) →
      PfRem ds usMain seq uparea st.1.1 st.1.2.1 st.2.1 l → st.2.1 ≠ 0 → LabsPos st.1.2.2 →
      PfLinkIn ds uparea depth st.1.1 st.1.2.1 st.1.2.2 pfaf0 d0 ((10 : Int) ^ (depth - d0))
        (pfaf0 + (2 * (i : Int) + 1) * (10 : Int) ^ (depth - d0))
        (pfaf0 + 10 * (10 : Int) ^ (depth - d0)) i st.2.1 l →
      (W → PfOrdIn ds soraw st.1.1 st.1.2.2 st.2.1 d0 l) →
      PfEvo ds br0 st.1.1 pfaf0 (pfaf0 + (2 * (i : Int) + 1) * (10 : Int) ^ (depth - d0)) →
      PfG ds usMain so r.1.1 r.1.2.1 ∧ PfFresh depth r.1.1 r.1.2.2 ∧ LabsPos r.1.2.2 ∧
        r.2.2 = st.2.2 ∧ PfH ds depth r.1.1 r.1.2.1 r.1.2.2 ∧ PfQ depth r.1.2.2 ∧
        (W → PfOrd soraw r.1.1 r.1.2.2) ∧
        PfEvo ds br0 r.1.1 pfaf0 (pfaf0 + 9 * (10 : Int) ^ (depth - d0)) ∧
        (∀ en ∈ r.1.2.2, d0 ≤ en.2) := by
  intro l
  induction l with
  | nil =>
    intro i st r hlen hr g fr _ _ hl lk od ev
    simp only [pfInner, Option.some.injEq] at hr; subst hr
    refine ⟨g, fr.toPfFresh, hl, rfl, lk.h.toPfH, lk.q.toPfQ hd0, fun w => (od w).ord, ev.mono ?_,
      fun en hen => (lk.q.qlev en hen).1⟩
    have hpp : (0 : Int) < (10 : Int) ^ (depth - d0) := pow10_pos _
    have : (2 * (i : Int) + 1) * (10 : Int) ^ (depth - d0) ≤ 9 * (10 : Int) ^ (depth - d0) :=
      Int.mul_le_mul_of_nonneg_right (by simp only [List.length_nil] at hlen; omega) (by omega)
    omega
  | cons t rest ih =>
    intro i st r hlen hr g fr rem hint hl lk od ev
    obtain ⟨⟨br, idxs, labs⟩, intDs, ok⟩ := st
    simp only at g fr rem hint hl lk od ev
    simp only [List.length_cons] at hlen
    obtain ⟨p, hpe⟩ : ∃ p, p = (10 : Int) ^ (depth - d0) := ⟨_, rfl⟩
    have hpp : 0 < p := by rw [hpe]; exact pow10_pos _
    rw [← hpe] at fr lk ev
    have hbound := pf_lo_bound i (by omega) p hpp
    obtain ⟨htwo1, htwo2, htwo3⟩ := pf_two i p pfaf0
    have h2ip : 0 ≤ 2 * (i : Int) * p := Int.mul_nonneg (by omega) (by omega)
    -- the current tributary
    obtain ⟨hts, htd, ht0, htm, htc⟩ := rem.r1 t (by simp)
    have htlt := c.hb t hts
    have hdm : ds[t]! ∈ seq := c.topo.ds_mem t hts
    have hrest : ∀ t' ∈ rest, t' ∈ t :: rest := fun t' h => List.mem_cons_of_mem _ h
    have hnd := List.nodup_cons.1 rem.nodup
    have hso := List.pairwise_cons.1 rem.sorted
    have hsub0 : pfaf0 + (2 * (i : Int) + 1) * p ≠ 0 := by omega
    have hsubpos : 0 < pfaf0 + (2 * (i : Int) + 1) * p := by omega
    have hfr1 : ∀ s : Nat, br[s]! ≠ pfaf0 + (2 * (i : Int) + 1) * p := by
      intro s; rcases fr.i2 s with h | h <;> omega
    obtain ⟨k0, hk0, hk0i, hBk⟩ := lk.remk t (by simp)
    obtain ⟨kb1, kb2, kb3, kb4⟩ := pf_k_bound (pfaf0 := pfaf0) hk0 hk0i hpp
    obtain ⟨kI, hkI0, hkIi, hintk⟩ := lk.intk
    obtain ⟨kc1, kc2, kc3, kc4⟩ := pf_k_bound (pfaf0 := pfaf0) hkI0 hkIi hpp
    have hlinkT : LinkE (depth - d0) (pfaf0 + (2 * (i : Int) + 1) * p) (pfaf0 + 2 * k0 * p) := by
      rw [hpe]; exact LinkE.new hbase hk0 (by omega) (by omega)
    have hlinkI : LinkE (depth - d0) (pfaf0 + (2 * (i : Int) + 1) * p + p) (pfaf0 + 2 * kI * p) := by
      rw [htwo1, hpe]; exact LinkE.new hbase hkI0 (by omega) (by omega)
    have hRsub : (pfaf0 + (2 * (i : Int) + 1) * p) % (10 : Int) ^ (depth - d0) = R1 (depth - d0) := by
      rw [hpe]; exact R1_push hbase _
    have hRint : (pfaf0 + (2 * (i : Int) + 1) * p + p) % (10 : Int) ^ (depth - d0) = R1 (depth - d0) := by
      rw [htwo1, hpe]; exact R1_push hbase _
    have href : ∀ e, depth - d0 < e →
        (pfaf0 + 2 * kI * p) / (10 : Int) ^ e = (pfaf0 + (2 * (i : Int) + 1) * p + p) / (10 : Int) ^ e := by
      intro e he
      rw [Int.add_assoc pfaf0]
      refine quot_refine hbase kc3 ?_ (by omega) ?_ he
      · rw [← hpe]; omega
      · rw [← hpe]; omega
    simp only [pfInner] at hr
    rw [← hpe] at hr
    split at hr
    · cases hr
    · rename_i br1 h1
      obtain ⟨g1, hw1, hclo1⟩ := g.step_sub c.hus htlt ht0 (Or.inr htc) hsub0 hfr1 h1
      have hw1' : ∀ s : Nat, br1[s]! = br[s]! ∨ br1[s]! = pfaf0 + (2 * (i : Int) + 1) * p := by
        intro s; rcases hw1 s with h | h
        · exact Or.inl h
        · exact Or.inr h.1
      have hkeep : ∀ s : Nat, br[s]! ≠ 0 → br1[s]! = br[s]! := by
        intro s hs; rcases hw1 s with h | h
        · exact h
        · exact absurd h.2.1 hs
      have hbr1t : br1[t]! = pfaf0 + (2 * (i : Int) + 1) * p := by
        rcases hw1 t with h | h
        · exfalso; exact (g1.inv.out t (by simp)).2 (by rw [h]; exact ht0)
        · exact h.1
      have fr1 := fr.write hpp (by omega) hw1' (d0 < depth) (d0 + 1) (fun h => by rw [hpe]; exact Bsz_push h)
      have hl1 := labsPos_push hl hsubpos (d0 < depth) (d0 + 1)
      have rem1 : PfRem ds usMain seq uparea br1 (idxs ++ [t]) intDs rest := by
        refine ⟨fun t' ht' => ?_, fun t' ht' => ?_, hso.2, hnd.2⟩
        · obtain ⟨a1, a2, a3, a4, a5⟩ := rem.r1 t' (hrest t' ht')
          refine ⟨a1, a2, ?_, a4, by rw [hkeep _ a5]; exact a5⟩
          rcases hw1 t' with h | h
          · rw [h]; exact a3
          · rcases h.2.2 with h | h
            · exact absurd (h ▸ ht') hnd.1
            · exact absurd h.2 a5
        · rcases rem.r2 t' (hrest t' ht') with h | h
          · left; rw [hkeep _ (by rw [h]; exact hint)]; exact h
          · right; exact List.mem_append_left _ h
      -- link part after the sub-basin fill
      have q1 := lk.q.push hpe (by omega) hRsub
      have hsame1 : ∀ o ∈ idxs, ds[o]! ≠ o → br1[o]! = br[o]! ∧ br1[ds[o]!]! = br[ds[o]!]! := by
        intro o ho _
        obtain ⟨olt, one⟩ := g.inv.out o ho
        exact ⟨hkeep o one, hkeep _ (g.dn o olt one)⟩
      have hB1 : br1[ds[t]!]! = pfaf0 + 2 * k0 * p := by rw [hkeep _ htc]; exact hBk
      have H1 : PfHIn ds uparea depth br1 (idxs ++ [t])
          (if d0 < depth then labs ++ [(pfaf0 + (2 * (i : Int) + 1) * p, d0 + 1)] else labs) pfaf0 d0
          (pfaf0 + (2 * (i : Int) + 1) * p + p) (pfaf0 + 10 * p) (t :: rest) := by
        have H1a := lk.h.keep (br' := br1) (lo' := pfaf0 + (2 * (i : Int) + 1) * p + p) (l' := t :: rest)
          (labs' := if d0 < depth then labs ++ [(pfaf0 + (2 * (i : Int) + 1) * p, d0 + 1)] else labs)
          hsame1 (by omega) (fun _ h => h) (fun en hen => by
            rcases mem_push hen with h | ⟨hb, h⟩
            · exact Or.inl h
            · exact Or.inr ⟨by rw [h], hb⟩)
        refine H1a.add hd0 hd0' (by rw [hbr1t, hB1]; exact hlinkT) (by rw [hB1]; omega)
          (fun t' ht' => ?_) ?_
        · rcases List.mem_cons.1 ht' with h | h
          · rw [h]; exact Int.le_refl _
          · exact hso.1 t' h
        · exact pend_of_blocks (fun en hen => ⟨(q1.qlev en hen).1, (q1.qlev en hen).2.2.1⟩) q1.i1p
            (by rw [hB1]; omega) (by omega) hd0'
      have remk1 : ∀ t' ∈ rest, ∃ k : Int, 0 ≤ k ∧ k ≤ (i : Int) ∧ br1[ds[t']!]! = pfaf0 + 2 * k * p := by
        intro t' ht'
        obtain ⟨k, a1, a2, a3⟩ := lk.remk t' (hrest t' ht')
        exact ⟨k, a1, a2, by rw [hkeep _ (rem.r1 t' (hrest t' ht')).2.2.2.2]; exact a3⟩
      -- stream orders of the new stem, evolution of the codes
      have od1 : W → PfOrdIn ds soraw br1 (if d0 < depth then labs ++ [(pfaf0 + (2 * (i : Int) + 1) * p, d0 + 1)]
          else labs) intDs d0 rest := by
        intro w
        obtain ⟨hz, hmainS⟩ := hS w
        refine (od w).write hrest hw1' hfr1 (fun s hs => ?_) (fun en hen => ?_) (d0 < depth) intDs
          (Or.inr ⟨rfl, by omega⟩)
        · have := hclo1 (fun s => soraw[s]! = soraw[t]!) rfl (fun s _ hs hds _ hP hu hso => by
            rcases hmainS ds[s]! hds (by rw [hu]; exact hs) with h | h
            · rw [hu] at h; exact absurd h (hz s hso)
            · rw [hu] at h; rw [h]; exact hP) s hs
          rw [this]; exact ((od w).ol t (by simp)).2
        · have := Bsz_pos depth en.2
          rcases fr.i1 en hen with h | h <;> omega
      have ev1 : PfEvo ds br0 br1 pfaf0 (pfaf0 + (2 * (i : Int) + 1) * p + p) := by
        refine ev.sub_step hp0 (v := pfaf0 + (2 * (i : Int) + 1) * p) (by omega) (by omega) (by omega) hkeep
          (fun s hs0 hs1 => ?_)
        rcases hw1 s with h | h
        · rw [h] at hs1; exact absurd hs0 hs1
        · refine ⟨h.1, ?_⟩
          by_cases hst : s = t
          · rw [hst, hB1]; exact ⟨htd, by omega, by omega⟩
          · rcases h.2.2 with h3 | h3
            · exact absurd h3 hst
            · have hsn : s ∉ idxs ++ [t] := by
                intro hm
                rcases List.mem_append.1 hm with hm | hm
                · exact (g.inv.out s hm).2 hs0
                · exact hst (by simpa using hm)
              obtain ⟨_, d2, _, _⟩ := g1.inv.down s (g1.lt hs1) hs1 hsn
              rw [d2, h.1]
              exact ⟨h3.1, by omega, by omega⟩
      split at hr
      · -- the inter-basin outlet above this confluence was returned already
        have fr1' := fr1.mono (lo' := pfaf0 + (2 * ((i + 1 : Nat) : Int) + 1) * p)
          (by rw [pf_lo_next]; omega)
        have lk1 : PfLinkIn ds uparea depth br1 (idxs ++ [t])
            (if d0 < depth then labs ++ [(pfaf0 + (2 * (i : Int) + 1) * p, d0 + 1)] else labs) pfaf0 d0 p
            (pfaf0 + (2 * ((i + 1 : Nat) : Int) + 1) * p) (pfaf0 + 10 * p) (i + 1) intDs rest := by
          refine ⟨?_, q1.mono (by rw [pf_lo_next]; omega), ⟨kI, hkI0, by omega, hintk⟩, fun t' ht' => ?_⟩
          · exact H1.keep (br' := br1) (fun _ _ _ => ⟨rfl, rfl⟩) (by rw [pf_lo_next]; omega) hrest
              (fun en hen => Or.inl hen)
          · obtain ⟨k, a1, a2, a3⟩ := remk1 t' ht'
            exact ⟨k, a1, by omega, a3⟩
        have ev1' : PfEvo ds br0 br1 pfaf0 (pfaf0 + (2 * ((i + 1 : Nat) : Int) + 1) * p) := by
          rw [pf_lo_next]; exact ev1.mono (by omega)
        subst hpe
        have := ih (i + 1) _ r (by omega) hr g1 fr1' rem1 hint hl1 lk1 od1 ev1'
        exact this
      · rename_i hcont
        have hni : usMain[ds[t]!]! ∉ idxs ++ [t] := by
          intro hm; apply hcont; simpa using hm
        have hconf : br[ds[t]!]! = intDs := by
          rcases rem.r2 t (by simp) with h | h
          · exact h
          · exact absurd (List.mem_append_left _ h) hni
        have hconf1 : br1[ds[t]!]! = intDs := by rw [hkeep _ htc]; exact hconf
        have hu : usMain[ds[t]!]! < ds.size := c.htot t hts htd
        have hpint : pfaf0 + ((i : Int) + 1) * 2 * p = pfaf0 + (2 * (i : Int) + 1) * p + p :=
          pf_pint_eq i p pfaf0
        rw [hpint] at hr
        have hfr2 : ∀ s : Nat, br1[s]! ≠ pfaf0 + (2 * (i : Int) + 1) * p + p := by
          intro s; rcases fr1.i2 s with h | h <;> omega
        split at hr
        · cases hr
        · rename_i br2 h2
          obtain ⟨g2, hpre, hw2, hreach, hout2, hx2⟩ :=
            g1.step_int c hdm hu hni hint hconf1 (by omega) hfr2 h2
          have hw2' : ∀ s : Nat, br2[s]! = br1[s]! ∨ br2[s]! = pfaf0 + (2 * (i : Int) + 1) * p + p := by
            intro s; rcases hw2 s with h | h
            · exact Or.inl h
            · exact Or.inr h.1
          have hne2 : ∀ s : Nat, br1[s]! ≠ 0 → br2[s]! ≠ 0 := by
            intro s hs; rcases hw2 s with h | h
            · rw [h]; exact hs
            · rw [h.1]; omega
          have fr2 := fr1.write hpp (by omega) hw2' (d0 < depth) (d0 + 1)
            (fun h => by rw [hpe]; exact Bsz_push h)
          have fr2' := fr2.mono (lo' := pfaf0 + (2 * ((i + 1 : Nat) : Int) + 1) * p)
            (by rw [pf_lo_next]; omega)
          have hl2 := labsPos_push hl1 (v := pfaf0 + (2 * (i : Int) + 1) * p + p) (by omega)
            (d0 < depth) (d0 + 1)
          have hxs := c.ustep (c.hb _ hdm) hu
          have rem2 : PfRem ds usMain seq uparea br2 (idxs ++ [t] ++ [usMain[ds[t]!]!])
              (pfaf0 + (2 * (i : Int) + 1) * p + p) rest := by
            refine ⟨fun t' ht' => ?_, fun t' ht' => ?_, hso.2, hnd.2⟩
            · obtain ⟨a1, a2, a3, a4, a5⟩ := rem1.r1 t' ht'
              refine ⟨a1, a2, ?_, a4, hne2 _ a5⟩
              rcases hw2 t' with h | h
              · rw [h]; exact a3
              · exfalso
                rcases h.2.1 with h | h
                · apply a4; rw [h, hxs.2.1]
                · rw [a3] at h; exact hint h.symm
            · rcases rem1.r2 t' ht' with h | h
              · have hle := hso.1 t' ht'
                rcases hreach _ (c.topo.ds_mem t' (rem1.r1 t' ht').1) h (by omega) with h' | h'
                · right; rw [h']; simp
                · left; exact h'
              · right; exact List.mem_append_left _ h
          have hflag : (ok && decide (usMain[ds[t]!]! < ds.size) &&
              (br1[usMain[ds[t]!]!]! == 0 || br1[usMain[ds[t]!]!]! == intDs)) = ok := by
            have h1 : decide (usMain[ds[t]!]! < ds.size) = true := by simpa using hu
            have h2 : (br1[usMain[ds[t]!]!]! == 0 || br1[usMain[ds[t]!]!]! == intDs) = true := by
              rcases hpre with h | h <;> simp [h]
            rw [h1, h2]; simp
          rw [hflag] at hr
          have hint2 : pfaf0 + (2 * (i : Int) + 1) * p + p ≠ 0 := by omega
          -- link part after the inter-basin fill
          have q2 := q1.push hpe (by omega) hRint
          have hbr2d : br2[ds[t]!]! = intDs := by
            rcases hw2 ds[t]! with h | h
            · rw [h]; exact hconf1
            · exfalso; have := h.2.2; omega
          have H2 : PfHIn ds uparea depth br2 (idxs ++ [t] ++ [usMain[ds[t]!]!])
              (if d0 < depth then
                (if d0 < depth then labs ++ [(pfaf0 + (2 * (i : Int) + 1) * p, d0 + 1)] else labs) ++
                  [(pfaf0 + (2 * (i : Int) + 1) * p + p, d0 + 1)]
               else if d0 < depth then labs ++ [(pfaf0 + (2 * (i : Int) + 1) * p, d0 + 1)] else labs)
              pfaf0 d0 (pfaf0 + (2 * (i : Int) + 1) * p + p + p) (pfaf0 + 10 * p) rest := by
            have H2a := H1.relabel (br2 := br2) (w := intDs) (v := pfaf0 + (2 * (i : Int) + 1) * p + p)
              (U := uparea[ds[t]!]!) hout2 (fun o ho hnp => ?_) ⟨t, by simp, rfl⟩
              (by rw [hintk]; omega) (by omega) (by rw [hintk]; exact href)
              (fun en hen => ⟨(q1.qlev en hen).1, (q1.qlev en hen).2.2.1⟩) hd0'
            · have H2b := H2a.keep (br' := br2)
                (lo' := pfaf0 + (2 * (i : Int) + 1) * p + p + p) (l' := rest)
                (labs' := if d0 < depth then
                  (if d0 < depth then labs ++ [(pfaf0 + (2 * (i : Int) + 1) * p, d0 + 1)] else labs) ++
                    [(pfaf0 + (2 * (i : Int) + 1) * p + p, d0 + 1)]
                  else if d0 < depth then labs ++ [(pfaf0 + (2 * (i : Int) + 1) * p, d0 + 1)] else labs)
                (fun _ _ _ => ⟨rfl, rfl⟩) (by omega) hrest (fun en hen => by
                  rcases mem_push hen with h | ⟨hb, h⟩
                  · exact Or.inl h
                  · exact Or.inr ⟨by rw [h], hb⟩)
              refine H2b.add hd0 hd0' ?_ ?_ (fun t' ht' => ?_) ?_
              · rw [hx2, hxs.2.1, hbr2d, hintk]; exact hlinkI
              · rw [hxs.2.1, hbr2d, hintk]; omega
              · rw [hxs.2.1]; exact hso.1 t' ht'
              · rw [hxs.2.1, hbr2d, hintk]
                exact pend_of_blocks (fun en hen => ⟨(q2.qlev en hen).1, (q2.qlev en hen).2.2.1⟩) q2.i1p
                  (by omega) (by omega) hd0'
            · -- the downstream cell of an earlier outlet: unchanged or relabelled from `pfaf_int_ds`
              have hone : br1[ds[o]!]! ≠ 0 := by
                obtain ⟨olt, one⟩ := g1.inv.out o ho
                exact g1.dn o olt one
              rcases hw2 ds[o]! with h | h
              · exact Or.inl h
              · right
                refine ⟨h.1, ?_, h.2.2⟩
                rcases h.2.1 with h3 | h3
                · rw [h3]
                  rcases hpre with h4 | h4
                  · rw [h3] at hone; exact absurd h4 hone
                  · exact h4
                · exact h3
          have lk2 : PfLinkIn ds uparea depth br2 (idxs ++ [t] ++ [usMain[ds[t]!]!])
              (if d0 < depth then
                (if d0 < depth then labs ++ [(pfaf0 + (2 * (i : Int) + 1) * p, d0 + 1)] else labs) ++
                  [(pfaf0 + (2 * (i : Int) + 1) * p + p, d0 + 1)]
               else if d0 < depth then labs ++ [(pfaf0 + (2 * (i : Int) + 1) * p, d0 + 1)] else labs)
              pfaf0 d0 p (pfaf0 + (2 * ((i + 1 : Nat) : Int) + 1) * p) (pfaf0 + 10 * p) (i + 1)
              (pfaf0 + (2 * (i : Int) + 1) * p + p) rest := by
            rw [pf_lo_next]
            refine ⟨H2, q2, ⟨((i + 1 : Nat) : Int), by omega, Int.le_refl _, htwo2⟩, fun t' ht' => ?_⟩
            obtain ⟨k, a1, a2, a3⟩ := remk1 t' ht'
            rcases hw2 ds[t']! with h | h
            · exact ⟨k, a1, by omega, by rw [h]; exact a3⟩
            · exact ⟨((i + 1 : Nat) : Int), by omega, Int.le_refl _, by rw [h.1]; exact htwo2⟩
          have od2 : W → PfOrdIn ds soraw br2
              (if d0 < depth then
                (if d0 < depth then labs ++ [(pfaf0 + (2 * (i : Int) + 1) * p, d0 + 1)] else labs) ++
                  [(pfaf0 + (2 * (i : Int) + 1) * p + p, d0 + 1)]
               else if d0 < depth then labs ++ [(pfaf0 + (2 * (i : Int) + 1) * p, d0 + 1)] else labs)
              (pfaf0 + (2 * (i : Int) + 1) * p + p) d0 rest := by
            intro w
            obtain ⟨hz, hmainS⟩ := hS w
            refine (od1 w).write (fun _ h => h) hw2' hfr2 (fun s hs => ?_) (fun en hen => ?_) (d0 < depth) _
              (Or.inl rfl)
            · rcases hw2 s with h | h
              · exact absurd h hs
              · rcases h.2.1 with h3 | h3
                · rw [h3]
                  have := ((od w).ol t (by simp)).1
                  rcases hmainS ds[t]! (c.hb _ hdm) hu with h4 | h4 <;> omega
                · exact (od1 w).oi s h3
            · have := Bsz_pos depth en.2
              rcases fr1.i1 en hen with h | h <;> omega
          have ev2 : PfEvo ds br0 br2 pfaf0 (pfaf0 + (2 * ((i + 1 : Nat) : Int) + 1) * p) := by
            rw [pf_lo_next]
            refine ev1.int_step hp0 (v := pfaf0 + (2 * (i : Int) + 1) * p + p) (w := intDs)
              (x := usMain[ds[t]!]!) (by omega) (by omega) (by omega) (by rw [hintk]; omega)
              (fun s => ?_) hpre (by rw [hxs.2.1]; exact Ne.symm hxs.2.2.1) (by rw [hxs.2.1]; exact hbr2d)
            rcases hw2 s with h | h
            · exact Or.inl h
            · exact Or.inr ⟨h.1, h.2.1⟩
          subst hpe
          have := ih (i + 1) _ r (by omega) hr g2 fr2' rem2 hint2 hl2 lk2 od2 ev2
          exact this

end Pf.C18
