import PfVerif.Model.C03
/-! Helper lemmas for C03: soundness and completeness of the executable order check `isTopo`,
members of a downstream-first order drain to a pit, the closure certificate `isCompleteTopo`. -/
namespace Pf

theorem iterA_succ' (ds : Array Nat) : ∀ (k i : Nat), iterA ds (k+1) i = ds[iterA ds k i]! := by
  intro k
  induction k with
  | zero => intro i; rfl
  | succ k ih => intro i; exact ih ds[i]!

theorem iterA_add (ds : Array Nat) : ∀ (a b i : Nat), iterA ds (a + b) i = iterA ds b (iterA ds a i) := by
  intro a
  induction a with
  | zero => intro b i; simp [iterA]
  | succ a ih =>
    intro b i
    have : a + 1 + b = (a + b) + 1 := by omega
    rw [this]
    show iterA ds (a + b) ds[i]! = iterA ds b (iterA ds a ds[i]!)
    exact ih b ds[i]!

/-! ### `isTopo` is sound and complete for `Topo` + range -/

theorem isTopoAux_sound (ds : Array Nat) :
    ∀ (rest pre : List Nat) (seen : Array Bool), seen.size = ds.size →
      (∀ j, j < ds.size → (seen[j]! = true ↔ j ∈ pre)) → Topo ds pre → (∀ i ∈ pre, i < ds.size) →
      isTopoAux ds rest seen = true →
      Topo ds (pre ++ rest) ∧ ∀ i ∈ pre ++ rest, i < ds.size := by
  intro rest
  induction rest with
  | nil => intro pre seen _ _ ht hb _; simpa using ⟨ht, hb⟩
  | cons i rest ih =>
    intro pre seen hsz hseen ht hb h
    simp only [isTopoAux, Bool.and_eq_true, decide_eq_true_eq, Bool.not_eq_true', Bool.or_eq_true,
      beq_iff_eq] at h
    obtain ⟨⟨⟨hi, hns⟩, hd⟩, hrest⟩ := h
    have hnotin : i ∉ pre := by
      intro hm
      have := (hseen i hi).2 hm
      rw [hns] at this; exact Bool.false_ne_true this
    have hdd : ds[i]! = i ∨ ds[i]! ∈ pre := by
      rcases hd with h | ⟨h1, h2⟩
      · exact Or.inl h
      · exact Or.inr ((hseen _ h1).1 h2)
    have ht' : Topo ds (pre ++ [i]) := Topo.snoc ht hnotin hdd
    have hb' : ∀ j ∈ pre ++ [i], j < ds.size := by
      intro j hj
      simp only [List.mem_append, List.mem_singleton] at hj
      rcases hj with hj | hj
      · exact hb j hj
      · exact hj ▸ hi
    have hseen' : ∀ j, j < ds.size → ((seen.setIfInBounds i true)[j]! = true ↔ j ∈ pre ++ [i]) := by
      intro j hj
      rw [get!_setIfInBounds]
      simp only [List.mem_append, List.mem_singleton]
      by_cases hij : i = j
      · subst hij; simp [hsz, hi]
      · have : ¬ j = i := fun h => hij h.symm
        simp [hij, this, hseen j hj]
    have := ih (pre ++ [i]) (seen.setIfInBounds i true) (by simpa using hsz) hseen' ht' hb' hrest
    simpa [List.append_assoc] using this

theorem isTopo_sound' (ds : Array Nat) (seq : List Nat) (h : isTopo ds seq = true) :
    Topo ds seq ∧ ∀ i ∈ seq, i < ds.size := by
  have := isTopoAux_sound ds seq [] (Array.replicate ds.size false) (by simp)
    (by intro j hj; simp [hj]) Topo.nil (by simp) h
  simpa using this

/-- inversion of the snoc-shaped predicate -/
theorem Topo.snoc_inv {ds : Array Nat} {pre : List Nat} {i : Nat} (h : Topo ds (pre ++ [i])) :
    Topo ds pre ∧ i ∉ pre ∧ (ds[i]! = i ∨ ds[i]! ∈ pre) := by
  generalize hl : pre ++ [i] = l at h
  cases h with
  | nil => simp at hl
  | @snoc pre' i' h1 h2 h3 =>
    have := List.append_inj' hl (by simp)
    obtain ⟨hp, hi⟩ := this
    simp only [List.cons.injEq, and_true] at hi
    subst hp; subst hi
    exact ⟨h1, h2, h3⟩

theorem Topo.prefix {ds : Array Nat} : ∀ (b a : List Nat), Topo ds (a ++ b) → Topo ds a := by
  intro b
  induction b with
  | nil => intro a h; simpa using h
  | cons x b ih =>
    intro a h
    have : a ++ x :: b = (a ++ [x]) ++ b := by simp
    rw [this] at h
    exact (ih (a ++ [x]) h).snoc_inv.1

theorem isTopoAux_complete (ds : Array Nat) :
    ∀ (rest pre : List Nat) (seen : Array Bool), seen.size = ds.size →
      (∀ j, j < ds.size → (seen[j]! = true ↔ j ∈ pre)) → Topo ds (pre ++ rest) →
      (∀ i ∈ pre ++ rest, i < ds.size) → isTopoAux ds rest seen = true := by
  intro rest
  induction rest with
  | nil => intro _ _ _ _ _ _; rfl
  | cons i rest ih =>
    intro pre seen hsz hseen ht hb
    have heq : pre ++ i :: rest = (pre ++ [i]) ++ rest := by simp
    rw [heq] at ht hb
    obtain ⟨_, hni, hd⟩ := (Topo.prefix rest (pre ++ [i]) ht).snoc_inv
    have hi : i < ds.size := hb i (by simp)
    have hseen' : ∀ j, j < ds.size → ((seen.setIfInBounds i true)[j]! = true ↔ j ∈ pre ++ [i]) := by
      intro j hj
      rw [get!_setIfInBounds]
      simp only [List.mem_append, List.mem_singleton]
      by_cases hij : i = j
      · subst hij; simp [hsz, hi]
      · have : ¬ j = i := fun h => hij h.symm
        simp [hij, this, hseen j hj]
    have hrest := ih (pre ++ [i]) (seen.setIfInBounds i true) (by simpa using hsz) hseen' ht hb
    simp only [isTopoAux, Bool.and_eq_true, decide_eq_true_eq, Bool.not_eq_true', Bool.or_eq_true,
      beq_iff_eq]
    refine ⟨⟨⟨hi, ?_⟩, ?_⟩, hrest⟩
    · cases hs : seen[i]! with
      | false => rfl
      | true => exact absurd ((hseen i hi).1 hs) hni
    · rcases hd with h | h
      · exact Or.inl h
      · have hlt : ds[i]! < ds.size := hb _ (by simp [h])
        exact Or.inr ⟨hlt, (hseen _ hlt).2 h⟩

theorem isTopo_complete' (ds : Array Nat) (seq : List Nat) (ht : Topo ds seq)
    (hb : ∀ i ∈ seq, i < ds.size) : isTopo ds seq = true :=
  isTopoAux_complete ds seq [] (Array.replicate ds.size false) (by simp)
    (by intro j hj; simp [hj]) (by simpa using ht) (by simpa using hb)

/-! ### members of a downstream-first order drain to a pit -/

theorem Topo.reaches {ds : Array Nat} {seq : List Nat} (ht : Topo ds seq) :
    ∀ i ∈ seq, ReachesPit ds i := by
  refine ht.induction _ (fun i _ hd => ?_)
  by_cases hp : ds[i]! = i
  · exact ⟨0, by simpa [iterA] using hp⟩
  · obtain ⟨k, hk⟩ := (hd hp).2
    exact ⟨k + 1, by simpa [iterA] using hk⟩

/-- a cell of a downstream-first order and its downstream cell are in range (when the order is) -/
theorem Topo.valid {ds : Array Nat} {seq : List Nat} (ht : Topo ds seq) (hb : ∀ i ∈ seq, i < ds.size) :
    ∀ i ∈ seq, Valid ds i :=
  fun i hi => ⟨hb i hi, hb _ (ht.ds_mem i hi)⟩

/-! ### the closure certificate -/

/-- closure under "is a pit" and "drains into a listed cell" captures every cell that drains to a pit -/
theorem closed_contains_reaching (ds : Array Nat) (hwf : WF ds) (S : Nat → Prop)
    (hcl : ∀ j, j < ds.size → (ds[j]! = j ∨ (ds[j]! < ds.size ∧ S ds[j]!)) → S j) :
    ∀ (k i : Nat), Valid ds i → ds[iterA ds k i]! = iterA ds k i → S i := by
  intro k
  induction k with
  | zero => intro i hv hp; exact hcl i hv.1 (Or.inl (by simpa [iterA] using hp))
  | succ k ih =>
    intro i hv hp
    have hv' : Valid ds ds[i]! := ⟨hv.2, (hwf i hv.1).2 hv.2⟩
    exact hcl i hv.1 (Or.inr ⟨hv.2, ih ds[i]! hv' (by simpa [iterA] using hp)⟩)

theorem isCompleteTopo_closure {ds : Array Nat} {seq : List Nat} (h : isCompleteTopo ds seq = true) :
    ∀ j, j < ds.size → (ds[j]! = j ∨ (ds[j]! < ds.size ∧ ds[j]! ∈ seq)) → j ∈ seq := by
  simp only [isCompleteTopo, Bool.and_eq_true, List.all_eq_true, List.mem_range, Bool.or_eq_true,
    Bool.not_eq_true', List.contains_eq_mem, decide_eq_true_eq] at h
  intro j hj hd
  rcases h.2 j hj with h1 | h1
  · exfalso
    rcases hd with hd | ⟨hd1, hd2⟩
    · simp [hd] at h1
    · simp [hd1, hd2] at h1
  · exact h1

end Pf
