import PfVerif.Model.C01
/-! Lemmas for C01: the generic fold invariant of the `from_array` kernels and row/column arithmetic. -/
namespace Pf.Fd
open Pf

/-- what the loop writes at cell `i` -/
def cellDs (nrow ncol : Nat) (selfTest : Bool) (nd : Nat → Bool) (tgt : Nat → Bool × Int × Int) (i : Nat) : Nat :=
  if nd i then nrow * ncol
  else if (pitBranch nrow ncol selfTest nd tgt i).1 then i else (pitBranch nrow ncol selfTest nd tgt i).2

/-- whether the loop appends cell `i` to `pits_lst` -/
def cellPit (nrow ncol : Nat) (selfTest : Bool) (nd : Nat → Bool) (tgt : Nat → Bool × Int × Int) (i : Nat) : Bool :=
  !nd i && (pitBranch nrow ncol selfTest nd tgt i).1

theorem filter_range_succ (p : Nat → Bool) (k : Nat) :
    (List.range (k + 1)).filter p = (List.range k).filter p ++ (if p k then [k] else []) := by
  rw [List.range_succ, List.filter_append]
  by_cases h : p k <;> simp [h]

structure DecInv (N k : Nat) (cd : Nat → Nat) (cp nd : Nat → Bool) (st : Dec) : Prop where
  size : st.ds.size = N
  lo : ∀ i, i < k → st.ds[i]! = cd i
  hi : ∀ i, k ≤ i → i < N → st.ds[i]! = N
  pits : st.pits.toList = (List.range k).filter cp
  n : st.n = ((List.range k).filter fun i => !nd i).length

theorem decode_inv (nrow ncol : Nat) (selfTest : Bool) (nd : Nat → Bool) (tgt : Nat → Bool × Int × Int) :
    ∀ k, k ≤ nrow * ncol →
      DecInv (nrow * ncol) k (cellDs nrow ncol selfTest nd tgt) (cellPit nrow ncol selfTest nd tgt) nd
        ((List.range k).foldl (decStep nrow ncol selfTest nd tgt) (decInit (nrow * ncol))) := by
  intro k
  induction k with
  | zero =>
    intro _
    refine ⟨by simp [decInit], fun i hi => absurd hi (Nat.not_lt_zero i), ?_, by simp [decInit], by simp [decInit]⟩
    intro i _ hi
    simp [decInit, hi]
  | succ k ih =>
    intro hk
    have ih := ih (Nat.le_of_succ_le hk)
    have hkN : k < nrow * ncol := hk
    rw [List.range_succ, List.foldl_append]
    generalize (List.range k).foldl (decStep nrow ncol selfTest nd tgt) (decInit (nrow * ncol)) = st at ih
    simp only [List.foldl_cons, List.foldl_nil]
    obtain ⟨hsz, hlo, hhi, hp, hn⟩ := ih
    by_cases hnd : nd k = true
    · -- continue
      have hstep : decStep nrow ncol selfTest nd tgt st k = st := by simp [decStep, hnd]
      rw [hstep]
      refine ⟨hsz, ?_, fun i h1 h2 => hhi i (Nat.le_of_succ_le h1) h2, ?_, ?_⟩
      · intro i hi
        by_cases hik : i = k
        · subst hik; rw [hhi i (Nat.le_refl _) hkN]; simp [cellDs, hnd]
        · exact hlo i (by omega)
      · rw [filter_range_succ, hp]; simp [cellPit, hnd]
      · rw [filter_range_succ, hn]; simp [hnd]
    · have hnd' : nd k = false := by simpa using hnd
      by_cases hb : (pitBranch nrow ncol selfTest nd tgt k).1 = true
      · have hstep : decStep nrow ncol selfTest nd tgt st k =
            { ds := st.ds.setIfInBounds k k, pits := st.pits.push k, n := st.n + 1 } := by
          simp [decStep, hnd', hb]
        rw [hstep]
        refine ⟨by simpa using hsz, ?_, ?_, ?_, ?_⟩
        · intro i hi
          show (st.ds.setIfInBounds k k)[i]! = _
          rw [get!_setIfInBounds]
          by_cases hik : k = i
          · subst hik; simp [hsz, hkN, cellDs, hnd', hb]
          · simp only [hik, false_and, if_false]; exact hlo i (by omega)
        · intro i h1 h2
          show (st.ds.setIfInBounds k k)[i]! = _
          rw [get!_setIfInBounds]
          have : k ≠ i := by omega
          simp only [this, false_and, if_false]; exact hhi i (by omega) h2
        · show (st.pits.push k).toList = _
          rw [filter_range_succ, Array.toList_push, hp]; simp [cellPit, hnd', hb]
        · show st.n + 1 = _
          rw [filter_range_succ, hn]; simp [hnd']
      · have hb' : (pitBranch nrow ncol selfTest nd tgt k).1 = false := by simpa using hb
        have hstep : decStep nrow ncol selfTest nd tgt st k =
            { ds := st.ds.setIfInBounds k (pitBranch nrow ncol selfTest nd tgt k).2, pits := st.pits, n := st.n + 1 } := by
          simp [decStep, hnd', hb']
        rw [hstep]
        refine ⟨by simpa using hsz, ?_, ?_, ?_, ?_⟩
        · intro i hi
          show (st.ds.setIfInBounds k _)[i]! = _
          rw [get!_setIfInBounds]
          by_cases hik : k = i
          · subst hik; simp [hsz, hkN, cellDs, hnd', hb']
          · simp only [hik, false_and, if_false]; exact hlo i (by omega)
        · intro i h1 h2
          show (st.ds.setIfInBounds k _)[i]! = _
          rw [get!_setIfInBounds]
          have : k ≠ i := by omega
          simp only [this, false_and, if_false]; exact hhi i (by omega) h2
        · show st.pits.toList = _
          rw [filter_range_succ, hp]; simp [cellPit, hnd', hb']
        · show st.n + 1 = _
          rw [filter_range_succ, hn]; simp [hnd']

theorem decode_spec (nrow ncol : Nat) (selfTest : Bool) (nd : Nat → Bool) (tgt : Nat → Bool × Int × Int) :
    DecInv (nrow * ncol) (nrow * ncol) (cellDs nrow ncol selfTest nd tgt) (cellPit nrow ncol selfTest nd tgt) nd
      (decode nrow ncol selfTest nd tgt) :=
  decode_inv nrow ncol selfTest nd tgt (nrow * ncol) (Nat.le_refl _)

/-! ### row / column arithmetic -/
open Spec

theorem inRaster_iff {nrow ncol : Nat} {r c : Int} :
    inRaster nrow ncol r c = true ↔ 0 ≤ r ∧ r < nrow ∧ 0 ≤ c ∧ c < ncol := by
  simp [inRaster, and_assoc]

theorem rowcol_of_idx {ncol r c : Nat} (hc : c < ncol) :
    (r * ncol + c) / ncol = r ∧ (r * ncol + c) % ncol = c := by
  have hpos : 0 < ncol := by omega
  constructor
  · rw [Nat.add_comm, Nat.add_mul_div_right _ _ hpos, Nat.div_eq_of_lt hc, Nat.zero_add]
  · rw [Nat.add_comm, Nat.add_mul_mod_self_right, Nat.mod_eq_of_lt hc]

theorem idx_lt {nrow ncol r c : Nat} (hr : r < nrow) (hc : c < ncol) : r * ncol + c < nrow * ncol := by
  have h1 : (r + 1) * ncol ≤ nrow * ncol := Nat.mul_le_mul_right ncol hr
  have h2 : (r + 1) * ncol = r * ncol + ncol := by rw [Nat.add_mul, Nat.one_mul]
  omega

/-- on the raster, the linear index formula of the code (`c_ds + r_ds * ncol`) is the cell at row
`r`, column `c` -/
theorem cellIdx_of_inRaster {nrow ncol : Nat} {r c : Int} (h : inRaster nrow ncol r c = true) :
    (c + r * ncol).toNat = cellIdx ncol r c ∧ cellIdx ncol r c < nrow * ncol ∧
    ((cellIdx ncol r c / ncol : Nat) : Int) = r ∧ ((cellIdx ncol r c % ncol : Nat) : Int) = c := by
  obtain ⟨h0, h1, h2, h3⟩ := inRaster_iff.1 h
  obtain ⟨r', rfl⟩ := Int.eq_ofNat_of_zero_le h0
  obtain ⟨c', rfl⟩ := Int.eq_ofNat_of_zero_le h2
  have hr : r' < nrow := by omega
  have hc : c' < ncol := by omega
  have hidx : cellIdx ncol (r' : Int) (c' : Int) = r' * ncol + c' := by simp [cellIdx]
  obtain ⟨hd, hm⟩ := rowcol_of_idx (r := r') hc
  rw [hidx]
  refine ⟨?_, idx_lt hr hc, by rw [hd], by rw [hm]⟩
  have : ((c' : Int) + (r' : Int) * (ncol : Int)) = ((r' * ncol + c' : Nat) : Int) := by
    push_cast; omega
  rw [this, Int.toNat_natCast]

/-! ### the declarative graph -/

theorem graph_size (nrow ncol : Nat) (read : Nat → Code) : (graph nrow ncol read).size = nrow * ncol := by
  simp [graph]

theorem graph_get (nrow ncol : Nat) (read : Nat → Code) (i : Nat) (hi : i < nrow * ncol) :
    (graph nrow ncol read)[i]! = dsOf nrow ncol read i := by
  simp [graph, hi]

/-- the three ways a cell can be decoded -/
theorem dsOf_cases (nrow ncol : Nat) (read : Nat → Code) (i : Nat) :
    (read i = .nodata ∧ dsOf nrow ncol read i = nrow * ncol) ∨
    (read i ≠ .nodata ∧ dsOf nrow ncol read i = i) ∨
    (∃ r c, read i = .to r c ∧ inRaster nrow ncol r c = true ∧ read (cellIdx ncol r c) ≠ .nodata ∧
      dsOf nrow ncol read i = cellIdx ncol r c) := by
  unfold dsOf
  cases h : read i with
  | nodata => exact Or.inl ⟨rfl, rfl⟩
  | pit => exact Or.inr (Or.inl ⟨by simp, rfl⟩)
  | to r c =>
    by_cases h1 : inRaster nrow ncol r c = true
    · by_cases h2 : read (cellIdx ncol r c) = .nodata
      · exact Or.inr (Or.inl ⟨by simp, by simp [h2]⟩)
      · exact Or.inr (Or.inr ⟨r, c, rfl, h1, h2, by simp [h1, h2]⟩)
    · exact Or.inr (Or.inl ⟨by simp, by simp [h1]⟩)

theorem dsOf_eq_n_iff (nrow ncol : Nat) (read : Nat → Code) (i : Nat) (hi : i < nrow * ncol) :
    dsOf nrow ncol read i = nrow * ncol ↔ read i = .nodata := by
  rcases dsOf_cases nrow ncol read i with ⟨h, e⟩ | ⟨h, e⟩ | ⟨r, c, h, hin, hv, e⟩
  · simp [h, e]
  · rw [e]; exact ⟨fun h' => by omega, fun h' => absurd h' h⟩
  · rw [e]
    have := (cellIdx_of_inRaster hin).2.1
    exact ⟨fun h' => by omega, fun h' => by simp [h] at h'⟩

theorem dsOf_le (nrow ncol : Nat) (read : Nat → Code) (i : Nat) (hi : i < nrow * ncol) :
    dsOf nrow ncol read i ≤ nrow * ncol := by
  rcases dsOf_cases nrow ncol read i with ⟨h, e⟩ | ⟨h, e⟩ | ⟨r, c, h, hin, hv, e⟩
  · omega
  · omega
  · have := (cellIdx_of_inRaster hin).2.1; omega

/-- the downstream cell of a cell of the graph is a cell of the graph -/
theorem dsOf_ds_valid (nrow ncol : Nat) (read : Nat → Code) (i : Nat) (hi : i < nrow * ncol)
    (hv : dsOf nrow ncol read i < nrow * ncol) :
    dsOf nrow ncol read (dsOf nrow ncol read i) < nrow * ncol := by
  have key : ∀ j, j < nrow * ncol → read j ≠ .nodata → dsOf nrow ncol read j < nrow * ncol := by
    intro j hj hne
    have h1 := dsOf_le nrow ncol read j hj
    have h2 := (not_congr (dsOf_eq_n_iff nrow ncol read j hj)).2 hne
    omega
  rcases dsOf_cases nrow ncol read i with ⟨h, e⟩ | ⟨h, e⟩ | ⟨r, c, h, hin, hv', e⟩
  · omega
  · rw [e]; exact key i hi h
  · rw [e]; exact key _ (cellIdx_of_inRaster hin).2.1 hv'

/-! ### the model's tests agree with a reading -/

theorem outside_eq (nrow ncol : Nat) (r c : Int) :
    (decide (r ≥ nrow) || decide (c ≥ ncol) || decide (r < 0) || decide (c < 0)) = !inRaster nrow ncol r c := by
  rw [Bool.eq_iff_iff]
  simp [inRaster]
  omega

structure Agrees (nrow ncol : Nat) (selfTest : Bool) (nd : Nat → Bool) (tgt : Nat → Bool × Int × Int)
    (read : Nat → Code) : Prop where
  nd_iff : ∀ j, j < nrow * ncol → (nd j = true ↔ read j = .nodata)
  pit : ∀ i, i < nrow * ncol → read i = .pit → (tgt i).1 = true
  to : ∀ i r c, i < nrow * ncol → read i = .to r c →
    (tgt i).2 = (r, c) ∧ ((tgt i).1 = true → inRaster nrow ncol r c = false)
  noself : selfTest = false → ∀ i r c, i < nrow * ncol → read i = .to r c → inRaster nrow ncol r c = true →
    cellIdx ncol r c ≠ i

theorem cellDs_eq_dsOf {nrow ncol : Nat} {selfTest : Bool} {nd : Nat → Bool} {tgt : Nat → Bool × Int × Int}
    {read : Nat → Code} (ag : Agrees nrow ncol selfTest nd tgt read) (i : Nat) (hi : i < nrow * ncol) :
    cellDs nrow ncol selfTest nd tgt i = dsOf nrow ncol read i ∧
    cellPit nrow ncol selfTest nd tgt i = (dsOf nrow ncol read i == i) := by
  unfold cellDs cellPit dsOf pitBranch
  cases h : read i with
  | nodata =>
    have := (ag.nd_iff i hi).2 h
    simp only [this, if_true, Bool.not_true, Bool.false_and, true_and]
    have : ¬ (nrow * ncol = i) := by omega
    simp [this]
  | pit =>
    have hnd : nd i = false := by
      have := (not_congr (ag.nd_iff i hi)).2 (by simp [h]); simpa using this
    simp [hnd, ag.pit i hi h]
  | to r c =>
    have hnd : nd i = false := by
      have := (not_congr (ag.nd_iff i hi)).2 (by simp [h]); simpa using this
    obtain ⟨h2, hp⟩ := ag.to i r c hi h
    have hr : (tgt i).2.1 = r := by rw [h2]
    have hc : (tgt i).2.2 = c := by rw [h2]
    simp only [hnd, hr, hc, outside_eq]
    by_cases hin : inRaster nrow ncol r c = true
    · have hp' : (tgt i).1 = false := by
        cases hh : (tgt i).1 with
        | false => rfl
        | true => have := hp hh; rw [hin] at this; cases this
      obtain ⟨e1, hlt, _, _⟩ := cellIdx_of_inRaster hin
      rw [e1]
      by_cases hv : read (cellIdx ncol r c) = .nodata
      · have := (ag.nd_iff _ hlt).2 hv
        simp [hp', hin, this, hv]
      · have hnd2 : nd (cellIdx ncol r c) = false := by
          have := (not_congr (ag.nd_iff (cellIdx ncol r c) hlt)).2 hv; simpa using this
        cases hs : selfTest with
        | false =>
          have := ag.noself hs i r c hi h hin
          simp [hp', hin, hnd2, hv, this]
        | true =>
          by_cases he : cellIdx ncol r c = i
          · simp [hp', hin, he]
          · simp [hp', hin, hnd2, hv, he]
    · have hin' : inRaster nrow ncol r c = false := by simpa using hin
      simp [hin']

theorem array_ext_get! {α : Type} [Inhabited α] {a b : Array α} (hs : a.size = b.size) (h : ∀ i, i < a.size → a[i]! = b[i]!) :
    a = b := by
  apply Array.ext hs
  intro i h1 h2
  have := h i h1
  simpa [getElem!_pos, h1, h2] using this

/-- a kernel whose tests agree with a reading computes the declarative graph of that reading, reports
exactly its self-draining cells (in increasing order) and counts its non-nodata cells -/
theorem decode_eq_graph {nrow ncol : Nat} {selfTest : Bool} {nd : Nat → Bool} {tgt : Nat → Bool × Int × Int}
    {read : Nat → Code} (ag : Agrees nrow ncol selfTest nd tgt read) :
    (decode nrow ncol selfTest nd tgt).ds = graph nrow ncol read ∧
    (decode nrow ncol selfTest nd tgt).pits.toList = pitsOf (graph nrow ncol read) ∧
    (decode nrow ncol selfTest nd tgt).n = nvalidOf (nrow * ncol) read := by
  obtain ⟨hsz, hlo, _, hp, hn⟩ := decode_spec nrow ncol selfTest nd tgt
  refine ⟨?_, ?_, ?_⟩
  · apply array_ext_get! (by rw [hsz, graph_size])
    intro i hi
    rw [hsz] at hi
    rw [hlo i hi, graph_get _ _ _ _ hi, (cellDs_eq_dsOf ag i hi).1]
  · rw [hp, pitsOf, graph_size]
    apply List.filter_congr
    intro i hi
    have hi' : i < nrow * ncol := by simpa using hi
    rw [graph_get _ _ _ _ hi', (cellDs_eq_dsOf ag i hi').2]
  · rw [hn, nvalidOf]
    congr 1
    apply List.filter_congr
    intro i hi
    have hi' : i < nrow * ncol := by simpa using hi
    by_cases h : read i = .nodata
    · simp [(ag.nd_iff i hi').2 h, h]
    · have : nd i = false := by
        have := (not_congr (ag.nd_iff i hi')).2 h; simpa using this
      simp [this, h]

/-! ### the three formats -/

/-- decidable table check: on every legal code other than nodata, the code's `drdc` is `(0,0)` exactly
on the pit codes and is the compass delta of the specification table otherwise -/
def tabOK (drdc : Nat → Int × Int) (dirs : List (Nat × (Int × Int))) (pits : List Nat) (mv : Nat) : Bool :=
  (alphabet dirs pits mv).all fun v =>
    v == mv ||
    (if pits.contains v then drdc v == (0, 0)
     else match dirs.lookup v with
       | some d => drdc v == d && d != (0, 0)
       | none => false)

theorem tab_agrees {drdc : Nat → Int × Int} {dirs : List (Nat × (Int × Int))} {pits : List Nat} {mv : Nat}
    (hok : tabOK drdc dirs pits mv = true) (nrow ncol : Nat) (codes : Array Nat)
    (hlegal : ∀ i, i < nrow * ncol → codes[i]! ∈ alphabet dirs pits mv) :
    Agrees nrow ncol false (fun j => codes[j]! == mv) (tabTgt drdc ncol codes)
      (readTab dirs pits mv ncol codes) := by
  have key : ∀ i, i < nrow * ncol → codes[i]! ≠ mv →
      (codes[i]! ∈ pits ∧ drdc codes[i]! = (0, 0)) ∨
      (codes[i]! ∉ pits ∧ ∃ d, dirs.lookup codes[i]! = some d ∧ drdc codes[i]! = d ∧ d ≠ (0, 0)) := by
    intro i hi hne
    have h := List.all_eq_true.1 hok _ (hlegal i hi)
    simp only [Bool.or_eq_true, beq_iff_eq, hne, false_or] at h
    by_cases hp : codes[i]! ∈ pits
    · left
      have : pits.contains codes[i]! = true := by simpa using hp
      rw [this] at h
      exact ⟨hp, by simpa using h⟩
    · right
      have : pits.contains codes[i]! = false := by simpa using hp
      rw [this] at h
      refine ⟨hp, ?_⟩
      cases hl : dirs.lookup codes[i]! with
      | none => rw [hl] at h; simp at h
      | some d =>
        rw [hl] at h
        simp only [Bool.false_eq_true, if_false, Bool.and_eq_true, beq_iff_eq, bne_iff_ne] at h
        exact ⟨d, rfl, h.1, h.2⟩
  refine ⟨?_, ?_, ?_, ?_⟩
  · intro j hj
    simp only [beq_iff_eq, readTab]
    constructor
    · intro h; simp [h]
    · intro h
      by_cases hne : codes[j]! = mv
      · exact hne
      · exfalso
        rcases key j hj hne with ⟨hp, _⟩ | ⟨hp, d, hl, _, _⟩
        · simp [hne, hp] at h
        · simp [hne, hp, hl] at h
  · intro i hi h
    simp only [readTab] at h
    by_cases hne : codes[i]! = mv
    · simp [hne] at h
    · rcases key i hi hne with ⟨hp, hd⟩ | ⟨hp, d, hl, _, _⟩
      · simp [tabTgt, hd]
      · simp [hne, hp, hl] at h
  · intro i r c hi h
    simp only [readTab] at h
    by_cases hne : codes[i]! = mv
    · simp [hne] at h
    · rcases key i hi hne with ⟨hp, hd⟩ | ⟨hp, d, hl, hd, hd0⟩
      · simp [hne, hp] at h
      · simp only [hne, hp, hl, if_false] at h
        injection h with hr hc
        refine ⟨by simp only [tabTgt, hd]; rw [hr, hc], ?_⟩
        intro ht
        exfalso
        apply hd0
        simp only [tabTgt, hd, Bool.and_eq_true, beq_iff_eq] at ht
        exact Prod.ext ht.1 ht.2
  · intro _ i r c hi h hin he
    simp only [readTab] at h
    by_cases hne : codes[i]! = mv
    · simp [hne] at h
    · rcases key i hi hne with ⟨hp, hd⟩ | ⟨hp, d, hl, hd, hd0⟩
      · simp [hne, hp] at h
      · simp only [hne, hp, hl, if_false] at h
        injection h with hr hc
        obtain ⟨_, _, e3, e4⟩ := cellIdx_of_inRaster hin
        rw [he] at e3 e4
        apply hd0
        exact Prod.ext (by simp; omega) (by simp; omega)

theorem xy_agrees (nrow ncol : Nat) (xs ys : Array Int) :
    Agrees nrow ncol true (fun j => xs[j]! == xyMv) (xyTgt xs ys) (readXY xs ys) := by
  refine ⟨?_, ?_, ?_, ?_⟩
  · intro j _
    simp only [beq_iff_eq, readXY, xyMv, xyNodata]
    constructor
    · intro h; simp [h]
    · intro h
      by_cases hne : xs[j]! = -9999
      · exact hne
      · exfalso
        by_cases hp : xs[j]! ∈ xyPits <;> simp [hne, hp] at h
  · intro i _ h
    simp only [readXY] at h
    by_cases hne : xs[i]! = xyNodata
    · simp [hne] at h
    · by_cases hp : xs[i]! ∈ xyPits
      · simp only [xyPits, List.mem_cons, List.mem_nil_iff, or_false] at hp
        rcases hp with hp | hp <;> simp [xyTgt, xyIsPit, xyPv0, xyPv1, hp]
      · simp [hne, hp] at h
  · intro i r c _ h
    simp only [readXY] at h
    by_cases hne : xs[i]! = xyNodata
    · simp [hne] at h
    · by_cases hp : xs[i]! ∈ xyPits
      · simp [hne, hp] at h
      · simp only [hne, hp, if_false] at h
        injection h with hr hc
        refine ⟨by simp [xyTgt, hr, hc], ?_⟩
        intro ht
        simp only [xyPits, List.mem_cons, List.mem_nil_iff, or_false, not_or] at hp
        simp only [xyTgt, xyIsPit, xyPv0, xyPv1, Bool.or_eq_true, beq_iff_eq] at ht
        have hy : ys[i]! = -9 ∨ ys[i]! = -10 := by
          rcases ht with (h1 | h1) | h2
          · exact absurd h1 hp.1
          · exact absurd h1 hp.2
          · exact h2
        cases hh : inRaster nrow ncol r c with
        | false => rfl
        | true =>
          have := (inRaster_iff.1 hh).1
          omega
  · intro h; cases h

/-! ### user mask -/

theorem applyMask_size {α : Type} [Inhabited α] (mv : α) (mask : Array Bool) (vals : Array α) :
    (applyMask mv mask vals).size = vals.size := by simp [applyMask]

theorem applyMask_get {α : Type} [Inhabited α] (mv : α) (mask : Array Bool) (vals : Array α) (i : Nat)
    (hi : i < vals.size) : (applyMask mv mask vals)[i]! = if mask[i]! then vals[i]! else mv := by
  simp [applyMask, hi]

theorem dsOf_congr {nrow ncol : Nat} {read read' : Nat → Code}
    (h : ∀ j, j < nrow * ncol → read j = read' j) (i : Nat) (hi : i < nrow * ncol) :
    dsOf nrow ncol read i = dsOf nrow ncol read' i := by
  unfold dsOf
  rw [← h i hi]
  cases hri : read i with
  | nodata => rfl
  | pit => rfl
  | to r c =>
    dsimp only
    by_cases hin : inRaster nrow ncol r c = true
    · rw [← h _ (cellIdx_of_inRaster hin).2.1]
    · simp [hin]

theorem graph_congr {nrow ncol : Nat} {read read' : Nat → Code}
    (h : ∀ j, j < nrow * ncol → read j = read' j) : graph nrow ncol read = graph nrow ncol read' := by
  apply array_ext_get! (by rw [graph_size, graph_size])
  intro i hi
  rw [graph_size] at hi
  rw [graph_get _ _ _ _ hi, graph_get _ _ _ _ hi, dsOf_congr h i hi]

theorem nvalidOf_congr {n : Nat} {read read' : Nat → Code} (h : ∀ j, j < n → read j = read' j) :
    nvalidOf n read = nvalidOf n read' := by
  unfold nvalidOf
  congr 1
  apply List.filter_congr
  intro i hi
  rw [h i (by simpa using hi)]

theorem readTab_mask (dirs : List (Nat × (Int × Int))) (pits : List Nat) (mv ncol : Nat) (codes : Array Nat)
    (mask : Array Bool) (j : Nat) (hj : j < codes.size) :
    readTab dirs pits mv ncol (applyMask mv mask codes) j =
      maskRead (fun i => mask[i]!) (readTab dirs pits mv ncol codes) j := by
  unfold readTab maskRead
  rw [applyMask_get _ _ _ _ hj]
  by_cases hm : mask[j]! = true <;> simp [hm]

theorem readXY_mask (xs ys : Array Int) (mask : Array Bool) (j : Nat) (hx : j < xs.size) (hy : j < ys.size) :
    readXY (applyMask xyMv mask xs) (applyMask xyMv mask ys) j =
      maskRead (fun i => mask[i]!) (readXY xs ys) j := by
  unfold readXY maskRead
  rw [applyMask_get _ _ _ _ hx, applyMask_get _ _ _ _ hy]
  by_cases hm : mask[j]! = true
  · simp only [hm, if_true]
  · simp [hm, xyMv, xyNodata]

/-! ### validity predicates and type inference -/

theorem checkValues_iff (all l : List Nat) : checkValues all l = true ↔ ∀ v ∈ l, v ∈ all := by
  induction l with
  | nil => simp [checkValues]
  | cons dd rest ih =>
    unfold checkValues
    by_cases h : dd ∈ all
    · have : (all.all fun x => x != dd) = false := by
        rw [Bool.eq_false_iff]
        intro hall
        have := List.all_eq_true.1 hall dd h
        simp at this
      simp [this, ih, h]
    · have : (all.all fun x => x != dd) = true := by
        rw [List.all_eq_true]
        intro x hx
        have : x ≠ dd := fun e => h (e ▸ hx)
        simpa using this
      simp [this, h]

theorem mem_d8All_iff (v : Nat) : v ∈ d8All ↔ v ∈ d8Alphabet := by
  simp [d8All, d8Alphabet, alphabet, d8Dirs, d8Pits, d8Nodata]
  omega

theorem mem_lddAll_iff (v : Nat) : v ∈ lddAll ↔ v ∈ lddAlphabet := by
  simp [lddAll, lddAlphabet, alphabet, lddDirs, lddPits, lddNodata]
  omega

theorem validTab_iff (alpha : List Nat) (codes : Array Nat) :
    validTab alpha codes = true ↔ ∀ v ∈ codes.toList, v ∈ alpha := by
  unfold validTab
  rw [List.all_eq_true]
  constructor <;> intro h v hv <;> simpa using h v hv

theorem isvalidXY_iff (xs ys : Array Int) :
    isvalidXY xs ys = true ↔
      ∀ i, i < xs.size →
        (xs[i]! = xyNodata ∨ xs[i]! ∈ xyPits → ys[i]! = xs[i]!) ∧
        (¬ (xs[i]! = xyNodata ∨ xs[i]! ∈ xyPits) → xs[i]! ≥ 0) := by
  have hm : ∀ i : Nat, (xs[i]! == xyMv || xyIsPit xs[i]!) = true ↔ (xs[i]! = xyNodata ∨ xs[i]! ∈ xyPits) := by
    intro i
    simp [xyMv, xyNodata, xyIsPit, xyPv0, xyPv1, xyPits]
  unfold isvalidXY
  simp only [Bool.and_eq_true, List.all_eq_true, List.mem_filter, List.mem_range, decide_eq_true_eq,
    beq_iff_eq, and_imp]
  constructor
  · rintro ⟨h1, h2⟩ i hi
    refine ⟨fun hc => (h2 i hi ((hm i).2 hc)).symm, fun hc => h1 i hi ?_⟩
    have := (not_congr (hm i)).2 hc
    simpa using this
  · intro h
    refine ⟨fun i hi hc => (h i hi).2 ?_, fun i hi hc => ((h i hi).1 ((hm i).1 hc)).symm⟩
    have hc' : ¬ ((xs[i]! == xyMv || xyIsPit xs[i]!) = true) := by simpa using hc
    exact (not_congr (hm i)).1 hc'

theorem validXY_iff (xs ys : Array Int) :
    validXY xs ys = true ↔
      ∀ i, i < xs.size →
        (xs[i]! = xyNodata ∨ xs[i]! ∈ xyPits → ys[i]! = xs[i]!) ∧
        (¬ (xs[i]! = xyNodata ∨ xs[i]! ∈ xyPits) → xs[i]! ≥ 0) := by
  unfold validXY
  simp only [List.all_eq_true, List.mem_range]
  constructor
  · intro h i hi
    have := h i hi
    by_cases hc : xs[i]! = xyNodata ∨ xs[i]! ∈ xyPits
    · rw [if_pos hc] at this
      exact ⟨fun _ => by simpa using this, fun hn => absurd hc hn⟩
    · rw [if_neg hc] at this
      exact ⟨fun hp => absurd hp hc, fun _ => by simpa using this⟩
  · intro h i hi
    by_cases hc : xs[i]! = xyNodata ∨ xs[i]! ∈ xyPits
    · rw [if_pos hc]; simpa using (h i hi).1 hc
    · rw [if_neg hc]; simpa using (h i hi).2 hc

/-- the code's `isvalid` is the declarative validity, for every format and container -/
theorem isvalid_eq_spec (t : Ftype) (data : Data) : isvalid t data = Spec.valid t data := by
  rw [Bool.eq_iff_iff]
  cases t <;> cases data <;> simp only [isvalid, Spec.valid]
  · rw [checkValues_iff, validTab_iff]
    exact ⟨fun h v hv => (mem_d8All_iff v).1 (h v hv), fun h v hv => (mem_d8All_iff v).2 (h v hv)⟩
  · rw [checkValues_iff, validTab_iff]
    exact ⟨fun h v hv => (mem_lddAll_iff v).1 (h v hv), fun h v hv => (mem_lddAll_iff v).2 (h v hv)⟩
  · rw [isvalidXY_iff, validXY_iff]

theorem inferFtype_eq_spec (data : Data) : inferFtype data = Spec.infer data := by
  unfold inferFtype Spec.infer ftypes
  simp only [List.find?, isvalid_eq_spec]
  cases Spec.valid .d8 data <;> cases Spec.valid .ldd data <;> cases Spec.valid .nextxy data <;> rfl

end Pf.Fd
