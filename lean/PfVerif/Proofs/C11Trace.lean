import PfVerif.Model.C11
/-! Helper lemmas for C11: the `while` loop of `_trace` against the declarative trace. Core Lean only. -/
namespace Pf

theorem iterA_succ'_c11 (nxt : Array Nat) : ∀ (k s : Nat), iterA nxt (k+1) s = nxt[iterA nxt k s]!
  | 0, s => rfl
  | k+1, s => by
    show iterA nxt (k+1) nxt[s]! = nxt[iterA nxt k nxt[s]!]!
    exact iterA_succ'_c11 nxt k nxt[s]!

/-- one unfolding of the loop of `_trace`, written with `maskHit` / `overLen` -/
theorem trace_succ (nxt : Array Nat) (mask : Option (Array Bool)) (maxLen : Option Int)
    (step : Nat → Nat → Int) (fuel idx0 : Nat) (acc : List Nat) (dist : Int) :
    trace nxt mask maxLen step (fuel+1) idx0 acc dist =
      if maskHit mask idx0 then some (acc.reverse, dist)
      else if nxt[idx0]! = idx0 ∨ nxt[idx0]! = nxt.size then some (acc.reverse, dist)
      else if overLen maxLen (dist + step idx0 nxt[idx0]!) then some (acc.reverse, dist)
      else trace nxt mask maxLen step fuel nxt[idx0]! (nxt[idx0]! :: acc) (dist + step idx0 nxt[idx0]!) := by
  cases mask <;> cases maxLen <;> simp [trace, maskHit, overLen]

theorem pathTo_succ (nxt : Array Nat) (s m : Nat) :
    pathTo nxt s (m+1) = pathTo nxt s m ++ [iterA nxt (m+1) s] := by
  simp [pathTo, List.range_succ]

theorem pathTo_reverse_succ (nxt : Array Nat) (s m : Nat) :
    (pathTo nxt s (m+1)).reverse = iterA nxt (m+1) s :: (pathTo nxt s m).reverse := by
  rw [pathTo_succ]; simp

theorem stopAt_false {nxt : Array Nat} {mask : Option (Array Bool)} {maxLen : Option Int}
    {step : Nat → Nat → Int} {s m : Nat} (h : stopAt nxt mask maxLen step s m = false) :
    maskHit mask (iterA nxt m s) = false ∧ ¬ (nxt[iterA nxt m s]! = iterA nxt m s ∨ nxt[iterA nxt m s]! = nxt.size) ∧
    overLen maxLen (cumLen nxt step s m + step (iterA nxt m s) nxt[iterA nxt m s]!) = false := by
  simp only [stopAt, Bool.or_eq_false_iff, beq_eq_false_iff_ne, ne_eq] at h
  obtain ⟨⟨⟨h1, h2⟩, h3⟩, h4⟩ := h
  exact ⟨h1, fun h => h.elim h2 h3, h4⟩

/-- the loop started in the state reached after `j` steps ends at the least stopping index `m ≥ j` -/
theorem trace_complete_gen (nxt : Array Nat) (mask : Option (Array Bool)) (maxLen : Option Int)
    (step : Nat → Nat → Int) (s m : Nat)
    (hstop : stopAt nxt mask maxLen step s m = true)
    (hleast : ∀ k, k < m → stopAt nxt mask maxLen step s k = false) :
    ∀ (fuel j : Nat), j ≤ m → m < j + fuel →
      trace nxt mask maxLen step fuel (iterA nxt j s) (pathTo nxt s j).reverse (cumLen nxt step s j) =
        some (pathTo nxt s m, cumLen nxt step s m) := by
  intro fuel
  induction fuel with
  | zero => intro j h1 h2; omega
  | succ f ih =>
    intro j hj hm
    rw [trace_succ]
    by_cases hjm : j = m
    · subst hjm
      simp only [stopAt, Bool.or_eq_true, beq_iff_eq] at hstop
      rcases hstop with ((h | h) | h) | h
      · simp [h]
      · simp [h]
      · simp [h]
      · simp only [h, if_true]; split <;> (try split) <;> simp
    · have hlt : j < m := by omega
      obtain ⟨h1, h2, h3⟩ := stopAt_false (hleast j hlt)
      rw [h1, if_neg (by simp), if_neg h2, h3, if_neg (by simp)]
      have := ih (j+1) (by omega) (by omega)
      rw [pathTo_reverse_succ, iterA_succ'_c11] at this
      simpa [cumLen, iterA_succ'_c11] using this

/-- no stopping index in `[j, j+fuel)`: the loop runs out of fuel -/
theorem trace_none_gen (nxt : Array Nat) (mask : Option (Array Bool)) (maxLen : Option Int)
    (step : Nat → Nat → Int) (s : Nat) :
    ∀ (fuel j : Nat) (acc : List Nat), (∀ k, j ≤ k → k < j + fuel → stopAt nxt mask maxLen step s k = false) →
      trace nxt mask maxLen step fuel (iterA nxt j s) acc (cumLen nxt step s j) = none := by
  intro fuel
  induction fuel with
  | zero => intro j acc _; rfl
  | succ f ih =>
    intro j acc h
    rw [trace_succ]
    obtain ⟨h1, h2, h3⟩ := stopAt_false (h j (Nat.le_refl _) (by omega))
    rw [h1, if_neg (by simp), if_neg h2, h3, if_neg (by simp)]
    have := ih (j+1) (nxt[iterA nxt j s]! :: acc) (fun k hk1 hk2 => h k (by omega) (by omega))
    simpa [cumLen, iterA_succ'_c11] using this

theorem leastFrom_some (p : Nat → Bool) : ∀ (f k m : Nat), leastFrom p f k = some m →
    k ≤ m ∧ m < k + f ∧ p m = true ∧ ∀ i, k ≤ i → i < m → p i = false := by
  intro f
  induction f with
  | zero => intro k m h; simp [leastFrom] at h
  | succ f ih =>
    intro k m h
    simp only [leastFrom] at h
    by_cases hp : p k = true
    · simp only [hp, if_true, Option.some.injEq] at h
      subst h
      exact ⟨Nat.le_refl _, by omega, hp, fun i h1 h2 => by omega⟩
    · simp only [hp] at h
      obtain ⟨h1, h2, h3, h4⟩ := ih (k+1) m h
      refine ⟨by omega, by omega, h3, fun i hi1 hi2 => ?_⟩
      by_cases hik : i = k
      · subst hik; simpa using hp
      · exact h4 i (by omega) hi2

theorem leastFrom_none (p : Nat → Bool) : ∀ (f k : Nat), leastFrom p f k = none →
    ∀ i, k ≤ i → i < k + f → p i = false := by
  intro f
  induction f with
  | zero => intro k _ i h1 h2; omega
  | succ f ih =>
    intro k h i hi1 hi2
    simp only [leastFrom] at h
    by_cases hp : p k = true
    · simp [hp] at h
    · simp only [hp] at h
      by_cases hik : i = k
      · subst hik; simpa using hp
      · exact ih (k+1) h i (by omega) (by omega)

/-- converse direction, used for totality: a stopping index below `k + f` is found -/
theorem leastFrom_isSome (p : Nat → Bool) (f k i : Nat) (h1 : k ≤ i) (h2 : i < k + f) (hp : p i = true) :
    (leastFrom p f k).isSome = true := by
  cases h : leastFrom p f k with
  | some m => rfl
  | none => have := leastFrom_none p f k h i h1 h2; rw [hp] at this; cases this

end Pf
