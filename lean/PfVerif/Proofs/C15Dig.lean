import PfVerif.Model.C15
/-! Lemmas for C15, part 2: `dig_4connectivity`. Core Lean only. -/
namespace Pf.C15
open Pf

theorem argminFirst_mem (elv : Array Int) (l : List Nat) (k : Nat) (h : argminFirst elv l = some k) : k ∈ l := by
  cases l with
  | nil => simp [argminFirst] at h
  | cons a r =>
    simp only [argminFirst, Option.some.injEq] at h
    subst h
    suffices hs : ∀ (r : List Nat) (b : Nat),
        r.foldl (fun b j => if elv[j]! < elv[b]! then j else b) b = b ∨
        r.foldl (fun b j => if elv[j]! < elv[b]! then j else b) b ∈ r by
      rcases hs r a with h | h
      · rw [h]; simp
      · simp [h]
    intro r
    induction r with
    | nil => intro b; simp
    | cons j r ih =>
      intro b
      simp only [List.foldl_cons, List.mem_cons]
      rcases ih (if elv[j]! < elv[b]! then j else b) with h | h
      · rw [h]; split
        · exact Or.inr (Or.inl rfl)
        · exact Or.inl rfl
      · exact Or.inr (Or.inr h)

theorem localD4_sub (ncol a b : Nat) : ∀ c ∈ localD4 ncol a b, c ∈ d4nbrs ncol a := by
  intro c hc
  unfold localD4 at hc
  unfold d4nbrs
  repeat' split at hc
  all_goals simp only [List.mem_cons, List.not_mem_nil, or_false] at hc
  all_goals simp only [List.mem_cons, List.not_mem_nil, or_false]
  all_goals (first | (rcases hc with h | h | h | h <;> simp [h]) | (rcases hc with h | h <;> simp [h]) | exact hc.elim)

section diag
variable (digf : Int → Int → Int) (hdig : ∀ e z, digf e z ≤ e)

theorem digDiag_spec (ncol : Nat) (nodata : Int) (elv : Array Int) (i d : Nat) (e1 : Array Int)
    (h : digDiag digf ncol nodata elv i d = some e1) :
    e1.size = elv.size ∧ (∀ c : Nat, elv[c]! = nodata → e1[c]! = elv[c]!) ∧
    (∀ c : Nat, e1[c]! ≠ elv[c]! → c ∈ d4nbrs ncol i) ∧
    ((∀ e z, digf e z ≤ e) → ∀ c : Nat, e1[c]! ≤ elv[c]!) := by
  unfold digDiag at h
  split at h
  · split at h
    · exact absurd h (by simp)
    · rename_i k hk
      simp only [Option.some.injEq] at h
      subst h
      have hmem := argminFirst_mem _ _ _ hk
      simp only [List.mem_filter, bne_iff_ne, ne_eq] at hmem
      refine ⟨by simp, ?_, ?_, ?_⟩
      · intro c hc
        rw [get!_setIfInBounds]
        have : ¬ k = c := fun e => hmem.2 (e ▸ hc)
        simp [this]
      · intro c hc
        rw [get!_setIfInBounds] at hc
        by_cases hkc : k = c
        · subst hkc; exact localD4_sub _ _ _ _ hmem.1
        · simp [hkc] at hc
      · intro hd c
        rw [get!_setIfInBounds]
        split
        · rename_i hkc; rw [← hkc.1]; exact hd _ _
        · exact Int.le_refl _
  · simp only [Option.some.injEq] at h
    subst h
    exact ⟨rfl, fun _ _ => rfl, fun c hc => absurd rfl hc, fun _ _ => Int.le_refl _⟩

end diag

/-- the write loop of the pit block -/
theorem minFold_spec (zp : Int) (tgt : List Nat) :
    ∀ e : Array Int, let r := tgt.foldl (fun e k => e.setIfInBounds k (min zp e[k]!)) e
      r.size = e.size ∧ (∀ c : Nat, r[c]! ≤ e[c]!) ∧ (∀ c : Nat, c ∉ tgt → r[c]! = e[c]!) := by
  induction tgt with
  | nil => intro e; exact ⟨rfl, fun _ => Int.le_refl _, fun _ _ => rfl⟩
  | cons k t ih =>
    intro e
    simp only [List.foldl_cons]
    obtain ⟨h1, h2, h3⟩ := ih (e.setIfInBounds k (min zp e[k]!))
    refine ⟨by rw [h1]; simp, fun c => ?_, fun c hc => ?_⟩
    · refine Int.le_trans (h2 c) ?_
      rw [get!_setIfInBounds]
      split
      · rename_i hkc; rw [← hkc.1]; exact Int.min_le_right _ _
      · exact Int.le_refl _
    · rw [h3 c (fun h => hc (by simp [h])), get!_setIfInBounds]
      have : ¬ k = c := fun e => hc (by simp [e])
      simp [this]

theorem digPit_spec (ds : Array Nat) (nrow ncol : Nat) (nodata : Int) (e1 : Array Int) (i d : Nat) :
    (digPit ds nrow ncol nodata e1 i d).size = e1.size ∧
    (∀ c : Nat, (digPit ds nrow ncol nodata e1 i d)[c]! ≤ e1[c]!) ∧
    (∀ c : Nat, e1[c]! = nodata → (digPit ds nrow ncol nodata e1 i d)[c]! = e1[c]!) ∧
    (∀ c : Nat, (digPit ds nrow ncol nodata e1 i d)[c]! ≠ e1[c]! → ds[d]! = d ∧ c ∈ d4nbrs ncol d) := by
  unfold digPit
  have triv : e1.size = e1.size ∧ (∀ c : Nat, e1[c]! ≤ e1[c]!) ∧ (∀ c : Nat, e1[c]! = nodata → e1[c]! = e1[c]!) ∧
      (∀ c : Nat, e1[c]! ≠ e1[c]! → ds[d]! = d ∧ c ∈ d4nbrs ncol d) :=
    ⟨rfl, fun _ => Int.le_refl _, fun _ _ => rfl, fun c hc => absurd rfl hc⟩
  split
  · rename_i hp
    split
    · exact triv
    · split
      · exact triv
      · rename_i hany
        obtain ⟨h1, h2, h3⟩ := minFold_spec e1[d]! ((localD4 ncol d d).filter (· != i)) e1
        have hall : ∀ k ∈ localD4 ncol d d, e1[k]! ≠ nodata := by
          intro k hk he
          apply hany
          simp only [List.any_eq_true, beq_iff_eq]
          exact ⟨k, hk, he⟩
        refine ⟨h1, h2, fun c hc => ?_, fun c hc => ?_⟩
        · apply h3
          intro hm
          simp only [List.mem_filter] at hm
          exact hall c hm.1 hc
        · refine ⟨hp, ?_⟩
          apply Classical.byContradiction
          intro hn
          apply hc
          apply h3
          intro hm
          simp only [List.mem_filter] at hm
          exact hn (localD4_sub _ _ _ _ hm.1)
  · exact triv

/-- everything the property says about one iteration of the loop of `dig_4connectivity` -/
theorem digStep_spec (digf : Int → Int → Int) (ds : Array Nat) (nrow ncol : Nat) (mask : Option (Array Bool))
    (nodata : Int) (elv : Array Int) (i : Nat) :
    (digStep digf ds nrow ncol mask nodata elv i).size = elv.size ∧
    (∀ c : Nat, elv[c]! = nodata → (digStep digf ds nrow ncol mask nodata elv i)[c]! = elv[c]!) ∧
    (∀ c : Nat, (digStep digf ds nrow ncol mask nodata elv i)[c]! ≠ elv[c]! →
      maskAt mask i = true ∧ (c ∈ d4nbrs ncol i ∨ (ds[ds[i]!]! = ds[i]! ∧ c ∈ d4nbrs ncol ds[i]!))) ∧
    ((∀ e z, digf e z ≤ e) → ∀ c : Nat, (digStep digf ds nrow ncol mask nodata elv i)[c]! ≤ elv[c]!) := by
  unfold digStep
  have triv : elv.size = elv.size ∧ (∀ c : Nat, elv[c]! = nodata → elv[c]! = elv[c]!) ∧
      (∀ c : Nat, elv[c]! ≠ elv[c]! →
        maskAt mask i = true ∧ (c ∈ d4nbrs ncol i ∨ (ds[ds[i]!]! = ds[i]! ∧ c ∈ d4nbrs ncol ds[i]!))) ∧
      ((∀ e z, digf e z ≤ e) → ∀ c : Nat, elv[c]! ≤ elv[c]!) :=
    ⟨rfl, fun _ _ => rfl, fun c hc => absurd rfl hc, fun _ _ => Int.le_refl _⟩
  split
  · exact triv
  · rename_i hm
    have hm : maskAt mask i = true := by simpa using hm
    split
    · exact triv
    · rename_i e1 he1
      obtain ⟨a1, a2, a3, a4⟩ := digDiag_spec digf ncol nodata elv i ds[i]! e1 he1
      obtain ⟨b1, b2, b3, b4⟩ := digPit_spec ds nrow ncol nodata e1 i ds[i]!
      refine ⟨by rw [b1, a1], fun c hc => ?_, fun c hc => ⟨hm, ?_⟩, fun hd c => ?_⟩
      · have := a2 c hc
        rw [b3 c (by rw [this]; exact hc), this]
      · by_cases h1 : e1[c]! = elv[c]!
        · exact Or.inr (b4 c (by rw [h1]; exact hc))
        · exact Or.inl (a3 c h1)
      · exact Int.le_trans (b2 c) (a4 hd c)

end Pf.C15
