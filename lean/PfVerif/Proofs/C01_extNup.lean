import PfVerif.Model.C01_ext
import PfVerif.Model.C03
import PfVerif.Proofs.C19Nup
import PfVerif.Proofs.C01
/-! Lemmas for the C01 extension, part 2: `core.headwater_indices` / `core.confluence_indices` on top of
`core.upstream_count`. Reuses the per-step lemma `nupStep_get` of C19; the fold lemma here holds for
*every* cell (also cells outside the network and networks that are not well formed). Core Lean only. -/
namespace Pf.Fd.Ext
open Pf Pf.C19 Spec

/-- value of one entry after any part of the loop of `upstream_count` -/
theorem nup_fold_gen (ds : Array Nat) (mask : Option (Array Bool)) (v : Nat) (hv : v < ds.size) :
    ∀ (l : List Nat) (nup0 : Array Int), nup0.size = ds.size → (∀ j ∈ l, j < ds.size) →
      (l.foldl (nupStep ds mask) nup0)[v]! =
        if (v ∈ l ∧ ds[v]! ≠ ds.size) ∨ 0 < (l.filter (inflow ds mask v)).length then
          max nup0[v]! 0 + ((l.filter (inflow ds mask v)).length : Int)
        else nup0[v]! := by
  intro l
  induction l with
  | nil => intro nup0 _ _; simp
  | cons j l ih =>
    intro nup0 hsz hb
    rw [List.foldl_cons, ih _ (by rw [nupStep_size, hsz]) (fun i hi => hb i (by simp [hi])),
      nupStep_get ds mask nup0 j v hsz (hb j (by simp)) hv]
    by_cases hi : inflow ds mask v j = true
    · simp only [hi, or_true, if_true, List.filter_cons, List.length_cons, List.mem_cons]
      have : (0 : Nat) < (List.filter (inflow ds mask v) l).length + 1 := by omega
      simp only [this, or_true, if_true]
      split <;> grind
    · have hi' : inflow ds mask v j = false := by simpa using hi
      simp only [hi', Bool.false_eq_true, or_false, if_false, List.filter_cons, List.mem_cons]
      by_cases hjv : j = v
      · subst hjv
        by_cases hvv : ds[j]! = ds.size
        · simp only [hvv, ne_eq, not_true_eq_false, and_false, if_false, false_or]
        · simp only [hvv, ne_eq, not_false_eq_true, and_self, if_true, true_or, and_true]
          split <;> grind
      · have hvj : ¬ v = j := fun h => hjv h.symm
        simp only [hjv, hvj, false_and, if_false, false_or]

theorem upstreamCount_size (ds : Array Nat) (mask : Option (Array Bool)) : (upstreamCount ds mask).size = ds.size := by
  rw [upstreamCount_eq]
  have : ∀ (l : List Nat) (a : Array Int), (l.foldl (nupStep ds mask) a).size = a.size := by
    intro l
    induction l with
    | nil => intro a; rfl
    | cons j l ih => intro a; rw [List.foldl_cons, ih, nupStep_size]
  rw [this]; simp

/-- the filter predicate of C19 is the one of `Spec.inflowCount` on cells of the raster -/
theorem inflow_eq (ds : Array Nat) (mask : Option (Array Bool)) (v : Nat) (hv : v < ds.size) (j : Nat) :
    inflow ds mask v j = (j != v && ds[j]! == v && maskAt mask j) := by
  rw [Bool.eq_iff_iff]
  simp only [inflow, Bool.and_eq_true, bne_iff_ne, ne_eq, beq_iff_eq]
  constructor
  · rintro ⟨⟨⟨_, h2⟩, h3⟩, h4⟩
    exact ⟨⟨fun h => h2 (by rw [h4, h]), h4⟩, h3⟩
  · rintro ⟨⟨h1, h2⟩, h3⟩
    exact ⟨⟨⟨by rw [h2]; omega, fun h => h1 (by rw [h, h2])⟩, h3⟩, h2⟩

/-- **`upstream_count`, every cell**: the number of admitted inflowing cells if the cell is part of the
network or something flows into it, `-9` otherwise -/
theorem upstreamCount_get (ds : Array Nat) (mask : Option (Array Bool)) (v : Nat) (hv : v < ds.size) :
    (upstreamCount ds mask)[v]! =
      if ds[v]! ≠ ds.size ∨ 0 < inflowCount ds mask v then (inflowCount ds mask v : Int) else -9 := by
  have hc : inflowCount ds mask v = ((List.range ds.size).filter (inflow ds mask v)).length := by
    unfold inflowCount
    congr 1
    apply List.filter_congr
    intro j _
    exact (inflow_eq ds mask v hv j).symm
  rw [upstreamCount_eq, nup_fold_gen ds mask v hv _ _ (by simp) (fun j hj => List.mem_range.mp hj), ← hc]
  have hmem : v ∈ List.range ds.size := List.mem_range.mpr hv
  have h9 : (Array.replicate ds.size (-9 : Int))[v]! = -9 := by simp [hv]
  simp only [hmem, true_and, h9]
  split
  · omega
  · rfl

/-! ### counting in a filtered range -/

theorem one_le_count_iff (p : Nat → Bool) (n : Nat) :
    1 ≤ ((List.range n).filter p).length ↔ ∃ j, j < n ∧ p j = true := by
  induction n with
  | zero => simp
  | succ n ih =>
    rw [filter_range_succ, List.length_append]
    constructor
    · intro h
      by_cases hp : p n = true
      · exact ⟨n, by omega, hp⟩
      · have : 1 ≤ ((List.range n).filter p).length := by simpa [hp] using h
        obtain ⟨j, hj, hpj⟩ := ih.1 this
        exact ⟨j, by omega, hpj⟩
    · rintro ⟨j, hj, hpj⟩
      by_cases hjn : j = n
      · subst hjn; simp [hpj]
      · have := ih.2 ⟨j, by omega, hpj⟩
        omega

theorem two_le_count_iff (p : Nat → Bool) (n : Nat) :
    2 ≤ ((List.range n).filter p).length ↔ ∃ j k, j < k ∧ k < n ∧ p j = true ∧ p k = true := by
  induction n with
  | zero => simp
  | succ n ih =>
    rw [filter_range_succ, List.length_append]
    constructor
    · intro h
      by_cases h2 : 2 ≤ ((List.range n).filter p).length
      · obtain ⟨j, k, h1, h2, h3, h4⟩ := ih.1 h2
        exact ⟨j, k, h1, by omega, h3, h4⟩
      · by_cases hp : p n = true
        · have h1 : 1 ≤ ((List.range n).filter p).length := by
            simp only [hp, if_true, List.length_cons, List.length_nil] at h; omega
          obtain ⟨j, hj, hpj⟩ := (one_le_count_iff p n).1 h1
          exact ⟨j, n, hj, by omega, hpj, hp⟩
        · exfalso
          simp only [hp, Bool.false_eq_true, if_false, List.length_nil] at h
          omega
    · rintro ⟨j, k, h1, h2, h3, h4⟩
      by_cases hkn : k = n
      · subst hkn
        have := (one_le_count_iff p k).2 ⟨j, h1, h3⟩
        simp only [h4, if_true, List.length_cons, List.length_nil]
        omega
      · have := ih.2 ⟨j, k, h1, by omega, h3, h4⟩
        omega

theorem count_zero_iff (p : Nat → Bool) (n : Nat) :
    ((List.range n).filter p).length = 0 ↔ ∀ j, j < n → p j = false := by
  constructor
  · intro h j hj
    cases hp : p j with
    | false => rfl
    | true =>
      have := (one_le_count_iff p n).2 ⟨j, hj, hp⟩
      omega
  · intro h
    cases hc : ((List.range n).filter p).length with
    | zero => rfl
    | succ m =>
      obtain ⟨j, hj, hp⟩ := (one_le_count_iff p n).1 (by omega)
      rw [h j hj] at hp; cases hp

/-! ### the two index lists -/

theorem mem_headwaterIndices (ds : Array Nat) (mask : Option (Array Bool)) (i : Nat) :
    i ∈ headwaterIndices ds mask ↔ i < ds.size ∧ ds[i]! ≠ ds.size ∧ inflowCount ds mask i = 0 := by
  unfold headwaterIndices
  simp only [List.mem_filter, List.mem_range, upstreamCount_size, beq_iff_eq]
  constructor
  · rintro ⟨hi, h⟩
    rw [upstreamCount_get ds mask i hi] at h
    split at h
    · rename_i hc
      refine ⟨hi, ?_, by omega⟩
      rcases hc with hc | hc
      · exact hc
      · omega
    · omega
  · rintro ⟨hi, h1, h2⟩
    refine ⟨hi, ?_⟩
    rw [upstreamCount_get ds mask i hi, if_pos (Or.inl h1), h2]
    rfl

theorem mem_confluenceIndices (ds : Array Nat) (mask : Option (Array Bool)) (i : Nat) :
    i ∈ confluenceIndices ds mask ↔ i < ds.size ∧ 2 ≤ inflowCount ds mask i := by
  unfold confluenceIndices
  simp only [List.mem_filter, List.mem_range, upstreamCount_size, decide_eq_true_eq]
  constructor
  · rintro ⟨hi, h⟩
    rw [upstreamCount_get ds mask i hi] at h
    split at h
    · exact ⟨hi, by omega⟩
    · omega
  · rintro ⟨hi, h2⟩
    refine ⟨hi, ?_⟩
    rw [upstreamCount_get ds mask i hi, if_pos (Or.inr (by omega))]
    omega

/-- in a well-formed network (no link into a missing cell) only cells of the network have inflow -/
theorem inflow_valid (ds : Array Nat) (hwf : WF ds) (mask : Option (Array Bool)) (i : Nat) (hi : i < ds.size)
    (h : 1 ≤ inflowCount ds mask i) : ds[i]! ≠ ds.size := by
  obtain ⟨j, hj, hp⟩ := (one_le_count_iff _ _).1 h
  simp only [Bool.and_eq_true, bne_iff_ne, ne_eq, beq_iff_eq] at hp
  obtain ⟨⟨_, h2⟩, _⟩ := hp
  have := (hwf j hj).2 (by rw [h2]; exact hi)
  rw [h2] at this
  omega

end Pf.Fd.Ext
