import PfVerif.Proofs.C14_rivB
import PfVerif.Proofs.C14Fuel
import PfVerif.Proofs.C14_rivD
/-! Helper lemmas for the extension C14_riv (core Lean only): the slope a cell uses in the Manning
branch of `river_depth` (scaled integers, filled by the `sweepUp` of `fillnodata`) is, as a fraction,
the declarative oracle `rivslpSpec` (fractions `dz/dx`, walk with fuel, brute-force maximum). -/
namespace Pf.C14x
open Pf

/-- equality of fractions (denominators positive where it is used) -/
def fracEq (a b : Int × Int) : Prop := a.1 * b.2 = b.1 * a.2

/-! ### fractions -/

theorem fracLe_iff (a b : Int × Int) : fracLe a b = true ↔ a.1 * b.2 ≤ b.1 * a.2 := by
  simp [fracLe]

theorem frac_trans {a b c : Int × Int} (ha : 0 < a.2) (hb : 0 < b.2) (hc : 0 < c.2)
    (h1 : a.1 * b.2 ≤ b.1 * a.2) (h2 : b.1 * c.2 ≤ c.1 * b.2) : a.1 * c.2 ≤ c.1 * a.2 := by
  have e1 := Int.mul_le_mul_of_nonneg_right h1 (Int.le_of_lt hc)
  have e2 := Int.mul_le_mul_of_nonneg_right h2 (Int.le_of_lt ha)
  have e3 : a.1 * c.2 * b.2 ≤ c.1 * a.2 * b.2 := by
    have x1 : a.1 * c.2 * b.2 = a.1 * b.2 * c.2 := by ac_rfl
    have x2 : b.1 * a.2 * c.2 = b.1 * c.2 * a.2 := by ac_rfl
    have x3 : c.1 * b.2 * a.2 = c.1 * a.2 * b.2 := by ac_rfl
    omega
  exact Int.le_of_mul_le_mul_right e3 hb

theorem fracMax_cases (a q : Int × Int) :
    (fracMax a q = a ∨ fracMax a q = q) ∧ fracLe a (fracMax a q) = true ∧ fracLe q (fracMax a q) = true := by
  by_cases h : fracLe a q = true
  · have e : fracMax a q = q := by simp [fracMax, h]
    rw [e]; exact ⟨Or.inr rfl, h, by simp [fracLe]⟩
  · have e : fracMax a q = a := by simp [fracMax, h]
    rw [e]
    refine ⟨Or.inl rfl, by simp [fracLe], ?_⟩
    simp only [fracLe, decide_eq_true_eq] at h ⊢
    omega

/-! ### the local slope: scaled integer ↔ fraction -/

theorem riverExact_get (ds : Array Nat) (P : RdParams) (h : riverExact ds P = true) (i : Nat)
    (hi : i < ds.size) (hx : rdDx ds P i ≥ P.K) : (P.S * rdDz ds P i) % rdDx ds P i = 0 := by
  simp only [riverExact, List.all_eq_true, List.mem_range, Bool.or_eq_true, Bool.not_eq_true',
    decide_eq_false_iff_not, beq_iff_eq] at h
  rcases h i hi with h | h
  · exact absurd hx h
  · exact h

theorem locFrac_eq (ds : Array Nat) (P : RdParams) (k : Nat) (hk : k < ds.size) :
    locFrac ds P k =
      if rdDx ds P k ≥ P.K ∧ rdDz ds P k ≠ -9999 * rdDx ds P k then some (rdDz ds P k, rdDx ds P k)
      else none := by
  simp only [locFrac, rdDz, rdDx, downstream_get ds _ k hk]
  by_cases h : ds[k]'hk = ds.size
  · simp [isValid, hk, h]
  · simp [isValid, hk, h]

/-- a cell has a fraction `dz/dx` in the oracle iff the model's scaled local slope is not nodata, and
then the scaled integer represents that fraction: `local · dx = S · dz`, `dx > 0` -/
theorem locFrac_iff (ds : Array Nat) (P : RdParams) (hS : 0 < P.S) (hK : 0 < P.K)
    (hex : riverExact ds P = true) (k : Nat) (hk : k < ds.size) :
    ((rivslpLocal ds P)[k]! ≠ P.nd ↔ ∃ q, locFrac ds P k = some q) ∧
    (∀ q, locFrac ds P k = some q → 0 < q.2 ∧ (rivslpLocal ds P)[k]! * q.2 = P.S * q.1) := by
  rw [locFrac_eq ds P k hk, rivslpLocal_get ds P k hk]
  by_cases hx : rdDx ds P k ≥ P.K
  · have hdiv := riverExact_get ds P hex k hk hx
    have hmul : P.S * rdDz ds P k / rdDx ds P k * rdDx ds P k = P.S * rdDz ds P k :=
      Int.ediv_mul_cancel (Int.dvd_of_emod_eq_zero hdiv)
    have hpos : 0 < rdDx ds P k := by omega
    rw [if_pos hx]
    by_cases hz : rdDz ds P k = -9999 * rdDx ds P k
    · have hnd : P.S * rdDz ds P k / rdDx ds P k = P.nd := by
        apply Int.eq_of_mul_eq_mul_right (Int.ne_of_gt hpos)
        rw [hmul, hz]; unfold RdParams.nd
        rw [← Int.mul_assoc, Int.mul_comm P.S]
      have hc : ¬ (rdDx ds P k ≥ P.K ∧ rdDz ds P k ≠ -9999 * rdDx ds P k) := fun h => h.2 hz
      rw [if_neg hc, hnd]
      constructor
      · simp
      · intro q hq; cases hq
    · have hnd : P.S * rdDz ds P k / rdDx ds P k ≠ P.nd := by
        intro h
        apply hz
        apply Int.eq_of_mul_eq_mul_left (Int.ne_of_gt hS)
        rw [← hmul, h]; unfold RdParams.nd
        rw [Int.mul_assoc, Int.mul_comm P.S, ← Int.mul_assoc, Int.mul_comm P.S, Int.mul_assoc]
      rw [if_pos ⟨hx, hz⟩]
      constructor
      · exact ⟨fun _ => ⟨_, rfl⟩, fun _ => hnd⟩
      · intro q hq
        cases hq
        exact ⟨hpos, hmul⟩
  · have hc : ¬ (rdDx ds P k ≥ P.K ∧ rdDz ds P k ≠ -9999 * rdDx ds P k) := fun h => hx h.1
    rw [if_neg hx, if_neg hc]
    constructor
    · simp
    · intro q hq; cases hq

/-- `max(min_rivslp, v/S)` (model) and `max(min_rivslp, dz/dx)` (oracle) are the same fraction when
`v/S = dz/dx` -/
theorem maxSlope_fracEq (P : RdParams) (hS : 0 < P.S) (v : Int) (q : Int × Int) (hq : 0 < q.2)
    (hv : v * q.2 = P.S * q.1) : fracEq (maxSlope P v) (fracMax (P.minNum, P.minDen) q) := by
  have key : P.minNum * P.S ≤ v * P.minDen ↔ P.minNum * q.2 ≤ q.1 * P.minDen := by
    constructor
    · intro h
      have h1 := Int.mul_le_mul_of_nonneg_right h (Int.le_of_lt hq)
      have x1 : v * P.minDen * q.2 = P.S * (q.1 * P.minDen) := by
        have : v * P.minDen * q.2 = v * q.2 * P.minDen := by ac_rfl
        rw [this, hv]; ac_rfl
      have x2 : P.minNum * P.S * q.2 = P.S * (P.minNum * q.2) := by ac_rfl
      rw [x1, x2] at h1
      exact Int.le_of_mul_le_mul_left h1 hS
    · intro h
      have h1 := Int.mul_le_mul_of_nonneg_left h (Int.le_of_lt hS)
      have x1 : P.S * (q.1 * P.minDen) = v * P.minDen * q.2 := by
        have : v * P.minDen * q.2 = v * q.2 * P.minDen := by ac_rfl
        rw [this, hv]; ac_rfl
      have x2 : P.S * (P.minNum * q.2) = P.minNum * P.S * q.2 := by ac_rfl
      rw [x1, x2] at h1
      exact Int.le_of_mul_le_mul_right h1 hq
  unfold fracEq
  by_cases h : P.minNum * P.S ≤ v * P.minDen
  · have e1 : maxSlope P v = (v, P.S) := by simp [maxSlope, h]
    have e2 : fracMax (P.minNum, P.minDen) q = q := by simp [fracMax, fracLe, key.1 h]
    rw [e1, e2]; simp only; rw [hv]; exact Int.mul_comm _ _
  · have e1 : maxSlope P v = (P.minNum, P.minDen) := by simp [maxSlope, h]
    have hf : ¬ (fracLe (P.minNum, P.minDen) q = true) := by
      rw [fracLe_iff]; exact fun hh => h (key.2 hh)
    have e2 : fracMax (P.minNum, P.minDen) q = (P.minNum, P.minDen) := by
      simp [fracMax, hf]
    rw [e1, e2]

theorem maxSlope_den_pos (P : RdParams) (hS : 0 < P.S) (hD : 0 < P.minDen) (v : Int) :
    0 < (maxSlope P v).2 := by
  unfold maxSlope; split
  · exact hS
  · exact hD

theorem fracMax_den_pos {a q : Int × Int} (ha : 0 < a.2) (hq : 0 < q.2) : 0 < (fracMax a q).2 := by
  rcases (fracMax_cases a q).1 with e | e <;> rw [e]
  · exact ha
  · exact hq

/-- the same fraction, both denominators positive -/
def FracSame (a b : Int × Int) : Prop := fracEq a b ∧ 0 < a.2 ∧ 0 < b.2

theorem maxSlope_fracSame (P : RdParams) (hS : 0 < P.S) (hD : 0 < P.minDen) (v : Int) (q : Int × Int)
    (hq : 0 < q.2) (hv : v * q.2 = P.S * q.1) :
    FracSame (maxSlope P v) (fracMax (P.minNum, P.minDen) q) :=
  ⟨maxSlope_fracEq P hS v q hq hv, maxSlope_den_pos P hS hD v, fracMax_den_pos hD hq⟩

/-! ### `Feeds` (snoc-shaped) against the oracle's walk (cons-shaped) -/

/-- hypotheses shared by the lemmas below: what `locFrac_iff` provides -/
structure LocOK (ds : Array Nat) (P : RdParams) : Prop where
  iff : ∀ k, k < ds.size → ((rivslpLocal ds P)[k]! ≠ P.nd ↔ ∃ q, locFrac ds P k = some q)
  val : ∀ k, k < ds.size → ∀ q, locFrac ds P k = some q →
    0 < q.2 ∧ (rivslpLocal ds P)[k]! * q.2 = P.S * q.1

theorem LocOK.none_iff {ds : Array Nat} {P : RdParams} (h : LocOK ds P) (k : Nat) (hk : k < ds.size) :
    (locFrac ds P k).isSome = false ↔ (rivslpLocal ds P)[k]! = P.nd := by
  have := h.iff k hk
  cases hl : locFrac ds P k with
  | none =>
    simp only [Option.isSome_none, true_iff]
    exact Classical.byContradiction fun hne => by
      obtain ⟨q, hq⟩ := this.1 hne
      rw [hl] at hq; cases hq
  | some q =>
    simp only [Option.isSome_some, Bool.true_eq_false, false_iff]
    exact this.2 ⟨q, hl⟩

theorem feedsWalk_sound (ds : Array Nat) (P : RdParams) (hok : LocOK ds P) (j : Nat) :
    ∀ fuel c, feedsWalk ds P j fuel c = true → Feeds ds (rivslpLocal ds P) P.nd c j := by
  intro fuel
  induction fuel with
  | zero => intro c h; simp [feedsWalk] at h
  | succ f ih =>
    intro c h
    simp only [feedsWalk] at h
    by_cases h1 : ds[c]! = c ∨ ds[c]! ≥ ds.size
    · rw [if_pos h1] at h; cases h
    · rw [if_neg h1] at h
      have hp : ds[c]! ≠ c := fun e => h1 (Or.inl e)
      have hd : ds[c]! < ds.size := by
        rcases Nat.lt_or_ge ds[c]! ds.size with e | e
        · exact e
        · exact absurd (Or.inr e) h1
      by_cases h2 : (locFrac ds P ds[c]!).isSome = true
      · rw [if_pos h2] at h; cases h
      · rw [if_neg h2] at h
        have hnd : (rivslpLocal ds P)[ds[c]!]! = P.nd := (hok.none_iff _ hd).1 (by simpa using h2)
        simp only [Bool.or_eq_true, beq_iff_eq] at h
        rcases h with h | h
        · have := Feeds.step (ds := ds) (data := rivslpLocal ds P) (nd := P.nd) (k := c) hp hnd
          rwa [h] at this
        · exact Feeds.cons_c14 hp hnd (ih _ h)

theorem feedsWalk_complete (ds : Array Nat) (P : RdParams) (hok : LocOK ds P) (seq : List Nat)
    (htopo : Topo ds seq) (hb : ∀ i ∈ seq, i < ds.size) (j : Nat) :
    ∀ fuel c, c ∈ seq → pitWithin_c14 ds fuel c = true → Feeds ds (rivslpLocal ds P) P.nd c j →
      feedsWalk ds P j fuel c = true := by
  intro fuel
  induction fuel with
  | zero => intro c _ h; simp [pitWithin_c14] at h
  | succ f ih =>
    intro c hc hp hf
    obtain ⟨h1, h2, h3⟩ := Feeds.inv_c14 hf
    have hdm := Topo.ds_mem htopo c hc
    have hd := hb _ hdm
    simp only [pitWithin_c14, Bool.or_eq_true, beq_iff_eq] at hp
    have hp' : pitWithin_c14 ds f ds[c]! = true := by
      rcases hp with e | e
      · exact absurd e h1
      · exact e
    simp only [feedsWalk]
    rw [if_neg (by omega : ¬ (ds[c]! = c ∨ ds[c]! ≥ ds.size))]
    have hns : ¬ (locFrac ds P ds[c]!).isSome = true := by
      rw [(hok.none_iff _ hd).2 h2]; decide
    rw [if_neg hns]
    simp only [Bool.or_eq_true, beq_iff_eq]
    rcases h3 with e | e
    · exact Or.inl e.symm
    · exact Or.inr (ih _ hdm hp' e)

/-! ### the brute-force maximum of the oracle -/

/-- one step of the fold of `rivslpSpec`, through the candidate fraction of cell `k` -/
def candStep (cand : Nat → Option (Int × Int)) (acc : Option (Int × Int)) (k : Nat) : Option (Int × Int) :=
  match cand k with
  | none => acc
  | some q => match acc with
    | none => some q
    | some a => some (fracMax a q)

theorem candFold_spec (cand : Nat → Option (Int × Int)) (hpos : ∀ k q, cand k = some q → 0 < q.2) :
    ∀ (l : List Nat) (acc : Option (Int × Int)), (∀ a, acc = some a → 0 < a.2) →
      (l.foldl (candStep cand) acc = none ↔ acc = none ∧ ∀ k ∈ l, cand k = none) ∧
      (∀ m, l.foldl (candStep cand) acc = some m →
        0 < m.2 ∧ (acc = some m ∨ ∃ k ∈ l, cand k = some m) ∧
        (∀ a, acc = some a → a.1 * m.2 ≤ m.1 * a.2) ∧
        (∀ k ∈ l, ∀ q, cand k = some q → q.1 * m.2 ≤ m.1 * q.2)) := by
  intro l
  induction l with
  | nil =>
    intro acc hacc
    refine ⟨by simp, ?_⟩
    intro m hm
    simp only [List.foldl_nil] at hm
    refine ⟨hacc m hm, Or.inl hm, ?_, by simp⟩
    intro a ha; rw [hm] at ha; cases ha; exact Int.le_refl _
  | cons k l ih =>
    intro acc hacc
    simp only [List.foldl_cons]
    -- the accumulator after cell `k`
    have hstep : (∀ a, candStep cand acc k = some a → 0 < a.2) ∧
        (candStep cand acc k = none ↔ acc = none ∧ cand k = none) ∧
        (∀ a', candStep cand acc k = some a' →
          (acc = some a' ∨ cand k = some a') ∧
          (∀ a, acc = some a → a.1 * a'.2 ≤ a'.1 * a.2) ∧
          (∀ q, cand k = some q → q.1 * a'.2 ≤ a'.1 * q.2)) := by
      cases hc : cand k with
      | none =>
        simp only [candStep, hc]
        refine ⟨hacc, by simp, ?_⟩
        intro a' ha'
        refine ⟨Or.inl ha', ?_, by simp⟩
        intro a ha; rw [ha'] at ha; cases ha; exact Int.le_refl _
      | some q =>
        have hq := hpos k q hc
        cases ha : acc with
        | none =>
          simp only [candStep, hc]
          refine ⟨?_, by simp, ?_⟩
          · intro a h; cases h; exact hq
          · intro a' h; cases h
            exact ⟨Or.inr rfl, by simp, fun q' h' => by cases h'; exact Int.le_refl _⟩
        | some a =>
          simp only [candStep, hc]
          obtain ⟨c1, c2, c3⟩ := fracMax_cases a q
          rw [fracLe_iff] at c2 c3
          refine ⟨?_, by simp, ?_⟩
          · intro a' h; cases h
            rcases c1 with e | e <;> rw [e]
            · exact hacc a ha
            · exact hq
          · intro a' h; cases h
            refine ⟨?_, ?_, ?_⟩
            · rcases c1 with e | e
              · exact Or.inl (by rw [e])
              · exact Or.inr (by rw [e])
            · intro a0 h0; cases h0; exact c2
            · intro q0 h0; cases h0; exact c3
    obtain ⟨s1, s2, s3⟩ := hstep
    obtain ⟨i1, i2⟩ := ih (candStep cand acc k) s1
    constructor
    · rw [i1, s2]
      constructor
      · rintro ⟨⟨a, b⟩, c⟩
        exact ⟨a, fun k' hk' => by
          rcases List.mem_cons.1 hk' with e | e
          · rw [e]; exact b
          · exact c k' e⟩
      · rintro ⟨a, b⟩
        exact ⟨⟨a, b k (by simp)⟩, fun k' hk' => b k' (by simp [hk'])⟩
    · intro m hm
      obtain ⟨m1, m2, m3, m4⟩ := i2 m hm
      refine ⟨m1, ?_, ?_, ?_⟩
      · rcases m2 with e | ⟨k', hk', e⟩
        · rcases (s3 m e).1 with e' | e'
          · exact Or.inl e'
          · exact Or.inr ⟨k, by simp, e'⟩
        · exact Or.inr ⟨k', by simp [hk'], e⟩
      · intro a ha
        cases hs : candStep cand acc k with
        | none => rw [(s2.1 hs).1] at ha; cases ha
        | some a' =>
          exact frac_trans (hacc a ha) (s1 a' hs) m1 ((s3 a' hs).2.1 a ha) (m3 a' hs)
      · intro k' hk' q hq
        rcases List.mem_cons.1 hk' with e | e
        · subst e
          cases hs : candStep cand acc k' with
          | none => rw [(s2.1 hs).2] at hq; cases hq
          | some a' =>
            exact frac_trans (hpos k' q hq) (s1 a' hs) m1 ((s3 a' hs).2.2 q hq) (m3 a' hs)
        · exact m4 k' e q hq

/-! ### model = oracle -/

/-- candidate fraction cell `k` contributes to the oracle's maximum for the target cell `j` -/
def specCand (ds : Array Nat) (P : RdParams) (j k : Nat) : Option (Int × Int) :=
  match locFrac ds P k with
  | none => none
  | some q => if isValid ds k && feedsWalk ds P j (ds.size + 1) k then some q else none

theorem rivslpSpec_eq (ds : Array Nat) (P : RdParams) (j : Nat) :
    rivslpSpec ds P j =
      match (match locFrac ds P j with
             | some q => some q
             | none => (List.range ds.size).foldl (candStep (specCand ds P j)) none) with
      | none => (P.minNum, P.minDen)
      | some q => fracMax (P.minNum, P.minDen) q := by
  have hfun : (fun (acc : Option (Int × Int)) (k : Nat) =>
        match locFrac ds P k with
        | none => acc
        | some q =>
          if isValid ds k && feedsWalk ds P j (ds.size + 1) k then
            (match acc with | none => some q | some a => some (fracMax a q))
          else acc) = candStep (specCand ds P j) := by
    funext acc k
    simp only [candStep, specCand]
    cases locFrac ds P k with
    | none => rfl
    | some q =>
      simp only []
      by_cases h : (isValid ds k && feedsWalk ds P j (ds.size + 1) k) = true
      · simp [h]
      · simp [h]
  rw [← hfun]; rfl

theorem scaled_le {S a b : Int} {p q : Int × Int} (hS : 0 < S) (hp : 0 < p.2) (hq : 0 < q.2)
    (ha : a * p.2 = S * p.1) (hb : b * q.2 = S * q.1) (h : p.1 * q.2 ≤ q.1 * p.2) : a ≤ b := by
  have h1 := Int.mul_le_mul_of_nonneg_left h (Int.le_of_lt hS)
  have x1 : S * (p.1 * q.2) = a * (p.2 * q.2) := by
    rw [← Int.mul_assoc, ← ha]; ac_rfl
  have x2 : S * (q.1 * p.2) = b * (p.2 * q.2) := by
    rw [← Int.mul_assoc, ← hb]; ac_rfl
  rw [x1, x2] at h1
  exact Int.le_of_mul_le_mul_right h1 (Int.mul_pos hp hq)

/-- **the slope a cell of the network uses (model, scaled integers, cell order `seq`) is the fraction
the oracle computes** -/
theorem rivslpFinal_eq_spec (ds : Array Nat) (seq : List Nat) (P : RdParams) (htopo : Topo ds seq)
    (hb : ∀ i ∈ seq, i < ds.size) (hcov : ∀ c, isValid ds c = true → c ∈ seq)
    (hS : 0 < P.S) (hK : 0 < P.K) (hD : 0 < P.minDen) (hmin : -9999 * P.minDen < P.minNum)
    (hex : riverExact ds P = true)
    (j : Nat) (hj : j ∈ seq) : FracSame (rivslpFinal ds seq P)[j]! (rivslpSpec ds P j) := by
  have hok : LocOK ds P :=
    ⟨fun k hk => (locFrac_iff ds P hS hK hex k hk).1, fun k hk => (locFrac_iff ds P hS hK hex k hk).2⟩
  have hjn := hb j hj
  have hb' : ∀ i ∈ seq, i < (rivslpLocal ds P).size := by
    intro i hi; rw [rivslpLocal_size]; exact hb i hi
  have hj' : j < (rivslpLocal ds P).size := by rw [rivslpLocal_size]; exact hjn
  obtain ⟨hrec, hget⟩ := fillDown_rec ds seq (rivslpLocal ds P) P.nd 0 htopo hb' j hj'
  obtain ⟨F1, F2⟩ := fillDown_frontier_sel 0 (fun a b => b ≤ a) (fun a => Int.le_refl a)
    (fun a b c h1 h2 => Int.le_trans h2 h1)
    (fun x a => by have : mergeHow 0 x a = max x a := by simp [mergeHow]
                   rw [this]; omega)
    (fun x a => by have : mergeHow 0 x a = max x a := by simp [mergeHow]
                   rw [this]; omega) ds seq (rivslpLocal ds P) P.nd htopo hb'
  have hfin : (rivslpFinal ds seq P)[j]! =
      maxSlope P ((optOf (fillDownState ds seq (rivslpLocal ds P) P.nd 0)[j]!).getD P.nd) := by
    rw [rivslpFinal_get ds seq P j hjn]; unfold rivslpFilled; rw [hget]
  rw [hfin, rivslpSpec_eq]
  by_cases hown : (rivslpLocal ds P)[j]! ≠ P.nd
  · -- the cell has its own slope
    obtain ⟨q, hq⟩ := (hok.iff j hjn).1 hown
    obtain ⟨hq2, hqv⟩ := hok.val j hjn q hq
    rw [hrec, if_pos hown, hq]
    exact maxSlope_fracSame P hS hD _ q hq2 hqv
  · have hnd : (rivslpLocal ds P)[j]! = P.nd := Classical.byContradiction hown
    have hlj : locFrac ds P j = none := by
      cases h : locFrac ds P j with
      | none => rfl
      | some q => exact absurd ((hok.iff j hjn).2 ⟨q, h⟩) hown
    rw [hlj]
    simp only []
    -- candidates of the oracle = nearest upstream cells with a slope
    have hcand : ∀ k q, specCand ds P j k = some q →
        k ∈ seq ∧ locFrac ds P k = some q ∧ Feeds ds (rivslpLocal ds P) P.nd k j := by
      intro k q h
      simp only [specCand] at h
      cases hl : locFrac ds P k with
      | none => rw [hl] at h; cases h
      | some q' =>
        rw [hl] at h
        simp only [] at h
        by_cases hc : (isValid ds k && feedsWalk ds P j (ds.size + 1) k) = true
        · rw [if_pos hc] at h; cases h
          simp only [Bool.and_eq_true] at hc
          exact ⟨hcov k hc.1, rfl, feedsWalk_sound ds P hok j _ k hc.2⟩
        · rw [if_neg hc] at h; cases h
    have hcand' : ∀ k ∈ seq, ∀ q, locFrac ds P k = some q → Feeds ds (rivslpLocal ds P) P.nd k j →
        specCand ds P j k = some q := by
      intro k hk q hl hf
      have h1 := Topo.valid_c14x htopo hb k hk
      have h2 := feedsWalk_complete ds P hok seq htopo hb j _ k hk (htopo.reach_size_c14 hb k hk) hf
      simp [specCand, hl, h1, h2]
    have hpos : ∀ k q, specCand ds P j k = some q → 0 < q.2 := by
      intro k q h
      obtain ⟨hk, hl, _⟩ := hcand k q h
      exact (hok.val k (hb k hk) q hl).1
    obtain ⟨f1, f2⟩ := candFold_spec (specCand ds P j) hpos (List.range ds.size) none (by simp)
    cases hO : optOf (fillDownState ds seq (rivslpLocal ds P) P.nd 0)[j]! with
    | none =>
      -- no slope reaches the cell: `min_rivslp`
      have hfold : (List.range ds.size).foldl (candStep (specCand ds P j)) none = none := by
        rw [f1]
        refine ⟨rfl, fun k _ => ?_⟩
        cases hc : specCand ds P j k with
        | none => rfl
        | some q =>
          obtain ⟨hk, hl, hf⟩ := hcand k q hc
          obtain ⟨r, hr, _⟩ := F1 k hk ((hok.iff k (hb k hk)).2 ⟨q, hl⟩) j hf
          rw [hO] at hr; cases hr
      rw [hfold]
      simp only [Option.getD_none]
      have h : ¬ (P.minNum * P.S ≤ P.nd * P.minDen) := by
        intro hle
        have h1 : P.nd * P.minDen = (-9999 * P.minDen) * P.S := by
          unfold RdParams.nd
          rw [Int.mul_assoc, Int.mul_comm P.S, ← Int.mul_assoc]
        rw [h1] at hle
        have := Int.mul_lt_mul_of_pos_right hmin hS
        omega
      have e : maxSlope P P.nd = (P.minNum, P.minDen) := by simp [maxSlope, h]
      rw [e]; exact ⟨rfl, hD, hD⟩
    | some r =>
      simp only [Option.getD_some]
      rcases F2 j hj r hO with ⟨h, _⟩ | ⟨k0, hk0, hl0, hf0, hr0⟩
      · exact absurd h hown
      · obtain ⟨q0, hq0⟩ := (hok.iff k0 (hb k0 hk0)).1 hl0
        have hc0 := hcand' k0 hk0 q0 hq0 hf0
        cases hfold : (List.range ds.size).foldl (candStep (specCand ds P j)) none with
        | none =>
          have := (f1.1 hfold).2 k0 (List.mem_range.2 (hb k0 hk0))
          rw [hc0] at this; cases this
        | some m =>
          simp only []
          obtain ⟨m1, m2, _, m4⟩ := f2 m hfold
          rcases m2 with e | ⟨k1, _, hc1⟩
          · cases e
          · obtain ⟨hk1, hl1, hf1⟩ := hcand k1 m hc1
            obtain ⟨_, hv1⟩ := hok.val k1 (hb k1 hk1) m hl1
            obtain ⟨hq02, hv0⟩ := hok.val k0 (hb k0 hk0) q0 hq0
            obtain ⟨r', hr', hle⟩ := F1 k1 hk1 ((hok.iff k1 (hb k1 hk1)).2 ⟨m, hl1⟩) j hf1
            rw [hO] at hr'; cases hr'
            have hge : (rivslpLocal ds P)[k0]! ≤ (rivslpLocal ds P)[k1]! :=
              scaled_le hS hq02 m1 hv0 hv1 (m4 k0 (List.mem_range.2 (hb k0 hk0)) q0 hc0)
            have hr1 : r = (rivslpLocal ds P)[k1]! := by omega
            rw [hr1]
            exact maxSlope_fracSame P hS hD _ m m1 hv1

/-- outside the network both sides are `min_rivslp` -/
theorem rivslpFinal_eq_spec_outside (ds : Array Nat) (seq : List Nat) (P : RdParams) (htopo : Topo ds seq)
    (hb : ∀ i ∈ seq, i < ds.size) (hcov : ∀ c, isValid ds c = true → c ∈ seq)
    (hS : 0 < P.S) (hK : 0 < P.K) (hmin : -9999 * P.minDen < P.minNum) (hex : riverExact ds P = true)
    (j : Nat) (hjn : j < ds.size) (hj : j ∉ seq) :
    (rivslpFinal ds seq P)[j]! = (P.minNum, P.minDen) ∧ rivslpSpec ds P j = (P.minNum, P.minDen) := by
  have hok : LocOK ds P :=
    ⟨fun k hk => (locFrac_iff ds P hS hK hex k hk).1, fun k hk => (locFrac_iff ds P hS hK hex k hk).2⟩
  have hinv : isValid ds j = false := by
    cases h : isValid ds j with
    | false => rfl
    | true => exact absurd (hcov j h) hj
  have hdsj : ds[j]! = ds.size := by
    simp only [isValid, hjn, decide_true, Bool.true_and, bne_eq_false_iff_eq] at hinv
    exact hinv
  have hb' : ∀ i ∈ seq, i < (rivslpLocal ds P).size := by
    intro i hi; rw [rivslpLocal_size]; exact hb i hi
  have hj' : j < (rivslpLocal ds P).size := by rw [rivslpLocal_size]; exact hjn
  have hdx : rdDx ds P j = 0 := by
    simp [rdDx, downstream_get ds P.rivdst j hjn, hdsj]
  have hnd : (rivslpLocal ds P)[j]! = P.nd := by
    rw [rivslpLocal_get ds P j hjn, hdx, if_neg (by omega)]
  have hlj : locFrac ds P j = none := by
    cases h : locFrac ds P j with
    | none => rfl
    | some q => exact absurd hnd ((hok.iff j hjn).2 ⟨q, h⟩)
  constructor
  · obtain ⟨hrec, hget⟩ := fillDown_rec ds seq (rivslpLocal ds P) P.nd 0 htopo hb' j hj'
    have hkids : kids ds seq j = [] := by
      simp only [kids, List.filter_eq_nil_iff, List.mem_reverse]
      intro c hc
      have : ds[c]! ≠ j := fun e => hj (e ▸ Topo.ds_mem htopo c hc)
      simp [this]
    rw [rivslpFinal_get ds seq P j hjn]; unfold rivslpFilled
    rw [hget, hrec, if_neg (by simp [hnd]), hkids]
    have h : ¬ (P.minNum * P.S ≤ P.nd * P.minDen) := by
      intro hle
      have h1 : P.nd * P.minDen = (-9999 * P.minDen) * P.S := by
        unfold RdParams.nd
        rw [Int.mul_assoc, Int.mul_comm P.S, ← Int.mul_assoc]
      rw [h1] at hle
      have := Int.mul_lt_mul_of_pos_right hmin hS
      omega
    simp [mergeBranches, maxSlope, h]
  · rw [rivslpSpec_eq, hlj]
    simp only []
    have hpos : ∀ k q, specCand ds P j k = some q → 0 < q.2 := by
      intro k q h
      simp only [specCand] at h
      cases hl : locFrac ds P k with
      | none => rw [hl] at h; cases h
      | some q' =>
        rw [hl] at h
        simp only [] at h
        by_cases hc : (isValid ds k && feedsWalk ds P j (ds.size + 1) k) = true
        · rw [if_pos hc] at h; cases h
          simp only [Bool.and_eq_true] at hc
          exact (hok.val k (hb k (hcov k hc.1)) _ hl).1
        · rw [if_neg hc] at h; cases h
    obtain ⟨f1, _⟩ := candFold_spec (specCand ds P j) hpos (List.range ds.size) none (by simp)
    have hfold : (List.range ds.size).foldl (candStep (specCand ds P j)) none = none := by
      rw [f1]
      refine ⟨rfl, fun k _ => ?_⟩
      simp only [specCand]
      cases hl : locFrac ds P k with
      | none => rfl
      | some q =>
        simp only []
        by_cases hc : (isValid ds k && feedsWalk ds P j (ds.size + 1) k) = true
        · simp only [Bool.and_eq_true] at hc
          exact absurd (Feeds.mem_c14 htopo (hcov k hc.1) (feedsWalk_sound ds P hok j _ k hc.2)) hj
        · rw [if_neg hc]
    rw [hfold]

/-- **model = oracle on the whole array** (cells of the network and cells outside it) -/
theorem rivslpFinal_eq_spec_all (ds : Array Nat) (seq : List Nat) (P : RdParams) (htopo : Topo ds seq)
    (hb : ∀ i ∈ seq, i < ds.size) (hcov : ∀ c, isValid ds c = true → c ∈ seq)
    (hS : 0 < P.S) (hK : 0 < P.K) (hD : 0 < P.minDen) (hmin : -9999 * P.minDen < P.minNum)
    (hex : riverExact ds P = true)
    (j : Nat) (hjn : j < ds.size) : FracSame (rivslpFinal ds seq P)[j]! (rivslpSpec ds P j) := by
  by_cases hj : j ∈ seq
  · exact rivslpFinal_eq_spec ds seq P htopo hb hcov hS hK hD hmin hex j hj
  · obtain ⟨h1, h2⟩ := rivslpFinal_eq_spec_outside ds seq P htopo hb hcov hS hK hmin hex j hjn hj
    rw [h1, h2]; exact ⟨rfl, hD, hD⟩

/-- the driver's table parameter sees the slope only as a fraction -/
theorem pwTable_frac (n : Nat) (cn cd tab : Array Int) (i : Nat) (s s' : Int × Int) (hs : 0 < s.2)
    (hs' : 0 < s'.2) (h : s.1 * s'.2 = s'.1 * s.2) : pwTable n cn cd tab i s = pwTable n cn cd tab i s' := by
  have key : ∀ (a b : Int) (t t' : Int × Int), 0 < t.2 → 0 < t'.2 → t.1 * t'.2 = t'.1 * t.2 →
      a * t.2 = t.1 * b → a * t'.2 = t'.1 * b := by
    intro a b t t' ht _ htt hab
    apply Int.eq_of_mul_eq_mul_right (Int.ne_of_gt ht)
    have x1 : a * t'.2 * t.2 = a * t.2 * t'.2 := by ac_rfl
    have x2 : t'.1 * b * t.2 = t'.1 * t.2 * b := by ac_rfl
    have x3 : t.1 * b * t'.2 = t.1 * t'.2 * b := by ac_rfl
    rw [x1, hab, x2, ← htt, x3]
  have hf : (fun (c : Nat) => cn[c]! * s.2 == s.1 * cd[c]!) = (fun (c : Nat) => cn[c]! * s'.2 == s'.1 * cd[c]!) := by
    funext c
    rw [Bool.eq_iff_iff, beq_iff_eq, beq_iff_eq]
    exact ⟨key _ _ s s' hs hs' h, key _ _ s' s hs' hs h.symm⟩
  simp only [pwTable, hf]

end Pf.C14x
