import PfVerif.Proofs.C20Alg
/-! C20: lemmas about the pieces of `region_dissolve` (seeding, minimum position, relabelling). Core Lean only. -/
namespace Pf
open SpGrid

theorem nodup_getElem_inj {l : List Int} (h : l.Nodup) {i j : Nat} (hi : i < l.length) (hj : j < l.length)
    (he : l[i] = l[j]) : i = j := by
  have hp := List.pairwise_iff_getElem.1 (List.nodup_iff_pairwise_ne.1 h)
  rcases Nat.lt_trichotomy i j with hlt | heq | hgt
  · exact absurd he (hp i j hi hj hlt)
  · exact heq
  · exact absurd he.symm (hp j i hj hi hgt)

/-! ### seeds -/

theorem dissolveSeeds_size (regions : Array Int) (labels : List Int) :
    (dissolveSeeds regions labels).size = regions.size := by
  simp [dissolveSeeds]

theorem dissolveSeeds_get (regions : Array Int) (labels : List Int) (c : Nat) (hc : c < regions.size) :
    (dissolveSeeds regions labels)[c]! = if regions[c]! ∈ labels then 0 else regions[c]! := by
  simp [dissolveSeeds, hc]

/-- a seed cell is a cell of a surviving (non-background, not dissolved) region and keeps its label -/
theorem dissolveSeeds_ne_zero (regions : Array Int) (labels : List Int) (c : Nat) (hc : c < regions.size)
    (h : (dissolveSeeds regions labels)[c]! ≠ 0) :
    regions[c]! ∉ labels ∧ regions[c]! ≠ 0 ∧ (dissolveSeeds regions labels)[c]! = regions[c]! := by
  rw [dissolveSeeds_get regions labels c hc] at h ⊢
  by_cases hm : regions[c]! ∈ labels
  · simp [hm] at h
  · rw [if_neg hm] at h ⊢
    exact ⟨hm, h, rfl⟩

/-! ### minimum position -/

theorem argmin_fold (dst : Array Rat) : ∀ (t : List Nat) (i : Nat),
    t.foldl (fun m j => if dst[j]! < dst[m]! then j else m) i ∈ i :: t ∧
    ∀ x ∈ i :: t, dst[t.foldl (fun m j => if dst[j]! < dst[m]! then j else m) i]! ≤ dst[x]! := by
  intro t
  induction t with
  | nil => intro i; simp
  | cons j t ih =>
    intro i
    simp only [List.foldl_cons]
    obtain ⟨h1, h2⟩ := ih (if dst[j]! < dst[i]! then j else i)
    constructor
    · rcases List.mem_cons.1 h1 with h | h
      · rw [h]; split <;> simp
      · simp [h]
    · have h0 := h2 _ (List.mem_cons_self)
      intro x hx
      rcases List.mem_cons.1 hx with rfl | hx
      · split at h0 <;> grind
      · rcases List.mem_cons.1 hx with rfl | hx
        · split at h0 <;> grind
        · exact h2 x (List.mem_cons_of_mem _ hx)

/-- `minPosition` returns a cell of the region at which `dst` is least over the region -/
theorem minPosition_spec (dst : Array Rat) (regions : Array Int) (lab : Int)
    (hne : ∃ c, c < regions.size ∧ regions[c]! = lab) :
    minPosition dst regions lab < regions.size ∧ regions[minPosition dst regions lab]! = lab ∧
    ∀ c, c < regions.size → regions[c]! = lab → dst[minPosition dst regions lab]! ≤ dst[c]! := by
  obtain ⟨c0, hc0, hl0⟩ := hne
  have hmem : ∀ c, c ∈ (List.range regions.size).filter (fun i => regions[i]! == lab) ↔
      c < regions.size ∧ regions[c]! = lab := by
    intro c; simp
  unfold minPosition
  cases hf : (List.range regions.size).filter (fun i => regions[i]! == lab) with
  | nil =>
    have := (hmem c0).2 ⟨hc0, hl0⟩
    rw [hf] at this; simp at this
  | cons i t =>
    simp only []
    obtain ⟨h1, h2⟩ := argmin_fold dst t i
    rw [← hf] at h1 h2
    obtain ⟨g1, g2⟩ := (hmem _).1 h1
    exact ⟨g1, g2, fun c hc hl => h2 c ((hmem c).2 ⟨hc, hl⟩)⟩

/-! ### relabelling -/

theorem relabel_size (regions : Array Int) (labels l1 : List Int) :
    (relabel regions labels l1).size = regions.size := by
  simp [relabel]

theorem relabel_get (regions : Array Int) (labels l1 : List Int) (c : Nat) (hc : c < regions.size) :
    (relabel regions labels l1)[c]! = relabelVal labels l1 regions[c]! := by
  simp [relabel, hc]

/-- only cells whose label is listed are relabelled -/
theorem relabel_keep (regions : Array Int) (labels l1 : List Int) (c : Nat) (hc : c < regions.size)
    (h : regions[c]! ∉ labels) : (relabel regions labels l1)[c]! = regions[c]! := by
  rw [relabel_get regions labels l1 c hc]
  unfold relabelVal
  have : (labels.zip l1).reverse.find? (fun p => p.1 == regions[c]!) = none := by
    rw [List.find?_eq_none]
    intro p hp hpe
    have hp' : p ∈ labels.zip l1 := by simpa using hp
    have : p.1 ∈ labels := (List.of_mem_zip (a := p.1) (b := p.2) hp').1
    have he : p.1 = regions[c]! := by simpa using hpe
    rw [he] at this
    exact h this
  rw [this]

/-- a cell carrying the `k`-th listed label gets the `k`-th new label (labels pairwise distinct) -/
theorem relabel_hit (regions : Array Int) (labels l1 : List Int) (hnd : labels.Nodup)
    (hlen : l1.length = labels.length) (c : Nat) (hc : c < regions.size) (k : Nat) (hk : k < labels.length)
    (h : regions[c]! = labels[k]) : (relabel regions labels l1)[c]! = l1[k]! := by
  rw [relabel_get regions labels l1 c hc]
  unfold relabelVal
  have hkz : k < (labels.zip l1).length := by simp [List.length_zip, hlen, hk]
  have hex : ∃ p, p ∈ (labels.zip l1).reverse ∧ (p.1 == regions[c]!) = true := by
    refine ⟨(labels.zip l1)[k], by simp only [List.mem_reverse]; exact List.getElem_mem hkz, ?_⟩
    rw [List.getElem_zip]; simp [h]
  cases hf : (labels.zip l1).reverse.find? (fun p => p.1 == regions[c]!) with
  | none =>
    rw [List.find?_eq_none] at hf
    obtain ⟨p, hp, hpe⟩ := hex
    exact absurd hpe (hf p hp)
  | some p =>
    simp only []
    have hp : p ∈ labels.zip l1 := by simpa using List.mem_of_find?_eq_some hf
    have hpe : p.1 = regions[c]! := by simpa using List.find?_some hf
    obtain ⟨j, hj, hjp⟩ := List.mem_iff_getElem.1 hp
    rw [List.getElem_zip] at hjp
    have hj1 : j < labels.length := by rw [List.length_zip] at hj; omega
    have hj2 : j < l1.length := by rw [List.length_zip] at hj; omega
    have : labels[j] = labels[k] := by
      have := congrArg Prod.fst hjp
      simp only [] at this
      rw [this, hpe, h]
    have hjk := nodup_getElem_inj hnd hj1 hk this
    subst hjk
    have := congrArg Prod.snd hjp
    simp only [] at this
    rw [← this]
    simp [hj2]

end Pf
