import PfVerif.Proofs.C10Stat
/-! Helper lemmas for C10: the denominator of the least-squares slope,
`n·Σx² − (Σx)² = Σ_{i<j} (x_i − x_j)²` (Lagrange's identity, the case `y = 1` of Cauchy-Schwarz), hence
non-negative, zero exactly when all distances are equal, and strictly positive on strictly monotone
distances of at least two cells. Core Lean only. -/
namespace Pf.C10
open Pf

/-- `Σ_{i<j} (x_i − x_j)²` over a list -/
def pairSqSum : List Int → Int
  | [] => 0
  | x :: t => (t.map fun y => (x - y) * (x - y)).sum + pairSqSum t

/-- the denominator of `arithmetics.lstsq` on a list of abscissae -/
def lstsqDen (xs : List Int) : Int :=
  (xs.length : Int) * (xs.map fun x => x * x).sum - xs.sum * xs.sum

theorem lstsqNumDen_snd (xs ys : List Int) : (lstsqNumDen xs ys).2 = lstsqDen xs := rfl

/-- `Σ_y (x − y)² = n·x² − 2·x·Σy + Σy²` -/
theorem sum_sq_diff (x : Int) (t : List Int) :
    (t.map fun y => (x - y) * (x - y)).sum =
      (t.length : Int) * (x * x) - 2 * x * t.sum + (t.map fun y => y * y).sum := by
  induction t with
  | nil => simp
  | cons a t ih =>
    simp only [List.map_cons, List.sum_cons, List.length_cons, ih]
    rw [Int.natCast_succ]
    grind

theorem lagrange_step (n x S Q : Int) :
    (n + 1) * (x * x + Q) - (x + S) * (x + S) = (n * (x * x) - 2 * x * S + Q) + (n * Q - S * S) := by
  grind

/-- **Lagrange's identity**: `n·Σx² − (Σx)² = Σ_{i<j} (x_i − x_j)²` -/
theorem lstsqDen_eq_pairSqSum (xs : List Int) : lstsqDen xs = pairSqSum xs := by
  induction xs with
  | nil => simp [lstsqDen, pairSqSum]
  | cons x t ih =>
    unfold lstsqDen at ih ⊢
    simp only [pairSqSum, List.map_cons, List.sum_cons, List.length_cons, sum_sq_diff, ← ih]
    rw [Int.natCast_succ]
    exact lagrange_step _ _ _ _

theorem sum_nonneg_of_forall {l : List Int} (h : ∀ a ∈ l, 0 ≤ a) : 0 ≤ l.sum := by
  induction l with
  | nil => simp
  | cons a t ih =>
    rw [List.sum_cons]
    have := h a (by simp)
    have := ih (fun b hb => h b (by simp [hb]))
    omega

theorem le_sum_of_mem_nonneg {l : List Int} (h : ∀ a ∈ l, 0 ≤ a) {b : Int} (hb : b ∈ l) : b ≤ l.sum := by
  induction l with
  | nil => simp at hb
  | cons a t ih =>
    rw [List.sum_cons]
    have ha := h a (by simp)
    have ht : ∀ c ∈ t, 0 ≤ c := fun c hc => h c (by simp [hc])
    rcases List.mem_cons.mp hb with rfl | hb
    · have := sum_nonneg_of_forall ht; omega
    · have := ih ht hb; omega

theorem sq_nonneg_c10 (a : Int) : 0 ≤ a * a := by
  rcases Int.le_total 0 a with h | h
  · exact Int.mul_nonneg h h
  · have : a * a = (-a) * (-a) := by rw [Int.neg_mul_neg]
    rw [this]; exact Int.mul_nonneg (by omega) (by omega)

theorem sq_pos_c10 {a : Int} (h : a ≠ 0) : 0 < a * a := by
  rcases Int.lt_or_gt_of_ne h with h | h
  · have : a * a = (-a) * (-a) := by rw [Int.neg_mul_neg]
    rw [this]; exact Int.mul_pos (by omega) (by omega)
  · exact Int.mul_pos h h

theorem sqdiffs_nonneg (x : Int) (t : List Int) : ∀ a ∈ t.map (fun y => (x - y) * (x - y)), 0 ≤ a := by
  intro a ha
  rw [List.mem_map] at ha
  obtain ⟨y, _, rfl⟩ := ha
  exact sq_nonneg_c10 _

theorem pairSqSum_nonneg : ∀ xs : List Int, 0 ≤ pairSqSum xs
  | [] => by simp [pairSqSum]
  | x :: t => by
    simp only [pairSqSum]
    have := sum_nonneg_of_forall (sqdiffs_nonneg x t)
    have := pairSqSum_nonneg t
    omega

/-- two different entries make the sum of squared differences positive -/
theorem pairSqSum_pos : ∀ xs : List Int, (∃ a ∈ xs, ∃ b ∈ xs, a ≠ b) → 0 < pairSqSum xs
  | [], h => by obtain ⟨a, ha, _⟩ := h; simp at ha
  | x :: t, h => by
    simp only [pairSqSum]
    have hnn := pairSqSum_nonneg t
    -- some entry of the tail differs from the head
    have hy : ∃ y ∈ t, y ≠ x := by
      obtain ⟨a, ha, b, hb, hab⟩ := h
      rcases List.mem_cons.mp ha with rfl | ha
      · rcases List.mem_cons.mp hb with rfl | hb
        · exact absurd rfl hab
        · exact ⟨b, hb, fun h => hab h.symm⟩
      · by_cases hax : a = x
        · subst hax
          rcases List.mem_cons.mp hb with rfl | hb
          · exact absurd rfl hab
          · exact ⟨b, hb, fun h => hab h.symm⟩
        · exact ⟨a, ha, hax⟩
    obtain ⟨y, hyt, hyx⟩ := hy
    have hmem : (x - y) * (x - y) ∈ t.map (fun y => (x - y) * (x - y)) := List.mem_map.mpr ⟨y, hyt, rfl⟩
    have hle := le_sum_of_mem_nonneg (sqdiffs_nonneg x t) hmem
    have hpos : 0 < (x - y) * (x - y) := sq_pos_c10 (by omega)
    omega

/-- all entries equal: every squared difference vanishes -/
theorem pairSqSum_zero : ∀ xs : List Int, (∀ a ∈ xs, ∀ b ∈ xs, a = b) → pairSqSum xs = 0
  | [], _ => by simp [pairSqSum]
  | x :: t, h => by
    simp only [pairSqSum]
    have ht := pairSqSum_zero t (fun a ha b hb => h a (by simp [ha]) b (by simp [hb]))
    have hz : (t.map fun y => (x - y) * (x - y)).sum = 0 := by
      have : ∀ y ∈ t, (x - y) * (x - y) = 0 := by
        intro y hy
        have : x = y := h x (by simp) y (by simp [hy])
        subst this; simp
      rw [List.map_congr_left this]
      simp [sum_map_const]
    omega

/-- a strictly monotone list (either direction) with at least two entries has two different entries -/
theorem exists_ne_of_pairwise {xs : List Int} (hlen : 2 ≤ xs.length)
    (hmono : xs.Pairwise (· < ·) ∨ xs.Pairwise (· > ·)) : ∃ a ∈ xs, ∃ b ∈ xs, a ≠ b := by
  match xs, hlen with
  | a :: b :: t, _ =>
    refine ⟨a, by simp, b, by simp, ?_⟩
    rcases hmono with h | h
    · have := (List.pairwise_cons.mp h).1 b (by simp); omega
    · have := (List.pairwise_cons.mp h).1 b (by simp); omega

end Pf.C10
