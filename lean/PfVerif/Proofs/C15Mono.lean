import PfVerif.Proofs.C15Last
/-! Lemmas for C15, part 5: the output of `_adjust_elevation` is non-increasing (`MonoOut adjust1d`).
Core Lean only.

Shape invariant at the start of iteration `i` once a first pit has been met (`pit = true`):
`e[0..imin]` is non-increasing (finished prefix, ends at `zmin`), `e[imin..imax]` is non-decreasing and
`e[imax..i-1]` is non-increasing (the open hump, peak `zmax` at `imax`). At a pit each of the three
candidate modifications (dig to `zmin`, fill to `zmax`, dig & fill to an intermediate level `z`) turns
`e[0..i-1]` into a non-increasing prefix that does not end above `e[i]`. -/
namespace Pf.C15
open Pf

def NI (e : Array Int) (a b : Nat) : Prop := ∀ k : Nat, a ≤ k → k + 1 ≤ b → e[k+1]! ≤ e[k]!
def ND (e : Array Int) (a b : Nat) : Prop := ∀ k : Nat, a ≤ k → k + 1 ≤ b → e[k]! ≤ e[k+1]!

theorem NI.le {e : Array Int} {a b : Nat} (h : NI e a b) :
    ∀ d j : Nat, a ≤ j → j + d ≤ b → e[j+d]! ≤ e[j]! := by
  intro d
  induction d with
  | zero => intro j _ _; exact Int.le_refl _
  | succ d ih =>
    intro j h1 h2
    exact Int.le_trans (h (j+d) (by omega) (by omega)) (ih j h1 (by omega))

theorem ND.le {e : Array Int} {a b : Nat} (h : ND e a b) :
    ∀ d j : Nat, a ≤ j → j + d ≤ b → e[j]! ≤ e[j+d]! := by
  intro d
  induction d with
  | zero => intro j _ _; exact Int.le_refl _
  | succ d ih =>
    intro j h1 h2
    exact Int.le_trans (ih j h1 (by omega)) (h (j+d) (by omega) (by omega))

theorem NI.le' {e : Array Int} {a b : Nat} (h : NI e a b) (j k : Nat) (h1 : a ≤ j) (h2 : j ≤ k) (h3 : k ≤ b) :
    e[k]! ≤ e[j]! := by
  have := h.le (k - j) j h1 (by omega)
  rwa [show j + (k - j) = k by omega] at this

theorem ND.le' {e : Array Int} {a b : Nat} (h : ND e a b) (j k : Nat) (h1 : a ≤ j) (h2 : j ≤ k) (h3 : k ≤ b) :
    e[j]! ≤ e[k]! := by
  have := h.le (k - j) j h1 (by omega)
  rwa [show j + (k - j) = k by omega] at this

/-! ### `firstLe`, `uniqDesc`, `applyCand` -/
theorem firstLe_spec (e : Array Int) (z : Int) : ∀ f lo,
    lo ≤ firstLe e z f lo ∧ firstLe e z f lo ≤ lo + f ∧
    (∀ k : Nat, lo ≤ k → k < firstLe e z f lo → z < e[k]!) ∧
    (firstLe e z f lo < lo + f → e[firstLe e z f lo]! ≤ z) := by
  intro f
  induction f with
  | zero => intro lo; simp only [firstLe]; exact ⟨Nat.le_refl _, by omega, fun k h1 h2 => by omega, fun h => by omega⟩
  | succ f ih =>
    intro lo
    simp only [firstLe]
    split
    · rename_i h
      exact ⟨Nat.le_refl _, by omega, fun k h1 h2 => by omega, fun _ => h⟩
    · rename_i h
      obtain ⟨h1, h2, h3, h4⟩ := ih (lo+1)
      refine ⟨by omega, by omega, fun k hk1 hk2 => ?_, fun hlt => h4 (by omega)⟩
      by_cases hk : k = lo
      · rw [hk]; omega
      · exact h3 k (by omega) hk2

theorem insDesc_sorted (x : Int) (r : List Int) (h : r.Pairwise (· > ·)) : (insDesc x r).Pairwise (· > ·) := by
  induction r with
  | nil => simp [insDesc]
  | cons y r ih =>
    have hy := List.pairwise_cons.1 h
    simp only [insDesc]
    split
    · rename_i hxy
      refine List.pairwise_cons.2 ⟨fun a ha => ?_, h⟩
      simp only [List.mem_cons] at ha
      rcases ha with ha | ha
      · rw [ha]; exact hxy
      · have := hy.1 a ha; omega
    · split
      · exact h
      · rename_i h1 h2
        refine List.pairwise_cons.2 ⟨fun a ha => ?_, ih hy.2⟩
        rcases insDesc_mem _ _ _ ha with ha | ha
        · rw [ha]; omega
        · exact hy.1 a ha

theorem uniqDesc_sorted (l : List Int) : (uniqDesc l).Pairwise (· > ·) := by
  induction l with
  | nil => simp [uniqDesc]
  | cons x l ih => simp only [uniqDesc, List.foldr_cons]; exact insDesc_sorted _ _ ih

theorem setFold_get (g : Int → Int) : ∀ (l : List Nat) (e : Array Int) (k : Nat), l.Nodup → k ∈ l → k < e.size →
    (l.foldl (fun e k => e.setIfInBounds k (g e[k]!)) e)[k]! = g e[k]! := by
  intro l
  induction l with
  | nil => intro e k _ hk; simp at hk
  | cons j l ih =>
    intro e k hnd hk hsz
    have hnd' := List.nodup_cons.1 hnd
    simp only [List.foldl_cons]
    by_cases hjk : k = j
    · subst hjk
      rw [setFold_not_mem g l _ k hnd'.1, get!_setIfInBounds]
      simp [hsz]
    · have hkl : k ∈ l := by simpa [hjk] using hk
      rw [ih _ k hnd'.2 hkl (by simpa using hsz), get!_setIfInBounds]
      have : ¬ j = k := fun h => hjk h.symm
      simp [this]

theorem applyCand_get (e : Array Int) (c : Cand) (k : Nat) (hk : k < e.size) :
    (applyCand e c)[k]! = if c.a ≤ k ∧ k < c.b then candVal c.mode c.z e[k]! else e[k]! := by
  unfold applyCand
  by_cases h : c.a ≤ k ∧ k < c.b
  · rw [if_pos h]
    exact setFold_get _ _ e k (by unfold rangeL; exact List.nodup_range') ((rangeL_mem _ _ _).2 h) hk
  · rw [if_neg h]
    exact setFold_not_mem _ _ e k (fun hm => h ((rangeL_mem _ _ _).1 hm))

/-! ### option 3: every proposed candidate comes with the facts about `j0`, `j1` -/
theorem opt3_good (Q : Cand → Prop) (e : Array Int) (imin imax i : Nat) :
    ∀ (zs : List Int) (i0 i1 : Nat) (best : Cand), Q best → i0 ≤ imin → imax ≤ i1 → i1 ≤ i →
      zs.Pairwise (· > ·) →
      (∀ z ∈ zs, (∀ k : Nat, k < i0 → z < e[k]!) ∧ (∀ k : Nat, imax ≤ k → k < i1 → z < e[k]!)) →
      (∀ z ∈ zs, ∀ j0 j1 : Nat, j0 ≤ imin → (∀ k : Nat, k < j0 → z < e[k]!) → imax ≤ j1 → j1 ≤ i →
        (∀ k : Nat, imax ≤ k → k < j1 → z < e[k]!) → (j1 < i → e[j1]! ≤ z) →
        Q (mkCand e j0 (max (imax+1) j1) 2 z)) →
      Q (opt3 e imin imax i zs i0 i1 best) := by
  intro zs
  induction zs with
  | nil => intro _ _ best hb _ _ _ _ _ _; exact hb
  | cons z zs ih =>
    intro i0 i1 best hb h0 h1 h1' hsorted hpre hQ
    simp only [opt3]
    obtain ⟨a1, a2, a3, _⟩ := firstLe_spec e z (imin - i0) i0
    obtain ⟨b1, b2, b3, b4⟩ := firstLe_spec e z (i - i1) i1
    have hs := List.pairwise_cons.1 hsorted
    have hz := hpre z (by simp)
    have hj0 : ∀ k : Nat, k < firstLe e z (imin - i0) i0 → z < e[k]! := fun k hk => by
      by_cases h : k < i0
      · exact hz.1 k h
      · exact a3 k (by omega) hk
    have hj1 : ∀ k : Nat, imax ≤ k → k < firstLe e z (i - i1) i1 → z < e[k]! := fun k hk1 hk2 => by
      by_cases h : k < i1
      · exact hz.2 k hk1 h
      · exact b3 k (by omega) hk2
    apply ih
    · rcases pick_cases best (mkCand e (firstLe e z (imin - i0) i0) (max (imax+1) (firstLe e z (i - i1) i1)) 2 z) with h | h
      · rw [h]; exact hb
      · rw [h]
        exact hQ z (by simp) _ _ (by omega) hj0 (by omega) (by omega) hj1 (fun h => b4 (by omega))
    · omega
    · omega
    · omega
    · exact hs.2
    · intro z' hz'
      have hlt := hs.1 z' hz'
      exact ⟨fun k hk => by have := hj0 k hk; omega, fun k hk1 hk2 => by have := hj1 k hk1 hk2; omega⟩
    · intro z' hz'; exact hQ z' (by simp [hz'])

/-! ### the three candidate modifications at a pit -/

/-- what is known about the array when a pit is met at index `i` (`M`, `zmax` are the values of
`imax`, `zmax` *before* the update with `e[i]`) -/
structure FixCtx (e : Array Int) (imin M i : Nat) (zmin zmax : Int) : Prop where
  hsz : i < e.size
  b1 : imin ≤ M
  b2 : M + 1 ≤ i
  pref : NI e 0 imin
  zminv : e[imin]! = zmin
  zmaxv : e[M]! = zmax
  up : ND e imin M
  down : NI e M (i-1)

theorem FixCtx.dom {e : Array Int} {imin M i : Nat} {zmin zmax : Int} (c : FixCtx e imin M i zmin zmax) :
    ∀ k : Nat, imin ≤ k → k + 1 ≤ i → e[k]! ≤ zmax := by
  intro k h1 h2
  rw [← c.zmaxv]
  by_cases h : k ≤ M
  · exact c.up.le' k M h1 h (Nat.le_refl _)
  · exact c.down.le' M k (Nat.le_refl _) (by omega) (by omega)

theorem FixCtx.low {e : Array Int} {imin M i : Nat} {zmin zmax : Int} (c : FixCtx e imin M i zmin zmax) :
    ∀ k : Nat, imin ≤ k → k ≤ M → zmin ≤ e[k]! := by
  intro k h1 h2
  rw [← c.zminv]
  exact c.up.le' imin k (Nat.le_refl _) h1 h2

/-- the result of a fix: `e'[0..i-1]` non-increasing, `e'[i]` not raised, and if `e` rises into `i`
then `e'` does not descend into `i` -/
def Good (e e' : Array Int) (i : Nat) : Prop :=
  NI e' 0 (i-1) ∧ e'[i]! ≤ e[i]! ∧ (e[i-1]! < e[i]! → e'[i-1]! ≤ e'[i]!)

/-- option 1: dig -/
theorem good_dig {e e' : Array Int} {imin M i : Nat} {zmin zmax : Int} (c : FixCtx e imin M i zmin zmax)
    (he' : ∀ k : Nat, k ≤ i → e'[k]! = if imin ≤ k ∧ k < i then min zmin e[k]! else e[k]!) : Good e e' i := by
  have hb1 := c.b1; have hb2 := c.b2
  refine ⟨fun k _ hk => ?_, ?_, fun hr => ?_⟩
  · rw [he' k (by omega), he' (k+1) (by omega)]
    by_cases h1 : k + 1 < imin
    · rw [if_neg (by omega), if_neg (by omega)]; exact c.pref k (by omega) (by omega)
    · by_cases h2 : k + 1 = imin
      · rw [if_pos (by omega), if_neg (by omega)]
        have := c.pref k (by omega) (by omega); omega
      · rw [if_pos (by omega), if_pos (by omega)]
        by_cases h3 : k + 1 ≤ M
        · have := c.low k (by omega) (by omega)
          have := c.low (k+1) (by omega) h3
          omega
        · have := c.down k (by omega) (by omega); omega
  · rw [he' i (Nat.le_refl _), if_neg (by omega)]; exact Int.le_refl _
  · rw [he' i (Nat.le_refl _), if_neg (by omega), he' (i-1) (by omega), if_pos (by omega)]; omega

/-- option 2: fill, when `e[i]` is the new maximum (`imax = i`) -/
theorem good_fill_a {e e' : Array Int} {imin M i : Nat} {zmin zmax : Int} (c : FixCtx e imin M i zmin zmax)
    (hge : e[i]! ≥ zmax)
    (he' : ∀ k : Nat, k ≤ i → e'[k]! = if 0 ≤ k ∧ k < i then max e[i]! e[k]! else e[k]!) : Good e e' i := by
  have hb1 := c.b1; have hb2 := c.b2
  refine ⟨fun k _ hk => ?_, ?_, fun hr => ?_⟩
  · rw [he' k (by omega), he' (k+1) (by omega), if_pos (by omega), if_pos (by omega)]
    by_cases h1 : k + 1 ≤ imin
    · have := c.pref k (by omega) h1; omega
    · have := c.dom (k+1) (by omega) (by omega); omega
  · rw [he' i (Nat.le_refl _), if_neg (by omega)]; exact Int.le_refl _
  · rw [he' i (Nat.le_refl _), if_neg (by omega), he' (i-1) (by omega), if_pos (by omega)]
    have := c.dom (i-1) (by omega) (by omega); omega

/-- option 2: fill, when the maximum stays at `M` -/
theorem good_fill_b {e e' : Array Int} {imin M i : Nat} {zmin zmax : Int} (c : FixCtx e imin M i zmin zmax)
    (he' : ∀ k : Nat, k ≤ i → e'[k]! = if 0 ≤ k ∧ k < M then max zmax e[k]! else e[k]!) : Good e e' i := by
  have hb1 := c.b1; have hb2 := c.b2
  refine ⟨fun k _ hk => ?_, ?_, fun hr => ?_⟩
  · rw [he' k (by omega), he' (k+1) (by omega)]
    by_cases h1 : k + 1 < M
    · rw [if_pos (by omega), if_pos (by omega)]
      by_cases h2 : k + 1 ≤ imin
      · have := c.pref k (by omega) h2; omega
      · have := c.dom (k+1) (by omega) (by omega); omega
    · by_cases h2 : k + 1 = M
      · rw [if_neg (by omega), if_pos (by omega), h2, c.zmaxv]; omega
      · rw [if_neg (by omega), if_neg (by omega)]; exact c.down k (by omega) (by omega)
  · rw [he' i (Nat.le_refl _), if_neg (by omega)]; exact Int.le_refl _
  · rw [he' i (Nat.le_refl _), if_neg (by omega), he' (i-1) (by omega), if_neg (by omega)]; omega

/-- option 3: dig & fill to level `z`, when `e[i]` is the new maximum (the range then includes `i`) -/
theorem good_level_a {e e' : Array Int} {imin M i : Nat} {zmin zmax : Int} (c : FixCtx e imin M i zmin zmax)
    (z : Int) (j0 : Nat) (hz : z < e[i]!) (hj0 : j0 ≤ imin) (hpre : ∀ k : Nat, k < j0 → z < e[k]!)
    (he' : ∀ k : Nat, k ≤ i → e'[k]! = if j0 ≤ k ∧ k < i + 1 then z else e[k]!) : Good e e' i := by
  have hb1 := c.b1; have hb2 := c.b2
  refine ⟨fun k _ hk => ?_, ?_, fun hr => ?_⟩
  · rw [he' k (by omega), he' (k+1) (by omega)]
    by_cases h1 : k + 1 < j0
    · rw [if_neg (by omega), if_neg (by omega)]; exact c.pref k (by omega) (by omega)
    · by_cases h2 : k + 1 = j0
      · rw [if_pos (by omega), if_neg (by omega)]; have := hpre k (by omega); omega
      · rw [if_pos (by omega), if_pos (by omega)]; exact Int.le_refl _
  · rw [he' i (Nat.le_refl _), if_pos (by omega)]; omega
  · rw [he' i (Nat.le_refl _), if_pos (by omega), he' (i-1) (by omega), if_pos (by omega)]; exact Int.le_refl _

/-- option 3: dig & fill to level `z < zmax`, when the maximum stays at `M` -/
theorem good_level_b {e e' : Array Int} {imin M i : Nat} {zmin zmax : Int} (c : FixCtx e imin M i zmin zmax)
    (z : Int) (j0 j1 : Nat) (hz : z < zmax) (hj0 : j0 ≤ imin) (hpre : ∀ k : Nat, k < j0 → z < e[k]!)
    (h1 : M ≤ j1) (h1' : j1 ≤ i) (hmid : ∀ k : Nat, M ≤ k → k < j1 → z < e[k]!) (hfound : j1 < i → e[j1]! ≤ z)
    (he' : ∀ k : Nat, k ≤ i → e'[k]! = if j0 ≤ k ∧ k < max (M+1) j1 then z else e[k]!) : Good e e' i := by
  have hb1 := c.b1; have hb2 := c.b2
  have hj1 : M + 1 ≤ j1 := by
    apply Classical.byContradiction; intro hn
    have : j1 = M := by omega
    have := hfound (by omega)
    rw [‹j1 = M›, c.zmaxv] at this; omega
  have hmax : max (M+1) j1 = j1 := by omega
  rw [hmax] at he'
  refine ⟨fun k _ hk => ?_, ?_, fun hr => ?_⟩
  · rw [he' k (by omega), he' (k+1) (by omega)]
    by_cases h2 : k + 1 < j0
    · rw [if_neg (by omega), if_neg (by omega)]; exact c.pref k (by omega) (by omega)
    · by_cases h3 : k + 1 = j0
      · rw [if_pos (by omega), if_neg (by omega)]; have := hpre k (by omega); omega
      · by_cases h4 : k + 1 < j1
        · rw [if_pos (by omega), if_pos (by omega)]; exact Int.le_refl _
        · by_cases h5 : k + 1 = j1
          · rw [if_neg (by omega), if_pos (by omega), h5]; exact hfound (by omega)
          · rw [if_neg (by omega), if_neg (by omega)]; exact c.down k (by omega) (by omega)
  · rw [he' i (Nat.le_refl _), if_neg (by omega)]; exact Int.le_refl _
  · rw [he' i (Nat.le_refl _), if_neg (by omega), he' (i-1) (by omega)]
    by_cases h2 : i - 1 < j1
    · rw [if_pos (by omega)]
      have := hmid (i-1) (by omega) h2; omega
    · rw [if_neg (by omega)]; omega

/-- values proposed by option 3 lie strictly below the maximum of the open hump -/
theorem zs_tail_lt {e : Array Int} {imin M i : Nat} {zmin zmax : Int} (c : FixCtx e imin M i zmin zmax) :
    ∀ z ∈ (uniqDesc ((rangeL (imin+1) i).map (e[·]!))).tail, z < zmax := by
  intro z hz
  have hs := uniqDesc_sorted ((rangeL (imin+1) i).map (e[·]!))
  cases hzs : uniqDesc ((rangeL (imin+1) i).map (e[·]!)) with
  | nil => rw [hzs] at hz; simp at hz
  | cons h t =>
    rw [hzs] at hz hs
    simp only [List.tail_cons] at hz
    have h1 := (List.pairwise_cons.1 hs).1 z hz
    have h2 : h ∈ uniqDesc ((rangeL (imin+1) i).map (e[·]!)) := by rw [hzs]; simp
    obtain ⟨k, hk, rfl⟩ := List.mem_map.1 (uniqDesc_mem _ _ h2)
    rw [rangeL_mem] at hk
    have := c.dom k (by omega) (by omega)
    omega

theorem tail_sorted (l : List Int) (h : l.Pairwise (· > ·)) : l.tail.Pairwise (· > ·) := by
  cases l with
  | nil => simp
  | cons a t => exact (List.pairwise_cons.1 h).2

/-- **the fix at a pit** makes the processed prefix non-increasing -/
theorem a1Fix_good {e : Array Int} {imin M i : Nat} {zmin zmax : Int} (c : FixCtx e imin M i zmin zmax) :
    Good e (a1Fix e imin (if e[i]! ≥ zmax then i else M) i zmin (if e[i]! ≥ zmax then e[i]! else zmax)) i := by
  have hsz := c.hsz
  have hb1 := c.b1; have hb2 := c.b2
  have hlt := zs_tail_lt c
  have hsorted := tail_sorted _ (uniqDesc_sorted ((rangeL (imin+1) i).map (e[·]!)))
  by_cases hge : e[i]! ≥ zmax
  · rw [if_pos hge, if_pos hge]
    unfold a1Fix
    simp only
    apply opt3_good (fun cd => Good e (applyCand e cd) i) e imin i i _ 0 i _ ?_ (by omega) (Nat.le_refl _)
      (Nat.le_refl _) hsorted (fun z _ => ⟨fun k hk => by omega, fun k h1 h2 => by omega⟩)
    · intro z hz j0 j1 hj0 hpre h1 h1' _ _
      have hj1 : j1 = i := by omega
      have hmx : max (i+1) j1 = i + 1 := by omega
      rw [hmx]
      exact good_level_a c z j0 (by have := hlt z hz; omega) hj0 hpre
        (fun k hk => by rw [applyCand_get _ _ k (by omega)]; rfl)
    · rcases pick_cases (mkCand e imin i 0 zmin) (mkCand e 0 i 1 e[i]!) with h | h <;> rw [h]
      · exact good_dig c (fun k hk => by rw [applyCand_get _ _ k (by omega)]; rfl)
      · exact good_fill_a c hge (fun k hk => by rw [applyCand_get _ _ k (by omega)]; rfl)
  · rw [if_neg hge, if_neg hge]
    unfold a1Fix
    simp only
    apply opt3_good (fun cd => Good e (applyCand e cd) i) e imin M i _ 0 M _ ?_ (by omega) (Nat.le_refl _)
      (by omega) hsorted (fun z _ => ⟨fun k hk => by omega, fun k h1 h2 => by omega⟩)
    · intro z hz j0 j1 hj0 hpre h1 h1' hmid hfound
      exact good_level_b c z j0 j1 (hlt z hz) hj0 hpre h1 h1' hmid hfound
        (fun k hk => by rw [applyCand_get _ _ k (by omega)]; rfl)
    · rcases pick_cases (mkCand e imin i 0 zmin) (mkCand e 0 M 1 zmax) with h | h <;> rw [h]
      · exact good_dig c (fun k hk => by rw [applyCand_get _ _ k (by omega)]; rfl)
      · exact good_fill_b c (fun k hk => by rw [applyCand_get _ _ k (by omega)]; rfl)

/-! ### the scan invariant -/

theorem z2upd (a b : Int) : (if a ≠ b then b else a) = b := by
  split
  · rfl
  · rename_i h; simpa using h

/-- the state after an iteration that meets a pit (or the end of the vector after a pit) -/
theorem a1Step_event (n : Nat) (s : A1) (i : Nat)
    (hc : (s.e[i]! > s.z1 ∧ s.z2 ≥ s.z1) ∨ (s.pit = true ∧ i + 1 = n)) (e' : Array Int)
    (he' : e' = if s.pit then a1Fix s.e s.imin (if s.e[i]! ≥ s.zmax then i else s.imax) i s.zmin
      (if s.e[i]! ≥ s.zmax then s.e[i]! else s.zmax) else s.e) :
    a1Step n s i = { e := e', pit := true, imax := i, imin := i - 1, zmax := e'[i]!, zmin := e'[i - 1]!, z1 := s.e[i]!, z2 := s.z1 } := by
  unfold a1Step
  simp only
  rw [if_pos hc, z2upd, he']

theorem a1Step_noevent (n : Nat) (s : A1) (i : Nat)
    (hc : ¬ ((s.e[i]! > s.z1 ∧ s.z2 ≥ s.z1) ∨ (s.pit = true ∧ i + 1 = n))) :
    a1Step n s i = { e := s.e, pit := s.pit, imax := if s.e[i]! ≥ s.zmax then i else s.imax, imin := s.imin, zmax := if s.e[i]! ≥ s.zmax then s.e[i]! else s.zmax, zmin := s.zmin, z1 := s.e[i]!, z2 := s.z1 } := by
  unfold a1Step
  simp only
  rw [if_neg hc, z2upd]

/-- invariant at the start of iteration `i` -/
structure MInv (n i : Nat) (s : A1) : Prop where
  sz : s.e.size = n
  init : i = 0 → s.pit = false ∧ s.z2 = s.z1 ∧ s.z1 ≤ s.e[0]!
  z1_ge : 1 ≤ i → i < n → s.e[i-1]! ≤ s.z1
  z1_eq : 1 ≤ i → i < n → s.z2 ≥ s.z1 → s.e[i-1]! = s.z1
  np_z : s.pit = false → s.z2 ≥ s.z1
  np_ni : s.pit = false → NI s.e 0 (i-1)
  pit_pos : s.pit = true → 1 ≤ i
  pref : s.pit = true → NI s.e 0 s.imin
  live : s.pit = true → i < n → FixCtx s.e s.imin s.imax i s.zmin s.zmax
  rising : s.pit = true → i < n → s.z2 < s.z1 → s.imax + 1 = i
  fin : s.pit = true → i = n → s.imin = n - 2

theorem a1Step_mono (n : Nat) (s : A1) (i : Nat) (hi : i < n) (h : MInv n i s) : MInv n (i+1) (a1Step n s i) := by
  have hsz' : (a1Step n s i).e.size = n := by rw [a1Step_size]; exact h.sz
  by_cases hc : (s.e[i]! > s.z1 ∧ s.z2 ≥ s.z1) ∨ (s.pit = true ∧ i + 1 = n)
  · -- a pit, or the end of the vector after a pit
    obtain ⟨e', he'⟩ : ∃ a, a = if s.pit then a1Fix s.e s.imin (if s.e[i]! ≥ s.zmax then i else s.imax) i s.zmin
      (if s.e[i]! ≥ s.zmax then s.e[i]! else s.zmax) else s.e := ⟨_, rfl⟩
    have hstep := a1Step_event n s i hc e' he'
    rw [hstep] at hsz' ⊢
    -- facts about e'
    have hgood : NI e' 0 (i-1) ∧ e'[i]! ≤ s.e[i]! ∧ (i + 1 < n → 1 ≤ i → e'[i-1]! ≤ e'[i]!) := by
      by_cases hp : s.pit = true
      · rw [hp] at he'
        simp only [if_true] at he'
        have hg := a1Fix_good (h.live hp hi)
        rw [← he'] at hg
        refine ⟨hg.1, hg.2.1, fun hlt h1 => hg.2.2 ?_⟩
        rcases hc with hc | hc
        · have := h.z1_ge h1 hi; omega
        · omega
      · have hp' : s.pit = false := by simpa using hp
        rw [hp'] at he'
        simp only [Bool.false_eq_true, if_false] at he'
        rw [he']
        refine ⟨h.np_ni hp', Int.le_refl _, fun hlt h1 => ?_⟩
        rcases hc with hc | hc
        · have := h.z1_ge h1 hi; omega
        · exact absurd hc.1 hp
    obtain ⟨g1, g2, g3⟩ := hgood
    have hcond1 : i + 1 < n → s.e[i]! > s.z1 := by
      intro hlt
      rcases hc with hc | hc
      · exact hc.1
      · omega
    refine ⟨?_, ?_, ?_, ?_, ?_, ?_, ?_, ?_, ?_, ?_, ?_⟩ <;> (try dsimp only) <;>
      (try simp only [Nat.add_sub_cancel])
    · exact hsz'
    · intro h0; omega
    · intro _ _; exact g2
    · intro _ hlt hz; have := hcond1 hlt; omega
    · intro hp; simp at hp
    · intro hp; simp at hp
    · intro _; omega
    · intro _; exact g1
    · intro _ hlt
      refine ⟨by dsimp only at hsz'; omega, by omega, Nat.le_refl _, ?_, rfl, rfl, ?_, ?_⟩
      · exact g1
      · intro k hk1 hk2
        have hk : k = i - 1 := by omega
        have h1 : 1 ≤ i := by omega
        rw [hk, show i - 1 + 1 = i by omega]
        exact g3 hlt h1
      · intro k hk1 hk2; omega
    · intro _ _ _; trivial
    · intro _ hn; omega
  · -- no pit at i
    have hstep := a1Step_noevent n s i hc
    rw [hstep] at hsz' ⊢
    have hnc1 : ¬ (s.e[i]! > s.z1 ∧ s.z2 ≥ s.z1) := fun hh => hc (Or.inl hh)
    have hlt_of_pit : s.pit = true → i + 1 < n := by
      intro hp
      apply Classical.byContradiction; intro hn
      exact hc (Or.inr ⟨hp, by omega⟩)
    refine ⟨?_, ?_, ?_, ?_, ?_, ?_, ?_, ?_, ?_, ?_, ?_⟩ <;> (try dsimp only) <;>
      (try simp only [Nat.add_sub_cancel])
    · exact h.sz
    · intro h0; omega
    · intro _ _; exact Int.le_refl _
    · intro _ _ _; trivial
    · intro hp
      have := h.np_z hp
      omega
    · intro hp
      have hz := h.np_z hp
      intro k _ hk
      by_cases hk' : k + 1 ≤ i - 1
      · exact h.np_ni hp k (by omega) hk'
      · have hki : k + 1 = i := by omega
        have h1 : 1 ≤ i := by omega
        have := h.z1_eq h1 hi hz
        rw [hki, show k = i - 1 by omega, this]
        omega
    · intro _; omega
    · intro hp; exact h.pref hp
    · intro hp hlt
      have c := h.live hp hi
      have h1 := h.pit_pos hp
      have hb1 := c.b1; have hb2 := c.b2
      have hz1 := h.z1_ge h1 hi
      by_cases hge : s.e[i]! ≥ s.zmax
      · simp only [if_pos hge]
        refine ⟨by rw [h.sz]; exact hlt, by omega, Nat.le_refl _, c.pref, c.zminv, rfl, ?_, fun k hk1 hk2 => by omega⟩
        intro k hk1 hk2
        by_cases hkM : k + 1 ≤ s.imax
        · exact c.up k hk1 hkM
        · by_cases hki : k + 1 = i
          · rw [hki]; have := c.dom k hk1 (by omega); omega
          · -- then the maximum is not at i-1: falling phase, everything from imax on equals zmax
            have hfall : s.z2 ≥ s.z1 := by
              apply Classical.byContradiction; intro hn
              have := h.rising hp hi (by omega); omega
            have he1 := h.z1_eq h1 hi hfall
            have hd1 := c.dom k hk1 (by omega)
            have hd2 := c.down.le' (k+1) (i-1) (by omega) (by omega) (Nat.le_refl _)
            omega
      · simp only [if_neg hge]
        refine ⟨by rw [h.sz]; exact hlt, hb1, by omega, c.pref, c.zminv, c.zmaxv, c.up, ?_⟩
        intro k hk1 hk2
        by_cases hk' : k + 1 ≤ i - 1
        · exact c.down k hk1 hk'
        · have hki : k + 1 = i := by omega
          rw [hki, show k = i - 1 by omega]
          by_cases hfall : s.z2 ≥ s.z1
          · have := h.z1_eq h1 hi hfall; omega
          · have hM := h.rising hp hi (by omega)
            have := c.zmaxv
            rw [show s.imax = i - 1 by omega] at this
            omega
    · intro hp hlt hr
      have c := h.live hp hi
      have h1 := h.pit_pos hp
      have hz1 := h.z1_ge h1 hi
      have hrise : s.z2 < s.z1 := by
        apply Classical.byContradiction; intro hn
        exact hnc1 ⟨by omega, by omega⟩
      have hM := h.rising hp hi hrise
      have := c.zmaxv
      rw [show s.imax = i - 1 by omega] at this
      rw [if_pos (by omega)]
    · intro hp hn; have := hlt_of_pit hp; omega

theorem toList_get! (a : Array Int) (k : Nat) (hk : k < a.size) : a.toList[k]! = a[k]! := by
  rw [getElem!_pos a k hk, getElem!_pos a.toList k (by simpa using hk)]
  simp

/-- **`_adjust_elevation` returns a non-increasing profile, for every input profile** -/
theorem adjust1d_mono : MonoOut adjust1d := by
  intro v j hj
  obtain ⟨n, hnd⟩ : ∃ n, n = v.length := ⟨_, rfl⟩
  obtain ⟨e0, he0⟩ : ∃ a, a = v.toArray := ⟨_, rfl⟩
  have hsz : e0.size = n := by rw [he0, hnd]; simp
  have hn : j + 1 < n := by omega
  -- the two invariants are carried together
  have hinitL : LInv n e0[n - 1]! 0 (a1Init e0) := by
    refine ⟨by simp [a1Init, hsz], fun k hk => ?_, ?_, by simp [a1Init], fun h => by simp [a1Init] at h,
      fun h => by simp [a1Init] at h, fun h => by simp [a1Init] at h⟩
    · simp only [a1Init]; rw [arr_map_get! _ _ _ (by omega), hsz]; omega
    · simp only [a1Init]; rw [arr_map_get! _ _ _ (by omega), hsz]; omega
  have hinitM : MInv n 0 (a1Init e0) := by
    refine ⟨by simp [a1Init, hsz], fun _ => ⟨rfl, rfl, ?_⟩, fun h => by omega, fun h => by omega,
      fun _ => Int.le_refl _, fun _ k _ hk => by omega, fun h => by simp [a1Init] at h,
      fun h => by simp [a1Init] at h, fun h => by simp [a1Init] at h, fun h => by simp [a1Init] at h,
      fun h => by simp [a1Init] at h⟩
    simp only [a1Init]; rw [arr_map_get! _ _ _ (by omega)]; omega
  have hfin := range_fold_inv (a1Step n) (fun i s => LInv n e0[n - 1]! i s ∧ MInv n i s) (a1Init e0) n
    ⟨hinitL, hinitM⟩ (fun i s hi h => ⟨a1Step_last n _ s i hi h.1, a1Step_mono n s i hi h.2⟩)
  unfold adjust1d
  rw [← hnd, ← he0]
  obtain ⟨fs, hfs⟩ : ∃ s, s = (List.range n).foldl (a1Step n) (a1Init e0) := ⟨_, rfl⟩
  rw [← hfs] at hfin ⊢
  obtain ⟨hL, hM⟩ := hfin
  rw [toList_get! _ _ (by rw [hM.sz]; omega), toList_get! _ _ (by rw [hM.sz]; omega)]
  by_cases hp : fs.pit = true
  · have himin := hM.fin hp rfl
    by_cases hj2 : j + 1 ≤ n - 2
    · exact hM.pref hp j (Nat.zero_le _) (by omega)
    · have : j + 1 = n - 1 := by omega
      rw [this, hL.lastv]
      exact hL.lb j (by omega)
  · exact hM.np_ni (by simpa using hp) j (Nat.zero_le _) (by omega)

end Pf.C15
