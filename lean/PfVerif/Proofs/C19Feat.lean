import PfVerif.Model.C19
/-! `gis_utils.features` and `core.flwdir_tuples` in closed form (C19). Core Lean only. -/
namespace Pf.C19
open Pf

/-- the feature built from one flow path -/
def mkFeat (coord : Nat → Int × Int) (maps : List (Array Int)) (idxs : List Nat) : Feat :=
  ⟨idxs, idxs.map coord, idxs.head!, idxs.getLast!, idxs.getLast! == (idxs.dropLast).getLast!,
    maps.map (·[idxs.head!]!)⟩

theorem featuresModel_eq (paths : List (List Nat)) (coord : Nat → Int × Int) (maps : List (Array Int)) :
    featuresModel paths coord maps = (paths.filter (fun p => decide (2 ≤ p.length))).map (mkFeat coord maps) := by
  unfold featuresModel
  suffices h : ∀ (acc : List Feat),
      paths.foldl (fun feats idxs =>
        if idxs.length < 2 then feats
        else feats ++ [⟨idxs, idxs.map coord, idxs.head!, idxs.getLast!,
          idxs.getLast! == (idxs.dropLast).getLast!, maps.map (·[idxs.head!]!)⟩]) acc =
      acc ++ (paths.filter (fun p => decide (2 ≤ p.length))).map (mkFeat coord maps) by
    simpa using h []
  induction paths with
  | nil => intro acc; simp
  | cons p ps ih =>
    intro acc
    rw [List.foldl_cons, ih]
    by_cases h : p.length < 2
    · have h' : ¬ (2 ≤ p.length) := by omega
      simp [h, h']
    · have h' : 2 ≤ p.length := by omega
      simp [h, h', mkFeat]

theorem flwdirTuples_mem (nxt : Array Nat) (mask : Option (Array Bool)) (p : Nat × Nat) :
    p ∈ flwdirTuples nxt mask ↔
      p.1 < nxt.size ∧ nxt[p.1]! ≠ nxt.size ∧ maskAt mask p.1 = true ∧ p.2 = nxt[p.1]! := by
  unfold flwdirTuples
  simp only [List.mem_map, List.mem_filter, List.mem_range, Bool.and_eq_true, bne_iff_ne, ne_eq]
  constructor
  · rintro ⟨i, ⟨hi, hv, hm⟩, rfl⟩
    exact ⟨hi, hv, hm, rfl⟩
  · rintro ⟨hi, hv, hm, h2⟩
    refine ⟨p.1, ⟨hi, hv, hm⟩, ?_⟩
    cases p with
    | mk a b => simp only at h2; rw [h2]

theorem flwdirTuples_fst (nxt : Array Nat) (mask : Option (Array Bool)) :
    (flwdirTuples nxt mask).map (·.1) =
      (List.range nxt.size).filter fun i => nxt[i]! != nxt.size && maskAt mask i := by
  unfold flwdirTuples
  rw [List.map_map]
  have : ((fun (x : Nat × Nat) => x.1) ∘ fun i => (i, nxt[i]!)) = id := by funext i; rfl
  rw [this, List.map_id]

theorem nodup_range (n : Nat) : (List.range n).Nodup := by
  induction n with
  | zero => simp
  | succ n ih =>
    rw [List.range_succ, List.nodup_append]
    refine ⟨ih, by simp, ?_⟩
    intro a ha b hb
    simp only [List.mem_singleton] at hb
    have := List.mem_range.mp ha
    omega

theorem flwdirTuples_nodup (nxt : Array Nat) (mask : Option (Array Bool)) :
    ((flwdirTuples nxt mask).map (·.1)).Nodup := by
  rw [flwdirTuples_fst]
  exact List.Nodup.sublist List.filter_sublist (nodup_range _)

end Pf.C19
