import PfVerif.Proofs.C15Fix1d
/-! Lemmas for C15, part 4: `_adjust_elevation` keeps the last (most downstream) value. Core Lean only. -/
namespace Pf.C15
open Pf

theorem firstLe_le (e : Array Int) (z : Int) : ∀ f lo, firstLe e z f lo ≤ lo + f := by
  intro f
  induction f with
  | zero => intro lo; simp [firstLe]
  | succ f ih =>
    intro lo
    simp only [firstLe]
    split
    · omega
    · have := ih (lo+1); omega

/-- refined case analysis of option 3: the end of the modified range is `max (imax+1) j1` with `j1 ≤ i` -/
theorem opt3_cases' (e : Array Int) (imin imax i : Nat) (zs : List Int) :
    ∀ (i0 i1 : Nat) (best : Cand), i1 ≤ i → opt3 e imin imax i zs i0 i1 best = best ∨
      ∃ z ∈ zs, ∃ a j1, j1 ≤ i ∧ opt3 e imin imax i zs i0 i1 best = mkCand e a (max (imax+1) j1) 2 z := by
  induction zs with
  | nil => intro _ _ best _; exact Or.inl rfl
  | cons z zs ih =>
    intro i0 i1 best h1
    simp only [opt3]
    have hj : firstLe e z (i - i1) i1 ≤ i := by have := firstLe_le e z (i - i1) i1; omega
    rcases ih (firstLe e z (imin - i0) i0) (firstLe e z (i - i1) i1)
      (pick best (mkCand e (firstLe e z (imin - i0) i0) (max (imax+1) (firstLe e z (i - i1) i1)) 2 z)) hj with h | ⟨z', hz', a, j1, hj1, h⟩
    · rw [h]
      rcases pick_cases best (mkCand e (firstLe e z (imin - i0) i0) (max (imax+1) (firstLe e z (i - i1) i1)) 2 z) with h2 | h2
      · exact Or.inl h2
      · exact Or.inr ⟨z, by simp, _, _, hj, h2⟩
    · exact Or.inr ⟨z', by simp [hz'], a, j1, hj1, h⟩

theorem uniqDesc_const (c : Int) (l : List Int) (h : ∀ x ∈ l, x = c) : uniqDesc l = [] ∨ uniqDesc l = [c] := by
  induction l with
  | nil => exact Or.inl rfl
  | cons x l ih =>
    have hx : x = c := h x (by simp)
    simp only [uniqDesc, List.foldr_cons]
    rcases ih (fun y hy => h y (by simp [hy])) with h1 | h1
    · right; unfold uniqDesc at h1; rw [h1, hx]; rfl
    · right; unfold uniqDesc at h1; rw [h1, hx]; simp [insDesc]

/-- loop invariant at the start of iteration `i` -/
structure LInv (n : Nat) (last : Int) (i : Nat) (s : A1) : Prop where
  sz : s.e.size = n
  lb : ∀ k : Nat, k < n → last ≤ s.e[k]!
  lastv : s.e[n - 1]! = last
  imax_lt : s.imax ≤ i - 1
  dom : s.pit = true → ∀ k : Nat, s.imin < k → k < i → s.e[k]! ≤ s.zmax
  zmin_lb : s.pit = true → last ≤ s.zmin
  pit_pos : s.pit = true → 1 ≤ i

theorem candVal_lb (mode : Nat) (z last : Int) (h : mode = 0 → last ≤ z) (h2 : mode ≠ 0 → mode ≠ 1 → last ≤ z)
    (v : Int) (hv : last ≤ v) : last ≤ candVal mode z v := by
  unfold candVal
  split
  · rename_i h0; have := h h0; omega
  · split
    · omega
    · rename_i h0 h1; exact h2 h0 h1

theorem a1Fix_last (n : Nat) (last : Int) (e : Array Int) (imin imax i : Nat) (zmin zmax : Int)
    (hsz : e.size = n) (hi : i < n) (hi1 : 1 ≤ i) (hlb : ∀ k : Nat, k < n → last ≤ e[k]!)
    (hlast : e[n - 1]! = last) (hzmin : last ≤ zmin) (himax : imax ≤ i)
    -- if this is the last iteration and `imax = i` then everything since the previous pit is flat
    (hflat : i + 1 = n → imax = i → ∀ k : Nat, imin < k → k < i → e[k]! = last) :
    (a1Fix e imin imax i zmin zmax).size = n ∧
    (∀ k : Nat, k < n → last ≤ (a1Fix e imin imax i zmin zmax)[k]!) ∧
    (a1Fix e imin imax i zmin zmax)[n - 1]! = last := by
  unfold a1Fix
  simp only
  obtain ⟨zs, hzs⟩ : ∃ l, l = uniqDesc ((rangeL (imin+1) i).map (e[·]!)) := ⟨_, rfl⟩
  rw [← hzs]
  obtain ⟨best, hbest⟩ : ∃ b, b = opt3 e imin imax i zs.tail 0 imax
      (pick (mkCand e imin i 0 zmin) (mkCand e 0 imax 1 zmax)) := ⟨_, rfl⟩
  rw [← hbest]
  have hzs_lb : ∀ z ∈ zs.tail, last ≤ z := by
    intro z hz
    have hz2 := uniqDesc_mem _ _ (hzs ▸ List.mem_of_mem_tail hz)
    obtain ⟨k, hk, rfl⟩ := List.mem_map.1 hz2
    rw [rangeL_mem] at hk
    exact hlb k (by omega)
  -- shape of the chosen candidate
  have hshape : (best.mode = 0 → last ≤ best.z) ∧ (best.mode ≠ 0 → best.mode ≠ 1 → last ≤ best.z) ∧
      best.b ≤ n - 1 := by
    rcases opt3_cases' e imin imax i zs.tail 0 imax
      (pick (mkCand e imin i 0 zmin) (mkCand e 0 imax 1 zmax)) himax with h | ⟨z, hz, a, j1, hj1, h⟩
    · rw [hbest, h]
      rcases pick_cases (mkCand e imin i 0 zmin) (mkCand e 0 imax 1 zmax) with h' | h' <;> rw [h'] <;>
        simp only [mkCand]
      · exact ⟨fun _ => hzmin, fun h0 => absurd rfl h0, by omega⟩
      · exact ⟨fun h0 => absurd h0 (by decide), fun _ h1 => absurd rfl h1, by omega⟩
    · rw [hbest, h]
      simp only [mkCand]
      refine ⟨fun h0 => absurd h0 (by decide), fun _ _ => hzs_lb z hz, ?_⟩
      by_cases hlastit : i + 1 = n
      · by_cases him : imax = i
        · -- flat: no second distinct value, so option 3 proposes nothing
          exfalso
          have hconst : ∀ x ∈ (rangeL (imin+1) i).map (e[·]!), x = last := by
            intro x hx
            obtain ⟨k, hk, rfl⟩ := List.mem_map.1 hx
            rw [rangeL_mem] at hk
            exact hflat hlastit him k (by omega) (by omega)
          rcases uniqDesc_const last _ hconst with h0 | h0 <;> rw [← hzs] at h0 <;> rw [h0] at hz <;> simp at hz
        · omega
      · omega
  obtain ⟨hm0, hm2, hb⟩ := hshape
  have hpres := setFold_pres (candVal best.mode best.z) (fun v => last ≤ v)
    (fun v hv => candVal_lb _ _ _ hm0 hm2 v hv) (rangeL best.a best.b) e (fun k hk => hlb k (by omega))
  have hnm := setFold_not_mem (candVal best.mode best.z) (rangeL best.a best.b) e (n - 1)
    (by rw [rangeL_mem]; omega)
  unfold applyCand
  exact ⟨by rw [hpres.1]; exact hsz, fun k hk => hpres.2 k (by omega), by rw [hnm]; exact hlast⟩

theorem a1Step_last (n : Nat) (last : Int) (s : A1) (i : Nat) (hi : i < n) (h : LInv n last i s) :
    LInv n last (i+1) (a1Step n s i) := by
  obtain ⟨hsz, hlb, hlast, himax, hdom, hzmin, hpit⟩ := h
  unfold a1Step
  simp only
  split
  · -- pit / end of vector
    split
    · rename_i hp
      have hi1 := hpit hp
      have himax' : (if s.e[i]! ≥ s.zmax then i else s.imax) ≤ i := by split <;> omega
      obtain ⟨f1, f2, f3⟩ := a1Fix_last n last s.e s.imin (if s.e[i]! ≥ s.zmax then i else s.imax) i s.zmin
        (if s.e[i]! ≥ s.zmax then s.e[i]! else s.zmax) hsz hi hi1 hlb hlast (hzmin hp) himax'
        (by
          intro hl him k hk1 hk2
          have hge : s.e[i]! ≥ s.zmax := by
            apply Classical.byContradiction; intro hn
            rw [if_neg hn] at him; omega
          have h1 := hdom hp k hk1 hk2
          have h2 := hlb k (by omega)
          have h3 : s.e[i]! = last := by
            have : i = n - 1 := by omega
            rw [this]; exact hlast
          omega)
      exact ⟨f1, f2, f3, by simp, fun _ k hk1 hk2 => by
        have : k = i := by simp only at hk1; omega
        rw [this]; exact Int.le_refl _, fun _ => f2 (i-1) (by omega), fun _ => by omega⟩
    · exact ⟨hsz, hlb, hlast, by simp, fun _ k hk1 hk2 => by
        have : k = i := by simp only at hk1; omega
        rw [this]; exact Int.le_refl _, fun _ => hlb (i-1) (by omega), fun _ => by omega⟩
  · refine ⟨hsz, hlb, hlast, ?_, fun hp k hk1 hk2 => ?_, hzmin, fun _ => by omega⟩
    · simp only; split <;> omega
    · simp only at hp hk1 ⊢
      by_cases hki : k = i
      · rw [hki]; split <;> omega
      · have := hdom hp k hk1 (by omega)
        split <;> omega

theorem adjust1d_last : LastKept adjust1d := by
  intro v hpos
  obtain ⟨n, hnd⟩ : ∃ n, n = v.length := ⟨_, rfl⟩
  obtain ⟨e0, he0⟩ : ∃ a, a = v.toArray := ⟨_, rfl⟩
  have hsz : e0.size = n := by rw [he0, hnd]; simp
  have hinit : LInv n e0[n - 1]! 0 (a1Init e0) := by
    refine ⟨by simp [a1Init, hsz], fun k hk => ?_, ?_, by simp [a1Init], fun h => by simp [a1Init] at h,
      fun h => by simp [a1Init] at h, fun h => by simp [a1Init] at h⟩
    · simp only [a1Init]; rw [arr_map_get! _ _ _ (by omega), hsz]; omega
    · simp only [a1Init]; rw [arr_map_get! _ _ _ (by omega), hsz]; omega
  have hfin := range_fold_inv (a1Step n) (fun i s => LInv n e0[n - 1]! i s) (a1Init e0) n hinit
    (fun i s hi h => a1Step_last n _ s i hi h)
  unfold adjust1d
  rw [← hnd, ← he0]
  obtain ⟨fs, hfs⟩ : ∃ s, s = (List.range n).foldl (a1Step n) (a1Init e0) := ⟨_, rfl⟩
  rw [← hfs] at hfin ⊢
  have h1 : fs.e.toList[n - 1]! = fs.e[n - 1]! := by
    rw [getElem!_pos fs.e (n-1) (by rw [hfin.sz]; omega),
      getElem!_pos fs.e.toList (n-1) (by simp [hfin.sz]; omega)]
    simp
  have h2 : v[n - 1]! = e0[n - 1]! := by rw [he0]; simp
  rw [h1, h2]; exact hfin.lastv

end Pf.C15
