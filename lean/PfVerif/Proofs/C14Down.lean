import PfVerif.Proofs.C14Fuel
import PfVerif.Proofs.C14Sum
/-! `fillnodata(direction='down')`: the sweep model equals the order-free oracle `fillDownSpec` the
driver evaluates (every cell holding a value walks downstream and is merged into each empty cell it
meets before the next cell holding a value). Core Lean only. -/
namespace Pf

/-- is `j` written by the oracle's walk that starts at `c`? -/
def hitsW_c14 (ds : Array Nat) (data : Array Int) (nd : Int) (j : Nat) : Nat → Nat → Bool
  | 0, _ => false
  | fuel+1, c =>
    let d := ds[c]!
    if d = c ∨ d ≥ ds.size then false
    else if data[d]! ≠ nd then false
    else d == j || hitsW_c14 ds data nd j fuel d

theorem hitsW_lt_c14 (ds : Array Nat) (data : Array Int) (nd : Int) (j : Nat) :
    ∀ fuel c, hitsW_c14 ds data nd j fuel c = true → j < ds.size := by
  intro fuel
  induction fuel with
  | zero => intro c h; simp [hitsW_c14] at h
  | succ f ih =>
    intro c h
    simp only [hitsW_c14] at h
    by_cases h1 : ds[c]! = c ∨ ds[c]! ≥ ds.size
    · rw [if_pos h1] at h; cases h
    · rw [if_neg h1] at h
      by_cases h2 : data[ds[c]!]! ≠ nd
      · rw [if_pos h2] at h; cases h
      · rw [if_neg h2] at h
        simp only [Bool.or_eq_true, beq_iff_eq] at h
        rcases h with h | h
        · omega
        · exact ih _ h

theorem hitsW_sound_c14 (ds : Array Nat) (data : Array Int) (nd : Int) (j : Nat) :
    ∀ fuel c, hitsW_c14 ds data nd j fuel c = true → Feeds ds data nd c j := by
  intro fuel
  induction fuel with
  | zero => intro c h; simp [hitsW_c14] at h
  | succ f ih =>
    intro c h
    simp only [hitsW_c14] at h
    by_cases h1 : ds[c]! = c ∨ ds[c]! ≥ ds.size
    · rw [if_pos h1] at h; cases h
    · rw [if_neg h1] at h
      have hp : ds[c]! ≠ c := fun e => h1 (Or.inl e)
      by_cases h2 : data[ds[c]!]! ≠ nd
      · rw [if_pos h2] at h; cases h
      · rw [if_neg h2] at h
        have hnd : data[ds[c]!]! = nd := Classical.byContradiction h2
        simp only [Bool.or_eq_true, beq_iff_eq] at h
        rcases h with h | h
        · have := Feeds.step (ds := ds) (data := data) (nd := nd) (k := c) hp hnd
          rwa [h] at this
        · exact Feeds.cons_c14 hp hnd (ih _ h)

theorem hitsW_complete_c14 (ds : Array Nat) (data : Array Int) (nd : Int) (seq : List Nat)
    (htopo : Topo ds seq) (hb : ∀ i ∈ seq, i < ds.size) (j : Nat) :
    ∀ fuel c, c ∈ seq → pitWithin_c14 ds fuel c = true → Feeds ds data nd c j →
      hitsW_c14 ds data nd j fuel c = true := by
  intro fuel
  induction fuel with
  | zero => intro c _ h; simp [pitWithin_c14] at h
  | succ f ih =>
    intro c hc hp hf
    obtain ⟨h1, h2, h3⟩ := Feeds.inv_c14 hf
    have hdm := Topo.ds_mem htopo c hc
    have hd := hb _ hdm
    simp only [pitWithin_c14, Bool.or_eq_true, beq_iff_eq] at hp
    have hp' : pitWithin_c14 ds f ds[c]! = true := by
      rcases hp with e | e
      · exact absurd e h1
      · exact e
    simp only [hitsW_c14]
    rw [if_neg (by omega : ¬ (ds[c]! = c ∨ ds[c]! ≥ ds.size)), if_neg (by simp [h2])]
    simp only [Bool.or_eq_true, beq_iff_eq]
    rcases h3 with e | e
    · exact Or.inl e.symm
    · exact Or.inr (ih _ hdm hp' e)

/-- no walk returns to its start (the order covers the network, so every cell a walk can leave is a
cell of the order) -/
theorem hitsW_irrefl_c14 (ds : Array Nat) (data : Array Int) (nd : Int) (seq : List Nat)
    (htopo : Topo ds seq) (hcov : ∀ c, isValid ds c = true → c ∈ seq) :
    ∀ fuel c, hitsW_c14 ds data nd c fuel c = false := by
  intro fuel c
  cases h : hitsW_c14 ds data nd c fuel c with
  | false => rfl
  | true =>
    exfalso
    have hlt := hitsW_lt_c14 ds data nd c fuel c h
    have hf := hitsW_sound_c14 ds data nd c fuel c h
    obtain ⟨h1, _, _⟩ := Feeds.inv_c14 hf
    -- `c` is a cell of the network: the first step of the walk passed the range test
    have hv : isValid ds c = true := by
      cases fuel with
      | zero => simp [hitsW_c14] at h
      | succ f =>
        simp only [hitsW_c14] at h
        by_cases h1' : ds[c]! = c ∨ ds[c]! ≥ ds.size
        · rw [if_pos h1'] at h; cases h
        · simp only [isValid, hlt, decide_true, Bool.true_and, bne_iff_ne]
          omega
    exact Feeds.irrefl_c14 htopo c (hcov c hv) hf

/-! ### one walk, then all walks -/

theorem fillDownWalk_get_c14 (ds : Array Nat) (data : Array Int) (nd : Int) (how : Nat) (v : Int)
    (hnr : ∀ f c, hitsW_c14 ds data nd c f c = false) :
    ∀ (fuel cur : Nat) (acc : Array (Option Int)), acc.size = ds.size →
      (fillDownWalk ds data nd how v fuel cur acc).size = ds.size ∧
      ∀ j, (fillDownWalk ds data nd how v fuel cur acc)[j]! =
        if hitsW_c14 ds data nd j fuel cur then mergeOpt how acc[j]! (some v) else acc[j]! := by
  intro fuel
  induction fuel with
  | zero => intro cur acc hs; exact ⟨hs, fun j => by simp [fillDownWalk, hitsW_c14]⟩
  | succ f ih =>
    intro cur acc hs
    simp only [fillDownWalk]
    by_cases h1 : ds[cur]! = cur ∨ ds[cur]! ≥ ds.size
    · have hv : ∀ j, hitsW_c14 ds data nd j (f + 1) cur = false := fun j => by simp [hitsW_c14, h1]
      rw [if_pos h1]; exact ⟨hs, fun j => by rw [hv j]; rfl⟩
    · rw [if_neg h1]
      by_cases h2 : data[ds[cur]!]! ≠ nd
      · have hv : ∀ j, hitsW_c14 ds data nd j (f + 1) cur = false := fun j => by
          simp only [hitsW_c14]; rw [if_neg h1, if_pos h2]
        rw [if_pos h2]; exact ⟨hs, fun j => by rw [hv j]; rfl⟩
      · rw [if_neg h2]
        have hv : ∀ j, hitsW_c14 ds data nd j (f + 1) cur =
            (ds[cur]! == j || hitsW_c14 ds data nd j f ds[cur]!) := fun j => by
          simp only [hitsW_c14]; rw [if_neg h1, if_neg h2]
        have hd : ds[cur]! < acc.size := by omega
        obtain ⟨i1, i2⟩ := ih ds[cur]! (acc.setIfInBounds ds[cur]! (mergeOpt how acc[ds[cur]!]! (some v)))
          (by simp [hs])
        refine ⟨i1, fun j => ?_⟩
        rw [i2 j, hv j, get!_setIfInBounds]
        by_cases hj : ds[cur]! = j
        · subst hj
          rw [hnr f ds[cur]!]
          simp [hd]
        · have hne : (ds[cur]! == j) = false := by simpa using hj
          simp [hj, hne]

/-- the accumulator of the oracle after the source cells `l` -/
def specAcc_c14 (ds : Array Nat) (data : Array Int) (nd : Int) (how : Nat) (l : List Nat)
    (acc0 : Array (Option Int)) : Array (Option Int) :=
  l.foldl (fun acc k =>
    if isValid ds k && data[k]! != nd then fillDownWalk ds data nd how data[k]! (ds.size + 1) k acc
    else acc) acc0

/-- the sources that reach `j` -/
def feeders_c14 (ds : Array Nat) (data : Array Int) (nd : Int) (j : Nat) (l : List Nat) : List Nat :=
  l.filter fun k => isValid ds k && data[k]! != nd && hitsW_c14 ds data nd j (ds.size + 1) k

theorem specAcc_get_c14 (ds : Array Nat) (data : Array Int) (nd : Int) (how : Nat)
    (hnr : ∀ f c, hitsW_c14 ds data nd c f c = false) :
    ∀ (l : List Nat) (acc0 : Array (Option Int)), acc0.size = ds.size →
      (specAcc_c14 ds data nd how l acc0).size = ds.size ∧
      ∀ j, (specAcc_c14 ds data nd how l acc0)[j]! =
        ((feeders_c14 ds data nd j l).map fun k => some data[k]!).foldl (mergeOpt how) acc0[j]! := by
  intro l
  induction l with
  | nil => intro acc0 hs; exact ⟨hs, fun j => rfl⟩
  | cons k l ih =>
    intro acc0 hs
    simp only [specAcc_c14, List.foldl_cons]
    by_cases hsrc : (isValid ds k && data[k]! != nd) = true
    · rw [if_pos hsrc]
      obtain ⟨w1, w2⟩ := fillDownWalk_get_c14 ds data nd how data[k]! hnr (ds.size + 1) k acc0 hs
      obtain ⟨i1, i2⟩ := ih _ w1
      refine ⟨i1, fun j => ?_⟩
      have := i2 j
      simp only [specAcc_c14] at this
      rw [this, w2 j]
      simp only [feeders_c14, List.filter_cons, hsrc, Bool.true_and]
      by_cases hh : hitsW_c14 ds data nd j (ds.size + 1) k = true
      · simp [hh]
      · simp [hh]
    · rw [if_neg hsrc]
      obtain ⟨i1, i2⟩ := ih acc0 hs
      refine ⟨i1, fun j => ?_⟩
      have := i2 j
      simp only [specAcc_c14] at this
      rw [this]
      have hf : (isValid ds k && data[k]! != nd) = false := by simpa using hsrc
      simp only [feeders_c14, List.filter_cons, hf, Bool.false_and]
      rfl

/-- entry `j` of the oracle -/
theorem fillDownSpec_get_c14 (ds : Array Nat) (data : Array Int) (nd : Int) (how : Nat)
    (hnr : ∀ f c, hitsW_c14 ds data nd c f c = false) (j : Nat) (hj : j < ds.size) :
    (fillDownSpec ds data nd how)[j]! =
      if data[j]! ≠ nd then data[j]!
      else (mergeBranches how ((feeders_c14 ds data nd j (List.range ds.size)).map fun k => some data[k]!)).getD nd := by
  obtain ⟨_, h2⟩ := specAcc_get_c14 ds data nd how hnr (List.range ds.size) (Array.replicate ds.size none)
    (by simp)
  have h := h2 j
  simp only [specAcc_c14] at h
  have h0 : (Array.replicate ds.size (none : Option Int))[j]! = none := by simp [hj]
  rw [h0] at h
  simp only [fillDownSpec]
  rw [getElem!_pos _ _ (by simpa using hj)]
  simp only [List.getElem_toArray, List.getElem_map, List.getElem_range, h, mergeBranches]
  by_cases hd : data[j]! = nd
  · simp [hd]
  · simp [hd]

/-! ### feeders = the nearest cells upstream that hold a value -/

theorem mem_feeders_c14 (ds : Array Nat) (data : Array Int) (nd : Int) (seq : List Nat)
    (htopo : Topo ds seq) (hb : ∀ i ∈ seq, i < ds.size) (hcov : ∀ c, isValid ds c = true → c ∈ seq)
    (j k : Nat) :
    k ∈ feeders_c14 ds data nd j (List.range ds.size) ↔ k ∈ seq ∧ data[k]! ≠ nd ∧ Feeds ds data nd k j := by
  simp only [feeders_c14, List.mem_filter, List.mem_range, Bool.and_eq_true, bne_iff_ne]
  constructor
  · rintro ⟨_, ⟨hv, hd⟩, hh⟩
    exact ⟨hcov k hv, hd, hitsW_sound_c14 ds data nd j _ k hh⟩
  · rintro ⟨hk, hd, hf⟩
    have hkn := hb k hk
    have hdn := hb _ (Topo.ds_mem htopo k hk)
    refine ⟨hkn, ⟨?_, hd⟩, hitsW_complete_c14 ds data nd seq htopo hb j _ k hk (htopo.reach_size_c14 hb k hk) hf⟩
    simp only [isValid, hkn, decide_true, Bool.true_and, bne_iff_ne]
    omega

/-- sum over a filtered range = indicator sum -/
theorem filter_range_sum_c14 (p : Nat → Bool) (f : Nat → Int) :
    ∀ n, (((List.range n).filter p).map f).sum = sumRange n fun k => if p k then f k else 0 := by
  intro n
  induction n with
  | zero => rfl
  | succ n ih =>
    rw [List.range_succ, List.filter_append, List.map_append, List.sum_append, ih]
    simp only [sumRange]
    by_cases h : p n = true
    · simp [h]
    · simp [h]

theorem somes_map_some_c14 (f : Nat → Int) (l : List Nat) : somes (l.map fun k => some (f k)) = l.map f := by
  induction l with
  | nil => rfl
  | cons k l ih => simp only [somes, List.map_cons, List.filterMap_cons, id] at ih ⊢; rw [ih]

/-! ### model = oracle, per merge rule -/

/-- selecting rules (min, max): the filled value is the merge over the feeders in index order -/
theorem fillOpt_eq_feeders_sel_c14 (how : Nat) (R : Int → Int → Prop) (hrefl : ∀ a, R a a)
    (htrans : ∀ a b c, R a b → R b c → R a c)
    (hsel : ∀ x a, mergeHow how x a = x ∨ mergeHow how x a = a)
    (hR : ∀ x a, R (mergeHow how x a) x ∧ R (mergeHow how x a) a)
    (hanti : ∀ a b, R a b → R b a → a = b)
    (ds : Array Nat) (seq : List Nat) (data : Array Int) (nd : Int)
    (htopo : Topo ds seq) (hb : ∀ i ∈ seq, i < ds.size) (hbd : ∀ i ∈ seq, i < data.size)
    (hcov : ∀ c, isValid ds c = true → c ∈ seq) (j : Nat) (hj : j ∈ seq) (hd : data[j]! = nd) :
    fillOpt ds seq data nd how j =
      mergeBranches how ((feeders_c14 ds data nd j (List.range ds.size)).map fun k => some data[k]!) := by
  obtain ⟨F1, F2⟩ := fillDown_frontier_sel how R hrefl htrans hsel hR ds seq data nd htopo hbd
  obtain ⟨m1, m2, m3⟩ := mergeBranches_sel how R hrefl htrans hsel hR
    ((feeders_c14 ds data nd j (List.range ds.size)).map fun k => some data[k]!)
  have hmem := mem_feeders_c14 ds data nd seq htopo hb hcov j
  show optOf (fillDownState ds seq data nd how)[j]! = _
  cases hO : optOf (fillDownState ds seq data nd how)[j]! with
  | none =>
    symm; rw [m2]
    intro x hx
    obtain ⟨k, hk, rfl⟩ := List.mem_map.1 hx
    obtain ⟨hks, hkd, hkf⟩ := (hmem k).1 hk
    obtain ⟨r, hr, _⟩ := F1 k hks hkd j hkf
    rw [hO] at hr; cases hr
  | some r =>
    rcases F2 j hj r hO with ⟨h, _⟩ | ⟨k0, hk0, hd0, hf0, hr0⟩
    · exact absurd hd h
    · have hin0 : some data[k0]! ∈ (feeders_c14 ds data nd j (List.range ds.size)).map fun k => some data[k]! :=
        List.mem_map.2 ⟨k0, (hmem k0).2 ⟨hk0, hd0, hf0⟩, rfl⟩
      obtain ⟨r', hr', hR0⟩ := m1 _ hin0
      obtain ⟨k1, hk1, he1⟩ := List.mem_map.1 (m3 r' hr')
      obtain ⟨hks, hkd, hkf⟩ := (hmem k1).1 hk1
      obtain ⟨r'', hr'', hR1⟩ := F1 k1 hks hkd j hkf
      rw [hO] at hr''; cases hr''
      have e1 : data[k1]! = r' := by cases he1; rfl
      rw [e1] at hR1
      rw [← hr0] at hR0
      rw [hr', hanti r r' hR1 hR0]

/-- sum: the filled value is the sum over the feeders -/
theorem fillOpt_eq_feeders_sum_c14 (ds : Array Nat) (seq : List Nat) (data : Array Int) (nd : Int)
    (htopo : Topo ds seq) (hb : ∀ i ∈ seq, i < ds.size) (hsz : data.size = ds.size)
    (hcov : ∀ c, isValid ds c = true → c ∈ seq) (j : Nat) (hj : j ∈ seq) (hd : data[j]! = nd) :
    fillOpt ds seq data nd 2 j =
      mergeBranches 2 ((feeders_c14 ds data nd j (List.range ds.size)).map fun k => some data[k]!) := by
  have hbd : ∀ i ∈ seq, i < data.size := fun i hi => by rw [hsz]; exact hb i hi
  obtain ⟨s1, s2⟩ := fillDown_sum_frontier ds seq data nd htopo hbd j hj hd
  have hmem := mem_feeders_c14 ds data nd seq htopo hb hcov j
  have hms := mergeFold_sum ((feeders_c14 ds data nd j (List.range ds.size)).map fun k => some data[k]!) none
  simp only [] at hms
  unfold mergeBranches
  rw [hms]
  by_cases hex : ∃ k ∈ seq, data[k]! ≠ nd ∧ Feeds ds data nd k j
  · rw [s2 hex]
    obtain ⟨k0, hk0, hd0, hf0⟩ := hex
    have hne : ¬ ∀ x ∈ (feeders_c14 ds data nd j (List.range ds.size)).map fun k => some data[k]!, x = none := by
      intro h
      have := h (some data[k0]!) (List.mem_map.2 ⟨k0, (hmem k0).2 ⟨hk0, hd0, hf0⟩, rfl⟩)
      cases this
    rw [if_neg hne, somes_map_some_c14]
    congr 1
    unfold feeders_c14
    rw [filter_range_sum_c14, sumOver, hsz]
    apply sumRange_congr
    intro k hk
    apply ite0_bool
    rw [← hmem k]
    simp only [feeders_c14, List.mem_filter, List.mem_range, hk, true_and]
  · rw [s1 hex]
    have hall : ∀ x ∈ (feeders_c14 ds data nd j (List.range ds.size)).map fun k => some data[k]!, x = none := by
      intro x hx
      obtain ⟨k, hk, _⟩ := List.mem_map.1 hx
      obtain ⟨a, b, c⟩ := (hmem k).1 hk
      exact absurd ⟨k, a, b, c⟩ hex
    rw [if_pos hall]

/-- **model = oracle, cell by cell**, for the three merge rules (0 = max, 1 = min, 2 = sum) -/
theorem fillDown_eq_spec_get_c14 (ds : Array Nat) (seq : List Nat) (data : Array Int) (nd : Int) (how : Nat)
    (hhow : how ≤ 2) (htopo : Topo ds seq) (hb : ∀ i ∈ seq, i < ds.size) (hsz : data.size = ds.size)
    (hcov : ∀ c, isValid ds c = true → c ∈ seq) (j : Nat) (hj : j < ds.size) :
    (fillDownModel ds seq data nd how)[j]! = (fillDownSpec ds data nd how)[j]! := by
  have hbd : ∀ i ∈ seq, i < data.size := fun i hi => by rw [hsz]; exact hb i hi
  have hnr := hitsW_irrefl_c14 ds data nd seq htopo hcov
  obtain ⟨hrec, hget⟩ := fillDown_rec ds seq data nd how htopo hbd j (by rw [hsz]; exact hj)
  rw [fillDownSpec_get_c14 ds data nd how hnr j hj, hget]
  by_cases hd : data[j]! ≠ nd
  · rw [hrec, if_pos hd, if_pos hd]; rfl
  · have hd' : data[j]! = nd := Classical.byContradiction hd
    rw [if_neg hd]
    congr 1
    by_cases hjs : j ∈ seq
    · have h012 : how = 0 ∨ how = 1 ∨ how = 2 := by omega
      rcases h012 with h | h | h <;> subst h
      · exact fillOpt_eq_feeders_sel_c14 0 (fun a b => b ≤ a) (fun a => Int.le_refl a)
          (fun a b c h1 h2 => Int.le_trans h2 h1)
          (fun x a => by have : mergeHow 0 x a = max x a := by simp [mergeHow]
                         rw [this]; omega)
          (fun x a => by have : mergeHow 0 x a = max x a := by simp [mergeHow]
                         rw [this]; omega)
          (fun a b h1 h2 => Int.le_antisymm h2 h1) ds seq data nd htopo hb hbd hcov j hjs hd'
      · exact fillOpt_eq_feeders_sel_c14 1 (fun a b => a ≤ b) (fun a => Int.le_refl a)
          (fun a b c => Int.le_trans)
          (fun x a => by have : mergeHow 1 x a = min x a := by simp [mergeHow]
                         rw [this]; omega)
          (fun x a => by have : mergeHow 1 x a = min x a := by simp [mergeHow]
                         rw [this]; omega)
          (fun a b h1 h2 => Int.le_antisymm h1 h2) ds seq data nd htopo hb hbd hcov j hjs hd'
      · exact fillOpt_eq_feeders_sum_c14 ds seq data nd htopo hb hsz hcov j hjs hd'
    · -- outside the order: no inflowing cell, no feeder
      have hkids : kids ds seq j = [] := by
        simp only [kids, List.filter_eq_nil_iff, List.mem_reverse]
        intro c hc
        have : ds[c]! ≠ j := fun e => hjs (e ▸ Topo.ds_mem htopo c hc)
        simp [this]
      have hfe : feeders_c14 ds data nd j (List.range ds.size) = [] := by
        apply List.eq_nil_iff_forall_not_mem.2
        intro k hk
        obtain ⟨a, _, c⟩ := (mem_feeders_c14 ds data nd seq htopo hb hcov j k).1 hk
        exact hjs (Feeds.mem_c14 htopo a c)
      rw [hrec, if_neg hd, hkids, hfe]
      rfl

/-- **model = oracle as arrays** -/
theorem fillDown_eq_spec_c14 (ds : Array Nat) (seq : List Nat) (data : Array Int) (nd : Int) (how : Nat)
    (hhow : how ≤ 2) (htopo : Topo ds seq) (hb : ∀ i ∈ seq, i < ds.size) (hsz : data.size = ds.size)
    (hcov : ∀ c, isValid ds c = true → c ∈ seq) :
    fillDownModel ds seq data nd how = fillDownSpec ds data nd how := by
  have hs1 : (fillDownModel ds seq data nd how).size = ds.size := by
    simp [fillDownModel, fillDownState_size, hsz]
  have hs2 : (fillDownSpec ds data nd how).size = ds.size := by simp [fillDownSpec]
  apply Array.ext (by rw [hs1, hs2])
  intro i h1 h2
  have hi : i < ds.size := by rw [← hs1]; exact h1
  have := fillDown_eq_spec_get_c14 ds seq data nd how hhow htopo hb hsz hcov i hi
  rwa [getElem!_pos (fillDownModel ds seq data nd how) i h1, getElem!_pos (fillDownSpec ds data nd how) i h2] at this

end Pf
