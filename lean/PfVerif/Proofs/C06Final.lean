import PfVerif.Proofs.C06Inv
/-! Second stage for C06, part 3: the invariant holds initially, is kept by the loop, and gives the
certificate when the heap is empty. Core Lean only. -/
namespace Pf.C06
open Pf

theorem mem_map_hpush (x : HE) (l : List HE) (i : Nat) :
    i ∈ (hpush x l).map (·.idx) ↔ i = x.idx ∨ i ∈ l.map (·.idx) := by
  simp only [List.mem_map]
  constructor
  · rintro ⟨e, he, hei⟩
    rcases (mem_hpush x e l).1 he with rfl | he
    · exact Or.inl hei.symm
    · exact Or.inr ⟨e, he, hei⟩
  · rintro (h | ⟨e, he, hei⟩)
    · exact ⟨x, (mem_hpush x x l).2 (Or.inl rfl), h.symm⟩
    · exact ⟨e, (mem_hpush x e l).2 (Or.inr he), hei⟩

theorem initHeap_nodup_fold (elev : Array Int) (queued : Array Bool) (l : List Nat) (q : List HE)
    (hl : l.Nodup) (hq : (q.map (·.idx)).Nodup) (hdis : ∀ i, i ∈ l → i ∉ q.map (·.idx)) :
    ((l.foldl (fun q i => if queued[i]! then hpush ⟨elev[i]!, 1, i⟩ q else q) q).map (·.idx)).Nodup := by
  induction l generalizing q with
  | nil => exact hq
  | cons a l ih =>
    simp only [List.foldl_cons]
    have hl' := List.nodup_cons.1 hl
    by_cases hqa : queued[a]! = true
    · rw [if_pos hqa]
      apply ih _ hl'.2
      · exact nodup_hpush _ _ hq (hdis a List.mem_cons_self)
      · intro i hi hmem
        rcases (mem_map_hpush _ _ _).1 hmem with h | h
        · simp only at h
          subst h
          exact hl'.1 hi
        · exact hdis i (List.mem_cons_of_mem _ hi) h
    · rw [if_neg hqa]
      exact ih _ hl'.2 hq (fun i hi => hdis i (List.mem_cons_of_mem _ hi))

theorem initHeap_nodup (G : Grid) (elev : Array Int) (queued : Array Bool) :
    ((initHeap G elev queued).map (·.idx)).Nodup :=
  initHeap_nodup_fold elev queued (List.range G.n) [] List.nodup_range (by simp) (by simp)

section
variable {G : Grid} {conn : Nat} {elev : Array Int} {nod seed : Array Bool}

theorem inv_init (hN : nod.size = G.n) (hE : elev.size = G.n) (hS : seed.size = G.n)
    (hSV : ∀ c : Nat, c < G.n → seed[c]! = true → nod[c]! = false) :
    Inv G conn elev nod seed (fun _ => 0) (initState G elev nod seed) := by
  have hd8 : ∀ c : Nat, c < G.n →
      (initState G elev nod seed).d8[c]! = if nod[c]! = true then 247 else 0 := by
    intro c hc
    have hc' : c < nod.size := by omega
    have : nod[c]! = nod[c] := by simp [hc']
    rw [this]
    simp [initState, hc']
  have hnotpop : ∀ c : Nat, c < G.n → ¬ Popped (initState G elev nod seed) c := by
    intro c hc ⟨hq, hni⟩
    apply hni
    exact ⟨⟨elev[c]!, 1, c⟩, (mem_initHeap G elev seed _).2 ⟨c, hc, hq, rfl⟩, rfl⟩
  refine
    { sized := ⟨by simp [initState, hN], by simp [initState, hS], by simp [initState, hE],
        by simp [initState, hN]⟩,
      nodc := ?_, hp := ?_, nodup := initHeap_nodup G elev seed, sorted := hsorted_initHeap G elev seed,
      mono := fun p hp hpp => absurd hpp (hnotpop p hp), seedq := ?_, dq := ?_, und := ?_,
      pd := fun p hp hpp => absurd hpp (hnotpop p hp), dn := ?_,
      l1 := fun b hb hpb => absurd hpb (hnotpop b hb) }
  · intro c hc hn
    refine ⟨hn, rfl, by rw [hd8 c hc, if_pos hn], ?_⟩
    show seed[c]! = false
    cases hs : seed[c]! with
    | false => rfl
    | true => have := hSV c hc hs; rw [hn] at this; cases this
  · intro e he
    obtain ⟨i, hi, hsi, rfl⟩ := (mem_initHeap G elev seed e).1 he
    exact ⟨hi, hSV i hi hsi, hsi, rfl⟩
  · intro c _ hs
    exact ⟨hs, rfl⟩
  · intro c _ hd hn
    have : (initState G elev nod seed).done[c]! = nod[c]! := rfl
    rw [this, hn] at hd; cases hd
  · intro c hc hn _
    refine ⟨rfl, by rw [hd8 c hc, if_neg (by rw [hn]; simp)], fun hq => ⟨hq, ?_⟩⟩
    exact ⟨⟨elev[c]!, 1, c⟩, (mem_initHeap G elev seed _).2 ⟨c, hc, hq, rfl⟩, rfl⟩
  · intro c _ hn hd
    have : (initState G elev nod seed).done[c]! = nod[c]! := rfl
    rw [this, hn] at hd; cases hd

theorem inv_loop (fuel : Nat) (s : St) (rk : Nat → Nat) (I : Inv G conn elev nod seed rk s) :
    ∃ rk', Inv G conn elev nod seed rk' (fillLoop G conn elev fuel s) := by
  induction fuel generalizing s rk with
  | zero => exact ⟨rk, I⟩
  | succ k ih =>
    unfold fillLoop
    split
    · exact ⟨rk, I⟩
    · rename_i h rest hq
      obtain ⟨rk', I'⟩ := inv_pop I hq
      exact ih _ rk' I'

theorem dsOf_eq {d8 : Array Nat} {c d : Nat} {dr dc : Int} (hcode : d8[c]! = usCode dr dc)
    (ho : (dr, dc) ∈ offsets conn) (ho0 : (dr, dc) ≠ (0, 0)) (hs : shift G d dr dc = some c)
    (hd : d < G.n) (h247 : d8[d]! ≠ 247) : dsOf G d8 c = d := by
  have hoff := (mem_offsets conn dr dc).1 ho
  obtain ⟨_, _, f3⟩ := usCode_facts dr dc hoff.1 hoff.2.1 hoff.2.2.1 hoff.2.2.2.1
  have hne : (-dr, -dc) ≠ ((0 : Int), (0 : Int)) := by
    intro h
    injection h with a b
    apply ho0
    have : dr = 0 := by omega
    have : dc = 0 := by omega
    simp [*]
  have hinv := shift_inv (o := (dr, dc)) hd hs
  simp only at hinv
  unfold dsOf
  simp only [hcode, f3, if_neg hne, hinv, if_neg h247]

/-- **exit**: with an empty heap the invariant is the certificate -/
theorem inv_final {rk : Nat → Nat} {s : St} (I : Inv G conn elev nod seed rk s) (hq : s.q = [])
    (hSV : ∀ c : Nat, c < G.n → seed[c]! = true → nod[c]! = false) :
    FillCert G conn elev nod seed s.f s.d8 ((List.range G.n).map rk).toArray := by
  have hpop : ∀ c : Nat, s.queued[c]! = true → Popped s c := by
    intro c hqc
    refine ⟨hqc, ?_⟩
    rintro ⟨e, he, _⟩
    rw [hq] at he
    cases he
  have hnq : ∀ c : Nat, c < G.n → s.queued[c]! = true → nod[c]! = false := by
    intro c hc hqc
    cases hn : nod[c]! with
    | false => rfl
    | true => have := (I.nodc c hc hn).2.2.2; rw [hqc] at this; cases this
  -- valid cells never carry 247
  have h247 : ∀ c : Nat, c < G.n → nod[c]! = false → s.d8[c]! ≠ 247 := by
    intro c hc hn
    cases hd : s.done[c]! with
    | false => rw [(I.und c hc hn hd).2.1]; decide
    | true =>
      by_cases h0 : s.d8[c]! = 0
      · rw [h0]; decide
      · obtain ⟨_, ⟨dr, dc⟩, ho, _, _, _, hcode, _⟩ := (I.dn c hc hn hd).2 h0
        have hoff := (mem_offsets conn dr dc).1 ho
        rw [hcode]
        exact (usCode_facts dr dc hoff.1 hoff.2.1 hoff.2.2.1 hoff.2.2.2.1).2.1
  -- reached cells are queued (hence popped and done)
  have hreach : ∀ c : Nat, Reached G nod seed s.d8 c → s.queued[c]! = true := by
    intro c ⟨⟨hc, hn⟩, h⟩
    rcases h with h | h
    · exact (I.seedq c hc h).1
    · cases hd : s.done[c]! with
      | false => exact absurd (I.und c hc hn hd).2.1 h
      | true => exact I.dq c hc hd hn
  have hdone_reached : ∀ c : Nat, c < G.n → nod[c]! = false → s.done[c]! = true →
      Reached G nod seed s.d8 c := by
    intro c hc hn hd
    refine ⟨⟨hc, hn⟩, ?_⟩
    by_cases h0 : s.d8[c]! = 0
    · exact Or.inl ((I.dn c hc hn hd).1 h0)
    · exact Or.inr h0
  intro c hc
  unfold CellOk
  by_cases hn : nod[c]! = true
  · rw [if_pos hn]
    obtain ⟨_, n2, n3, _⟩ := I.nodc c hc hn
    refine ⟨n2, n3, ?_⟩
    cases hs : seed[c]! with
    | false => rfl
    | true => have := hSV c hc hs; rw [hn] at this; cases this
  · rw [if_neg hn]
    have hn' : nod[c]! = false := by simpa using hn
    by_cases hr : Reached G nod seed s.d8 c
    · rw [if_pos hr]
      have hqc := hreach c hr
      have hpc := hpop c hqc
      have hdc := I.pd c hc hpc
      refine ⟨h247 c hc hn', fun hs => (I.seedq c hc hs).2, fun h0 => ?_, fun b hb hnbr => ?_⟩
      · obtain ⟨d, ⟨dr, dc⟩, ho, ho0, hso, hdn, hcode, hpd, hf, hrk⟩ := (I.dn c hc hn' hdc).2 h0
        have hdv := hnq d hdn hpd.1
        have hds : dsOf G s.d8 c = d := dsOf_eq hcode ho ho0 hso hdn (h247 d hdn hdv)
        rw [hds]
        refine ⟨⟨?_, ⟨hc, hn'⟩, ⟨hdn, hdv⟩⟩, hf, ?_⟩
        · exact ((adj_iff_shift hdn).2 ⟨(dr, dc), ho, ho0, hso⟩).symm
        · rw [getElem!_map_range _ _ _ hdn, getElem!_map_range _ _ _ hc]
          exact hrk
      · have hbd := (I.l1 c hc hpc b hnbr.symm).1
        have hbr := hdone_reached b hb hnbr.2.2.2 hbd
        refine ⟨hbr, ?_⟩
        exact (I.l1 b hb (hpop b (hreach b hbr)) c hnbr).2
    · rw [if_neg hr]
      cases hd : s.done[c]! with
      | false => exact (I.und c hc hn' hd).1
      | true => exact absurd (hdone_reached c hc hn' hd) hr


theorem userSeeds_size (pits : List Nat) (a : Array Bool) :
    (pits.foldl (fun a p => a.setIfInBounds p true) a).size = a.size := by
  induction pits generalizing a with
  | nil => rfl
  | cons p r ih => simp only [List.foldl_cons]; rw [ih]; simp

theorem seeds0_size (pits : Option (List Nat)) : (seeds0 G conn nod pits).size = G.n := by
  unfold seeds0
  cases pits with
  | none => simp [getEdge]
  | some l => simp [userSeeds, userSeeds_size]

theorem seeds0_valid (pits : Option (List Nat))
    (hpits : ∀ l, pits = some l → ∀ p, p ∈ l → p < G.n → nod[p]! = false) (c : Nat) (hc : c < G.n)
    (h : (seeds0 G conn nod pits)[c]! = true) : nod[c]! = false := by
  unfold seeds0 at h
  cases pits with
  | none => exact ((getEdge_spec G conn nod c hc).1 h).1.2
  | some l =>
    simp only [userSeeds] at h
    rw [userSeeds_fold] at h
    rcases h with h | ⟨h, _⟩
    · simp [hc] at h
    · exact hpits l rfl c h hc

theorem seedsOf_size {pits : Option (List Nat)} {minMode : Bool} {s : Array Bool}
    (h : seedsOf G conn elev nod pits minMode = some s) : s.size = G.n := by
  unfold seedsOf at h
  cases minMode with
  | false =>
    simp only [Bool.false_eq_true, if_false, Option.some.injEq] at h
    rw [← h]; exact seeds0_size pits
  | true =>
    simp only [if_true] at h
    split at h
    · cases h
    · injection h with h
      rw [← h]; simp

theorem seedsOf_valid {pits : Option (List Nat)} {minMode : Bool} {s : Array Bool}
    (hpits : ∀ l, pits = some l → ∀ p, p ∈ l → p < G.n → nod[p]! = false)
    (h : seedsOf G conn elev nod pits minMode = some s) (c : Nat) (hc : c < G.n)
    (hs : s[c]! = true) : nod[c]! = false := by
  cases minMode with
  | false =>
    simp only [seedsOf, Bool.false_eq_true, if_false, Option.some.injEq] at h
    subst h
    exact seeds0_valid pits hpits c hc hs
  | true =>
    obtain ⟨m, hm, hq, _, hiff⟩ := seedsOf_min G conn elev nod pits s h
    have := (hiff c hc).1 hs
    subst this
    exact seeds0_valid pits hpits c hc hq

/-- the model's run, unfolded: final state of the loop with its invariant -/
theorem fillModel_inv {pits : Option (List Nat)} {minMode : Bool} {f : Array Int} {d8 : Array Nat}
    {fin : Bool} (hN : nod.size = G.n) (hE : elev.size = G.n)
    (hpits : ∀ l, pits = some l → ∀ p, p ∈ l → p < G.n → nod[p]! = false)
    (h : fillModel G conn elev nod pits minMode = some (f, d8, fin)) :
    ∃ (seed : Array Bool) (s : St) (rk : Nat → Nat),
      seedsOf G conn elev nod pits minMode = some seed ∧
      (∀ c : Nat, c < G.n → seed[c]! = true → nod[c]! = false) ∧
      Inv G conn elev nod seed rk s ∧ f = s.f ∧ d8 = s.d8 ∧ fin = s.q.isEmpty := by
  unfold fillModel at h
  split at h
  · cases h
  · rename_i seed hseed
    simp only [Option.some.injEq, Prod.mk.injEq] at h
    obtain ⟨h1, h2, h3⟩ := h
    have hSV := seedsOf_valid (conn := conn) (elev := elev) hpits hseed
    obtain ⟨rk, I⟩ := inv_loop (conn := conn) (G.n + 1) _ _
      (inv_init (conn := conn) hN hE (seedsOf_size hseed) hSV)
    exact ⟨seed, _, rk, hseed, hSV, I, h1.symm, h2.symm, h3.symm⟩

end
end Pf.C06
