import PfVerif.Model.C04
/-! Lemmas for C04 (core Lean only): finite sums over `k < n`, flow paths, and the invariant of the
guarded up-sweep `accu[ds c] += accu[c] if ok c`. -/
namespace Pf

/-! ### finite sums -/

theorem sumRange_congr {n : Nat} {f g : Nat → Int} (h : ∀ k, k < n → f k = g k) :
    sumRange n f = sumRange n g := by
  induction n with
  | zero => rfl
  | succ n ih =>
    simp only [sumRange]
    rw [ih (fun k hk => h k (Nat.lt_succ_of_lt hk)), h n (Nat.lt_succ_self n)]

theorem sumRange_zero (n : Nat) : sumRange n (fun _ => 0) = 0 := by
  induction n with
  | zero => rfl
  | succ n ih => simp [sumRange, ih]

theorem sumRange_add (n : Nat) (f g : Nat → Int) :
    sumRange n (fun k => f k + g k) = sumRange n f + sumRange n g := by
  induction n with
  | zero => rfl
  | succ n ih => simp only [sumRange, ih]; omega

theorem sumRange_mul (n : Nat) (c : Int) (f : Nat → Int) :
    sumRange n (fun k => c * f k) = c * sumRange n f := by
  induction n with
  | zero => simp [sumRange]
  | succ n ih => simp only [sumRange, ih, Int.mul_add]

theorem sumRange_le {n : Nat} {f g : Nat → Int} (h : ∀ k, k < n → f k ≤ g k) :
    sumRange n f ≤ sumRange n g := by
  induction n with
  | zero => exact Int.le_refl _
  | succ n ih =>
    simp only [sumRange]
    have := ih (fun k hk => h k (Nat.lt_succ_of_lt hk))
    have := h n (Nat.lt_succ_self n)
    omega

/-- two summands that differ at one point only -/
theorem sumRange_update {n : Nat} {f g : Nat → Int} {d : Nat} (hd : d < n)
    (h : ∀ k, k < n → k ≠ d → g k = f k) : sumRange n g = sumRange n f + (g d - f d) := by
  induction n with
  | zero => omega
  | succ n ih =>
    simp only [sumRange]
    by_cases hdn : d = n
    · subst hdn
      rw [sumRange_congr (f := g) (g := f) (fun k hk => h k (Nat.lt_succ_of_lt hk) (Nat.ne_of_lt hk))]
      omega
    · have hd' : d < n := by omega
      rw [ih hd' (fun k hk hne => h k (Nat.lt_succ_of_lt hk) hne), h n (Nat.lt_succ_self n) (Ne.symm hdn)]
      omega

/-- `v` if `p` holds, else `0` (classical indicator; sums over sets described by a proposition) -/
noncomputable def ite0 (p : Prop) (v : Int) : Int := @ite _ p (Classical.propDecidable p) v 0

theorem ite0_pos {p : Prop} {v : Int} (h : p) : ite0 p v = v := by
  unfold ite0; exact @if_pos _ (Classical.propDecidable p) h _ _ _
theorem ite0_neg {p : Prop} {v : Int} (h : ¬ p) : ite0 p v = 0 := by
  unfold ite0; exact @if_neg _ (Classical.propDecidable p) h _ _ _
theorem ite0_congr {p q : Prop} {v w : Int} (h : p ↔ q) (hv : q → v = w) : ite0 p v = ite0 q w := by
  by_cases hq : q
  · rw [ite0_pos (h.mpr hq), ite0_pos hq, hv hq]
  · rw [ite0_neg (fun hp => hq (h.mp hp)), ite0_neg hq]
theorem ite0_bool {p : Prop} {b : Bool} {v : Int} (h : p ↔ b = true) :
    ite0 p v = if b then v else 0 := by
  cases b
  · rw [ite0_neg (by simpa using h)]; rfl
  · rw [ite0_pos (by simpa using h)]; rfl

/-- `Σ_{k < n, P k} f k` -/
noncomputable def sumOver (n : Nat) (P : Nat → Prop) (f : Nat → Int) : Int :=
  sumRange n fun k => ite0 (P k) (f k)

theorem sumOver_congr {n : Nat} {P Q : Nat → Prop} {f g : Nat → Int}
    (h : ∀ k, k < n → (P k ↔ Q k)) (hf : ∀ k, k < n → Q k → f k = g k) :
    sumOver n P f = sumOver n Q g :=
  sumRange_congr fun k hk => ite0_congr (h k hk) (hf k hk)

theorem sumOver_false {n : Nat} {P : Nat → Prop} {f : Nat → Int} (h : ∀ k, k < n → ¬ P k) :
    sumOver n P f = 0 := by
  unfold sumOver
  rw [sumRange_congr (g := fun _ => 0) (fun k hk => ite0_neg (h k hk)), sumRange_zero]

theorem sumOver_mul (n : Nat) (P : Nat → Prop) (c : Int) (f : Nat → Int) :
    sumOver n P (fun k => c * f k) = c * sumOver n P f := by
  unfold sumOver
  rw [← sumRange_mul]
  refine sumRange_congr fun k _ => ?_
  by_cases hp : P k
  · rw [ite0_pos hp, ite0_pos hp]
  · rw [ite0_neg hp, ite0_neg hp]; simp

/-- monotone in the set for summands that are non-negative on the larger set -/
theorem sumOver_mono {n : Nat} {P Q : Nat → Prop} {f : Nat → Int}
    (h : ∀ k, k < n → P k → Q k) (h0 : ∀ k, k < n → Q k → 0 ≤ f k) :
    sumOver n P f ≤ sumOver n Q f := by
  refine sumRange_le fun k hk => ?_
  by_cases hq : Q k
  · rw [ite0_pos hq]
    by_cases hp : P k
    · rw [ite0_pos hp]; exact Int.le_refl _
    · rw [ite0_neg hp]; exact h0 k hk hq
  · rw [ite0_neg hq, ite0_neg (fun hp => hq (h k hk hp))]; exact Int.le_refl _

/-- add one point to the set -/
theorem sumOver_insert {n : Nat} {P Q : Nat → Prop} {f : Nat → Int} {d : Nat} (hd : d < n)
    (h : ∀ k, k < n → k ≠ d → (Q k ↔ P k)) (hP : ¬ P d) :
    sumOver n Q f = sumOver n P f + ite0 (Q d) (f d) := by
  unfold sumOver
  rw [sumRange_update hd (f := fun k => ite0 (P k) (f k)) (g := fun k => ite0 (Q k) (f k))
    (fun k hk hne => ite0_congr (h k hk hne) (fun _ => rfl))]
  simp only [ite0_neg hP]; omega

/-- the sum over a set described by a Boolean test is the executable sum -/
theorem sumOver_bool {n : Nat} {P : Nat → Prop} {b : Nat → Bool} {f : Nat → Int}
    (h : ∀ k, k < n → (P k ↔ b k = true)) :
    sumOver n P f = sumRange n fun k => if b k then f k else 0 :=
  sumRange_congr fun k hk => ite0_bool (h k hk)

/-! ### flow paths -/

theorem iterA_succ' (ds : Array Nat) : ∀ (m k : Nat), iterA ds (m+1) k = ds[iterA ds m k]!
  | 0, _ => rfl
  | m+1, k => by
    show iterA ds (m+1) ds[k]! = ds[iterA ds m ds[k]!]!
    exact iterA_succ' ds m ds[k]!

theorem iterA_pit (ds : Array Nat) {k : Nat} (h : ds[k]! = k) : ∀ m, iterA ds m k = k
  | 0 => rfl
  | m+1 => by
    show iterA ds m ds[k]! = k
    rw [h]; exact iterA_pit ds h m

theorem iterA_mem {ds : Array Nat} {seq : List Nat} (htopo : Topo ds seq) {k : Nat} (hk : k ∈ seq) :
    ∀ m, iterA ds m k ∈ seq
  | 0 => hk
  | m+1 => by rw [iterA_succ']; exact Topo.ds_mem htopo _ (iterA_mem htopo hk m)

/-- `j` lies on the flow path of `k` (the property's "`k`'s flow path passes through `j`") -/
def Up (ds : Array Nat) (j k : Nat) : Prop := ∃ m, iterA ds m k = j

/-- `j` lies on the flow path of `k` and every link walked from `k` to `j` passes flow (`ok`) -/
def UpG (ds : Array Nat) (ok : Nat → Bool) (j k : Nat) : Prop :=
  ∃ m, iterA ds m k = j ∧ ∀ t, t < m → ok (iterA ds t k) = true

theorem UpG.refl (ds : Array Nat) (ok : Nat → Bool) (j : Nat) : UpG ds ok j j :=
  ⟨0, rfl, fun _ h => absurd h (Nat.not_lt_zero _)⟩

theorem UpG.up {ds : Array Nat} {ok : Nat → Bool} {j k : Nat} (h : UpG ds ok j k) : Up ds j k :=
  let ⟨m, hm, _⟩ := h; ⟨m, hm⟩

/-- a cell whose link passes nothing on (pit, or guard false) is in no other cell's catchment -/
theorem UpG.of_inactive {ds : Array Nat} {ok : Nat → Bool} {i j : Nat}
    (hin : ¬ (ds[i]! ≠ i ∧ ok i = true)) (h : UpG ds ok j i) : j = i := by
  obtain ⟨m, hm, hok⟩ := h
  cases m with
  | zero => exact hm.symm
  | succ m =>
    have h0 : ok i = true := hok 0 (Nat.succ_pos m)
    have hp : ds[i]! = i := Classical.byContradiction fun hne => hin ⟨hne, h0⟩
    rw [iterA_pit ds hp] at hm; exact hm.symm

/-- one step: for `j ≠ i` with an active link at `i`, `j` is above `i` iff it is above `ds i` -/
theorem UpG.step_iff {ds : Array Nat} {ok : Nat → Bool} {i j : Nat} (hok : ok i = true) (hne : i ≠ j) :
    UpG ds ok j i ↔ UpG ds ok j ds[i]! := by
  constructor
  · rintro ⟨m, hm, ht⟩
    cases m with
    | zero => exact absurd hm hne
    | succ m => exact ⟨m, hm, fun t h => ht (t+1) (Nat.succ_lt_succ h)⟩
  · rintro ⟨m, hm, ht⟩
    refine ⟨m+1, hm, fun t h => ?_⟩
    cases t with
    | zero => exact hok
    | succ t => exact ht t (Nat.lt_of_succ_lt_succ h)

/-- extend a path by one active link at its downstream end -/
theorem UpG.snoc {ds : Array Nat} {ok : Nat → Bool} {i k : Nat} (hok : ok i = true)
    (h : UpG ds ok i k) : UpG ds ok ds[i]! k := by
  obtain ⟨m, hm, ht⟩ := h
  refine ⟨m+1, by rw [iterA_succ', hm], fun t h => ?_⟩
  by_cases htm : t < m
  · exact ht t htm
  · have : t = m := by omega
    subst this; rw [hm]; exact hok

theorem UpG.mem {ds : Array Nat} {ok : Nat → Bool} {seq : List Nat} (htopo : Topo ds seq) {j k : Nat}
    (hk : k ∈ seq) (h : UpG ds ok j k) : j ∈ seq := by
  obtain ⟨m, hm, _⟩ := h
  exact hm ▸ iterA_mem htopo hk m

/-- when every link passes flow, `UpG` is plain reachability -/
theorem UpG_iff_Up {ds : Array Nat} {ok : Nat → Bool} {seq : List Nat} (htopo : Topo ds seq)
    (hall : ∀ c ∈ seq, ok c = true) {j k : Nat} (hk : k ∈ seq) : UpG ds ok j k ↔ Up ds j k :=
  ⟨UpG.up, fun ⟨m, hm⟩ => ⟨m, hm, fun t _ => hall _ (iterA_mem htopo hk t)⟩⟩

/-! ### the guarded up-sweep -/

theorem stepUp_get (ds : Array Nat) (upd : Nat → Int → Int → Int) (i : Nat) (out : Array Int) (j : Nat) :
    (stepUp ds upd i out)[j]! =
      if ds[i]! ≠ i ∧ ds[i]! = j ∧ j < out.size then upd i out[j]! out[i]! else out[j]! := by
  unfold stepUp
  by_cases hp : ds[i]! = i
  · simp [hp]
  · rw [if_neg hp, get!_setIfInBounds]
    by_cases hj : ds[i]! = j
    · subst hj; simp [hp]
    · simp [hj]

theorem size_stepUp (ds : Array Nat) (upd : Nat → Int → Int → Int) (i : Nat) (out : Array Int) :
    (stepUp ds upd i out).size = out.size := by
  unfold stepUp; split <;> simp

theorem size_sweepUp (ds : Array Nat) (upd : Nat → Int → Int → Int) (seq : List Nat) (out : Array Int) :
    (sweepUp ds upd seq out).size = out.size := by
  induction seq with
  | nil => rfl
  | cons i rest ih =>
    show (stepUp ds upd i (sweepUp ds upd rest out)).size = out.size
    rw [size_stepUp, ih]

/-- **Invariant of the guarded up-sweep**, for every initial array: each cell ends with its initial
value plus the initial values of all *other* cells of `seq` whose flow path reaches it over links
that pass flow. -/
theorem sweepUp_add_inv (ds : Array Nat) (ok : Nat → Bool) (seq : List Nat) (htopo : Topo ds seq)
    (n : Nat) (hn : ∀ i ∈ seq, i < n) :
    ∀ (init : Array Int), (∀ i ∈ seq, i < init.size) → ∀ j,
      (sweepUp ds (updAdd ok) seq init)[j]! =
        init[j]! + sumOver n (fun k => k ∈ seq ∧ k ≠ j ∧ UpG ds ok j k) (fun k => init[k]!) := by
  induction htopo with
  | nil =>
    intro init _ j
    rw [sumOver_false (fun k _ h => by cases h.1)]
    simp [sweepUp]
  | @snoc pre i hpre hi hds ih =>
    intro init hb j
    have hn' : ∀ k ∈ pre, k < n := fun k hk => hn k (by simp [hk])
    have hin : i < n := hn i (by simp)
    rw [sweepUp_snoc]
    have hb' : ∀ k ∈ pre, k < (stepUp ds (updAdd ok) i init).size := fun k hk => by
      rw [size_stepUp]; exact hb k (by simp [hk])
    rw [ih hn' _ hb' j]
    -- nothing in `pre` has `i` on its path
    have hnotup : ∀ k ∈ pre, ∀ x, UpG ds ok x k → x ≠ i := fun k hk x hx hxi =>
      hi (hxi ▸ UpG.mem hpre hk hx)
    by_cases hact : ds[i]! ≠ i ∧ ok i = true
    · -- active link i → d
      obtain ⟨hne, hoki⟩ := hact
      have hdpre : ds[i]! ∈ pre := by
        rcases hds with h | h
        · exact absurd h hne
        · exact h
      have hdn : ds[i]! < n := hn' _ hdpre
      have hdsz : ds[i]! < init.size := hb _ (by simp [hdpre])
      have hget : ∀ x, (stepUp ds (updAdd ok) i init)[x]! =
          if ds[i]! = x then init[x]! + init[i]! else init[x]! := by
        intro x
        rw [stepUp_get]
        by_cases hx : ds[i]! = x
        · subst hx
          simp [hne, hdsz, updAdd, hoki]
        · simp [hx]
      -- left sum: point update at d
      have hL : sumOver n (fun k => k ∈ pre ∧ k ≠ j ∧ UpG ds ok j k)
            (fun k => (stepUp ds (updAdd ok) i init)[k]!) =
          sumOver n (fun k => k ∈ pre ∧ k ≠ j ∧ UpG ds ok j k) (fun k => init[k]!) +
            ite0 (ds[i]! ≠ j ∧ UpG ds ok j ds[i]!) init[i]! := by
        unfold sumOver
        rw [sumRange_update hdn (f := fun k => ite0 (k ∈ pre ∧ k ≠ j ∧ UpG ds ok j k) init[k]!)]
        · dsimp only
          by_cases hc : ds[i]! ≠ j ∧ UpG ds ok j ds[i]!
          · rw [ite0_pos hc, ite0_pos ⟨hdpre, hc⟩, ite0_pos ⟨hdpre, hc⟩, hget]; simp; omega
          · rw [ite0_neg hc, ite0_neg (fun h => hc h.2), ite0_neg (fun h => hc h.2)]; omega
        · intro k _ hkd
          dsimp only
          refine ite0_congr Iff.rfl (fun _ => ?_)
          rw [hget]; simp [Ne.symm hkd]
      -- right sum: the new point i
      have hR : sumOver n (fun k => k ∈ pre ++ [i] ∧ k ≠ j ∧ UpG ds ok j k) (fun k => init[k]!) =
          sumOver n (fun k => k ∈ pre ∧ k ≠ j ∧ UpG ds ok j k) (fun k => init[k]!) +
            ite0 (i ≠ j ∧ UpG ds ok j i) init[i]! := by
        rw [sumOver_insert hin (P := fun k => k ∈ pre ∧ k ≠ j ∧ UpG ds ok j k)
          (fun k _ hki => by simp [hki]) (fun h => hi h.1)]
        congr 1
        exact ite0_congr (by simp) (fun _ => rfl)
      rw [hL, hR, hget]
      by_cases hjd : ds[i]! = j
      · -- j = d
        have h1 : ¬ (ds[i]! ≠ j ∧ UpG ds ok j ds[i]!) := fun h => h.1 hjd
        have hij : i ≠ j := fun h => hne (by rw [hjd]; exact h.symm)
        have h2 : i ≠ j ∧ UpG ds ok j i := ⟨hij, (UpG.step_iff hoki hij).mpr (hjd ▸ UpG.refl ds ok _)⟩
        rw [ite0_neg h1, ite0_pos h2, if_pos hjd]; omega
      · rw [if_neg hjd]
        have : ite0 (ds[i]! ≠ j ∧ UpG ds ok j ds[i]!) init[i]! = ite0 (i ≠ j ∧ UpG ds ok j i) init[i]! := by
          refine ite0_congr ?_ (fun _ => rfl)
          constructor
          · rintro ⟨_, hup⟩
            have hij : i ≠ j := fun h => hnotup _ hdpre j hup h.symm
            exact ⟨hij, (UpG.step_iff hoki hij).mpr hup⟩
          · rintro ⟨hij, hup⟩
            exact ⟨hjd, (UpG.step_iff hoki hij).mp hup⟩
        rw [this]
    · -- inactive: the array is unchanged (as far as reads go) and i is in no other catchment
      have hget : ∀ x : Nat, (stepUp ds (updAdd ok) i init)[x]! = init[x]! := by
        intro x
        rw [stepUp_get]
        split
        · rename_i h
          have : ok i = false := by
            cases hb : ok i
            · rfl
            · exact absurd ⟨h.1, hb⟩ hact
          simp [updAdd, this]
        · rfl
      rw [hget]
      congr 1
      refine sumOver_congr (fun k _ => ?_) (fun k _ _ => hget k)
      constructor
      · rintro ⟨h1, h2, h3⟩; exact ⟨by simp [h1], h2, h3⟩
      · rintro ⟨h1, h2, h3⟩
        refine ⟨?_, h2, h3⟩
        simp only [List.mem_append, List.mem_singleton] at h1
        rcases h1 with h1 | h1
        · exact h1
        · subst h1
          exact absurd (UpG.of_inactive hact h3).symm h2


/-! ### corollaries of the invariant -/

theorem sweepUp_add_sum (ds : Array Nat) (ok : Nat → Bool) (seq : List Nat) (htopo : Topo ds seq)
    (n : Nat) (hn : ∀ i ∈ seq, i < n) (init : Array Int) (hb : ∀ i ∈ seq, i < init.size)
    (j : Nat) (hj : j ∈ seq) :
    (sweepUp ds (updAdd ok) seq init)[j]! =
      sumOver n (fun k => k ∈ seq ∧ UpG ds ok j k) (fun k => init[k]!) := by
  rw [sweepUp_add_inv ds ok seq htopo n hn init hb j,
    sumOver_insert (hn j hj) (P := fun k => k ∈ seq ∧ k ≠ j ∧ UpG ds ok j k)
      (Q := fun k => k ∈ seq ∧ UpG ds ok j k) (fun k _ hk => by simp [hk]) (fun h => h.2.1 rfl),
    ite0_pos ⟨hj, UpG.refl ds ok j⟩]
  omega

theorem sweepUp_add_untouched (ds : Array Nat) (ok : Nat → Bool) (seq : List Nat) (htopo : Topo ds seq)
    (init : Array Int) (hb : ∀ i ∈ seq, i < init.size) (j : Nat) (hj : j ∉ seq) :
    (sweepUp ds (updAdd ok) seq init)[j]! = init[j]! := by
  rw [sweepUp_add_inv ds ok seq htopo init.size hb init hb j,
    sumOver_false (fun k _ h => hj (UpG.mem htopo h.1 h.2.2))]
  omega

theorem stepUp_add_active {ds : Array Nat} {ok : Nat → Bool} {i : Nat} {init : Array Int}
    (hne : ds[i]! ≠ i) (hok : ok i = true) (hsz : ds[i]! < init.size) (x : Nat) :
    (stepUp ds (updAdd ok) i init)[x]! = if ds[i]! = x then init[x]! + init[i]! else init[x]! := by
  rw [stepUp_get]
  by_cases hx : ds[i]! = x
  · subst hx; simp [hne, hsz, updAdd, hok]
  · simp [hx]

theorem stepUp_add_inactive {ds : Array Nat} {ok : Nat → Bool} {i : Nat} {init : Array Int}
    (hact : ¬ (ds[i]! ≠ i ∧ ok i = true)) (x : Nat) :
    (stepUp ds (updAdd ok) i init)[x]! = init[x]! := by
  rw [stepUp_get]
  split
  · rename_i h
    have : ok i = false := by
      cases hb : ok i
      · rfl
      · exact absurd ⟨h.1, hb⟩ hact
    simp [updAdd, this]
  · rfl

theorem sumOver_update {n : Nat} {P : Nat → Prop} {f g : Nat → Int} {d : Nat} (hd : d < n)
    (h : ∀ k, k < n → k ≠ d → g k = f k) :
    sumOver n P g = sumOver n P f + ite0 (P d) (g d - f d) := by
  unfold sumOver
  rw [sumRange_update hd (f := fun k => ite0 (P k) (f k)) (g := fun k => ite0 (P k) (g k))
    (fun k hk hne => by rw [h k hk hne])]
  by_cases hp : P d
  · simp only [ite0_pos hp]
  · simp only [ite0_neg hp]; omega

/-- **mass conservation** of the guarded up-sweep: the totals at the cells that pass nothing on
(pits and cut links) add up to the total of the initial values over `seq`. -/
theorem sweepUp_add_mass (ds : Array Nat) (ok : Nat → Bool) (seq : List Nat) (htopo : Topo ds seq)
    (n : Nat) (hn : ∀ i ∈ seq, i < n) :
    ∀ (init : Array Int), (∀ i ∈ seq, i < init.size) →
      sumOver n (fun p => p ∈ seq ∧ ¬ (ds[p]! ≠ p ∧ ok p = true))
          (fun p => (sweepUp ds (updAdd ok) seq init)[p]!) =
        sumOver n (fun k => k ∈ seq) (fun k => init[k]!) := by
  induction htopo with
  | nil =>
    intro init _
    rw [sumOver_false (fun k _ h => by cases h.1), sumOver_false (fun k _ h => by cases h)]
  | @snoc pre i hpre hi hds ih =>
    intro init hb
    have hn' : ∀ k ∈ pre, k < n := fun k hk => hn k (by simp [hk])
    have hin : i < n := hn i (by simp)
    have hb' : ∀ k ∈ pre, k < (stepUp ds (updAdd ok) i init).size := fun k hk => by
      rw [size_stepUp]; exact hb k (by simp [hk])
    have hR : sumOver n (fun k => k ∈ pre ++ [i]) (fun k => init[k]!) =
        sumOver n (fun k => k ∈ pre) (fun k => init[k]!) + init[i]! := by
      rw [sumOver_insert hin (P := fun k => k ∈ pre) (fun k _ hki => by simp [hki]) hi,
        ite0_pos (by simp)]
    rw [sweepUp_snoc, hR]
    have ih' := ih hn' _ hb'
    by_cases hact : ds[i]! ≠ i ∧ ok i = true
    · obtain ⟨hne, hoki⟩ := hact
      have hdpre : ds[i]! ∈ pre := by
        rcases hds with h | h
        · exact absurd h hne
        · exact h
      have hdsz : ds[i]! < init.size := hb _ (by simp [hdpre])
      have hL : sumOver n (fun p => p ∈ pre ++ [i] ∧ ¬ (ds[p]! ≠ p ∧ ok p = true))
            (fun p => (sweepUp ds (updAdd ok) pre (stepUp ds (updAdd ok) i init))[p]!) =
          sumOver n (fun p => p ∈ pre ∧ ¬ (ds[p]! ≠ p ∧ ok p = true))
            (fun p => (sweepUp ds (updAdd ok) pre (stepUp ds (updAdd ok) i init))[p]!) := by
        refine sumOver_congr (fun k _ => ?_) (fun _ _ _ => rfl)
        constructor
        · rintro ⟨h1, h2⟩
          simp only [List.mem_append, List.mem_singleton] at h1
          rcases h1 with h1 | h1
          · exact ⟨h1, h2⟩
          · subst h1; exact absurd ⟨hne, hoki⟩ h2
        · rintro ⟨h1, h2⟩; exact ⟨by simp [h1], h2⟩
      rw [hL, ih']
      rw [sumOver_update (hn' _ hdpre) (f := fun k => init[k]!)
        (g := fun k => (stepUp ds (updAdd ok) i init)[k]!)
        (fun k _ hkd => by rw [stepUp_add_active hne hoki hdsz]; simp [Ne.symm hkd])]
      rw [ite0_pos hdpre, stepUp_add_active hne hoki hdsz]
      simp only [if_true]
      omega
    · have hfin : (sweepUp ds (updAdd ok) pre (stepUp ds (updAdd ok) i init))[i]! = init[i]! := by
        rw [sweepUp_add_untouched ds ok pre hpre _ hb' i hi, stepUp_add_inactive hact]
      rw [sumOver_insert hin (P := fun p => p ∈ pre ∧ ¬ (ds[p]! ≠ p ∧ ok p = true))
        (fun k _ hki => by simp [hki]) (fun h => hi h.1)]
      rw [ite0_pos ⟨by simp, hact⟩, hfin, ih']
      congr 1
      exact sumOver_congr (fun _ _ => Iff.rfl) (fun k _ _ => stepUp_add_inactive hact k)

/-- **monotone downstream** across a link that passes flow, for summands that are non-negative on
the downstream cell's catchment -/
theorem sweepUp_add_mono (ds : Array Nat) (ok : Nat → Bool) (seq : List Nat) (htopo : Topo ds seq)
    (init : Array Int) (hb : ∀ i ∈ seq, i < init.size) (i : Nat) (hi : i ∈ seq) (hok : ok i = true)
    (h0 : ∀ k ∈ seq, UpG ds ok ds[i]! k → 0 ≤ init[k]!) :
    (sweepUp ds (updAdd ok) seq init)[i]! ≤ (sweepUp ds (updAdd ok) seq init)[ds[i]!]! := by
  rw [sweepUp_add_sum ds ok seq htopo init.size hb init hb i hi,
    sweepUp_add_sum ds ok seq htopo init.size hb init hb _ (Topo.ds_mem htopo i hi)]
  exact sumOver_mono (fun k _ h => ⟨h.1, UpG.snoc hok h.2⟩) (fun k _ h => h0 k h.1 h.2)

/-! ### the Boolean walk decides `UpG` on a downstream-first order -/

theorem reachesG_sound (ds : Array Nat) (ok : Nat → Bool) :
    ∀ (fuel j k : Nat), reachesG ds ok fuel j k = true → UpG ds ok j k
  | 0, j, k, h => by
    have : k = j := by simpa [reachesG] using h
    exact this ▸ UpG.refl ds ok k
  | fuel+1, j, k, h => by
    simp only [reachesG, Bool.or_eq_true, beq_iff_eq, Bool.and_eq_true, bne_iff_ne, ne_eq] at h
    rcases h with h | ⟨⟨_, hok⟩, hr⟩
    · exact h ▸ UpG.refl ds ok k
    · by_cases hkj : k = j
      · exact hkj ▸ UpG.refl ds ok k
      · exact (UpG.step_iff hok hkj).mpr (reachesG_sound ds ok fuel j _ hr)

theorem reachesG_mono (ds : Array Nat) (ok : Nat → Bool) :
    ∀ (fuel j k : Nat), reachesG ds ok fuel j k = true → reachesG ds ok (fuel+1) j k = true
  | 0, j, k, h => by
    have : k = j := by simpa [reachesG] using h
    simp [reachesG, this]
  | fuel+1, j, k, h => by
    simp only [reachesG, Bool.or_eq_true, beq_iff_eq, Bool.and_eq_true, bne_iff_ne, ne_eq] at h
    rcases h with h | ⟨⟨hne, hok⟩, hr⟩
    · simp [reachesG, h]
    · have := reachesG_mono ds ok fuel j _ hr
      rw [reachesG]
      simp only [Bool.or_eq_true, beq_iff_eq, Bool.and_eq_true, bne_iff_ne, ne_eq]
      exact Or.inr ⟨⟨hne, hok⟩, this⟩

theorem reachesG_mono_le (ds : Array Nat) (ok : Nat → Bool) {f g : Nat} (hfg : f ≤ g) (j k : Nat)
    (h : reachesG ds ok f j k = true) : reachesG ds ok g j k = true := by
  induction hfg with
  | refl => exact h
  | step _ ih => exact reachesG_mono ds ok _ j k ih

theorem reachesG_complete (ds : Array Nat) (ok : Nat → Bool) (seq : List Nat) (htopo : Topo ds seq) :
    ∀ k ∈ seq, ∀ j, UpG ds ok j k → reachesG ds ok seq.length j k = true := by
  induction htopo with
  | nil => intro k hk; cases hk
  | @snoc pre i hpre hi hds ih =>
    intro k hk j hup
    simp only [List.mem_append, List.mem_singleton] at hk
    have hlen : (pre ++ [i]).length = pre.length + 1 := by simp
    rw [hlen]
    rcases hk with hk | hk
    · exact reachesG_mono ds ok _ j k (ih k hk j hup)
    · subst hk
      by_cases hkj : k = j
      · simp [reachesG, hkj]
      · by_cases hact : ds[k]! ≠ k ∧ ok k = true
        · have hd : ds[k]! ∈ pre := by
            rcases hds with h | h
            · exact absurd h hact.1
            · exact h
          have := ih _ hd j ((UpG.step_iff hact.2 hkj).mp hup)
          rw [reachesG]
          simp only [Bool.or_eq_true, beq_iff_eq, Bool.and_eq_true, bne_iff_ne, ne_eq]
          exact Or.inr ⟨hact, this⟩
        · exact absurd (UpG.of_inactive hact hup).symm hkj

theorem reachesG_iff (ds : Array Nat) (ok : Nat → Bool) (seq : List Nat) (htopo : Topo ds seq)
    {fuel : Nat} (hf : seq.length ≤ fuel) {j k : Nat} (hk : k ∈ seq) :
    UpG ds ok j k ↔ reachesG ds ok fuel j k = true :=
  ⟨fun h => reachesG_mono_le ds ok hf j k (reachesG_complete ds ok seq htopo k hk j h),
   reachesG_sound ds ok fuel j k⟩

/-! ### paths that meet no nodata cell -/

/-- `j` lies on the flow path of `k` and, unless `j = k`, no cell from `k` to `j` (both included)
holds the nodata value -/
def UpNd (ds : Array Nat) (data : Array Int) (nodata : Int) (j k : Nat) : Prop :=
  ∃ m, iterA ds m k = j ∧ (m = 0 ∨ ∀ t, t ≤ m → data[iterA ds t k]! ≠ nodata)

theorem UpG_linkOk_iff (ds : Array Nat) (data : Array Int) (nodata : Int) (j k : Nat) :
    UpG ds (linkOk ds data nodata) j k ↔ UpNd ds data nodata j k := by
  have hok : ∀ c, linkOk ds data nodata c = true ↔ (data[ds[c]!]! ≠ nodata ∧ data[c]! ≠ nodata) := by
    intro c; simp [linkOk]
  constructor
  · rintro ⟨m, hm, ht⟩
    refine ⟨m, hm, ?_⟩
    cases m with
    | zero => exact Or.inl rfl
    | succ m =>
      refine Or.inr fun t htm => ?_
      by_cases h : t < m + 1
      · exact ((hok _).mp (ht t h)).2
      · have : t = m + 1 := by omega
        subst this
        rw [iterA_succ']
        exact ((hok _).mp (ht m (Nat.lt_succ_self m))).1
  · rintro ⟨m, hm, h⟩
    refine ⟨m, hm, fun t htm => ?_⟩
    rcases h with h | h
    · omega
    · rw [hok, ← iterA_succ']
      exact ⟨h (t+1) htm, h t (Nat.le_of_lt htm)⟩

/-! ### the guarded down-sweep -/

theorem sumRange_succ_front (n : Nat) (f : Nat → Int) :
    sumRange (n+1) f = f 0 + sumRange n (fun t => f (t+1)) := by
  induction n with
  | zero => simp [sumRange]
  | succ n ih =>
    rw [sumRange, ih]
    simp only [sumRange]
    omega

/-- recurrence of `accuflux_ds` -/
theorem sweepDown_add_rec (ds : Array Nat) (ok : Nat → Bool) (seq : List Nat) (htopo : Topo ds seq)
    (init : Array Int) (hb : ∀ i ∈ seq, i < init.size) (i : Nat) (hi : i ∈ seq) :
    (sweepDown ds (gAddDown ds ok) seq init)[i]! =
      if ds[i]! ≠ i ∧ ok i = true then init[i]! + (sweepDown ds (gAddDown ds ok) seq init)[ds[i]!]!
      else init[i]! := by
  rw [(sweepDown_rec ds (gAddDown ds ok) init seq htopo hb).1 i hi]
  unfold gAddDown
  by_cases hp : ds[i]! = i
  · simp [hp]
  · simp [hp]

/-- `accuflux_ds` = sum of the field along the flow path up to (and including) the first cell that
passes nothing on -/
theorem sweepDown_add_path (ds : Array Nat) (ok : Nat → Bool) (seq : List Nat) (htopo : Topo ds seq)
    (init : Array Int) (hb : ∀ i ∈ seq, i < init.size) :
    ∀ (m i : Nat), i ∈ seq →
      (∀ t, t < m → ds[iterA ds t i]! ≠ iterA ds t i ∧ ok (iterA ds t i) = true) →
      ¬ (ds[iterA ds m i]! ≠ iterA ds m i ∧ ok (iterA ds m i) = true) →
      (sweepDown ds (gAddDown ds ok) seq init)[i]! = sumRange (m+1) (fun t => init[iterA ds t i]!) := by
  intro m
  induction m with
  | zero =>
    intro i hi _ hend
    rw [sweepDown_add_rec ds ok seq htopo init hb i hi]
    simp only [iterA] at hend
    rw [if_neg hend]
    simp [sumRange, iterA]
  | succ m ih =>
    intro i hi hpre hend
    rw [sweepDown_add_rec ds ok seq htopo init hb i hi]
    have h0 := hpre 0 (Nat.succ_pos _)
    simp only [iterA] at h0
    rw [if_pos h0, sumRange_succ_front]
    have := ih ds[i]! (Topo.ds_mem htopo i hi)
      (fun t ht => by simpa [iterA] using hpre (t+1) (Nat.succ_lt_succ ht))
      (by simpa [iterA] using hend)
    rw [this]
    simp [iterA]

theorem sweepDown_add_eq_pathSum (ds : Array Nat) (ok : Nat → Bool) (seq : List Nat) (htopo : Topo ds seq)
    (init : Array Int) (hb : ∀ i ∈ seq, i < init.size) :
    ∀ (fuel i : Nat) (v : Int), i ∈ seq → pathSumG ds ok init fuel i = some v →
      (sweepDown ds (gAddDown ds ok) seq init)[i]! = v := by
  intro fuel
  induction fuel with
  | zero => intro i v _ h; simp [pathSumG] at h
  | succ f ih =>
    intro i v hi h
    rw [sweepDown_add_rec ds ok seq htopo init hb i hi]
    simp only [pathSumG] at h
    by_cases hact : ds[i]! ≠ i ∧ ok i = true
    · rw [if_pos hact] at h ⊢
      cases hr : pathSumG ds ok init f ds[i]! with
      | none => simp [hr] at h
      | some w =>
        simp only [hr, Option.map_some, Option.some.injEq] at h
        rw [ih _ w (Topo.ds_mem htopo i hi) hr]; exact h
    · rw [if_neg hact] at h ⊢
      exact Option.some.inj h

/-! ### small facts about the C04 models used by `Props/C04.lean` -/

/-- without nodata cells every link of `seq` passes flow -/
theorem linkOk_of_no_nodata {ds : Array Nat} {seq : List Nat} (htopo : Topo ds seq) {data : Array Int}
    {nodata : Int} (hnd : ∀ k ∈ seq, data[k]! ≠ nodata) : ∀ c ∈ seq, linkOk ds data nodata c = true := by
  intro c hc
  simp [linkOk, hnd c hc, hnd _ (Topo.ds_mem htopo c hc)]

theorem coversValid_spec {ds : Array Nat} {seq : List Nat} (h : coversValid ds seq = true) :
    (∀ k, k < ds.size → (isValid ds k = true ↔ k ∈ seq)) ∧ (∀ k ∈ seq, k < ds.size) := by
  simp only [coversValid, Bool.and_eq_true, List.all_eq_true, List.mem_range, beq_iff_eq,
    decide_eq_true_eq] at h
  refine ⟨fun k hk => ?_, h.2⟩
  rw [h.1 k hk]; simp

theorem get!_maskInvalid (ds : Array Nat) (nodata : Int) (a : Array Int) (i : Nat) (hi : i < a.size) :
    (maskInvalid ds nodata a)[i]! = if ds[i]! = ds.size then nodata else a[i]! := by
  simp [maskInvalid, getElem!_def, hi]

theorem size_accuflux (ds : Array Nat) (seq : List Nat) (data : Array Int) (nodata : Int) :
    (accuflux ds seq data nodata).size = data.size := size_sweepUp ..

/-- initial array of the `streams.upstream_area` kernel -/
theorem get!_foldl_set (f : Nat → Int) : ∀ (seq : List Nat) (a : Array Int) (k : Nat),
    (seq.foldl (fun a idx => a.setIfInBounds idx (f idx)) a)[k]! =
      if k ∈ seq ∧ k < a.size then f k else a[k]!
  | [], a, k => by simp
  | i :: rest, a, k => by
    rw [List.foldl_cons, get!_foldl_set f rest, Array.size_setIfInBounds, get!_setIfInBounds]
    by_cases hk : k < a.size
    · by_cases hr : k ∈ rest
      · simp [hr, hk]
      · by_cases hik : i = k
        · subst hik; simp [hr, hk]
        · have : ¬ k = i := fun h => hik h.symm
          simp [hr, hik, this]
    · have : ¬ (i = k ∧ i < a.size) := fun h => hk (h.1 ▸ h.2)
      simp [hk, this]

/-- on a downstream-first order every cell reaches a pit after finitely many non-pit steps -/
theorem reaches_pit {ds : Array Nat} {seq : List Nat} (htopo : Topo ds seq) :
    ∀ i ∈ seq, ∃ m, ds[iterA ds m i]! = iterA ds m i ∧ ∀ t, t < m → ds[iterA ds t i]! ≠ iterA ds t i := by
  refine htopo.induction _ (fun i _ hd => ?_)
  by_cases hp : ds[i]! = i
  · exact ⟨0, hp, fun t ht => absurd ht (Nat.not_lt_zero t)⟩
  · obtain ⟨m, hm, hlt⟩ := (hd hp).2
    refine ⟨m+1, hm, fun t ht => ?_⟩
    cases t with
    | zero => exact hp
    | succ t => exact hlt t (Nat.lt_of_succ_lt_succ ht)

end Pf
