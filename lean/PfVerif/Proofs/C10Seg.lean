import PfVerif.Model.C10
/-! Helper lemmas for C10: river-segment walks, outlet pixels (core Lean only). -/
namespace Pf.C10
open Pf

/-! ### `Option`-valued `mapM` entry by entry -/

theorem mapM_option_get {α β : Type} (f : α → Option β) :
    ∀ (l : List α) (r : List β), l.mapM f = some r →
      r.length = l.length ∧ ∀ (j : Nat) (a : α), l[j]? = some a → ∃ b, r[j]? = some b ∧ f a = some b := by
  intro l
  induction l with
  | nil =>
    intro r h
    simp at h
    subst h
    simp
  | cons x t ih =>
    intro r h
    rw [List.mapM_cons] at h
    cases hx : f x with
    | none => simp [hx] at h
    | some b =>
      cases ht : t.mapM f with
      | none => simp [hx, ht] at h
      | some bs =>
        simp [hx, ht] at h
        subst h
        obtain ⟨hl, hg⟩ := ih bs ht
        refine ⟨by simp [hl], ?_⟩
        intro j a hj
        cases j with
        | zero =>
          simp at hj
          subst hj
          exact ⟨b, by simp, hx⟩
        | succ j =>
          simp only [List.getElem?_cons_succ] at hj ⊢
          exact hg j a hj

/-! ### exclusive walk (`segment_average`, `segment_median`, `segment_slope`) -/

theorem iterA_succ (nxt : Array Nat) (j s : Nat) : iterA nxt (j + 1) s = iterA nxt j nxt[s]! := rfl

theorem range_map_iter_succ (nxt : Array Nat) (K s : Nat) :
    (List.range (K + 1 + 1)).map (fun j => iterA nxt j s) =
      s :: (List.range (K + 1)).map (fun j => iterA nxt j nxt[s]!) := by
  rw [List.range_succ_eq_map (n := K + 1)]
  simp [iterA, List.map_map, Function.comp_def]

/-- the list built by the exclusive walk is the flow path `s, nxt s, nxt² s, …` cut at the least index
whose cell satisfies the stop test -/
theorem exclWalk_spec (nxt : Array Nat) (isOut : Array Bool) (mask : Option (Array Bool)) :
    ∀ (fuel s : Nat) (cells : List Nat), exclWalk nxt isOut mask fuel s = some cells →
      ∃ K, K < fuel ∧ cells = (List.range (K + 1)).map (fun j => iterA nxt j s) ∧
        (∀ j, j < K → stopExcl nxt isOut mask (iterA nxt j s) = false) ∧
        stopExcl nxt isOut mask (iterA nxt K s) = true := by
  intro fuel
  induction fuel with
  | zero => intro s cells h; simp [exclWalk] at h
  | succ f ih =>
    intro s cells h
    simp only [exclWalk] at h
    by_cases hs : stopExcl nxt isOut mask s = true
    · simp only [hs, if_true, Option.some.injEq] at h
      exact ⟨0, by omega, by simp [← h, iterA], by intro j hj; omega, by simpa [iterA] using hs⟩
    · simp only [hs, Bool.false_eq_true, if_false, Option.map_eq_some_iff] at h
      obtain ⟨cells', hw, hc⟩ := h
      obtain ⟨K, hK, hcells, hpre, hstop⟩ := ih _ _ hw
      refine ⟨K + 1, by omega, ?_, ?_, ?_⟩
      · rw [← hc, hcells, range_map_iter_succ]
      · intro j hj
        cases j with
        | zero => simpa [iterA] using hs
        | succ j => rw [iterA_succ]; exact hpre j (by omega)
      · rw [iterA_succ]; exact hstop

/-- conversely the walk returns that list whenever a stop index exists within the fuel -/
theorem exclWalk_complete (nxt : Array Nat) (isOut : Array Bool) (mask : Option (Array Bool)) :
    ∀ (K fuel s : Nat), K < fuel →
      (∀ j, j < K → stopExcl nxt isOut mask (iterA nxt j s) = false) →
      stopExcl nxt isOut mask (iterA nxt K s) = true →
      exclWalk nxt isOut mask fuel s = some ((List.range (K + 1)).map (fun j => iterA nxt j s)) := by
  intro K
  induction K with
  | zero =>
    intro fuel s hf _ hstop
    cases fuel with
    | zero => omega
    | succ f =>
      have : stopExcl nxt isOut mask s = true := by simpa [iterA] using hstop
      simp [exclWalk, this, iterA]
  | succ K ih =>
    intro fuel s hf hpre hstop
    cases fuel with
    | zero => omega
    | succ f =>
      have h0 : stopExcl nxt isOut mask s = false := by simpa [iterA] using hpre 0 (by omega)
      have := ih f nxt[s]! (by omega) (fun j hj => by simpa [iterA_succ] using hpre (j + 1) (by omega))
        (by simpa [iterA_succ] using hstop)
      simp only [exclWalk, h0, Bool.false_eq_true, if_false, this, Option.map_some]
      rw [range_map_iter_succ]

theorem leastIdx_some {bound : Nat} {p : Nat → Bool} {K : Nat} (h : leastIdx bound p = some K) :
    p K = true ∧ K ≤ bound ∧ ∀ j, j < K → p j = false := by
  unfold leastIdx at h
  rw [List.find?_range_eq_some] at h
  obtain ⟨h1, h2, h3⟩ := h
  refine ⟨h1, by simp at h2; omega, fun j hj => ?_⟩
  have := h3 j hj
  simpa using this

/-- the declarative segment (least stop index, found by search) is what the walk returns -/
theorem segExclSpec_eq_walk (nxt : Array Nat) (isOut : Array Bool) (mask : Option (Array Bool))
    (s : Nat) (cells : List Nat) (h : segExclSpec nxt isOut mask s = some cells) (fuel : Nat)
    (hf : nxt.size < fuel) : exclWalk nxt isOut mask fuel s = some cells := by
  simp only [segExclSpec, Option.map_eq_some_iff] at h
  obtain ⟨K, hK, hc⟩ := h
  obtain ⟨h1, h2, h3⟩ := leastIdx_some hK
  rw [← hc]
  exact exclWalk_complete nxt isOut mask K fuel s (by omega) h3 h1

/-! ### inclusive walk (`segment_length`) -/

theorem stopInclAt_succ (nxt : Array Nat) (isOut : Array Bool) (mask : Option (Array Bool)) (s j : Nat)
    (hno : isOut[nxt[s]!]! = false) :
    stopInclAt nxt isOut mask s (j + 1) = stopInclAt nxt isOut mask nxt[s]! j := by
  simp only [stopInclAt, iterA_succ]
  cases j with
  | zero => simp [iterA, hno]
  | succ j => simp

/-- the cell returned by the inclusive walk is `nxtᴷ s` for the least `K` at which the walk must stop:
the cell is the next outlet pixel (`K ≥ 1`) or has no admissible next cell -/
theorem lenWalk_spec (nxt : Array Nat) (isOut : Array Bool) (mask : Option (Array Bool)) :
    ∀ (fuel s e : Nat), lenWalk nxt isOut mask fuel s = some e →
      ∃ K, K ≤ fuel ∧ e = iterA nxt K s ∧
        (∀ j, j < K → stopInclAt nxt isOut mask s j = false) ∧
        stopInclAt nxt isOut mask s K = true := by
  intro fuel
  induction fuel with
  | zero => intro s e h; simp [lenWalk] at h
  | succ f ih =>
    intro s e h
    simp only [lenWalk] at h
    by_cases hb : blocked nxt mask s = true
    · simp only [hb, if_true, Option.some.injEq] at h
      exact ⟨0, by omega, by simp [← h, iterA], by intro j hj; omega, by simp [stopInclAt, iterA, hb]⟩
    · have hb' : blocked nxt mask s = false := by simpa using hb
      simp only [hb', Bool.false_eq_true, if_false] at h
      by_cases ho : isOut[nxt[s]!]! = true
      · simp only [ho, if_true, Option.some.injEq] at h
        refine ⟨1, by omega, by simp [← h, iterA], ?_, by simp [stopInclAt, iterA, ho]⟩
        intro j hj
        have : j = 0 := by omega
        subst this
        simp [stopInclAt, iterA, hb']
      · have ho' : isOut[nxt[s]!]! = false := by simpa using ho
        simp only [ho', Bool.false_eq_true, if_false] at h
        obtain ⟨K, hK, he, hpre, hstop⟩ := ih _ _ h
        refine ⟨K + 1, by omega, by rw [he, iterA_succ], ?_, ?_⟩
        · intro j hj
          cases j with
          | zero => simp [stopInclAt, iterA, hb']
          | succ j => rw [stopInclAt_succ _ _ _ _ _ ho']; exact hpre j (by omega)
        · rw [stopInclAt_succ _ _ _ _ _ ho']; exact hstop

theorem lenWalk_complete (nxt : Array Nat) (isOut : Array Bool) (mask : Option (Array Bool)) :
    ∀ (K fuel s : Nat), K < fuel →
      (∀ j, j < K → stopInclAt nxt isOut mask s j = false) →
      stopInclAt nxt isOut mask s K = true →
      lenWalk nxt isOut mask fuel s = some (iterA nxt K s) := by
  intro K
  induction K with
  | zero =>
    intro fuel s hf _ hstop
    cases fuel with
    | zero => omega
    | succ f =>
      have : blocked nxt mask s = true := by simpa [stopInclAt, iterA] using hstop
      simp [lenWalk, this, iterA]
  | succ K ih =>
    intro fuel s hf hpre hstop
    cases fuel with
    | zero => omega
    | succ f =>
      have h0 : blocked nxt mask s = false := by simpa [stopInclAt, iterA] using hpre 0 (by omega)
      simp only [lenWalk, h0, Bool.false_eq_true, if_false]
      by_cases ho : isOut[nxt[s]!]! = true
      · -- then K must be 0 (the walk stops at step 1)
        cases K with
        | zero => simp [ho, iterA]
        | succ K =>
          have := hpre 1 (by omega)
          simp [stopInclAt, iterA, ho] at this
      · have ho' : isOut[nxt[s]!]! = false := by simpa using ho
        simp only [ho', Bool.false_eq_true, if_false]
        rw [iterA_succ]
        apply ih f nxt[s]! (by omega)
        · intro j hj
          rw [← stopInclAt_succ _ _ _ _ _ ho']; exact hpre (j + 1) (by omega)
        · rw [← stopInclAt_succ _ _ _ _ _ ho']; exact hstop

theorem segInclEndSpec_eq_walk (nxt : Array Nat) (isOut : Array Bool) (mask : Option (Array Bool))
    (s e : Nat) (h : segInclEndSpec nxt isOut mask s = some e) (fuel : Nat)
    (hf : nxt.size < fuel) : lenWalk nxt isOut mask fuel s = some e := by
  simp only [segInclEndSpec, Option.map_eq_some_iff] at h
  obtain ⟨K, hK, hc⟩ := h
  obtain ⟨h1, h2, h3⟩ := leastIdx_some hK
  rw [← hc]
  exact lenWalk_complete nxt isOut mask K fuel s (by omega) h3 h1

/-! ### termination of the downstream walks on a loop-free network -/

theorem reaches_pit_within {ds : Array Nat} {seq : List Nat} (htopo : Topo ds seq) :
    ∀ i ∈ seq, ∃ K, K < seq.length ∧ ds[iterA ds K i]! = iterA ds K i := by
  induction htopo with
  | nil => intro i hi; cases hi
  | @snoc pre i _ hi hds ih =>
    intro j hj
    simp only [List.mem_append, List.mem_singleton] at hj
    rcases hj with hj | hj
    · obtain ⟨K, hK, hp⟩ := ih j hj
      exact ⟨K, by simp; omega, hp⟩
    · subst hj
      rcases hds with hd | hd
      · exact ⟨0, by simp, by simpa [iterA] using hd⟩
      · obtain ⟨K, hK, hp⟩ := ih _ hd
        exact ⟨K + 1, by simp; omega, by simpa [iterA] using hp⟩

theorem exists_least (p : Nat → Bool) (K : Nat) (h : p K = true) :
    ∃ K0, K0 ≤ K ∧ p K0 = true ∧ ∀ j, j < K0 → p j = false := by
  cases hl : leastIdx K p with
  | none =>
    unfold leastIdx at hl
    rw [List.find?_range_eq_none] at hl
    have := hl K (by omega)
    simp [h] at this
  | some K0 =>
    obtain ⟨h1, h2, h3⟩ := leastIdx_some hl
    exact ⟨K0, h2, h1, h3⟩

theorem seq_length_le {ds : Array Nat} {seq : List Nat} (htopo : Topo ds seq)
    (hb : ∀ i ∈ seq, i < ds.size) : seq.length ≤ ds.size := by
  have := List.Nodup.length_le_of_subset htopo.nodup (l₂ := List.range ds.size)
    (fun x hx => by simpa using hb x hx)
  simpa using this

/-! ### `fixed_length_slope` walks -/

theorem flsDown_spec (ds : Array Nat) (distnc : Array Int) (mask : Option (Array Bool)) (x0 : Int) :
    ∀ (fuel s d : Nat), flsDown ds distnc mask x0 fuel s = some d →
      ∃ K, d = iterA ds K s ∧
        (∀ j, j < K → distnc[iterA ds j s]! > x0 ∧ ds[iterA ds j s]! ≠ iterA ds j s ∧
          ds[iterA ds j s]! ≠ ds.size ∧ maskAt mask (iterA ds j s) = true) ∧
        (distnc[d]! ≤ x0 ∨ ds[d]! = d ∨ ds[d]! = ds.size ∨ maskAt mask d = false) := by
  intro fuel
  induction fuel with
  | zero => intro s d h; simp [flsDown] at h
  | succ f ih =>
    intro s d h
    simp only [flsDown] at h
    by_cases h1 : distnc[s]! > x0
    · rw [if_pos h1] at h
      by_cases h2 : ds[s]! = s ∨ ds[s]! = ds.size ∨ maskAt mask s = false
      · rw [if_pos h2] at h
        have : s = d := Option.some.inj h
        subst this
        exact ⟨0, rfl, fun j hj => by omega, Or.inr h2⟩
      · rw [if_neg h2] at h
        have h2a : ds[s]! ≠ s := fun hh => h2 (Or.inl hh)
        have h2c : ds[s]! ≠ ds.size := fun hh => h2 (Or.inr (Or.inl hh))
        have h2b : maskAt mask s = true := by
          cases hm : maskAt mask s with
          | true => rfl
          | false => exact absurd (Or.inr (Or.inr hm)) h2
        obtain ⟨K, hd, hpre, hend⟩ := ih _ _ h
        refine ⟨K + 1, by rw [hd]; rfl, ?_, hend⟩
        intro j hj
        cases j with
        | zero => exact ⟨by simpa [iterA] using h1, by simpa [iterA] using h2a, by simpa [iterA] using h2c,
            by simpa [iterA] using h2b⟩
        | succ j => exact hpre j (by omega)
    · rw [if_neg h1] at h
      have : s = d := Option.some.inj h
      subst this
      exact ⟨0, rfl, fun j hj => by omega, Or.inl (by omega)⟩

theorem flsUp_spec (us : Array Nat) (distnc : Array Int) (mask : Option (Array Bool)) (x1 : Int) :
    ∀ (fuel d : Nat) (cells : List Nat), flsUp us distnc mask x1 fuel d = some cells →
      ∃ K, cells = (List.range (K + 1)).map (fun j => iterA us j d) ∧
        (∀ j, j < K → distnc[iterA us j d]! < x1 ∧ us[iterA us j d]! ≠ us.size ∧
          maskAt mask us[iterA us j d]! = true) ∧
        (x1 ≤ distnc[iterA us K d]! ∨ us[iterA us K d]! = us.size ∨
          maskAt mask us[iterA us K d]! = false) := by
  intro fuel
  induction fuel with
  | zero => intro d cells h; simp [flsUp] at h
  | succ f ih =>
    intro d cells h
    simp only [flsUp] at h
    by_cases h1 : distnc[d]! < x1
    · rw [if_pos h1] at h
      by_cases h2 : us[d]! = us.size ∨ maskAt mask us[d]! = false
      · rw [if_pos h2] at h
        have : [d] = cells := Option.some.inj h
        subst this
        exact ⟨0, by simp [iterA], fun j hj => by omega, Or.inr (by simpa [iterA] using h2)⟩
      · rw [if_neg h2, Option.map_eq_some_iff] at h
        have h2a : us[d]! ≠ us.size := fun hh => h2 (Or.inl hh)
        have h2b : maskAt mask us[d]! = true := by
          cases hm : maskAt mask us[d]! with
          | true => rfl
          | false => exact absurd (Or.inr hm) h2
        obtain ⟨cells', hw, hc⟩ := h
        obtain ⟨K, hcells, hpre, hend⟩ := ih _ _ hw
        refine ⟨K + 1, by rw [← hc, hcells, range_map_iter_succ], ?_, by rw [iterA_succ]; exact hend⟩
        intro j hj
        cases j with
        | zero => exact ⟨by simpa [iterA] using h1, by simpa [iterA] using h2a, by simpa [iterA] using h2b⟩
        | succ j => rw [iterA_succ]; exact hpre j (by omega)
    · rw [if_neg h1] at h
      have : [d] = cells := Option.some.inj h
      subst this
      exact ⟨0, by simp [iterA], fun j hj => by omega, Or.inl (by simpa [iterA] using Int.not_lt.mp h1)⟩

/-! ### outlet pixels -/

/-- what `dmm_exitcell` / `eam_repcell` guarantee for the pixel stored for coarse cell `c` -/
def RepOK (ds : Array Nat) (cand : Nat → Bool) (subncol cellsize ncol : Nat) (c r : Nat) : Prop :=
  r = ds.size ∨ (r < ds.size ∧ ds[r]! ≠ ds.size ∧ cellOf subncol cellsize ncol r = c ∧
    (ds[r]! = r ∨ cand r = true))

theorem repStep_inv (ds : Array Nat) (upa : Array Int) (cand : Nat → Bool) (subncol cellsize ncol : Nat)
    (st : Array Nat × Array Int) (subidx : Nat) (hs : subidx < ds.size)
    (h : ∀ c, c < st.1.size → RepOK ds cand subncol cellsize ncol c st.1[c]!) :
    (repStep ds upa cand subncol cellsize ncol st subidx).1.size = st.1.size ∧
    ∀ c, c < st.1.size →
      RepOK ds cand subncol cellsize ncol c (repStep ds upa cand subncol cellsize ncol st subidx).1[c]! := by
  unfold repStep
  simp only
  split
  · exact ⟨rfl, h⟩
  · rename_i hv
    split
    · rename_i hpc
      split
      · refine ⟨by simp, ?_⟩
        intro c hc
        simp only [get!_setIfInBounds]
        split
        · rename_i hh
          exact Or.inr ⟨hs, hv, hh.1, hpc⟩
        · exact h c hc
      · exact ⟨rfl, h⟩
    · exact ⟨rfl, h⟩

theorem repFold_inv (ds : Array Nat) (upa : Array Int) (cand : Nat → Bool) (subncol cellsize ncol : Nat) :
    ∀ (l : List Nat) (st : Array Nat × Array Int), (∀ i ∈ l, i < ds.size) →
      (∀ c, c < st.1.size → RepOK ds cand subncol cellsize ncol c st.1[c]!) →
      (l.foldl (repStep ds upa cand subncol cellsize ncol) st).1.size = st.1.size ∧
      ∀ c, c < st.1.size →
        RepOK ds cand subncol cellsize ncol c (l.foldl (repStep ds upa cand subncol cellsize ncol) st).1[c]! := by
  intro l
  induction l with
  | nil => intro st _ h; exact ⟨rfl, h⟩
  | cons i t ih =>
    intro st hl h
    simp only [List.foldl_cons]
    obtain ⟨h1, h2⟩ := repStep_inv ds upa cand subncol cellsize ncol st i (hl i (by simp)) h
    obtain ⟨h3, h4⟩ := ih _ (fun j hj => hl j (by simp [hj])) (by rw [h1]; exact h2)
    exact ⟨by rw [h3, h1], by rw [h1] at h4; exact h4⟩

theorem ihuTrace_spec (ds : Array Nat) (subncol cellsize ncol idx0 : Nat) :
    ∀ (fuel s o : Nat), ihuTrace ds subncol cellsize ncol idx0 fuel s = some o →
      cellOf subncol cellsize ncol s = idx0 →
      cellOf subncol cellsize ncol o = idx0 ∧
      (ds[o]! = o ∨ cellOf subncol cellsize ncol ds[o]! ≠ idx0) ∧
      ∃ j, o = iterA ds j s ∧ ∀ m, m < j → ds[iterA ds m s]! ≠ iterA ds m s ∧
        cellOf subncol cellsize ncol (iterA ds (m + 1) s) = idx0 := by
  intro fuel
  induction fuel with
  | zero => intro s o h; simp [ihuTrace] at h
  | succ f ih =>
    intro s o h hs
    simp only [ihuTrace] at h
    by_cases hc : idx0 ≠ cellOf subncol cellsize ncol ds[s]! ∨ ds[s]! = s
    · rw [if_pos hc] at h
      have : s = o := Option.some.inj h
      subst this
      refine ⟨hs, ?_, 0, rfl, fun m hm => by omega⟩
      rcases hc with h1 | h1
      · exact Or.inr (fun h2 => h1 h2.symm)
      · exact Or.inl h1
    · rw [if_neg hc] at h
      have hc1 : cellOf subncol cellsize ncol ds[s]! = idx0 := by
        apply Decidable.byContradiction
        intro hh
        exact hc (Or.inl (fun h2 => hh h2.symm))
      have hc2 : ds[s]! ≠ s := fun hh => hc (Or.inr hh)
      obtain ⟨h1, h2, j, hj, hpath⟩ := ih _ _ h hc1
      refine ⟨h1, h2, j + 1, by rw [hj]; rfl, ?_⟩
      intro m hm
      cases m with
      | zero => exact ⟨by simpa [iterA] using hc2, by simpa [iterA] using hc1⟩
      | succ m => exact hpath m (by omega)

end Pf.C10
