import PfVerif.Proofs.C14
/-! Upstream induction along a downstream-first order, and the "nearest valid values upstream"
(frontier) form of `fillnodata_downstream` for the selecting merge rules. Core Lean only. -/
namespace Pf

theorem Topo.snoc_inv_c14 {ds : Array Nat} {l : List Nat} (h : Topo ds l) :
    ∀ (pre : List Nat) (j : Nat), l = pre ++ [j] →
      Topo ds pre ∧ j ∉ pre ∧ (ds[j]! = j ∨ ds[j]! ∈ pre) := by
  cases h with
  | nil => intro pre j e; simp at e
  | @snoc pre' i hp hi hd =>
    intro pre j e
    obtain ⟨e1, e2⟩ := List.append_inj' e (by simp)
    have e3 : i = j := by simpa using e2
    subst e1; subst e3
    exact ⟨hp, hi, hd⟩

/-- a prefix of a downstream-first order is one -/
theorem Topo.prefix_c14 {ds : Array Nat} {l : List Nat} (h : Topo ds l) :
    ∀ (a b : List Nat), l = a ++ b → Topo ds a := by
  induction h with
  | nil => intro a b e; have : a = [] := by cases a <;> simp_all
           subst this; exact Topo.nil
  | @snoc pre i hp hi hd ih =>
    intro a b e
    rcases List.eq_nil_or_concat b with hb | ⟨b', x, hb⟩
    · subst hb
      rw [List.append_nil] at e
      subst e
      exact Topo.snoc hp hi hd
    · rw [List.concat_eq_append] at hb
      subst hb
      rw [← List.append_assoc] at e
      obtain ⟨e1, _⟩ := List.append_inj' e (by simp)
      exact ih a b' e1

/-- in a downstream-first order every inflow cell of `j` comes after `j` -/
theorem Topo.kid_after_c14 {ds : Array Nat} {pre suf : List Nat} {j c : Nat}
    (h : Topo ds (pre ++ j :: suf)) (hc : c ∈ pre ++ j :: suf) (hd : ds[c]! = j) (hne : c ≠ j) :
    c ∈ suf := by
  have hpj : Topo ds (pre ++ [j]) := h.prefix_c14 (pre ++ [j]) suf (by simp)
  obtain ⟨hpre, hj, _⟩ := hpj.snoc_inv_c14 pre j rfl
  simp only [List.mem_append, List.mem_cons] at hc
  rcases hc with hc | hc | hc
  · exact absurd (hd ▸ Topo.ds_mem hpre c hc) hj
  · exact absurd hc hne
  · exact hc

/-- **upstream induction**: to prove `P` on every cell of a downstream-first order it suffices to
prove it for a cell assuming it for all its direct upstream cells -/
theorem Topo.induction_up_c14 {ds : Array Nat} {seq : List Nat} (htopo : Topo ds seq) (P : Nat → Prop)
    (h : ∀ j ∈ seq, (∀ c ∈ kids ds seq j, P c) → P j) : ∀ j ∈ seq, P j := by
  suffices hs : ∀ (suf pre : List Nat), pre ++ suf = seq → ∀ j ∈ suf, P j from
    hs seq [] (by simp)
  intro suf
  induction suf with
  | nil => intro _ _ j hj; cases hj
  | cons x suf ih =>
    intro pre e j hj
    have ih' := ih (pre ++ [x]) (by simpa using e)
    rcases List.mem_cons.1 hj with hjx | hj'
    · subst hjx
      refine h j (by rw [← e]; simp) (fun c hc => ?_)
      obtain ⟨hcs, hcd, hcn⟩ := mem_kids hc
      exact ih' c (Topo.kid_after_c14 (e ▸ htopo) (e ▸ hcs) hcd hcn)
    · exact ih' j hj'

theorem kids_mem {ds : Array Nat} {seq : List Nat} {j c : Nat} (hc : c ∈ seq) (hd : ds[c]! = j)
    (hne : c ≠ j) : c ∈ kids ds seq j := by
  simp only [kids, List.mem_filter, List.mem_reverse, Bool.and_eq_true, beq_iff_eq, bne_iff_ne]
  exact ⟨hc, hd, hne⟩

/-- `Feeds ds data nd k j`: walking downstream from `k`, cell `j` is reached (after ≥ 1 steps)
through cells that hold no value, `j` included — `k` is one of the nearest upstream cells of `j` -/
inductive Feeds (ds : Array Nat) (data : Array Int) (nd : Int) (k : Nat) : Nat → Prop
  | step : ds[k]! ≠ k → data[ds[k]!]! = nd → Feeds ds data nd k ds[k]!
  | next (c : Nat) : Feeds ds data nd k c → ds[c]! ≠ c → data[ds[c]!]! = nd → Feeds ds data nd k ds[c]!

theorem size_sweepUp_c14 {α : Type} [Inhabited α] (ds : Array Nat) (upd : Nat → α → α → α) (seq : List Nat)
    (out : Array α) : (sweepUp ds upd seq out).size = out.size := by
  induction seq with
  | nil => rfl
  | cons i rest ih =>
    have hs : ∀ (o : Array α), (stepUp ds upd i o).size = o.size := by
      intro o; unfold stepUp; split <;> simp
    simp only [sweepUp, List.foldr_cons] at *
    rw [hs, ih]

theorem fillDownInit_get (data : Array Int) (nd : Int) (j : Nat) (hj : j < data.size) :
    (fillDownInit data nd)[j]! = (data[j]!, data[j]! != nd) := by
  simp [fillDownInit, hj]

theorem fillDownState_size (ds : Array Nat) (seq : List Nat) (data : Array Int) (nd : Int) (how : Nat) :
    (fillDownState ds seq data nd how).size = data.size := by
  unfold fillDownState; rw [size_sweepUp_c14]; simp [fillDownInit]

theorem fillDownModel_get (ds : Array Nat) (seq : List Nat) (data : Array Int) (nd : Int) (how : Nat)
    (j : Nat) (hj : j < data.size) :
    (fillDownModel ds seq data nd how)[j]! = (fillDownState ds seq data nd how)[j]!.1 := by
  simp [fillDownModel, fillDownState_size, hj]

/-- recursive form of `fillnodata_downstream` on the state `(data_out, filled)` (all merge rules) -/
theorem fillDownState_rec (ds : Array Nat) (seq : List Nat) (data : Array Int) (nd : Int) (how : Nat)
    (htopo : Topo ds seq) (hb : ∀ i ∈ seq, i < data.size) (j : Nat) (hj : j < data.size) :
    (fillDownState ds seq data nd how)[j]! =
      if data[j]! ≠ nd then (data[j]!, true)
      else encNd nd (mergeBranches how
        ((kids ds seq j).map fun c => optOf (fillDownState ds seq data nd how)[c]!)) := by
  have hb' : ∀ i ∈ seq, i < (fillDownInit data nd).size := by
    intro i hi; simp [fillDownInit]; exact hb i hi
  have h := sweepUp_spec ds (updFillDown ds data nd how) seq htopo (fillDownInit data nd) hb' j
  unfold fillDownState
  rw [h, foldl_updFillDown ds data nd how _ j _ _ (fun c hc => (mem_kids hc).2.1), fillDownInit_get _ _ _ hj]
  by_cases hd : data[j]! = nd
  · simp only [hd, ne_eq, not_true_eq_false, if_false, bne_self_eq_false]
    have := foldl_pairStep_enc nd how
      ((kids ds seq j).map fun c => (sweepUp ds (updFillDown ds data nd how) seq (fillDownInit data nd))[c]!) none
    simp only [encNd] at this ⊢
    rw [this]
    simp [mergeBranches, List.map_map, Function.comp_def]
  · simp [hd]

/-- the optional value of a cell after the sweep, and the returned array in terms of it -/
theorem fillDown_rec (ds : Array Nat) (seq : List Nat) (data : Array Int) (nd : Int) (how : Nat)
    (htopo : Topo ds seq) (hb : ∀ i ∈ seq, i < data.size) (j : Nat) (hj : j < data.size) :
    optOf (fillDownState ds seq data nd how)[j]! =
      (if data[j]! ≠ nd then some data[j]!
       else mergeBranches how ((kids ds seq j).map fun c => optOf (fillDownState ds seq data nd how)[c]!)) ∧
    (fillDownModel ds seq data nd how)[j]! = (optOf (fillDownState ds seq data nd how)[j]!).getD nd := by
  rw [fillDownModel_get _ _ _ _ _ j hj, fillDownState_rec ds seq data nd how htopo hb j hj]
  by_cases hd : data[j]! = nd
  · simp only [hd, ne_eq, not_true_eq_false, if_false]
    cases mergeBranches how ((kids ds seq j).map fun c => optOf (fillDownState ds seq data nd how)[c]!) <;>
      simp [encNd, optOf]
  · simp [hd, optOf]

/-- frontier form for a selecting merge rule (`R` = `≤` for min, `≥` for max), on the optional
value `O j` of a cell: it is `R`-below the value of every nearest valid cell upstream, and is the
cell's own value or the value of one of them; a cell stays empty iff it has none. -/
theorem fillDown_frontier_sel (how : Nat) (R : Int → Int → Prop) (hrefl : ∀ a, R a a)
    (htrans : ∀ a b c, R a b → R b c → R a c)
    (hsel : ∀ x a, mergeHow how x a = x ∨ mergeHow how x a = a)
    (hR : ∀ x a, R (mergeHow how x a) x ∧ R (mergeHow how x a) a)
    (ds : Array Nat) (seq : List Nat) (data : Array Int) (nd : Int)
    (htopo : Topo ds seq) (hb : ∀ i ∈ seq, i < data.size) :
    (∀ k ∈ seq, data[k]! ≠ nd → ∀ j, Feeds ds data nd k j →
      ∃ r, optOf (fillDownState ds seq data nd how)[j]! = some r ∧ R r data[k]!) ∧
    (∀ j ∈ seq, ∀ r, optOf (fillDownState ds seq data nd how)[j]! = some r →
      (data[j]! ≠ nd ∧ r = data[j]!) ∨
      ∃ k ∈ seq, data[k]! ≠ nd ∧ Feeds ds data nd k j ∧ r = data[k]!) := by
  obtain ⟨O, hO⟩ : ∃ O : Nat → Option Int, O = fun j => optOf (fillDownState ds seq data nd how)[j]! := ⟨_, rfl⟩
  have hOj : ∀ j, optOf (fillDownState ds seq data nd how)[j]! = O j := by intro j; rw [hO]
  simp only [hOj]
  have hrec : ∀ j ∈ seq, O j = if data[j]! ≠ nd then some data[j]!
      else mergeBranches how ((kids ds seq j).map fun c => O c) := by
    intro j hj; rw [hO]; exact (fillDown_rec ds seq data nd how htopo hb j (hb j hj)).1
  -- one step downstream into an empty cell
  have hstep : ∀ c ∈ seq, ∀ v, O c = some v → ds[c]! ≠ c → data[ds[c]!]! = nd →
      ∃ r, O ds[c]! = some r ∧ R r v := by
    intro c hc v hv hp hd
    have hk : c ∈ kids ds seq ds[c]! := kids_mem hc rfl (fun h => hp h.symm)
    have hmem : some v ∈ (kids ds seq ds[c]!).map fun c => O c := List.mem_map.2 ⟨c, hk, hv⟩
    obtain ⟨s1, _, _⟩ := mergeBranches_sel how R hrefl htrans hsel hR ((kids ds seq ds[c]!).map fun c => O c)
    rw [hrec ds[c]! (Topo.ds_mem htopo c hc)]
    simp only [hd, ne_eq, not_true_eq_false, if_false]
    exact s1 v hmem
  constructor
  · intro k hk hdk j hf
    suffices h : j ∈ seq ∧ ∃ r, O j = some r ∧ R r data[k]! from h.2
    have hOk : O k = some data[k]! := by rw [hrec k hk]; simp [hdk]
    induction hf with
    | step hp hd =>
      exact ⟨Topo.ds_mem htopo k hk, hstep k hk _ hOk hp hd⟩
    | next c _ hp hd ih =>
      obtain ⟨ic, r, i1, i2⟩ := ih
      obtain ⟨r', a, b⟩ := hstep c ic r i1 hp hd
      exact ⟨Topo.ds_mem htopo c ic, r', a, htrans _ _ _ b i2⟩
  · refine htopo.induction_up_c14 _ (fun j hj ih r hr => ?_)
    by_cases hd : data[j]! = nd
    · right
      have hmj := hrec j hj
      simp only [hd, ne_eq, not_true_eq_false, if_false] at hmj
      obtain ⟨_, _, s3⟩ := mergeBranches_sel how R hrefl htrans hsel hR ((kids ds seq j).map fun c => O c)
      rw [hmj] at hr
      obtain ⟨c, hck, hcv⟩ := List.mem_map.1 (s3 r hr)
      obtain ⟨hcs, hcd, hcn⟩ := mem_kids hck
      have hpc : ds[c]! ≠ c := by rw [hcd]; exact fun h => hcn h.symm
      rcases ih c hck r hcv with ⟨h1, h2⟩ | ⟨k, hk, h1, h2, h3⟩
      · refine ⟨c, hcs, h1, ?_, h2⟩
        have := Feeds.step (ds := ds) (data := data) (nd := nd) (k := c) hpc (by rw [hcd]; exact hd)
        rwa [hcd] at this
      · refine ⟨k, hk, h1, ?_, h3⟩
        have := Feeds.next c h2 hpc (by rw [hcd]; exact hd)
        rwa [hcd] at this
    · left
      rw [hrec j hj] at hr
      simp only [ne_eq, hd, not_false_eq_true, if_true, Option.some.injEq] at hr
      exact ⟨hd, hr.symm⟩

end Pf
