import PfVerif.Proofs.C09_ihuStg
/-! `upscale_check` and the `niter` loop of `ihu`: well-formedness invariant and totality (C09 extension, fourth
stage). Core Lean only. -/
namespace Pf.C09ihu
open Pf

/-! ### `upscale_check` -/

theorem checkWalk_isSome (ds : Array Nat) :
    ∀ k p, PitAt ds k p → ∀ f, k < f → ∀ d streams, (checkWalk ds f p d streams).isSome = true := by
  intro k
  induction k with
  | zero =>
    intro p hp f hf d streams
    obtain ⟨g, rfl⟩ : ∃ g, f = g + 1 := ⟨f - 1, by omega⟩
    have hp' := pitAt_zero hp
    simp [checkWalk, hp']
  | succ k ih =>
    intro p hp f hf d streams
    obtain ⟨g, rfl⟩ : ∃ g, f = g + 1 := ⟨f - 1, by omega⟩
    simp only [checkWalk]
    split
    · rfl
    · exact ih _ hp.pred g (by omega) _ _

/-- `upscale_check` is defined when every linked cell has a valid outlet pixel; `valid` has one entry per coarse cell
and the cells reported as erroneous are linked cells -/
theorem upscaleCheck_tot (ds out cds : Array Nat) (minNum minDen : Nat)
    (hr : ∀ p, ValidPx ds p → ∃ k, k ≤ ds.size ∧ PitAt ds k p)
    (hv : ∀ c, c < cds.size → cds[c]! ≠ cds.size → ValidPx ds out[c]!) :
    ∃ r, upscaleCheck ds out cds minNum minDen = some r ∧ r.1.size = cds.size ∧
      ∀ c ∈ r.2.2.1, c < cds.size ∧ cds[c]! ≠ cds.size := by
  unfold upscaleCheck
  apply foldlM_tot (P := fun (st : Array Bool × Array Int × List Nat × List Nat) =>
    st.1.size = cds.size ∧ ∀ c ∈ st.2.2.1, c < cds.size ∧ cds[c]! ≠ cds.size)
  · intro st idx0 hidx hst
    obtain ⟨valid, streams, fix, short⟩ := st
    have hlt := List.mem_range.mp hidx
    dsimp only at hst ⊢
    split
    · exact ⟨_, rfl, hst⟩
    · rename_i hne
      obtain ⟨k, hk, hpit⟩ := hr _ (hv idx0 hlt hne)
      have hsome := checkWalk_isSome ds k _ hpit (ds.size + 1) (by omega) 0 streams
      obtain ⟨⟨q, d, s'⟩, hcw⟩ := Option.isSome_iff_exists.mp hsome
      rw [hcw]
      dsimp only
      split
      · refine ⟨_, rfl, by simp [hst.1], ?_⟩
        intro c hc
        rcases List.mem_append.mp hc with hc | hc
        · exact hst.2 c hc
        · simp only [List.mem_singleton] at hc
          subst hc
          exact ⟨hlt, hne⟩
      · split
        · exact ⟨_, rfl, hst⟩
        · exact ⟨_, rfl, hst⟩
  · exact ⟨by simp, fun c hc => by cases hc⟩

/-! ### the `niter` loop -/

section loop
variable {e : Env} {n : Nat} {W : Nat → Nat → Nat → Prop}

/-- any cells that are linked / have an outlet pixel may be declared "to be kept" -/
theorem WArr.self {A B A' B' : Nat → Prop} {cds out : Array Nat} (h : WArr e n W A B cds out)
    (hA : ∀ c, c < n → A' c → cds[c]! ≠ n) (hB : ∀ c, c < n → B' c → out[c]! ≠ e.ds.size) :
    WArr e n W A' B' cds out :=
  ⟨h.szc, h.szo, h.ok, hA, hB⟩

/-- the invariant between the stages: no cell singled out -/
abbrev WOK (e : Env) (n : Nat) (W : Nat → Nat → Nat → Prop) (cds out : Array Nat) : Prop :=
  WArr e n W (fun _ => False) (fun _ => False) cds out

theorem ihuLoop_tot (hw : WCtx e n W) (par : Par) (hf : FineOK e par) (o : IhuOpt) :
    ∀ k fix cds out sorts, WOK e n W cds out → (∀ c ∈ fix, c < n ∧ out[c]! ≠ e.ds.size) →
      ∃ r, ihuLoop e par o k fix cds out sorts = some r ∧ WOK e n W r.1 r.2.1 := by
  intro k
  induction k with
  | zero => intro fix cds out sorts h _; exact ⟨_, rfl, h⟩
  | succ k ih =>
    intro fix cds out sorts h hfix
    -- STAGE 1
    obtain ⟨r, hrel, hwr⟩ := relocateOutlets_tot hw hf.reach fix cds out sorts
      (h.self (A' := fun _ => False) (B' := fun c => out[c]! ≠ e.ds.size) (fun _ _ hh => hh.elim) (fun _ _ hh => hh))
      hfix
    -- the check
    obtain ⟨⟨valid, streams, fix1, short⟩, hchk, hvsz, hfix1⟩ := upscaleCheck_tot e.ds r.out r.cds par.minNum par.minDen
      hf.reach (fun c hc hne => hwr.valid_of_link hw c (by rw [← hwr.szc]; exact hc) (by rw [← hwr.szc]; exact hne))
    simp only at hvsz hfix1
    have hwr' : WArr e n W (fun c => r.cds[c]! ≠ n) (fun c => r.out[c]! ≠ e.ds.size) r.cds r.out :=
      hwr.self (fun _ _ hh => hh) (fun _ _ hh => hh)
    -- STAGE 2
    have h1 : ∃ st1, (if o.optRivlen = true then optimizeRivlen e par short valid (streams, r.cds, r.out)
        else some (streams, r.cds, r.out)) = some st1 ∧
        WArr e n W (fun c => r.cds[c]! ≠ n) (fun c => r.out[c]! ≠ e.ds.size) st1.2.1 st1.2.2 := by
      split
      · exact optimizeRivlen_tot hw par hf short valid (by rw [hvsz, hwr.szc]; exact Nat.le_refl _) _ hwr'
      · exact ⟨_, rfl, hwr'⟩
    obtain ⟨st1, hst1, hw1⟩ := h1
    -- STAGE 3
    have hfixB : ∀ c ∈ fix1, c < n ∧ r.out[c]! ≠ e.ds.size := by
      intro c hc
      have := hfix1 c hc
      rw [hwr.szc] at this
      have hv := (hwr.valid_of_link hw c this.1 this.2).1
      exact ⟨this.1, by omega⟩
    have h2 : ∀ poc, ∃ r2, (if o.minError = true then minimizeError e par poc fix1 st1 r.sorts
        else some (st1, r.sorts)) = some r2 ∧
        WArr e n W (fun c => r.cds[c]! ≠ n) (fun c => r.out[c]! ≠ e.ds.size) r2.1.2.1 r2.1.2.2 := by
      intro poc
      split
      · exact minimizeError_tot hw par hf poc fix1 st1 r.sorts hfixB hw1
      · exact ⟨_, rfl, hw1⟩
    obtain ⟨⟨⟨s2, c2, o2⟩, sorts2⟩, hst2, hw2⟩ := h2
      (if (fix1.isEmpty || fix1.length == fix.length || k == 0) = true then o.poc else 0)
    simp only at hw2
    simp only [ihuLoop, hrel, hchk, hst1, hst2]
    split
    · exact ⟨_, rfl, hw2.self (fun _ _ hh => hh.elim) (fun _ _ hh => hh.elim)⟩
    · refine ih fix1 c2 o2 sorts2 (hw2.self (fun _ _ hh => hh.elim) (fun _ _ hh => hh.elim)) ?_
      intro c hc
      have := hfixB c hc
      exact ⟨this.1, hw2.actO c this.1 this.2⟩

end loop

end Pf.C09ihu
