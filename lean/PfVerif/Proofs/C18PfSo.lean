import PfVerif.Proofs.C18PfLoop
/-! Pfafstetter refinement across depths (stage 4): static facts about the classic stream order
(`streamOrderClassic`, unreduced) and its reductions `pfStrord … depth`. Core Lean only. -/
namespace Pf.C18
open Pf

variable {ds usMain : Array Nat} {seq : List Nat} {uparea : Array Int}

theorem soraw_size (ds : Array Nat) (seq : List Nat) (usMain : Array Nat) (mask : Option (Array Bool)) :
    (streamOrderClassic ds seq usMain mask).size = ds.size := by
  rw [streamOrderClassic_sweep]; simp

/-- the reduced order of a cell -/
theorem pfStrord_get (ds : Array Nat) (seq : List Nat) (usMain : Array Nat) (mask : Option (Array Bool))
    (depth : Nat) {u : Nat} (hu : u < ds.size) :
    (pfStrord ds seq usMain mask depth)[u]! =
      if (streamOrderClassic ds seq usMain mask)[u]! ≤ (depth : Int) + 1
      then (streamOrderClassic ds seq usMain mask)[u]! else 0 := by
  unfold pfStrord
  rw [amap_get! _ u (by rw [soraw_size]; exact hu)]

/-- the recurrence of the classic stream order on the cells of the order -/
theorem soraw_rec (ds : Array Nat) (seq : List Nat) (usMain : Array Nat) (mask : Option (Array Bool))
    (htopo : Topo ds seq) (hb : ∀ i ∈ seq, i < ds.size) (t : Nat) (ht : t ∈ seq) :
    (streamOrderClassic ds seq usMain mask)[t]! =
      soStepG ds usMain mask (upstreamCount ds mask) t 0
        (if ds[t]! = t then 0 else (streamOrderClassic ds seq usMain mask)[ds[t]!]!) := by
  have hrec := (sweepDown_rec ds (soStepG ds usMain mask (upstreamCount ds mask))
    (Array.replicate ds.size (0 : Int)) seq htopo (fun i hi => by simp; exact hb i hi)).1 t ht
  rw [← streamOrderClassic_sweep] at hrec
  have h0 : (Array.replicate ds.size (0 : Int))[t]! = 0 := replicate_get! _ 0 rfl t
  rw [h0] at hrec
  exact hrec

theorem soraw_step (ds : Array Nat) (seq : List Nat) (usMain : Array Nat) (mask : Option (Array Bool))
    (htopo : Topo ds seq) (hb : ∀ i ∈ seq, i < ds.size) (t : Nat) (ht : t ∈ seq) (hnp : ds[t]! ≠ t) :
    (streamOrderClassic ds seq usMain mask)[t]! = 0 ∨
    (streamOrderClassic ds seq usMain mask)[t]! = (streamOrderClassic ds seq usMain mask)[ds[t]!]! ∨
    ((streamOrderClassic ds seq usMain mask)[t]! = (streamOrderClassic ds seq usMain mask)[ds[t]!]! + 1 ∧
      usMain[ds[t]!]! ≠ t) := by
  have hrec := soraw_rec ds seq usMain mask htopo hb t ht
  unfold soStepG at hrec
  simp only [hnp, if_false] at hrec
  split at hrec
  · exact Or.inl hrec
  · split at hrec
    · rename_i hc; exact Or.inr (Or.inr ⟨hrec, hc.2⟩)
    · exact Or.inr (Or.inl hrec)

theorem soraw_pit (ds : Array Nat) (seq : List Nat) (usMain : Array Nat) (mask : Option (Array Bool))
    (htopo : Topo ds seq) (hb : ∀ i ∈ seq, i < ds.size) (t : Nat) (ht : t ∈ seq) (hp : ds[t]! = t) :
    (streamOrderClassic ds seq usMain mask)[t]! = 0 ∨ (streamOrderClassic ds seq usMain mask)[t]! = 1 := by
  have hrec := soraw_rec ds seq usMain mask htopo hb t ht
  unfold soStepG at hrec
  simp only [hp, if_true] at hrec
  split at hrec
  · exact Or.inl hrec
  · exact Or.inr hrec

/-- the main upstream cell keeps the order (or is masked out) -/
theorem soraw_main (c : PfCtx ds usMain seq uparea) (mask : Option (Array Bool)) (x : Nat)
    (hx : x < ds.size) (hu : usMain[x]! < ds.size) :
    (streamOrderClassic ds seq usMain mask)[usMain[x]!]! = 0 ∨
    (streamOrderClassic ds seq usMain mask)[usMain[x]!]! = (streamOrderClassic ds seq usMain mask)[x]! := by
  obtain ⟨hm, hd, hne, _⟩ := c.ustep hx hu
  rcases soraw_step ds seq usMain mask c.topo c.hb _ hm (by rw [hd]; exact Ne.symm hne) with h | h | h
  · exact Or.inl h
  · right; rw [hd] at h; exact h
  · exfalso; rw [hd] at h; exact h.2 rfl

/-- a non-zero reduced order is a non-zero order -/
theorem pfStrord_ne_zero (ds : Array Nat) (seq : List Nat) (usMain : Array Nat) (mask : Option (Array Bool))
    (depth : Nat) (s : Nat) (h : (pfStrord ds seq usMain mask depth)[s]! ≠ 0) :
    (streamOrderClassic ds seq usMain mask)[s]! ≠ 0 := by
  by_cases hs : s < ds.size
  · rw [pfStrord_get ds seq usMain mask depth hs] at h
    intro h0; rw [h0] at h; simp at h
  · exfalso; apply h
    unfold pfStrord amap
    have : ¬ s < (streamOrderClassic ds seq usMain mask).size := by rw [soraw_size]; exact hs
    simp [this]

/-- stream orders are non-negative -/
theorem soraw_nonneg (ds : Array Nat) (seq : List Nat) (usMain : Array Nat) (mask : Option (Array Bool))
    (htopo : Topo ds seq) (hb : ∀ i ∈ seq, i < ds.size) :
    ∀ s : Nat, 0 ≤ (streamOrderClassic ds seq usMain mask)[s]! := by
  have hin : ∀ s ∈ seq, 0 ≤ (streamOrderClassic ds seq usMain mask)[s]! := by
    refine htopo.induction _ (fun s hs ih => ?_)
    by_cases hp : ds[s]! = s
    · rcases soraw_pit ds seq usMain mask htopo hb s hs hp with h | h <;> omega
    · have := (ih hp).2
      rcases soraw_step ds seq usMain mask htopo hb s hs hp with h | h | h <;> omega
  intro s
  by_cases hs : s ∈ seq
  · exact hin s hs
  · have h2 := (sweepDown_rec ds (soStepG ds usMain mask (upstreamCount ds mask))
      (Array.replicate ds.size (0 : Int)) seq htopo (fun i hi => by simp; exact hb i hi)).2 s hs
    rw [← streamOrderClassic_sweep] at h2
    rw [h2, replicate_get! _ 0 rfl s]
    omega

end Pf.C18
