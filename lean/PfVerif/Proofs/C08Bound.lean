import PfVerif.Proofs.C08Strahler
/-! A stream of Strahler order `k` drains at least `2^(k-1)` cells (C08: no `uint8` overflow). -/
namespace Pf

/-- number of masked network cells draining through each cell: the up-to-downstream accumulation
(`streams.accuflux`) of the field "1 on every cell", restricted to masked inflows -/
def maskedCount (ds : Array Nat) (seq : List Nat) (mask : Option (Array Bool)) : Array Nat :=
  sweepUp ds (fun c acc v => if maskAt mask c = true then acc + v else acc) seq (Array.replicate ds.size 1)

theorem foldl_condAdd (mask : Option (Array Bool)) (f : Nat → Nat) (l : List Nat) (a : Nat) :
    l.foldl (fun acc c => if maskAt mask c = true then acc + f c else acc) a =
      a + ((l.filter (maskAt mask)).map f).sum := by
  induction l generalizing a with
  | nil => simp
  | cons c l ih =>
    simp only [List.foldl_cons, ih, List.filter_cons]
    by_cases hm : maskAt mask c = true
    · simp only [hm, if_true, List.map_cons, List.sum_cons]; omega
    · simp [hm]

theorem maskedCount_rec (ds : Array Nat) (seq : List Nat) (mask : Option (Array Bool))
    (htopo : Topo ds seq) (hb : ∀ i ∈ seq, i < ds.size) (j : Nat) (hj : j ∈ seq) :
    (maskedCount ds seq mask)[j]! =
      1 + ((kidsM ds seq mask j).map ((maskedCount ds seq mask)[·]!)).sum := by
  have h := sweepUp_spec ds (fun c acc v => if maskAt mask c = true then acc + v else acc) seq htopo
    (Array.replicate ds.size 1) (fun i hi => by simpa using hb i hi) j
  have h1 : (Array.replicate ds.size 1)[j]! = 1 := by simp [hb j hj]
  unfold maskedCount
  rw [h, h1]
  exact foldl_condAdd mask _ (kids ds seq j) 1

theorem count_pow_le_sum (L : List Nat) (f g : Nat → Nat) (M : Nat)
    (h : ∀ c ∈ L, 2 ^ (f c - 1) ≤ g c) :
    (L.map f).count M * 2 ^ (M - 1) ≤ (L.map g).sum := by
  induction L with
  | nil => simp
  | cons c L ih =>
    have ih' := ih (fun c hc => h c (by simp [hc]))
    have hc := h c (by simp)
    simp only [List.map_cons, List.count_cons, List.sum_cons]
    by_cases hf : f c = M
    · subst hf
      simp only [beq_self_eq_true, if_true, Nat.add_mul, Nat.one_mul]
      omega
    · have : (f c == M) = false := by simpa using hf
      simp only [this, Bool.false_eq_true, if_false, Nat.add_zero]
      omega

/-- **a stream of Strahler order `k` drains at least `2^(k-1)` cells of the stream network** -/
theorem strahler_pow_le (ds : Array Nat) (seq : List Nat) (mask : Option (Array Bool))
    (htopo : Topo ds seq) (hb : ∀ i ∈ seq, i < ds.size) :
    ∀ j ∈ seq, maskAt mask j = true →
      2 ^ ((strahlerOrder ds seq mask)[j]! - 1) ≤ (maskedCount ds seq mask)[j]! := by
  obtain ⟨hpos, hrec⟩ := strahlerOrder_rec ds mask seq htopo hb
  refine htopo.induction_up _ (fun j hj ih hm => ?_)
  have hcnt := maskedCount_rec ds seq mask htopo hb j hj
  have hkids : ∀ c ∈ kidsM ds seq mask j,
      2 ^ ((strahlerOrder ds seq mask)[c]! - 1) ≤ (maskedCount ds seq mask)[c]! := by
    intro c hc
    have hc' := (mem_kidsM ds seq mask j c).1 hc
    exact ih c hc'.1 hc'.2.1 hc'.2.2.1 hc'.2.2.2
  obtain ⟨l, hl⟩ : ∃ l, l = (kidsM ds seq mask j).map ((strahlerOrder ds seq mask)[·]!) := ⟨_, rfl⟩
  have hsum := count_pow_le_sum (kidsM ds seq mask j) ((strahlerOrder ds seq mask)[·]!)
    ((maskedCount ds seq mask)[·]!) (mx l) hkids
  rw [← hl] at hsum
  rw [hrec j, ← hl, hcnt]
  have hflag : (decide (j ∈ seq) && maskAt mask j) = true := by simp [hj, hm]
  rw [hflag]
  unfold strahlerRule
  by_cases hnil : l = []
  · simp [hnil]
  · have hlpos : ∀ x ∈ l, 0 < x := by
      intro x hx
      rw [hl] at hx
      obtain ⟨c, hc, rfl⟩ := List.mem_map.1 hx
      have hc' := (mem_kidsM ds seq mask j c).1 hc
      exact hpos c hc'.1 hc'.2.2.2
    have hmem := mx_mem l hlpos hnil
    have hM : 0 < mx l := hlpos _ hmem
    have hc1 : 1 ≤ l.count (mx l) := List.count_pos_iff.2 hmem
    simp only [hnil, if_false, strahler]
    obtain ⟨S, hS⟩ : ∃ S, S = ((kidsM ds seq mask j).map ((maskedCount ds seq mask)[·]!)).sum := ⟨_, rfl⟩
    rw [← hS] at hsum ⊢
    obtain ⟨p, hp⟩ : ∃ p, p = 2 ^ (mx l - 1) := ⟨_, rfl⟩
    have hpow : 2 ^ mx l = 2 * p := by
      rw [hp, ← Nat.pow_succ']; congr 1; omega
    rw [← hp] at hsum
    by_cases h2 : 2 ≤ l.count (mx l)
    · simp only [h2, if_true, Nat.add_sub_cancel, hpow]
      have : 2 * p ≤ l.count (mx l) * p := Nat.mul_le_mul_right p h2
      omega
    · simp only [h2, if_false, ← hp]
      have : 1 * p ≤ l.count (mx l) * p := Nat.mul_le_mul_right p hc1
      omega

end Pf
