import PfVerif.Proofs.C18Part
/-! Towards `ok = true` of the Pfafstetter model (open item; see the comment at `pfaf_partition` in
Props/C18.lean): the run-time side condition of `pfInner` is reduced to a statement about the
*confluence cell* only. Core Lean only. -/
namespace Pf.C18
open Pf

/-- **reduction of the side condition**: the check `br[idx1] == 0 || br[idx1] == pfaf_int_ds` made when
the inter-basin outlet `idx1 = idxs_us_main[idxs_ds[idx]]` is created holds as soon as `idx1` is a cell
that is not yet a returned outlet and the confluence cell `d = idxs_ds[idx]` carries the code of the
inter-basin below (`pfaf_int_ds`): by the partition invariant a coded cell that is not an outlet carries
the code of its downstream cell. What remains for `ok = true` is therefore exactly
`br[idxs_ds[idx]] = pfaf_int_ds` at every inter-basin creation (the confluences of the selected
tributaries are met from down- to upstream along ONE stem). -/
theorem ib_check_of_conf {ds usMain : Array Nat} {so br : Array Int} {idxs : List Nat}
    (hinv : PfafInv ds usMain so br idxs)
    (hus : ∀ i, i < ds.size → usMain[i]! < ds.size → usMain[i]! ≠ i ∧ ds[usMain[i]!]! = i)
    {d : Nat} {intDs : Int} (hd : d < ds.size) (h1 : usMain[d]! < ds.size) (hni : usMain[d]! ∉ idxs)
    (hconf : br[d]! = intDs) :
    (decide (usMain[d]! < ds.size) && (br[usMain[d]!]! == 0 || br[usMain[d]!]! == intDs)) = true := by
  simp only [Bool.and_eq_true, decide_eq_true_eq, Bool.or_eq_true, beq_iff_eq]
  refine ⟨h1, ?_⟩
  by_cases hz : br[usMain[d]!]! = 0
  · exact Or.inl hz
  · right
    obtain ⟨_, h2, _, _⟩ := hinv.down _ h1 hz hni
    rw [(hus d hd h1).2] at h2
    rw [← h2]; exact hconf

end Pf.C18
