import PfVerif.Model.C18
/-! Pfafstetter link rule (stage 4), arithmetic part: codes whose digits below level `e` are all 1
(`c % 10^(e+1) = 11…1`), the digit of `c + m·10^e`, the relation `LinkE e A B` ("`A` and `B` agree above
level `e`, the digit of `B` at level `e` is odd and smaller than that of `A`"), its stability under
changes of `B` below level `e`, and its consequence for the codes reduced modulo `10^depth`. Core Lean only. -/
namespace Pf.C18
open Pf

/-- `11…1` (`k` ones) -/
def R1 : Nat → Int
  | 0 => 0
  | k+1 => (10 : Int) ^ k + R1 k

theorem p10_pos (e : Nat) : 0 < (10 : Int) ^ e := Int.pow_pos (by decide)

theorem R1_bound : ∀ k, 0 ≤ R1 k ∧ R1 k < (10 : Int) ^ k := by
  intro k
  induction k with
  | zero => simp [R1]
  | succ k ih =>
    simp only [R1, Int.pow_succ]
    have := p10_pos k
    omega

theorem div_unique_c18 {a b q r : Int} (h : 0 < b) (h1 : r + b * q = a) (h2 : 0 ≤ r) (h3 : r < b) :
    a / b = q :=
  ((Int.ediv_emod_unique h).2 ⟨h1, h2, h3⟩).1

theorem mod_unique_c18 {a b q r : Int} (h : 0 < b) (h1 : r + b * q = a) (h2 : 0 ≤ r) (h3 : r < b) :
    a % b = r :=
  ((Int.ediv_emod_unique h).2 ⟨h1, h2, h3⟩).2

/-- adding at most `8·10^e` to a code whose digits `0..e` are 1 does not change the digits above `e` -/
theorem base_div {c : Int} {e : Nat} (hc : c % (10 : Int) ^ (e + 1) = R1 (e + 1)) {x : Int}
    (h0 : 0 ≤ x) (h8 : x ≤ 8 * (10 : Int) ^ e) :
    (c + x) / (10 : Int) ^ (e + 1) = c / (10 : Int) ^ (e + 1) := by
  have hp := p10_pos e
  have hb := R1_bound e
  have hdec := Int.mul_ediv_add_emod c ((10 : Int) ^ (e + 1))
  rw [hc] at hdec
  simp only [R1, Int.pow_succ] at hdec ⊢
  refine div_unique_c18 (r := (10 : Int) ^ e + R1 e + x) (by omega) ?_ (by omega) (by omega)
  omega

/-- the quotient by `10^e` of `c + m·10^e` -/
theorem quot_code {c : Int} {e : Nat} (hc : c % (10 : Int) ^ (e + 1) = R1 (e + 1)) (m : Int) :
    (c + m * (10 : Int) ^ e) / (10 : Int) ^ e = 10 * (c / (10 : Int) ^ (e + 1)) + 1 + m := by
  have hp := p10_pos e
  have hb := R1_bound e
  have hdec := Int.mul_ediv_add_emod c ((10 : Int) ^ (e + 1))
  rw [hc] at hdec
  simp only [R1, Int.pow_succ] at hdec ⊢
  generalize c / ((10 : Int) ^ e * 10) = q at hdec ⊢
  generalize (10 : Int) ^ e = p at *
  refine div_unique_c18 (r := R1 e) hp ?_ hb.1 hb.2
  rw [← hdec]
  grind

/-- `A` and `B` agree above level `e`; at level `e` the digit of `B` is odd and smaller than that of `A` -/
def LinkE (e : Nat) (A B : Int) : Prop :=
  A / (10 : Int) ^ e / 10 = B / (10 : Int) ^ e / 10 ∧ dig e B % 2 = 1 ∧ dig e B < dig e A

theorem LinkE.congr {e : Nat} {A B B' : Int} (h : LinkE e A B)
    (hq : B / (10 : Int) ^ e = B' / (10 : Int) ^ e) : LinkE e A B' := by
  unfold LinkE dig at *
  rw [← hq]; exact h

/-- the codes written by `pfInner` for the `i`-th tributary / inter-basin against the code `c + 2k·10^e`
of the confluence cell -/
theorem LinkE.new {c : Int} {e : Nat} (hc : c % (10 : Int) ^ (e + 1) = R1 (e + 1)) {a k : Int}
    (hk : 0 ≤ k) (hka : 2 * k < a) (ha : a ≤ 8) :
    LinkE e (c + a * (10 : Int) ^ e) (c + 2 * k * (10 : Int) ^ e) := by
  unfold LinkE dig
  rw [quot_code hc a, quot_code hc (2 * k)]
  omega

/-- two codes `c + x`, `c + x'` (`x, x' ≤ 8·10^e'`, digits `0..e'` of `c` equal to 1) have the same digits
above every level `e > e'` -/
theorem quot_refine {c : Int} {e' e : Nat} (hc : c % (10 : Int) ^ (e' + 1) = R1 (e' + 1)) {x x' : Int}
    (h0 : 0 ≤ x) (h8 : x ≤ 8 * (10 : Int) ^ e') (h0' : 0 ≤ x') (h8' : x' ≤ 8 * (10 : Int) ^ e')
    (he : e' < e) : (c + x) / (10 : Int) ^ e = (c + x') / (10 : Int) ^ e := by
  have hsplit : (10 : Int) ^ e = (10 : Int) ^ (e' + 1) * (10 : Int) ^ (e - e' - 1) := by
    rw [← Int.pow_add]; congr 1; omega
  rw [hsplit, ← Int.ediv_ediv_of_nonneg (Int.le_of_lt (p10_pos _)),
    ← Int.ediv_ediv_of_nonneg (Int.le_of_lt (p10_pos _)), base_div hc h0 h8, base_div hc h0' h8']

/-! ### reduction modulo `10^depth` -/

theorem quot_mod {A : Int} {D k : Nat} (hk : k ≤ D) :
    (A % (10 : Int) ^ D) / (10 : Int) ^ k = (A / (10 : Int) ^ k) % (10 : Int) ^ (D - k) := by
  have hsplit : (10 : Int) ^ D = (10 : Int) ^ k * (10 : Int) ^ (D - k) := by
    rw [← Int.pow_add]; congr 1; omega
  have hD := p10_pos D
  have hK := p10_pos k
  have hDK := p10_pos (D - k)
  have h1 := Int.mul_ediv_add_emod A ((10 : Int) ^ D)
  have hr0 := Int.emod_nonneg A (Int.ne_of_gt hD)
  have hr1 := Int.emod_lt_of_pos A hD
  generalize A % (10 : Int) ^ D = r at *
  generalize A / (10 : Int) ^ D = q at *
  -- r = 10^k * s + t
  have h2 := Int.mul_ediv_add_emod r ((10 : Int) ^ k)
  have ht0 := Int.emod_nonneg r (Int.ne_of_gt hK)
  have ht1 := Int.emod_lt_of_pos r hK
  have hs0 : 0 ≤ r / (10 : Int) ^ k := Int.ediv_nonneg hr0 (Int.le_of_lt hK)
  generalize r % (10 : Int) ^ k = t at *
  generalize hs : r / (10 : Int) ^ k = s at *
  have hs1 : s < (10 : Int) ^ (D - k) := by
    apply Classical.byContradiction
    intro hn
    have : (10 : Int) ^ k * (10 : Int) ^ (D - k) ≤ (10 : Int) ^ k * s :=
      Int.mul_le_mul_of_nonneg_left (by omega) (Int.le_of_lt hK)
    rw [← hsplit] at this
    omega
  have hA : A / (10 : Int) ^ k = (10 : Int) ^ (D - k) * q + s := by
    refine div_unique_c18 (r := t) hK ?_ ht0 ht1
    rw [← h1, ← h2, hsplit]
    grind
  rw [hA]
  exact (mod_unique_c18 (q := q) hDK (by omega) hs0 hs1).symm

theorem dig_mod {A : Int} {D k : Nat} (hk : k < D) : dig k (A % (10 : Int) ^ D) = dig k A := by
  unfold dig
  rw [quot_mod (Nat.le_of_lt hk)]
  apply Int.emod_emod_of_dvd
  have : D - k = (D - k - 1) + 1 := by omega
  rw [this, Int.pow_succ]
  exact Int.dvd_mul_left _ _

theorem quot_quot {A : Int} {j k : Nat} (h : j ≤ k) :
    A / (10 : Int) ^ k = A / (10 : Int) ^ j / (10 : Int) ^ (k - j) := by
  rw [Int.ediv_ediv_of_nonneg (Int.le_of_lt (p10_pos _)), ← Int.pow_add]
  congr 2; omega

/-- **link rule for the reduced codes**: from `LinkE e A B` with `e < depth`, at every level `k < depth`
the prefixes above `k` differ, or the digits at `k` agree, or the digit of `B` is odd and smaller -/
theorem LinkE.final {e D : Nat} {A B : Int} (h : LinkE e A B) (he : e < D) (k : Nat) (hk : k < D) :
    pre k (A % (10 : Int) ^ D) ≠ pre k (B % (10 : Int) ^ D) ∨
    dig k (B % (10 : Int) ^ D) = dig k (A % (10 : Int) ^ D) ∨
    (dig k (B % (10 : Int) ^ D) % 2 = 1 ∧ dig k (B % (10 : Int) ^ D) < dig k (A % (10 : Int) ^ D)) := by
  obtain ⟨h1, h2, h3⟩ := h
  rw [dig_mod hk, dig_mod hk]
  by_cases hke : k = e
  · subst hke; exact Or.inr (Or.inr ⟨h2, h3⟩)
  · by_cases hlt : e < k
    · right; left
      unfold dig
      have hA := quot_quot (A := A) (j := e + 1) (k := k) (by omega)
      have hB := quot_quot (A := B) (j := e + 1) (k := k) (by omega)
      have hA1 : A / (10 : Int) ^ (e + 1) = A / (10 : Int) ^ e / 10 := by
        rw [Int.pow_succ, Int.ediv_ediv_of_nonneg (Int.le_of_lt (p10_pos _))]
      have hB1 : B / (10 : Int) ^ (e + 1) = B / (10 : Int) ^ e / 10 := by
        rw [Int.pow_succ, Int.ediv_ediv_of_nonneg (Int.le_of_lt (p10_pos _))]
      rw [hA, hB, hA1, hB1, h1]
    · left
      intro hpre
      unfold pre at hpre
      have hA := quot_quot (A := A % (10 : Int) ^ D) (j := k + 1) (k := e) (by omega)
      have hB := quot_quot (A := B % (10 : Int) ^ D) (j := k + 1) (k := e) (by omega)
      have heq : (A % (10 : Int) ^ D) / (10 : Int) ^ e = (B % (10 : Int) ^ D) / (10 : Int) ^ e := by
        rw [hA, hB, hpre]
      have hdA := dig_mod (A := A) (D := D) (k := e) he
      have hdB := dig_mod (A := B) (D := D) (k := e) he
      unfold dig at hdA hdB h3
      rw [heq] at hdA
      omega

end Pf.C18
