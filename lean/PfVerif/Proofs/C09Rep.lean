import PfVerif.Proofs.C09Collect
/-! The pixel loop of `dmm_exitcell` / `eam_repcell` selects, per coarse cell, the first candidate pixel of
maximal (positive) upstream area (C09). Core Lean only. -/
namespace Pf

/-- candidate pixels: valid, and a pit or inside the candidate area (cell edge / effective area) -/
def IsCand (ds : Array Nat) (cand : Nat → Bool) (p : Nat) : Prop :=
  ds[p]! ≠ ds.size ∧ (ds[p]! = p ∨ cand p = true)

/-- state of the loop after the pixels `< k` have been processed, for coarse cell `c` -/
def RepCell (ds : Array Nat) (upa : Array Int) (cand : Nat → Bool) (cell : Nat → Nat)
    (k c r : Nat) (best : Int) : Prop :=
  (r = ds.size ∧ best = 0 ∧ ∀ j, j < k → IsCand ds cand j → cell j = c → upa[j]! ≤ 0) ∨
  (r < k ∧ IsCand ds cand r ∧ cell r = c ∧ best = upa[r]! ∧ 0 < upa[r]! ∧
    (∀ j, j < k → IsCand ds cand j → cell j = c → upa[j]! ≤ upa[r]!) ∧
    (∀ j, j < r → IsCand ds cand j → cell j = c → upa[j]! < upa[r]!))

theorem repStep_size (ds : Array Nat) (upa : Array Int) (cand : Nat → Bool) (cell : Nat → Nat)
    (st : Array Nat × Array Int) (p : Nat) :
    (repStep ds upa cand cell st p).1.size = st.1.size ∧ (repStep ds upa cand cell st p).2.size = st.2.size := by
  unfold repStep
  split
  · exact ⟨rfl, rfl⟩
  · split
    · split
      · simp
      · exact ⟨rfl, rfl⟩
    · exact ⟨rfl, rfl⟩

theorem repFold_succ (ds : Array Nat) (upa : Array Int) (cand : Nat → Bool) (cell : Nat → Nat) (ncell k : Nat) :
    repFold ds upa cand cell ncell (k+1) = repStep ds upa cand cell (repFold ds upa cand cell ncell k) k := by
  simp [repFold, List.range_succ, List.foldl_append]

theorem repFold_inv (ds : Array Nat) (upa : Array Int) (cand : Nat → Bool) (cell : Nat → Nat) (ncell : Nat) :
    ∀ k, k ≤ ds.size →
      (repFold ds upa cand cell ncell k).1.size = ncell ∧ (repFold ds upa cand cell ncell k).2.size = ncell ∧
      ∀ c, c < ncell → RepCell ds upa cand cell k c (repFold ds upa cand cell ncell k).1[c]!
        (repFold ds upa cand cell ncell k).2[c]! := by
  intro k
  induction k with
  | zero =>
    intro _
    refine ⟨by simp [repFold], by simp [repFold], fun c hc => Or.inl ?_⟩
    simp [repFold, hc]
  | succ k ih =>
    intro hk
    obtain ⟨hs1, hs2, hinv⟩ := ih (by omega)
    rw [repFold_succ]
    obtain ⟨st, hst⟩ : ∃ st, st = repFold ds upa cand cell ncell k := ⟨_, rfl⟩
    rw [← hst] at hs1 hs2 hinv ⊢
    have hsz := repStep_size ds upa cand cell st k
    refine ⟨by rw [hsz.1, hs1], by rw [hsz.2, hs2], fun c hc => ?_⟩
    have hold := hinv c hc
    -- a pixel that is not a candidate, or lies in another cell, changes nothing for cell c
    have keep : (∀ j, j = k → IsCand ds cand j → cell j = c → False) →
        RepCell ds upa cand cell (k+1) c st.1[c]! st.2[c]! := by
      intro hno
      rcases hold with ⟨h1, h2, h3⟩ | ⟨h1, h2, h3, h4, h5, h6, h7⟩
      · refine Or.inl ⟨h1, h2, fun j hj hcj hcc => ?_⟩
        by_cases hjk : j = k
        · exact (hno j hjk hcj hcc).elim
        · exact h3 j (by omega) hcj hcc
      · refine Or.inr ⟨by omega, h2, h3, h4, h5, fun j hj hcj hcc => ?_, h7⟩
        by_cases hjk : j = k
        · exact (hno j hjk hcj hcc).elim
        · exact h6 j (by omega) hcj hcc
    unfold repStep
    split
    · rename_i hmv
      exact keep (fun j hj hcj _ => hcj.1 (hj ▸ hmv))
    · rename_i hv
      split
      · rename_i hcand
        have hck : IsCand ds cand k := ⟨hv, hcand⟩
        by_cases hcc : cell k = c
        · -- the pixel lies in cell c
          split
          · rename_i hgt
            rw [hcc] at hgt ⊢
            simp only [get!_setIfInBounds, hs1, hs2, hc, and_self, if_true]
            refine Or.inr ⟨by omega, hck, hcc, rfl, ?_, ?_, ?_⟩
            · rcases hold with ⟨_, h2, _⟩ | ⟨_, _, _, h4, h5, _, _⟩ <;> omega
            · intro j hj hcj hcj2
              by_cases hjk : j = k
              · subst hjk; exact Int.le_refl _
              · rcases hold with ⟨_, h2, h3⟩ | ⟨_, _, _, h4, _, h6, _⟩
                · have := h3 j (by omega) hcj hcj2; omega
                · have := h6 j (by omega) hcj hcj2; omega
            · intro j hj hcj hcj2
              rcases hold with ⟨_, h2, h3⟩ | ⟨_, _, _, h4, _, h6, _⟩
              · have := h3 j hj hcj hcj2; omega
              · have := h6 j hj hcj hcj2; omega
          · rename_i hle
            rw [hcc] at hle
            rcases hold with ⟨h1, h2, h3⟩ | ⟨h1, h2, h3, h4, h5, h6, h7⟩
            · refine Or.inl ⟨h1, h2, fun j hj hcj hcj2 => ?_⟩
              by_cases hjk : j = k
              · subst hjk; omega
              · exact h3 j (by omega) hcj hcj2
            · refine Or.inr ⟨by omega, h2, h3, h4, h5, fun j hj hcj hcj2 => ?_, h7⟩
              by_cases hjk : j = k
              · subst hjk; omega
              · exact h6 j (by omega) hcj hcj2
        · -- the pixel lies in another cell
          have hk' := keep (fun j hj _ hcj => hcc (hj ▸ hcj))
          split
          · have hne : ¬ (cell k = c ∧ cell k < ncell) := fun h => hcc h.1
            simp only [get!_setIfInBounds, hs1, hs2, hne, if_false]
            exact hk'
          · exact hk'
      · rename_i hnc
        exact keep (fun j hj hcj _ => hnc (hj ▸ hcj.2))

/-- **characterisation of the representative / exit pixel** of every coarse cell -/
theorem repCells_spec (ds : Array Nat) (upa : Array Int) (cand : Nat → Bool) (cell : Nat → Nat) (ncell : Nat) :
    (repCells ds upa cand cell ncell).size = ncell ∧
    ∀ c, c < ncell →
      let r := (repCells ds upa cand cell ncell)[c]!
      (r = ds.size ∧ ∀ j, j < ds.size → IsCand ds cand j → cell j = c → upa[j]! ≤ 0) ∨
      (r < ds.size ∧ IsCand ds cand r ∧ cell r = c ∧ 0 < upa[r]! ∧
        (∀ j, j < ds.size → IsCand ds cand j → cell j = c → upa[j]! ≤ upa[r]!) ∧
        (∀ j, j < r → IsCand ds cand j → cell j = c → upa[j]! < upa[r]!)) := by
  obtain ⟨h1, _, h3⟩ := repFold_inv ds upa cand cell ncell ds.size (Nat.le_refl _)
  refine ⟨h1, fun c hc => ?_⟩
  rcases h3 c hc with ⟨a, _, b⟩ | ⟨a, b, c', _, d, e, f⟩
  · exact Or.inl ⟨a, b⟩
  · exact Or.inr ⟨a, b, c', d, e, f⟩

end Pf
