import PfVerif.Proofs.C09Geom
import PfVerif.Proofs.C09Rep
/-! Loop-freeness of the coarse networks of dmm / eam / eam_plus by construction (C09): along every coarse link
that is not a self-link the upstream area of the representative (exit / outlet) pixel strictly increases, provided
the upstream area strictly increases along the fine network. Core Lean only. -/
namespace Pf

/-- the upstream area strictly increases downstream (true of every accumulation of positive cell areas) -/
def UpaMono (ds : Array Nat) (upa : Array Int) : Prop :=
  ∀ p, ValidPx ds p → ds[p]! ≠ p → upa[p]! < upa[ds[p]!]!

theorem exists_bound (f : Nat → Int) : ∀ n, ∃ B, ∀ i, i < n → f i ≤ B := by
  intro n
  induction n with
  | zero => exact ⟨0, fun i hi => absurd hi (Nat.not_lt_zero i)⟩
  | succ n ih =>
    obtain ⟨B, hB⟩ := ih
    refine ⟨max B (f n), fun i hi => ?_⟩
    by_cases h : i = n
    · subst h; exact Int.le_max_right _ _
    · exact Int.le_trans (hB i (by omega)) (Int.le_max_left _ _)

/-- a measure that strictly increases along every link that is not a self-link excludes loops: every valid cell
reaches a pit -/
theorem loopfree_of_measure (cds : Array Nat) (μ : Nat → Int)
    (hwf : ∀ c, c < cds.size → cds[c]! ≠ cds.size → cds[c]! < cds.size ∧ cds[cds[c]!]! ≠ cds.size)
    (hμ : ∀ c, c < cds.size → cds[c]! ≠ cds.size → cds[c]! ≠ c → μ c < μ cds[c]!) :
    ∀ c, c < cds.size → cds[c]! ≠ cds.size →
      ∃ k, iterA cds k c < cds.size ∧ cds[iterA cds k c]! = iterA cds k c := by
  obtain ⟨B, hB⟩ := exists_bound μ cds.size
  have key : ∀ (n : Nat) (c : Nat), c < cds.size → cds[c]! ≠ cds.size → (B - μ c).toNat ≤ n →
      ∃ k, iterA cds k c < cds.size ∧ cds[iterA cds k c]! = iterA cds k c := by
    intro n
    induction n with
    | zero =>
      intro c hc hv hn
      by_cases hp : cds[c]! = c
      · exact ⟨0, by simpa [iterA] using hc, by simpa [iterA] using hp⟩
      · have h1 := hμ c hc hv hp
        have h2 := hB _ (hwf c hc hv).1
        omega
    | succ n ih =>
      intro c hc hv hn
      by_cases hp : cds[c]! = c
      · exact ⟨0, by simpa [iterA] using hc, by simpa [iterA] using hp⟩
      · have h1 := hμ c hc hv hp
        have h2 := hB _ (hwf c hc hv).1
        obtain ⟨k, hk1, hk2⟩ := ih cds[c]! (hwf c hc hv).1 (hwf c hc hv).2 (by omega)
        exact ⟨k + 1, by simpa [iterA] using hk1, by simpa [iterA] using hk2⟩
  intro c hc hv
  exact key _ c hc hv (Nat.le_refl _)

/-! ### `eam_nextidx` -/

/-- the coarse link of `eam` points to the cell of a candidate pixel (pit or effective area) that is the start
pixel itself or has larger upstream area -/
theorem eamTrace_meas (ds : Array Nat) (ea : Array Bool) (cell : Nat → Nat) (idx0 : Nat) (upa : Array Int)
    (hwf : FineWF ds) (hm : UpaMono ds upa) (p0 : Nat) :
    ∀ fuel p r, eamTrace ds ea cell idx0 fuel p = some r → ValidPx ds p → (p = p0 ∨ upa[p0]! < upa[p]!) →
      ∃ q, ValidPx ds q ∧ r = cell q ∧ (ds[q]! = q ∨ ea[q]! = true) ∧ (q = p0 ∨ upa[p0]! < upa[q]!) := by
  intro fuel
  induction fuel with
  | zero => intro p r h; simp [eamTrace] at h
  | succ f ih =>
    intro p r h hp hl
    simp only [eamTrace] at h
    split at h
    · rename_i hpit
      simp only [Option.some.injEq] at h
      exact ⟨p, hp, by rw [← h, hpit], Or.inl hpit, hl⟩
    · rename_i hnp
      have hlt := hm p hp hnp
      have hl1 : upa[p0]! < upa[ds[p]!]! := by
        rcases hl with hl | hl
        · rw [← hl]; exact hlt
        · omega
      split at h
      · rename_i hc
        simp only [Option.some.injEq] at h
        exact ⟨_, hwf.next hp, h.symm, Or.inr hc.2, Or.inr hl1⟩
      · exact ih _ _ h (hwf.next hp) (Or.inr hl1)

/-! ### `ihu_nextidx` -/

/-- the pixel the coarse link of the first pass of `ihu` is derived from is the outlet pixel itself (then it is
a pit) or has larger upstream area, and it is an outlet pixel, a pit or an effective-area pixel -/
theorem ihuNextTrace_meas (ds out : Array Nat) (ea : Array Bool) (cell : Nat → Nat) (ncol idx0 : Nat)
    (upa : Array Int) (hwf : FineWF ds) (hm : UpaMono ds upa) (p0 : Nat) :
    ∀ fuel p sd r, ihuNextTrace ds out ea cell ncol idx0 fuel p sd = some r → ValidPx ds p →
      (p = p0 ∨ upa[p0]! < upa[p]!) →
      (∀ q, sd = some q → ValidPx ds q ∧ ea[q]! = true ∧ upa[p0]! < upa[q]!) →
      ∀ q, r.1 = some q → ValidPx ds q ∧ (out[cell q]! = q ∨ ds[q]! = q ∨ ea[q]! = true) ∧
        ((q = p0 ∧ ds[q]! = q) ∨ upa[p0]! < upa[q]!) := by
  intro fuel
  induction fuel with
  | zero => intro p sd r h; simp [ihuNextTrace] at h
  | succ f ih =>
    intro p sd r h hp hl hsd q hq
    simp only [ihuNextTrace] at h
    split at h
    · rename_i hstop
      split at h
      · simp only [Option.some.injEq] at h; subst h
        obtain ⟨a, b, c⟩ := hsd q hq
        exact ⟨a, Or.inr (Or.inr b), Or.inr c⟩
      · simp only [Option.some.injEq] at h; subst h
        simp only [Option.some.injEq] at hq; subst hq
        refine ⟨hwf.next hp, ?_, ?_⟩
        · rcases hstop with hs | hs
          · exact Or.inl hs
          · exact Or.inr (Or.inl (by rw [hs, hs]))
        · by_cases hpit : ds[p]! = p
          · rw [hpit]
            rcases hl with hl | hl
            · exact Or.inl ⟨hl, by rw [hpit]⟩
            · exact Or.inr hl
          · have := hm p hp hpit
            right
            rcases hl with hl | hl
            · rw [← hl]; exact this
            · omega
    · rename_i hcont
      have hnp : ds[p]! ≠ p := fun e => hcont (Or.inr e)
      have hlt := hm p hp hnp
      have hl1 : upa[p0]! < upa[ds[p]!]! := by
        rcases hl with hl | hl
        · rw [← hl]; exact hlt
        · omega
      refine ih _ _ _ h (hwf.next hp) (Or.inr hl1) ?_ q hq
      intro q' hq'
      split at hq'
      · rename_i hc
        simp only [Option.some.injEq] at hq'; subst hq'
        exact ⟨hwf.next hp, hc.2, hl1⟩
      · exact hsd q' hq'

/-! ### `dmm_nextidx` -/

/-- a D8 step that changes the coarse row / column lands on the first or last row / column of a coarse cell -/
theorem edge_axis (cs x x' : Nat) (hcs : 0 < cs) (hs : StepAx x x') (hne : x / cs ≠ x' / cs) :
    x' % cs = 0 ∨ x' % cs + 1 = cs := by
  obtain ⟨s1, s2⟩ := hs
  by_cases h1 : x' = x + 1
  · left
    subst h1
    rw [Nat.succ_div] at hne
    by_cases hd : cs ∣ x + 1
    · exact Nat.mod_eq_zero_of_dvd hd
    · simp [hd] at hne
  · have h2 : x = x' + 1 := by
      by_cases h3 : x = x'
      · subst h3; exact absurd rfl hne
      · omega
    right
    subst h2
    rw [Nat.succ_div] at hne
    by_cases hd : cs ∣ x' + 1
    · have hmod := Nat.mod_eq_zero_of_dvd hd
      have hdm := Nat.div_add_mod x' cs
      have hlt := Nat.mod_lt x' hcs
      by_cases hr : x' % cs + 1 < cs
      · have := (div_mod_of_bounds (x' + 1) cs (x' / cs) (by rw [Nat.mul_comm]; omega)
          (by rw [Nat.mul_comm]; omega)).2
        rw [Nat.mul_comm] at this
        omega
      · omega
    · simp [hd] at hne

theorem edge_of_crossing (g : Geo) (ds : Array Nat) (hg : g.OK ds) (p p1 : Nat) (hp : p < ds.size)
    (hp1 : p1 < ds.size) (hd8 : inD8 p p1 g.subncol = true) (hne : g.cell p ≠ g.cell p1) :
    cellEdge p1 g.subncol g.cs = true := by
  obtain ⟨s1, s2⟩ := (inD8_iff _ _ _).mp hd8
  have hr := g.cell_row ds hg p hp
  have hc := g.cell_col ds hg p hp
  have hr1 := g.cell_row ds hg p1 hp1
  have hc1 := g.cell_col ds hg p1 hp1
  have hdiff : (p / g.subncol) / g.cs ≠ (p1 / g.subncol) / g.cs ∨ (p % g.subncol) / g.cs ≠ (p1 % g.subncol) / g.cs := by
    apply Classical.byContradiction
    intro hcon
    have h1 : (p / g.subncol) / g.cs = (p1 / g.subncol) / g.cs := by
      apply Classical.byContradiction; intro h; exact hcon (Or.inl h)
    have h2 : (p % g.subncol) / g.cs = (p1 % g.subncol) / g.cs := by
      apply Classical.byContradiction; intro h; exact hcon (Or.inr h)
    apply hne
    have a := Nat.div_add_mod (g.cell p) g.ncol
    have b := Nat.div_add_mod (g.cell p1) g.ncol
    rw [hr, hc, h1, h2] at a
    rw [hr1, hc1] at b
    omega
  unfold cellEdge
  simp only [Bool.or_eq_true, beq_iff_eq]
  rcases hdiff with h | h
  · rcases edge_axis g.cs _ _ hg.cs s2 h with e | e
    · exact Or.inl (Or.inl (Or.inl e))
    · exact Or.inl (Or.inr e)
  · rcases edge_axis g.cs _ _ hg.cs s1 h with e | e
    · exact Or.inl (Or.inl (Or.inr e))
    · exact Or.inr e

/-- the pixel at which the trace of `dmm_nextidx` ends lies in the start cell, or its coarse cell contains a
candidate pixel (on the cell edge, or a pit) with larger upstream area than the exit pixel the trace started from -/
theorem dmmTrace_meas (ds : Array Nat) (g : Geo) (outside : Nat → Bool) (idx0 : Nat) (upa : Array Int)
    (hg : g.OK ds) (hwf : FineWF ds) (hd8 : FineD8 ds g.subncol) (hm : UpaMono ds upa) (p0 : Nat) :
    ∀ fuel p idx r, dmmTrace ds g.cell outside idx0 fuel p idx = some r → ValidPx ds p → idx = g.cell p →
      (p = p0 ∨ upa[p0]! < upa[p]!) →
      (g.cell p = idx0 ∨ ∃ e, ValidPx ds e ∧ g.cell e = g.cell p ∧ cellEdge e g.subncol g.cs = true ∧
        upa[p0]! < upa[e]!) →
      r = idx0 ∨ ∃ e, ValidPx ds e ∧ g.cell e = r ∧ cellEdge e g.subncol g.cs = true ∧ upa[p0]! < upa[e]! := by
  intro fuel
  induction fuel with
  | zero => intro p idx r h; simp [dmmTrace] at h
  | succ f ih =>
    intro p idx r h hp hidx hl hE
    simp only [dmmTrace] at h
    have fin : r = idx → r = idx0 ∨ ∃ e, ValidPx ds e ∧ g.cell e = r ∧ cellEdge e g.subncol g.cs = true ∧
        upa[p0]! < upa[e]! := by
      intro hr
      rw [hr, hidx]
      exact hE
    split at h
    · simp only [Option.some.injEq] at h; exact fin h.symm
    · rename_i hnp
      split at h
      · simp only [Option.some.injEq] at h; exact fin h.symm
      · have hp1 := hwf.next hp
        have hlt := hm p hp hnp
        have hl1 : upa[p0]! < upa[ds[p]!]! := by
          rcases hl with hl | hl
          · rw [← hl]; exact hlt
          · omega
        refine ih _ _ _ h hp1 rfl (Or.inr hl1) ?_
        by_cases hsame : g.cell p = g.cell ds[p]!
        · rcases hE with hE | ⟨e, he1, he2, he3, he4⟩
          · exact Or.inl (hsame ▸ hE)
          · exact Or.inr ⟨e, he1, by rw [he2, hsame], he3, he4⟩
        · exact Or.inr ⟨_, hp1, rfl, edge_of_crossing g ds hg p _ hp.1 hp1.1 (hd8 p hp.1 hp.2) hsame, hl1⟩

/-- the upstream area does not decrease along the flow path -/
theorem upa_iter_le (ds : Array Nat) (upa : Array Int) (hwf : FineWF ds) (hm : UpaMono ds upa) :
    ∀ k p, ValidPx ds p → ValidPx ds (iterA ds k p) ∧ upa[p]! ≤ upa[iterA ds k p]! := by
  intro k
  induction k with
  | zero => intro p hp; exact ⟨by simpa [iterA] using hp, by simp [iterA]⟩
  | succ k ih =>
    intro p hp
    obtain ⟨h1, h2⟩ := ih ds[p]! (hwf.next hp)
    refine ⟨by simpa [iterA] using h1, ?_⟩
    have h3 : upa[p]! ≤ upa[ds[p]!]! := by
      by_cases hpit : ds[p]! = p
      · rw [hpit]; exact Int.le_refl _
      · exact Int.le_of_lt (hm p hp hpit)
    simp only [iterA]
    omega

end Pf
