import PfVerif.Model.C14
/-! Helper lemmas for C14 (core Lean only). -/
namespace Pf

/-! ### downstream -/
theorem downstream_get (ds : Array Nat) (data : Array Int) (i : Nat) (hi : i < ds.size) :
    (downstreamModel ds data)[i]! = if ds[i]! ≠ ds.size then data[ds[i]!]! else data[i]! := by
  simp [downstreamModel, hi]

/-! ### upstream_sum -/
/-- partial sum over the inflow cells `< k` of `j` that hold a value -/
def partialUp (ds : Array Nat) (data : Array Int) (nd : Int) (j k : Nat) : Int :=
  ((((List.range k).filter fun i => ds[i]! == j && i != j).filter fun i => data[i]! != nd).map
    fun i => data[i]!).sum

theorem partialUp_succ (ds : Array Nat) (data : Array Int) (nd : Int) (j k : Nat) :
    partialUp ds data nd j (k+1) = partialUp ds data nd j k +
      (if ds[k]! = j ∧ k ≠ j ∧ data[k]! ≠ nd then data[k]! else 0) := by
  unfold partialUp
  rw [List.range_succ, List.filter_append, List.filter_append, List.map_append, List.sum_append]
  congr 1
  by_cases h1 : ds[k]! = j <;> by_cases h2 : k = j <;> by_cases h3 : data[k]! = nd <;>
    simp [List.filter_cons, h1, h2, h3]

theorem upstreamSumStep_size (ds : Array Nat) (data : Array Int) (nd : Int) (arr : Array Int) (k : Nat) :
    (upstreamSumStep ds data nd arr k).size = arr.size := by
  unfold upstreamSumStep
  simp only []
  split
  · split <;> simp
  · rfl

theorem upstreamSum_size (ds : Array Nat) (data : Array Int) (nd : Int) (k : Nat) :
    ((List.range k).foldl (upstreamSumStep ds data nd) (Array.replicate ds.size 0)).size = ds.size := by
  induction k with
  | zero => simp
  | succ k ih =>
    rw [List.range_succ, List.foldl_append]
    simp only [List.foldl_cons, List.foldl_nil]
    rw [upstreamSumStep_size, ih]

theorem upstreamSumStep_get (ds : Array Nat) (data : Array Int) (nd : Int) (arr : Array Int) (k j : Nat)
    (hsz : arr.size = ds.size) (hj : j < ds.size)
    (hfix : upstreamSumFixed ds data nd j = true) :
    (upstreamSumStep ds data nd arr k)[j]! =
      arr[j]! + (if ds[k]! = j ∧ k ≠ j ∧ data[k]! ≠ nd then data[k]! else 0) := by
  simp only [upstreamSumFixed, Bool.and_eq_true, bne_iff_ne, ne_eq, Bool.or_eq_true, beq_iff_eq] at hfix
  unfold upstreamSumStep
  simp only []
  split
  · split
    · rw [get!_setIfInBounds]; grind
    · rw [get!_setIfInBounds]; grind
  · grind

theorem upstreamSum_inv (ds : Array Nat) (data : Array Int) (nd : Int) (j : Nat) (hj : j < ds.size)
    (hfix : upstreamSumFixed ds data nd j = true) (k : Nat) :
    ((List.range k).foldl (upstreamSumStep ds data nd) (Array.replicate ds.size 0))[j]! =
      partialUp ds data nd j k := by
  induction k with
  | zero => simp [partialUp, hj]
  | succ k ih =>
    rw [partialUp_succ, ← ih, List.range_succ, List.foldl_append]
    simp only [List.foldl_cons, List.foldl_nil]
    rw [upstreamSumStep_get ds data nd _ k j (upstreamSum_size ds data nd k) hj hfix]

/-! ### upstream_sum on the full domain -/

def partialUp2 (ds : Array Nat) (data : Array Int) (nd : Int) (j k : Nat) : Int :=
  ((((List.range k).filter fun i => ds[i]! == j && i != j).filter fun i =>
      data[i]! != nd && data[j]! != nd && (!upsumFlagged ds data nd j || decide (j < i))).map
    fun i => data[i]!).sum

theorem partialUp2_succ (ds : Array Nat) (data : Array Int) (nd : Int) (j k : Nat) :
    partialUp2 ds data nd j (k+1) = partialUp2 ds data nd j k +
      (if ds[k]! = j ∧ k ≠ j ∧ data[k]! ≠ nd ∧ data[j]! ≠ nd ∧ (upsumFlagged ds data nd j = true → j < k)
       then data[k]! else 0) := by
  unfold partialUp2
  rw [List.range_succ, List.filter_append, List.filter_append, List.map_append, List.sum_append]
  congr 1
  by_cases h1 : ds[k]! = j <;> by_cases h2 : k = j <;> by_cases h3 : data[k]! = nd <;>
    by_cases h4 : data[j]! = nd <;> by_cases h5 : upsumFlagged ds data nd j = true <;>
    by_cases h6 : j < k <;> simp [h1, h2, h3, h4, h5, h6]

theorem partialUp2_flagged_zero (ds : Array Nat) (data : Array Int) (nd : Int) (j : Nat)
    (hf : upsumFlagged ds data nd j = true) : ∀ k, k ≤ j + 1 → partialUp2 ds data nd j k = 0 := by
  intro k
  induction k with
  | zero => intro _; simp [partialUp2]
  | succ k ih =>
    intro hk
    rw [partialUp2_succ, ih (by omega)]
    have : ¬ (j < k) := by omega
    simp [hf, this]

theorem upstreamSumStep_get_full (ds : Array Nat) (data : Array Int) (nd : Int) (arr : Array Int) (k j : Nat)
    (hsz : arr.size = ds.size) (hj : j < ds.size) :
    (upstreamSumStep ds data nd arr k)[j]! =
      if k = j ∧ upsumFlagged ds data nd j = true then nd
      else if ds[k]! = j ∧ k ≠ j ∧ data[k]! ≠ nd ∧ data[j]! ≠ nd then arr[j]! + data[k]! else arr[j]! := by
  unfold upstreamSumStep upsumFlagged
  simp only [Bool.and_eq_true, bne_iff_ne, ne_eq, Bool.or_eq_true, beq_iff_eq]
  split
  · split
    · rw [get!_setIfInBounds]; grind
    · rw [get!_setIfInBounds]; grind
  · grind

theorem upstreamSum_inv_full (ds : Array Nat) (data : Array Int) (nd : Int) (j : Nat) (hj : j < ds.size) (k : Nat) :
    (upsumFlagged ds data nd j = true → j < k →
      ((List.range k).foldl (upstreamSumStep ds data nd) (Array.replicate ds.size 0))[j]! =
        nd + partialUp2 ds data nd j k) ∧
    (upsumFlagged ds data nd j = false →
      ((List.range k).foldl (upstreamSumStep ds data nd) (Array.replicate ds.size 0))[j]! =
        partialUp2 ds data nd j k) := by
  induction k with
  | zero =>
    refine ⟨fun _ h => absurd h (Nat.not_lt_zero _), fun _ => ?_⟩
    simp [partialUp2, hj]
  | succ k ih =>
    rw [partialUp2_succ, List.range_succ, List.foldl_append]
    simp only [List.foldl_cons, List.foldl_nil]
    rw [upstreamSumStep_get_full ds data nd _ k j (upstreamSum_size ds data nd k) hj]
    obtain ⟨ih1, ih2⟩ := ih
    constructor
    · intro hf hjk
      by_cases hkj : k = j
      · subst hkj
        rw [if_pos ⟨rfl, hf⟩, partialUp2_flagged_zero ds data nd k hf k (by omega)]
        simp
      · have hlt : j < k := by omega
        rw [if_neg (fun h => hkj h.1), ih1 hf hlt]
        by_cases hc : ds[k]! = j ∧ k ≠ j ∧ data[k]! ≠ nd ∧ data[j]! ≠ nd
        · rw [if_pos hc, if_pos ⟨hc.1, hc.2.1, hc.2.2.1, hc.2.2.2, fun _ => hlt⟩]; omega
        · rw [if_neg hc, if_neg (fun h => hc ⟨h.1, h.2.1, h.2.2.1, h.2.2.2.1⟩)]; omega
    · intro hf
      have hnf : ¬ (upsumFlagged ds data nd j = true) := by simp [hf]
      rw [if_neg (fun h => hnf h.2), ih2 hf]
      by_cases hc : ds[k]! = j ∧ k ≠ j ∧ data[k]! ≠ nd ∧ data[j]! ≠ nd
      · rw [if_pos hc, if_pos ⟨hc.1, hc.2.1, hc.2.2.1, hc.2.2.2, fun h => absurd h hnf⟩]
      · rw [if_neg hc, if_neg (fun h => hc ⟨h.1, h.2.1, h.2.2.1, h.2.2.2.1⟩)]; omega

/-! ### fillnodata_downstream -/

theorem mem_kids {ds : Array Nat} {seq : List Nat} {j c : Nat} (h : c ∈ kids ds seq j) :
    c ∈ seq ∧ ds[c]! = j ∧ c ≠ j := by
  simp only [kids, List.mem_filter, List.mem_reverse, Bool.and_eq_true, beq_iff_eq, bne_iff_ne] at h
  exact ⟨h.1, h.2.1, h.2.2⟩

/-- the loop body once `data[ds c] = nodata` is known -/
def pairStep (how : Nat) (acc vc : Int × Bool) : Int × Bool :=
  if vc.2 = true then (if acc.2 = false then (vc.1, true) else (mergeHow how vc.1 acc.1, true)) else acc

/-- `(data_out, filled)` of a cell whose own data is nodata, as a function of its optional value -/
def encNd (nd : Int) (o : Option Int) : Int × Bool :=
  match o with
  | none => (nd, false)
  | some v => (v, true)

theorem foldl_updFillDown (ds : Array Nat) (data : Array Int) (nd : Int) (how : Nat)
    (S : Array (Int × Bool)) (j : Nat) :
    ∀ (l : List Nat) (acc : Int × Bool), (∀ c ∈ l, ds[c]! = j) →
      l.foldl (fun acc c => updFillDown ds data nd how c acc S[c]!) acc =
        if data[j]! ≠ nd then acc else (l.map (fun c => S[c]!)).foldl (pairStep how) acc := by
  intro l
  induction l with
  | nil => intro acc _; simp
  | cons c l ih =>
    intro acc h
    have hc : ds[c]! = j := h c (by simp)
    rw [List.foldl_cons, ih _ (fun x hx => h x (by simp [hx]))]
    by_cases hd : data[j]! = nd
    · simp [hd, updFillDown, hc, pairStep]
    · simp [hd, updFillDown, hc]

theorem foldl_pairStep_enc (nd : Int) (how : Nat) :
    ∀ (l : List (Int × Bool)) (o : Option Int),
      l.foldl (pairStep how) (encNd nd o) = encNd nd ((l.map optOf).foldl (mergeOpt how) o) := by
  intro l
  induction l with
  | nil => intro o; rfl
  | cons x l ih =>
    intro o
    simp only [List.foldl_cons, List.map_cons]
    have : pairStep how (encNd nd o) x = encNd nd (mergeOpt how o (optOf x)) := by
      obtain ⟨v, b⟩ := x
      cases b <;> cases o <;> simp [pairStep, encNd, optOf, mergeOpt]
    rw [this, ih]

/-- a selecting merge rule (min / max) on optional branch values: the fold is `R`-below every
non-empty branch, is one of them, and is empty iff all branches are empty -/
theorem mergeFold_sel (how : Nat) (R : Int → Int → Prop) (hrefl : ∀ a, R a a)
    (htrans : ∀ a b c, R a b → R b c → R a c)
    (hsel : ∀ x a, mergeHow how x a = x ∨ mergeHow how x a = a)
    (hR : ∀ x a, R (mergeHow how x a) x ∧ R (mergeHow how x a) a) :
    ∀ (l : List (Option Int)) (acc : Option Int),
      (∀ v, some v ∈ l → ∃ r, l.foldl (mergeOpt how) acc = some r ∧ R r v) ∧
      (∀ a, acc = some a → ∃ r, l.foldl (mergeOpt how) acc = some r ∧ R r a) ∧
      (l.foldl (mergeOpt how) acc = none ↔ acc = none ∧ ∀ x ∈ l, x = none) ∧
      (∀ r, l.foldl (mergeOpt how) acc = some r → acc = some r ∨ some r ∈ l) := by
  intro l
  induction l with
  | nil =>
    intro acc
    exact ⟨by simp, fun a h => ⟨a, h, hrefl a⟩, by simp, fun r h => Or.inl h⟩
  | cons x l ih =>
    intro acc
    simp only [List.foldl_cons]
    cases x with
    | none =>
      have e : mergeOpt how acc none = acc := rfl
      rw [e]
      obtain ⟨i1, i2, i3, i4⟩ := ih acc
      refine ⟨?_, i2, ?_, ?_⟩
      · intro v hv
        rcases List.mem_cons.1 hv with h | h
        · cases h
        · exact i1 v h
      · rw [i3]
        constructor
        · rintro ⟨h1, h2⟩
          exact ⟨h1, fun y hy => by rcases List.mem_cons.1 hy with h | h; exact h; exact h2 y h⟩
        · rintro ⟨h1, h2⟩
          exact ⟨h1, fun y hy => h2 y (List.mem_cons_of_mem _ hy)⟩
      · intro r hr
        rcases i4 r hr with h | h
        · exact Or.inl h
        · exact Or.inr (List.mem_cons_of_mem _ h)
    | some x =>
      cases acc with
      | none =>
        have e : mergeOpt how none (some x) = some x := rfl
        rw [e]
        obtain ⟨i1, i2, i3, i4⟩ := ih (some x)
        obtain ⟨r0, j1, j2⟩ := i2 x rfl
        refine ⟨?_, (fun a h => by cases h), ?_, ?_⟩
        · intro v hv
          rcases List.mem_cons.1 hv with h | h
          · cases h; exact ⟨r0, j1, j2⟩
          · exact i1 v h
        · constructor
          · intro h; rw [j1] at h; cases h
          · rintro ⟨_, h2⟩; have := h2 (some x) List.mem_cons_self; cases this
        · intro r hr
          rcases i4 r hr with h | h
          · exact Or.inr (by rw [← h]; exact List.mem_cons_self)
          · exact Or.inr (List.mem_cons_of_mem _ h)
      | some a =>
        have e : mergeOpt how (some a) (some x) = some (mergeHow how x a) := rfl
        rw [e]
        obtain ⟨i1, i2, i3, i4⟩ := ih (some (mergeHow how x a))
        obtain ⟨r0, j1, j2⟩ := i2 _ rfl
        obtain ⟨r1, r2⟩ := hR x a
        refine ⟨?_, ?_, ?_, ?_⟩
        · intro v hv
          rcases List.mem_cons.1 hv with h | h
          · cases h; exact ⟨r0, j1, htrans _ _ _ j2 r1⟩
          · exact i1 v h
        · intro a' h; cases h; exact ⟨r0, j1, htrans _ _ _ j2 r2⟩
        · constructor
          · intro h; rw [j1] at h; cases h
          · rintro ⟨h1, _⟩; cases h1
        · intro r hr
          rcases i4 r hr with h | h
          · rcases hsel x a with h' | h'
            · exact Or.inr (by rw [← h, h']; exact List.mem_cons_self)
            · exact Or.inl (by rw [← h, h'])
          · exact Or.inr (List.mem_cons_of_mem _ h)

theorem mergeBranches_sel (how : Nat) (R : Int → Int → Prop) (hrefl : ∀ a, R a a)
    (htrans : ∀ a b c, R a b → R b c → R a c)
    (hsel : ∀ x a, mergeHow how x a = x ∨ mergeHow how x a = a)
    (hR : ∀ x a, R (mergeHow how x a) x ∧ R (mergeHow how x a) a) (vals : List (Option Int)) :
    (∀ v, some v ∈ vals → ∃ r, mergeBranches how vals = some r ∧ R r v) ∧
    (mergeBranches how vals = none ↔ ∀ x ∈ vals, x = none) ∧
    (∀ r, mergeBranches how vals = some r → some r ∈ vals) := by
  obtain ⟨h1, _, h3, h4⟩ := mergeFold_sel how R hrefl htrans hsel hR vals none
  refine ⟨h1, ?_, fun r hr => ?_⟩
  · unfold mergeBranches; rw [h3]; simp
  · rcases h4 r hr with h | h
    · cases h
    · exact h

/-- the values present in a list of optional values -/
def somes (l : List (Option Int)) : List Int := l.filterMap id

theorem mergeFold_sum : ∀ (l : List (Option Int)) (acc : Option Int),
    l.foldl (mergeOpt 2) acc =
      match acc with
      | none => if ∀ x ∈ l, x = none then none else some (somes l).sum
      | some a => some (a + (somes l).sum) := by
  intro l
  induction l with
  | nil => intro acc; cases acc <;> simp [somes]
  | cons x l ih =>
    intro acc
    rw [List.foldl_cons, ih]
    cases x with
    | none => cases acc <;> simp [mergeOpt, somes]
    | some x =>
      cases acc with
      | none =>
        simp only [mergeOpt, somes, List.filterMap_cons, id]
        have : ¬ (∀ y ∈ some x :: l, y = none) := fun h => by
          have := h (some x) List.mem_cons_self; cases this
        simp [this]
      | some a =>
        simp only [mergeOpt, mergeHow, somes, List.filterMap_cons, id]
        simp [Int.add_assoc]

/-! ### `_window` -/

theorem windowDown_eq (ds : Array Nat) (strord : Option (Array Int)) (s0 : Int) :
    ∀ (k c : Nat) (acc : List Nat),
      windowDown ds strord s0 k c acc = acc.reverse ++ downList ds strord s0 k c := by
  intro k
  induction k with
  | zero => intro c acc; simp [windowDown, downList]
  | succ k ih =>
    intro c acc
    simp only [windowDown, downList, downOK, higherOrd]
    by_cases h1 : ds[c]! = c
    · simp [h1]
    · by_cases h2 : ds[c]! = ds.size
      · simp [h1, h2]
      · cases strord with
        | none => simp [h1, h2, ih]
        | some s =>
          by_cases h3 : s[ds[c]!]! > s0
          · simp [h1, h2, h3]
          · simp [h1, h2, h3, ih]

theorem windowUp_eq (ds usMain : Array Nat) :
    ∀ (k c : Nat) (acc : List Nat),
      windowUp ds usMain k c acc = (upList ds usMain k c).reverse ++ acc := by
  intro k
  induction k with
  | zero => intro c acc; simp [windowUp, upList]
  | succ k ih =>
    intro c acc
    simp only [windowUp, upList]
    by_cases h : usMain[c]! = ds.size
    · simp [h]
    · simp [h, ih]

theorem window_eq (ds usMain : Array Nat) (strord : Option (Array Int)) (n i : Nat) :
    window ds usMain strord n i =
      (upList ds usMain n i).reverse ++ [i] ++ downList ds strord (strord0 strord i) n i := by
  simp only [window, strord0, windowUp_eq, windowDown_eq]
  cases strord <;> simp

/-- elements of the downstream part are the iterates of `ds`, each step being allowed -/
theorem downList_get (ds : Array Nat) (strord : Option (Array Int)) (s0 : Int) :
    ∀ (k c m : Nat), m < (downList ds strord s0 k c).length →
      (downList ds strord s0 k c)[m]! = iterA ds (m+1) c ∧ downOK ds strord s0 (iterA ds m c) = true := by
  intro k
  induction k with
  | zero => intro c m h; simp [downList] at h
  | succ k ih =>
    intro c m h
    simp only [downList] at h ⊢
    by_cases hok : downOK ds strord s0 c = true
    · simp only [hok, if_true] at h ⊢
      cases m with
      | zero => simp [iterA, hok]
      | succ m =>
        have h' : m < (downList ds strord s0 k ds[c]!).length := by simpa using h
        have := ih ds[c]! m h'
        simpa [iterA] using this
    · simp [hok] at h

/-- the downstream part has at most `k` cells and stops early only where no step is allowed -/
theorem downList_len (ds : Array Nat) (strord : Option (Array Int)) (s0 : Int) :
    ∀ (k c : Nat), (downList ds strord s0 k c).length ≤ k ∧
      ((downList ds strord s0 k c).length < k →
        downOK ds strord s0 (iterA ds (downList ds strord s0 k c).length c) = false) := by
  intro k
  induction k with
  | zero => intro c; simp [downList]
  | succ k ih =>
    intro c
    simp only [downList]
    cases hok : downOK ds strord s0 c with
    | true =>
      simp only [if_true, List.length_cons]
      obtain ⟨h1, h2⟩ := ih ds[c]!
      refine ⟨by omega, fun h => ?_⟩
      simpa [iterA] using h2 (by omega)
    | false => simp [iterA, hok]

theorem upList_get (ds usMain : Array Nat) :
    ∀ (k c m : Nat), m < (upList ds usMain k c).length →
      (upList ds usMain k c)[m]! = iterA usMain (m+1) c ∧ usMain[iterA usMain m c]! ≠ ds.size := by
  intro k
  induction k with
  | zero => intro c m h; simp [upList] at h
  | succ k ih =>
    intro c m h
    simp only [upList] at h ⊢
    by_cases hok : usMain[c]! = ds.size
    · simp [hok] at h
    · simp only [hok, ne_eq, not_false_eq_true, if_true] at h ⊢
      cases m with
      | zero => simp [iterA, hok]
      | succ m =>
        have h' : m < (upList ds usMain k usMain[c]!).length := by simpa using h
        have := ih usMain[c]! m h'
        simpa [iterA] using this

theorem upList_len (ds usMain : Array Nat) :
    ∀ (k c : Nat), (upList ds usMain k c).length ≤ k ∧
      ((upList ds usMain k c).length < k →
        usMain[iterA usMain (upList ds usMain k c).length c]! = ds.size) := by
  intro k
  induction k with
  | zero => intro c; simp [upList]
  | succ k ih =>
    intro c
    simp only [upList]
    by_cases hok : usMain[c]! = ds.size
    · simp only [hok, ne_eq, not_true_eq_false, if_false, List.length_nil]
      exact ⟨by omega, fun _ => by simpa [iterA] using hok⟩
    · simp only [hok, ne_eq, not_false_eq_true, if_true, List.length_cons]
      obtain ⟨h1, h2⟩ := ih usMain[c]!
      refine ⟨by omega, fun h => ?_⟩
      simpa [iterA] using h2 (by omega)

/-! the accumulator-free recursion equals the iterate/`takeWhile` oracle used by the driver -/

def lenWhile (p : Nat → Bool) (k : Nat) : Nat := ((List.range k).takeWhile p).length

theorem lenWhile_succ (p : Nat → Bool) (k : Nat) :
    lenWhile p (k+1) = if p 0 then lenWhile (fun m => p (m+1)) k + 1 else 0 := by
  unfold lenWhile
  rw [List.range_succ_eq_map, List.takeWhile_cons]
  cases h : p 0 with
  | true => simp [List.takeWhile_map, Function.comp_def]
  | false => simp

theorem downList_eq_iter (ds : Array Nat) (strord : Option (Array Int)) (s0 : Int) :
    ∀ (k c : Nat), downList ds strord s0 k c =
      (List.range (lenWhile (fun m => downOK ds strord s0 (iterA ds m c)) k)).map
        fun m => iterA ds (m+1) c := by
  intro k
  induction k with
  | zero => intro c; simp [downList, lenWhile]
  | succ k ih =>
    intro c
    rw [lenWhile_succ]
    simp only [downList, iterA]
    by_cases hok : downOK ds strord s0 c = true
    · simp only [hok, if_true]
      rw [List.range_succ_eq_map, ih ds[c]!]
      simp [iterA, Function.comp_def]
    · simp [hok]

theorem upList_eq_iter (ds usMain : Array Nat) :
    ∀ (k c : Nat), upList ds usMain k c =
      (List.range (lenWhile (fun m => usMain[iterA usMain m c]! != ds.size) k)).map
        fun m => iterA usMain (m+1) c := by
  intro k
  induction k with
  | zero => intro c; simp [upList, lenWhile]
  | succ k ih =>
    intro c
    rw [lenWhile_succ]
    simp only [upList, iterA]
    by_cases hok : usMain[c]! = ds.size
    · simp [hok]
    · simp only [ne_eq, hok, not_false_eq_true, if_true, bne_iff_ne]
      rw [List.range_succ_eq_map, ih usMain[c]!]
      simp [iterA, Function.comp_def]

theorem window_eq_spec (ds usMain : Array Nat) (strord : Option (Array Int)) (n i : Nat) :
    window ds usMain strord n i = windowSpec ds usMain strord n i := by
  rw [window_eq, downList_eq_iter, upList_eq_iter]
  rfl

/-! ### moving average / median -/

theorem averageAcc_fold (data : Array Int) (weights : Option (Array Int)) (nd : Int) :
    ∀ (l : List Nat) (v w : Int),
      l.foldl (fun (vw : Int × Int) i =>
        if data[i]! = nd then vw else (vw.1 + weightAt weights i * data[i]!, vw.2 + weightAt weights i)) (v, w) =
      (v + (((l.filter fun i => data[i]! != nd).map fun i => weightAt weights i * data[i]!).sum),
       w + (((l.filter fun i => data[i]! != nd).map fun i => weightAt weights i).sum)) := by
  intro l
  induction l with
  | nil => intro v w; simp
  | cons i l ih =>
    intro v w
    rw [List.foldl_cons]
    by_cases h : data[i]! = nd
    · simp only [h, if_true]; rw [ih]; simp [h]
    · simp only [h, if_false]; rw [ih]; simp [h, Int.add_assoc]

theorem averageAcc_eq (data : Array Int) (weights : Option (Array Int)) (nd : Int) (l : List Nat) :
    averageAcc data weights nd l =
      ((((l.filter fun i => data[i]! != nd).map fun i => weightAt weights i * data[i]!).sum),
       (((l.filter fun i => data[i]! != nd).map fun i => weightAt weights i).sum)) := by
  unfold averageAcc
  rw [averageAcc_fold]; simp

theorem leInt_trans (a b c : Int) : leInt a b = true → leInt b c = true → leInt a c = true := by
  simp only [leInt, decide_eq_true_eq]; omega

theorem leInt_total (a b : Int) : (leInt a b || leInt b a) = true := by
  simp only [leInt, Bool.or_eq_true, decide_eq_true_eq]; omega

/-- the sorted list used by `median2` is THE non-decreasing rearrangement of the values -/
theorem mergeSort_unique (vals s : List Int) (hperm : s.Perm vals) (hs : s.Pairwise (fun a b => a ≤ b)) :
    vals.mergeSort leInt = s := by
  have h1 : (vals.mergeSort leInt).Pairwise (fun a b => a ≤ b) := by
    have := List.pairwise_mergeSort leInt_trans leInt_total vals
    simpa [leInt] using this
  have h2 : (vals.mergeSort leInt).Perm s := (List.mergeSort_perm vals leInt).trans hperm.symm
  exact List.Perm.eq_of_pairwise (le := fun a b => a ≤ b) (fun a b _ _ hab hba => by omega) h1 hs h2

/-! ### `out = full(n, mv); out[seq] = zero` -/

theorem foldl_set_get {α : Type} [Inhabited α] (z : α) (i : Nat) :
    ∀ (seq : List Nat) (a : Array α),
      (seq.foldl (fun a i => a.setIfInBounds i z) a).size = a.size ∧
      (seq.foldl (fun a i => a.setIfInBounds i z) a)[i]! = if i ∈ seq ∧ i < a.size then z else a[i]! := by
  intro seq
  induction seq with
  | nil => intro a; simp
  | cons j seq ih =>
    intro a
    rw [List.foldl_cons]
    obtain ⟨h1, h2⟩ := ih (a.setIfInBounds j z)
    refine ⟨by rw [h1]; simp, ?_⟩
    rw [h2, get!_setIfInBounds]
    simp only [Array.size_setIfInBounds, List.mem_cons]
    by_cases hm : i ∈ seq <;> by_cases hj : j = i <;> by_cases hs : i < a.size <;> simp [hm, hj, hs] <;> grind

theorem initSeq_size {α : Type} [Inhabited α] (n : Nat) (seq : List Nat) (mv z : α) :
    (initSeq n seq mv z).size = n := by
  unfold initSeq
  rw [(foldl_set_get z 0 seq _).1]; simp

theorem initSeq_mem {α : Type} [Inhabited α] (n : Nat) (seq : List Nat) (mv z : α) (i : Nat)
    (hi : i ∈ seq) (hn : i < n) : (initSeq n seq mv z)[i]! = z := by
  unfold initSeq
  rw [(foldl_set_get z i seq _).2]; simp [hi, hn]

theorem initSeq_not_mem {α : Type} [Inhabited α] (n : Nat) (seq : List Nat) (mv z : α) (i : Nat)
    (hi : i ∉ seq) (hn : i < n) : (initSeq n seq mv z)[i]! = mv := by
  unfold initSeq
  rw [(foldl_set_get z i seq _).2]; simp [hi, hn]

/-! ### relations along the flow path -/

/-- `PathLen ds stop step i v`: `v` is the length of the flow path from `i` to the first cell at
which `stop` holds (pits are stop cells) -/
inductive PathLen (ds : Array Nat) (stop : Nat → Bool) (step : Nat → Nat → Int) : Nat → Int → Prop
  | stop (i : Nat) : stop i = true → PathLen ds stop step i 0
  | next (i : Nat) (v : Int) : stop i = false → PathLen ds stop step ds[i]! v →
      PathLen ds stop step i (v + step i ds[i]!)

theorem PathLen.unique {ds : Array Nat} {stop : Nat → Bool} {step : Nat → Nat → Int} {i : Nat} {v w : Int}
    (h1 : PathLen ds stop step i v) (h2 : PathLen ds stop step i w) : v = w := by
  induction h1 generalizing w with
  | stop i hs =>
    cases h2 with
    | stop _ _ => rfl
    | next _ _ hn _ => rw [hs] at hn; cases hn
  | next i v hn _ ih =>
    cases h2 with
    | stop _ hs => rw [hs] at hn; cases hn
    | next _ w' _ hw => rw [ih hw]

theorem walkDist_sound (ds : Array Nat) (mask : Option (Array Bool)) (step : Nat → Nat → Int) :
    ∀ fuel i v, walkDist ds mask step fuel i = some v → PathLen ds (stopAt_c14 ds mask) step i v := by
  intro fuel
  induction fuel with
  | zero => intro i v h; simp [walkDist] at h
  | succ f ih =>
    intro i v h
    simp only [walkDist] at h
    by_cases hs : stopAt_c14 ds mask i = true
    · simp only [hs, if_true, Option.some.injEq] at h
      subst h; exact PathLen.stop i hs
    · have hs' : stopAt_c14 ds mask i = false := by simpa using hs
      simp only [hs', Bool.false_eq_true, if_false, Option.map_eq_some_iff] at h
      obtain ⟨a, ha, rfl⟩ := h
      exact PathLen.next i a hs' (ih _ _ ha)

/-- `FirstHit ds p i k`: `k` is the first cell on the flow path from `i` (inclusive) that satisfies
`p` or is a pit -/
inductive FirstHit (ds : Array Nat) (p : Nat → Bool) : Nat → Nat → Prop
  | here (i : Nat) : (p i || ds[i]! == i) = true → FirstHit ds p i i
  | next (i k : Nat) : (p i || ds[i]! == i) = false → FirstHit ds p ds[i]! k → FirstHit ds p i k

theorem FirstHit.unique {ds : Array Nat} {p : Nat → Bool} {i k l : Nat}
    (h1 : FirstHit ds p i k) (h2 : FirstHit ds p i l) : k = l := by
  induction h1 generalizing l with
  | here i hs =>
    cases h2 with
    | here _ _ => rfl
    | next _ _ hn _ => rw [hs] at hn; cases hn
  | next i k hn _ ih =>
    cases h2 with
    | here _ hs => rw [hs] at hn; cases hn
    | next _ _ _ hw => exact ih hw

theorem walkFirst_sound (ds : Array Nat) (p : Nat → Bool) :
    ∀ fuel i k, walkFirst ds p fuel i = some k → FirstHit ds p i k := by
  intro fuel
  induction fuel with
  | zero => intro i k h; simp [walkFirst] at h
  | succ f ih =>
    intro i k h
    simp only [walkFirst] at h
    by_cases hs : (p i || ds[i]! == i) = true
    · simp only [hs, if_true, Option.some.injEq] at h
      subst h; exact FirstHit.here i hs
    · have hs' : (p i || ds[i]! == i) = false := by simpa using hs
      simp only [hs', Bool.false_eq_true, if_false] at h
      exact FirstHit.next i k hs' (ih _ _ h)

/-- on a downstream-first order every cell has a first hit -/
theorem FirstHit.exists_of_topo {ds : Array Nat} {seq : List Nat} (htopo : Topo ds seq) (p : Nat → Bool) :
    ∀ i ∈ seq, ∃ k, FirstHit ds p i k := by
  refine htopo.induction _ (fun i _ hd => ?_)
  by_cases hs : (p i || ds[i]! == i) = true
  · exact ⟨i, FirstHit.here i hs⟩
  · have hs' : (p i || ds[i]! == i) = false := by simpa using hs
    have hp : ds[i]! ≠ i := by
      intro h; simp [h] at hs'
    obtain ⟨k, hk⟩ := (hd hp).2
    exact ⟨k, FirstHit.next i k hs' hk⟩

end Pf
