import PfVerif.Model.C12
/-! # C12 — helper lemmas for the in-place-write extension of the cache machine

`step` = `stepCore` (the dictionary protocol) followed by `clobbered` (in-place writes into stored
objects). For an entry without in-place writes the second part is the identity, so everything
proved about the protocol carries over; with an in-place write on a key the entry also stores, the
stored value can be *any* value afterwards. Core Lean only. -/
namespace Pf.C12
variable {S V A : Type}

theorem coherent_noInPlace {e : Entry} (hc : e.coherent = true) : e.noInPlace = true := by
  simp only [Entry.coherent, Bool.and_eq_true] at hc
  exact hc.2

theorem writesInPlace_of_noInPlace {e : Entry} (h : e.noInPlace = true) (k : Key) :
    e.writesInPlace k = false := by
  simp only [Entry.noInPlace, List.isEmpty_iff] at h
  simp [Entry.writesInPlace, h]

theorem clobbered_of_noInPlace {e : Entry} (h : e.noInPlace = true) (ch : Choice V) (k : Key)
    (c : Option V) : clobbered e ch k c = c := by
  simp [clobbered, writesInPlace_of_noInPlace h k]

/-- without in-place writes a call is exactly its protocol part -/
theorem step_eq_stepCore (sem : Sem S V A) {e : Entry} (h : e.noInPlace = true) (a : A)
    (ch : Choice V) (o : Obj S V) : step sem e a ch o = stepCore sem e a ch o := by
  simp only [step, stepCore]
  congr 1
  funext k
  exact clobbered_of_noInPlace h ch k _

/-- an in-place write never touches the abstract state -/
theorem step_state (sem : Sem S V A) (e : Entry) (a : A) (ch : Choice V) (o : Obj S V) :
    (step sem e a ch o).s = sem.mutate e a o.s := rfl

/-- an in-place write on a key that holds a value after the protocol part leaves what the choice says -/
theorem step_cache_clobbered (sem : Sem S V A) (e : Entry) (a : A) (ch : Choice V) (o : Obj S V)
    (k : Key) (w v : V) (hip : e.writesInPlace k = true)
    (hc : (stepCore sem e a ch o).cache k = some w) (hcl : ch.clobber k = some v) :
    (step sem e a ch o).cache k = some v := by
  simp only [step, clobbered, hip, if_true, hc, hcl]

/-- an in-place write cannot create a dictionary entry -/
theorem step_cache_none (sem : Sem S V A) (e : Entry) (a : A) (ch : Choice V) (o : Obj S V)
    (k : Key) (hc : (stepCore sem e a ch o).cache k = none) : (step sem e a ch o).cache k = none := by
  simp only [step, clobbered, hc]
  split <;> rfl

end Pf.C12
