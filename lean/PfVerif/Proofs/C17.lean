import PfVerif.Model.C17
/-! Helper lemmas for C17 (core Lean only): floor facts over `Rat`, the inverse of an affine map,
`xy` as an application of the transform. -/
namespace Pf.C17

theorem floor_half : (1/2 : Rat).floor = 0 := by decide +kernel

theorem floor_add_half (z : Int) : ((z:Rat) + 1/2).floor = z := by
  have h : ((1/2 : Rat) + (z : Rat)).floor = (1/2 : Rat).floor + z := Rat.floor_add_intCast
  rw [Rat.add_comm, h, floor_half]; omega

theorem floor_eq_iff (x : Rat) (z : Int) : x.floor = z ↔ (z:Rat) ≤ x ∧ x < (z:Rat) + 1 := by
  constructor
  · intro h
    subst h
    refine ⟨Rat.floor_le x, ?_⟩
    have := Rat.lt_floor_add_one x
    simpa [Rat.intCast_add] using this
  · intro ⟨h1, h2⟩
    have a : z ≤ x.floor := Rat.le_floor_iff.mpr h1
    have b : x.floor < z + 1 := Rat.floor_lt_iff.mpr (by simpa [Rat.intCast_add] using h2)
    omega

theorem inv_app_axis (t : Aff) (h : t.AxisAligned) :
    ∃ inv, t.inv = some inv ∧ ∀ x y, inv.app x y = ((x - t.c) / t.a, (y - t.f) / t.e) := by
  obtain ⟨hb, hd, ha, he⟩ := h
  have hdet : t.det ≠ 0 := by
    unfold Aff.det; rw [hb, hd]; grind
  refine ⟨_, by unfold Aff.inv; rw [if_neg hdet], ?_⟩
  intro x y
  simp only [Aff.app, Aff.det, hb, hd]
  refine Prod.ext ?_ ?_ <;> simp only [] <;> grind

/-- general: inverse really inverts -/
theorem inv_app_app (t : Aff) (hdet : t.det ≠ 0) :
    ∃ inv, t.inv = some inv ∧ ∀ x y, inv.app (t.app x y).1 (t.app x y).2 = (x, y) := by
  refine ⟨_, by unfold Aff.inv; rw [if_neg hdet], ?_⟩
  intro x y
  unfold Aff.det at hdet
  simp only [Aff.app, Aff.det]
  refine Prod.ext ?_ ?_ <;> simp only [] <;> grind

theorem xy_centre' (t : Aff) (hb : t.b = 0) (hd : t.d = 0) (r c : Int) :
    xyM t centre r c = specCentre t r c := by
  simp only [xyM, centre, specCentre, Aff.matmul, Aff.translation, Aff.app, hb, hd]
  refine Prod.ext ?_ ?_ <;> simp only [] <;> grind

theorem xy_app (t : Aff) (off : Rat × Rat) (r c : Int) :
    xyM t off r c = t.app ((c:Rat) + off.1) ((r:Rat) + off.2) := by
  simp only [xyM, Aff.matmul, Aff.translation, Aff.app]
  refine Prod.ext ?_ ?_ <;> simp only [] <;> grind

theorem rowcol_xy_affine' (t : Aff) (hdet : t.det ≠ 0) (r c : Int) :
    rowcolM t .floor none (xyM t centre r c).1 (xyM t centre r c).2 = some (r, c) := by
  obtain ⟨inv, hinv, happ⟩ := inv_app_app t hdet
  simp only [rowcolM, hinv, rowcolInv, epsOf, RoundOp.ap]
  rw [xy_app]
  have : ∀ x : Rat, x + 0 = x := by intro x; grind
  have h2 : ∀ x : Rat, x - 0 = x := by intro x; grind
  rw [this, h2, happ]
  simp only [centre, floor_add_half]

theorem le_div_iff_pos {a u z : Rat} (ha : 0 < a) : z ≤ u / a ↔ z * a ≤ u := by
  rw [← Rat.not_lt, Rat.div_lt_iff ha, Rat.not_lt]

theorem div_floor_pos {a u : Rat} (ha : 0 < a) (z : Int) :
    (u / a).floor = z ↔ (z:Rat) * a ≤ u ∧ u < ((z:Rat) + 1) * a := by
  rw [floor_eq_iff, le_div_iff_pos ha, Rat.div_lt_iff ha]

theorem div_floor_neg {a u : Rat} (ha : a < 0) (z : Int) :
    (u / a).floor = z ↔ ((z:Rat) + 1) * a < u ∧ u ≤ (z:Rat) * a := by
  have h : u / a = (-u) / (-a) := by
    have : a ≠ 0 := by grind
    grind
  have hp : 0 < -a := by grind
  rw [h, div_floor_pos hp]
  constructor <;> intro ⟨h1, h2⟩ <;> constructor <;> grind

theorem rowcolInv_contains (t : Aff) (h : t.AxisAligned) :
    ∃ inv, t.inv = some inv ∧ ∀ (x y : Rat) (r c : Int),
      rowcolInv inv .floor (epsOf .floor none) x y = (r, c) ↔ specContains t r c x y = true := by
  obtain ⟨inv, hinv, happ⟩ := inv_app_axis t h
  refine ⟨inv, hinv, ?_⟩
  intro x y r c
  show rowcolInv inv .floor 0 x y = (r, c) ↔ specContains t r c x y = true
  obtain ⟨hb, hd, ha, he⟩ := h
  have e0 : ∀ x : Rat, x + 0 = x := by intro x; grind
  have e1 : ∀ x : Rat, x - 0 = x := by intro x; grind
  simp only [rowcolInv, RoundOp.ap, e0, e1, happ, Prod.mk.injEq, specContains]
  have hx : ((x - t.c) / t.a).floor = c ↔
      (if 0 < t.a then decide (t.c + (c:Rat) * t.a ≤ x) && decide (x < t.c + ((c:Rat) + 1) * t.a)
       else decide (t.c + ((c:Rat) + 1) * t.a < x) && decide (x ≤ t.c + (c:Rat) * t.a)) = true := by
    by_cases hp : 0 < t.a
    · rw [if_pos hp, div_floor_pos hp]; simp only [Bool.and_eq_true, decide_eq_true_eq]
      constructor <;> intro ⟨h1, h2⟩ <;> constructor <;> grind
    · have hn : t.a < 0 := by grind
      rw [if_neg hp, div_floor_neg hn]; simp only [Bool.and_eq_true, decide_eq_true_eq]
      constructor <;> intro ⟨h1, h2⟩ <;> constructor <;> grind
  have hy : ((y - t.f) / t.e).floor = r ↔
      (if 0 < t.e then decide (t.f + (r:Rat) * t.e ≤ y) && decide (y < t.f + ((r:Rat) + 1) * t.e)
       else decide (t.f + ((r:Rat) + 1) * t.e < y) && decide (y ≤ t.f + (r:Rat) * t.e)) = true := by
    by_cases hp : 0 < t.e
    · rw [if_pos hp, div_floor_pos hp]; simp only [Bool.and_eq_true, decide_eq_true_eq]
      constructor <;> intro ⟨h1, h2⟩ <;> constructor <;> grind
    · have hn : t.e < 0 := by grind
      rw [if_neg hp, div_floor_neg hn]; simp only [Bool.and_eq_true, decide_eq_true_eq]
      constructor <;> intro ⟨h1, h2⟩ <;> constructor <;> grind
  rw [hx, hy, Bool.and_eq_true]
  exact And.comm

theorem rowcolInv_xy (t : Aff) (hdet : t.det ≠ 0) :
    ∃ inv, t.inv = some inv ∧ ∀ r c : Int,
      rowcolInv inv .floor 0 (xyM t centre r c).1 (xyM t centre r c).2 = (r, c) := by
  obtain ⟨inv, hinv, happ⟩ := inv_app_app t hdet
  refine ⟨inv, hinv, ?_⟩
  intro r c
  have h := rowcol_xy_affine' t hdet r c
  simpa [rowcolM, hinv, epsOf] using h

theorem cell_in_raster (nrow ncol : Nat) (i : Int) (h0 : 0 ≤ i) (h1 : i < (nrow : Int) * (ncol : Int)) :
    inRaster nrow ncol (i / (ncol : Int), i % (ncol : Int)) = true ∧
    (i / (ncol : Int)) * (ncol : Int) + i % (ncol : Int) = i := by
  have hc : (0 : Int) < (ncol : Int) := by
    rcases Nat.eq_zero_or_pos ncol with h | h
    · subst h; simp at h1; omega
    · exact Int.natCast_pos.mpr h
  have hne : (ncol : Int) ≠ 0 := by omega
  refine ⟨?_, ?_⟩
  · simp only [inRaster, Bool.and_eq_true, decide_eq_true_eq]
    refine ⟨⟨⟨Int.ediv_nonneg h0 (by omega), Int.ediv_lt_of_lt_mul hc h1⟩, Int.emod_nonneg _ hne⟩,
      Int.emod_lt_of_pos _ hc⟩
  · have := Int.mul_ediv_add_emod i (ncol : Int)
    rw [Int.mul_comm]; exact this

/-! ### one axis: the half-open cells `k ∈ [0, n)` tile the half-open extent -/

theorem axis_pos (o res p : Rat) (hres : 0 < res) (n : Nat) :
    (∃ k : Int, 0 ≤ k ∧ k < (n : Int) ∧ o + (k:Rat) * res ≤ p ∧ p < o + ((k:Rat) + 1) * res) ↔
      o ≤ p ∧ p < o + (n : Rat) * res := by
  constructor
  · rintro ⟨k, k0, k1, h1, h2⟩
    have k0' : (0:Rat) ≤ (k:Rat) := Rat.intCast_nonneg.mpr k0
    have k1' : (k:Rat) + 1 ≤ (n:Rat) := by
      have : ((k + 1 : Int) : Rat) ≤ ((n : Int) : Rat) := Rat.intCast_le_intCast.mpr (by omega)
      simpa [Rat.intCast_add, Rat.intCast_natCast] using this
    have m1 : 0 ≤ (k:Rat) * res := Rat.mul_nonneg k0' (by grind)
    have m2 : ((k:Rat) + 1) * res ≤ (n:Rat) * res := Rat.mul_le_mul_of_nonneg_right k1' (by grind)
    constructor <;> grind
  · rintro ⟨h1, h2⟩
    let k := ((p - o) / res).floor
    have hk : ((p - o) / res).floor = k := rfl
    rw [div_floor_pos hres] at hk
    obtain ⟨a1, a2⟩ := hk
    refine ⟨k, ?_, ?_, by grind, by grind⟩
    · -- 0 ≤ k
      have : 0 < ((k:Rat) + 1) * res := by grind
      have : 0 < (k:Rat) + 1 := (Rat.mul_pos_iff_of_pos_right hres).mp this
      have : (0:Rat) < ((k + 1 : Int) : Rat) := by simpa [Rat.intCast_add] using this
      have := Rat.intCast_pos.mp this
      omega
    · have : (k:Rat) * res < (n:Rat) * res := by grind
      have : (k:Rat) < (n:Rat) := (Rat.mul_lt_mul_right hres).mp this
      have : (k:Rat) < ((n:Int):Rat) := by simpa [Rat.intCast_natCast] using this
      exact Rat.intCast_lt_intCast.mp this

theorem axis_neg (o res p : Rat) (hres : res < 0) (n : Nat) :
    (∃ k : Int, 0 ≤ k ∧ k < (n : Int) ∧ o + ((k:Rat) + 1) * res < p ∧ p ≤ o + (k:Rat) * res) ↔
      o + (n : Rat) * res < p ∧ p ≤ o := by
  have h := axis_pos (-o) (-res) (-p) (by grind) n
  constructor
  · rintro ⟨k, k0, k1, h1, h2⟩
    have := h.mp ⟨k, k0, k1, by grind, by grind⟩
    constructor <;> grind
  · rintro ⟨h1, h2⟩
    obtain ⟨k, k0, k1, a1, a2⟩ := h.mpr ⟨by grind, by grind⟩
    exact ⟨k, k0, k1, by grind, by grind⟩

/-! ### absolute values, squares, the ideal hypotenuse -/

theorem absI_sub_comm (a b : Int) : absI (a - b) = absI (b - a) := by
  unfold absI; split <;> split <;> omega

theorem absI_sq (z : Int) : ((absI z : Int) : Rat) * ((absI z : Int) : Rat) = (z : Rat) * (z : Rat) := by
  unfold absI; split
  · rw [Rat.intCast_neg]; grind
  · rfl

theorem absQ_sq (x : Rat) : absQ x * absQ x = x * x := by
  unfold absQ; split <;> grind

theorem absQ_nonneg (x : Rat) : 0 ≤ absQ x := by
  unfold absQ; split <;> grind

theorem sq_eq_sq_nonneg {d a : Rat} (hd : 0 ≤ d) (ha : 0 ≤ a) (h : d * d = a * a) : d = a := by
  have h0 : (d - a) * (d + a) = 0 := by grind
  rcases Rat.mul_eq_zero.mp h0 with h1 | h1
  · grind
  · have : d = 0 ∧ a = 0 := by constructor <;> grind
    grind

theorem hypot_abs {d a : Rat} (hd : 0 ≤ d) (h : d * d = a * a) : d = absQ a :=
  sq_eq_sq_nonneg hd (absQ_nonneg a) (by rw [absQ_sq]; exact h)

theorem hypot_unique {d d' p q : Rat} (h : IsHypot d p q) (h' : IsHypot d' p q) : d = d' :=
  sq_eq_sq_nonneg h.1 h'.1 (by rw [h.2, h'.2])

theorem absI_eq_zero {z : Int} (h : absI z = 0) : z = 0 := by
  unfold absI at h; split at h <;> omega

theorem leg_sq (k x : Rat) (z : Int) :
    ((if absI z = 0 then 0 else k * x) * ((absI z : Int) : Rat)) *
      ((if absI z = 0 then 0 else k * x) * ((absI z : Int) : Rat)) =
    (k * ((z : Rat) * x)) * (k * ((z : Rat) * x)) := by
  by_cases h : absI z = 0
  · have hz := absI_eq_zero h
    subst hz
    simp only [h, if_true, Rat.intCast_zero]; grind
  · simp only [h, if_false]
    have := absI_sq z
    grind

theorem absQ_mul (a b : Rat) : absQ (a * b) = absQ a * absQ b :=
  sq_eq_sq_nonneg (absQ_nonneg _) (Rat.mul_nonneg (absQ_nonneg a) (absQ_nonneg b)) (by
    have h1 := absQ_sq (a * b)
    have h2 := absQ_sq a
    have h3 := absQ_sq b
    grind)

/-! ### sums -/

theorem sum_append_rat (l1 l2 : List Rat) : (l1 ++ l2).sum = l1.sum + l2.sum := by
  induction l1 with
  | nil => simp only [List.nil_append, List.sum_nil]; grind
  | cons x l ih => simp only [List.cons_append, List.sum_cons, ih]; grind

theorem sum_range_telescope (g : Nat → Rat) (n : Nat) :
    ((List.range n).map fun i => g i - g (i + 1)).sum = g 0 - g n := by
  induction n with
  | zero => simp only [List.range_zero, List.map_nil, List.sum_nil]; grind
  | succ n ih =>
    rw [List.range_succ, List.map_append, sum_append_rat, ih]
    simp only [List.map_cons, List.map_nil, List.sum_cons, List.sum_nil]; grind

theorem sum_map_mul_left (k : Rat) (l : List Rat) : (l.map fun x => k * x).sum = k * l.sum := by
  induction l with
  | nil => simp
  | cons x l ih => simp only [List.map_cons, List.sum_cons, ih]; grind

theorem sphere_rows_sum (R2 pi180 fac : Rat) (sinD : Rat → Rat) (t : Aff) (nrow ncol : Nat) :
    areaTotal ncol ((List.range nrow).map fun r => specRowArea R2 pi180 sinD t r / fac) =
      (ncol : Rat) * (R2 * (pi180 * absQ t.a)) *
        (sinD (if t.e < 0 then t.f else t.f + (nrow : Rat) * t.e) -
         sinD (if t.e < 0 then t.f + (nrow : Rat) * t.e else t.f)) / fac := by
  simp only [areaTotal, List.map_map]
  let g : Nat → Rat := fun r => sinD (t.f + (r : Rat) * t.e)
  have hg0 : g 0 = sinD t.f := by
    show sinD (t.f + ((0:Nat) : Rat) * t.e) = sinD t.f
    have : t.f + ((0:Nat) : Rat) * t.e = t.f := by simp; grind
    rw [this]
  have hcast : ∀ r : Nat, ((r + 1 : Nat) : Rat) = (r : Rat) + 1 := by intro r; simp
  by_cases he : t.e < 0
  · have hfun : ((fun v => (ncol : Rat) * v) ∘ fun r => specRowArea R2 pi180 sinD t r / fac) =
        fun r => ((ncol : Rat) * (R2 * (pi180 * absQ t.a)) / fac) * (g r - g (r + 1)) := by
      funext r
      have h1 : ¬ (t.f + (r:Rat) * t.e < t.f + ((r:Rat) + 1) * t.e) := by grind
      simp only [Function.comp, specRowArea, h1, if_false, g, hcast]
      grind
    rw [hfun]
    have := sum_map_mul_left ((ncol : Rat) * (R2 * (pi180 * absQ t.a)) / fac)
      ((List.range nrow).map fun r => g r - g (r + 1))
    rw [List.map_map] at this
    have this : (List.map (fun r => (ncol : Rat) * (R2 * (pi180 * absQ t.a)) / fac * (g r - g (r + 1)))
        (List.range nrow)).sum = _ := this
    rw [this, sum_range_telescope, hg0]
    simp only [he, if_true, g]
    grind
  · have hfun : ((fun v => (ncol : Rat) * v) ∘ fun r => specRowArea R2 pi180 sinD t r / fac) =
        fun r => (-((ncol : Rat) * (R2 * (pi180 * absQ t.a)) / fac)) * (g r - g (r + 1)) := by
      funext r
      simp only [Function.comp, specRowArea, g, hcast]
      by_cases he0 : t.e = 0
      · have a1 : t.f + ((r:Rat) + 1) * t.e = t.f + (r:Rat) * t.e := by grind
        rw [a1]; grind
      · have h1 : t.f + (r:Rat) * t.e < t.f + ((r:Rat) + 1) * t.e := by grind
        simp only [h1, if_true]; grind
    rw [hfun]
    have := sum_map_mul_left (-((ncol : Rat) * (R2 * (pi180 * absQ t.a)) / fac))
      ((List.range nrow).map fun r => g r - g (r + 1))
    rw [List.map_map] at this
    have this : (List.map (fun r => -((ncol : Rat) * (R2 * (pi180 * absQ t.a)) / fac) * (g r - g (r + 1)))
        (List.range nrow)).sum = _ := this
    rw [this, sum_range_telescope, hg0]
    simp only [he, if_false, g]
    grind

end Pf.C17
