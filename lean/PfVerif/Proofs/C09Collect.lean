import PfVerif.Model.C09
/-! `collect` and `allCells` (C09). Core Lean only. -/
namespace Pf

theorem allCells_iff (n : Nat) (p : Nat → Bool) : allCells n p = true ↔ ∀ c < n, p c = true := by
  simp [allCells, List.all_eq_true, List.mem_range]

theorem collect_some {α : Type} [Inhabited α] (n : Nat) (f : Nat → Option α) (a : Array α)
    (h : collect n f = some a) : a.size = n ∧ ∀ c < n, f c = some a[c]! := by
  unfold collect at h
  simp only at h
  split at h
  · rename_i hall
    simp only [Option.some.injEq] at h
    subst h
    refine ⟨by simp, fun c hc => ?_⟩
    rw [List.all_eq_true] at hall
    have hm : f c ∈ (List.range n).map f := List.mem_map.mpr ⟨c, List.mem_range.mpr hc, rfl⟩
    have hs := hall _ hm
    obtain ⟨v, hv⟩ := Option.isSome_iff_exists.mp hs
    simp [hc, hv]
  · cases h

theorem collect_isSome {α : Type} [Inhabited α] (n : Nat) (f : Nat → Option α)
    (h : ∀ c < n, (f c).isSome = true) : (collect n f).isSome = true := by
  unfold collect
  simp only
  rw [if_pos]
  · rfl
  · rw [List.all_eq_true]
    intro o ho
    obtain ⟨c, hc, rfl⟩ := List.mem_map.mp ho
    exact h c (List.mem_range.mp hc)

end Pf

namespace Pf
theorem collect_eq {α : Type} [Inhabited α] (n : Nat) (f : Nat → Option α) (v : Nat → α)
    (h : ∀ c, c < n → f c = some (v c)) :
    ∃ a, collect n f = some a ∧ a.size = n ∧ ∀ c, c < n → a[c]! = v c := by
  have hsome := collect_isSome n f (fun c hc => by rw [h c hc]; rfl)
  obtain ⟨a, ha⟩ := Option.isSome_iff_exists.mp hsome
  obtain ⟨hs, hval⟩ := collect_some n f a ha
  refine ⟨a, ha, hs, fun c hc => ?_⟩
  have := hval c hc
  rw [h c hc] at this
  exact (Option.some.inj this).symm
end Pf
