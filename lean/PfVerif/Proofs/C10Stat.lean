import PfVerif.Model.C10
/-! Helper lemmas for C10: the sort behind `median2`, linearity of list sums and the normal equations
of the least-squares slope. Core Lean only. -/
namespace Pf.C10
open Pf

/-! ### insertion sort = THE non-decreasing rearrangement -/

theorem insSorted_perm (x : Int) : ∀ l : List Int, (insSorted x l).Perm (x :: l)
  | [] => by simp [insSorted]
  | y :: t => by
    simp only [insSorted]
    split
    · exact List.Perm.refl _
    · exact ((insSorted_perm x t).cons y).trans (List.Perm.swap x y t)

theorem insSort_perm : ∀ l : List Int, (insSort l).Perm l
  | [] => by simp [insSort]
  | x :: t => by
    simp only [insSort]
    exact (insSorted_perm x (insSort t)).trans ((insSort_perm t).cons x)

theorem insSorted_sorted (x : Int) : ∀ l : List Int, l.Pairwise (fun a b => a ≤ b) →
    (insSorted x l).Pairwise (fun a b => a ≤ b)
  | [], _ => by simp [insSorted]
  | y :: t, h => by
    simp only [insSorted]
    split
    · rename_i hxy
      rw [List.pairwise_cons]
      refine ⟨?_, h⟩
      intro z hz
      rw [List.mem_cons] at hz
      rcases hz with hz | hz
      · rw [hz]; exact hxy
      · have := (List.pairwise_cons.mp h).1 z hz
        omega
    · rename_i hxy
      rw [List.pairwise_cons] at h ⊢
      refine ⟨?_, insSorted_sorted x t h.2⟩
      intro z hz
      have hz' := (insSorted_perm x t).mem_iff.mp hz
      rw [List.mem_cons] at hz'
      rcases hz' with hz' | hz'
      · rw [hz']; omega
      · exact h.1 z hz'

theorem insSort_sorted : ∀ l : List Int, (insSort l).Pairwise (fun a b => a ≤ b)
  | [] => by simp [insSort]
  | x :: t => by
    simp only [insSort]
    exact insSorted_sorted x _ (insSort_sorted t)

/-- the list sorted by the model is THE non-decreasing rearrangement of the values -/
theorem insSort_unique (vals s : List Int) (hperm : s.Perm vals) (hs : s.Pairwise (fun a b => a ≤ b)) :
    insSort vals = s :=
  List.Perm.eq_of_pairwise (le := fun a b => a ≤ b) (fun a b _ _ hab hba => by omega)
    (insSort_sorted vals) hs ((insSort_perm vals).trans hperm.symm)

/-! ### linearity of sums over a list of cells -/

theorem sum_map_add {α : Type} (l : List α) (f g : α → Int) :
    (l.map fun c => f c + g c).sum = (l.map f).sum + (l.map g).sum := by
  induction l with
  | nil => simp
  | cons a t ih => simp only [List.map_cons, List.sum_cons, ih]; omega

theorem sum_map_sub {α : Type} (l : List α) (f g : α → Int) :
    (l.map fun c => f c - g c).sum = (l.map f).sum - (l.map g).sum := by
  induction l with
  | nil => simp
  | cons a t ih => simp only [List.map_cons, List.sum_cons, ih]; omega

theorem sum_map_mul_left {α : Type} (l : List α) (a : Int) (f : α → Int) :
    (l.map fun c => a * f c).sum = a * (l.map f).sum := by
  induction l with
  | nil => simp
  | cons b t ih => simp only [List.map_cons, List.sum_cons, ih, Int.mul_add]

theorem sum_map_const {α : Type} (l : List α) (b : Int) :
    (l.map fun _ => b).sum = (l.length : Int) * b := by
  induction l with
  | nil => simp
  | cons a t ih =>
    simp only [List.map_cons, List.sum_cons, ih, List.length_cons]
    rw [Int.natCast_succ, Int.add_mul, Int.one_mul]; omega

/-- `lstsqNumDen` on the coordinates of a list of cells, in terms of the four sums -/
theorem lstsqNumDen_cells (cells : List Nat) (x y : Nat → Int) :
    lstsqNumDen (cells.map x) (cells.map y) =
      ((cells.length : Int) * (cells.map fun c => x c * y c).sum - (cells.map x).sum * (cells.map y).sum,
       (cells.length : Int) * (cells.map fun c => x c * x c).sum - (cells.map x).sum * (cells.map x).sum) := by
  simp [lstsqNumDen, List.map_map, List.zip_map', Function.comp_def]


theorem lstsq_ring (n Sx Sy Sxx Sxy : Int) :
    n * (n * Sxx - Sx * Sx) * Sy - n * (n * Sxy - Sx * Sy) * Sx -
        n * (Sy * (n * Sxx - Sx * Sx) - (n * Sxy - Sx * Sy) * Sx) = 0 ∧
    n * (n * Sxx - Sx * Sx) * Sxy - n * (n * Sxy - Sx * Sy) * Sxx -
        (Sy * (n * Sxx - Sx * Sx) - (n * Sxy - Sx * Sy) * Sx) * Sx = 0 := by
  constructor <;> grind

/-- **normal equations**: with `(N, D) = lstsqNumDen x y`, `n` points and `B = Σy·D − N·Σx`, the line
`y = (N/D)·x + B/(n·D)` has residuals `r_c` with `Σ r_c = 0` and `Σ x_c·r_c = 0` (both scaled by `n·D`);
for `D ≠ 0` this is the unique ordinary-least-squares line, so `N/D` is its slope -/
theorem lstsq_normal_eq (cells : List Nat) (x y : Nat → Int) (N D : Int)
    (h : lstsqNumDen (cells.map x) (cells.map y) = (N, D)) :
    (cells.map fun c => (cells.length : Int) * D * y c - (cells.length : Int) * N * x c -
        ((cells.map y).sum * D - N * (cells.map x).sum)).sum = 0 ∧
    (cells.map fun c => x c * ((cells.length : Int) * D * y c - (cells.length : Int) * N * x c -
        ((cells.map y).sum * D - N * (cells.map x).sum))).sum = 0 := by
  rw [lstsqNumDen_cells] at h
  obtain ⟨hN, hD⟩ := Prod.mk.inj h
  obtain ⟨n, hn⟩ : ∃ n : Int, n = (cells.length : Int) := ⟨_, rfl⟩
  obtain ⟨Sx, hSx⟩ : ∃ v, v = (cells.map x).sum := ⟨_, rfl⟩
  obtain ⟨Sy, hSy⟩ : ∃ v, v = (cells.map y).sum := ⟨_, rfl⟩
  obtain ⟨Sxx, hSxx⟩ : ∃ v, v = (cells.map fun c => x c * x c).sum := ⟨_, rfl⟩
  obtain ⟨Sxy, hSxy⟩ : ∃ v, v = (cells.map fun c => x c * y c).sum := ⟨_, rfl⟩
  simp only [← hn, ← hSx, ← hSy, ← hSxx, ← hSxy] at hN hD ⊢
  obtain ⟨r1, r2⟩ := lstsq_ring n Sx Sy Sxx Sxy
  rw [hN, hD] at r1 r2
  constructor
  · rw [sum_map_sub, sum_map_sub, sum_map_mul_left, sum_map_mul_left, sum_map_const, ← hSx, ← hSy, ← hn]
    exact r1
  · have hd : ∀ c, x c * (n * D * y c - n * N * x c - (Sy * D - N * Sx)) =
        n * D * (x c * y c) - n * N * (x c * x c) - (Sy * D - N * Sx) * x c := by
      intro c; grind
    simp only [hd]
    rw [sum_map_sub, sum_map_sub, sum_map_mul_left, sum_map_mul_left, sum_map_mul_left,
      ← hSx, ← hSxx, ← hSxy]
    exact r2

end Pf.C10
