import PfVerif.Model.C14_riv
import PfVerif.Proofs.C14Up
/-! Helper lemmas for the extension C14_riv (core Lean only): the loop invariant of
`rivers.classify_estuary`. -/
namespace Pf.C14x
open Pf

/-! ### `estInit` -/

theorem estInit_size (n : Nat) (pits : List Nat) (elevtn : Array Int) (maxElev : Int) :
    (estInit n pits elevtn maxElev).size = n := by
  unfold estInit
  rw [(foldl_set_get (1 : Int) 0 _ _).1]; simp

theorem estInit_get (n : Nat) (pits : List Nat) (elevtn : Array Int) (maxElev : Int) (j : Nat) :
    (estInit n pits elevtn maxElev)[j]! = if j ∈ pits ∧ elevtn[j]! ≤ maxElev ∧ j < n then 1 else 0 := by
  unfold estInit
  rw [(foldl_set_get (1 : Int) j _ _).2]
  by_cases hj : j < n
  · simp [List.mem_filter, hj]
  · have : (Array.replicate n (0 : Int))[j]! = 0 := by simp [hj]
    simp [List.mem_filter, hj]

/-! ### the loop invariant -/

theorem estStep_size (ds : Array Nat) (cond : Nat → Bool) (est : Array Int) (i : Nat) :
    (estStep ds cond est i).size = est.size := by
  simp only [estStep]
  by_cases h : est[ds[i]!]! = 0 ∨ i = ds[i]!
  · simp [h]
  · by_cases hc : cond i = true <;> simp [h, hc]

/-- state of the loop after the cells `pre` have been processed -/
structure EstInv (ds : Array Nat) (cond : Nat → Bool) (init : Array Int) (pre : List Nat)
    (out : Array Int) : Prop where
  size : out.size = init.size
  nz : ∀ j : Nat, out[j]! ≠ 0 ↔ init[j]! ≠ 0 ∨ (j ∈ pre ∧ ds[j]! ≠ j ∧ out[ds[j]!]! ≠ 0 ∧ cond j = true)
  two : ∀ j : Nat, out[j]! = 2 ↔ out[j]! ≠ 0 ∧ ∃ c ∈ pre, ds[c]! = j ∧ c ≠ j ∧ cond c = false
  rng : ∀ j : Nat, out[j]! = 0 ∨ out[j]! = 1 ∨ out[j]! = 2

theorem estInv_init (ds : Array Nat) (cond : Nat → Bool) (init : Array Int)
    (h01 : ∀ j : Nat, init[j]! = 0 ∨ init[j]! = 1) : EstInv ds cond init [] init := by
  refine ⟨rfl, ?_, ?_, ?_⟩
  · intro j; simp
  · intro j
    rcases h01 j with h | h <;> simp [h]
  · intro j; rcases h01 j with h | h <;> simp [h]

theorem estInv_step (ds : Array Nat) (cond : Nat → Bool) (init : Array Int) (pre : List Nat)
    (out : Array Int) (i : Nat) (hpre : Topo ds pre) (hi : i ∉ pre) (hds : ds[i]! = i ∨ ds[i]! ∈ pre)
    (hisz : i < init.size) (hdsz : ds[i]! < init.size)
    (inv : EstInv ds cond init pre out) :
    EstInv ds cond init (pre ++ [i]) (estStep ds cond out i) := by
  obtain ⟨hsz, hnz, htwo, hrng⟩ := inv
  have hmem := Topo.ds_mem hpre
  -- no processed cell drains to `i`
  have hno : ∀ c ∈ pre, ds[c]! ≠ i := fun c hc h => hi (h ▸ hmem c hc)
  by_cases hA : out[ds[i]!]! = 0 ∨ i = ds[i]!
  · -- nothing happens
    have hstep : estStep ds cond out i = out := by simp [estStep, hA]
    rw [hstep]
    refine ⟨hsz, ?_, ?_, hrng⟩
    · intro j
      rw [hnz j]
      constructor
      · rintro (h | ⟨h1, h2⟩)
        · exact Or.inl h
        · exact Or.inr ⟨by simp [h1], h2⟩
      · rintro (h | ⟨h1, h2, h3, h4⟩)
        · exact Or.inl h
        · simp only [List.mem_append, List.mem_singleton] at h1
          rcases h1 with h1 | h1
          · exact Or.inr ⟨h1, h2, h3, h4⟩
          · subst h1
            rcases hA with hA | hA
            · exact absurd hA h3
            · exact absurd hA.symm h2
    · intro j
      rw [htwo j]
      constructor
      · rintro ⟨h0, c, hc, h⟩
        exact ⟨h0, c, by simp [hc], h⟩
      · rintro ⟨h0, c, hc, h1, h2, h3⟩
        simp only [List.mem_append, List.mem_singleton] at hc
        rcases hc with hc | hc
        · exact ⟨h0, c, hc, h1, h2, h3⟩
        · subst hc
          rcases hA with hA | hA
          · rw [h1] at hA; exact absurd hA h0
          · rw [h1] at hA; exact absurd hA h2
  · have hA1 : out[ds[i]!]! ≠ 0 := fun h => hA (Or.inl h)
    have hA2 : i ≠ ds[i]! := fun h => hA (Or.inr h)
    have hdpre : ds[i]! ∈ pre := by
      rcases hds with h | h
      · exact absurd h.symm hA2
      · exact h
    by_cases hc : cond i = true
    · -- the link passes: `est[i] = 1`
      have hstep : estStep ds cond out i = out.setIfInBounds i 1 := by simp [estStep, hA, hc]
      rw [hstep]
      have hget : ∀ j, (out.setIfInBounds i 1)[j]! = if i = j then 1 else out[j]! := by
        intro j; rw [get!_setIfInBounds]
        by_cases h : i = j
        · subst h; simp [hsz, hisz]
        · simp [h]
      have hdsj : ∀ j ∈ pre, (out.setIfInBounds i 1)[ds[j]!]! = out[ds[j]!]! := by
        intro j hj; rw [hget]; simp [Ne.symm (hno j hj)]
      refine ⟨by simp [hsz], ?_, ?_, ?_⟩
      · intro j
        by_cases hij : i = j
        · subst hij
          rw [hget]; simp only [if_true]
          constructor
          · intro _
            refine Or.inr ⟨by simp, Ne.symm hA2, ?_, hc⟩
            rw [hget]; simp [hA2, hA1]
          · intro _; decide
        · rw [hget, if_neg hij, hnz j]
          constructor
          · rintro (h | ⟨h1, h2, h3, h4⟩)
            · exact Or.inl h
            · exact Or.inr ⟨by simp [h1], h2, by rw [hdsj j h1]; exact h3, h4⟩
          · rintro (h | ⟨h1, h2, h3, h4⟩)
            · exact Or.inl h
            · simp only [List.mem_append, List.mem_singleton] at h1
              rcases h1 with h1 | h1
              · exact Or.inr ⟨h1, h2, by rw [← hdsj j h1]; exact h3, h4⟩
              · exact absurd h1.symm hij
      · intro j
        by_cases hij : i = j
        · subst hij
          rw [hget]; simp only [if_true]
          constructor
          · intro h; exact absurd h (by decide)
          · rintro ⟨_, c, hcm, h1, h2, _⟩
            simp only [List.mem_append, List.mem_singleton] at hcm
            rcases hcm with hcm | hcm
            · exact absurd h1 (hno c hcm)
            · exact absurd hcm h2
        · rw [hget, if_neg hij, htwo j]
          constructor
          · rintro ⟨h0, c, hcm, h⟩
            exact ⟨h0, c, by simp [hcm], h⟩
          · rintro ⟨h0, c, hcm, h1, h2, h3⟩
            simp only [List.mem_append, List.mem_singleton] at hcm
            rcases hcm with hcm | hcm
            · exact ⟨h0, c, hcm, h1, h2, h3⟩
            · subst hcm; rw [hc] at h3; exact absurd h3 (by decide)
      · intro j
        rw [hget]
        by_cases hij : i = j
        · simp [hij]
        · simp only [hij, if_false]; exact hrng j
    · -- the link fails: `est[ds i] = 2`
      have hc' : cond i = false := by simpa using hc
      have hstep : estStep ds cond out i = out.setIfInBounds ds[i]! 2 := by simp [estStep, hA, hc']
      rw [hstep]
      have hget : ∀ j, (out.setIfInBounds ds[i]! 2)[j]! = if ds[i]! = j then 2 else out[j]! := by
        intro j; rw [get!_setIfInBounds]
        by_cases h : ds[i]! = j
        · subst h; simp [hsz, hdsz]
        · simp [h]
      -- being non-zero is unchanged everywhere
      have hnzsame : ∀ j : Nat, (out.setIfInBounds ds[i]! 2)[j]! ≠ 0 ↔ out[j]! ≠ 0 := by
        intro j; rw [hget]
        by_cases h : ds[i]! = j
        · subst h; simp [hA1]
        · simp [h]
      refine ⟨by simp [hsz], ?_, ?_, ?_⟩
      · intro j
        rw [hnzsame j, hnzsame ds[j]!, hnz j]
        constructor
        · rintro (h | ⟨h1, h2⟩)
          · exact Or.inl h
          · exact Or.inr ⟨by simp [h1], h2⟩
        · rintro (h | ⟨h1, h2, h3, h4⟩)
          · exact Or.inl h
          · simp only [List.mem_append, List.mem_singleton] at h1
            rcases h1 with h1 | h1
            · exact Or.inr ⟨h1, h2, h3, h4⟩
            · subst h1; rw [hc'] at h4; exact absurd h4 (by decide)
      · intro j
        rw [hnzsame j]
        by_cases hdj : ds[i]! = j
        · rw [hget, if_pos hdj]
          constructor
          · intro _
            exact ⟨hdj ▸ hA1, i, by simp, hdj, fun h => hA2 (h ▸ hdj.symm), hc'⟩
          · intro _; rfl
        · rw [hget, if_neg hdj, htwo j]
          constructor
          · rintro ⟨h0, c, hcm, h⟩
            exact ⟨h0, c, by simp [hcm], h⟩
          · rintro ⟨h0, c, hcm, h1, h2, h3⟩
            simp only [List.mem_append, List.mem_singleton] at hcm
            rcases hcm with hcm | hcm
            · exact ⟨h0, c, hcm, h1, h2, h3⟩
            · subst hcm; exact absurd h1 hdj
      · intro j
        rw [hget]
        by_cases hdj : ds[i]! = j
        · simp [hdj]
        · simp only [hdj, if_false]; exact hrng j

theorem estInv_sweep (ds : Array Nat) (cond : Nat → Bool) (init : Array Int) (seq : List Nat)
    (htopo : Topo ds seq) (hb : ∀ i ∈ seq, i < init.size) (h01 : ∀ j : Nat, init[j]! = 0 ∨ init[j]! = 1) :
    EstInv ds cond init seq (estSweep ds cond seq init) := by
  induction htopo with
  | nil => exact estInv_init ds cond init h01
  | @snoc pre i hpre hi hds ih =>
    have hb' : ∀ j ∈ pre, j < init.size := fun j hj => hb j (by simp [hj])
    have hstep : estSweep ds cond (pre ++ [i]) init = estStep ds cond (estSweep ds cond pre init) i := by
      simp [estSweep, List.foldl_append]
    rw [hstep]
    have hisz : i < init.size := hb i (by simp)
    have hdsz : ds[i]! < init.size := by
      rcases hds with h | h
      · rw [h]; exact hisz
      · exact hb' _ h
    exact estInv_step ds cond init pre _ i hpre hi hds hisz hdsz (ih hb')

end Pf.C14x
