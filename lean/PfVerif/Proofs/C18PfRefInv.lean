import PfVerif.Proofs.C18PfLinkInv
/-! Pfafstetter refinement across depths (stage 4), single-run invariants:
`PfOrd` — the cells that carry a pending code of level `d` have (unreduced) classic stream order `≤ d`;
`PfEvo` — what one run of `pfInner (pfaf0, d0)` does to `pfaf_branch`: a coded cell keeps its code or moves
inside the popped block, a newly coded cell and its downstream cell get codes of the popped block.
Step lemmas for the sub-basin fill and the inter-basin fill, from the value-level description of the
fills exported by `PfG.step_sub` / `PfG.step_int`. Core Lean only. -/
namespace Pf.C18
open Pf

def PfOrd (soraw br : Array Int) (labs : List (Int × Nat)) : Prop :=
  ∀ en ∈ labs, ∀ s : Nat, br[s]! = en.1 → soraw[s]! ≤ (en.2 : Int)

structure PfOrdIn (ds : Array Nat) (soraw br : Array Int) (labs : List (Int × Nat)) (intDs : Int)
    (d0 : Nat) (l : List Nat) : Prop where
  ord : PfOrd soraw br labs
  oi : ∀ s : Nat, br[s]! = intDs → soraw[s]! ≤ (d0 : Int) + 1
  ol : ∀ t ∈ l, soraw[ds[t]!]! ≤ (d0 : Int) ∧ soraw[t]! ≤ (d0 : Int) + 1

structure PfEvo (ds : Array Nat) (br0 br : Array Int) (pfaf0 lo : Int) : Prop where
  e1 : ∀ s : Nat, br0[s]! ≠ 0 → br[s]! = br0[s]! ∨
    (pfaf0 ≤ br0[s]! ∧ br0[s]! < lo ∧ pfaf0 ≤ br[s]! ∧ br[s]! < lo)
  e2 : ∀ s : Nat, br0[s]! = 0 → br[s]! ≠ 0 →
    pfaf0 ≤ br[s]! ∧ br[s]! < lo ∧ ds[s]! ≠ s ∧ pfaf0 ≤ br[ds[s]!]! ∧ br[ds[s]!]! < lo

variable {ds : Array Nat} {soraw br br1 br0 : Array Int} {labs : List (Int × Nat)} {intDs : Int}
  {d0 depth : Nat} {l : List Nat} {pfaf0 lo : Int}

theorem PfEvo.refl (ds : Array Nat) (br : Array Int) (pfaf0 lo : Int) : PfEvo ds br br pfaf0 lo :=
  ⟨fun _ _ => Or.inl rfl, fun _ h0 h1 => absurd h0 h1⟩

theorem PfEvo.mono (h : PfEvo ds br0 br pfaf0 lo) {lo' : Int} (hle : lo ≤ lo') :
    PfEvo ds br0 br pfaf0 lo' :=
  ⟨fun s hs => by
      rcases h.e1 s hs with h1 | h1
      · exact Or.inl h1
      · exact Or.inr ⟨h1.1, by omega, h1.2.2.1, by omega⟩,
    fun s h0 h1 => by
      obtain ⟨a, b, c, d, e⟩ := h.e2 s h0 h1
      exact ⟨a, by omega, c, d, by omega⟩⟩

/-- a fill that writes the code `v` of the unused part on uncoded cells only (sub-basin stem) -/
theorem PfEvo.sub_step (h : PfEvo ds br0 br pfaf0 lo) (hp0 : 0 < pfaf0) {v : Int} (hv : pfaf0 ≤ v)
    {lo' : Int} (hlo : lo ≤ lo') (hvlo : v < lo')
    (hkeep : ∀ s : Nat, br[s]! ≠ 0 → br1[s]! = br[s]!)
    (hnew : ∀ s : Nat, br[s]! = 0 → br1[s]! ≠ 0 →
      br1[s]! = v ∧ ds[s]! ≠ s ∧ pfaf0 ≤ br1[ds[s]!]! ∧ br1[ds[s]!]! < lo') :
    PfEvo ds br0 br1 pfaf0 lo' := by
  refine ⟨fun s hs => ?_, fun s h0 h1 => ?_⟩
  · rcases h.e1 s hs with h1 | h1
    · left; rw [hkeep s (by rw [h1]; exact hs)]; exact h1
    · right
      rw [hkeep s (by omega)]
      exact ⟨h1.1, by omega, h1.2.2.1, by omega⟩
  · by_cases hb : br[s]! = 0
    · obtain ⟨a, b, c, d⟩ := hnew s hb h1
      exact ⟨by rw [a]; exact hv, by rw [a]; exact hvlo, b, c, d⟩
    · obtain ⟨a, b, c, d, e⟩ := h.e2 s h0 hb
      rw [hkeep s hb, hkeep _ (by omega)]
      exact ⟨a, by omega, c, d, by omega⟩

/-- a fill that relabels cells of the code `w` (of the used part) with the unused code `v`, and writes `v`
on the start cell `x` -/
theorem PfEvo.int_step {br2 : Array Int} (h : PfEvo ds br0 br1 pfaf0 lo) (hp0 : 0 < pfaf0) {v w : Int}
    (hv : pfaf0 ≤ v) {lo' : Int} (hlo : lo ≤ lo') (hvlo : v < lo')
    (hw : pfaf0 ≤ w ∧ w < lo) {x : Nat}
    (hw2 : ∀ s : Nat, br2[s]! = br1[s]! ∨ (br2[s]! = v ∧ (s = x ∨ br1[s]! = w)))
    (hx : br1[x]! = 0 ∨ br1[x]! = w) (hdx : ds[x]! ≠ x) (hbd : br2[ds[x]!]! = w) :
    PfEvo ds br0 br2 pfaf0 lo' := by
  have hin : ∀ s : Nat, pfaf0 ≤ br1[s]! → br1[s]! < lo → pfaf0 ≤ br2[s]! ∧ br2[s]! < lo' := by
    intro s a b
    rcases hw2 s with h1 | h1
    · rw [h1]; exact ⟨a, by omega⟩
    · rw [h1.1]; exact ⟨hv, hvlo⟩
  refine ⟨fun s hs => ?_, fun s h0 h1 => ?_⟩
  · rcases hw2 s with h2 | h2
    · rw [h2]
      rcases h.e1 s hs with h1 | h1
      · exact Or.inl h1
      · exact Or.inr ⟨h1.1, by omega, h1.2.2.1, by omega⟩
    · right
      rw [h2.1]
      have hb1 : br1[s]! = w ∨ br1[s]! = 0 := by
        rcases h2.2 with h3 | h3
        · rw [h3]; rcases hx with h4 | h4
          · exact Or.inr h4
          · exact Or.inl h4
        · exact Or.inl h3
      rcases h.e1 s hs with h1 | h1
      · rcases hb1 with h4 | h4
        · exact ⟨by omega, by omega, hv, hvlo⟩
        · exfalso; rw [h1] at h4; exact hs h4
      · exact ⟨h1.1, by omega, hv, hvlo⟩
  · by_cases hb : br1[s]! = 0
    · rcases hw2 s with h2 | h2
      · rw [h2] at h1; exact absurd hb h1
      · have hsx : s = x := by
          rcases h2.2 with h3 | h3
          · exact h3
          · omega
        subst hsx
        rw [h2.1, hbd]
        exact ⟨hv, hvlo, hdx, hw.1, by omega⟩
    · obtain ⟨a, b, c, d, e⟩ := h.e2 s h0 hb
      have h3 := hin s a b
      have h4 := hin _ d e
      exact ⟨h3.1, h3.2, c, h4.1, h4.2⟩

/-! ### stream orders of the cells of a code -/

theorem Bsz_pos (depth d : Nat) : 0 < Bsz depth d := p10_pos _

/-- after a fill that writes the fresh code `v` on cells of stream order `≤ d0 + 1` (and queues it) -/
theorem PfOrdIn.write (h : PfOrdIn ds soraw br labs intDs d0 l) {v : Int} {rest : List Nat}
    (hrest : ∀ t ∈ rest, t ∈ l)
    (hw1 : ∀ s : Nat, br1[s]! = br[s]! ∨ br1[s]! = v) (hfresh : ∀ s : Nat, br[s]! ≠ v)
    (hvso : ∀ s : Nat, br1[s]! ≠ br[s]! → soraw[s]! ≤ (d0 : Int) + 1)
    (hvlabs : ∀ en ∈ labs, en.1 ≠ v) (b : Prop) [Decidable b] (intDs' : Int)
    (hint : intDs' = v ∨ (intDs' = intDs ∧ v ≠ intDs)) :
    PfOrdIn ds soraw br1 (if b then labs ++ [(v, d0 + 1)] else labs) intDs' d0 rest := by
  have hold : ∀ en ∈ labs, ∀ s : Nat, br1[s]! = en.1 → soraw[s]! ≤ (en.2 : Int) := by
    intro en hen s hs
    rcases hw1 s with h1 | h1
    · exact h.ord en hen s (by rw [← h1]; exact hs)
    · exact absurd (by rw [← hs, h1]) (hvlabs en hen)
  have hnewv : ∀ s : Nat, br1[s]! = v → soraw[s]! ≤ (d0 : Int) + 1 := by
    intro s hs
    exact hvso s (fun hc => hfresh s (by rw [← hc]; exact hs))
  refine ⟨fun en hen s hs => ?_, fun s hs => ?_, fun t ht => h.ol t (hrest t ht)⟩
  · split at hen
    · rcases List.mem_append.1 hen with hen | hen
      · exact hold en hen s hs
      · simp only [List.mem_singleton] at hen
        subst hen
        have := hnewv s hs
        simp only
        omega
    · exact hold en hen s hs
  · rcases hint with hi | hi
    · exact hnewv s (by rw [hs, hi])
    · rcases hw1 s with h1 | h1
      · exact h.oi s (by rw [← h1, hs, hi.1])
      · exact absurd (by rw [← h1, hs, hi.1]) hi.2

end Pf.C18
