import PfVerif.Proofs.C19Split
/-! Second stage for C19: the pieces of a split stream — never a zero-length feature, interior
vertices are interior vertices of the stream, and the start/end clause of the chain. Core Lean only. -/
namespace Pf.C19
open Pf

theorem mem_interior_iff (L : List Nat) (v : Nat) :
    v ∈ interior L ↔ ∃ i, 0 < i ∧ i + 1 < L.length ∧ L[i]? = some v := by
  unfold interior
  rw [List.mem_iff_getElem?]
  constructor
  · rintro ⟨j, hj⟩
    rw [List.getElem?_dropLast, List.length_tail, List.getElem?_tail] at hj
    split at hj
    · exact ⟨j + 1, by omega, by omega, hj⟩
    · cases hj
  · rintro ⟨i, h0, h1, h2⟩
    refine ⟨i - 1, ?_⟩
    rw [List.getElem?_dropLast, List.length_tail, List.getElem?_tail, if_pos (by omega)]
    have : i - 1 + 1 = i := by omega
    rw [this]; exact h2

theorem interior_drop (L : List Nat) (a : Nat) : ∀ v ∈ interior (L.drop a), v ∈ interior L := by
  intro v hv
  rw [mem_interior_iff] at hv ⊢
  obtain ⟨i, h0, h1, h2⟩ := hv
  rw [List.length_drop] at h1
  rw [List.getElem?_drop] at h2
  exact ⟨a + i, by omega, by omega, h2⟩

theorem interior_take (L : List Nat) (b : Nat) : ∀ v ∈ interior (L.take b), v ∈ interior L := by
  intro v hv
  rw [mem_interior_iff] at hv ⊢
  obtain ⟨i, h0, h1, h2⟩ := hv
  rw [List.length_take] at h1
  rw [List.getElem?_take] at h2
  split at h2
  · exact ⟨i, h0, by omega, h2⟩
  · cases h2

theorem mem_splitPieces {idxs p : List Nat} {m : Nat} (h : p ∈ splitPieces idxs m) :
    ∃ a b, p = (idxs.drop a).take b := by
  unfold splitPieces at h
  split at h
  · obtain ⟨i, _, rfl⟩ := mem_splitLoop h
    split
    · exact ⟨_, idxs.length, by rw [List.take_of_length_le]; simp⟩
    · exact ⟨_, _, rfl⟩
  · simp at h
    subst h
    exact ⟨0, p.length, by simp⟩

/-- interior vertices of a piece are interior vertices of the stream -/
theorem interior_piece {idxs p : List Nat} {m : Nat} (h : p ∈ splitPieces idxs m) :
    ∀ v ∈ interior p, v ∈ interior idxs := by
  obtain ⟨a, b, rfl⟩ := mem_splitPieces h
  intro v hv
  exact interior_drop idxs a v (interior_take _ b v hv)

/-- a piece of a stream whose consecutive vertices differ is never a zero-length feature -/
theorem piece_not_pitFeat {idxs p : List Nat} {m : Nat} (h : p ∈ splitPieces idxs m)
    (hne : ∀ q ∈ pairsOf idxs, q.1 ≠ q.2) : isPitFeat p = false := by
  cases hp : isPitFeat p with
  | false => rfl
  | true =>
    exfalso
    match p, hp, h with
    | [a, b], hp, h =>
      have hab : a = b := by simpa [isPitFeat] using hp
      have : (a, b) ∈ pairsOf idxs := by
        rw [← splitPieces_pairs idxs m, List.mem_flatMap]
        exact ⟨[a, b], h, by simp [pairsOf]⟩
      exact hne _ this hab

/-! ### start / end of the pieces -/

/-- facts about slice `i` of the loop (`i + 1 < k`: a complete slice of `n + 1` vertices) -/
theorem splitLoop_mid (idxs : List Nat) (n k i : Nat) (hlast : (k - 1) * n < idxs.length) (hi : i + 1 < k) :
    ∃ p, (splitLoop idxs n k)[i]? = some p ∧ p.length = n + 1 ∧
      p.head? = idxs[i * n]? ∧ p.getLast? = idxs[(i + 1) * n]? ∧ (i + 1) * n < idxs.length := by
  have hle : (i + 1) * n ≤ (k - 1) * n := Nat.mul_le_mul_right n (by omega)
  have hlt : (i + 1) * n < idxs.length := by omega
  have hin : i * n + n = (i + 1) * n := by rw [Nat.succ_mul]
  have h1 : ¬ (i + 1 = k) := by omega
  refine ⟨_, splitLoop_get idxs n k i (by omega), ?_, ?_, ?_, hlt⟩
  · simp only [h1, if_false]
    rw [List.length_take, List.length_drop]; omega
  · simp only [h1, if_false]
    rw [List.head?_take, if_neg (by omega), List.head?_drop]
  · simp only [h1, if_false]
    rw [List.getLast?_eq_getElem?, List.length_take, List.length_drop]
    have : min (n + 1) (idxs.length - i * n) - 1 = n := by omega
    rw [this, List.getElem?_take, if_pos (by omega), List.getElem?_drop, hin]

/-- facts about the last slice -/
theorem splitLoop_last (idxs : List Nat) (n k : Nat) (hk : 0 < k) (hlast : (k - 1) * n < idxs.length) :
    ∃ p, (splitLoop idxs n k)[k - 1]? = some p ∧ p.length = idxs.length - (k - 1) * n ∧
      p.head? = idxs[(k - 1) * n]? ∧ p.getLast? = idxs.getLast? := by
  have h1 : k - 1 + 1 = k := by omega
  refine ⟨_, splitLoop_get idxs n k (k - 1) (by omega), ?_, ?_, ?_⟩
  · simp only [h1, if_true]; rw [List.length_drop]
  · simp only [h1, if_true]; rw [List.head?_drop]
  · simp only [h1, if_true]; rw [List.getLast?_drop, if_neg (by omega)]

/-- the start/end clause for the slices of the loop -/
theorem splitLoop_ends (idxs : List Nat) (n k : Nat) (hn : 0 < n) (hlast : (k - 1) * n < idxs.length) :
    ∀ p ∈ splitLoop idxs n k, ∃ s e, p.head? = some s ∧ p.getLast? = some e ∧
      (idxs.head? = some s ∨ ∃ g ∈ splitLoop idxs n k, 2 ≤ g.length ∧ g.getLast? = some s) ∧
      (idxs.getLast? = some e ∨ ∃ g ∈ splitLoop idxs n k, 2 ≤ g.length ∧ g.head? = some e) := by
  intro p hp
  obtain ⟨i, hik, hpe⟩ := mem_splitLoop hp
  have hget := splitLoop_get idxs n k i hik
  rw [← hpe] at hget
  have hne : idxs ≠ [] := by intro h; rw [h] at hlast; simp at hlast
  -- the start clause, common to both kinds of slice
  have hstart : ∀ s, idxs[i * n]? = some s →
      (idxs.head? = some s ∨ ∃ g ∈ splitLoop idxs n k, 2 ≤ g.length ∧ g.getLast? = some s) := by
    intro s hs
    by_cases hi0 : i = 0
    · left; rw [List.head?_eq_getElem?]; simpa [hi0] using hs
    · right
      obtain ⟨g, hg, hgl, _, hglast, _⟩ := splitLoop_mid idxs n k (i - 1) hlast (by omega)
      have : i - 1 + 1 = i := by omega
      rw [this] at hglast
      exact ⟨g, List.mem_of_getElem? hg, by omega, by rw [hglast, hs]⟩
  by_cases hil : i + 1 = k
  · -- the last slice
    obtain ⟨q, hq, hql, hqh, hqlast⟩ := splitLoop_last idxs n k (by omega) hlast
    have hik1 : k - 1 = i := by omega
    rw [hik1, hget] at hq
    cases hq
    have hlt : i * n < idxs.length := by rw [← hik1]; exact hlast
    refine ⟨idxs[i * n], idxs.getLast hne, by rw [hqh, hik1]; simp [hlt], by rw [hqlast]; simp [List.getLast?_eq_some_getLast, hne], ?_, ?_⟩
    · exact hstart _ (by simp [hlt])
    · left; simp [List.getLast?_eq_some_getLast, hne]
  · -- a complete slice
    obtain ⟨q, hq, hql, hqh, hqlast, hlt⟩ := splitLoop_mid idxs n k i hlast (by omega)
    rw [hget] at hq
    cases hq
    have hin : i * n < idxs.length := by
      have : i * n ≤ (i + 1) * n := Nat.mul_le_mul_right n (by omega)
      omega
    refine ⟨idxs[i * n], idxs[(i + 1) * n], by rw [hqh]; simp [hin], by rw [hqlast]; simp [hlt], ?_, ?_⟩
    · exact hstart _ (by simp [hin])
    · by_cases hi2 : i + 2 = k
      · -- the next slice is the last one
        obtain ⟨g, hg, hgl, hgh, _⟩ := splitLoop_last idxs n k (by omega) hlast
        have hk1 : k - 1 = i + 1 := by omega
        rw [hk1] at hg hgl hgh
        by_cases hlen : 2 ≤ g.length
        · right
          exact ⟨g, List.mem_of_getElem? hg, hlen, by rw [hgh]; simp [hlt]⟩
        · left
          have hl1 : idxs.length - 1 = (i + 1) * n := by omega
          rw [List.getLast?_eq_getElem?, hl1]; simp [hlt]
      · right
        obtain ⟨g, hg, hgl, hgh, _, _⟩ := splitLoop_mid idxs n k (i + 1) hlast (by omega)
        exact ⟨g, List.mem_of_getElem? hg, by omega, by rw [hgh]; simp [hlt]⟩

/-- **start/end clause of a split stream**: every piece is non-empty; it starts at the first vertex of
the stream or (only with a maximum length) where a piece with at least two vertices ends; it ends at
the last vertex of the stream or (only with a maximum length) where such a piece starts. -/
theorem splitPieces_ends (idxs : List Nat) (m : Nat) (hne : idxs ≠ []) :
    ∀ p ∈ splitPieces idxs m, ∃ s e, p.head? = some s ∧ p.getLast? = some e ∧
      (idxs.head? = some s ∨ (0 < m ∧ ∃ g ∈ splitPieces idxs m, 2 ≤ g.length ∧ g.getLast? = some s)) ∧
      (idxs.getLast? = some e ∨ (0 < m ∧ ∃ g ∈ splitPieces idxs m, 2 ≤ g.length ∧ g.head? = some e)) := by
  have hwhole : ∀ p, p = idxs → ∃ s e, p.head? = some s ∧ p.getLast? = some e ∧
      (idxs.head? = some s ∨ (0 < m ∧ ∃ g ∈ splitPieces idxs m, 2 ≤ g.length ∧ g.getLast? = some s)) ∧
      (idxs.getLast? = some e ∨ (0 < m ∧ ∃ g ∈ splitPieces idxs m, 2 ≤ g.length ∧ g.head? = some e)) := by
    intro p hp
    subst hp
    exact ⟨p.head hne, p.getLast hne, by simp [List.head?_eq_some_head, hne], by simp [List.getLast?_eq_some_getLast, hne],
      Or.inl (by simp [List.head?_eq_some_head, hne]), Or.inl (by simp [List.getLast?_eq_some_getLast, hne])⟩
  intro p hp
  unfold splitPieces at hp
  split at hp
  · rename_i hc
    unfold splitNK at hp
    split at hp
    · rename_i h15
      obtain ⟨_, hn, hlast, _, _⟩ := split_arith_rhe idxs.length m hc.2 h15
      obtain ⟨s, e, h1, h2, h3, h4⟩ := splitLoop_ends idxs _ _ hn hlast p hp
      have heq : splitPieces idxs m = splitLoop idxs (roundHalfEven idxs.length (roundHalfEven idxs.length m))
          (roundHalfEven idxs.length m) := by
        unfold splitPieces splitNK
        rw [if_pos hc, if_pos h15]
      rw [heq]
      refine ⟨s, e, h1, h2, ?_, ?_⟩
      · rcases h3 with h | h
        · exact Or.inl h
        · exact Or.inr ⟨hc.2, h⟩
      · rcases h4 with h | h
        · exact Or.inl h
        · exact Or.inr ⟨hc.2, h⟩
    · rw [splitLoop_one] at hp
      exact hwhole p (by simpa using hp)
  · exact hwhole p (by simpa using hp)

end Pf.C19
