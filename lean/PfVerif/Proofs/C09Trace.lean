import PfVerif.Proofs.C09Collect
/-! Trace lemmas for the `while True` loops of `upscale.py` (C09). Core Lean only. -/
namespace Pf

/-- valid fine cells point to valid fine cells -/
def FineWF (ds : Array Nat) : Prop :=
  ∀ p, p < ds.size → ds[p]! ≠ ds.size → ds[p]! < ds.size ∧ ds[ds[p]!]! ≠ ds.size

def ValidPx (ds : Array Nat) (p : Nat) : Prop := p < ds.size ∧ ds[p]! ≠ ds.size

theorem FineWF.next {ds : Array Nat} (h : FineWF ds) {p : Nat} (hp : ValidPx ds p) : ValidPx ds ds[p]! :=
  h p hp.1 hp.2

/-- the flow path from `p` is at a pit after `k` steps -/
def PitAt (ds : Array Nat) (k p : Nat) : Prop := ds[iterA ds k p]! = iterA ds k p

theorem PitAt.pred {ds : Array Nat} {k p : Nat} (h : PitAt ds (k+1) p) : PitAt ds k ds[p]! := by
  simpa [PitAt, iterA] using h

/-! ### `ihu_outlets` -/

theorem ihuOutTrace_inv (ds : Array Nat) (cell : Nat → Nat) (idx0 : Nat) (P : Nat → Prop)
    (hP : ∀ p, P p → ds[p]! ≠ p → cell ds[p]! = idx0 → P ds[p]!) :
    ∀ fuel p q, ihuOutTrace ds cell idx0 fuel p = some q → P p → P q := by
  intro fuel
  induction fuel with
  | zero => intro p q h; simp [ihuOutTrace] at h
  | succ f ih =>
    intro p q h hp
    simp only [ihuOutTrace] at h
    split at h
    · simp only [Option.some.injEq] at h; exact h ▸ hp
    · rename_i hc
      have hc' : cell ds[p]! = idx0 ∧ ds[p]! ≠ p := by
        constructor
        · apply Classical.byContradiction; intro hne; exact hc (Or.inl (fun e => hne e.symm))
        · intro e; exact hc (Or.inr e)
      exact ih _ _ h (hP p hp hc'.2 hc'.1)

/-- the pixel returned is the last one inside the coarse cell: its downstream pixel lies in another
coarse cell, or it is a pit -/
theorem ihuOutTrace_exit (ds : Array Nat) (cell : Nat → Nat) (idx0 : Nat) :
    ∀ fuel p q, ihuOutTrace ds cell idx0 fuel p = some q → cell ds[q]! ≠ idx0 ∨ ds[q]! = q := by
  intro fuel
  induction fuel with
  | zero => intro p q h; simp [ihuOutTrace] at h
  | succ f ih =>
    intro p q h
    simp only [ihuOutTrace] at h
    split at h
    · rename_i hc
      simp only [Option.some.injEq] at h; subst h
      rcases hc with hc | hc
      · exact Or.inl (fun e => hc e.symm)
      · exact Or.inr hc
    · exact ih _ _ h

theorem ihuOutTrace_downstream (ds : Array Nat) (cell : Nat → Nat) (idx0 : Nat) :
    ∀ fuel p q, ihuOutTrace ds cell idx0 fuel p = some q → ∃ k, q = iterA ds k p := by
  intro fuel
  induction fuel with
  | zero => intro p q h; simp [ihuOutTrace] at h
  | succ f ih =>
    intro p q h
    simp only [ihuOutTrace] at h
    split at h
    · simp only [Option.some.injEq] at h; exact ⟨0, by simp [iterA, h]⟩
    · obtain ⟨k, hk⟩ := ih _ _ h
      exact ⟨k+1, by simpa [iterA] using hk⟩

theorem ihuOutTrace_total (ds : Array Nat) (cell : Nat → Nat) (idx0 : Nat) :
    ∀ k p, PitAt ds k p → ∀ fuel, k < fuel → (ihuOutTrace ds cell idx0 fuel p).isSome = true := by
  intro k
  induction k with
  | zero =>
    intro p hp fuel hf
    obtain ⟨f, rfl⟩ : ∃ f, fuel = f + 1 := ⟨fuel - 1, by omega⟩
    have hp' : ds[p]! = p := by simpa [PitAt, iterA] using hp
    simp [ihuOutTrace, hp']
  | succ k ih =>
    intro p hp fuel hf
    obtain ⟨f, rfl⟩ : ∃ f, fuel = f + 1 := ⟨fuel - 1, by omega⟩
    simp only [ihuOutTrace]
    split
    · rfl
    · exact ih _ hp.pred f (by omega)

/-! ### `dmm_nextidx` -/

theorem dmmTrace_inv (ds : Array Nat) (cell : Nat → Nat) (outside : Nat → Bool) (idx0 : Nat)
    (P : Nat → Prop) (Q : Nat → Prop) (hP : ∀ p, P p → ds[p]! ≠ p → P ds[p]! ∧ Q (cell ds[p]!)) :
    ∀ fuel p idx r, dmmTrace ds cell outside idx0 fuel p idx = some r → P p → Q idx → Q r := by
  intro fuel
  induction fuel with
  | zero => intro p idx r h; simp [dmmTrace] at h
  | succ f ih =>
    intro p idx r h hp hq
    simp only [dmmTrace] at h
    split at h
    · simp only [Option.some.injEq] at h; exact h ▸ hq
    · rename_i hne
      split at h
      · simp only [Option.some.injEq] at h; exact h ▸ hq
      · have := hP p hp hne
        exact ih _ _ _ h this.1 this.2

theorem dmmTrace_total (ds : Array Nat) (cell : Nat → Nat) (outside : Nat → Bool) (idx0 : Nat) :
    ∀ k p idx, PitAt ds k p → ∀ fuel, k < fuel → (dmmTrace ds cell outside idx0 fuel p idx).isSome = true := by
  intro k
  induction k with
  | zero =>
    intro p idx hp fuel hf
    obtain ⟨f, rfl⟩ : ∃ f, fuel = f + 1 := ⟨fuel - 1, by omega⟩
    have hp' : ds[p]! = p := by simpa [PitAt, iterA] using hp
    simp [dmmTrace, hp']
  | succ k ih =>
    intro p idx hp fuel hf
    obtain ⟨f, rfl⟩ : ∃ f, fuel = f + 1 := ⟨fuel - 1, by omega⟩
    simp only [dmmTrace]
    split
    · rfl
    · split
      · rfl
      · exact ih _ _ hp.pred f (by omega)

/-! ### `eam_nextidx` -/

/-- the result is the coarse cell of a pixel strictly downstream of the start -/
theorem eamTrace_inv (ds : Array Nat) (ea : Array Bool) (cell : Nat → Nat) (idx0 : Nat)
    (P : Nat → Prop) (hP : ∀ p, P p → P ds[p]!) :
    ∀ fuel p r, eamTrace ds ea cell idx0 fuel p = some r → P p → ∃ q, P q ∧ r = cell q := by
  intro fuel
  induction fuel with
  | zero => intro p r h; simp [eamTrace] at h
  | succ f ih =>
    intro p r h hp
    simp only [eamTrace] at h
    split at h
    · simp only [Option.some.injEq] at h; exact ⟨ds[p]!, hP p hp, h.symm⟩
    · split at h
      · simp only [Option.some.injEq] at h; exact ⟨ds[p]!, hP p hp, h.symm⟩
      · exact ih _ _ h (hP p hp)

theorem eamTrace_total (ds : Array Nat) (ea : Array Bool) (cell : Nat → Nat) (idx0 : Nat) :
    ∀ k p, PitAt ds k p → ∀ fuel, k < fuel → (eamTrace ds ea cell idx0 fuel p).isSome = true := by
  intro k
  induction k with
  | zero =>
    intro p hp fuel hf
    obtain ⟨f, rfl⟩ : ∃ f, fuel = f + 1 := ⟨fuel - 1, by omega⟩
    have hp' : ds[p]! = p := by simpa [PitAt, iterA] using hp
    simp [eamTrace, hp']
  | succ k ih =>
    intro p hp fuel hf
    obtain ⟨f, rfl⟩ : ∃ f, fuel = f + 1 := ⟨fuel - 1, by omega⟩
    simp only [eamTrace]
    split
    · rfl
    · split
      · rfl
      · exact ih _ hp.pred f (by omega)

/-! ### `ihu_nextidx` -/

/-- the pixel the coarse link is derived from is strictly downstream of the outlet (invariant `P`), and when the
trace ends at an outlet pixel / pit inside the 3×3 neighbourhood that pixel is used -/
theorem ihuNextTrace_inv (ds out : Array Nat) (ea : Array Bool) (cell : Nat → Nat) (ncol idx0 : Nat)
    (P : Nat → Prop) (hP : ∀ p, P p → P ds[p]!) :
    ∀ fuel p sd r, ihuNextTrace ds out ea cell ncol idx0 fuel p sd = some r → P p →
      (∀ q, sd = some q → P q) → ∀ q, r.1 = some q → P q := by
  intro fuel
  induction fuel with
  | zero => intro p sd r h; simp [ihuNextTrace] at h
  | succ f ih =>
    intro p sd r h hp hsd q hq
    simp only [ihuNextTrace] at h
    split at h
    · split at h
      · simp only [Option.some.injEq] at h; subst h; exact hsd q hq
      · simp only [Option.some.injEq] at h; subst h
        simp only [Option.some.injEq] at hq; subst hq; exact hP p hp
    · refine ih _ _ _ h (hP p hp) ?_ q hq
      intro q' hq'
      split at hq'
      · simp only [Option.some.injEq] at hq'; subst hq'; exact hP p hp
      · exact hsd q' hq'

/-- a link that is not taken from the first-pass effective area stays in the 3×3 neighbourhood:
either the result is the carried first-pass pixel, or its cell passed `in_d8` -/
theorem ihuNextTrace_d8 (ds out : Array Nat) (ea : Array Bool) (cell : Nat → Nat) (ncol idx0 : Nat) :
    ∀ fuel p sd r, ihuNextTrace ds out ea cell ncol idx0 fuel p sd = some r → r.2 = false →
      ∃ q, r.1 = some q ∧ inD8 idx0 (cell q) ncol = true ∧ out[cell q]! = q := by
  intro fuel
  induction fuel with
  | zero => intro p sd r h; simp [ihuNextTrace] at h
  | succ f ih =>
    intro p sd r h hr
    simp only [ihuNextTrace] at h
    split at h
    · split at h
      · simp only [Option.some.injEq] at h; subst h; simp at hr
      · rename_i hd
        simp only [Option.some.injEq] at h; subst h
        simp only [decide_eq_false_iff_not, ne_eq, Decidable.not_not] at hr
        refine ⟨_, rfl, ?_, hr⟩
        simpa using hd
    · exact ih _ _ _ h hr

theorem ihuNextTrace_total (ds out : Array Nat) (ea : Array Bool) (cell : Nat → Nat) (ncol idx0 : Nat) :
    ∀ k p sd, PitAt ds k p → ∀ fuel, k < fuel →
      (ihuNextTrace ds out ea cell ncol idx0 fuel p sd).isSome = true := by
  intro k
  induction k with
  | zero =>
    intro p sd hp fuel hf
    obtain ⟨f, rfl⟩ : ∃ f, fuel = f + 1 := ⟨fuel - 1, by omega⟩
    have hp' : ds[p]! = p := by simpa [PitAt, iterA] using hp
    simp only [ihuNextTrace, hp', or_true, if_true]
    split <;> rfl
  | succ k ih =>
    intro p sd hp fuel hf
    obtain ⟨f, rfl⟩ : ∃ f, fuel = f + 1 := ⟨fuel - 1, by omega⟩
    simp only [ihuNextTrace]
    split
    · split <;> rfl
    · exact ih _ _ hp.pred f (by omega)

/-! ### `upscale_error`: the walk and the relation it computes -/

/-- `NextStop ds isOut p q`: `q` is the first pixel strictly downstream of `p` that is an outlet pixel, or the pit
in which the flow path ends if no outlet pixel is met before -/
inductive NextStop (ds : Array Nat) (isOut : Nat → Prop) : Nat → Nat → Prop
  | stop (p : Nat) : isOut ds[p]! ∨ ds[p]! = p → NextStop ds isOut p ds[p]!
  | step (p q : Nat) : ¬ isOut ds[p]! → ds[p]! ≠ p → NextStop ds isOut ds[p]! q → NextStop ds isOut p q

theorem NextStop.inv {ds : Array Nat} {isOut : Nat → Prop} {p q : Nat} (h : NextStop ds isOut p q) :
    ((isOut ds[p]! ∨ ds[p]! = p) ∧ q = ds[p]!) ∨
    (¬ isOut ds[p]! ∧ ds[p]! ≠ p ∧ NextStop ds isOut ds[p]! q) := by
  cases h with
  | stop _ h1 => exact Or.inl ⟨h1, rfl⟩
  | step _ _ h1 h2 h3 => exact Or.inr ⟨h1, h2, h3⟩

/-- the relation is functional -/
theorem NextStop.unique {ds : Array Nat} {isOut : Nat → Prop} {p q q' : Nat}
    (h1 : NextStop ds isOut p q) (h2 : NextStop ds isOut p q') : q = q' := by
  induction h1 generalizing q' with
  | stop p hs =>
    rcases h2.inv with ⟨_, h⟩ | ⟨hn, hp, _⟩
    · exact h.symm
    · rcases hs with hs | hs
      · exact absurd hs hn
      · exact absurd hs hp
  | step p q hn hp _ ih =>
    rcases h2.inv with ⟨hs, _⟩ | ⟨_, _, h⟩
    · rcases hs with hs | hs
      · exact absurd hs hn
      · exact absurd hs hp
    · exact ih h

theorem NextStop.congr {ds : Array Nat} {P Q : Nat → Prop} (hPQ : ∀ x, P x ↔ Q x) {p q : Nat}
    (h : NextStop ds P p q) : NextStop ds Q p q := by
  induction h with
  | stop p hs => exact NextStop.stop p (hs.imp (hPQ _).mp id)
  | step p q hn hp _ ih => exact NextStop.step p q (fun e => hn ((hPQ _).mpr e)) hp ih

/-- what is reached is an outlet pixel or a pit -/
theorem NextStop.target {ds : Array Nat} {isOut : Nat → Prop} {p q : Nat} (h : NextStop ds isOut p q) :
    isOut q ∨ ds[q]! = q := by
  induction h with
  | stop p hs =>
    rcases hs with hs | hs
    · exact Or.inl hs
    · exact Or.inr (by rw [hs, hs])
  | step _ _ _ _ _ ih => exact ih

theorem errWalk_sound (ds : Array Nat) (isOut : Nat → Bool) :
    ∀ fuel p q, errWalk ds isOut fuel p = some q → NextStop ds (fun x => isOut x = true) p q := by
  intro fuel
  induction fuel with
  | zero => intro p q h; simp [errWalk] at h
  | succ f ih =>
    intro p q h
    simp only [errWalk] at h
    split at h
    · rename_i hc
      simp only [Option.some.injEq] at h; subst h
      exact NextStop.stop p hc
    · rename_i hc
      exact NextStop.step p q (fun e => hc (Or.inl e)) (fun e => hc (Or.inr e)) (ih _ _ h)

theorem errWalk_total (ds : Array Nat) (isOut : Nat → Bool) :
    ∀ k p, PitAt ds k p → ∀ fuel, k < fuel → (errWalk ds isOut fuel p).isSome = true := by
  intro k
  induction k with
  | zero =>
    intro p hp fuel hf
    obtain ⟨f, rfl⟩ : ∃ f, fuel = f + 1 := ⟨fuel - 1, by omega⟩
    have hp' : ds[p]! = p := by simpa [PitAt, iterA] using hp
    simp [errWalk, hp']
  | succ k ih =>
    intro p hp fuel hf
    obtain ⟨f, rfl⟩ : ∃ f, fuel = f + 1 := ⟨fuel - 1, by omega⟩
    simp only [errWalk]
    split
    · rfl
    · exact ih _ hp.pred f (by omega)

/-- the `outlets` mask of `upscale_error` is the characteristic function of the reported outlet pixels -/
theorem outletMask_spec (subn : Nat) (out : Array Nat) (q : Nat) :
    (outletMask subn out)[q]! = true ↔ q < subn ∧ q ∈ out.toList := by
  unfold outletMask
  suffices h : ∀ (l : List Nat) (m : Array Bool), m.size = subn →
      ((l.foldl (fun m p => if p = subn then m else m.setIfInBounds p true) m)[q]! = true ↔
        (m[q]! = true ∨ (q < subn ∧ q ∈ l))) by
    have := h out.toList (Array.replicate subn false) (by simp)
    rw [this]
    constructor
    · rintro (h0 | h0)
      · by_cases hq : q < subn
        · simp [hq] at h0
        · simp [hq] at h0
      · exact h0
    · exact Or.inr
  intro l
  induction l with
  | nil => intro m _; simp
  | cons a l ih =>
    intro m hm
    simp only [List.foldl_cons]
    split
    · rename_i ha
      rw [ih m hm]
      constructor
      · rintro (h0 | ⟨h1, h2⟩)
        · exact Or.inl h0
        · exact Or.inr ⟨h1, List.mem_cons_of_mem _ h2⟩
      · rintro (h0 | ⟨h1, h2⟩)
        · exact Or.inl h0
        · rcases List.mem_cons.mp h2 with h3 | h3
          · omega
          · exact Or.inr ⟨h1, h3⟩
    · rename_i ha
      rw [ih _ (by simp [hm]), get!_setIfInBounds]
      constructor
      · rintro (h0 | ⟨h1, h2⟩)
        · split at h0
          · rename_i hc
            exact Or.inr ⟨by omega, by simp [hc.1]⟩
          · exact Or.inl h0
        · exact Or.inr ⟨h1, List.mem_cons_of_mem _ h2⟩
      · rintro (h0 | ⟨h1, h2⟩)
        · left; split
          · rfl
          · exact h0
        · rcases List.mem_cons.mp h2 with h3 | h3
          · left; rw [if_pos ⟨h3.symm, by omega⟩]
          · exact Or.inr ⟨h1, h3⟩

theorem walk_flag (ds : Array Nat) (isOut : Nat → Bool) (fuel p q t : Nat)
    (h : errWalk ds isOut fuel p = some q) :
    (q = t ↔ NextStop ds (fun x => isOut x = true) p t) ∧
    (q ≠ t ↔ ∃ q', NextStop ds (fun x => isOut x = true) p q' ∧ q' ≠ t) := by
  have hs := errWalk_sound ds isOut fuel p q h
  refine ⟨⟨fun e => e ▸ hs, fun ht => hs.unique ht⟩, ⟨fun ne => ⟨q, hs, ne⟩, ?_⟩⟩
  rintro ⟨q', h1, h2⟩
  rw [hs.unique h1]; exact h2

end Pf
