import PfVerif.Proofs.C06Flood
/-! Second stage for C06, part 2: the loop invariant of the priority flood, its preservation by one
pop, and the certificate at exit. Core Lean only. -/
namespace Pf.C06
open Pf

def InHeap (s : St) (c : Nat) : Prop := ∃ e, e ∈ s.q ∧ e.idx = c

/-- pushed at some time and no longer in the heap -/
def Popped (s : St) (c : Nat) : Prop := s.queued[c]! = true ∧ ¬ InHeap s c

/-- loop invariant of `while len(q) > 0` (between two pops); `rk` is the ghost rank -/
structure Inv (G : Grid) (conn : Nat) (elev : Array Int) (nod seed : Array Bool) (rk : Nat → Nat)
    (s : St) : Prop where
  sized : Sized G s
  nodc : ∀ c : Nat, c < G.n → nod[c]! = true →
    s.done[c]! = true ∧ s.f[c]! = elev[c]! ∧ s.d8[c]! = 247 ∧ s.queued[c]! = false
  hp : ∀ e : HE, e ∈ s.q →
    e.idx < G.n ∧ nod[e.idx]! = false ∧ s.queued[e.idx]! = true ∧ e.z = s.f[e.idx]!
  nodup : (s.q.map (·.idx)).Nodup
  sorted : HSorted s.q
  mono : ∀ p : Nat, p < G.n → Popped s p → ∀ e : HE, e ∈ s.q → s.f[p]! ≤ e.z
  seedq : ∀ c : Nat, c < G.n → seed[c]! = true → s.queued[c]! = true ∧ s.f[c]! = elev[c]!
  dq : ∀ c : Nat, c < G.n → s.done[c]! = true → nod[c]! = false → s.queued[c]! = true
  und : ∀ c : Nat, c < G.n → nod[c]! = false → s.done[c]! = false →
    s.f[c]! = elev[c]! ∧ s.d8[c]! = 0 ∧ (s.queued[c]! = true → seed[c]! = true ∧ InHeap s c)
  pd : ∀ p : Nat, p < G.n → Popped s p → s.done[p]! = true
  dn : ∀ c : Nat, c < G.n → nod[c]! = false → s.done[c]! = true →
    (s.d8[c]! = 0 → seed[c]! = true) ∧
    (s.d8[c]! ≠ 0 → ∃ (d : Nat) (o : Int × Int), o ∈ offsets conn ∧ o ≠ (0, 0) ∧
      shift G d o.1 o.2 = some c ∧ d < G.n ∧ s.d8[c]! = usCode o.1 o.2 ∧ Popped s d ∧
      s.f[c]! = max elev[c]! s.f[d]! ∧ rk d < rk c)
  l1 : ∀ b : Nat, b < G.n → Popped s b → ∀ a : Nat, Nbr G conn nod a b →
    s.done[a]! = true ∧ s.f[a]! ≤ max elev[a]! s.f[b]!

/-- the three things that can happen to a cell during the neighbour loop of the popped cell `b` -/
theorem eff_cases {G : Grid} {conn : Nat} {elev : Array Int} {z0 : Int} {b : Nat} {s s' : St}
    (E : Eff G elev z0 b (offsets conn) s s') (c : Nat) :
    (s.done[c]! = true ∧ s'.done[c]! = true ∧ s'.f[c]! = s.f[c]! ∧ s'.d8[c]! = s.d8[c]! ∧
      s'.queued[c]! = s.queued[c]!) ∨
    (s.done[c]! = false ∧ (∀ o : Int × Int, o ∈ offsets conn → shift G b o.1 o.2 ≠ some c) ∧
      s'.done[c]! = false ∧ s'.f[c]! = s.f[c]! ∧ s'.d8[c]! = s.d8[c]! ∧ s'.queued[c]! = s.queued[c]!) ∨
    (s.done[c]! = false ∧ ∃ o : Int × Int, o ∈ offsets conn ∧ shift G b o.1 o.2 = some c ∧
      s'.done[c]! = true ∧ s'.queued[c]! = true ∧
      s'.f[c]! = (if z0 - elev[c]! > 0 then z0 else s.f[c]!) ∧ s'.d8[c]! = usCode o.1 o.2) := by
  cases hd : s.done[c]! with
  | true => exact Or.inl ⟨rfl, E.keep c hd⟩
  | false =>
    right
    cases hf : (offsets conn).find? (tgt G b c) with
    | none =>
      left
      refine ⟨rfl, fun o ho hs => ?_, E.miss c hd hf⟩
      have := List.find?_eq_none.1 hf o ho
      exact this (tgt_iff.2 hs)
    | some o =>
      right
      exact ⟨rfl, o, List.mem_of_find?_eq_some hf, tgt_iff.1 (List.find?_some hf), E.hit c o hd hf⟩

theorem eff_inheap {G : Grid} {conn : Nat} {elev : Array Int} {z0 : Int} {b : Nat} {s s' : St}
    (E : Eff G elev z0 b (offsets conn) s s') (c : Nat) :
    InHeap s' c ↔ InHeap s c ∨ (s.done[c]! = false ∧ s.queued[c]! = false ∧
      ∃ o : Int × Int, o ∈ offsets conn ∧ shift G b o.1 o.2 = some c) := by
  unfold InHeap
  constructor
  · rintro ⟨e, he, hec⟩
    rcases (E.heap e).1 he with h | ⟨c', h1, h2, h3, h4⟩
    · exact Or.inl ⟨e, h, hec⟩
    · right
      have : c' = c := by rw [h4] at hec; exact hec
      subst this
      obtain ⟨o, ho, hso⟩ := List.find?_isSome.1 h3
      exact ⟨h1, h2, o, ho, tgt_iff.1 hso⟩
  · rintro (⟨e, he, hec⟩ | ⟨h1, h2, o, ho, hso⟩)
    · exact ⟨e, (E.heap e).2 (Or.inl he), hec⟩
    · refine ⟨⟨lvl z0 elev[c]!, 0, c⟩, (E.heap _).2 (Or.inr ⟨c, h1, h2, ?_, rfl⟩), rfl⟩
      exact List.find?_isSome.2 ⟨o, ho, tgt_iff.2 hso⟩

theorem lvl_ge (z0 z1 : Int) : z0 ≤ lvl z0 z1 ∧ z1 ≤ lvl z0 z1 := by
  unfold lvl; split <;> omega

section pop
variable {G : Grid} {conn : Nat} {elev : Array Int} {nod seed : Array Bool} {rk : Nat → Nat}

/-- **one pop preserves the invariant** -/
theorem inv_pop {s : St} {h : HE} {rest : List HE} (I : Inv G conn elev nod seed rk s)
    (hq : s.q = h :: rest) :
    ∃ rk', Inv G conn elev nod seed rk' (popStep G conn elev h { s with q := rest }) := by
  -- facts about the popped entry
  have hh : h ∈ s.q := by rw [hq]; exact List.mem_cons_self
  obtain ⟨hb, hbv, hbq, hbz⟩ := I.hp h hh
  have hnd := I.nodup
  rw [hq] at hnd
  simp only [List.map_cons, List.nodup_cons] at hnd
  have hrest_ne : ∀ e : HE, e ∈ rest → e.idx ≠ h.idx := fun e he hei =>
    hnd.1 (List.mem_map.2 ⟨e, he, hei⟩)
  have hso := I.sorted
  rw [hq] at hso
  have hrest_ge : ∀ e : HE, e ∈ rest → h.z ≤ e.z := by
    intro e he
    have := (List.pairwise_cons.1 hso).1 e he
    rw [not_lt_iff, HE.lt_iff] at this
    omega
  have hrest_mem : ∀ e : HE, e ∈ rest → e ∈ s.q := fun e he => by rw [hq]; exact List.mem_cons_of_mem _ he
  have hmono : ∀ p : Nat, p < G.n → Popped s p → s.f[p]! ≤ h.z := fun p hp hpp => I.mono p hp hpp h hh
  -- the state after the neighbour loop
  let s0 : St := { s with q := rest }
  have hs0 : Sized G s0 := I.sized
  have E : Eff G elev h.z h.idx (offsets conn) s0 (popStep G conn elev h s0) :=
    eff_fold h.z h.idx (offsets conn) s0 hs0
  generalize popStep G conn elev h s0 = s' at E
  have hcases := fun c => eff_cases E c
  have hinheap := fun c => eff_inheap E c
  -- heap membership before the loop
  have hin0 : ∀ c, InHeap s0 c ↔ (InHeap s c ∧ c ≠ h.idx) := by
    intro c
    constructor
    · rintro ⟨e, he, hec⟩
      exact ⟨⟨e, hrest_mem e he, hec⟩, fun hc => hrest_ne e he (hec.trans hc)⟩
    · rintro ⟨⟨e, he, hec⟩, hne⟩
      rw [hq] at he
      rcases List.mem_cons.1 he with rfl | he
      · exact absurd hec.symm hne
      · exact ⟨e, he, hec⟩
  -- the popped cell is hit by the centre offset unless it was done before
  have hb_cases : (s.done[h.idx]! = true ∧ s'.done[h.idx]! = true ∧ s'.f[h.idx]! = h.z ∧
        s'.d8[h.idx]! = s.d8[h.idx]! ∧ s'.queued[h.idx]! = true) ∨
      (s.done[h.idx]! = false ∧ s'.done[h.idx]! = true ∧ s'.f[h.idx]! = h.z ∧
        s'.d8[h.idx]! = 0 ∧ s'.queued[h.idx]! = true ∧ seed[h.idx]! = true) := by
    rcases hcases h.idx with ⟨h1, h2, h3, h4, h5⟩ | ⟨h1, h2, _⟩ | ⟨h1, o, ho, hso, h2, h3, h4, h5⟩
    · exact Or.inl ⟨h1, h2, by rw [h3]; exact hbz.symm, h4, by rw [h5]; exact hbq⟩
    · exact absurd (shift_self hb) (h2 (0, 0) (zero_mem_offsets conn))
    · right
      have ho0 := shift_eq_self hso
      obtain ⟨u1, u2, u3⟩ := I.und h.idx hb hbv h1
      refine ⟨h1, h2, ?_, ?_, h3, (u3 hbq).1⟩
      · rw [h4]
        have : s0.f[h.idx]! = s.f[h.idx]! := rfl
        rw [this, ← hbz]
        split <;> rfl
      · rw [h5, ho0]; rfl
  have hb_done' : s'.done[h.idx]! = true := by rcases hb_cases with h | h <;> exact h.2.1
  have hb_f' : s'.f[h.idx]! = h.z := by rcases hb_cases with h | h <;> exact h.2.2.1
  have hb_q' : s'.queued[h.idx]! = true := by
    rcases hb_cases with h | h
    · exact h.2.2.2.2
    · exact h.2.2.2.2.1
  -- Popped after = Popped before, plus the popped cell
  have hpop : ∀ c, c < G.n → (Popped s' c ↔ (Popped s c ∨ c = h.idx)) := by
    intro c hc
    unfold Popped
    rw [hinheap c, hin0 c]
    rcases hcases c with ⟨h1, h2, h3, h4, h5⟩ | ⟨h1, h2, h3, h4, h5, h6⟩ | ⟨h1, o, ho, hso, h2, h3, h4, h5⟩
    · have : s0.done[c]! = s.done[c]! := rfl
      have h5' : s'.queued[c]! = s.queued[c]! := h5
      rw [h5']
      constructor
      · rintro ⟨hqc, hni⟩
        by_cases hcb : c = h.idx
        · exact Or.inr hcb
        · left
          refine ⟨hqc, fun hi => hni (Or.inl ⟨hi, hcb⟩)⟩
      · rintro (⟨hqc, hni⟩ | hcb)
        · refine ⟨hqc, ?_⟩
          rintro (⟨hi, _⟩ | ⟨hd, _⟩)
          · exact hni hi
          · rw [this, h1] at hd; cases hd
        · subst hcb
          refine ⟨hbq, ?_⟩
          rintro (⟨_, hne⟩ | ⟨hd, _⟩)
          · exact hne rfl
          · rw [this, h1] at hd; cases hd
    · have h6' : s'.queued[c]! = s.queued[c]! := h6
      rw [h6']
      have hcb : c ≠ h.idx := fun hcb => by
        subst hcb; exact h2 (0, 0) (zero_mem_offsets conn) (shift_self hb)
      constructor
      · rintro ⟨hqc, hni⟩
        exact Or.inl ⟨hqc, fun hi => hni (Or.inl ⟨hi, hcb⟩)⟩
      · rintro (⟨hqc, hni⟩ | h)
        · refine ⟨hqc, ?_⟩
          rintro (⟨hi, _⟩ | ⟨_, _, o, ho, hso⟩)
          · exact hni hi
          · exact h2 o ho hso
        · exact absurd h hcb
    · have h1' : s.done[c]! = false := h1
      have hnod : nod[c]! = false := by
        cases hn : nod[c]! with
        | false => rfl
        | true => have := (I.nodc c hc hn).1; rw [h1'] at this; cases this
      obtain ⟨u1, u2, u3⟩ := I.und c hc hnod h1'
      constructor
      · rintro ⟨_, hni⟩
        by_cases hqc : s.queued[c]! = true
        · by_cases hcb : c = h.idx
          · exact Or.inr hcb
          · exact absurd (Or.inl ⟨(u3 hqc).2, hcb⟩) hni
        · have hqc' : s0.queued[c]! = false := by
            have : s0.queued[c]! = s.queued[c]! := rfl
            rw [this]; simpa using hqc
          exact absurd (Or.inr ⟨h1, hqc', o, ho, hso⟩) hni
      · rintro (⟨hqc, hni⟩ | hcb)
        · exact absurd (u3 hqc).2 hni
        · subst hcb
          refine ⟨h3, ?_⟩
          rintro (⟨_, hne⟩ | ⟨_, hqf, _⟩)
          · exact hne rfl
          · have : s0.queued[h.idx]! = s.queued[h.idx]! := rfl
            rw [this, hbq] at hqf; cases hqf
  -- levels of popped cells do not change and are at most the popped level
  have hpop_f : ∀ p, p < G.n → Popped s p → s'.f[p]! = s.f[p]! ∧ s'.done[p]! = true := by
    intro p hp hpp
    have hd := I.pd p hp hpp
    rcases hcases p with ⟨_, h2, h3, _⟩ | ⟨h1, _⟩ | ⟨h1, _⟩
    · exact ⟨h3, h2⟩
    · have : s0.done[p]! = s.done[p]! := rfl
      rw [this, hd] at h1; cases h1
    · have : s0.done[p]! = s.done[p]! := rfl
      rw [this, hd] at h1; cases h1
  have hvalid_of_undone : ∀ c, c < G.n → s.done[c]! = false → nod[c]! = false := by
    intro c hc hd
    cases hn : nod[c]! with
    | false => rfl
    | true => have := (I.nodc c hc hn).1; rw [hd] at this; cases this
  -- the ghost rank
  refine ⟨fun c => if s.done[c]! = false ∧ s'.done[c]! = true ∧ c ≠ h.idx then rk h.idx + 1 else rk c, ?_⟩
  have hrk_done : ∀ c, s.done[c]! = true →
      (if s.done[c]! = false ∧ s'.done[c]! = true ∧ c ≠ h.idx then rk h.idx + 1 else rk c) = rk c := by
    intro c hd
    rw [if_neg]
    rintro ⟨h1, _⟩
    rw [hd] at h1; cases h1
  have hrk_b : (if s.done[h.idx]! = false ∧ s'.done[h.idx]! = true ∧ h.idx ≠ h.idx then rk h.idx + 1
      else rk h.idx) = rk h.idx := by
    rw [if_neg]
    rintro ⟨_, _, h3⟩
    exact h3 rfl
  refine
    { sized := E.sized, nodc := ?_, hp := ?_, nodup := ?_, sorted := ?_, mono := ?_, seedq := ?_,
      dq := ?_, und := ?_, pd := ?_, dn := ?_, l1 := ?_ }
  · -- nodc
    intro c hc hn
    obtain ⟨n1, n2, n3, n4⟩ := I.nodc c hc hn
    rcases hcases c with ⟨_, h2, h3, h4, h5⟩ | ⟨h1, _⟩ | ⟨h1, _⟩
    · exact ⟨h2, by rw [h3]; exact n2, by rw [h4]; exact n3, by rw [h5]; exact n4⟩
    · have : s0.done[c]! = s.done[c]! := rfl
      rw [this, n1] at h1; cases h1
    · have : s0.done[c]! = s.done[c]! := rfl
      rw [this, n1] at h1; cases h1
  · -- hp
    intro e he
    rcases (E.heap e).1 he with he | ⟨c, h1, h2, h3, h4⟩
    · obtain ⟨p1, p2, p3, p4⟩ := I.hp e (hrest_mem e he)
      refine ⟨p1, p2, ?_, ?_⟩
      · rcases hcases e.idx with ⟨_, _, _, _, h5⟩ | ⟨_, _, _, _, _, h6⟩ | ⟨_, _, _, _, _, h3, _⟩
        · rw [h5]; exact p3
        · rw [h6]; exact p3
        · exact h3
      · rcases hcases e.idx with ⟨_, _, h3, _⟩ | ⟨_, _, _, h4, _⟩ | ⟨h1, _, _, _, _, _, h4, _⟩
        · rw [h3]; exact p4
        · rw [h4]; exact p4
        · rw [h4]
          have h1' : s.done[e.idx]! = false := h1
          obtain ⟨u1, _, _⟩ := I.und e.idx p1 p2 h1'
          have hge := hrest_ge e he
          have : s0.f[e.idx]! = s.f[e.idx]! := rfl
          rw [this]
          rw [if_neg (by rw [← u1, ← p4]; omega)]
          exact p4
    · obtain ⟨o, ho, hso⟩ := List.find?_isSome.1 h3
      have hc : c < G.n := (shift_spec.1 (tgt_iff.1 hso)).1
      have h1' : s.done[c]! = false := h1
      have hnod := hvalid_of_undone c hc h1'
      obtain ⟨u1, _, _⟩ := I.und c hc hnod h1'
      rw [h4]
      simp only
      refine ⟨hc, hnod, ?_, ?_⟩
      · rcases hcases c with ⟨h1'', _⟩ | ⟨_, h2', _⟩ | ⟨_, _, _, _, _, h3', _⟩
        · rw [h1] at h1''; cases h1''
        · exact absurd (tgt_iff.1 hso) (h2' o ho)
        · exact h3'
      · rcases hcases c with ⟨h1'', _⟩ | ⟨_, h2', _⟩ | ⟨_, _, _, _, _, _, h4', _⟩
        · rw [h1] at h1''; cases h1''
        · exact absurd (tgt_iff.1 hso) (h2' o ho)
        · rw [h4']
          have : s0.f[c]! = s.f[c]! := rfl
          rw [this, u1]; rfl
  · -- nodup
    refine (E.nd ?_ hnd.2).1
    intro e he
    exact (I.hp e (hrest_mem e he)).2.2.1
  · -- sorted
    exact E.sorted (List.pairwise_cons.1 hso).2
  · -- mono
    intro p hp hpp e he
    have hfp : s'.f[p]! ≤ h.z := by
      rcases (hpop p hp).1 hpp with hps | rfl
      · rw [(hpop_f p hp hps).1]; exact hmono p hp hps
      · rw [hb_f']; exact Int.le_refl _
    rcases (E.heap e).1 he with he | ⟨c, _, _, _, h4⟩
    · have := hrest_ge e he; omega
    · rw [h4]; simp only
      have := (lvl_ge h.z elev[c]!).1; omega
  · -- seedq
    intro c hc hs
    obtain ⟨q1, q2⟩ := I.seedq c hc hs
    rcases hcases c with ⟨_, _, h3, _, h5⟩ | ⟨_, _, _, h4, _, h6⟩ | ⟨h1, _, _, _, _, h3, h4, _⟩
    · exact ⟨by rw [h5]; exact q1, by rw [h3]; exact q2⟩
    · exact ⟨by rw [h6]; exact q1, by rw [h4]; exact q2⟩
    · refine ⟨h3, ?_⟩
      rw [h4]
      have h1' : s.done[c]! = false := h1
      obtain ⟨_, _, u3⟩ := I.und c hc (hvalid_of_undone c hc h1') h1'
      obtain ⟨e, he, hec⟩ := (u3 q1).2
      have hez : h.z ≤ e.z := by
        rw [hq] at he
        rcases List.mem_cons.1 he with rfl | he
        · exact Int.le_refl _
        · exact hrest_ge e he
      have hef := (I.hp e he).2.2.2
      rw [hec] at hef
      have : s0.f[c]! = s.f[c]! := rfl
      rw [this, if_neg (by omega)]
      exact q2
  · -- dq
    intro c hc hd hn
    rcases hcases c with ⟨h1, _, _, _, h5⟩ | ⟨_, _, h3, _⟩ | ⟨_, _, _, _, _, h3, _⟩
    · rw [h5]; exact I.dq c hc h1 hn
    · rw [hd] at h3; cases h3
    · exact h3
  · -- und
    intro c hc hn hd
    rcases hcases c with ⟨_, h2, _⟩ | ⟨h1, h2, _, h4, h5, h6⟩ | ⟨_, _, _, _, h2, _⟩
    · rw [hd] at h2; cases h2
    · have h1' : s.done[c]! = false := h1
      obtain ⟨u1, u2, u3⟩ := I.und c hc hn h1'
      refine ⟨by rw [h4]; exact u1, by rw [h5]; exact u2, fun hqc => ?_⟩
      rw [h6] at hqc
      have hcb : c ≠ h.idx := fun hcb => by
        subst hcb; exact h2 (0, 0) (zero_mem_offsets conn) (shift_self hb)
      exact ⟨(u3 hqc).1, (hinheap c).2 (Or.inl ((hin0 c).2 ⟨(u3 hqc).2, hcb⟩))⟩
    · rw [hd] at h2; cases h2
  · -- pd
    intro p hp hpp
    rcases (hpop p hp).1 hpp with hps | rfl
    · exact (hpop_f p hp hps).2
    · exact hb_done'
  · -- dn
    intro c hc hn hd
    rcases hcases c with ⟨h1, _, h3, h4, _⟩ | ⟨_, _, h3, _⟩ | ⟨h1, o, ho, hso, _, _, h4, h5⟩
    · obtain ⟨d1, d2⟩ := I.dn c hc hn h1
      refine ⟨fun h0 => d1 (by rw [← h4]; exact h0), fun h0 => ?_⟩
      obtain ⟨d, o, ho, ho0, hso, hdn, hcode, hpd, hf, hrk⟩ := d2 (by rw [← h4]; exact h0)
      refine ⟨d, o, ho, ho0, hso, hdn, by rw [h4]; exact hcode, (hpop d hdn).2 (Or.inl hpd), ?_, ?_⟩
      · rw [h3, (hpop_f d hdn hpd).1]; exact hf
      · rw [hrk_done c h1, hrk_done d (I.pd d hdn hpd)]; exact hrk
    · rw [hd] at h3; cases h3
    · have h1' : s.done[c]! = false := h1
      obtain ⟨u1, _, u3⟩ := I.und c hc hn h1'
      obtain ⟨dr, dc⟩ := o
      have hoff := (mem_offsets conn dr dc).1 ho
      obtain ⟨f1, f2, _⟩ := usCode_facts dr dc hoff.1 hoff.2.1 hoff.2.2.1 hoff.2.2.2.1
      by_cases ho0 : dr = 0 ∧ dc = 0
      · -- centre: the popped cell itself
        have hcb : c = h.idx := by
          obtain ⟨rfl, rfl⟩ := ho0
          have := shift_self hb
          simp only at hso
          rw [this] at hso
          injection hso with hso
          exact hso.symm
        subst hcb
        refine ⟨fun _ => (u3 hbq).1, fun h0 => ?_⟩
        rw [h5] at h0
        exact absurd (f1.2 ho0) h0
      · have hcb : c ≠ h.idx := by
          intro hcb
          subst hcb
          have := shift_eq_self hso
          injection this with a b
          exact ho0 ⟨a, b⟩
        refine ⟨fun h0 => ?_, fun _ => ⟨h.idx, (dr, dc), ho, ?_, hso, hb, h5,
          (hpop h.idx hb).2 (Or.inr rfl), ?_, ?_⟩⟩
        · rw [h5] at h0
          exact absurd (f1.1 h0) ho0
        · intro he
          injection he with a b
          exact ho0 ⟨a, b⟩
        · rw [h4, hb_f']
          have : s0.f[c]! = s.f[c]! := rfl
          rw [this, u1]
          split <;> omega
        · rw [hrk_b, if_pos ⟨h1', hd, hcb⟩]
          omega
  · -- l1
    intro b hbn hpb a hnbr
    have han : a < G.n := hnbr.1.1
    have hav : nod[a]! = false := hnbr.2.1.2
    rcases (hpop b hbn).1 hpb with hps | rfl
    · obtain ⟨l1a, l1b⟩ := I.l1 b hbn hps a hnbr
      rcases hcases a with ⟨_, h2, h3, _⟩ | ⟨h1, _⟩ | ⟨h1, _⟩
      · exact ⟨h2, by rw [h3, (hpop_f b hbn hps).1]; exact l1b⟩
      · have : s0.done[a]! = s.done[a]! := rfl
        rw [this, l1a] at h1; cases h1
      · have : s0.done[a]! = s.done[a]! := rfl
        rw [this, l1a] at h1; cases h1
    · -- the popped cell: all its neighbours have been visited now or before
      obtain ⟨o, ho, ho0, hso⟩ := (adj_iff_shift hb).1 hnbr.1.symm
      rw [hb_f']
      rcases hcases a with ⟨h1, h2, h3, _⟩ | ⟨_, h2, _⟩ | ⟨h1, _, _, _, h2, _, h4, _⟩
      · refine ⟨h2, ?_⟩
        rw [h3]
        obtain ⟨d1, d2⟩ := I.dn a han hav h1
        by_cases h0 : s.d8[a]! = 0
        · have := (I.seedq a han (d1 h0)).2
          have e1 : s0.f[a]! = s.f[a]! := rfl
          rw [e1, this]; omega
        · obtain ⟨d, _, _, _, _, hdn, _, hpd, hf, _⟩ := d2 h0
          have := hmono d hdn hpd
          have e1 : s0.f[a]! = s.f[a]! := rfl
          rw [e1, hf]; omega
      · exact absurd hso (h2 o ho)
      · refine ⟨h2, ?_⟩
        rw [h4]
        have h1' : s.done[a]! = false := h1
        obtain ⟨u1, _, _⟩ := I.und a han hav h1'
        have e1 : s0.f[a]! = s.f[a]! := rfl
        rw [e1, u1]
        split <;> omega

end pop
end Pf.C06
