import PfVerif.Proofs.C19Ok3
/-! Second stage for C19: the invariant of the outer loop of `streams.streams` and its preservation
by one iteration (`streamsStep`), for a downstream-first order processed from its end. Core Lean only. -/
namespace Pf.C19
open Pf

/-- the start/end clause of the certificate for one stream feature, relative to the list `G` of
stream features it may chain to -/
def EndsP (ds : Array Nat) (mask : Option (Array Bool)) (m : Nat) (G : List (List Nat)) (f : List Nat) : Prop :=
  ∃ s e, f.head? = some s ∧ f.getLast? = some e ∧ inStream ds mask s = true ∧
    (nupM ds mask s ≠ 1 ∨ (0 < m ∧ ∃ g ∈ G, 2 ≤ g.length ∧ g.getLast? = some s)) ∧
    (1 < nupM ds mask e ∨ ds[e]! = e ∨ (0 < m ∧ ∃ g ∈ G, 2 ≤ g.length ∧ g.head? = some e))

theorem EndsP.mono {ds : Array Nat} {mask : Option (Array Bool)} {m : Nat} {G G' : List (List Nat)}
    {f : List Nat} (h : EndsP ds mask m G f) (hsub : ∀ g ∈ G, g ∈ G') : EndsP ds mask m G' f := by
  obtain ⟨s, e, h1, h2, h3, h4, h5⟩ := h
  refine ⟨s, e, h1, h2, h3, ?_, ?_⟩
  · rcases h4 with h | ⟨hm, g, hg, h⟩
    · exact Or.inl h
    · exact Or.inr ⟨hm, g, hsub g hg, h⟩
  · rcases h5 with h | h | ⟨hm, g, hg, h⟩
    · exact Or.inl h
    · exact Or.inr (Or.inl h)
    · exact Or.inr (Or.inr ⟨hm, g, hsub g hg, h⟩)

/-- invariant of the outer loop; `pre` = the cells of the order not yet visited by the `for` loop -/
structure Inv (ds : Array Nat) (mask : Option (Array Bool)) (m : Nat) (pre : List Nat)
    (st : List (List Nat) × Array Bool) : Prop where
  size : st.2.size = ds.size
  strm : ∀ a : Nat, st.2[a]! = true → inStream ds mask a = true
  good : ∀ a : Nat, st.2[a]! = true → a ∈ pre → ∃ u : Nat, st.2[u]! = true ∧ ds[u]! = a ∧ u ≠ a
  cont : ∀ u : Nat, st.2[u]! = true → ds[u]! ≠ u → nupM ds mask ds[u]! ≤ 1 → st.2[ds[u]!]! = true
  proc : ∀ u : Nat, inStream ds mask u = true → u ∉ pre → st.2[u]! = true
  nodupA : (srcA st.1).Nodup
  nodupB : (srcB st.1).Nodup
  doneA : ∀ a ∈ srcA st.1, st.2[a]! = true
  doneB : ∀ a ∈ srcB st.1, st.2[a]! = true
  src : ∀ a : Nat, st.2[a]! = true → (ds[a]! ≠ a → a ∈ srcA st.1) ∧ (ds[a]! = a → a ∈ srcB st.1)
  ends : ∀ f ∈ streamFeats st.1, EndsP ds mask m (streamFeats st.1) f
  intr : ∀ f ∈ streamFeats st.1, ∀ v ∈ interior f, nupM ds mask v ≤ 1

theorem WalkM.all_mem {ds : Array Nat} {nup : Array Int} (S : Nat → Prop)
    (hS : ∀ x, S x → ds[x]! ≠ x → S ds[x]!)
    {c : Nat} {tail marked : List Nat} {pit : Bool} {last : Nat}
    (h : WalkM ds nup c tail marked pit last) (hc : S c) : ∀ x ∈ c :: tail, S x := by
  induction h with
  | pit c _ => intro x hx; simp at hx; subst hx; exact hc
  | conf c h1 _ =>
    intro x hx
    simp at hx
    rcases hx with rfl | rfl
    · exact hc
    · exact hS _ hc h1
  | step c tail marked pit last h1 _ _ ih =>
    intro x hx
    rcases List.mem_cons.mp hx with rfl | hx
    · exact hc
    · exact ih (hS _ hc h1) x hx

theorem inv_init (ds : Array Nat) (mask : Option (Array Bool)) (m : Nat) (seq : List Nat)
    (hcov : ∀ i, inStream ds mask i = true → i ∈ seq) :
    Inv ds mask m seq (([] : List (List Nat)), Array.replicate ds.size false) := by
  have hf : ∀ a : Nat, (Array.replicate ds.size false)[a]! = true → False := by
    intro a ha
    by_cases hlt : a < ds.size
    · simp [hlt] at ha
    · simp [hlt] at ha
  refine ⟨by simp, ?_, ?_, ?_, ?_, by simp [srcA, allPairs, streamFeats], by simp [srcB, pitFeats],
    by simp [srcA, allPairs, streamFeats], by simp [srcB, pitFeats], ?_, by simp [streamFeats], by simp [streamFeats]⟩
  · intro a ha; exact (hf a ha).elim
  · intro a ha; exact (hf a ha).elim
  · intro a ha; exact (hf a ha).elim
  · intro u hu hn; exact absurd (hcov u hu) hn
  · intro a ha; exact (hf a ha).elim

/-- skipping a cell (already flagged, or not selected by the mask) keeps the invariant -/
theorem inv_skip {ds : Array Nat} {mask : Option (Array Bool)} {m : Nat} {pre : List Nat} {s : Nat}
    {st : List (List Nat) × Array Bool} (h : Inv ds mask m (pre ++ [s]) st)
    (hskip : st.2[s]! = true ∨ maskAt mask s = false) : Inv ds mask m pre st := by
  refine ⟨h.size, h.strm, ?_, h.cont, ?_, h.nodupA, h.nodupB, h.doneA, h.doneB, h.src, h.ends, h.intr⟩
  · intro a ha hp
    exact h.good a ha (by simp [hp])
  · intro u hu hn
    by_cases hus : u = s
    · subst hus
      rcases hskip with h1 | h1
      · exact h1
      · have := (inStream_lt hu).2.2; rw [h1] at this; cases this
    · exact h.proc u hu (by simp [hn, hus])

end Pf.C19
