import PfVerif.Proofs.C18PfSo
/-! Pfafstetter refinement across depths (stage 4): the run for `depth + 1` simulates the run for `depth`
as long as levels `≤ depth` are processed: its codes are `phi c = 10·c + 1`, its outlets are the same.
This file: `phi`, the simulation of the two kinds of `stemFill` and of the inner loop `pfInner`.
Core Lean only. -/
namespace Pf.C18
open Pf

/-- the code of the deeper run -/
def phi (c : Int) : Int := if c = 0 then 0 else 10 * c + 1

theorem phi_zero : phi 0 = 0 := by simp [phi]
theorem phi_ne {c : Int} (h : c ≠ 0) : phi c = 10 * c + 1 := by simp [phi, h]
theorem phi_eq_zero {c : Int} : phi c = 0 ↔ c = 0 := by
  unfold phi; split <;> omega
theorem phi_inj {a b : Int} : phi a = phi b ↔ a = b := by
  unfold phi; split <;> split <;> omega
theorem phi_div (c : Int) : phi c / 10 = c := by
  unfold phi; split <;> omega

/-- codes of the deeper run: `phi pfaf0 + m·(10·p) = phi (pfaf0 + m·p)` -/
theorem phi_code {pfaf0 p m : Int} (hp0 : 0 < pfaf0) (hm : 0 ≤ m) (hp : 0 < p) :
    phi pfaf0 + m * (10 * p) = phi (pfaf0 + m * p) := by
  have : 0 ≤ m * p := Int.mul_nonneg hm (Int.le_of_lt hp)
  rw [phi_ne (by omega), phi_ne (by omega)]
  grind

structure SimBr (brA brB : Array Int) : Prop where
  size : brB.size = brA.size
  val : ∀ s : Nat, brB[s]! = phi brA[s]!

theorem SimBr.set {brA brB : Array Int} (h : SimBr brA brB) (i : Nat) (v : Int) :
    SimBr (brA.setIfInBounds i v) (brB.setIfInBounds i (phi v)) := by
  refine ⟨by simp [h.size], fun s => ?_⟩
  rw [get!_setIfInBounds, get!_setIfInBounds, h.size]
  split
  · rfl
  · exact h.val s

/-- sub-basin / pit fill: both runs stop at the same cell, because along a main stem that starts at a
cell of order `≤ depth + 1` the two reduced orders agree -/
theorem stemFill_sim_sub (usMain : Array Nat) (n : Nat) (soA soB soraw : Array Int) (D : Nat)
    (hag : ∀ u, u < n → soraw[u]! ≤ (D : Int) + 1 → soA[u]! = soB[u]!)
    (hmainS : ∀ c, c < n → usMain[c]! < n → soraw[usMain[c]!]! = 0 ∨ soraw[usMain[c]!]! = soraw[c]!)
    (v : Int) :
    ∀ (f idx : Nat) (brA brB rA : Array Int), idx < n → soraw[idx]! ≤ (D : Int) + 1 →
      stemFill usMain n (fun u _ => soA[u]! == 0) v f idx brA = some rA → SimBr brA brB →
      ∃ rB, stemFill usMain n (fun u _ => soB[u]! == 0) (phi v) f idx brB = some rB ∧ SimBr rA rB := by
  intro f
  induction f with
  | zero => intro idx brA brB rA _ _ h; simp [stemFill] at h
  | succ f ih =>
    intro idx brA brB rA hidx hso h hsim
    simp only [stemFill] at h ⊢
    by_cases hu : usMain[idx]! ≥ n
    · simp only [hu, decide_true, Bool.true_or, if_true, Option.some.injEq] at h ⊢
      subst h; exact ⟨brB, rfl, hsim⟩
    · have hu' : usMain[idx]! < n := by omega
      have hsu : soraw[usMain[idx]!]! ≤ (D : Int) + 1 := by
        rcases hmainS idx hidx hu' with h1 | h1 <;> omega
      have hagu := hag _ hu' hsu
      have hdec : decide (usMain[idx]! ≥ n) = false := by simpa using hu'
      by_cases hc : (soA[usMain[idx]!]! == 0) = true
      · have hcB : (soB[usMain[idx]!]! == 0) = true := by rw [← hagu]; exact hc
        simp only [hdec, hc, Bool.false_or, if_true, Option.some.injEq] at h
        simp only [hdec, hcB, Bool.false_or, if_true]
        subst h; exact ⟨brB, rfl, hsim⟩
      · have hcB : ¬ (soB[usMain[idx]!]! == 0) = true := by rw [← hagu]; exact hc
        simp only [hdec, hc, Bool.false_or] at h
        simp only [hdec, hcB, Bool.false_or]
        exact ih _ _ _ rA hu' hsu h (hsim.set _ v)

/-- inter-basin fill: the stop test `code != pfaf_int_ds` gives the same answers -/
theorem stemFill_sim_int (usMain : Array Nat) (n : Nat) (w v : Int) :
    ∀ (f idx : Nat) (brA brB rA : Array Int),
      stemFill usMain n (fun _ x => x != w) v f idx brA = some rA → SimBr brA brB →
      ∃ rB, stemFill usMain n (fun _ x => x != phi w) (phi v) f idx brB = some rB ∧ SimBr rA rB := by
  intro f
  induction f with
  | zero => intro idx brA brB rA h; simp [stemFill] at h
  | succ f ih =>
    intro idx brA brB rA h hsim
    simp only [stemFill] at h ⊢
    have htest : (brB[usMain[idx]!]! != phi w) = (brA[usMain[idx]!]! != w) := by
      rw [hsim.val]
      by_cases hc : brA[usMain[idx]!]! = w
      · rw [hc]
        have h1 : (phi w != phi w) = false := bne_self_eq_false _
        have h2 : (w != w) = false := bne_self_eq_false _
        rw [h1, h2]
      · have : phi brA[usMain[idx]!]! ≠ phi w := fun h => hc (phi_inj.1 h)
        have h1 : (phi brA[usMain[idx]!]! != phi w) = true := bne_iff_ne.2 this
        have h2 : (brA[usMain[idx]!]! != w) = true := bne_iff_ne.2 hc
        rw [h1, h2]
    by_cases hc : (decide (usMain[idx]! ≥ n) || brA[usMain[idx]!]! != w) = true
    · have hcB : (decide (usMain[idx]! ≥ n) || brB[usMain[idx]!]! != phi w) = true := by
        rw [htest]; exact hc
      simp only [hc, if_true, Option.some.injEq] at h
      simp only [hcB, if_true]
      subst h; exact ⟨brB, rfl, hsim⟩
    · have hcB : ¬ (decide (usMain[idx]! ≥ n) || brB[usMain[idx]!]! != phi w) = true := by
        rw [htest]; exact hc
      simp only [hc] at h
      simp only [hcB]
      exact ih _ _ _ rA h (hsim.set _ v)

/-- relation between the states of the two inner loops -/
structure SimIn (D d0 : Nat) (stA stB : PfSt × Int × Bool) : Prop where
  br : SimBr stA.1.1 stB.1.1
  idxs : stB.1.2.1 = stA.1.2.1
  labs : ∃ extra, stB.1.2.2 = stA.1.2.2.map (fun e => (phi e.1, e.2)) ++ extra ∧
    (∀ e ∈ extra, e.2 = D + 1) ∧ (d0 < D → extra = [])
  int : stB.2.1 = phi stA.2.1

theorem simLabs_push {D d0 : Nat} {labsA labsB : List (Int × Nat)} {v : Int}
    (h : ∃ extra, labsB = labsA.map (fun e => (phi e.1, e.2)) ++ extra ∧
      (∀ e ∈ extra, e.2 = D + 1) ∧ (d0 < D → extra = [])) (hd : d0 ≤ D) :
    ∃ extra, (labsB ++ [(phi v, d0 + 1)]) =
        (if d0 < D then labsA ++ [(v, d0 + 1)] else labsA).map (fun e => (phi e.1, e.2)) ++ extra ∧
      (∀ e ∈ extra, e.2 = D + 1) ∧ (d0 < D → extra = []) := by
  obtain ⟨extra, h1, h2, h3⟩ := h
  by_cases hlt : d0 < D
  · have he := h3 hlt
    subst he
    refine ⟨[], ?_, by simp, fun _ => rfl⟩
    rw [if_pos hlt, h1]; simp
  · have hD : d0 = D := by omega
    refine ⟨extra ++ [(phi v, d0 + 1)], ?_, fun e he => ?_, fun h => absurd h hlt⟩
    · rw [if_neg hlt, h1]; simp
    · rcases List.mem_append.1 he with he | he
      · exact h2 e he
      · simp only [List.mem_singleton] at he; subst he; simp [hD]

variable {ds usMain : Array Nat}

theorem pfInner_sim (soA soB soraw : Array Int) (D : Nat) (pfaf0 : Int) (d0 : Nat)
    (hag : ∀ u, u < ds.size → soraw[u]! ≤ (D : Int) + 1 → soA[u]! = soB[u]!)
    (hmainS : ∀ c, c < ds.size → usMain[c]! < ds.size →
      soraw[usMain[c]!]! = 0 ∨ soraw[usMain[c]!]! = soraw[c]!)
    (hp0 : 0 < pfaf0) (hd : d0 ≤ D) :
    ∀ (l : List Nat) (i : Nat) (stA stB rA : PfSt × Int × Bool),
      (∀ t ∈ l, t < ds.size ∧ soraw[t]! ≤ (D : Int) + 1) →
      pfInner ds usMain soA D pfaf0 d0 l i stA = some rA → SimIn D d0 stA stB →
      ∃ rB, pfInner ds usMain soB (D + 1) (phi pfaf0) d0 l i stB = some rB ∧ SimIn D d0 rA rB := by
  intro l
  induction l with
  | nil =>
    intro i stA stB rA _ h hsim
    simp only [pfInner, Option.some.injEq] at h ⊢
    subst h; exact ⟨stB, rfl, hsim⟩
  | cons t rest ih =>
    intro i stA stB rA hl h hsim
    obtain ⟨⟨brA, idxsA, labsA⟩, intA, okA⟩ := stA
    obtain ⟨⟨brB, idxsB, labsB⟩, intB, okB⟩ := stB
    obtain ⟨sbr, sidx, slabs, sint⟩ := hsim
    simp only at sbr sidx slabs sint
    subst sidx sint
    obtain ⟨htlt, htso⟩ := hl t (by simp)
    have hpp : (0 : Int) < (10 : Int) ^ (D - d0) := pow10_pos _
    have hpB : (10 : Int) ^ (D + 1 - d0) = 10 * (10 : Int) ^ (D - d0) := by
      have : D + 1 - d0 = (D - d0) + 1 := by omega
      rw [this, Int.pow_succ, Int.mul_comm]
    have hsub : phi pfaf0 + (2 * (i : Int) + 1) * (10 : Int) ^ (D + 1 - d0) =
        phi (pfaf0 + (2 * (i : Int) + 1) * (10 : Int) ^ (D - d0)) := by
      rw [hpB]; exact phi_code hp0 (by omega) hpp
    have hpint : phi pfaf0 + ((i : Int) + 1) * 2 * (10 : Int) ^ (D + 1 - d0) =
        phi (pfaf0 + ((i : Int) + 1) * 2 * (10 : Int) ^ (D - d0)) := by
      rw [hpB]; exact phi_code hp0 (by omega) hpp
    have hdB : d0 < D + 1 := by omega
    simp only [pfInner] at h ⊢
    rw [hsub, hpint]
    simp only [hdB, if_true]
    split at h
    · cases h
    · rename_i br1A h1A
      obtain ⟨br1B, h1B, sim1⟩ := stemFill_sim_sub usMain ds.size soA soB soraw D hag hmainS _ _ t _
        (brB.setIfInBounds t (phi (pfaf0 + (2 * (i : Int) + 1) * (10 : Int) ^ (D - d0)))) br1A htlt htso h1A
        (sbr.set t _)
      rw [h1B]
      simp only
      have slabs1 := simLabs_push (v := pfaf0 + (2 * (i : Int) + 1) * (10 : Int) ^ (D - d0)) slabs hd
      split at h
      · rename_i hc
        rw [if_pos hc]
        exact ih (i + 1) _ _ rA (fun t' ht' => hl t' (List.mem_cons_of_mem _ ht')) h
          ⟨sim1, rfl, slabs1, rfl⟩
      · rename_i hc
        rw [if_neg hc]
        split at h
        · cases h
        · rename_i br2A h2A
          obtain ⟨br2B, h2B, sim2⟩ := stemFill_sim_int usMain ds.size intA _ _ _ _
            (br1B.setIfInBounds usMain[ds[t]!]!
              (phi (pfaf0 + ((i : Int) + 1) * 2 * (10 : Int) ^ (D - d0)))) br2A h2A (sim1.set _ _)
          rw [h2B]
          simp only
          have slabs2 := simLabs_push (v := pfaf0 + ((i : Int) + 1) * 2 * (10 : Int) ^ (D - d0)) slabs1 hd
          exact ih (i + 1) _ _ rA (fun t' ht' => hl t' (List.mem_cons_of_mem _ ht')) h
            ⟨sim2, rfl, slabs2, rfl⟩

end Pf.C18
