import PfVerif.Proofs.C14_gvf
/-! Helper lemmas for the extension C14_gvf, part B: the value invariant (last accepted call wins), the
downstream-first lemmas (`h0` is the downstream cell's value of the same iteration; one iteration is an instance
of the shared `sweepDown`). Core Lean only. -/
namespace Pf.C14g
open Pf

variable {α γ : Type} [Inhabited α]

/-! ### value invariant -/

theorem valueAfter_snoc (K : Kernel α γ) (init : Array α) (evs : List (Ev α γ)) (e : Ev α γ) (j : Nat) :
    valueAfter K init (evs ++ [e]) j =
      if (e.acc && e.cell == j) = true then (match e.ans with | some a => K.store a.h1 | none => init[j]!)
      else valueAfter K init evs j := by
  by_cases h : (e.acc && e.cell == j) = true
  · simp only [valueAfter, lastAcc_snoc, h, if_true]
    cases e.ans <;> rfl
  · simp [valueAfter, lastAcc_snoc, h]

/-- the invariant "every cell holds what its last accepted call stored, else its initial value" -/
def ValueInv (K : Kernel α γ) (init : Array α) (s : St α γ) : Prop :=
  s.out.size = init.size ∧ ∀ j, j < init.size → s.out[j]! = valueAfter K init s.ev j

theorem step_valueInv (K : Kernel α γ) (ds : Array Nat) (init : Array α) (zb : Array α) (s : St α γ) (i : Nat)
    (hI : ValueInv K init s) : ValueInv K init (step K ds zb s i) := by
  obtain ⟨hsz, hval⟩ := hI
  refine ⟨by rw [step_out_size]; exact hsz, ?_⟩
  intro j hj
  unfold step
  split
  · obtain ⟨e, hev, hcell, _, _, hans, _, hacc, hout⟩ := call_spec K ds zb s i
    rw [hev, valueAfter_snoc, hout]
    cases hh : s.orc.head? with
    | none =>
      rw [hh] at hacc
      simp only [] at hacc
      simp [hacc, hval j hj]
    | some a =>
      rw [hh] at hacc hans
      simp only [] at hacc
      by_cases hc : K.accept i s.out[ds[i]!]! a = true
      · rw [hc] at hacc
        simp only [hc, if_true, hacc, hcell, Bool.true_and, hans]
        rw [get!_setIfInBounds]
        by_cases hij : i = j
        · subst hij; simp [hsz, hj]
        · simp [hij, hval j hj]
      · have hf : K.accept i s.out[ds[i]!]! a = false := by simpa using hc
        rw [hf] at hacc
        simp [hf, hacc, hval j hj]
  · exact hval j hj

/-! ### downstream-first order -/

omit [Inhabited α] in
theorem eligible_not_pit (K : Kernel α γ) (ds : Array Nat) (i : Nat) (h : eligible K ds i = true) :
    ds[i]! ≠ i := by
  simp [eligible] at h
  exact h.2

/-- under a downstream-first order every call of a sweep receives as `h0` the value its downstream cell holds
at the END of that sweep (the downstream cell was handled earlier in the same sweep and is not touched again) -/
theorem sweep_h0_topo (K : Kernel α γ) (ds : Array Nat) (zb : Array α) {seq : List Nat} (htopo : Topo ds seq)
    (s : St α γ) :
    ∃ new, (sweep K ds zb seq s).ev = s.ev ++ new ∧
      ∀ e ∈ new, e.cell ∈ seq ∧ eligible K ds e.cell = true ∧
        e.h0 = (sweep K ds zb seq s).out[ds[e.cell]!]! := by
  induction htopo with
  | nil => exact ⟨[], by simp [sweep], by simp⟩
  | @snoc pre i hpre hi hds ih =>
    obtain ⟨new, hev, hnew⟩ := ih
    rw [sweep_snoc]
    by_cases hel : eligible K ds i = true
    · have hstep : step K ds zb (sweep K ds zb pre s) i = call K ds zb (sweep K ds zb pre s) i := by
        simp [step, hel]
      rw [hstep]
      obtain ⟨e, hev', hcell, hh0, _, _, _, _, _⟩ := call_spec K ds zb (sweep K ds zb pre s) i
      refine ⟨new ++ [e], by rw [hev', hev]; simp, ?_⟩
      intro e' he'
      simp only [List.mem_append, List.mem_singleton] at he'
      rcases he' with he' | rfl
      · obtain ⟨hm, hel', hh⟩ := hnew e' he'
        have hne : i ≠ ds[e'.cell]! := by
          intro h
          have := Topo.ds_mem hpre e'.cell hm
          rw [← h] at this
          exact hi this
        refine ⟨by simp [hm], hel', ?_⟩
        rw [call_out_ne _ _ _ _ _ _ hne]
        exact hh
      · refine ⟨by simp [hcell], by rw [hcell]; exact hel, ?_⟩
        rw [hcell, call_out_ne _ _ _ _ _ _ (Ne.symm (eligible_not_pit K ds i hel))]
        exact hh0
    · have hstep : step K ds zb (sweep K ds zb pre s) i = sweep K ds zb pre s := by
        simp [step, hel]
      rw [hstep]
      refine ⟨new, hev, ?_⟩
      intro e' he'
      obtain ⟨hm, hel', hh⟩ := hnew e' he'
      exact ⟨by simp [hm], hel', hh⟩

/-! ### one iteration is an instance of the shared `sweepDown` -/

theorem setIfInBounds_self (a : Array α) (i : Nat) : a.setIfInBounds i a[i]! = a := by
  apply Array.ext_getElem?
  intro j
  by_cases h : i = j
  · subst h
    by_cases h2 : i < a.size
    · simp [h2]
    · simp [Array.setIfInBounds, h2]
  · rw [Array.getElem?_setIfInBounds_ne h]

theorem takeWhile_ne_of_not_mem (pre post : List Nat) (i : Nat) (h : i ∉ pre) :
    (pre ++ i :: post).takeWhile (· != i) = pre := by
  induction pre with
  | nil => simp
  | cons x xs ih =>
    have hx : x ≠ i := fun hh => h (by simp [hh])
    have hxs : i ∉ xs := fun hh => h (by simp [hh])
    simp [hx, ih hxs]

omit [Inhabited α] in
theorem callers_snoc (K : Kernel α γ) (ds : Array Nat) (pre : List Nat) (i : Nat) :
    callers K ds (pre ++ [i]) = if eligible K ds i = true then callers K ds pre ++ [i] else callers K ds pre := by
  unfold callers
  rw [List.filter_append]
  by_cases h : eligible K ds i = true <;> simp [h]

/-- prefix form: after the cells `pre` of `seq` the depths are those of `sweepDown` over `pre` with the
position-indexed answers, and exactly `#callers pre` answers have been consumed -/
theorem sweep_prefix_sweepDown (K : Kernel α γ) (ds : Array Nat) (zb : Array α) (seq : List Nat) (s : St α γ) :
    ∀ pre, Topo ds pre → (∃ post, seq = pre ++ post) →
      (sweep K ds zb pre s).out = sweepDown ds (gStep K ds seq s.orc) pre s.out ∧
      (sweep K ds zb pre s).orc = s.orc.drop (callers K ds pre).length := by
  intro pre hpre
  induction hpre with
  | nil => intro _; simp [sweep, sweepDown, callers]
  | @snoc pre i hpre hi hds ih =>
    intro ⟨post, hpost⟩
    obtain ⟨ihout, ihorc⟩ := ih ⟨i :: post, by rw [hpost]; simp⟩
    have hpos : posOf K ds seq i = (callers K ds pre).length := by
      unfold posOf callers
      rw [hpost]
      have : pre ++ [i] ++ post = pre ++ i :: post := by simp
      rw [this, takeWhile_ne_of_not_mem pre post i hi]
    rw [sweep_snoc, sweepDown_snoc, callers_snoc]
    rw [← ihout]
    unfold stepDown gStep
    rw [hpos]
    by_cases hel : eligible K ds i = true
    · have hstep : step K ds zb (sweep K ds zb pre s) i = call K ds zb (sweep K ds zb pre s) i := by
        simp [step, hel]
      rw [hstep]
      obtain ⟨e, _, _, _, _, _, horc, _, hout⟩ := call_spec K ds zb (sweep K ds zb pre s) i
      have hhead : (sweep K ds zb pre s).orc.head? = s.orc[(callers K ds pre).length]? := by
        rw [ihorc, List.head?_drop]
      rw [hout, horc, hhead, ihorc]
      simp only [hel, if_true]
      refine ⟨?_, by simp⟩
      cases s.orc[(callers K ds pre).length]? with
      | none => simp only []; rw [setIfInBounds_self]
      | some a =>
        simp only []
        split
        · rfl
        · rw [setIfInBounds_self]
    · have hstep : step K ds zb (sweep K ds zb pre s) i = sweep K ds zb pre s := by
        simp [step, hel]
      rw [hstep]
      simp only [hel]
      refine ⟨?_, ihorc⟩
      simp [setIfInBounds_self]

theorem sweep_eq_sweepDown (K : Kernel α γ) (ds : Array Nat) (zb : Array α) {seq : List Nat}
    (htopo : Topo ds seq) (s : St α γ) :
    (sweep K ds zb seq s).out = sweepDown ds (gStep K ds seq s.orc) seq s.out :=
  (sweep_prefix_sweepDown K ds zb seq s seq htopo ⟨[], by simp⟩).1

end Pf.C14g
