import PfVerif.Proofs.C15Adjust
/-! Lemmas for C15, part 3: the 1-D streamline fixer `_adjust_elevation` (model `adjust1d`):
length kept, range kept, identity on non-increasing profiles. Core Lean only. -/
namespace Pf.C15
open Pf

/-! ### generic loop rule for `for i in range(n)` -/
theorem range_fold_inv {σ : Type} (step : σ → Nat → σ) (P : Nat → σ → Prop) (s0 : σ) (n : Nat)
    (h0 : P 0 s0) (hs : ∀ i s, i < n → P i s → P (i+1) (step s i)) :
    P n ((List.range n).foldl step s0) := by
  suffices h : ∀ m, m ≤ n → P m ((List.range m).foldl step s0) from h n (Nat.le_refl _)
  intro m
  induction m with
  | zero => intro _; exact h0
  | succ m ih =>
    intro hm
    rw [List.range_succ, List.foldl_append]
    exact hs m _ (by omega) (ih (by omega))

/-! ### candidates -/
theorem pick_cases (c c2 : Cand) : pick c c2 = c ∨ pick c c2 = c2 := by
  unfold pick; split <;> simp

theorem opt3_cases (e : Array Int) (imin imax i : Nat) (zs : List Int) :
    ∀ (i0 i1 : Nat) (best : Cand), opt3 e imin imax i zs i0 i1 best = best ∨
      ∃ z ∈ zs, ∃ a b, opt3 e imin imax i zs i0 i1 best = mkCand e a b 2 z := by
  induction zs with
  | nil => intro _ _ best; exact Or.inl rfl
  | cons z zs ih =>
    intro i0 i1 best
    simp only [opt3]
    rcases ih (firstLe e z (imin - i0) i0) (firstLe e z (i - i1) i1)
      (pick best (mkCand e (firstLe e z (imin - i0) i0) (max (imax+1) (firstLe e z (i - i1) i1)) 2 z)) with h | ⟨z', hz', a, b, h⟩
    · rw [h]
      rcases pick_cases best (mkCand e (firstLe e z (imin - i0) i0) (max (imax+1) (firstLe e z (i - i1) i1)) 2 z) with h2 | h2
      · exact Or.inl h2
      · exact Or.inr ⟨z, by simp, _, _, h2⟩
    · exact Or.inr ⟨z', by simp [hz'], a, b, h⟩

theorem insDesc_mem (x y : Int) (r : List Int) (h : y ∈ insDesc x r) : y = x ∨ y ∈ r := by
  induction r with
  | nil => simp [insDesc] at h; exact Or.inl h
  | cons w r ih =>
    simp only [insDesc] at h
    split at h
    · simp only [List.mem_cons] at h ⊢
      rcases h with h | h | h
      · exact Or.inl h
      · exact Or.inr (Or.inl h)
      · exact Or.inr (Or.inr h)
    · split at h
      · exact Or.inr h
      · simp only [List.mem_cons] at h ⊢
        rcases h with h | h
        · exact Or.inr (Or.inl h)
        · rcases ih h with h | h
          · exact Or.inl h
          · exact Or.inr (Or.inr h)

theorem uniqDesc_mem (l : List Int) (y : Int) (h : y ∈ uniqDesc l) : y ∈ l := by
  induction l with
  | nil => simp [uniqDesc] at h
  | cons x l ih =>
    simp only [uniqDesc, List.foldr_cons] at h
    rcases insDesc_mem _ _ _ h with h | h
    · simp [h]
    · exact List.mem_cons_of_mem _ (ih h)

theorem rangeL_mem (a b k : Nat) : k ∈ rangeL a b ↔ a ≤ k ∧ k < b := by
  unfold rangeL
  rw [List.mem_range'_1]
  omega

theorem setFold_pres (g : Int → Int) (P : Int → Prop) (hg : ∀ v, P v → P (g v)) : ∀ (l : List Nat) (e : Array Int),
    (∀ k : Nat, k < e.size → P e[k]!) →
    (l.foldl (fun e k => e.setIfInBounds k (g e[k]!)) e).size = e.size ∧
    ∀ k : Nat, k < e.size → P (l.foldl (fun e k => e.setIfInBounds k (g e[k]!)) e)[k]! := by
  intro l
  induction l with
  | nil => intro e h; exact ⟨rfl, h⟩
  | cons j l ih =>
    intro e h
    simp only [List.foldl_cons]
    have h' : ∀ k : Nat, k < (e.setIfInBounds j (g e[j]!)).size → P (e.setIfInBounds j (g e[j]!))[k]! := by
      intro k hk
      simp only [Array.size_setIfInBounds] at hk
      rw [get!_setIfInBounds]
      split
      · rename_i hjk; exact hg _ (h j hjk.2)
      · exact h k hk
    obtain ⟨h1, h2⟩ := ih _ h'
    exact ⟨by rw [h1]; simp, fun k hk => h2 k (by simpa using hk)⟩

theorem setFold_not_mem (g : Int → Int) : ∀ (l : List Nat) (e : Array Int) (k : Nat), k ∉ l →
    (l.foldl (fun e k => e.setIfInBounds k (g e[k]!)) e)[k]! = e[k]! := by
  intro l
  induction l with
  | nil => intro e k _; rfl
  | cons j l ih =>
    intro e k hk
    simp only [List.foldl_cons]
    rw [ih _ k (fun h => hk (by simp [h])), get!_setIfInBounds]
    have : ¬ j = k := fun h => hk (by simp [h])
    simp [this]

theorem candVal_range (mode : Nat) (z lo hi : Int) (hz : lo ≤ z ∧ z ≤ hi) (v : Int) (hv : lo ≤ v ∧ v ≤ hi) :
    lo ≤ candVal mode z v ∧ candVal mode z v ≤ hi := by
  unfold candVal
  split
  · omega
  · split <;> omega

/-! ### length -/
theorem applyCand_size (e : Array Int) (c : Cand) : (applyCand e c).size = e.size :=
  (setFold_pres (candVal c.mode c.z) (fun _ => True) (fun _ _ => trivial) _ e (fun _ _ => trivial)).1

theorem a1Step_size (n : Nat) (s : A1) (i : Nat) : (a1Step n s i).e.size = s.e.size := by
  unfold a1Step
  simp only
  split
  · split
    · simp only [a1Fix]; exact applyCand_size _ _
    · rfl
  · rfl

theorem adjust1d_length (l : List Int) : (adjust1d l).length = l.length := by
  unfold adjust1d
  simp only [Array.length_toList]
  have := range_fold_inv (a1Step l.length) (fun _ s => s.e.size = l.length) (a1Init l.toArray) l.length
    (by simp [a1Init]) (fun i s _ h => by rw [a1Step_size]; exact h)
  exact this

/-! ### range -/
theorem arr_get!_mem (a : Array Int) (k : Nat) (h : k < a.size) : a[k]! ∈ a.toList := by
  rw [getElem!_pos a k h]; simp

theorem arr_map_get! (g : Int → Int) (a : Array Int) (k : Nat) (h : k < a.size) : (a.map g)[k]! = g a[k]! := by
  rw [getElem!_pos (a.map g) k (by simpa using h), getElem!_pos a k h]; simp

def RInv (n : Nat) (lo hi : Int) (s : A1) : Prop :=
  s.e.size = n ∧ (∀ k : Nat, k < n → lo ≤ s.e[k]! ∧ s.e[k]! ≤ hi) ∧ (lo ≤ s.zmax ∧ s.zmax ≤ hi) ∧
    (lo ≤ s.zmin ∧ s.zmin ≤ hi)

theorem a1Fix_range (n : Nat) (lo hi : Int) (e : Array Int) (imin imax i : Nat) (zmin zmax : Int)
    (hsz : e.size = n) (hi' : i < n) (he : ∀ k : Nat, k < n → lo ≤ e[k]! ∧ e[k]! ≤ hi)
    (h1 : lo ≤ zmin ∧ zmin ≤ hi) (h2 : lo ≤ zmax ∧ zmax ≤ hi) :
    (a1Fix e imin imax i zmin zmax).size = n ∧
    ∀ k : Nat, k < n → lo ≤ (a1Fix e imin imax i zmin zmax)[k]! ∧ (a1Fix e imin imax i zmin zmax)[k]! ≤ hi := by
  unfold a1Fix
  simp only
  obtain ⟨best, hbest⟩ : ∃ b, b = opt3 e imin imax i (uniqDesc ((rangeL (imin+1) i).map (e[·]!))).tail 0 imax
      (pick (mkCand e imin i 0 zmin) (mkCand e 0 imax 1 zmax)) := ⟨_, rfl⟩
  rw [← hbest]
  have hz : lo ≤ best.z ∧ best.z ≤ hi := by
    rcases opt3_cases e imin imax i (uniqDesc ((rangeL (imin+1) i).map (e[·]!))).tail 0 imax
      (pick (mkCand e imin i 0 zmin) (mkCand e 0 imax 1 zmax)) with h | ⟨z, hz, a, b, h⟩
    · rw [hbest, h]
      rcases pick_cases (mkCand e imin i 0 zmin) (mkCand e 0 imax 1 zmax) with h' | h' <;> rw [h']
      · exact h1
      · exact h2
    · rw [hbest, h]
      simp only [mkCand]
      have hz2 := uniqDesc_mem _ _ (List.mem_of_mem_tail hz)
      obtain ⟨k, hk, rfl⟩ := List.mem_map.1 hz2
      rw [rangeL_mem] at hk
      exact he k (by omega)
  have := setFold_pres (candVal best.mode best.z) (fun v => lo ≤ v ∧ v ≤ hi)
    (fun v hv => candVal_range _ _ _ _ hz v hv) (rangeL best.a best.b) e (fun k hk => he k (by omega))
  unfold applyCand
  exact ⟨by rw [this.1]; exact hsz, fun k hk => this.2 k (by omega)⟩

theorem a1Step_range (n : Nat) (lo hi : Int) (s : A1) (i : Nat) (hi' : i < n) (h : RInv n lo hi s) :
    RInv n lo hi (a1Step n s i) := by
  obtain ⟨hsz, he, hmax, hmin⟩ := h
  have hzi := he i hi'
  unfold a1Step
  simp only
  have hzmax' : lo ≤ (if s.e[i]! ≥ s.zmax then s.e[i]! else s.zmax) ∧
      (if s.e[i]! ≥ s.zmax then s.e[i]! else s.zmax) ≤ hi := by split <;> assumption
  split
  · split
    · obtain ⟨f1, f2⟩ := a1Fix_range n lo hi s.e s.imin (if s.e[i]! ≥ s.zmax then i else s.imax) i s.zmin
        (if s.e[i]! ≥ s.zmax then s.e[i]! else s.zmax) hsz hi' he hmin hzmax'
      exact ⟨f1, f2, f2 i hi', f2 (i-1) (by omega)⟩
    · exact ⟨hsz, he, he i hi', he (i-1) (by omega)⟩
  · exact ⟨hsz, he, hzmax', hmin⟩

theorem adjust1d_range : RangeKept adjust1d := by
  intro v lo hi hv x hx
  by_cases hn : v.length = 0
  · have := adjust1d_length v
    rw [hn] at this
    rw [List.eq_nil_of_length_eq_zero this] at hx
    simp at hx
  have hpos : 0 < v.length := Nat.pos_of_ne_zero hn
  have hget : ∀ k : Nat, k < v.length → lo ≤ v.toArray[k]! ∧ v.toArray[k]! ≤ hi := fun k hk =>
    hv _ (by have := arr_get!_mem v.toArray k (by simpa using hk); simpa using this)
  have hinit : RInv v.length lo hi (a1Init v.toArray) := by
    refine ⟨by simp [a1Init], fun k hk => ?_, hget 0 hpos, hget 0 hpos⟩
    simp only [a1Init]
    rw [arr_map_get! _ _ _ (by simpa using hk)]
    have h1 := hget k hk
    have h2 := hget (v.toArray.size - 1) (by simp; omega)
    omega
  have hfin := range_fold_inv (a1Step v.length) (fun _ s => RInv v.length lo hi s) (a1Init v.toArray) v.length
    hinit (fun i s hi' h => a1Step_range _ _ _ s i hi' h)
  unfold adjust1d at hx
  obtain ⟨fs, hfs⟩ : ∃ s, s = (List.range v.length).foldl (a1Step v.length) (a1Init v.toArray) := ⟨_, rfl⟩
  rw [← hfs] at hx hfin
  obtain ⟨k, hk, e⟩ := List.mem_iff_getElem.1 hx
  have hk' : k < fs.e.size := by simpa using hk
  have := hfin.2.1 k (by rw [← hfin.1]; exact hk')
  rw [getElem!_pos fs.e k hk'] at this
  simp only [Array.getElem_toList] at e
  rw [e] at this
  exact this

/-! ### identity on non-increasing profiles -/
theorem nonInc_le (e : Array Int) (n : Nat) (h : ∀ j, j + 1 < n → e[j+1]! ≤ e[j]!) :
    ∀ d j, j + d < n → e[j+d]! ≤ e[j]! := by
  intro d
  induction d with
  | zero => intro j _; exact Int.le_refl _
  | succ d ih =>
    intro j hj
    exact Int.le_trans (h (j+d) (by omega)) (ih j (by omega))

theorem adjust1d_id : IdOnNonInc adjust1d := by
  intro v hv
  by_cases hn : v.length = 0
  · have := adjust1d_length v
    rw [hn] at this
    rw [List.eq_nil_of_length_eq_zero this, List.eq_nil_of_length_eq_zero hn]
  have hpos : 0 < v.length := Nat.pos_of_ne_zero hn
  obtain ⟨n, hnd⟩ : ∃ n, n = v.length := ⟨_, rfl⟩
  obtain ⟨e0, he0⟩ : ∃ a, a = v.toArray := ⟨_, rfl⟩
  have hsz : e0.size = n := by rw [he0, hnd]; simp
  have hl2a : ∀ k : Nat, v[k]! = e0[k]! := by intro k; rw [he0]; simp
  have hni : ∀ j, j + 1 < n → e0[j+1]! ≤ e0[j]! := by
    intro j hj; rw [← hl2a, ← hl2a]; exact hv j (by omega)
  have hle := nonInc_le e0 n hni
  -- np.maximum(elevtn, elevtn[-1]) is the identity
  have hinit_e : (a1Init e0).e = e0 := by
    simp only [a1Init]
    apply array_ext! (by simp)
    intro k
    by_cases hk : k < e0.size
    · rw [arr_map_get! _ _ _ hk]
      have := hle (e0.size - 1 - k) k (by omega)
      have e : k + (e0.size - 1 - k) = e0.size - 1 := by omega
      rw [e] at this
      omega
    · simp [getElem!_def, hk]
  have key := range_fold_inv (a1Step n)
    (fun i s => s.e = e0 ∧ s.pit = false ∧ ∀ k : Nat, i ≤ k → k < n → e0[k]! ≤ s.z1) (a1Init e0) n
    ⟨hinit_e, rfl, fun k _ hk => by
      have := hle k 0 (by omega)
      simpa [a1Init] using this⟩
    (fun i s hi' ⟨h1, h2, h3⟩ => by
      have hz := h3 i (Nat.le_refl _) hi'
      unfold a1Step
      simp only [h1, h2]
      have hc : ¬ ((e0[i]! > s.z1 ∧ s.z2 ≥ s.z1) ∨ (false = true ∧ i + 1 = n)) := by
        intro h; rcases h with h | h
        · omega
        · exact absurd h.1 (by simp)
      rw [if_neg hc]
      refine ⟨rfl, rfl, fun k hk1 hk2 => ?_⟩
      have := hle (k - i) i (by omega)
      have e : i + (k - i) = k := by omega
      rw [e] at this
      exact this)
  unfold adjust1d
  rw [← hnd, ← he0, key.1, he0]

end Pf.C15
