import PfVerif.Proofs.C09_ihuInv
/-! `ihu_relocate_outlets` never changes the size of the coarse network array (C09 extension). Core Lean only. -/
namespace Pf.C09ihu
open Pf

theorem foldl_set_size (l : List (Nat × Nat)) : ∀ a : Array Nat,
    (l.foldl (fun a x => a.setIfInBounds x.1 x.2) a).size = a.size := by
  induction l with
  | nil => intro a; rfl
  | cons x l ih => intro a; rw [List.foldl_cons, ih]; simp

theorem S4.setDs_cds_size (s : S4) (c v : Nat) : (s.setDs c v).cds.size = s.cds.size := by
  unfold S4.setDs; split
  · simp
  · rfl

theorem S4.setOut_cds (s : S4) (c p : Nat) : (s.setOut c p).cds = s.cds := by
  unfold S4.setOut; split <;> rfl

theorem S4.unroll_cds_size (s : S4) : s.unroll.cds.size = s.cds.size := by
  unfold S4.unroll
  simp only
  exact foldl_set_size _ _

theorem tribLoop_size (e : Env) (m idx0 sds0 : Nat) :
    ∀ fuel subidx idxds0 path s s', tribLoop e idx0 sds0 fuel subidx idxds0 path s = some s' →
      s.cds.size = m → s'.cds.size = m := by
  intro fuel
  induction fuel with
  | zero => intro subidx idxds0 path s s' h; simp [tribLoop] at h
  | succ f ih =>
    intro subidx idxds0 path s s' h hm
    simp only [tribLoop] at h
    split at h
    · split at h
      · cases h; exact hm
      · split at h
        · cases h; rw [S4.setDs_cds_size]; exact hm
        · cases h; exact hm
    · split at h
      · split at h
        · cases h
        · split at h
          · cases h
            rw [S4.setOut_cds, S4.setDs_cds_size, S4.setDs_cds_size]; exact hm
          · exact ih _ _ _ _ _ h hm
      · exact ih _ _ _ _ _ h hm

theorem step4Update_size (e : Env) (m : Nat) (tr : Tribs) (s s' : S4) (idx1 pix1 j : Nat) (ks : List Nat)
    (h : step4Update e tr s idx1 pix1 j ks = some s') (hm : s.cds.size = m) : s'.cds.size = m := by
  simp only [step4Update] at h
  split at h
  · cases h
  · rename_i s1 hfold
    have h1 : s1.cds.size = m := by
      refine foldlM_inv _ (fun (s : S4) => s.cds.size = m) _ ?_ _ _ ?_ hfold
      · intro b a b' _ hb hstep
        split at hstep
        · cases hstep; exact hb
        · exact tribLoop_size e m _ _ _ _ _ _ _ _ hstep hb
      · rw [S4.setOut_cds, S4.setDs_cds_size]; exact hm
    split at h
    · cases h
      rw [S4.unroll_cds_size]; exact h1
    · cases h; exact h1

theorem step4A_size (e : Env) (m : Nat) (cells pixs : List Nat) (tr : Tribs) (j : Nat) (s s' : S4)
    (h : step4A e cells pixs tr s j = some s') (hm : s.cds.size = m) : s'.cds.size = m := by
  simp only [step4A] at h
  split at h
  · cases h; exact hm
  · split at h
    · cases h
      rw [S4.unroll_cds_size]; exact hm
    · cases h; exact hm
    · exact step4Update_size e m tr _ s' _ _ j _ h hm
    · cases h; exact hm

theorem step4_size (e : Env) (m idx00 : Nat) (cells pixs : List Nat) (tr : Tribs) :
    ∀ fuel s s', step4 e idx00 cells pixs tr fuel s = some s' → s.cds.size = m → s'.cds.size = m := by
  intro fuel
  induction fuel with
  | zero => intro s s' h; simp [step4] at h
  | succ f ih =>
    intro s s' h hm
    simp only [step4] at h
    split at h
    · cases h
    · rename_i s1 hfold
      have h1 : s1.cds.size = m := by
        refine foldlM_inv _ (fun (s : S4) => s.cds.size = m) _ ?_ _ _ ?_ hfold
        · intro b a b' _ hb hstep
          exact step4A_size e m cells pixs tr a b b' hstep hb
        · exact hm
      split at h
      · exact ih _ _ h h1
      · cases h; exact h1

theorem relocOne_size (e : Env) (m : Nat) (st st' : RelSt) (idx00 : Nat) (h : relocOne e st idx00 = some st')
    (hm : st.cds.size = m) : st'.cds.size = m := by
  simp only [relocOne] at h
  split at h
  · cases h
  · split at h
    · cases h; exact hm
    · split at h
      · cases h
      · split at h
        · cases h
        · rename_i s hs
          cases h
          have h1 : s.cds.size = m := step4_size e m idx00 _ _ _ _ _ _ hs hm
          simp only
          split
          · rw [S4.unroll_cds_size]; exact h1
          · exact h1

theorem relocateOutlets_size (e : Env) (fix : List Nat) (cds out : Array Nat) (sorts : Sorts) (r : RelSt)
    (h : relocateOutlets e fix cds out sorts = some r) : r.cds.size = cds.size := by
  simp only [relocateOutlets] at h
  exact foldlM_inv _ (fun (st : RelSt) => st.cds.size = cds.size) _
    (fun b a b' _ hb hstep => relocOne_size e cds.size b b' _ hstep hb) _ _ rfl h

end Pf.C09ihu
