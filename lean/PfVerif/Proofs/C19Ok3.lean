import PfVerif.Proofs.C19Ok1
import PfVerif.Proofs.C19Ok2
/-! Second stage for C19: basic facts about the declarative inflow count and bookkeeping of the
emitted sources (`srcA`: upstream ends of stream pairs, `srcB`: pits with a zero-length feature).
Core Lean only. -/
namespace Pf.C19
open Pf

variable {ds : Array Nat} {mask : Option (Array Bool)}

theorem inStream_lt {i : Nat} (h : inStream ds mask i = true) : i < ds.size ∧ isValid ds i = true ∧ maskAt mask i = true := by
  simp only [inStream, Bool.and_eq_true] at h
  have h1 := h.1
  simp only [isValid, Bool.and_eq_true, decide_eq_true_eq] at h1
  exact ⟨h1.1, h.1, h.2⟩

theorem closed_step (hcl : dsClosed ds mask = true) {i : Nat} (h : inStream ds mask i = true) :
    inStream ds mask ds[i]! = true := by
  have := List.all_eq_true.mp hcl i (List.mem_range.mpr (inStream_lt h).1)
  simpa [h] using this

/-- the array count and the declarative count agree on valid cells (as inequalities) -/
theorem nup_gt_iff {d : Nat} (hv : isValid ds d = true) :
    (upstreamCount ds mask)[d]! > 1 ↔ 1 < nupM ds mask d := by
  rw [upstreamCount_spec ds mask d hv]; omega

def isInflow (ds : Array Nat) (mask : Option (Array Bool)) (v j : Nat) : Bool :=
  inStream ds mask j && ds[j]! == v && j != v

theorem nupM_eq (v : Nat) : nupM ds mask v = ((List.range ds.size).filter (isInflow ds mask v)).length := rfl

/-- a cell with at most one inflowing stream cell has at most one -/
theorem unique_inflow {a u c : Nat} (hN : nupM ds mask a ≤ 1)
    (hu : inStream ds mask u = true) (hc : inStream ds mask c = true)
    (hua : ds[u]! = a) (hca : ds[c]! = a) (hune : u ≠ a) (hcne : c ≠ a) : u = c := by
  apply Classical.byContradiction
  intro hne
  have hnd : [u, c].Nodup := by simp [hne]
  have hsub : [u, c] ⊆ (List.range ds.size).filter (isInflow ds mask a) := by
    intro x hx
    simp only [List.mem_cons, List.not_mem_nil, or_false] at hx
    rw [List.mem_filter, List.mem_range]
    rcases hx with rfl | rfl
    · exact ⟨(inStream_lt hu).1, by simp [isInflow, hu, hua, hune]⟩
    · exact ⟨(inStream_lt hc).1, by simp [isInflow, hc, hca, hcne]⟩
  have := List.Nodup.length_le_of_subset hnd hsub
  rw [← nupM_eq] at this
  simp at this
  omega

/-- a cell with an inflowing stream cell has one -/
theorem exists_inflow {a : Nat} (hN : 0 < nupM ds mask a) :
    ∃ u, inStream ds mask u = true ∧ ds[u]! = a ∧ u ≠ a := by
  rw [nupM_eq] at hN
  obtain ⟨u, hu⟩ := List.exists_mem_of_length_pos hN
  rw [List.mem_filter] at hu
  have := hu.2
  simp only [isInflow, Bool.and_eq_true, beq_iff_eq, bne_iff_ne, ne_eq] at this
  exact ⟨u, this.1.1, this.1.2, this.2⟩

/-! ### sources -/

def srcA (out : List (List Nat)) : List Nat := (allPairs out).map (·.1)
def srcB (out : List (List Nat)) : List Nat := (pitFeats out).map (·.head!)

theorem streamFeats_append (a b : List (List Nat)) : streamFeats (a ++ b) = streamFeats a ++ streamFeats b := by
  simp [streamFeats]

theorem pitFeats_append (a b : List (List Nat)) : pitFeats (a ++ b) = pitFeats a ++ pitFeats b := by
  simp [pitFeats]

theorem streamFeats_walk (w : WalkRes) (m : Nat) (hne : ∀ q ∈ pairsOf w.idxs, q.1 ≠ q.2) :
    streamFeats (walkFeatures w m) = splitPieces w.idxs m := by
  unfold walkFeatures
  rw [streamFeats_append]
  have h1 : streamFeats (splitPieces w.idxs m) = splitPieces w.idxs m := by
    unfold streamFeats
    rw [List.filter_eq_self]
    intro p hp
    simp [piece_not_pitFeat hp hne]
  have h2 : streamFeats (if w.pit = true then [[w.last, w.last]] else []) = [] := by
    unfold streamFeats
    split <;> simp [isPitFeat]
  rw [h1, h2, List.append_nil]

theorem pitFeats_walk (w : WalkRes) (m : Nat) (hne : ∀ q ∈ pairsOf w.idxs, q.1 ≠ q.2) :
    pitFeats (walkFeatures w m) = if w.pit = true then [[w.last, w.last]] else [] := by
  unfold walkFeatures
  rw [pitFeats_append]
  have h1 : pitFeats (splitPieces w.idxs m) = [] := by
    unfold pitFeats
    rw [List.filter_eq_nil_iff]
    intro p hp
    simp [piece_not_pitFeat hp hne]
  have h2 : pitFeats (if w.pit = true then [[w.last, w.last]] else []) =
      if w.pit = true then [[w.last, w.last]] else [] := by
    unfold pitFeats
    split <;> simp [isPitFeat]
  rw [h1, h2, List.nil_append]

theorem srcA_append_walk (out : List (List Nat)) (w : WalkRes) (m : Nat)
    (hne : ∀ q ∈ pairsOf w.idxs, q.1 ≠ q.2) :
    srcA (out ++ walkFeatures w m) = srcA out ++ (pairsOf w.idxs).map (·.1) := by
  unfold srcA allPairs
  rw [streamFeats_append, streamFeats_walk w m hne, List.flatMap_append, List.map_append,
    splitPieces_pairs]

theorem srcB_append_walk (out : List (List Nat)) (w : WalkRes) (m : Nat)
    (hne : ∀ q ∈ pairsOf w.idxs, q.1 ≠ q.2) :
    srcB (out ++ walkFeatures w m) = srcB out ++ (if w.pit = true then [w.last] else []) := by
  unfold srcB
  rw [pitFeats_append, pitFeats_walk w m hne, List.map_append]
  split <;> simp [head!_cons]

end Pf.C19
