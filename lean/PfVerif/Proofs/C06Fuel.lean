import PfVerif.Proofs.C06Final
/-! Second stage for C06, part 4: the fuel `n + 1` of the model loop always suffices (potential =
heap size + number of cells not yet queued; it starts at `n` and drops by one per pop). Core Lean only. -/
namespace Pf.C06
open Pf

theorem length_hpush (x : HE) (l : List HE) : (hpush x l).length = l.length + 1 := by
  induction l with
  | nil => rfl
  | cons a r ih =>
    unfold hpush
    split
    · rfl
    · simp [ih]

/-- number of cells not yet queued -/
def unq (n : Nat) (a : Array Bool) : Nat := (List.range n).countP (fun c => !a[c]!)

/-- potential: heap size + cells not yet queued; every loop iteration lowers it by one -/
def pot (G : Grid) (s : St) : Nat := s.q.length + unq G.n s.queued

theorem countP_set (a : Array Bool) (j : Nat) (hj : j < a.size) (ha : a[j]! = false) (l : List Nat)
    (hl : l.Nodup) :
    l.countP (fun c => !(a.setIfInBounds j true)[c]!) + (if j ∈ l then 1 else 0) =
      l.countP (fun c => !a[c]!) := by
  induction l with
  | nil => simp
  | cons x r ih =>
    have hn := List.nodup_cons.1 hl
    have ih := ih hn.2
    rw [List.countP_cons, List.countP_cons, get!_setIfInBounds]
    by_cases hjx : j = x
    · subst hjx
      have : j ∉ r := hn.1
      simp only [this, if_false, Nat.add_zero] at ih
      have ha' : a[j] = false := by
        have : a[j]! = a[j] := by simp [hj]
        rw [← this]; exact ha
      simp [hj, ha', ih]
    · have h1 : ¬ (j = x ∧ j < a.size) := fun h => hjx h.1
      have h2 : (j ∈ x :: r) ↔ j ∈ r := by simp [hjx]
      simp only [h1, if_false, h2]
      omega

theorem unq_set {n : Nat} (a : Array Bool) (j : Nat) (hn : a.size = n) (hj : j < n) (ha : a[j]! = false) :
    unq n (a.setIfInBounds j true) + 1 = unq n a := by
  have := countP_set a j (by omega) ha (List.range n) List.nodup_range
  simp only [List.mem_range, hj, if_true] at this
  exact this

theorem pot_visit {G : Grid} {elev : Array Int} (z0 : Int) (i0 : Nat) (s : St) (o : Int × Int)
    (hs : Sized G s) : pot G (visit G elev z0 i0 s o) = pot G s := by
  by_cases hmiss : ∀ j, shift G i0 o.1 o.2 = some j → s.done[j]! = true
  · rw [visit_miss hmiss]
  · have hex : ∃ j, shift G i0 o.1 o.2 = some j ∧ s.done[j]! = false := by
      apply Classical.byContradiction
      intro hne
      apply hmiss
      intro j hj
      cases hd : s.done[j]! with
      | true => rfl
      | false => exact absurd ⟨j, hj, hd⟩ hne
    obtain ⟨j, hsh, hd⟩ := hex
    have hj : j < G.n := (shift_spec.1 hsh).1
    unfold visit pot
    simp only [hsh, hd, Bool.false_eq_true, if_false]
    by_cases hq : s.queued[j]! = true
    · simp [hq]
    · have hq' : s.queued[j]! = false := by simpa using hq
      simp only [hq', Bool.not_false, if_true, length_hpush]
      have := unq_set s.queued j hs.2.1 hj hq'
      omega

theorem pot_fold {G : Grid} {elev : Array Int} (z0 : Int) (i0 : Nat) (l : List (Int × Int)) (s : St)
    (hs : Sized G s) : pot G (l.foldl (visit G elev z0 i0) s) = pot G s := by
  induction l generalizing s with
  | nil => rfl
  | cons o l ih =>
    simp only [List.foldl_cons]
    rw [ih _ (sized_visit z0 i0 s o hs), pot_visit z0 i0 s o hs]

theorem sized_fold {G : Grid} {elev : Array Int} (z0 : Int) (i0 : Nat) (l : List (Int × Int)) (s : St)
    (hs : Sized G s) : Sized G (l.foldl (visit G elev z0 i0) s) :=
  (eff_fold z0 i0 l s hs).sized

/-- **the fuel suffices**: the loop ends with an empty heap whenever the potential fits the fuel -/
theorem loop_empties {G : Grid} {conn : Nat} {elev : Array Int} (fuel : Nat) (s : St) (hs : Sized G s)
    (hp : pot G s ≤ fuel) : (fillLoop G conn elev fuel s).q = [] := by
  induction fuel generalizing s with
  | zero =>
    unfold fillLoop
    unfold pot at hp
    exact List.eq_nil_of_length_eq_zero (by omega)
  | succ k ih =>
    unfold fillLoop
    split
    · rename_i hq; exact hq
    · rename_i h rest hq
      have hs0 : Sized G { s with q := rest } := hs
      apply ih _ (sized_fold _ _ _ _ hs0)
      show pot G (List.foldl (visit G elev h.z h.idx) { s with q := rest } (offsets conn)) ≤ k
      rw [pot_fold _ _ _ _ hs0]
      unfold pot at hp ⊢
      rw [hq] at hp
      simp only [List.length_cons] at hp
      simp only
      omega

theorem length_initHeap_fold (elev : Array Int) (queued : Array Bool) (l : List Nat) (q : List HE) :
    (l.foldl (fun q i => if queued[i]! then hpush ⟨elev[i]!, 1, i⟩ q else q) q).length =
      q.length + l.countP (fun c => queued[c]!) := by
  induction l generalizing q with
  | nil => simp
  | cons a l ih =>
    simp only [List.foldl_cons, List.countP_cons]
    rw [ih]
    by_cases hq : queued[a]! = true
    · simp [hq, length_hpush]; omega
    · simp [hq]

theorem pot_init (G : Grid) (elev : Array Int) (nod seed : Array Bool) :
    pot G (initState G elev nod seed) = G.n := by
  unfold pot initState initHeap unq
  simp only
  rw [length_initHeap_fold]
  simp only [List.length_nil, Nat.zero_add]
  have h1 := List.length_eq_countP_add_countP (fun c => seed[c]!) (l := List.range G.n)
  simp only [List.length_range] at h1
  have h2 : List.countP (fun c => !seed[c]!) (List.range G.n) =
      List.countP (fun a => decide ¬seed[a]! = true) (List.range G.n) := by
    apply List.countP_congr
    intro x _
    simp
  omega


theorem sized_init {G : Grid} {elev : Array Int} {nod seed : Array Bool} (hN : nod.size = G.n)
    (hE : elev.size = G.n) (hS : seed.size = G.n) : Sized G (initState G elev nod seed) :=
  ⟨by simp [initState, hN], by simp [initState, hS], by simp [initState, hE], by simp [initState, hN]⟩

/-- the model never runs out of fuel -/
theorem fillModel_fin {G : Grid} {conn : Nat} {elev : Array Int} {nod : Array Bool}
    {pits : Option (List Nat)} {minMode : Bool} {f : Array Int} {d8 : Array Nat} {fin : Bool}
    (hN : nod.size = G.n) (hE : elev.size = G.n)
    (h : fillModel G conn elev nod pits minMode = some (f, d8, fin)) : fin = true := by
  unfold fillModel at h
  split at h
  · cases h
  · rename_i seed hseed
    simp only [Option.some.injEq, Prod.mk.injEq] at h
    obtain ⟨_, _, h3⟩ := h
    rw [← h3]
    have := loop_empties (conn := conn) (elev := elev) (G.n + 1) _
      (sized_init hN hE (seedsOf_size hseed)) (by rw [pot_init]; omega)
    rw [this]; rfl

end Pf.C06
