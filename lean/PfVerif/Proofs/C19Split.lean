import PfVerif.Model.C19
/-! Lemmas for the split rule of `streams.streams` (C19): rounding bounds, the arithmetic of
`k = round(l / m)`, `n = round(l / k)`, and the list facts about the slices. Core Lean only. -/
namespace Pf.C19
open Pf

/-- `roundHalfEven a b` is within one half of `a / b` -/
theorem rhe_bounds (a b : Nat) (hb : 0 < b) :
    2 * (b * roundHalfEven a b) ≤ 2 * a + b ∧ 2 * a ≤ 2 * (b * roundHalfEven a b) + b := by
  have h := Nat.div_add_mod a b
  have hr := Nat.mod_lt a hb
  have hs : b * (a / b + 1) = b * (a / b) + b := Nat.mul_succ _ _
  unfold roundHalfEven
  split
  · omega
  · split
    · rw [hs]; omega
    · split
      · omega
      · rw [hs]; omega

/-- in the tie `a / b = q + 1/2` the even neighbour is taken -/
theorem rhe_5_2 : roundHalfEven 5 2 = 2 := by decide

/-- the arithmetic core of the split rule, from the two rounding bounds only (plus the one tie
`l = 5, m = 2` where round-half-even matters) -/
theorem split_arith_core (l m k n : Nat) (hm : 0 < m) (hlm : 3 * m < 2 * l)
    (hk1 : 2 * (k * m) ≤ 2 * l + m) (hk2 : 2 * l ≤ 2 * (k * m) + m)
    (hn1 : 2 * (k * n) ≤ 2 * l + k) (hn2 : 2 * l ≤ 2 * (k * n) + k)
    (htie : m = 2 → k = 2 → l = 5 → n = 2) :
    2 ≤ k ∧ 1 ≤ n ∧ (k - 1) * n < l ∧ 2 * n + 1 ≤ 3 * m ∧ 2 * (l - (k - 1) * n) ≤ 3 * m := by
  -- k ≥ 2
  have hk : 2 ≤ k := by
    apply Classical.byContradiction
    intro hc
    have : k = 0 ∨ k = 1 := by omega
    rcases this with h | h <;> subst h <;> simp at hk2 <;> omega
  have hkm : k ≤ k * m := Nat.le_mul_of_pos_right k hm
  have hmk : 2 * m ≤ k * m := Nat.mul_le_mul_right m hk
  -- n ≥ 1
  have hn : 1 ≤ n := by
    apply Classical.byContradiction
    intro hc
    have : n = 0 := by omega
    subst this
    simp at hn2
    omega
  -- split k = (k-1) + 1
  obtain ⟨j, hj⟩ : ∃ j, k = j + 1 := ⟨k - 1, by omega⟩
  have hP : k * m = j * m + m := by rw [hj, Nat.succ_mul]
  have hQ : k * n = j * n + n := by rw [hj, Nat.succ_mul]
  have hj1 : k - 1 = j := by omega
  rw [hj1]
  -- k ≤ m whenever n ≠ m
  have hk_le_m_of_gt : m + 1 ≤ n → k ≤ m := by
    intro h
    have h1 : k * (m + 1) ≤ k * n := Nat.mul_le_mul_left k h
    rw [Nat.mul_succ] at h1
    omega
  have hk_le_m_of_lt : n + 1 ≤ m → k ≤ m := by
    intro h
    have h1 : k * (n + 1) ≤ k * m := Nat.mul_le_mul_left k h
    rw [Nat.mul_succ] at h1
    omega
  refine ⟨hk, hn, ?_, ?_, ?_⟩
  · -- the last piece is non-empty
    by_cases hnm : n ≤ m
    · have : j * n ≤ j * m := Nat.mul_le_mul_left j hnm
      omega
    · have := hk_le_m_of_gt (by omega)
      omega
  · -- a non-final piece (n + 1 vertices) has at most (3m + 1) / 2 vertices
    apply Classical.byContradiction
    intro hc
    have h3 : 3 * m ≤ 2 * n := by omega
    have h4 : k * (3 * m) ≤ k * (2 * n) := Nat.mul_le_mul_left k h3
    have h5 : k * (3 * m) = 3 * (k * m) := by rw [Nat.mul_left_comm]
    have h6 : k * (2 * n) = 2 * (k * n) := by rw [Nat.mul_left_comm]
    rw [h5, h6] at h4
    have hPle : k * m ≤ m + k := by omega
    by_cases hm3 : 3 ≤ m
    · have : k * 3 ≤ k * m := Nat.mul_le_mul_left k hm3
      omega
    · by_cases hm1 : m = 1
      · subst hm1
        simp at hk1 hk2 hPle hmk
        have hkl : k = l := by omega
        subst hkl
        by_cases hn2' : 2 ≤ n
        · have : k * 2 ≤ k * n := Nat.mul_le_mul_left k hn2'
          omega
        · omega
      · have hm2 : m = 2 := by omega
        subst hm2
        have hk2' : k = 2 := by omega
        subst hk2'
        have hl5 : l = 5 := by omega
        have := htie rfl rfl hl5
        omega
  · -- the last piece
    by_cases hnm : m ≤ n
    · have : j * m ≤ j * n := Nat.mul_le_mul_left j hnm
      omega
    · have := hk_le_m_of_lt (by omega)
      have hS : j * n ≤ l := by
        have : j * n ≤ j * m := Nat.mul_le_mul_left j (by omega)
        omega
      omega

/-! ### list facts -/

theorem pairsOf_cons_cons (x y : Nat) (r : List Nat) : pairsOf (x :: y :: r) = (x, y) :: pairsOf (y :: r) := by
  simp [pairsOf]

@[simp] theorem pairsOf_nil : pairsOf [] = [] := rfl
@[simp] theorem pairsOf_single (x : Nat) : pairsOf [x] = [] := rfl

/-- cutting a polyline at vertex `n` (which both parts keep) preserves the list of links -/
theorem pairs_take_drop (n : Nat) : ∀ (L : List Nat),
    pairsOf (L.take (n + 1)) ++ pairsOf (L.drop n) = pairsOf L := by
  induction n with
  | zero =>
    intro L
    cases L with
    | nil => rfl
    | cons x r => simp
  | succ n ih =>
    intro L
    match L with
    | [] => rfl
    | [x] => simp
    | x :: y :: r =>
      have := ih (y :: r)
      simp only [List.take_succ_cons, List.drop_succ_cons] at this ⊢
      rw [pairsOf_cons_cons x y r, ← this]
      cases n with
      | zero => simp [pairsOf_cons_cons]
      | succ n' => simp [pairsOf_cons_cons]

/-- recursive form of the `for i in range(k)` slicing loop -/
theorem splitLoop_succ (idxs : List Nat) (n k : Nat) (hk : 0 < k) :
    splitLoop idxs n (k + 1) = idxs.take (n + 1) :: splitLoop (idxs.drop n) n k := by
  unfold splitLoop
  rw [List.range_succ_eq_map, List.map_cons, List.map_map]
  have h0 : ¬ (0 + 1 = k + 1) := by omega
  simp only [h0, if_false, Nat.zero_mul, List.drop_zero]
  congr 1
  apply List.map_congr_left
  intro i _
  simp only [Function.comp]
  have hd : ∀ (L : List Nat), (L.drop n).drop (i * n) = L.drop ((i + 1) * n) := by
    intro L; rw [List.drop_drop, Nat.succ_mul, Nat.add_comm]
  by_cases h : i + 1 = k
  · simp [h, hd]
  · simp [h, hd]

theorem splitLoop_one (idxs : List Nat) (n : Nat) : splitLoop idxs n 1 = [idxs] := by
  simp [splitLoop, List.range_succ_eq_map]

/-- **cover**: the slices of the split loop contain every link of the stream exactly once, in order -/
theorem splitLoop_pairs (n : Nat) : ∀ (k : Nat) (idxs : List Nat), 0 < k →
    (splitLoop idxs n k).flatMap pairsOf = pairsOf idxs := by
  intro k
  induction k with
  | zero => intro _ h; omega
  | succ k ih =>
    intro idxs _
    by_cases hk : k = 0
    · subst hk; simp [splitLoop_one]
    · rw [splitLoop_succ idxs n k (by omega), List.flatMap_cons, ih (idxs.drop n) (by omega)]
      exact pairs_take_drop n idxs


/-- the split rule in terms of the code's two roundings -/
theorem split_arith_rhe (l m : Nat) (hm : 0 < m) (hlm : 3 * m < 2 * l) :
    let k := roundHalfEven l m
    let n := roundHalfEven l k
    2 ≤ k ∧ 1 ≤ n ∧ (k - 1) * n < l ∧ 2 * n + 1 ≤ 3 * m ∧ 2 * (l - (k - 1) * n) ≤ 3 * m := by
  intro k n
  have hk := rhe_bounds l m hm
  rw [Nat.mul_comm m] at hk
  have hk0 : 0 < k := by
    apply Classical.byContradiction
    intro hc
    have h0 : roundHalfEven l m = 0 := by show k = 0; omega
    rw [h0] at hk
    simp at hk
    omega
  have hn := rhe_bounds l k hk0
  refine split_arith_core l m k n hm hlm hk.1 hk.2 hn.1 hn.2 ?_
  intro h1 h2 h3
  show roundHalfEven l k = 2
  rw [h2, h3]
  exact rhe_5_2

theorem mem_splitLoop {idxs p : List Nat} {n k : Nat} (h : p ∈ splitLoop idxs n k) :
    ∃ i, i < k ∧ p = if i + 1 = k then idxs.drop (i * n) else (idxs.drop (i * n)).take (n + 1) := by
  unfold splitLoop at h
  rw [List.mem_map] at h
  obtain ⟨i, hi, rfl⟩ := h
  exact ⟨i, List.mem_range.mp hi, rfl⟩

/-- **size**: with a maximum length `m > 0` no piece has more than `(3m + 1) / 2` vertices -/
theorem splitPieces_size (idxs : List Nat) (m : Nat) (hm : 0 < m) :
    ∀ p ∈ splitPieces idxs m, 2 * p.length ≤ 3 * m + 1 := by
  intro p hp
  unfold splitPieces at hp
  split at hp
  · rename_i hc
    unfold splitNK at hp
    split at hp
    · rename_i h15
      obtain ⟨hk, hn, hlast, hsz, hlsz⟩ := split_arith_rhe idxs.length m hm h15
      obtain ⟨i, hi, rfl⟩ := mem_splitLoop hp
      simp only at hi ⊢
      split
      · rename_i hik
        rw [List.length_drop]
        have : i = roundHalfEven idxs.length m - 1 := by omega
        rw [this]
        omega
      · have := List.length_take_le (roundHalfEven idxs.length (roundHalfEven idxs.length m) + 1)
          (idxs.drop (i * roundHalfEven idxs.length (roundHalfEven idxs.length m)))
        omega
    · rw [splitLoop_one] at hp
      simp at hp
      subst hp
      omega
  · rename_i hc
    simp at hp
    subst hp
    omega

/-- **cover**: whatever the maximum length, the pieces contain every link of the walked stream
exactly once and in order -/
theorem splitPieces_pairs (idxs : List Nat) (m : Nat) :
    (splitPieces idxs m).flatMap pairsOf = pairsOf idxs := by
  unfold splitPieces
  split
  · rename_i hc
    apply splitLoop_pairs
    unfold splitNK
    split
    · rename_i h15
      have := (split_arith_rhe idxs.length m hc.2 h15).1
      simp only
      omega
    · simp
  · simp

theorem splitLoop_length (idxs : List Nat) (n k : Nat) : (splitLoop idxs n k).length = k := by
  simp [splitLoop]

theorem splitLoop_get (idxs : List Nat) (n k i : Nat) (hi : i < k) :
    (splitLoop idxs n k)[i]? =
      some (if i + 1 = k then idxs.drop (i * n) else (idxs.drop (i * n)).take (n + 1)) := by
  simp [splitLoop, hi]

/-- **chain**: piece `i + 1` starts at the vertex where piece `i` ends (vertex `(i+1)·n` of the stream) -/
theorem splitLoop_chain (idxs : List Nat) (n k : Nat) (hlast : (k - 1) * n < idxs.length)
    (i : Nat) (hi : i + 1 < k) :
    ∃ p q v, (splitLoop idxs n k)[i]? = some p ∧ (splitLoop idxs n k)[i + 1]? = some q ∧
      idxs[(i + 1) * n]? = some v ∧ p.getLast? = some v ∧ q.head? = some v := by
  have hle : (i + 1) * n ≤ (k - 1) * n := Nat.mul_le_mul_right n (by omega)
  have hlt : (i + 1) * n < idxs.length := by omega
  have hin : i * n + n = (i + 1) * n := by rw [Nat.succ_mul]
  refine ⟨_, _, idxs[(i + 1) * n], splitLoop_get idxs n k i (by omega),
    splitLoop_get idxs n k (i + 1) hi, by simp [hlt], ?_, ?_⟩
  · have h1 : ¬ (i + 1 = k) := by omega
    simp only [h1, if_false]
    rw [List.getLast?_eq_getElem?, List.length_take, List.length_drop]
    have : min (n + 1) (idxs.length - i * n) - 1 = n := by omega
    rw [this, List.getElem?_take, if_pos (by omega), List.getElem?_drop, hin]
    simp [hlt]
  · split
    · rw [List.head?_drop]; simp [hlt]
    · rw [List.head?_take, if_neg (by omega), List.head?_drop]; simp [hlt]

end Pf.C19
