import PfVerif.Proofs.C09_ihuSync
/-! `upscale_check` puts `streams` in step with a duplicate-free outlet array; hence the outlet pixels `ihu` returns are
pairwise distinct for EVERY `pit_out_of_cell` (C09 extension, fourth stage). Core Lean only. -/
namespace Pf.C09ihu
open Pf

/-! ### `upscale_check` -/

theorem streamsInit_sync (ds out : Array Nat) (hd : DistinctD ds out) :
    (streamsInit ds.size out).size = ds.size ∧ SyncD ds (streamsInit ds.size out) out := by
  unfold streamsInit
  have key : ∀ k, k ≤ out.size →
      ((List.range k).foldl (fun (s : Array Int) (idx : Nat) =>
        if out[idx]! = ds.size then s else s.setIfInBounds out[idx]! (Int.ofNat idx)) (Array.replicate ds.size (-9))).size
        = ds.size ∧
      ∀ c, c < k → out[c]! < ds.size →
        ((List.range k).foldl (fun (s : Array Int) (idx : Nat) =>
          if out[idx]! = ds.size then s else s.setIfInBounds out[idx]! (Int.ofNat idx))
          (Array.replicate ds.size (-9)))[out[c]!]! = Int.ofNat c := by
    intro k
    induction k with
    | zero => intro _; exact ⟨by simp, fun c hc => by omega⟩
    | succ k ih =>
      intro hk
      obtain ⟨ih1, ih2⟩ := ih (by omega)
      rw [List.range_succ, List.foldl_append]
      simp only [List.foldl_cons, List.foldl_nil]
      split
      · rename_i hmiss
        refine ⟨ih1, fun c hc hlt => ?_⟩
        by_cases hck : c = k
        · subst hck; omega
        · exact ih2 c (by omega) hlt
      · refine ⟨by rw [Array.size_setIfInBounds]; exact ih1, fun c hc hlt => ?_⟩
        rw [geti_set]
        by_cases hck : c = k
        · subst hck
          rw [if_pos ⟨rfl, by rw [ih1]; exact hlt⟩]
        · have hne : out[k]! ≠ out[c]! := by
            intro heq
            exact hck (hd c k (by omega) (by omega) hlt heq.symm)
          rw [if_neg (fun hh => hne hh.1)]
          exact ih2 c (by omega) hlt
  have := key out.size (Nat.le_refl _)
  exact ⟨this.1, fun c hc hlt => this.2 c hc hlt⟩

theorem checkWalk_keep (ds : Array Nat) :
    ∀ fuel p d streams r, checkWalk ds fuel p d streams = some r →
      r.2.2.size = streams.size ∧ ∀ x : Nat, 0 ≤ streams[x]! → r.2.2[x]! = streams[x]! := by
  intro fuel
  induction fuel with
  | zero => intro p d streams r h; simp [checkWalk] at h
  | succ f ih =>
    intro p d streams r h
    simp only [checkWalk] at h
    split at h
    · cases h; exact ⟨rfl, fun _ _ => rfl⟩
    · obtain ⟨h1, h2⟩ := ih _ _ _ _ h
      have hx : ∀ x : Nat, 0 ≤ streams[x]! → (streams.setIfInBounds p (max streams[p]! (-1)))[x]! = streams[x]! := by
        intro x hx
        rw [geti_set]
        split
        · rename_i hh; rw [hh.1]; omega
        · rfl
      refine ⟨by rw [h1]; simp, fun x hx0 => ?_⟩
      rw [h2 x (by rw [hx x hx0]; exact hx0), hx x hx0]

/-- after `upscale_check` on a duplicate-free outlet array `streams` is in step with it -/
theorem upscaleCheck_sync (ds out cds : Array Nat) (minNum minDen : Nat)
    (r : Array Bool × Array Int × List Nat × List Nat) (h : upscaleCheck ds out cds minNum minDen = some r)
    (hd : DistinctD ds out) :
    r.1.size = cds.size ∧ r.2.1.size = ds.size ∧ SyncD ds r.2.1 out ∧ ∀ c ∈ r.2.2.1, c < cds.size := by
  unfold upscaleCheck at h
  have h0 := streamsInit_sync ds out hd
  refine foldlM_inv _ (fun (st : Array Bool × Array Int × List Nat × List Nat) =>
    st.1.size = cds.size ∧ st.2.1.size = ds.size ∧ SyncD ds st.2.1 out ∧ ∀ c ∈ st.2.2.1, c < cds.size) _ ?_ _ _ ?_ h
  · intro b idx0 b' hidx hb hstep
    obtain ⟨valid, streams, fix, short⟩ := b
    simp only at hb hstep
    have hlt := List.mem_range.mp hidx
    split at hstep
    · cases hstep; exact hb
    · split at hstep
      · cases hstep
      · rename_i q d s' hcw
        have hk := checkWalk_keep ds _ _ _ _ _ hcw
        simp only at hk
        have hsync : SyncD ds s' out := by
          intro c hc hl
          rw [hk.2 _ (by rw [hb.2.2.1 c hc hl]; exact Int.natCast_nonneg c)]
          exact hb.2.2.1 c hc hl
        split at hstep
        · cases hstep
          refine ⟨by simp [hb.1], by rw [hk.1]; exact hb.2.1, hsync, ?_⟩
          intro c hc
          rcases List.mem_append.mp hc with hc | hc
          · exact hb.2.2.2 c hc
          · simp only [List.mem_singleton] at hc; rw [hc]; exact hlt
        · split at hstep <;> (cases hstep; exact ⟨hb.1, by rw [hk.1]; exact hb.2.1, hsync, hb.2.2.2⟩)
  · exact ⟨by simp, h0.1, h0.2, fun c hc => by cases hc⟩

/-! ### the `niter` loop -/

/-- an outlet array whose pixels lie in their own cells has no duplicates -/
theorem own_distinct (e : Env) (out : Array Nat)
    (h : OutOK (fun c p => p = e.ds.size ∨ (p < e.ds.size ∧ e.cell p = c)) out) : DistinctD e.ds out := by
  intro c c' hc hc' hlt heq
  rcases h c hc with h1 | h1
  · omega
  · rcases h c' hc' with h2 | h2
    · rw [← heq] at h2; omega
    · rw [← h1.2, ← h2.2, heq]

theorem cell_lt_imp' (e : Env) (p n : Nat) (hn : n ≤ e.ncell) (h : e.cell p < n) : p < e.ds.size := by
  unfold Env.cell at h
  split at h
  · assumption
  · omega

/-- **the outlet pixels at the end of the `niter` loop are pairwise distinct**, whatever `pit_out_of_cell` is: before the
last call of `ihu_minimize_error` every outlet pixel lies in its own cell, and that call keeps `streams` in step -/
theorem ihuLoop_distinct (e : Env) (par : Par) (o : IhuOpt) (n : Nat) (hn : e.nrow * e.ncol = n) :
    ∀ k fix cds out sorts r, ihuLoop e par o k fix cds out sorts = some r → cds.size = n → out.size = n →
      OutOK (fun c p => p = e.ds.size ∨ (p < e.ds.size ∧ e.cell p = c)) out → DistinctD e.ds r.2.1 := by
  have hle : n ≤ e.ncell := by rw [← hn]; exact Nat.le_refl _
  have hR : ∀ p, Exit e p → e.cell p < n → (fun c p => p = e.ds.size ∨ (p < e.ds.size ∧ e.cell p = c)) (e.cell p) p :=
    fun p _ hlt => Or.inr ⟨cell_lt_imp' e p n hle hlt, rfl⟩
  intro k
  induction k with
  | zero =>
    intro fix cds out sorts r h _ _ ho
    simp only [ihuLoop] at h
    cases h
    exact own_distinct e out ho
  | succ k ih =>
    intro fix cds out sorts r h hcs hos ho
    simp only [ihuLoop] at h
    split at h
    · cases h
    · rename_i rr hrel
      have hr := relocateOutlets_inv e _ fix cds out sorts rr (fun p hp hlt => hR p hp (hos ▸ hlt)) hrel ho
      have hrc : rr.cds.size = n := by rw [relocateOutlets_size e fix cds out sorts rr hrel, hcs]
      have hro : rr.out.size = n := by rw [hr.1, hos]
      split at h
      · cases h
      · rename_i valid streams fix1 short hchk
        obtain ⟨hv1, hv2, hv3, hv4⟩ := upscaleCheck_sync e.ds rr.out rr.cds par.minNum par.minDen _ hchk
          (own_distinct e rr.out hr.2)
        simp only at hv1 hv2 hv3 hv4
        split at h
        · cases h
        · rename_i st1 hst1
          have h1 : TriSync e n st1 ∧ TriInv (fun c p => p = e.ds.size ∨ (p < e.ds.size ∧ e.cell p = c)) n n st1 := by
            split at hst1
            · exact ⟨optimizeRivlen_sync e par n short valid (by rw [hv1, hrc]; exact Nat.le_refl _) _ st1 hst1
                ⟨hv2, hro, hv3⟩,
                optimizeRivlen_inv e par _ n n short valid _ st1 hR hle hst1 ⟨hrc, hro, hr.2⟩⟩
            · cases hst1; exact ⟨⟨hv2, hro, hv3⟩, ⟨hrc, hro, hr.2⟩⟩
          split at h
          · cases h
          · rename_i s2 c2 o2 sorts2 hst2
            have hfix1 : ∀ c ∈ fix1, c < n := fun c hc => by rw [← hrc]; exact hv4 c hc
            have h2 : TriSync e n (s2, c2, o2) := by
              split at hst2
              · exact minimizeError_sync e par n _ fix1 st1 _ rr.sorts sorts2 hn hfix1 hst2 h1.1
              · cases hst2; exact h1.1
            split at h
            · cases h
              exact SyncD.distinct h2.2.2
            · rename_i hlast
              have h3 : TriInv (fun c p => p = e.ds.size ∨ (p < e.ds.size ∧ e.cell p = c)) n n (s2, c2, o2) := by
                split at hst2
                · exact minimizeError_inv e par _ n n 0 fix1 st1 _ rr.sorts sorts2 hR hle
                    (fun hp => absurd hp (Nat.lt_irrefl 0)) hst2 h1.2
                · cases hst2; exact h1.2
              exact ih _ _ _ _ _ h h3.1 h3.2.1 h3.2.2

end Pf.C09ihu
