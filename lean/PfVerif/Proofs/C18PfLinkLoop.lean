import PfVerif.Proofs.C18PfLinkInner
import PfVerif.Proofs.C18PfLoop
/-! Pfafstetter link rule (stage 4): the worklist loop and the pit loop keep the link invariant `PfH` and
the queue discipline `PfQ`; result for `pfBranch` and for the reduced, filled map. Core Lean only. -/
namespace Pf.C18
open Pf

variable {ds usMain : Array Nat} {seq : List Nat} {uparea so : Array Int}

theorem pfLoop_link (c : PfCtx ds usMain seq uparea) (trib : List Nat) (depth : Nat)
    (htrib : ∀ t ∈ trib, t ∈ seq ∧ ds[t]! ≠ t ∧ usMain[ds[t]!]! ≠ t) (hnd : trib.Nodup) :
    ∀ (f : Nat) (st r : PfSt × Bool × Bool),
      pfLoop ds usMain so uparea trib depth f st = some r →
      PfG ds usMain so st.1.1 st.1.2.1 → PfFresh depth st.1.1 st.1.2.2 → LabsPos st.1.2.2 →
      PfH ds depth st.1.1 st.1.2.1 st.1.2.2 → PfQ depth st.1.2.2 →
      PfG ds usMain so r.1.1 r.1.2.1 ∧ r.2.2 = st.2.2 ∧ PfH ds depth r.1.1 r.1.2.1 r.1.2.2 := by
  intro f
  induction f with
  | zero =>
    intro st r h g _ _ hh _
    obtain ⟨⟨br, idxs, labs⟩, tie, ok⟩ := st
    cases labs with
    | nil => simp only [pfLoop, Option.some.injEq] at h; subst h; exact ⟨g, rfl, hh⟩
    | cons a labs => simp [pfLoop] at h
  | succ f ih =>
    intro st r h g fr hl hh hq
    obtain ⟨⟨br, idxs, labs⟩, tie, ok⟩ := st
    cases labs with
    | nil => simp only [pfLoop, Option.some.injEq] at h; subst h; exact ⟨g, rfl, hh⟩
    | cons a labs =>
      obtain ⟨pfaf0, d0⟩ := a
      have hp0 : 0 < pfaf0 := hl (pfaf0, d0) (by simp)
      have hl' : LabsPos labs := fun p hp => hl p (by simp [hp])
      simp only at hh hq
      simp only [pfLoop] at h
      split at h
      · exact ih ((br, idxs, labs), tie, ok) r h g fr.tail hl' hh.tail hq.tail
      · split at h
        · cases h
        · rename_i st' x ok' hin
          obtain ⟨s2, hs2⟩ : ∃ s2, s2 = sortDesc (fun i => uparea[ds[i]!]!)
              (List.take 4 (sortDesc (fun i => uparea[i]!)
                (List.filter (fun idx => br[idx]! == 0 && br[ds[idx]!]! == pfaf0) trib))) := ⟨_, rfl⟩
          rw [← hs2] at hin
          have hmem : ∀ y ∈ s2, y ∈ trib ∧ br[y]! = 0 ∧ br[ds[y]!]! = pfaf0 := by
            intro y hy
            rw [hs2] at hy
            have h1 := mem_sortDesc _ _ _ hy
            have h2 := mem_sortDesc _ _ _ (List.mem_of_mem_take h1)
            have h3 := List.mem_filter.1 h2
            simpa using h3
          have hlen : 0 + s2.length ≤ 4 := by
            rw [hs2, sortDesc_length, List.length_take]; omega
          have hrem : PfRem ds usMain seq uparea br idxs pfaf0 s2 := by
            refine ⟨fun t ht => ?_, fun t ht => Or.inl (hmem t ht).2.2, ?_, ?_⟩
            · obtain ⟨h1, h2, h3⟩ := hmem t ht
              obtain ⟨a1, a2, a3⟩ := htrib t h1
              exact ⟨a1, a2, h2, a3, by rw [h3]; omega⟩
            · rw [hs2]; exact sortDesc_sorted _ _
            · rw [hs2]
              apply sortDesc_nodup
              apply List.Nodup.sublist (List.take_sublist _ _)
              apply sortDesc_nodup
              exact hnd.sublist List.filter_sublist
          have hfr := fr.pop
          have hlo : pfaf0 + (10 : Int) ^ (depth - d0) =
              pfaf0 + (2 * ((0 : Nat) : Int) + 1) * (10 : Int) ^ (depth - d0) := by simp
          rw [hlo] at hfr
          obtain ⟨hlev1, hlev2, hbase⟩ := hq.lev (pfaf0, d0) (by simp)
          simp only at hlev1 hlev2 hbase
          have hqs := List.pairwise_cons.1 hq.sorted
          have hfb := List.pairwise_cons.1 fr.fb
          have hlk : PfLinkIn ds uparea depth br idxs labs pfaf0 d0 ((10 : Int) ^ (depth - d0))
              (pfaf0 + (2 * ((0 : Nat) : Int) + 1) * (10 : Int) ^ (depth - d0))
              (pfaf0 + 10 * (10 : Int) ^ (depth - d0)) 0 pfaf0 s2 := by
            refine ⟨?_, ⟨fun en hen => ?_, hqs.2, fun en hen => ?_⟩, ⟨0, by omega, by omega, by simp⟩,
              fun t ht => ⟨0, by omega, by omega, by rw [(hmem t ht).2.2]; simp⟩⟩
            · have := hh.pop (uparea := uparea) s2
                (pfaf0 + (2 * ((0 : Nat) : Int) + 1) * (10 : Int) ^ (depth - d0))
              rw [Bsz_pop] at this
              exact this
            · have h1 := hqs.1 en hen
              have h2 := hq.span (pfaf0, d0) (by simp) en (List.mem_cons_of_mem _ hen)
              obtain ⟨_, h4, h5⟩ := hq.lev en (List.mem_cons_of_mem _ hen)
              exact ⟨h1, h2, h4, h5⟩
            · have := hfb.1 en hen
              simp only [Bsz_pop depth d0] at this
              rcases this with h1 | h1
              · exact Or.inr (Or.inl h1)
              · exact Or.inl h1
          obtain ⟨g', fr', hl'', hok, hh', hq', _, _, _⟩ := pfInner_link (so := so) c depth pfaf0 d0 hp0 hlev1 hlev2
            hbase False so (fun w => w.elim) br s2 0 ((br, idxs, labs), pfaf0, ok) _ hlen hin g hfr hrem
            (Int.ne_of_gt hp0) hl' hlk (fun w => w.elim) (PfEvo.refl _ _ _ _)
          simp only at hok
          have := ih (st', _, ok') r h g' fr' hl'' hh' hq'
          exact ⟨this.1, by rw [this.2.1]; exact hok, this.2.2⟩

/-! ### the pit loop -/

theorem pfBase_R1 : ∀ d, 1 ≤ d → pfBase d = R1 d := by
  intro d
  induction d with
  | zero => intro h; omega
  | succ d ih =>
    intro _
    cases d with
    | zero => decide
    | succ d =>
      rw [pfBase_succ, ih (by omega)]
      simp only [R1]
      have : d + 1 ≠ 0 := by omega
      simp only [this, if_false]
      omega

theorem pfPits_q (usMain : Array Nat) (n : Nat) (so : Array Int) (depth : Nat) (hd : 1 ≤ depth)
    (ds : Array Nat) :
    ∀ (l : List Nat) (i : Nat) (st r : PfSt), (∀ q ∈ l, ds[q]! = q) →
      pfPits usMain n so depth l i st = some r →
      (∀ o ∈ st.2.1, ds[o]! = o) → PfQ depth st.2.2 → (∀ en ∈ st.2.2, en.2 = 1) →
      (∀ o ∈ r.2.1, ds[o]! = o) ∧ PfQ depth r.2.2 := by
  intro l
  induction l with
  | nil =>
    intro i st r _ hr h1 h2 _
    simp only [pfPits, Option.some.injEq] at hr; subst hr; exact ⟨h1, h2⟩
  | cons x rest ih =>
    intro i st r hpit hr h1 h2 h3
    obtain ⟨br, idxs, labs⟩ := st
    simp only at h1 h2 h3
    simp only [pfPits] at hr
    split at hr
    · cases hr
    · rename_i br1 hs
      refine ih (i + 1) _ r (fun q hq => hpit q (List.mem_cons_of_mem _ hq)) hr ?_ ?_ ?_
      · intro o ho
        rcases List.mem_append.1 ho with ho | ho
        · exact h1 o ho
        · simp only [List.mem_singleton] at ho; subst ho; exact hpit o (by simp)
      · refine ⟨?_, fun a ha b hb => ?_, fun en hen => ?_⟩
        · rw [List.pairwise_append]
          refine ⟨h2.sorted, by simp, fun a ha b hb => ?_⟩
          simp only [List.mem_singleton] at hb; subst hb
          simp only; rw [h3 a ha]; omega
        · have ha1 : a.2 = 1 := by
            rcases List.mem_append.1 ha with ha | ha
            · exact h3 a ha
            · simp only [List.mem_singleton] at ha; subst ha; rfl
          have hb1 : b.2 = 1 := by
            rcases List.mem_append.1 hb with hb | hb
            · exact h3 b hb
            · simp only [List.mem_singleton] at hb; subst hb; rfl
          omega
        · rcases List.mem_append.1 hen with hen | hen
          · exact h2.lev en hen
          · simp only [List.mem_singleton] at hen; subst hen
            refine ⟨Nat.le_refl _, hd, ?_⟩
            simp only
            have : depth - 1 + 1 = depth := by omega
            rw [this, pfBase_R1 depth hd, Int.add_mul_emod_self_right]
            have hb := R1_bound depth
            exact Int.emod_eq_of_lt hb.1 hb.2
      · intro en hen
        rcases List.mem_append.1 hen with hen | hen
        · exact h3 en hen
        · simp only [List.mem_singleton] at hen; subst hen; rfl

/-! ### the seeding as a whole -/

theorem pfBranch_link (pits : List Nat) (ds : Array Nat) (seq : List Nat) (usMain : Array Nat)
    (uparea : Array Int) (mask : Option (Array Bool)) (depth : Nat) (hd : 1 ≤ depth)
    (c : PfCtx ds usMain seq uparea) (hpn : pits.Nodup) (hpits : ∀ q ∈ pits, q ∈ seq ∧ ds[q]! = q)
    (br : Array Int) (idxs : List Nat) (tie ok : Bool)
    (h : pfBranch pits ds seq usMain uparea mask depth = some (br, idxs, tie, ok)) :
    ok = true ∧ PfG ds usMain (pfStrord ds seq usMain mask depth) br idxs ∧ PfH ds depth br idxs [] := by
  unfold pfBranch at h
  simp only at h
  split at h
  · cases h
  · rename_i st0 hp
    split at h
    · cases h
    · rename_i br' idxs' labs' tie' ok' heq
      simp only [Option.some.injEq, Prod.mk.injEq] at h
      obtain ⟨h1, h2, _, h4⟩ := h
      subst h1 h2 h4
      have hbp := pfBase_pos depth
      have hPP := pow10_pos depth
      obtain ⟨g0, fr0, hl0, _⟩ := pfPits_joint (so := pfStrord ds seq usMain mask depth) c depth hd False
        (pfStrord ds seq usMain mask depth) (fun w => w.elim) pits 0
        (Array.replicate ds.size 0, [], []) st0 hpn hpits (fun w => w.elim) hp (PfG.init ds usMain _)
        (PfFresh.init depth ds.size) (fun _ he => by cases he) (fun _ he => by cases he)
        (fun s => by
          show (Array.replicate ds.size (0 : Int))[s]! < _
          rw [replicate_get! _ 0 rfl s]
          simp only [Int.cast_ofNat_Int, Int.zero_add, Int.one_mul]
          omega)
        (fun q _ => replicate_get! _ 0 rfl q) (fun w => w.elim)
      obtain ⟨hpo, hq0⟩ := pfPits_q usMain ds.size (pfStrord ds seq usMain mask depth) depth hd ds pits 0
        (Array.replicate ds.size 0, [], []) st0 (fun q hq => (hpits q hq).2) hp
        (fun _ he => by cases he)
        (show PfQ depth [] from ⟨List.Pairwise.nil, fun _ he _ _ => absurd he List.not_mem_nil,
          fun _ he => absurd he List.not_mem_nil⟩) (fun _ he => by cases he)
      have hh0 : PfH ds depth st0.1 st0.2.1 st0.2.2 := fun o ho hnp => absurd (hpo o ho) hnp
      have htrib := tributaries_nonmain ds seq usMain mask depth c.topo c.hb
      have hnd : (tributaries ds seq (pfStrord ds seq usMain mask depth)).Nodup := by
        unfold tributaries
        exact c.topo.nodup.sublist List.filter_sublist
      obtain ⟨g, hok, hh⟩ := pfLoop_link c _ depth htrib hnd _ _ _ heq g0 fr0 hl0 hh0 hq0
      simp only at hok
      refine ⟨?_, g, ?_⟩
      · rw [hok]
        simp only [List.all_eq_true, decide_eq_true_eq]
        exact fun q hq => c.hb q (hpits q hq).1
      · -- the loop ends with an empty worklist
        intro o ho hnp
        obtain ⟨e, h1, h2, _⟩ := hh o ho hnp
        exact ⟨e, h1, h2, fun _ he => by cases he⟩

/-- a seeded cell keeps its seed (reduced) in the filled map -/
theorem pfaf_lab_seed (ds : Array Nat) (seq : List Nat) (br : Array Int) (depth : Nat)
    (htopo : Topo ds seq) (hb : ∀ i ∈ seq, i < ds.size) (hsz : br.size = ds.size) (o : Nat)
    (ho : o ∈ seq) (hne : br[o]! ≠ 0) :
    (amap (fun v => v % (10 : Int) ^ depth) (fillnodataUpstream ds seq br 0))[o]! =
      br[o]! % (10 : Int) ^ depth := by
  have hb' : ∀ i ∈ seq, i < br.size := fun i hi => by rw [hsz]; exact hb i hi
  have hfsz : (fillnodataUpstream ds seq br 0).size = ds.size := by simp [fillnodataUpstream, hsz]
  rw [amap_get! _ o (by rw [hfsz]; exact hb o ho)]
  congr 1
  exact (fill_first_valid ds br 0 seq htopo hb' o ho).unique (FirstValid.here o hne)

end Pf.C18
