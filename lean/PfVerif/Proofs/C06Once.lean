import PfVerif.Proofs.C06OnceGeo
/-! `max_depth >= 0`: **a cell has at most one too-deep event per run** (`too_deep_once`), hence the
depth-limited loop terminates unconditionally within `fuelD = 12 n + 1` pops. Core Lean only.

A cell is *touched* once it is queued (`queued` is set by every visit and by the seeds and is never
cleared across a visit). The invariant (`OnceBase`, and `OnceMid` inside the neighbour loop of a pop)
says, besides sortedness of the heap and the level bounds of heap entries:

* `popped`: a touched cell either has all valid cells of its window touched, or still has a heap
  entry, or is the cell being popped and its untouched window cells are still to be visited;
* `cover`: a touched cell that is not done (a re-opened cell) lies in the window of a heap entry whose
  level is not too deep for it, or is still to be visited by the current pop;
* `now`: a re-opened cell still to be visited by the current pop is not too deep for its level.

`now` makes every too-deep event hit an untouched cell; the event touches it. -/
namespace Pf.C06
open Pf

variable {G : Grid} {conn : Nat} {elev : Array Int} {nod : Array Bool} {md : Int}

theorem unq_mono {n : Nat} {a b : Array Bool} (h : ∀ c, c < n → a[c]! = true → b[c]! = true) :
    unq n b ≤ unq n a := by
  unfold unq
  apply List.countP_mono_left
  intro c hc hb
  have hc' : c < n := List.mem_range.1 hc
  cases ha : a[c]! with
  | false => rfl
  | true => rw [h c hc' ha] at hb; exact hb

theorem unq_le (n : Nat) (a : Array Bool) : unq n a ≤ n := by
  unfold unq
  have := List.countP_le_length (p := fun c => !a[c]!) (l := List.range n)
  simpa using this

structure OnceBase (G : Grid) (conn : Nat) (elev : Array Int) (nod : Array Bool) (md : Int)
    (i0 : Nat) (os : List (Int × Int)) (s : StD) : Prop where
  sorted : HSorted s.q
  nodDone : ∀ c, c < G.n → nod[c]! = true → s.done[c]! = true
  doneT : ∀ c, c < G.n → s.done[c]! = true → nod[c]! = false → s.queued[c]! = true
  entry : ∀ e, e ∈ s.q → e.idx < G.n ∧ elev[e.idx]! ≤ e.z ∧ tooDeep md (e.z - elev[e.idx]!) = false
  popped : ∀ w, w < G.n → s.queued[w]! = true →
    (∀ x, Win G conn w x → nod[x]! = false → s.queued[x]! = true) ∨ (∃ e, e ∈ s.q ∧ e.idx = w) ∨
    (w = i0 ∧ ∀ x, Win G conn w x → nod[x]! = false → s.queued[x]! = false → AtO G i0 os x)
  cover : ∀ c, c < G.n → s.queued[c]! = true → s.done[c]! = false →
    (∃ e, e ∈ s.q ∧ Win G conn e.idx c ∧ tooDeep md (e.z - elev[c]!) = false) ∨ AtO G i0 os c
  esz : s.evc.size = G.n
  evc0 : ∀ c, c < G.n → s.queued[c]! = false → s.evc[c]! = 0
  evc1 : ∀ c, c < G.n → s.evc[c]! ≤ 1
  evn : s.ev + unq G.n s.queued ≤ G.n

structure OnceMid (G : Grid) (conn : Nat) (elev : Array Int) (nod : Array Bool) (md : Int)
    (z0 : Int) (i0 : Nat) (os : List (Int × Int)) (s : StD) : Prop where
  base : OnceBase G conn elev nod md i0 os s
  lvl : ∀ e, e ∈ s.q → z0 ≤ e.z ∨ (s.done[e.idx]! = false ∧ ¬ AtO G i0 os e.idx)
  now : ∀ c, c < G.n → s.queued[c]! = true → s.done[c]! = false → AtO G i0 os c →
    tooDeep md (z0 - elev[c]!) = false
  pop : i0 < G.n ∧ elev[i0]! ≤ z0 ∧ tooDeep md (z0 - elev[i0]!) = false

/-! ### a visit that changes nothing -/

theorem onceMid_skip {z0 : Int} {i0 : Nat} {o : Int × Int} {os : List (Int × Int)} {s : StD}
    (I : OnceMid G conn elev nod md z0 i0 (o :: os) s)
    (h : shift G i0 o.1 o.2 = none ∨ ∃ j, shift G i0 o.1 o.2 = some j ∧ s.done[j]! = true) :
    OnceMid G conn elev nod md z0 i0 os s := by
  have drop1 : ∀ c : Nat, s.done[c]! = false → AtO G i0 (o :: os) c → AtO G i0 os c := by
    intro c hd hat
    apply atO_of_cons hat
    rcases h with h | ⟨j, hj, hdj⟩
    · rw [h]; simp
    · rw [hj]; intro he; injection he with he; subst he; rw [hdj] at hd; cases hd
  have drop2 : ∀ c : Nat, c < G.n → nod[c]! = false → s.queued[c]! = false → AtO G i0 (o :: os) c →
      AtO G i0 os c := by
    intro c hc hn hq hat
    apply drop1 c _ hat
    cases hd : s.done[c]! with
    | false => rfl
    | true => have := I.base.doneT c hc hd hn; rw [hq] at this; cases this
  have B := I.base
  exact
    { base :=
        { sorted := B.sorted, nodDone := B.nodDone, doneT := B.doneT, entry := B.entry
          esz := B.esz, evc0 := B.evc0, evc1 := B.evc1, evn := B.evn
          popped := fun w hw hq => by
            rcases B.popped w hw hq with h1 | h2 | ⟨h3, h4⟩
            · exact Or.inl h1
            · exact Or.inr (Or.inl h2)
            · exact Or.inr (Or.inr ⟨h3, fun x hx hn hqx => drop2 x (win_lt hx) hn hqx (h4 x hx hn hqx)⟩)
          cover := fun c hc hq hd => by
            rcases B.cover c hc hq hd with h1 | h2
            · exact Or.inl h1
            · exact Or.inr (drop1 c hd h2) }
      lvl := fun e he => by
        rcases I.lvl e he with h1 | ⟨h2, h3⟩
        · exact Or.inl h1
        · exact Or.inr ⟨h2, fun hat => h3 (atO_tail hat)⟩
      now := fun c hc hq hd hat => I.now c hc hq hd (atO_tail hat)
      pop := I.pop }

/-! ### the too-deep branch -/

theorem onceMid_deep {z0 : Int} {i0 : Nat} {o : Int × Int} {os : List (Int × Int)} {s : StD} {j : Nat}
    (hs : SizedD G s) (hnd : o ∉ os) (I : OnceMid G conn elev nod md z0 i0 (o :: os) s)
    (hsh : shift G i0 o.1 o.2 = some j) (hd : s.done[j]! = false)
    (ht : tooDeep md (z0 - elev[j]!) = true) :
    s.queued[j]! = false ∧ OnceMid G conn elev nod md z0 i0 os (deepStep G conn elev nod s j) := by
  have B := I.base
  have hj : j < G.n := (shift_spec.1 hsh).1
  have hhead : AtO G i0 (o :: os) j := ⟨o, List.mem_cons_self, hsh⟩
  have hnat : ¬ AtO G i0 os j := not_atO_head hnd hsh
  have hnj : nod[j]! = false := by
    cases hn : nod[j]! with
    | false => rfl
    | true => have := B.nodDone j hj hn; rw [hd] at this; cases this
  have hTj : s.queued[j]! = false := by
    cases hq : s.queued[j]! with
    | false => rfl
    | true => have := I.now j hj hq hd hhead; rw [ht] at this; cases this
  refine ⟨hTj, ?_⟩
  obtain ⟨fq, fqu, fdn, fev, fevc, fsort, fsz, fset⟩ := deep_facts (conn := conn) (elev := elev) (nod := nod) s j hs hj
  generalize deepStep G conn elev nod s j = s' at *
  have qmono : ∀ x : Nat, s.queued[x]! = true → s'.queued[x]! = true := by
    intro x hx; rw [fqu]; split
    · rfl
    · exact hx
  have qold : ∀ x : Nat, x ≠ j → s'.queued[x]! = s.queued[x]! := by
    intro x hx; rw [fqu, if_neg hx]
  have qj : s'.queued[j]! = true := by rw [fqu, if_pos rfl]
  have newE : (⟨elev[j]!, 0, j⟩ : HE) ∈ s'.q := (fq _).2 (Or.inl rfl)
  have oldE : ∀ e, e ∈ s.q → e ∈ s'.q := fun e he => (fq e).2 (Or.inr he)
  have dropj : ∀ x : Nat, x ≠ j → AtO G i0 (o :: os) x → AtO G i0 os x := by
    intro x hx hat
    apply atO_of_cons hat
    rw [hsh]; intro he; injection he with he; exact hx he.symm
  -- a cell that was done and touched and is re-opened by this event
  have reop : ∀ c : Nat, c < G.n → c ≠ j → s.queued[c]! = true → s.done[c]! = true → s'.done[c]! = false →
      Win G conn j c ∧ ((∃ e, e ∈ s.q ∧ e.idx = c) ∨ c = i0) := by
    intro c hc hcj hqc hdc hdc'
    rcases (fdn c).1 hdc' with h | ⟨hwin, _⟩
    · rw [hdc] at h; cases h
    · refine ⟨hwin, ?_⟩
      rcases B.popped c hc hqc with h1 | h2 | ⟨h3, _⟩
      · have := h1 j (win_symm hj hwin) hnj
        rw [hTj] at this; cases this
      · exact Or.inl h2
      · exact Or.inr h3
  refine
    { base :=
        { sorted := fsort B.sorted
          nodDone := fun c hc hn => by
            cases hx : s'.done[c]! with
            | true => rfl
            | false =>
              rcases (fdn c).1 hx with h | ⟨_, h⟩
              · have := B.nodDone c hc hn; rw [h] at this; cases this
              · rw [hn] at h; cases h
          doneT := fun c hc hdc hn => by
            apply qmono
            apply B.doneT c hc _ hn
            cases hx : s.done[c]! with
            | true => rfl
            | false => have := (fdn c).2 (Or.inl hx); rw [hdc] at this; cases this
          entry := fun e he => by
            rcases (fq e).1 he with rfl | he
            · refine ⟨hj, Int.le_refl _, ?_⟩
              show tooDeep md (elev[j]! - elev[j]!) = false
              rw [Int.sub_self]; exact tooDeep_zero md
            · exact B.entry e he
          popped := fun w hw hq => by
            by_cases hwj : w = j
            · exact Or.inr (Or.inl ⟨_, newE, hwj.symm⟩)
            · rw [qold w hwj] at hq
              rcases B.popped w hw hq with h1 | ⟨e, he, hi⟩ | ⟨h3, h4⟩
              · exact Or.inl fun x hx hn => qmono x (h1 x hx hn)
              · exact Or.inr (Or.inl ⟨e, oldE e he, hi⟩)
              · refine Or.inr (Or.inr ⟨h3, fun x hx hn hqx => ?_⟩)
                have hxj : x ≠ j := fun h => by rw [h, qj] at hqx; cases hqx
                rw [qold x hxj] at hqx
                exact dropj x hxj (h4 x hx hn hqx)
          cover := fun c hc hq hdc' => by
            by_cases hcj : c = j
            · subst hcj
              refine Or.inl ⟨_, newE, win_self hc, ?_⟩
              show tooDeep md (elev[c]! - elev[c]!) = false
              rw [Int.sub_self]; exact tooDeep_zero md
            · rw [qold c hcj] at hq
              cases hdc : s.done[c]! with
              | false =>
                rcases B.cover c hc hq hdc with ⟨e, he, h1, h2⟩ | h
                · exact Or.inl ⟨e, oldE e he, h1, h2⟩
                · exact Or.inr (dropj c hcj h)
              | true =>
                obtain ⟨hwin, hcase⟩ := reop c hc hcj hq hdc hdc'
                rcases hcase with ⟨e, he, hi⟩ | hi0
                · refine Or.inl ⟨e, oldE e he, by rw [hi]; exact win_self hc, ?_⟩
                  have := (B.entry e he).2.2
                  rw [hi] at this; exact this
                · by_cases hat : AtO G i0 os c
                  · exact Or.inr hat
                  · refine Or.inl ⟨_, newE, hwin, ?_⟩
                    show tooDeep md (elev[j]! - elev[c]!) = false
                    cases hx : tooDeep md (elev[j]! - elev[c]!) with
                    | false => rfl
                    | true =>
                      have h2 := tooDeep_add ht hx
                      have e : z0 - elev[j]! + (elev[j]! - elev[c]!) = z0 - elev[c]! := by omega
                      rw [e, hi0, I.pop.2.2] at h2; cases h2
          esz := by rw [fsz]; exact B.esz
          evc0 := fun c hc hq => by
            have hcj : c ≠ j := fun h => by rw [h, qj] at hq; cases hq
            rw [qold c hcj] at hq
            rw [fevc, if_neg (fun h => hcj h.1)]
            exact B.evc0 c hc hq
          evc1 := fun c hc => by
            rw [fevc]
            split
            · rw [B.evc0 j hj hTj]; exact Nat.le_refl _
            · exact B.evc1 c hc
          evn := by
            have := unq_set s.queued j hs.2.1 hj hTj
            rw [fev, fset]
            have := B.evn
            omega }
      lvl := fun e he => by
        rcases (fq e).1 he with rfl | he
        · exact Or.inr ⟨(fdn j).2 (Or.inl hd), hnat⟩
        · rcases I.lvl e he with h1 | ⟨h2, h3⟩
          · exact Or.inl h1
          · exact Or.inr ⟨(fdn _).2 (Or.inl h2), fun hat => h3 (atO_tail hat)⟩
      now := fun c hc hq hdc' hat => by
        have hcj : c ≠ j := fun h => hnat (h ▸ hat)
        rw [qold c hcj] at hq
        cases hdc : s.done[c]! with
        | false => exact I.now c hc hq hdc (atO_tail hat)
        | true =>
          obtain ⟨_, hcase⟩ := reop c hc hcj hq hdc hdc'
          rcases hcase with ⟨e, he, hi⟩ | hi0
          · rcases I.lvl e he with h1 | ⟨h2, _⟩
            · have := (B.entry e he).2.2
              rw [hi] at this
              exact tooDeep_mono (by omega) this
            · rw [hi, hdc] at h2; cases h2
          · rw [hi0]; exact I.pop.2.2
      pop := I.pop }

/-! ### the normal branch (reset + fill) -/

theorem onceMid_fill {z0 : Int} {i0 : Nat} {o : Int × Int} {os : List (Int × Int)} {s : StD} {j : Nat}
    (code : Nat) (hs : SizedD G s) (I : OnceMid G conn elev nod md z0 i0 (o :: os) s)
    (hsh : shift G i0 o.1 o.2 = some j)
    (ht : tooDeep md (z0 - elev[j]!) = false) :
    OnceMid G conn elev nod md z0 i0 os (fillStep elev z0 (resetStep elev s j) j code) := by
  have B := I.base
  have hj : j < G.n := (shift_spec.1 hsh).1
  have hhead : AtO G i0 (o :: os) j := ⟨o, List.mem_cons_self, hsh⟩
  obtain ⟨fq1, fq2, fq3, fqu, fdn, fev, fevc, fsort⟩ := fill_facts (elev := elev) z0 s j code hs hj
  generalize fillStep elev z0 (resetStep elev s j) j code = s' at *
  have qmono : ∀ x : Nat, s.queued[x]! = true → s'.queued[x]! = true := by
    intro x hx; rw [fqu]; split
    · rfl
    · exact hx
  have qold : ∀ x : Nat, x ≠ j → s'.queued[x]! = s.queued[x]! := by
    intro x hx; rw [fqu, if_neg hx]
  have qj : s'.queued[j]! = true := by rw [fqu, if_pos rfl]
  have dj : s'.done[j]! = true := by rw [fdn, if_pos rfl]
  have dold : ∀ x : Nat, x ≠ j → s'.done[x]! = s.done[x]! := by
    intro x hx; rw [fdn, if_neg hx]
  have dropj : ∀ x : Nat, x ≠ j → AtO G i0 (o :: os) x → AtO G i0 os x := by
    intro x hx hat
    apply atO_of_cons hat
    rw [hsh]; intro he; injection he with he; exact hx he.symm
  have hlev1 : elev[j]! ≤ fillLevel elev z0 j := by unfold fillLevel; split <;> omega
  have hlev2 : z0 ≤ fillLevel elev z0 j := by unfold fillLevel; split <;> omega
  have hlev3 : tooDeep md (fillLevel elev z0 j - elev[j]!) = false := by
    unfold fillLevel; split
    · exact ht
    · rw [Int.sub_self]; exact tooDeep_zero md
  have lift : ∀ w : Nat, w < G.n →
      ((∀ x, Win G conn w x → nod[x]! = false → s.queued[x]! = true) ∨ (∃ e, e ∈ s.q ∧ e.idx = w) ∨
        (w = i0 ∧ ∀ x, Win G conn w x → nod[x]! = false → s.queued[x]! = false → AtO G i0 (o :: os) x)) →
      ((∀ x, Win G conn w x → nod[x]! = false → s'.queued[x]! = true) ∨ (∃ e, e ∈ s'.q ∧ e.idx = w) ∨
        (w = i0 ∧ ∀ x, Win G conn w x → nod[x]! = false → s'.queued[x]! = false → AtO G i0 os x)) := by
    intro w hw h
    rcases h with h1 | ⟨e, he, hi⟩ | ⟨h3, h4⟩
    · exact Or.inl fun x hx hn => qmono x (h1 x hx hn)
    · exact Or.inr (Or.inl ⟨e, fq2 e he, hi⟩)
    · refine Or.inr (Or.inr ⟨h3, fun x hx hn hqx => ?_⟩)
      have hxj : x ≠ j := fun h => by rw [h, qj] at hqx; cases hqx
      rw [qold x hxj] at hqx
      exact dropj x hxj (h4 x hx hn hqx)
  exact
    { base :=
        { sorted := fsort B.sorted
          nodDone := fun c hc hn => by
            rw [fdn]; split
            · rfl
            · exact B.nodDone c hc hn
          doneT := fun c hc hdc hn => by
            by_cases hcj : c = j
            · rw [hcj]; exact qj
            · rw [dold c hcj] at hdc
              exact qmono c (B.doneT c hc hdc hn)
          entry := fun e he => by
            rcases fq1 e he with rfl | he
            · exact ⟨hj, hlev1, hlev3⟩
            · exact B.entry e he
          popped := fun w hw hq => by
            by_cases hwj : w = j
            · cases hqj : s.queued[j]! with
              | false => exact Or.inr (Or.inl ⟨_, fq3 hqj, hwj.symm⟩)
              | true => exact lift w hw (B.popped w hw (by rw [hwj]; exact hqj))
            · rw [qold w hwj] at hq
              exact lift w hw (B.popped w hw hq)
          cover := fun c hc hq hdc' => by
            have hcj : c ≠ j := fun h => by rw [h, dj] at hdc'; cases hdc'
            rw [qold c hcj] at hq
            rw [dold c hcj] at hdc'
            rcases B.cover c hc hq hdc' with ⟨e, he, h1, h2⟩ | h
            · exact Or.inl ⟨e, fq2 e he, h1, h2⟩
            · exact Or.inr (dropj c hcj h)
          esz := by rw [fevc]; exact B.esz
          evc0 := fun c hc hq => by
            have hcj : c ≠ j := fun h => by rw [h, qj] at hq; cases hq
            rw [qold c hcj] at hq
            rw [fevc]; exact B.evc0 c hc hq
          evc1 := fun c hc => by rw [fevc]; exact B.evc1 c hc
          evn := by
            have := unq_mono (n := G.n) (fun c _ => qmono c)
            have := B.evn
            rw [fev]; omega }
      lvl := fun e he => by
        rcases fq1 e he with rfl | he
        · exact Or.inl hlev2
        · rcases I.lvl e he with h1 | ⟨h2, h3⟩
          · exact Or.inl h1
          · have hne : e.idx ≠ j := fun h => h3 (h ▸ hhead)
            exact Or.inr ⟨by rw [dold _ hne]; exact h2, fun hat => h3 (atO_tail hat)⟩
      now := fun c hc hq hdc' hat => by
        have hcj : c ≠ j := fun h => by rw [h, dj] at hdc'; cases hdc'
        rw [qold c hcj] at hq
        rw [dold c hcj] at hdc'
        exact I.now c hc hq hdc' (atO_tail hat)
      pop := I.pop }

/-! ### one visit, the neighbour loop, one pop, the whole loop -/

/-- one visit keeps the invariant; a too-deep event only hits an untouched cell -/
theorem onceMid_visit {z0 : Int} {i0 : Nat} {o : Int × Int} {os : List (Int × Int)} {s : StD}
    (hs : SizedD G s) (hnd : o ∉ os) (I : OnceMid G conn elev nod md z0 i0 (o :: os) s) :
    OnceMid G conn elev nod md z0 i0 os (visitD G conn elev nod md z0 i0 s o) := by
  rcases visitD_cases (G := G) (conn := conn) (elev := elev) (nod := nod) (md := md) z0 i0 s o with
    ⟨heq, h⟩ | ⟨j, hsh, hd, ht, heq⟩ | ⟨j, hsh, hd, ht, heq⟩
  · rw [heq]; exact onceMid_skip I h
  · rw [heq]; exact (onceMid_deep hs hnd I hsh hd ht).2
  · rw [heq]; exact onceMid_fill _ hs I hsh ht

theorem onceMid_fold {z0 : Int} {i0 : Nat} (os : List (Int × Int)) (hnd : os.Nodup) (s : StD)
    (hs : SizedD G s) (I : OnceMid G conn elev nod md z0 i0 os s) :
    OnceMid G conn elev nod md z0 i0 [] (os.foldl (visitD G conn elev nod md z0 i0) s) := by
  induction os generalizing s with
  | nil => exact I
  | cons o os ih =>
    have h := List.nodup_cons.1 hnd
    exact ih h.2 _ (sizedD_visit s o hs) (onceMid_visit hs h.1 I)

theorem offsets_nodup (conn : Nat) : (offsets conn).Nodup := by
  unfold offsets; split <;> decide

/-- popping the head of the heap starts the neighbour loop with the invariant -/
theorem onceMid_pop {i : Nat} {s : StD} {h : HE} {rest : List HE}
    (B : OnceBase G conn elev nod md i [] s) (hq : s.q = h :: rest) :
    OnceMid G conn elev nod md h.z h.idx (offsets conn) { s with q := rest } := by
  have hsort : HSorted (h :: rest) := hq ▸ B.sorted
  have hmem : ∀ e, e ∈ rest → e ∈ s.q := fun e he => by rw [hq]; exact List.mem_cons_of_mem _ he
  have hge : ∀ e, e ∈ h :: rest → h.z ≤ e.z := by
    intro e he
    have := hsorted_head hsort e he
    rw [not_lt_iff, HE.lt_iff] at this
    omega
  exact
    { base :=
        { sorted := (List.pairwise_cons.1 hsort).2
          nodDone := B.nodDone, doneT := B.doneT
          entry := fun e he => B.entry e (hmem e he)
          popped := fun w hw hqw => by
            rcases B.popped w hw hqw with h1 | ⟨e, he, hi⟩ | ⟨_, h4⟩
            · exact Or.inl h1
            · rw [hq] at he
              rcases List.mem_cons.1 he with rfl | he
              · exact Or.inr (Or.inr ⟨hi.symm, fun x hx _ _ => hi ▸ hx⟩)
              · exact Or.inr (Or.inl ⟨e, he, hi⟩)
            · refine Or.inl fun x hx hn => ?_
              cases hqx : s.queued[x]! with
              | true => rfl
              | false => exact absurd (h4 x hx hn hqx) atO_nil
          cover := fun c hc hqc hdc => by
            rcases B.cover c hc hqc hdc with ⟨e, he, h1, h2⟩ | h
            · rw [hq] at he
              rcases List.mem_cons.1 he with rfl | he
              · exact Or.inr h1
              · exact Or.inl ⟨e, he, h1, h2⟩
            · exact absurd h atO_nil
          esz := B.esz, evc0 := B.evc0, evc1 := B.evc1, evn := B.evn }
      lvl := fun e he => Or.inl (hge e (List.mem_cons_of_mem _ he))
      now := fun c hc hqc hdc _ => by
        rcases B.cover c hc hqc hdc with ⟨e, he, _, h2⟩ | h
        · rw [hq] at he
          exact tooDeep_mono (by have := hge e he; omega) h2
        · exact absurd h atO_nil
      pop := B.entry h (by rw [hq]; exact List.mem_cons_self) }

/-- at the end of the neighbour loop the invariant between pops holds again -/
theorem onceBase_of_mid {z0 : Int} {i0 i : Nat} {s : StD} (I : OnceMid G conn elev nod md z0 i0 [] s) :
    OnceBase G conn elev nod md i [] s :=
  have B := I.base
  { sorted := B.sorted, nodDone := B.nodDone, doneT := B.doneT, entry := B.entry
    esz := B.esz, evc0 := B.evc0, evc1 := B.evc1, evn := B.evn
    popped := fun w hw hqw => by
      rcases B.popped w hw hqw with h1 | h2 | ⟨_, h4⟩
      · exact Or.inl h1
      · exact Or.inr (Or.inl h2)
      · refine Or.inl fun x hx hn => ?_
        cases hqx : s.queued[x]! with
        | true => rfl
        | false => exact absurd (h4 x hx hn hqx) atO_nil
    cover := fun c hc hqc hdc => by
      rcases B.cover c hc hqc hdc with h1 | h
      · exact Or.inl h1
      · exact absurd h atO_nil }

theorem onceBase_loop (fuel : Nat) (s : StD) (hs : SizedD G s) (B : OnceBase G conn elev nod md 0 [] s) :
    OnceBase G conn elev nod md 0 [] (fillLoopD G conn elev nod md fuel s) := by
  induction fuel generalizing s with
  | zero => exact B
  | succ k ih =>
    unfold fillLoopD
    split
    · exact B
    · rename_i h rest hq
      have hs0 : SizedD G { s with q := rest } := hs
      exact ih _ (sizedD_fold _ _ hs0)
        (onceBase_of_mid (onceMid_fold _ (offsets_nodup conn) _ hs0 (onceMid_pop B hq)))

theorem onceBase_init {seed : Array Bool} :
    OnceBase G conn elev nod md 0 [] (initStateD G elev nod seed) :=
  { sorted := hsorted_initHeap G elev seed
    nodDone := fun c _ hn => hn
    doneT := fun c _ hd hn => by
      have : nod[c]! = true := hd
      rw [hn] at this; cases this
    entry := fun e he => by
      obtain ⟨i, hi, _, rfl⟩ := (mem_initHeap G elev seed e).1 he
      refine ⟨hi, Int.le_refl _, ?_⟩
      show tooDeep md (elev[i]! - elev[i]!) = false
      rw [Int.sub_self]; exact tooDeep_zero md
    popped := fun w hw hq =>
      Or.inr (Or.inl ⟨⟨elev[w]!, 1, w⟩, (mem_initHeap G elev seed _).2 ⟨w, hw, hq, rfl⟩, rfl⟩)
    cover := fun c hc hq _ => by
      refine Or.inl ⟨⟨elev[c]!, 1, c⟩, (mem_initHeap G elev seed _).2 ⟨c, hc, hq, rfl⟩, win_self hc, ?_⟩
      show tooDeep md (elev[c]! - elev[c]!) = false
      rw [Int.sub_self]; exact tooDeep_zero md
    esz := by simp [initStateD]
    evc0 := fun c hc _ => by simp [initStateD, hc]
    evc1 := fun c hc => by simp [initStateD, hc]
    evn := by
      have := unq_le G.n seed
      show 0 + unq G.n seed ≤ G.n
      omega }

/-! ### the result -/

/-- **`too_deep_once`**, every state of every run (any fuel, any seed set, any `max_depth`): every cell
has had at most one too-deep event, and the number of events plus the number of cells never queued is
at most `n` -/
theorem too_deep_once_loop {seed : Array Bool} (fuel : Nat) (hN : nod.size = G.n) (hE : elev.size = G.n)
    (hS : seed.size = G.n) :
    let s := fillLoopD G conn elev nod md fuel (initStateD G elev nod seed)
    (∀ c : Nat, s.evc[c]! ≤ 1) ∧ s.ev + unq G.n s.queued ≤ G.n := by
  intro s
  have B : OnceBase G conn elev nod md 0 [] s :=
    onceBase_loop fuel _ (sizedD_init hN hE hS) onceBase_init
  refine ⟨fun c => ?_, B.evn⟩
  by_cases hc : c < G.n
  · exact B.evc1 c hc
  · have : s.evc[c]! = 0 := by
      rw [getElem!_def, Array.getElem?_eq_none (by rw [B.esz]; omega)]
      rfl
    omega

/-- the loop is empty after `fuelD` pops, and more fuel changes nothing -/
theorem fillLoopD_stable (fuel : Nat) (s : StD)
    (h : (fillLoopD G conn elev nod md fuel s).q = []) (k : Nat) :
    fillLoopD G conn elev nod md (fuel + k) s = fillLoopD G conn elev nod md fuel s := by
  induction fuel generalizing s with
  | zero =>
    unfold fillLoopD at h
    cases k with
    | zero => rfl
    | succ k => simp only [Nat.zero_add]; unfold fillLoopD; rw [h]
  | succ n ih =>
    rw [Nat.add_right_comm]
    unfold fillLoopD at h ⊢
    split
    · rfl
    · rename_i _ rest hq
      rw [hq] at h
      exact ih _ h

theorem fillLoopD_empty {seed : Array Bool} (hN : nod.size = G.n) (hE : elev.size = G.n)
    (hS : seed.size = G.n) (fuel : Nat) (hf : fuelD G ≤ fuel) :
    (fillLoopD G conn elev nod md fuel (initStateD G elev nod seed)).q = [] := by
  have hs := sizedD_init (elev := elev) hN hE hS
  obtain ⟨_, hl⟩ := potD_loop (conn := conn) (elev := elev) (nod := nod) (md := md) fuel _ hs
  have hp := potD_init_le G elev nod seed
  have hev := (too_deep_once_loop (conn := conn) (md := md) fuel hN hE hS).2
  cases hq : (fillLoopD G conn elev nod md fuel (initStateD G elev nod seed)).q with
  | nil => rfl
  | cons a r =>
    have := hl (by rw [hq]; simp)
    have h0 : (initStateD G elev nod seed).ev = 0 := rfl
    unfold fuelD at hf
    omega

theorem fillModelDepth_once {pits : Option (List Nat)} {minMode : Bool} {elvMax : Option Int}
    {f : Array Int} {d8 : Array Nat} {fin : Bool} {ev : Nat} {evc : Array Nat}
    (hN : nod.size = G.n) (hE : elev.size = G.n)
    (h : fillModelDepth G conn elev nod pits minMode elvMax md = .ok (f, d8, fin, ev, evc)) :
    (∀ c : Nat, evc[c]! ≤ 1) ∧ ev ≤ G.n := by
  unfold fillModelDepth at h
  split at h
  · cases h
  · rename_i seed hseed
    injection h with h
    simp only [Prod.mk.injEq] at h
    obtain ⟨_, _, _, h4, h5⟩ := h
    obtain ⟨a, b⟩ := too_deep_once_loop (conn := conn) (md := md) (fuelD G) hN hE (seedsOfE_size hseed)
    rw [h4] at b
    rw [h5] at a
    exact ⟨a, by omega⟩

end Pf.C06
