import PfVerif.Proofs.C18Digits
/-! Algorithm-level partition invariant of `subbasins_pfafstetter`: after every step of the pit loop
and of the worklist loop, every coded cell that is not a returned outlet is the main upstream cell
of its downstream cell, is a stream cell, and carries its downstream cell's code. Hence walking
downstream from any coded cell the code stays the same until a returned outlet is met.
The only fact about the visiting order that is used is the run-time side condition `ok` of
`pfInner` (see Model/C18.lean). Core Lean only. -/
namespace Pf

theorem usMainOK_spec {ds usMain : Array Nat} (h : usMainOK ds usMain = true) :
    ∀ i, i < ds.size → usMain[i]! < ds.size → usMain[i]! ≠ i ∧ ds[usMain[i]!]! = i := by
  intro i hi hu
  unfold usMainOK at h
  simp only [Bool.and_eq_true, beq_iff_eq, List.all_eq_true, List.mem_range, Bool.or_eq_true,
    decide_eq_true_eq, bne_iff_ne, ne_eq] at h
  rcases h.2 i hi with h1 | h1
  · omega
  · exact ⟨h1.1.2, h1.2⟩

/-! ### what one `stemFill` does -/

theorem stemFill_spec (ds usMain : Array Nat)
    (hus : ∀ i, i < ds.size → usMain[i]! < ds.size → usMain[i]! ≠ i ∧ ds[usMain[i]!]! = i)
    (h : Nat → Int → Bool) (v : Int) :
    ∀ (f idx : Nat) (br r : Array Int), idx < ds.size → br.size = ds.size → br[idx]! = v →
      stemFill usMain ds.size h v f idx br = some r →
      ∃ T : Nat → Prop, T idx ∧ (∀ s, T s → s < ds.size) ∧
        (∀ s, ¬ T s → r[s]! = br[s]!) ∧ (∀ s, T s → r[s]! = v) ∧
        (∀ s, T s → s ≠ idx → ds[s]! ≠ s ∧ T ds[s]! ∧ usMain[ds[s]!]! = s ∧ h s br[s]! = false) ∧
        (∀ c, T c → usMain[c]! < ds.size → T usMain[c]! ∨ h usMain[c]! br[usMain[c]!]! = true) := by
  intro f
  induction f with
  | zero => intro idx br r _ _ _ hr; simp [stemFill] at hr
  | succ f ih =>
    intro idx br r hidx hsz hv hr
    simp only [stemFill] at hr
    split at hr
    · rename_i hstop
      simp only [Option.some.injEq] at hr
      subst hr
      refine ⟨fun s => s = idx, rfl, fun s hs => hs ▸ hidx, fun _ _ => rfl, fun s hs => hs ▸ hv,
        fun s hs hne => absurd hs hne, fun c hc hlt => ?_⟩
      subst hc
      simp only [Bool.or_eq_true, decide_eq_true_eq] at hstop
      rcases hstop with h1 | h1
      · omega
      · exact Or.inr h1
    · rename_i hstop
      simp only [Bool.or_eq_true, decide_eq_true_eq, not_or, Bool.not_eq_true] at hstop
      obtain ⟨hlt, hh⟩ := hstop
      have hlt' : usMain[idx]! < ds.size := by omega
      obtain ⟨hne, hds⟩ := hus idx hidx hlt'
      have hset : (br.setIfInBounds usMain[idx]! v)[usMain[idx]!]! = v := by
        rw [get!_setIfInBounds]; simp [hsz, hlt']
      obtain ⟨T', hT0, hTlt, hTout, hTin, hTw, hTc⟩ :=
        ih usMain[idx]! (br.setIfInBounds usMain[idx]! v) r hlt' (by simp [hsz]) hset hr
      have hother : ∀ s, s ≠ usMain[idx]! → (br.setIfInBounds usMain[idx]! v)[s]! = br[s]! := by
        intro s hs
        rw [get!_setIfInBounds]
        have : ¬ (usMain[idx]! = s ∧ usMain[idx]! < br.size) := fun hc => hs hc.1.symm
        simp [this]
      refine ⟨fun s => s = idx ∨ T' s, Or.inl rfl, ?_, ?_, ?_, ?_, ?_⟩
      · rintro s (hs | hs)
        · exact hs ▸ hidx
        · exact hTlt s hs
      · intro s hs
        simp only [not_or] at hs
        rw [hTout s hs.2]
        exact hother s (fun hc => hs.2 (hc ▸ hT0))
      · rintro s (hs | hs)
        · by_cases ht : T' s
          · exact hTin s ht
          · rw [hTout s ht, hother s (fun hc => ht (hc ▸ hT0)), hs]; exact hv
        · exact hTin s hs
      · rintro s (hs | hs) hne
        · exact absurd hs hne
        · by_cases hsu : s = usMain[idx]!
          · subst hsu
            exact ⟨by rw [hds]; exact Ne.symm hne, by rw [hds]; exact Or.inl rfl, by rw [hds], hh⟩
          · obtain ⟨h1, h2, h3, h4⟩ := hTw s hs hsu
            exact ⟨h1, Or.inr h2, h3, by rw [← hother s hsu]; exact h4⟩
      · rintro c (hc | hc) hclt
        · subst hc; exact Or.inl (Or.inr hT0)
        · rcases hTc c hc hclt with h1 | h1
          · exact Or.inl (Or.inr h1)
          · by_cases hcu : usMain[c]! = usMain[idx]!
            · rw [hcu]; exact Or.inl (Or.inr hT0)
            · rw [hother _ hcu] at h1; exact Or.inr h1

/-! ### the invariant -/

structure PfafInv (ds usMain : Array Nat) (so br : Array Int) (idxs : List Nat) : Prop where
  size : br.size = ds.size
  out : ∀ o ∈ idxs, o < ds.size ∧ br[o]! ≠ 0
  down : ∀ s, s < ds.size → br[s]! ≠ 0 → s ∉ idxs →
    ds[s]! ≠ s ∧ br[ds[s]!]! = br[s]! ∧ usMain[ds[s]!]! = s ∧ so[s]! ≠ 0

theorem PfafInv.init (ds usMain : Array Nat) (so : Array Int) :
    PfafInv ds usMain so (Array.replicate ds.size 0) [] where
  size := by simp
  out := by simp
  down := fun s _ hs _ => absurd (replicate_get! ds.size 0 rfl s) hs

/-- seed cell `x` with `v`, fill upstream along the main stem, append `x` to the outlets -/
theorem PfafInv.step {ds usMain : Array Nat} {so br : Array Int} {idxs : List Nat}
    (hinv : PfafInv ds usMain so br idxs)
    (hus : ∀ i, i < ds.size → usMain[i]! < ds.size → usMain[i]! ≠ i ∧ ds[usMain[i]!]! = i)
    {x : Nat} (hx : x < ds.size) {v : Int} (hv : v ≠ 0) (h : Nat → Int → Bool) {f : Nat} {r : Array Int}
    (hr : stemFill usMain ds.size h v f x (br.setIfInBounds x v) = some r)
    (hW : ∀ s, s ≠ x → s < ds.size → h s br[s]! = false → s ∈ idxs ∨ so[s]! ≠ 0)
    (hC : ∀ s, s < ds.size → br[s]! ≠ 0 → s ∉ idxs → s ≠ x → br[ds[s]!]! = br[s]! →
      (ds[s]! = x ∨ h ds[s]! br[ds[s]!]! = false) → h s br[s]! = true → False) :
    PfafInv ds usMain so r (idxs ++ [x]) := by
  have hsz1 : (br.setIfInBounds x v).size = ds.size := by simp [hinv.size]
  have hset : (br.setIfInBounds x v)[x]! = v := by
    rw [get!_setIfInBounds]; simp [hinv.size, hx]
  have hother : ∀ s, s ≠ x → (br.setIfInBounds x v)[s]! = br[s]! := by
    intro s hs
    rw [get!_setIfInBounds]
    have : ¬ (x = s ∧ x < br.size) := fun hc => hs hc.1.symm
    simp [this]
  obtain ⟨T, hTx, hTlt, hTout, hTin, hTw, hTc⟩ :=
    stemFill_spec ds usMain hus h v f x _ r hx hsz1 hset hr
  refine ⟨?_, ?_, ?_⟩
  · rw [stemFill_size _ _ _ _ _ _ _ _ hr]; exact hsz1
  · intro o ho
    rcases List.mem_append.1 ho with ho | ho
    · refine ⟨(hinv.out o ho).1, ?_⟩
      by_cases ht : T o
      · rw [hTin o ht]; exact hv
      · rw [hTout o ht, hother o (fun hc => ht (hc ▸ hTx))]; exact (hinv.out o ho).2
    · simp only [List.mem_singleton] at ho
      subst ho
      exact ⟨hx, by rw [hTin o hTx]; exact hv⟩
  · intro s hs hne hnot
    simp only [List.mem_append, List.mem_singleton, not_or] at hnot
    obtain ⟨hni, hsx⟩ := hnot
    by_cases ht : T s
    · obtain ⟨h1, h2, h3, h4⟩ := hTw s ht hsx
      refine ⟨h1, by rw [hTin _ h2, hTin s ht], h3, ?_⟩
      rw [hother s hsx] at h4
      rcases hW s hsx hs h4 with h5 | h5
      · exact absurd h5 hni
      · exact h5
    · have hrs : r[s]! = br[s]! := by rw [hTout s ht, hother s hsx]
      rw [hrs] at hne ⊢
      obtain ⟨h1, h2, h3, h4⟩ := hinv.down s hs hne hni
      refine ⟨h1, ?_, h3, h4⟩
      by_cases htc : T ds[s]!
      · exfalso
        have hcl := hTc ds[s]! htc (by rw [h3]; exact hs)
        rw [h3] at hcl
        rcases hcl with hcl | hcl
        · exact ht hcl
        · rw [hother s hsx] at hcl
          refine hC s hs hne hni hsx h2 ?_ hcl
          by_cases hcx : ds[s]! = x
          · exact Or.inl hcx
          · have := (hTw ds[s]! htc hcx).2.2.2
            rw [hother _ hcx] at this
            exact Or.inr this
      · rw [hTout _ htc, hother _ (fun hc => htc (by rw [hc]; exact hTx))]; exact h2

/-- the sub-basin / pit kind of step (`stop = strord == 0`) -/
theorem PfafInv.step_sub {ds usMain : Array Nat} {so br : Array Int} {idxs : List Nat}
    (hinv : PfafInv ds usMain so br idxs)
    (hus : ∀ i, i < ds.size → usMain[i]! < ds.size → usMain[i]! ≠ i ∧ ds[usMain[i]!]! = i)
    {x : Nat} (hx : x < ds.size) {v : Int} (hv : v ≠ 0) {f : Nat} {r : Array Int}
    (hr : stemFill usMain ds.size (fun u _ => so[u]! == 0) v f x (br.setIfInBounds x v) = some r) :
    PfafInv ds usMain so r (idxs ++ [x]) := by
  refine hinv.step hus hx hv _ hr ?_ ?_
  · intro s _ _ hh
    simp only [beq_eq_false_iff_ne, ne_eq] at hh
    exact Or.inr hh
  · intro s hs hne hni _ _ _ hh
    simp only [beq_iff_eq] at hh
    exact (hinv.down s hs hne hni).2.2.2 hh

/-- the inter-basin kind of step (`stop = code != pfaf_int_ds`), under the side condition -/
theorem PfafInv.step_int {ds usMain : Array Nat} {so br : Array Int} {idxs : List Nat}
    (hinv : PfafInv ds usMain so br idxs)
    (hus : ∀ i, i < ds.size → usMain[i]! < ds.size → usMain[i]! ≠ i ∧ ds[usMain[i]!]! = i)
    {x : Nat} (hx : x < ds.size) {v intDs : Int} (hv : v ≠ 0) (hi : intDs ≠ 0)
    (hpre : br[x]! = 0 ∨ br[x]! = intDs) {f : Nat} {r : Array Int}
    (hr : stemFill usMain ds.size (fun _ y => y != intDs) v f x (br.setIfInBounds x v) = some r) :
    PfafInv ds usMain so r (idxs ++ [x]) := by
  refine hinv.step hus hx hv _ hr ?_ ?_
  · intro s _ hs hh
    have hval : br[s]! = intDs := by simpa using hh
    by_cases hmem : s ∈ idxs
    · exact Or.inl hmem
    · exact Or.inr (hinv.down s hs (by rw [hval]; exact hi) hmem).2.2.2
  · intro s _ hne _ _ h2 hc hh
    have hs' : br[s]! ≠ intDs := by simpa using hh
    rcases hc with hc | hc
    · rw [hc] at h2
      rcases hpre with hp | hp
      · exact hne (by rw [← h2, hp])
      · exact hs' (by rw [← h2, hp])
    · have : br[ds[s]!]! = intDs := by simpa using hc
      exact hs' (by rw [← h2, this])

/-! ### positivity of the codes -/

def LabsPos (labs : List (Int × Nat)) : Prop := ∀ p ∈ labs, 0 < p.1

theorem pow10_pos (e : Nat) : 0 < (10 : Int) ^ e := Int.pow_pos (by decide)

theorem pfBase_pos : ∀ d, 0 < pfBase d := by
  intro d
  induction d with
  | zero => decide
  | succ d ih =>
    rw [pfBase_succ]
    split
    · omega
    · have := pow10_pos d; omega

/-! ### membership through the sorts -/

theorem mem_insertDesc (key : Nat → Int) (x y : Nat) (l : List Nat) :
    y ∈ insertDesc key x l → y = x ∨ y ∈ l := by
  induction l with
  | nil => intro h; simp [insertDesc] at h; exact Or.inl h
  | cons z r ih =>
    intro h
    simp only [insertDesc] at h
    split at h
    · rcases List.mem_cons.1 h with h | h
      · exact Or.inr (by simp [h])
      · rcases ih h with h | h
        · exact Or.inl h
        · exact Or.inr (by simp [h])
    · rcases List.mem_cons.1 h with h | h
      · exact Or.inl h
      · exact Or.inr h

theorem mem_sortDesc (key : Nat → Int) (l : List Nat) (y : Nat) : y ∈ sortDesc key l → y ∈ l := by
  unfold sortDesc
  suffices h : ∀ acc : List Nat, y ∈ l.foldl (fun acc x => insertDesc key x acc) acc → y ∈ acc ∨ y ∈ l by
    intro hy; rcases h [] hy with h | h
    · cases h
    · exact h
  induction l with
  | nil => intro acc h; exact Or.inl h
  | cons x l ih =>
    intro acc h
    rw [List.foldl_cons] at h
    rcases ih _ h with h | h
    · rcases mem_insertDesc key x y acc h with h | h
      · exact Or.inr (by simp [h])
      · exact Or.inl h
    · exact Or.inr (by simp [h])

theorem mem_insertDesc_iff (key : Nat → Int) (x y : Nat) (l : List Nat) :
    y ∈ insertDesc key x l ↔ y = x ∨ y ∈ l := by
  refine ⟨mem_insertDesc key x y l, ?_⟩
  induction l with
  | nil =>
    intro h
    rcases h with h | h
    · simp [insertDesc, h]
    · cases h
  | cons z r ih =>
    intro h
    simp only [insertDesc]
    split
    · rcases h with h | h
      · exact List.mem_cons_of_mem _ (ih (Or.inl h))
      · rcases List.mem_cons.1 h with h | h
        · simp [h]
        · exact List.mem_cons_of_mem _ (ih (Or.inr h))
    · rcases h with h | h
      · simp [h]
      · exact List.mem_cons_of_mem _ h

/-- the stable insertion sort really sorts: keys are non-increasing along the result
(one of the facts needed to discharge the side condition of `pfaf_partition`) -/
theorem insertDesc_sorted (key : Nat → Int) (x : Nat) (l : List Nat)
    (h : l.Pairwise (fun a b => key a ≥ key b)) :
    (insertDesc key x l).Pairwise (fun a b => key a ≥ key b) := by
  induction l with
  | nil => simp [insertDesc]
  | cons z r ih =>
    simp only [insertDesc]
    have hz := List.pairwise_cons.1 h
    split
    · rename_i hzx
      refine List.pairwise_cons.2 ⟨fun b hb => ?_, ih hz.2⟩
      rcases mem_insertDesc key x b r hb with hb | hb
      · subst hb; exact hzx
      · exact hz.1 b hb
    · rename_i hzx
      refine List.pairwise_cons.2 ⟨fun b hb => ?_, h⟩
      rcases List.mem_cons.1 hb with hb | hb
      · subst hb; omega
      · have := hz.1 b hb; omega

theorem sortDesc_sorted (key : Nat → Int) (l : List Nat) :
    (sortDesc key l).Pairwise (fun a b => key a ≥ key b) := by
  unfold sortDesc
  suffices h : ∀ acc : List Nat, acc.Pairwise (fun a b => key a ≥ key b) →
      (l.foldl (fun acc x => insertDesc key x acc) acc).Pairwise (fun a b => key a ≥ key b) from
    h [] List.Pairwise.nil
  induction l with
  | nil => intro acc h; exact h
  | cons x l ih => intro acc h; rw [List.foldl_cons]; exact ih _ (insertDesc_sorted key x acc h)

/-! ### the loops -/

/-- the side-condition flag only ever goes from true to false -/
theorem pfInner_ok_mono (ds usMain : Array Nat) (so : Array Int) (depth : Nat) (pfaf0 : Int) (d0 : Nat) :
    ∀ (l : List Nat) (i : Nat) (st r : PfSt × Int × Bool),
      pfInner ds usMain so depth pfaf0 d0 l i st = some r → r.2.2 = true → st.2.2 = true := by
  intro l
  induction l with
  | nil => intro i st r hr hok; simp only [pfInner, Option.some.injEq] at hr; subst hr; exact hok
  | cons idx rest ih =>
    intro i st r hr hok
    obtain ⟨⟨br, idxs, labs⟩, intDs, ok⟩ := st
    simp only [pfInner] at hr
    split at hr
    · cases hr
    · split at hr
      · have := ih _ _ _ hr hok
        exact this
      · split at hr
        · cases hr
        · have := ih _ _ _ hr hok
          simp only [Bool.and_eq_true] at this
          exact this.1.1

theorem pfInner_inv (ds usMain : Array Nat) (so : Array Int) (depth : Nat) (pfaf0 : Int) (d0 : Nat)
    (hus : ∀ i, i < ds.size → usMain[i]! < ds.size → usMain[i]! ≠ i ∧ ds[usMain[i]!]! = i)
    (hp0 : 0 < pfaf0) :
    ∀ (l : List Nat) (i : Nat) (st r : PfSt × Int × Bool), (∀ x ∈ l, x < ds.size) →
      pfInner ds usMain so depth pfaf0 d0 l i st = some r → r.2.2 = true →
      PfafInv ds usMain so st.1.1 st.1.2.1 → LabsPos st.1.2.2 → st.2.1 ≠ 0 →
      PfafInv ds usMain so r.1.1 r.1.2.1 ∧ LabsPos r.1.2.2 ∧ st.2.2 = true := by
  intro l
  induction l with
  | nil =>
    intro i st r _ hr hok hinv hl _
    simp only [pfInner, Option.some.injEq] at hr; subst hr; exact ⟨hinv, hl, hok⟩
  | cons idx rest ih =>
    intro i st r hlt hr hok hinv hl hint
    obtain ⟨⟨br, idxs, labs⟩, intDs, ok⟩ := st
    have hpp := pow10_pos (depth - d0)
    have hsub : 0 < pfaf0 + (2 * (i : Int) + 1) * (10 : Int) ^ (depth - d0) := by
      have : 0 < (2 * (i : Int) + 1) * (10 : Int) ^ (depth - d0) := Int.mul_pos (by omega) hpp
      omega
    have hpint : 0 < pfaf0 + ((i : Int) + 1) * 2 * (10 : Int) ^ (depth - d0) := by
      have : 0 < ((i : Int) + 1) * 2 * (10 : Int) ^ (depth - d0) := Int.mul_pos (by omega) hpp
      omega
    have hlabs : ∀ (c : Int) (d : Nat), 0 < c → ∀ labs', LabsPos labs' →
        LabsPos (if d0 < depth then labs' ++ [(c, d)] else labs') := by
      intro c d hc labs' hl'
      split
      · intro p hp
        rcases List.mem_append.1 hp with hp | hp
        · exact hl' p hp
        · simp only [List.mem_singleton] at hp; subst hp; exact hc
      · exact hl'
    simp only [pfInner] at hr
    split at hr
    · cases hr
    · rename_i br1 h1
      have hinv1 := hinv.step_sub hus (hlt idx (by simp)) (Int.ne_of_gt hsub) h1
      have hrest : ∀ x ∈ rest, x < ds.size := fun x hx => hlt x (by simp [hx])
      split at hr
      · have := ih _ _ _ hrest hr hok hinv1 (hlabs _ _ hsub _ hl) hint
        exact this
      · split at hr
        · cases hr
        · rename_i br2 h2
          have hstep := ih _ _ _ hrest hr hok
          have hflag := pfInner_ok_mono _ _ _ _ _ _ _ _ _ _ hr hok
          simp only at hflag
          simp only [Bool.and_eq_true, decide_eq_true_eq, Bool.or_eq_true, beq_iff_eq] at hflag
          obtain ⟨⟨hok0, hx⟩, hpre⟩ := hflag
          have hinv2 := hinv1.step_int hus hx (Int.ne_of_gt hpint) hint hpre h2
          have := hstep hinv2 (hlabs _ _ hpint _ (hlabs _ _ hsub _ hl)) (Int.ne_of_gt hpint)
          exact ⟨this.1, this.2.1, hok0⟩

theorem pfPits_inv (ds usMain : Array Nat) (so : Array Int) (depth : Nat)
    (hus : ∀ i, i < ds.size → usMain[i]! < ds.size → usMain[i]! ≠ i ∧ ds[usMain[i]!]! = i) :
    ∀ (l : List Nat) (i : Nat) (st r : PfSt), (∀ x ∈ l, x < ds.size) →
      pfPits usMain ds.size so depth l i st = some r →
      PfafInv ds usMain so st.1 st.2.1 → LabsPos st.2.2 →
      PfafInv ds usMain so r.1 r.2.1 ∧ LabsPos r.2.2 := by
  intro l
  induction l with
  | nil =>
    intro i st r _ hr hinv hl
    simp only [pfPits, Option.some.injEq] at hr; subst hr; exact ⟨hinv, hl⟩
  | cons idx rest ih =>
    intro i st r hlt hr hinv hl
    obtain ⟨br, idxs, labs⟩ := st
    have hpos : 0 < pfBase depth + ((i : Int) + 1) * (10 : Int) ^ depth := by
      have h1 := pfBase_pos depth
      have h2 : 0 < ((i : Int) + 1) * (10 : Int) ^ depth := Int.mul_pos (by omega) (pow10_pos depth)
      omega
    simp only [pfPits] at hr
    split at hr
    · cases hr
    · rename_i br1 h1
      have hinv1 := hinv.step_sub hus (hlt idx (by simp)) (Int.ne_of_gt hpos) h1
      have := ih _ _ _ (fun x hx => hlt x (by simp [hx])) hr hinv1 (by
        intro p hp
        rcases List.mem_append.1 hp with hp | hp
        · exact hl p hp
        · simp only [List.mem_singleton] at hp; subst hp; exact hpos)
      exact this

theorem pfLoop_ok_mono (ds usMain : Array Nat) (so uparea : Array Int) (trib : List Nat) (depth : Nat) :
    ∀ (f : Nat) (st r : PfSt × Bool × Bool),
      pfLoop ds usMain so uparea trib depth f st = some r → r.2.2 = true → st.2.2 = true := by
  intro f
  induction f with
  | zero =>
    intro st r h hok
    obtain ⟨⟨br, idxs, labs⟩, tie, ok⟩ := st
    cases labs with
    | nil => simp only [pfLoop, Option.some.injEq] at h; subst h; exact hok
    | cons a labs => simp [pfLoop] at h
  | succ f ih =>
    intro st r h hok
    obtain ⟨⟨br, idxs, labs⟩, tie, ok⟩ := st
    cases labs with
    | nil => simp only [pfLoop, Option.some.injEq] at h; subst h; exact hok
    | cons a labs =>
      obtain ⟨pfaf0, d0⟩ := a
      simp only [pfLoop] at h
      split at h
      · have := ih ((br, idxs, labs), tie, ok) r h hok
        exact this
      · split at h
        · cases h
        · rename_i st' x ok' hin
          have h1 := ih _ _ h hok
          have h2 := pfInner_ok_mono _ _ _ _ _ _ _ _ _ _ hin h1
          exact h2

theorem pfLoop_inv (ds usMain : Array Nat) (so uparea : Array Int) (trib : List Nat) (depth : Nat)
    (hus : ∀ i, i < ds.size → usMain[i]! < ds.size → usMain[i]! ≠ i ∧ ds[usMain[i]!]! = i)
    (htrib : ∀ x ∈ trib, x < ds.size) :
    ∀ (f : Nat) (st r : PfSt × Bool × Bool),
      pfLoop ds usMain so uparea trib depth f st = some r → r.2.2 = true →
      PfafInv ds usMain so st.1.1 st.1.2.1 → LabsPos st.1.2.2 → PfafInv ds usMain so r.1.1 r.1.2.1 := by
  intro f
  induction f with
  | zero =>
    intro st r h _ hinv _
    obtain ⟨⟨br, idxs, labs⟩, tie, ok⟩ := st
    cases labs with
    | nil => simp only [pfLoop, Option.some.injEq] at h; subst h; exact hinv
    | cons a labs => simp [pfLoop] at h
  | succ f ih =>
    intro st r h hok hinv hl
    obtain ⟨⟨br, idxs, labs⟩, tie, ok⟩ := st
    cases labs with
    | nil => simp only [pfLoop, Option.some.injEq] at h; subst h; exact hinv
    | cons a labs =>
      obtain ⟨pfaf0, d0⟩ := a
      have hp0 : 0 < pfaf0 := hl (pfaf0, d0) (by simp)
      have hl' : LabsPos labs := fun p hp => hl p (by simp [hp])
      simp only [pfLoop] at h
      split at h
      · have := ih ((br, idxs, labs), tie, ok) r h hok hinv hl'
        exact this
      · split at h
        · cases h
        · rename_i st' x ok' hin
          have hok' := pfLoop_ok_mono _ _ _ _ _ _ _ _ _ h hok
          have hmem : ∀ y ∈ sortDesc (fun i => uparea[ds[i]!]!)
              (List.take 4 (sortDesc (fun i => uparea[i]!)
                (List.filter (fun idx => br[idx]! == 0 && br[ds[idx]!]! == pfaf0) trib))), y < ds.size := by
            intro y hy
            have h1 := mem_sortDesc _ _ _ hy
            have h2 := mem_sortDesc _ _ _ (List.mem_of_mem_take h1)
            exact htrib y (List.mem_filter.1 h2).1
          have hin' := pfInner_inv ds usMain so depth pfaf0 d0 hus hp0 _ 0
            ((br, idxs, labs), pfaf0, ok) _ hmem hin hok' hinv hl' (Int.ne_of_gt hp0)
          exact ih _ _ h hok hin'.1 hin'.2.1

/-- **partition invariant** of the whole Pfafstetter seeding, under the run-time side condition -/
theorem pfBranch_inv (pits : List Nat) (ds : Array Nat) (seq : List Nat) (usMain : Array Nat)
    (uparea : Array Int) (mask : Option (Array Bool)) (depth : Nat)
    (hus : usMainOK ds usMain = true) (hb : ∀ i ∈ seq, i < ds.size)
    (br : Array Int) (idxs : List Nat) (tie : Bool)
    (h : pfBranch pits ds seq usMain uparea mask depth = some (br, idxs, tie, true)) :
    PfafInv ds usMain (pfStrord ds seq usMain mask depth) br idxs := by
  have hus' := usMainOK_spec hus
  unfold pfBranch at h
  simp only at h
  split at h
  · cases h
  · rename_i st0 hp
    split at h
    · cases h
    · rename_i br' idxs' labs' tie' ok' heq
      simp only [Option.some.injEq, Prod.mk.injEq] at h
      obtain ⟨h1, h2, _, h4⟩ := h
      subst h1 h2 h4
      have hok0 := pfLoop_ok_mono _ _ _ _ _ _ _ _ _ heq rfl
      simp only [List.all_eq_true, decide_eq_true_eq] at hok0
      have hpits := pfPits_inv ds usMain (pfStrord ds seq usMain mask depth) depth hus' pits 0
        (Array.replicate ds.size 0, [], []) st0 hok0 hp (PfafInv.init ds usMain _) (fun p hp => by cases hp)
      have htrib : ∀ x ∈ tributaries ds seq (pfStrord ds seq usMain mask depth), x < ds.size := by
        intro x hx
        unfold tributaries at hx
        exact hb x (List.mem_filter.1 hx).1
      exact pfLoop_inv _ _ _ _ _ _ hus' htrib _ _ _ heq rfl hpits.1 hpits.2

/-! ### from the invariant to the partition -/

theorem iterA_add (ds : Array Nat) : ∀ (a b i : Nat), iterA ds (a + b) i = iterA ds b (iterA ds a i) := by
  intro a
  induction a with
  | zero => intro b i; simp [iterA]
  | succ a ih =>
    intro b i
    have : a + 1 + b = (a + b) + 1 := by omega
    rw [this]
    simp only [iterA]
    exact ih b _

/-- walking downstream from a coded cell the code is kept until the first returned outlet -/
theorem PfafInv.walk {ds usMain : Array Nat} {so br : Array Int} {idxs : List Nat}
    (hinv : PfafInv ds usMain so br idxs) {seq : List Nat} (htopo : Topo ds seq)
    (hb : ∀ i ∈ seq, i < ds.size) :
    ∀ s ∈ seq, br[s]! ≠ 0 →
      ∃ m, iterA ds m s ∈ idxs ∧ br[iterA ds m s]! = br[s]! ∧ ∀ t, t < m → iterA ds t s ∉ idxs := by
  refine htopo.induction _ (fun s hs ih hne => ?_)
  by_cases hmem : s ∈ idxs
  · exact ⟨0, hmem, rfl, fun t ht => absurd ht (Nat.not_lt_zero t)⟩
  · obtain ⟨h1, h2, _, _⟩ := hinv.down s (hb s hs) hne hmem
    obtain ⟨m, hm1, hm2, hm3⟩ := (ih h1).2 (by rw [h2]; exact hne)
    refine ⟨m + 1, hm1, by simp only [iterA]; rw [hm2, h2], fun t ht => ?_⟩
    cases t with
    | zero => exact hmem
    | succ t => exact hm3 t (Nat.lt_of_succ_lt_succ ht)

/-- a map obtained by filling seeds `br` that satisfy the invariant is the first-returned-outlet
partition (codes reduced by any function `g` with `g 0 = 0`) -/
theorem PfafInv.partition {ds usMain : Array Nat} {so br : Array Int} {idxs : List Nat}
    (hinv : PfafInv ds usMain so br idxs) {seq : List Nat} (htopo : Topo ds seq)
    (hb : ∀ i ∈ seq, i < ds.size) (g : Int → Int) (hg : g 0 = 0) :
    ∀ i ∈ seq, LabelOK ds (· ∈ idxs) (fun o => g (fillnodataUpstream ds seq br 0)[o]!) i
      (g (fillnodataUpstream ds seq br 0)[i]!) := by
  have hb' : ∀ i ∈ seq, i < br.size := fun i hi => by rw [hinv.size]; exact hb i hi
  have hfv := fill_first_valid ds br 0 seq htopo hb'
  have hself : ∀ o ∈ seq, br[o]! ≠ 0 → (fillnodataUpstream ds seq br 0)[o]! = br[o]! :=
    fun o ho hne => (hfv o ho).unique (FirstValid.here o hne)
  intro i hi
  have hiter : ∀ m, iterA ds m i ∈ seq := by
    intro m
    induction m generalizing i with
    | zero => exact hi
    | succ m ih => simp only [iterA]; exact ih _ (htopo.ds_mem i hi)
  rcases firstValid_labelOK (hfv i hi) with ⟨hv, hn⟩ | ⟨m, hm, hv, hn⟩
  · refine Or.inl ⟨?_, fun m hmem => hn m (hinv.out _ hmem).2⟩
    show g (sweepDown ds (gFillNd 0) seq br)[i]! = 0
    rw [hv, hg]
  · obtain ⟨m', h1, h2, h3⟩ := hinv.walk htopo hb _ (hiter m) hm
    refine Or.inr ⟨m + m', by rw [iterA_add]; exact h1, ?_, fun t ht hmem => ?_⟩
    · rw [iterA_add]
      have ho : iterA ds m' (iterA ds m i) ∈ seq := by rw [← iterA_add]; exact hiter _
      show g (sweepDown ds (gFillNd 0) seq br)[i]! =
        g (fillnodataUpstream ds seq br 0)[iterA ds m' (iterA ds m i)]!
      rw [hself _ ho (by rw [h2]; exact hm), h2, hv]
    · by_cases htm : t < m
      · exact hn t htm (hinv.out _ hmem).2
      · have : t = m + (t - m) := by omega
        rw [this, iterA_add] at hmem
        exact h3 (t - m) (by omega) hmem

end Pf
