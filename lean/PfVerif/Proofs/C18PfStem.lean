import PfVerif.Proofs.C18Part
/-! Pfafstetter, joint invariant (stage 4), part 1: the static hypotheses (`PfCtx`), iterated main
upstream cells (`iterU`), strict monotonicity of the upstream area along them, and a refined
specification of `stemFill` (the cells written are `iterU 0 idx … iterU K idx`). Core Lean only. -/
namespace Pf.C18
open Pf

/-- the documented preconditions of `subbasins_pfafstetter` that the invariant needs: a downstream-first
order holding every cell of the network, a main-upstream map that picks one inflowing cell for every cell
that has an inflow, an upstream-area field that is strictly larger at the downstream cell -/
structure PfCtx (ds usMain : Array Nat) (seq : List Nat) (uparea : Array Int) : Prop where
  topo : Topo ds seq
  hb : ∀ i ∈ seq, i < ds.size
  hall : ∀ i, i < ds.size → ds[i]! < ds.size → i ∈ seq
  hus : ∀ i, i < ds.size → usMain[i]! < ds.size → usMain[i]! ≠ i ∧ ds[usMain[i]!]! = i
  htot : ∀ i ∈ seq, ds[i]! ≠ i → usMain[ds[i]!]! < ds.size
  hmono : ∀ i ∈ seq, ds[i]! ≠ i → uparea[i]! < uparea[ds[i]!]!

/-- `k`-fold main upstream cell -/
def iterU (usMain : Array Nat) : Nat → Nat → Nat
  | 0, x => x
  | k+1, x => iterU usMain k usMain[x]!

theorem iterU_add (usMain : Array Nat) : ∀ (a b x : Nat),
    iterU usMain (a + b) x = iterU usMain b (iterU usMain a x) := by
  intro a
  induction a with
  | zero => intro b x; simp [iterU]
  | succ a ih =>
    intro b x
    have : a + 1 + b = (a + b) + 1 := by omega
    rw [this]
    simp only [iterU]
    exact ih b _

theorem iterU_succ' (usMain : Array Nat) (k x : Nat) :
    iterU usMain (k + 1) x = usMain[iterU usMain k x]! := by
  rw [iterU_add usMain k 1 x]; rfl

variable {ds usMain : Array Nat} {seq : List Nat} {uparea : Array Int}

/-- one main-upstream step inside the raster: the upstream cell is a cell of `seq`, drains to the
start cell and has a strictly smaller upstream area -/
theorem PfCtx.ustep (c : PfCtx ds usMain seq uparea) {x : Nat} (hx : x < ds.size)
    (hu : usMain[x]! < ds.size) :
    usMain[x]! ∈ seq ∧ ds[usMain[x]!]! = x ∧ usMain[x]! ≠ x ∧ uparea[usMain[x]!]! < uparea[x]! := by
  obtain ⟨h1, h2⟩ := c.hus x hx hu
  have hm : usMain[x]! ∈ seq := c.hall _ hu (by rw [h2]; exact hx)
  refine ⟨hm, h2, h1, ?_⟩
  have := c.hmono _ hm (by rw [h2]; exact Ne.symm h1)
  rw [h2] at this
  exact this

/-- the upstream area decreases along the main-upstream iterates as long as they are cells -/
theorem PfCtx.upa_iterU (c : PfCtx ds usMain seq uparea) {x : Nat} :
    ∀ m, (∀ k, k ≤ m → iterU usMain k x < ds.size) →
      uparea[iterU usMain m x]! ≤ uparea[x]! ∧ (1 ≤ m → uparea[iterU usMain m x]! < uparea[x]!) := by
  intro m
  induction m with
  | zero => intro _; exact ⟨Int.le_refl _, fun h => absurd h (by omega)⟩
  | succ m ih =>
    intro h
    have h1 := ih (fun k hk => h k (by omega))
    have hm := h m (by omega)
    have hm1 := h (m + 1) (by omega)
    rw [iterU_succ'] at hm1 ⊢
    have := (c.ustep hm hm1).2.2.2
    exact ⟨by omega, fun _ => by omega⟩

/-! ### `stemFill`, refined -/

/-- what `stemFill` does, with the written cells listed as main-upstream iterates of the start cell -/
theorem stemFill_spec2 (ds usMain : Array Nat)
    (hus : ∀ i, i < ds.size → usMain[i]! < ds.size → usMain[i]! ≠ i ∧ ds[usMain[i]!]! = i)
    (h : Nat → Int → Bool) (v : Int) :
    ∀ (f idx : Nat) (br r : Array Int), idx < ds.size → br.size = ds.size → br[idx]! = v →
      stemFill usMain ds.size h v f idx br = some r →
      ∃ T : Nat → Prop, T idx ∧ (∀ s, T s → s < ds.size) ∧
        (∀ s, ¬ T s → r[s]! = br[s]!) ∧ (∀ s, T s → r[s]! = v) ∧
        (∀ s, T s → s ≠ idx → ds[s]! ≠ s ∧ T ds[s]! ∧ usMain[ds[s]!]! = s ∧ h s br[s]! = false) ∧
        (∀ c, T c → usMain[c]! < ds.size → T usMain[c]! ∨ h usMain[c]! br[usMain[c]!]! = true) ∧
        (∀ s, T s → ∃ k, s = iterU usMain k idx ∧ ∀ j, j ≤ k → T (iterU usMain j idx)) := by
  intro f
  induction f with
  | zero => intro idx br r _ _ _ hr; simp [stemFill] at hr
  | succ f ih =>
    intro idx br r hidx hsz hv hr
    simp only [stemFill] at hr
    split at hr
    · rename_i hstop
      simp only [Option.some.injEq] at hr
      subst hr
      refine ⟨fun s => s = idx, rfl, fun s hs => hs ▸ hidx, fun _ _ => rfl, fun s hs => hs ▸ hv,
        fun s hs hne => absurd hs hne, fun c hc hlt => ?_, fun s hs => ⟨0, hs, fun j hj => ?_⟩⟩
      · subst hc
        simp only [Bool.or_eq_true, decide_eq_true_eq] at hstop
        rcases hstop with h1 | h1
        · omega
        · exact Or.inr h1
      · have : j = 0 := by omega
        subst this; rfl
    · rename_i hstop
      simp only [Bool.or_eq_true, decide_eq_true_eq, not_or, Bool.not_eq_true] at hstop
      obtain ⟨hlt, hh⟩ := hstop
      have hlt' : usMain[idx]! < ds.size := by omega
      obtain ⟨hne, hds⟩ := hus idx hidx hlt'
      have hset : (br.setIfInBounds usMain[idx]! v)[usMain[idx]!]! = v := by
        rw [get!_setIfInBounds]; simp [hsz, hlt']
      obtain ⟨T', hT0, hTlt, hTout, hTin, hTw, hTc, hTk⟩ :=
        ih usMain[idx]! (br.setIfInBounds usMain[idx]! v) r hlt' (by simp [hsz]) hset hr
      have hother : ∀ s, s ≠ usMain[idx]! → (br.setIfInBounds usMain[idx]! v)[s]! = br[s]! := by
        intro s hs
        rw [get!_setIfInBounds]
        have : ¬ (usMain[idx]! = s ∧ usMain[idx]! < br.size) := fun hc => hs hc.1.symm
        simp [this]
      refine ⟨fun s => s = idx ∨ T' s, Or.inl rfl, ?_, ?_, ?_, ?_, ?_, ?_⟩
      · rintro s (hs | hs)
        · exact hs ▸ hidx
        · exact hTlt s hs
      · intro s hs
        simp only [not_or] at hs
        rw [hTout s hs.2]
        exact hother s (fun hc => hs.2 (hc ▸ hT0))
      · rintro s (hs | hs)
        · by_cases ht : T' s
          · exact hTin s ht
          · rw [hTout s ht, hother s (fun hc => ht (hc ▸ hT0)), hs]; exact hv
        · exact hTin s hs
      · rintro s (hs | hs) hne
        · exact absurd hs hne
        · by_cases hsu : s = usMain[idx]!
          · subst hsu
            exact ⟨by rw [hds]; exact Ne.symm hne, by rw [hds]; exact Or.inl rfl, by rw [hds], hh⟩
          · obtain ⟨h1, h2, h3, h4⟩ := hTw s hs hsu
            exact ⟨h1, Or.inr h2, h3, by rw [← hother s hsu]; exact h4⟩
      · rintro c (hc | hc) hclt
        · subst hc; exact Or.inl (Or.inr hT0)
        · rcases hTc c hc hclt with h1 | h1
          · exact Or.inl (Or.inr h1)
          · by_cases hcu : usMain[c]! = usMain[idx]!
            · rw [hcu]; exact Or.inl (Or.inr hT0)
            · rw [hother _ hcu] at h1; exact Or.inr h1
      · rintro s (hs | hs)
        · exact ⟨0, hs, fun j hj => by
            have : j = 0 := by omega
            subst this; exact Or.inl rfl⟩
        · obtain ⟨k, hk, hkj⟩ := hTk s hs
          refine ⟨k + 1, hk, fun j hj => ?_⟩
          cases j with
          | zero => exact Or.inl rfl
          | succ j => exact Or.inr (hkj j (by omega))

end Pf.C18
