import PfVerif.Proofs.C03Order
/-! Algorithm-level proof for `core.idxs_seq` (`order_cells('walk')`): the breadth-first loop from the
pits through the upstream matrix produces a downstream-first order that lists exactly the cells
draining to a pit. -/
namespace Pf

theorem mem_upsOf (ds : Array Nat) (j u : Nat) :
    u ∈ upsOf ds j ↔ (u < ds.size ∧ ds[u]! = j ∧ u ≠ j ∧ ds[u]! ≠ ds.size) := by
  simp only [upsOf, List.mem_filter, List.mem_range, Bool.and_eq_true, beq_iff_eq, bne_iff_ne, ne_eq]
  constructor
  · rintro ⟨h1, ⟨h2, h3⟩, h4⟩; exact ⟨h1, h2, h3, h4⟩
  · rintro ⟨h1, h2, h3, h4⟩; exact ⟨h1, ⟨h2, h3⟩, h4⟩

theorem upsOf_nodup (ds : Array Nat) (j : Nat) : (upsOf ds j).Nodup :=
  List.Nodup.sublist List.filter_sublist List.nodup_range

/-- invariant of the `while i < idxs_seq.size` loop: `acc` = processed cells (reversed),
`queue` = cells written to `idxs_seq` but not yet processed -/
structure WalkInv (ds : Array Nat) (fuel : Nat) (queue acc : List Nat) : Prop where
  topo : Topo ds acc.reverse
  nodup : (acc.reverse ++ queue).Nodup
  bound : ∀ i ∈ acc.reverse ++ queue, i < ds.size
  qds : ∀ q ∈ queue, ds[q]! = q ∨ ds[q]! ∈ acc
  pits : ∀ p, p < ds.size → ds[p]! = p → p ∈ acc ∨ p ∈ queue
  kids : ∀ x ∈ acc, ∀ u ∈ upsOf ds x, u ∈ acc ∨ u ∈ queue
  fuel : fuel + acc.length = ds.size

theorem WalkInv.step {ds : Array Nat} {fuel q : Nat} {rest acc : List Nat}
    (h : WalkInv ds (fuel+1) (q :: rest) acc) : WalkInv ds fuel (rest ++ upsOf ds q) (q :: acc) := by
  have hnd := h.nodup
  rw [List.nodup_append] at hnd
  obtain ⟨hnd1, hnd2, hnd3⟩ := hnd
  have hq_notin : q ∉ acc := fun hq => hnd3 q (by simpa using hq) q (by simp) rfl
  have hq_notrest : q ∉ rest := by
    rw [List.nodup_cons] at hnd2; exact hnd2.1
  -- a cell draining into q is neither processed nor queued
  have hfresh : ∀ u ∈ upsOf ds q, u ∉ acc ∧ u ∉ q :: rest := by
    intro u hu
    obtain ⟨_, hu2, hu3, _⟩ := (mem_upsOf ds q u).1 hu
    constructor
    · intro hua
      have := h.topo.ds_mem u (by simpa using hua)
      rw [hu2] at this
      exact hq_notin (by simpa using this)
    · intro huq
      rcases h.qds u huq with h1 | h1
      · exact hu3 (by rw [← hu2, h1])
      · rw [hu2] at h1; exact hq_notin h1
  refine ⟨?_, ?_, ?_, ?_, ?_, ?_, ?_⟩
  · rw [List.reverse_cons]
    exact Topo.snoc h.topo (by simpa using hq_notin) (by
      rcases h.qds q (by simp) with h1 | h1
      · exact Or.inl h1
      · exact Or.inr (by simpa using h1))
  · rw [List.reverse_cons, List.append_assoc, List.nodup_append]
    refine ⟨hnd1, ?_, ?_⟩
    · show ([q] ++ (rest ++ upsOf ds q)).Nodup
      rw [← List.append_assoc, List.nodup_append]
      refine ⟨by simpa using hnd2, upsOf_nodup ds q, ?_⟩
      intro a ha b hb hab
      subst hab
      exact (hfresh a hb).2 (by simpa using ha)
    · intro a ha b hb hab
      subst hab
      simp only [List.singleton_append, List.mem_cons, List.mem_append] at hb
      rcases hb with hb | hb | hb
      · exact hnd3 a ha a (by simp [hb]) rfl
      · exact hnd3 a ha a (by simp [hb]) rfl
      · exact (hfresh a hb).1 (by simpa using ha)
  · intro i hi
    simp only [List.reverse_cons, List.mem_append, List.mem_reverse, List.mem_singleton] at hi
    rcases hi with (hi | hi) | hi | hi
    · exact h.bound i (by simp [hi])
    · exact h.bound i (by simp [hi])
    · exact h.bound i (by simp [hi])
    · exact ((mem_upsOf ds q i).1 hi).1
  · intro x hx
    simp only [List.mem_append] at hx
    rcases hx with hx | hx
    · rcases h.qds x (by simp [hx]) with h1 | h1
      · exact Or.inl h1
      · exact Or.inr (by simp [h1])
    · exact Or.inr (by rw [((mem_upsOf ds q x).1 hx).2.1]; simp)
  · intro p hp hpp
    rcases h.pits p hp hpp with h1 | h1
    · exact Or.inl (by simp [h1])
    · simp only [List.mem_cons] at h1
      rcases h1 with h1 | h1
      · exact Or.inl (by simp [h1])
      · exact Or.inr (by simp [h1])
  · intro x hx u hu
    simp only [List.mem_cons] at hx
    rcases hx with hx | hx
    · subst hx; exact Or.inr (by simp [hu])
    · rcases h.kids x hx u hu with h1 | h1
      · exact Or.inl (by simp [h1])
      · simp only [List.mem_cons] at h1
        rcases h1 with h1 | h1
        · exact Or.inl (by simp [h1])
        · exact Or.inr (by simp [h1])
  · have := h.fuel; simp only [List.length_cons]; omega

/-- with the fuel spent, every cell has been processed and nothing can be waiting -/
theorem WalkInv.queue_nil {ds : Array Nat} {queue acc : List Nat} (h : WalkInv ds 0 queue acc) :
    queue = [] := by
  have hlen : (acc.reverse ++ queue).length ≤ (List.range ds.size).length :=
    List.Nodup.length_le_of_subset h.nodup (fun i hi => List.mem_range.2 (h.bound i hi))
  have := h.fuel
  simp only [List.length_append, List.length_reverse, List.length_range] at hlen
  exact List.eq_nil_of_length_eq_zero (by omega)

theorem seqWalkLoop_spec (ds : Array Nat) :
    ∀ (fuel : Nat) (queue acc : List Nat), WalkInv ds fuel queue acc →
      Topo ds (seqWalkLoop ds fuel queue acc) ∧
      (∀ i ∈ seqWalkLoop ds fuel queue acc, i < ds.size) ∧
      (∀ p, p < ds.size → ds[p]! = p → p ∈ seqWalkLoop ds fuel queue acc) ∧
      (∀ x ∈ seqWalkLoop ds fuel queue acc, ∀ u ∈ upsOf ds x, u ∈ seqWalkLoop ds fuel queue acc) := by
  have hdone : ∀ (fuel : Nat) (acc : List Nat), WalkInv ds fuel [] acc →
      Topo ds acc.reverse ∧ (∀ i ∈ acc.reverse, i < ds.size) ∧
      (∀ p, p < ds.size → ds[p]! = p → p ∈ acc.reverse) ∧
      (∀ x ∈ acc.reverse, ∀ u ∈ upsOf ds x, u ∈ acc.reverse) := by
    intro fuel acc h
    refine ⟨h.topo, fun i hi => h.bound i (by simp [hi]), fun p hp hpp => ?_, fun x hx u hu => ?_⟩
    · rcases h.pits p hp hpp with h1 | h1
      · simpa using h1
      · cases h1
    · rcases h.kids x (by simpa using hx) u hu with h1 | h1
      · simpa using h1
      · cases h1
  intro fuel
  induction fuel with
  | zero =>
    intro queue acc h
    have hq := h.queue_nil
    subst hq
    simpa [seqWalkLoop] using hdone 0 acc h
  | succ fuel ih =>
    intro queue acc h
    cases queue with
    | nil => simpa [seqWalkLoop] using hdone _ acc h
    | cons q rest =>
      simp only [seqWalkLoop]
      exact ih _ _ h.step

theorem walkInv_init (ds : Array Nat) : WalkInv ds ds.size (pitIndices ds) [] := by
  have hmem : ∀ p, p ∈ pitIndices ds ↔ (p < ds.size ∧ ds[p]! = p) := by
    intro p; simp [pitIndices]
  refine ⟨Topo.nil, ?_, ?_, ?_, ?_, ?_, by simp⟩
  · simpa [pitIndices] using List.Nodup.sublist List.filter_sublist List.nodup_range
  · intro i hi; exact ((hmem i).1 (by simpa using hi)).1
  · intro q hq; exact Or.inl ((hmem q).1 hq).2
  · intro p hp hpp; exact Or.inr ((hmem p).2 ⟨hp, hpp⟩)
  · intro x hx; cases hx

/-- `order_cells('walk')` is downstream-first, in range, and lists exactly the cells draining to a pit -/
theorem orderWalk_spec (ds : Array Nat) (hwf : WF ds) :
    Topo ds (orderWalk ds) ∧ (∀ i ∈ orderWalk ds, i < ds.size) ∧
    ∀ i, i ∈ orderWalk ds ↔ (Valid ds i ∧ ReachesPit ds i) := by
  obtain ⟨ht, hb, hp, hk⟩ := seqWalkLoop_spec ds ds.size (pitIndices ds) [] (walkInv_init ds)
  refine ⟨ht, hb, fun i => ⟨fun hi => ⟨ht.valid hb i hi, ht.reaches i hi⟩, ?_⟩⟩
  rintro ⟨hv, k, hk'⟩
  refine closed_contains_reaching ds hwf (· ∈ orderWalk ds) (fun j hj hd => ?_) k i hv hk'
  rcases hd with hd | ⟨hd1, hd2⟩
  · exact hp j hj hd
  · by_cases hjp : ds[j]! = j
    · exact hp j hj hjp
    · exact hk _ hd2 j ((mem_upsOf ds _ j).2 ⟨hj, rfl, fun h => hjp h.symm, by omega⟩)

end Pf
