import PfVerif.Model.C14_gvf
/-! Helper lemmas for the extension C14_gvf: the generic kernel of `rivers.rivdph_gvf`
(`Model/C14_gvf.lean`). Core Lean only. -/
namespace Pf.C14g
open Pf

variable {α γ : Type} [Inhabited α]

/-! ### generic list helpers -/

theorem foldl_inv {σ β : Type} (f : σ → β → σ) (I : σ → Prop) (l : List β)
    (h : ∀ s i, i ∈ l → I s → I (f s i)) : ∀ s, I s → I (l.foldl f s) := by
  induction l with
  | nil => intro s hs; exact hs
  | cons x xs ih =>
    intro s hs
    simp only [List.foldl_cons]
    exact ih (fun s i hi => h s i (by simp [hi])) _ (h s x (by simp) hs)

theorem takePad_length {β : Type} : ∀ (k : Nat) (l : List β), (takePad k l).length = k := by
  intro k
  induction k with
  | zero => intro l; rfl
  | succ k ih => intro l; cases l <;> simp [takePad, ih]

theorem takePad_add {β : Type} : ∀ (a b : Nat) (l : List β),
    takePad (a + b) l = takePad a l ++ takePad b (l.drop a) := by
  intro a
  induction a with
  | zero => intro b l; simp [takePad]
  | succ a ih =>
    intro b l
    have h : a + 1 + b = (a + b) + 1 := by omega
    rw [h]
    cases l with
    | nil => simpa [takePad] using ih b []
    | cons x xs => simp [takePad, ih b xs]

theorem takePad_succ_head {β : Type} (k : Nat) (l : List β) :
    takePad (k + 1) l = l.head? :: takePad k l.tail := by
  cases l <;> simp [takePad]

theorem takePad_getElem? {β : Type} : ∀ (k : Nat) (l : List β) (j : Nat),
    (takePad k l)[j]? = if j < k then some l[j]? else none := by
  intro k
  induction k with
  | zero => intro l j; simp [takePad]
  | succ k ih =>
    intro l j
    cases l with
    | nil =>
      cases j with
      | zero => simp [takePad]
      | succ j => simp [takePad, ih [] j]
    | cons x xs =>
      cases j with
      | zero => simp [takePad]
      | succ j => simp [takePad, ih xs j]

theorem takePad_mem {β : Type} : ∀ (k : Nat) (l : List β) (a : β), some a ∈ takePad k l → a ∈ l := by
  intro k
  induction k with
  | zero => intro l a h; simp [takePad] at h
  | succ k ih =>
    intro l a h
    cases l with
    | nil =>
      simp only [takePad, List.mem_cons] at h
      rcases h with h | h
      · cases h
      · exact ih [] a h
    | cons x xs =>
      simp only [takePad, List.mem_cons, Option.some.injEq] at h
      rcases h with h | h
      · simp [h]
      · simp [ih xs a h]

theorem takePad_none_count {β : Type} : ∀ (k : Nat) (l : List β),
    ((takePad k l).filter Option.isNone).length = k - l.length := by
  intro k
  induction k with
  | zero => intro l; simp [takePad]
  | succ k ih =>
    intro l
    cases l with
    | nil => simp [takePad, ih []]
    | cons x xs => simp [takePad, ih xs]

theorem repeatList_length {β : Type} (n : Nat) (l : List β) : (repeatList n l).length = n * l.length := by
  induction n with
  | zero => simp [repeatList]
  | succ n ih => simp [repeatList, ih, Nat.succ_mul]

theorem mem_repeatList {β : Type} (n : Nat) (l : List β) (x : β) : x ∈ repeatList n l → x ∈ l := by
  induction n with
  | zero => intro h; simp [repeatList] at h
  | succ n ih =>
    intro h
    simp only [repeatList, List.mem_append] at h
    rcases h with h | h
    · exact ih h
    · exact h

/-! ### one call -/

/-- everything one call does -/
theorem call_spec (K : Kernel α γ) (ds : Array Nat) (zb : Array α) (s : St α γ) (i : Nat) :
    ∃ e : Ev α γ, (call K ds zb s i).ev = s.ev ++ [e] ∧ e.cell = i ∧ e.h0 = s.out[ds[i]!]! ∧
      e.ext = K.ext zb i ∧ e.ans = s.orc.head? ∧ (call K ds zb s i).orc = s.orc.tail ∧
      e.acc = (match s.orc.head? with | some a => K.accept i s.out[ds[i]!]! a | none => false) ∧
      (call K ds zb s i).out =
        (match s.orc.head? with
         | some a => if K.accept i s.out[ds[i]!]! a then s.out.setIfInBounds i (K.store a.h1) else s.out
         | none => s.out) := by
  unfold call
  cases horc : s.orc with
  | nil => exact ⟨_, rfl, rfl, rfl, rfl, rfl, rfl, rfl, rfl⟩
  | cons a rest =>
    simp only [List.head?_cons, List.tail_cons]
    by_cases hacc : K.accept i s.out[ds[i]!]! a = true
    · rw [if_pos hacc]
      exact ⟨_, rfl, rfl, rfl, rfl, rfl, rfl, hacc.symm, (if_pos hacc).symm⟩
    · have hf : K.accept i s.out[ds[i]!]! a = false := by simpa using hacc
      rw [if_neg hacc]
      exact ⟨_, rfl, rfl, rfl, rfl, rfl, rfl, hf.symm, (if_neg hacc).symm⟩

theorem call_out_size (K : Kernel α γ) (ds : Array Nat) (zb : Array α) (s : St α γ) (i : Nat) :
    (call K ds zb s i).out.size = s.out.size := by
  obtain ⟨e, _, _, _, _, _, _, _, hout⟩ := call_spec K ds zb s i
  rw [hout]
  cases s.orc.head? with
  | none => rfl
  | some a => simp only []; split <;> simp

theorem call_out_ne (K : Kernel α γ) (ds : Array Nat) (zb : Array α) (s : St α γ) (i j : Nat) (h : i ≠ j) :
    (call K ds zb s i).out[j]! = s.out[j]! := by
  obtain ⟨e, _, _, _, _, _, _, _, hout⟩ := call_spec K ds zb s i
  rw [hout]
  cases s.orc.head? with
  | none => rfl
  | some a =>
    simp only []
    split
    · rw [get!_setIfInBounds]; simp [h]
    · rfl

theorem step_out_size (K : Kernel α γ) (ds : Array Nat) (zb : Array α) (s : St α γ) (i : Nat) :
    (step K ds zb s i).out.size = s.out.size := by
  unfold step; split
  · exact call_out_size K ds zb s i
  · rfl

theorem step_out_ne (K : Kernel α γ) (ds : Array Nat) (zb : Array α) (s : St α γ) (i j : Nat) (h : i ≠ j) :
    (step K ds zb s i).out[j]! = s.out[j]! := by
  unfold step; split
  · exact call_out_ne K ds zb s i j h
  · rfl

/-! ### lifting invariants through the loops -/

theorem sweep_snoc (K : Kernel α γ) (ds : Array Nat) (zb : Array α) (pre : List Nat) (i : Nat) (s : St α γ) :
    sweep K ds zb (pre ++ [i]) s = step K ds zb (sweep K ds zb pre s) i := by
  simp [sweep, List.foldl_append]

theorem run_succ (K : Kernel α γ) (ds : Array Nat) (seq : List Nat) (n : Nat) (p : Array α × St α γ) :
    (run K ds seq (n + 1) p).2 = sweep K ds (run K ds seq n p).1 seq (run K ds seq n p).2 := rfl

theorem run_succ_zb (K : Kernel α γ) (ds : Array Nat) (seq : List Nat) (n : Nat) (p : Array α × St α γ) :
    (run K ds seq (n + 1) p).1 = K.mkZb (run K ds seq (n + 1) p).2.out := rfl

/-- an invariant of the loop body (for every `zb`) is an invariant of the whole run -/
theorem run_inv (K : Kernel α γ) (ds : Array Nat) (seq : List Nat) (I : St α γ → Prop)
    (hstep : ∀ zb s i, i ∈ seq → I s → I (step K ds zb s i)) :
    ∀ n p, I p.2 → I (run K ds seq n p).2 := by
  intro n
  induction n with
  | zero => intro p hp; exact hp
  | succ n ih =>
    intro p hp
    rw [run_succ]
    exact foldl_inv _ I seq (hstep _) _ (ih p hp)

/-! ### the calls of one sweep -/

theorem sweep_eq_calls (K : Kernel α γ) (ds : Array Nat) (zb : Array α) (seq : List Nat) (s : St α γ) :
    sweep K ds zb seq s = (callers K ds seq).foldl (call K ds zb) s := by
  unfold sweep callers
  rw [List.foldl_filter]
  rfl

theorem calls_spec (K : Kernel α γ) (ds : Array Nat) (zb : Array α) : ∀ (cs : List Nat) (s : St α γ),
    ∃ new, (cs.foldl (call K ds zb) s).ev = s.ev ++ new ∧ new.map (·.cell) = cs ∧
      new.map (·.ans) = takePad cs.length s.orc ∧ (cs.foldl (call K ds zb) s).orc = s.orc.drop cs.length ∧
      ∀ e ∈ new, e.ext = K.ext zb e.cell := by
  intro cs
  induction cs with
  | nil => intro s; exact ⟨[], by simp, rfl, rfl, by simp, by simp⟩
  | cons c cs ih =>
    intro s
    obtain ⟨e, hev, hcell, _, hext, hans, horc, _, _⟩ := call_spec K ds zb s c
    obtain ⟨new, h1, h2, h3, h4, h5⟩ := ih (call K ds zb s c)
    refine ⟨e :: new, ?_, ?_, ?_, ?_, ?_⟩
    · simp only [List.foldl_cons]; rw [h1, hev]; simp
    · simp [h2, hcell]
    · simp only [List.map_cons, List.length_cons, takePad_succ_head, h3, hans, horc]
    · simp only [List.foldl_cons, List.length_cons]; rw [h4, horc]; simp
    · intro e' he'
      simp only [List.mem_cons] at he'
      rcases he' with rfl | he'
      · rw [hext, hcell]
      · exact h5 e' he'

/-- the calls of one sweep: one per caller, in the order of `seq`, consuming the oracle in step -/
theorem sweep_spec (K : Kernel α γ) (ds : Array Nat) (zb : Array α) (seq : List Nat) (s : St α γ) :
    ∃ new, (sweep K ds zb seq s).ev = s.ev ++ new ∧ new.map (·.cell) = callers K ds seq ∧
      new.map (·.ans) = takePad (callers K ds seq).length s.orc ∧
      (sweep K ds zb seq s).orc = s.orc.drop (callers K ds seq).length ∧
      ∀ e ∈ new, e.ext = K.ext zb e.cell := by
  rw [sweep_eq_calls]
  exact calls_spec K ds zb _ s

/-- the calls of a run -/
theorem run_spec (K : Kernel α γ) (ds : Array Nat) (seq : List Nat) : ∀ (n : Nat) (p : Array α × St α γ),
    ∃ new, (run K ds seq n p).2.ev = p.2.ev ++ new ∧ new.map (·.cell) = repeatList n (callers K ds seq) ∧
      new.map (·.ans) = takePad (n * (callers K ds seq).length) p.2.orc ∧
      (run K ds seq n p).2.orc = p.2.orc.drop (n * (callers K ds seq).length) := by
  intro n
  induction n with
  | zero => intro p; exact ⟨[], by simp [run], rfl, by simp [takePad], by simp [run]⟩
  | succ n ih =>
    intro p
    obtain ⟨new, h1, h2, h3, h4⟩ := ih p
    obtain ⟨nw, g1, g2, g3, g4, _⟩ := sweep_spec K ds (run K ds seq n p).1 seq (run K ds seq n p).2
    refine ⟨new ++ nw, ?_, ?_, ?_, ?_⟩
    · rw [run_succ, g1, h1]; simp
    · simp [repeatList, h2, g2]
    · rw [Nat.succ_mul, takePad_add, List.map_append, h3, g3, h4]
    · rw [run_succ, g4, h4, List.drop_drop, Nat.succ_mul]

/-! ### last accepted call -/

omit [Inhabited α] in
theorem lastAcc_snoc (evs : List (Ev α γ)) (e : Ev α γ) (i : Nat) :
    lastAcc (evs ++ [e]) i = if (e.acc && e.cell == i) = true then some e else lastAcc evs i := by
  simp [lastAcc, List.find?_cons]
  split <;> simp_all

theorem valueAfter_nil (K : Kernel α γ) (init : Array α) (i : Nat) :
    valueAfter K init ([] : List (Ev α γ)) i = init[i]! := by
  simp [valueAfter, lastAcc]

end Pf.C14g
