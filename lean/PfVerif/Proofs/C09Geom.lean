import PfVerif.Proofs.C09Arith
import PfVerif.Proofs.C09Trace
/-! Discrete geometry behind "a coarse link joins 8-neighbours" (C09): a flow path that starts in coarse cell
`(R0, C0)` and only visits pixels that lie in that cell or off the centre cross of their own cell stays between the
centre lines of the neighbouring cells. One axis at a time, in doubled coordinates (`2x+1` = pixel centre).
Core Lean only. -/
namespace Pf

/-- the pixel coordinate `x` lies between the centre lines of the cells before and after the cell that starts at
`t = R0 * cs` (inclusive): `(2 R0 - 1) cs ≤ 2x+1 ≤ (2 R0 + 3) cs` -/
def NearAx (cs t x : Nat) : Prop := 2 * t ≤ 2 * x + 1 + cs ∧ 2 * x + 1 ≤ 2 * t + 3 * cs

/-- `x` is on the centre line of its own cell: `|x % cs - (cs/2 - 0.5)| ≤ 0.5` (the `ri <= 0.5` clause of
`effective_area`) -/
def CentreAx (cs x : Nat) : Prop := cs ≤ 2 * (x % cs) + 2 ∧ 2 * (x % cs) ≤ cs

/-- one D8 step along one axis -/
def StepAx (x x' : Nat) : Prop := x' ≤ x + 1 ∧ x ≤ x' + 1

theorem div_mod_of_bounds (x cs q : Nat) (h1 : q * cs ≤ x) (h2 : x < q * cs + cs) :
    x / cs = q ∧ x % cs = x - q * cs := by
  have hd : x / cs = q := Nat.div_eq_of_lt_le h1 (by rw [Nat.succ_mul]; exact h2)
  have := Nat.div_add_mod x cs
  rw [hd, Nat.mul_comm] at this
  exact ⟨hd, by omega⟩

/-- the three cells a near coordinate can lie in -/
theorem near_cases (cs R0 x : Nat) (hcs : 0 < cs) (h : NearAx cs (R0 * cs) x) :
    (1 ≤ R0 ∧ (R0 - 1) * cs ≤ x ∧ x < (R0 - 1) * cs + cs ∧ (R0 - 1) * cs + cs = R0 * cs) ∨
    (R0 * cs ≤ x ∧ x < R0 * cs + cs) ∨
    ((R0 + 1) * cs ≤ x ∧ x < (R0 + 1) * cs + cs ∧ (R0 + 1) * cs = R0 * cs + cs) := by
  obtain ⟨h1, h2⟩ := h
  have e1 : (R0 + 1) * cs = R0 * cs + cs := Nat.succ_mul R0 cs
  by_cases ha : x < R0 * cs
  · left
    have hR : 1 ≤ R0 := by
      rcases Nat.eq_zero_or_pos R0 with h0 | h0
      · subst h0; simp at ha
      · exact h0
    have e2 : (R0 - 1) * cs + cs = R0 * cs := by
      have := Nat.succ_mul (R0 - 1) cs
      rw [show (R0 - 1).succ = R0 by omega] at this
      exact this.symm
    exact ⟨hR, by omega, by omega, e2⟩
  · by_cases hb : x < R0 * cs + cs
    · right; left; exact ⟨by omega, hb⟩
    · right; right; exact ⟨by omega, by omega, e1⟩

/-- a near coordinate lies in the cell itself or a neighbouring one -/
theorem near_cell (cs R0 x : Nat) (hcs : 0 < cs) (h : NearAx cs (R0 * cs) x) :
    x / cs ≤ R0 + 1 ∧ R0 ≤ x / cs + 1 := by
  rcases near_cases cs R0 x hcs h with ⟨hR, a, b, _⟩ | ⟨a, b⟩ | ⟨a, b, _⟩
  · have := (div_mod_of_bounds x cs (R0 - 1) a b).1; omega
  · have := (div_mod_of_bounds x cs R0 a b).1; omega
  · have := (div_mod_of_bounds x cs (R0 + 1) a b).1; omega

theorem near_of_cell (cs R0 x : Nat) (hcs : 0 < cs) (h : x / cs = R0) : NearAx cs (R0 * cs) x := by
  have h1 := Nat.div_add_mod x cs
  have h2 := Nat.mod_lt x hcs
  rw [h, Nat.mul_comm] at h1
  unfold NearAx; omega

/-- **the centre line cannot be jumped**: from a near coordinate that lies in the start cell or off the centre line
of its own cell, one D8 step leads to a near coordinate -/
theorem near_step (cs R0 x x' : Nat) (hcs : 0 < cs) (h : NearAx cs (R0 * cs) x)
    (hg : x / cs = R0 ∨ ¬ CentreAx cs x) (hs : StepAx x x') : NearAx cs (R0 * cs) x' := by
  obtain ⟨s1, s2⟩ := hs
  rcases near_cases cs R0 x hcs h with ⟨hR, a, b, e⟩ | ⟨a, b⟩ | ⟨a, b, e⟩
  · obtain ⟨hd, hm⟩ := div_mod_of_bounds x cs (R0 - 1) a b
    have hnc : ¬ CentreAx cs x := by
      rcases hg with hg | hg
      · omega
      · exact hg
    unfold CentreAx at hnc
    rw [hm] at hnc
    obtain ⟨n1, n2⟩ := h
    unfold NearAx
    omega
  · unfold NearAx; omega
  · obtain ⟨hd, hm⟩ := div_mod_of_bounds x cs (R0 + 1) a b
    have hnc : ¬ CentreAx cs x := by
      rcases hg with hg | hg
      · omega
      · exact hg
    unfold CentreAx at hnc
    rw [hm] at hnc
    obtain ⟨n1, n2⟩ := h
    unfold NearAx
    omega

/-! ### two axes -/

/-- pixel `p` is near coarse cell `idx0` on both axes -/
def Near2 (g : Geo) (idx0 p : Nat) : Prop :=
  NearAx g.cs ((idx0 / g.ncol) * g.cs) (p / g.subncol) ∧ NearAx g.cs ((idx0 % g.ncol) * g.cs) (p % g.subncol)

/-- pixel `p` lies, on each axis, in the band of `idx0` or off the centre line of its own cell -/
def Good2 (g : Geo) (idx0 p : Nat) : Prop :=
  ((p / g.subncol) / g.cs = idx0 / g.ncol ∨ ¬ CentreAx g.cs (p / g.subncol)) ∧
  ((p % g.subncol) / g.cs = idx0 % g.ncol ∨ ¬ CentreAx g.cs (p % g.subncol))

/-- the fine network links 8-neighbours (`in_d8` on pixel indices) -/
def FineD8 (ds : Array Nat) (subncol : Nat) : Prop :=
  ∀ p, p < ds.size → ds[p]! ≠ ds.size → inD8 p ds[p]! subncol = true

/-- the effective-area map contains the centre cross of every coarse cell (the `ri <= 0.5 or ci <= 0.5` clause of
`effective_area`, exact in floating point) -/
def EaCross (g : Geo) (ea : Array Bool) (n : Nat) : Prop :=
  ∀ p, p < n → (CentreAx g.cs (p / g.subncol) ∨ CentreAx g.cs (p % g.subncol)) → ea[p]! = true

theorem absDiff_le_one (a b : Nat) : absDiff a b ≤ 1 ↔ a ≤ b + 1 ∧ b ≤ a + 1 := by
  unfold absDiff; omega

theorem inD8_iff (i j ncol : Nat) :
    inD8 i j ncol = true ↔ StepAx (i % ncol) (j % ncol) ∧ StepAx (i / ncol) (j / ncol) := by
  simp only [inD8, Bool.and_eq_true, decide_eq_true_eq, absDiff_le_one, StepAx]

theorem near2_of_cell (g : Geo) (ds : Array Nat) (hg : g.OK ds) (idx0 p : Nat) (hp : p < ds.size)
    (hc : g.cell p = idx0) : Near2 g idx0 p ∧ Good2 g idx0 p := by
  have hr := g.cell_row ds hg p hp
  have hcol := g.cell_col ds hg p hp
  rw [hc] at hr hcol
  exact ⟨⟨near_of_cell _ _ _ hg.cs hr.symm, near_of_cell _ _ _ hg.cs hcol.symm⟩, Or.inl hr.symm, Or.inl hcol.symm⟩

theorem near2_step (g : Geo) (idx0 p p1 : Nat) (hcs : 0 < g.cs) (hn : Near2 g idx0 p) (hgd : Good2 g idx0 p)
    (hd8 : inD8 p p1 g.subncol = true) : Near2 g idx0 p1 := by
  obtain ⟨s1, s2⟩ := (inD8_iff _ _ _).mp hd8
  exact ⟨near_step _ _ _ _ hcs hn.1 hgd.1 s2, near_step _ _ _ _ hcs hn.2 hgd.2 s1⟩

/-- a near pixel lies in a coarse cell of the 3×3 neighbourhood of `idx0` -/
theorem near2_inD8 (g : Geo) (ds : Array Nat) (hg : g.OK ds) (idx0 q : Nat) (hq : q < ds.size)
    (hn : Near2 g idx0 q) : inD8 idx0 (g.cell q) g.ncol = true := by
  rw [inD8_iff, g.cell_row ds hg q hq, g.cell_col ds hg q hq]
  have a := near_cell _ _ _ hg.cs hn.1
  have b := near_cell _ _ _ hg.cs hn.2
  unfold StepAx; omega

theorem good2_of_not_ea (g : Geo) (ea : Array Bool) (n idx0 p : Nat) (hea : EaCross g ea n) (hp : p < n)
    (h : ¬ ea[p]! = true) : Good2 g idx0 p :=
  ⟨Or.inr (fun hc => h (hea p hp (Or.inl hc))), Or.inr (fun hc => h (hea p hp (Or.inr hc)))⟩

end Pf
