import PfVerif.Model.C02
import PfVerif.Proofs.C01
/-! Lemmas for C02: characterisation of the `to_array` loops, finite table checks. -/
namespace Pf.Fd
open Pf Spec

/-- index into the flattened 3×3 `_ds` table -/
def tabIdx (dr dc : Int) : Nat := ((dr + 1) * 3 + (dc + 1)).toNat

/-- what the `to_array` loop of a table format writes at cell `i` (`none`: it raises) -/
def encCell (tab : Array Nat) (ncol : Nat) (ds : Array Nat) (old : Nat) (i : Nat) : Option Nat :=
  if ds[i]! = ds.size then some old
  else if in8 (drOf ncol i ds[i]!) (dcOf ncol i ds[i]!) then
    some tab[tabIdx (drOf ncol i ds[i]!) (dcOf ncol i ds[i]!)]!
  else none

theorem toArrayLoop_ok (tab : Array Nat) (ncol : Nat) (ds : Array Nat) :
    ∀ (l : List Nat) (flw : Array Nat), l.Nodup → (∀ i ∈ l, i < flw.size) →
      (∀ i ∈ l, (encCell tab ncol ds flw[i]! i).isSome = true) →
      ∃ out, toArrayLoop tab ncol ds l flw = .ok out ∧ out.size = flw.size ∧
        (∀ i ∈ l, some out[i]! = encCell tab ncol ds flw[i]! i) ∧ (∀ i, i ∉ l → out[i]! = flw[i]!) := by
  intro l
  induction l with
  | nil => intro flw _ _ _; exact ⟨flw, rfl, rfl, by simp, by simp⟩
  | cons idx0 rest ih =>
    intro flw hnd hlt hok
    have hnd' := (List.nodup_cons.1 hnd)
    have h0 := hok idx0 (by simp)
    unfold toArrayLoop
    by_cases hmv : ds[idx0]! = ds.size
    · simp only [hmv, if_true]
      obtain ⟨out, e1, e2, e3, e4⟩ := ih flw hnd'.2 (fun i hi => hlt i (by simp [hi])) (fun i hi => hok i (by simp [hi]))
      refine ⟨out, e1, e2, ?_, fun i hi => e4 i (by simp at hi; exact hi.2)⟩
      intro i hi
      rcases List.mem_cons.1 hi with rfl | hi
      · rw [e4 i hnd'.1]; simp [encCell, hmv]
      · exact e3 i hi
    · simp only [hmv, if_false]
      have hin : in8 (drOf ncol idx0 ds[idx0]!) (dcOf ncol idx0 ds[idx0]!) = true := by
        cases hh : in8 (drOf ncol idx0 ds[idx0]!) (dcOf ncol idx0 ds[idx0]!) with
        | true => rfl
        | false => simp [encCell, hmv, hh] at h0
      simp only [hin, if_true]
      have hsz : idx0 < flw.size := hlt idx0 (by simp)
      obtain ⟨out, e1, e2, e3, e4⟩ := ih (flw.setIfInBounds idx0 tab[tabIdx (drOf ncol idx0 ds[idx0]!) (dcOf ncol idx0 ds[idx0]!)]!)
        hnd'.2 (fun i hi => by simpa using hlt i (by simp [hi]))
        (fun i hi => by
          have hne : idx0 ≠ i := fun e => hnd'.1 (e ▸ hi)
          rw [get!_setIfInBounds]; simp only [hne, false_and, if_false]; exact hok i (by simp [hi]))
      refine ⟨out, e1, by simpa using e2, ?_, ?_⟩
      · intro i hi
        rcases List.mem_cons.1 hi with rfl | hi
        · rw [e4 i hnd'.1, get!_setIfInBounds]; simp [encCell, hmv, hin, hsz, tabIdx]
        · have hne : idx0 ≠ i := fun e => hnd'.1 (e ▸ hi)
          have := e3 i hi
          rw [get!_setIfInBounds] at this
          simpa [hne] using this
      · intro i hi
        have hne : idx0 ≠ i := fun e => hi (by simp [e])
        rw [e4 i (fun h => hi (by simp [h])), get!_setIfInBounds]
        simp [hne]

theorem toArrayLoop_err (tab : Array Nat) (ncol : Nat) (ds : Array Nat) :
    ∀ (l : List Nat) (flw : Array Nat), (∃ i ∈ l, ds[i]! ≠ ds.size ∧ in8 (drOf ncol i ds[i]!) (dcOf ncol i ds[i]!) = false) →
      toArrayLoop tab ncol ds l flw = .error "ValueError" := by
  intro l
  induction l with
  | nil => intro flw ⟨i, hi, _⟩; simp at hi
  | cons idx0 rest ih =>
    intro flw ⟨i, hi, hne, hbad⟩
    unfold toArrayLoop
    by_cases hmv : ds[idx0]! = ds.size
    · simp only [hmv, if_true]
      rcases List.mem_cons.1 hi with rfl | hi'
      · exact absurd hmv hne
      · exact ih flw ⟨i, hi', hne, hbad⟩
    · simp only [hmv, if_false]
      by_cases hin : in8 (drOf ncol idx0 ds[idx0]!) (dcOf ncol idx0 ds[idx0]!) = true
      · simp only [hin, if_true]
        rcases List.mem_cons.1 hi with rfl | hi'
        · rw [hin] at hbad; cases hbad
        · exact ih _ ⟨i, hi', hne, hbad⟩
      · simp [hin]

/-- `to_array` of a table format succeeds iff every link joins 8-neighbours, and then writes cell by cell -/
theorem toArrayTab_ok (tab : Array Nat) (mv ncol : Nat) (ds : Array Nat)
    (h : ∀ i, i < ds.size → ds[i]! ≠ ds.size → in8 (drOf ncol i ds[i]!) (dcOf ncol i ds[i]!) = true) :
    ∃ out, toArrayTab tab mv ncol ds = .ok out ∧ out.size = ds.size ∧
      ∀ i, i < ds.size → out[i]! = if ds[i]! = ds.size then mv
        else tab[tabIdx (drOf ncol i ds[i]!) (dcOf ncol i ds[i]!)]! := by
  obtain ⟨out, e1, e2, e3, _⟩ := toArrayLoop_ok tab ncol ds (List.range ds.size) (Array.replicate ds.size mv)
    List.nodup_range (fun i hi => by simpa using hi)
    (fun i hi => by
      have hi' : i < ds.size := by simpa using hi
      by_cases hmv : ds[i]! = ds.size
      · simp [encCell, hmv]
      · simp [encCell, hmv, h i hi' hmv])
  refine ⟨out, e1, by simpa using e2, ?_⟩
  intro i hi
  have := e3 i (by simpa using hi)
  by_cases hmv : ds[i]! = ds.size
  · rw [encCell, if_pos hmv] at this
    injection this with this
    rw [if_pos hmv, this]; simp [hi]
  · rw [encCell, if_neg hmv, if_pos (h i hi hmv)] at this
    injection this with this
    rw [if_neg hmv, this]

/-! ### finite table checks -/

/-- decidable check that the 3×3 `_ds` table inverts the compass table: the entry for a delta is a legal
code other than nodata, a pit code exactly for delta (0,0), and otherwise the code of that delta -/
def encOK (tab : Array Nat) (dirs : List (Nat × (Int × Int))) (pits : List Nat) (mv : Nat) : Bool :=
  [(-1 : Int), 0, 1].all fun dr => [(-1 : Int), 0, 1].all fun dc =>
    let v := tab[tabIdx dr dc]!
    v != mv && (alphabet dirs pits mv).contains v &&
    (if dr = 0 ∧ dc = 0 then pits.contains v else !pits.contains v && dirs.lookup v == some (dr, dc))

theorem encOK_spec {tab : Array Nat} {dirs : List (Nat × (Int × Int))} {pits : List Nat} {mv : Nat}
    (h : encOK tab dirs pits mv = true) (dr dc : Int) (hin : in8 dr dc = true) :
    tab[tabIdx dr dc]! ≠ mv ∧ tab[tabIdx dr dc]! ∈ alphabet dirs pits mv ∧
    (dr = 0 ∧ dc = 0 → tab[tabIdx dr dc]! ∈ pits) ∧
    (¬ (dr = 0 ∧ dc = 0) → tab[tabIdx dr dc]! ∉ pits ∧ dirs.lookup tab[tabIdx dr dc]! = some (dr, dc)) := by
  simp only [in8, Bool.and_eq_true, decide_eq_true_eq] at hin
  have hdr : dr ∈ [(-1 : Int), 0, 1] := by simp; omega
  have hdc : dc ∈ [(-1 : Int), 0, 1] := by simp; omega
  have := List.all_eq_true.1 (List.all_eq_true.1 h dr hdr) dc hdc
  simp only [Bool.and_eq_true, bne_iff_ne, ne_eq, List.contains_iff_mem] at this
  obtain ⟨⟨h1, h2⟩, h3⟩ := this
  refine ⟨h1, h2, ?_, ?_⟩
  · intro h0; rw [if_pos h0] at h3; simpa using h3
  · intro h0; rw [if_neg h0] at h3
    simp only [Bool.and_eq_true, Bool.not_eq_true', beq_iff_eq] at h3
    refine ⟨?_, h3.2⟩
    have := h3.1
    intro hm
    have : pits.contains tab[tabIdx dr dc]! = true := by simpa using hm
    rw [this] at h3; simp at h3

/-- decidable check used for the canonical form: every direction code of the compass table has a delta in
the 8-neighbourhood other than (0,0), and the `_ds` table holds that code at that delta -/
def canonOK (tab : Array Nat) (dirs : List (Nat × (Int × Int))) (pits : List Nat) (mv pit0 : Nat) : Bool :=
  tab[tabIdx 0 0]! == pit0 &&
  (alphabet dirs pits mv).all fun v =>
    match dirs.lookup v with
    | some d => in8 d.1 d.2 && tab[tabIdx d.1 d.2]! == v && d != (0, 0)
    | none => true

/-! ### row / column facts -/

theorem div_lt_of_lt {nrow ncol j : Nat} (h : j < nrow * ncol) : j / ncol < nrow ∧ j % ncol < ncol := by
  have hpos : 0 < ncol := by
    cases ncol with
    | zero => simp at h
    | succ k => exact Nat.succ_pos k
  exact ⟨(Nat.div_lt_iff_lt_mul hpos).2 h, Nat.mod_lt _ hpos⟩

theorem cellIdx_rowcol (ncol j : Nat) : cellIdx ncol ((j / ncol : Nat) : Int) ((j % ncol : Nat) : Int) = j := by
  simp only [cellIdx, Int.toNat_natCast]
  rw [Nat.mul_comm]
  exact Nat.div_add_mod j ncol

theorem inRaster_rowcol {nrow ncol j : Nat} (h : j < nrow * ncol) :
    inRaster nrow ncol ((j / ncol : Nat) : Int) ((j % ncol : Nat) : Int) = true := by
  obtain ⟨h1, h2⟩ := div_lt_of_lt h
  rw [inRaster_iff]
  generalize j / ncol = a at *
  generalize j % ncol = b at *
  omega

theorem eq_of_rowcol_eq {ncol i j : Nat} (h1 : drOf ncol i j = 0) (h2 : dcOf ncol i j = 0) : j = i := by
  unfold drOf at h1
  unfold dcOf at h2
  have e1 : j / ncol = i / ncol := by omega
  have e2 : j % ncol = i % ncol := by omega
  rw [← Nat.div_add_mod j ncol, ← Nat.div_add_mod i ncol, e1, e2]

theorem mv_mem_alphabet (dirs : List (Nat × (Int × Int))) (pits : List Nat) (mv : Nat) :
    mv ∈ alphabet dirs pits mv := by simp [alphabet]

/-- reading of a cell of a table raster from the cell's code alone -/
theorem readTab_of_code (dirs : List (Nat × (Int × Int))) (pits : List Nat) (mv ncol : Nat) (codes : Array Nat) (i : Nat) :
    (codes[i]! = mv → readTab dirs pits mv ncol codes i = .nodata) ∧
    (codes[i]! ≠ mv → codes[i]! ∈ pits → readTab dirs pits mv ncol codes i = .pit) ∧
    (∀ d, codes[i]! ≠ mv → codes[i]! ∉ pits → dirs.lookup codes[i]! = some d →
      readTab dirs pits mv ncol codes i = .to ((i / ncol : Nat) + d.1) ((i % ncol : Nat) + d.2)) := by
  refine ⟨fun h => by simp [readTab, h], fun h1 h2 => by simp [readTab, h1, h2], fun d h1 h2 h3 => ?_⟩
  simp [readTab, h1, h2, h3]

/-- **round trip, table formats**: exporting a raster network whose links join 8-neighbours writes a legal
raster whose declarative graph is the network itself -/
theorem tab_roundtrip {tab : Array Nat} {dirs : List (Nat × (Int × Int))} {pits : List Nat} {mv : Nat}
    (henc : encOK tab dirs pits mv = true) (nrow ncol : Nat) (ds : Array Nat)
    (hnet : RasterNet nrow ncol ds) (hl : D8links ncol ds) :
    ∃ codes, toArrayTab tab mv ncol ds = .ok codes ∧ codes.size = nrow * ncol ∧
      (∀ i, i < nrow * ncol → codes[i]! ∈ alphabet dirs pits mv) ∧
      graph nrow ncol (readTab dirs pits mv ncol codes) = ds := by
  have hsz := hnet.size
  have h8 : ∀ i, i < ds.size → ds[i]! ≠ ds.size → in8 (drOf ncol i ds[i]!) (dcOf ncol i ds[i]!) = true := by
    intro i hi hne
    have hle := (hnet.closed i (by omega)).1
    have := hl i hi (by omega)
    simp only [in8, Bool.and_eq_true, decide_eq_true_eq]
    omega
  obtain ⟨codes, e1, e2, e3⟩ := toArrayTab_ok tab mv ncol ds h8
  have hlegal : ∀ i, i < nrow * ncol → codes[i]! ∈ alphabet dirs pits mv := by
    intro i hi
    rw [e3 i (by omega)]
    by_cases hmv : ds[i]! = ds.size
    · rw [if_pos hmv]; exact mv_mem_alphabet dirs pits mv
    · rw [if_neg hmv]; exact (encOK_spec henc _ _ (h8 i (by omega) hmv)).2.1
  have hnd : ∀ j, j < nrow * ncol → (readTab dirs pits mv ncol codes j = .nodata ↔ ds[j]! = nrow * ncol) := by
    intro j hj
    have hc := e3 j (by omega)
    obtain ⟨r1, r2, r3⟩ := readTab_of_code dirs pits mv ncol codes j
    by_cases hmv : ds[j]! = ds.size
    · rw [if_pos hmv] at hc
      exact ⟨fun _ => by omega, fun _ => r1 hc⟩
    · rw [if_neg hmv] at hc
      obtain ⟨f1, _, f3, f4⟩ := encOK_spec henc _ _ (h8 j (by omega) hmv)
      rw [← hc] at f1 f3 f4
      constructor
      · intro hr
        by_cases h0 : drOf ncol j ds[j]! = 0 ∧ dcOf ncol j ds[j]! = 0
        · rw [r2 f1 (f3 h0)] at hr; cases hr
        · rw [r3 _ f1 (f4 h0).1 (f4 h0).2] at hr; cases hr
      · intro h; exact absurd (by omega) hmv
  refine ⟨codes, e1, by omega, hlegal, ?_⟩
  apply array_ext_get! (by rw [graph_size, hsz])
  intro i hi
  rw [graph_size] at hi
  rw [graph_get _ _ _ _ hi]
  have hc := e3 i (by omega)
  obtain ⟨r1, r2, r3⟩ := readTab_of_code dirs pits mv ncol codes i
  by_cases hmv : ds[i]! = ds.size
  · rw [if_pos hmv] at hc
    simp [dsOf, r1 hc, hmv, hsz]
  · rw [if_neg hmv] at hc
    have hjlt : ds[i]! < nrow * ncol := by have := (hnet.closed i hi).1; omega
    obtain ⟨f1, _, f3, f4⟩ := encOK_spec henc _ _ (h8 i (by omega) hmv)
    rw [← hc] at f1 f3 f4
    by_cases h0 : drOf ncol i ds[i]! = 0 ∧ dcOf ncol i ds[i]! = 0
    · simp [dsOf, r2 f1 (f3 h0)]
      exact (eq_of_rowcol_eq h0.1 h0.2).symm
    · have hr := r3 _ f1 (f4 h0).1 (f4 h0).2
      have e1' : ((i / ncol : Nat) : Int) + drOf ncol i ds[i]! = ((ds[i]! / ncol : Nat) : Int) := by
        unfold drOf; omega
      have e2' : ((i % ncol : Nat) : Int) + dcOf ncol i ds[i]! = ((ds[i]! % ncol : Nat) : Int) := by
        unfold dcOf; omega
      rw [e1', e2'] at hr
      have hvalid : readTab dirs pits mv ncol codes ds[i]! ≠ .nodata := by
        intro h
        have := (hnd _ hjlt).1 h
        have := (hnet.closed i hi).2 hjlt
        omega
      unfold dsOf
      rw [hr]
      dsimp only
      rw [inRaster_rowcol hjlt, cellIdx_rowcol]
      simp [hvalid]

/-! ### NEXTXY export -/

def xyCellX (ncol : Nat) (ds : Array Nat) (i : Nat) : Int :=
  if ds[i]! = ds.size then xyMv else if i = ds[i]! then xyPv0 else ((ds[i]! % ncol : Nat) : Int) + 1
def xyCellY (ncol : Nat) (ds : Array Nat) (i : Nat) : Int :=
  if ds[i]! = ds.size then xyMv else if i = ds[i]! then xyPv0 else ((ds[i]! / ncol : Nat) : Int) + 1

theorem toArrayXY_inv (ncol : Nat) (ds : Array Nat) :
    ∀ k, k ≤ ds.size →
      let st := (List.range k).foldl (toXYStep ncol ds) (Array.replicate ds.size xyMv, Array.replicate ds.size xyMv)
      st.1.size = ds.size ∧ st.2.size = ds.size ∧
      (∀ i, i < k → st.1[i]! = xyCellX ncol ds i ∧ st.2[i]! = xyCellY ncol ds i) ∧
      (∀ i, k ≤ i → i < ds.size → st.1[i]! = xyMv ∧ st.2[i]! = xyMv) := by
  intro k
  induction k with
  | zero =>
    intro _
    refine ⟨by simp, by simp, fun i hi => absurd hi (Nat.not_lt_zero i), fun i _ hi => by simp [hi]⟩
  | succ k ih =>
    intro hk
    have ih := ih (Nat.le_of_succ_le hk)
    have hkn : k < ds.size := hk
    rw [List.range_succ, List.foldl_append]
    generalize (List.range k).foldl (toXYStep ncol ds) (Array.replicate ds.size xyMv, Array.replicate ds.size xyMv) = st at ih
    simp only [List.foldl_cons, List.foldl_nil]
    obtain ⟨s1, s2, hlo, hhi⟩ := ih
    unfold toXYStep
    by_cases hmv : ds[k]! = ds.size
    · simp only [hmv, if_true]
      refine ⟨s1, s2, ?_, fun i h1 h2 => hhi i (by omega) h2⟩
      intro i hi
      by_cases hik : i = k
      · subst hik
        have := hhi i (Nat.le_refl _) hkn
        simp [xyCellX, xyCellY, hmv, this]
      · exact hlo i (by omega)
    · simp only [hmv, if_false]
      by_cases hp : k = ds[k]!
      · simp only [hp.symm, if_true]
        refine ⟨by simpa using s1, by simpa using s2, ?_, ?_⟩
        · intro i hi
          rw [get!_setIfInBounds, get!_setIfInBounds]
          by_cases hik : k = i
          · subst hik
            rw [if_pos ⟨rfl, by omega⟩, if_pos ⟨rfl, by omega⟩]
            unfold xyCellX xyCellY
            rw [if_neg hmv, if_pos hp, if_neg hmv, if_pos hp]
            exact ⟨rfl, rfl⟩
          · simp only [hik, false_and, if_false]; exact hlo i (by omega)
        · intro i h1 h2
          rw [get!_setIfInBounds, get!_setIfInBounds]
          have : k ≠ i := by omega
          simp only [this, false_and, if_false]; exact hhi i (by omega) h2
      · simp only [hp, if_false]
        refine ⟨by simpa using s1, by simpa using s2, ?_, ?_⟩
        · intro i hi
          rw [get!_setIfInBounds, get!_setIfInBounds]
          by_cases hik : k = i
          · subst hik
            rw [if_pos ⟨rfl, by omega⟩, if_pos ⟨rfl, by omega⟩]
            unfold xyCellX xyCellY
            rw [if_neg hmv, if_neg hp, if_neg hmv, if_neg hp]
            exact ⟨rfl, rfl⟩
          · simp only [hik, false_and, if_false]; exact hlo i (by omega)
        · intro i h1 h2
          rw [get!_setIfInBounds, get!_setIfInBounds]
          have : k ≠ i := by omega
          simp only [this, false_and, if_false]; exact hhi i (by omega) h2

theorem toArrayXY_get (ncol : Nat) (ds : Array Nat) :
    (toArrayXY ncol ds).1.size = ds.size ∧ (toArrayXY ncol ds).2.size = ds.size ∧
    ∀ i, i < ds.size → (toArrayXY ncol ds).1[i]! = xyCellX ncol ds i ∧ (toArrayXY ncol ds).2[i]! = xyCellY ncol ds i := by
  obtain ⟨h1, h2, h3, _⟩ := toArrayXY_inv ncol ds ds.size (Nat.le_refl _)
  exact ⟨h1, h2, h3⟩

/-- **round trip, NEXTXY**: the declarative graph of the NEXTXY export of a raster network is the network
(no condition on the links) -/
theorem xy_roundtrip (nrow ncol : Nat) (ds : Array Nat) (hnet : RasterNet nrow ncol ds) :
    graph nrow ncol (readXY (toArrayXY ncol ds).1 (toArrayXY ncol ds).2) = ds := by
  have hsz := hnet.size
  obtain ⟨_, _, hget⟩ := toArrayXY_get ncol ds
  have hnd : ∀ j, j < nrow * ncol →
      (readXY (toArrayXY ncol ds).1 (toArrayXY ncol ds).2 j = .nodata ↔ ds[j]! = nrow * ncol) := by
    intro j hj
    obtain ⟨hx, _⟩ := hget j (by omega)
    unfold readXY
    rw [hx]
    unfold xyCellX
    by_cases hmv : ds[j]! = ds.size
    · simp [hmv, xyMv, xyNodata, hsz]
    · rw [if_neg hmv]
      have hne : ¬ ds[j]! = nrow * ncol := by omega
      by_cases hp : j = ds[j]!
      · rw [if_pos hp]; simp [xyPv0, xyNodata, xyPits, hne]
      · rw [if_neg hp]
        have h1 : ¬ (((ds[j]! % ncol : Nat) : Int) + 1 = xyNodata) := by simp [xyNodata]; omega
        have h2 : ¬ (((ds[j]! % ncol : Nat) : Int) + 1 ∈ xyPits) := by simp [xyPits]; omega
        rw [if_neg h1, if_neg h2]
        exact ⟨fun h => (by cases h), fun h => absurd h hne⟩
  apply array_ext_get! (by rw [graph_size, hsz])
  intro i hi
  rw [graph_size] at hi
  rw [graph_get _ _ _ _ hi]
  obtain ⟨hx, hy⟩ := hget i (by omega)
  by_cases hmv : ds[i]! = ds.size
  · have := (hnd i hi).2 (by omega)
    simp [dsOf, this, hmv, hsz]
  · have hjlt : ds[i]! < nrow * ncol := by have := (hnet.closed i hi).1; omega
    by_cases hp : i = ds[i]!
    · have hr : readXY (toArrayXY ncol ds).1 (toArrayXY ncol ds).2 i = .pit := by
        unfold readXY
        rw [hx]
        unfold xyCellX
        rw [if_neg hmv, if_pos hp]
        simp [xyPv0, xyNodata, xyPits]
      simp [dsOf, hr, ← hp]
    · have hr : readXY (toArrayXY ncol ds).1 (toArrayXY ncol ds).2 i =
          .to ((ds[i]! / ncol : Nat) : Int) ((ds[i]! % ncol : Nat) : Int) := by
        unfold readXY
        rw [hx, hy]
        unfold xyCellX xyCellY
        rw [if_neg hmv, if_neg hp, if_neg hmv, if_neg hp]
        have h1 : ¬ (((ds[i]! % ncol : Nat) : Int) + 1 = xyNodata) := by simp [xyNodata]; omega
        have h2 : ¬ (((ds[i]! % ncol : Nat) : Int) + 1 ∈ xyPits) := by simp [xyPits]; omega
        rw [if_neg h1, if_neg h2]
        congr 1 <;> omega
      have hvalid : readXY (toArrayXY ncol ds).1 (toArrayXY ncol ds).2 ds[i]! ≠ .nodata := by
        intro h
        have := (hnd _ hjlt).1 h
        have := (hnet.closed i hi).2 hjlt
        omega
      unfold dsOf
      rw [hr]
      dsimp only
      rw [inRaster_rowcol hjlt, cellIdx_rowcol]
      simp [hvalid]

/-! ### canonical form, links of decoded graphs -/

theorem readTab_to {dirs : List (Nat × (Int × Int))} {pits : List Nat} {mv ncol : Nat} {codes : Array Nat}
    {i : Nat} {r c : Int} (h : readTab dirs pits mv ncol codes i = .to r c) :
    ∃ d, dirs.lookup codes[i]! = some d ∧ r = ((i / ncol : Nat) : Int) + d.1 ∧ c = ((i % ncol : Nat) : Int) + d.2 := by
  unfold readTab at h
  by_cases h1 : codes[i]! = mv
  · simp [h1] at h
  · by_cases h2 : codes[i]! ∈ pits
    · simp [h1, h2] at h
    · cases h3 : dirs.lookup codes[i]! with
      | none => simp [h1, h2, h3] at h
      | some d =>
        simp only [h1, h2, h3, if_false] at h
        injection h with hr hc
        exact ⟨d, rfl, hr.symm, hc.symm⟩

theorem canonOK_spec {tab : Array Nat} {dirs : List (Nat × (Int × Int))} {pits : List Nat} {mv pit0 : Nat}
    (h : canonOK tab dirs pits mv pit0 = true) :
    tab[tabIdx 0 0]! = pit0 ∧
    ∀ v, v ∈ alphabet dirs pits mv → ∀ d, dirs.lookup v = some d →
      in8 d.1 d.2 = true ∧ tab[tabIdx d.1 d.2]! = v ∧ d ≠ (0, 0) := by
  simp only [canonOK, Bool.and_eq_true, beq_iff_eq] at h
  refine ⟨h.1, ?_⟩
  intro v hv d hd
  have := List.all_eq_true.1 h.2 v hv
  rw [hd] at this
  simp only [Bool.and_eq_true, beq_iff_eq, bne_iff_ne, ne_eq] at this
  exact ⟨this.1.1, this.1.2, this.2⟩

/-- a link of the graph of a legal table raster: outside the graph, a self-link, or the link to the
8-neighbour with the delta of the cell's code -/
theorem tab_graph_link {tab : Array Nat} {dirs : List (Nat × (Int × Int))} {pits : List Nat} {mv pit0 : Nat}
    (hcan : canonOK tab dirs pits mv pit0 = true) (nrow ncol : Nat) (codes : Array Nat)
    (hlegal : ∀ i, i < nrow * ncol → codes[i]! ∈ alphabet dirs pits mv) (i : Nat) (hi : i < nrow * ncol) :
    let j := dsOf nrow ncol (readTab dirs pits mv ncol codes) i
    j = nrow * ncol ∨ j = i ∨
    (j < nrow * ncol ∧ j ≠ i ∧ in8 (drOf ncol i j) (dcOf ncol i j) = true ∧
      tab[tabIdx (drOf ncol i j) (dcOf ncol i j)]! = codes[i]!) := by
  intro j
  rcases dsOf_cases nrow ncol (readTab dirs pits mv ncol codes) i with ⟨_, e⟩ | ⟨_, e⟩ | ⟨r, c, hr, hin, _, e⟩
  · exact Or.inl e
  · exact Or.inr (Or.inl e)
  · right; right
    obtain ⟨d, hd, er, ec⟩ := readTab_to hr
    obtain ⟨f1, f2, f3⟩ := (canonOK_spec hcan).2 _ (hlegal i hi) d hd
    obtain ⟨_, hlt, e3, e4⟩ := cellIdx_of_inRaster hin
    have hdr : drOf ncol i j = d.1 := by
      show drOf ncol i (dsOf nrow ncol (readTab dirs pits mv ncol codes) i) = d.1
      rw [e]; unfold drOf; rw [e3, er]; omega
    have hdc : dcOf ncol i j = d.2 := by
      show dcOf ncol i (dsOf nrow ncol (readTab dirs pits mv ncol codes) i) = d.2
      rw [e]; unfold dcOf; rw [e4, ec]; omega
    refine ⟨by show dsOf nrow ncol _ i < _; rw [e]; exact hlt, ?_, by rw [hdr, hdc]; exact f1, by rw [hdr, hdc]; exact f2⟩
    intro hji
    apply f3
    have h1 : drOf ncol i j = 0 := by rw [hji]; unfold drOf; omega
    have h2 : dcOf ncol i j = 0 := by rw [hji]; unfold dcOf; omega
    exact Prod.ext (by rw [← hdr, h1]) (by rw [← hdc, h2])

theorem drdc_self (ncol i : Nat) : drOf ncol i i = 0 ∧ dcOf ncol i i = 0 := by
  unfold drOf dcOf; omega

/-- **canon, table formats**: exporting the decoded graph of a legal raster to its own format gives the
documented canonical form of the raster -/
theorem tab_canon {tab : Array Nat} {dirs : List (Nat × (Int × Int))} {pits : List Nat} {mv pit0 : Nat}
    (hcan : canonOK tab dirs pits mv pit0 = true) (nrow ncol : Nat) (codes : Array Nat)
    (hlegal : ∀ i, i < nrow * ncol → codes[i]! ∈ alphabet dirs pits mv) :
    toArrayTab tab mv ncol (graph nrow ncol (readTab dirs pits mv ncol codes)) =
      .ok (canonTab pit0 mv nrow ncol (readTab dirs pits mv ncol codes) codes) ∧
    D8links ncol (graph nrow ncol (readTab dirs pits mv ncol codes)) := by
  have hsz := graph_size nrow ncol (readTab dirs pits mv ncol codes)
  have hget := graph_get nrow ncol (readTab dirs pits mv ncol codes)
  have h8 : ∀ i, i < (graph nrow ncol (readTab dirs pits mv ncol codes)).size →
      (graph nrow ncol (readTab dirs pits mv ncol codes))[i]! ≠ (graph nrow ncol (readTab dirs pits mv ncol codes)).size →
      in8 (drOf ncol i (graph nrow ncol (readTab dirs pits mv ncol codes))[i]!)
        (dcOf ncol i (graph nrow ncol (readTab dirs pits mv ncol codes))[i]!) = true := by
    intro i hi hne
    rw [hsz] at hi hne
    rw [hget i hi] at hne ⊢
    rcases tab_graph_link hcan nrow ncol codes hlegal i hi with h | h | ⟨_, _, h, _⟩
    · exact absurd h hne
    · rw [h, (drdc_self ncol i).1, (drdc_self ncol i).2]; rfl
    · exact h
  constructor
  · obtain ⟨out, e1, e2, e3⟩ := toArrayTab_ok tab mv ncol _ h8
    rw [e1]
    congr 1
    apply array_ext_get! (by rw [e2, hsz]; simp [canonTab])
    intro i hi
    rw [e2, hsz] at hi
    rw [e3 i (by rw [hsz]; exact hi), hsz, hget i hi]
    have hc : (canonTab pit0 mv nrow ncol (readTab dirs pits mv ncol codes) codes)[i]! =
        if dsOf nrow ncol (readTab dirs pits mv ncol codes) i = nrow * ncol then mv
        else if dsOf nrow ncol (readTab dirs pits mv ncol codes) i = i then pit0 else codes[i]! := by
      simp [canonTab, hi]
    rw [hc]
    rcases tab_graph_link hcan nrow ncol codes hlegal i hi with h | h | ⟨hlt, hne, _, h⟩
    · rw [if_pos h, if_pos h]
    · have hn : ¬ (dsOf nrow ncol (readTab dirs pits mv ncol codes) i = nrow * ncol) := by omega
      rw [if_neg hn, if_neg hn, if_pos h, h, (drdc_self ncol i).1, (drdc_self ncol i).2]
      exact (canonOK_spec hcan).1
    · have hn : ¬ (dsOf nrow ncol (readTab dirs pits mv ncol codes) i = nrow * ncol) := by omega
      rw [if_neg hn, if_neg hn, if_neg hne, h]
  · intro i hi hlt
    have h := h8 i hi (by omega)
    simp only [in8, Bool.and_eq_true, decide_eq_true_eq] at h
    omega

/-- **canon, NEXTXY** -/
theorem xy_canon (nrow ncol : Nat) (xs ys : Array Int) :
    toArrayXY ncol (graph nrow ncol (readXY xs ys)) = canonXY nrow ncol xs ys := by
  have hsz := graph_size nrow ncol (readXY xs ys)
  obtain ⟨s1, s2, hget⟩ := toArrayXY_get ncol (graph nrow ncol (readXY xs ys))
  have key : ∀ i, i < nrow * ncol →
      xyCellX ncol (graph nrow ncol (readXY xs ys)) i =
        (if dsOf nrow ncol (readXY xs ys) i = nrow * ncol then xyNodata
         else if dsOf nrow ncol (readXY xs ys) i = i then (-9 : Int) else xs[i]!) ∧
      xyCellY ncol (graph nrow ncol (readXY xs ys)) i =
        (if dsOf nrow ncol (readXY xs ys) i = nrow * ncol then xyNodata
         else if dsOf nrow ncol (readXY xs ys) i = i then (-9 : Int) else ys[i]!) := by
    intro i hi
    unfold xyCellX xyCellY
    rw [hsz, graph_get _ _ _ _ hi]
    rcases dsOf_cases nrow ncol (readXY xs ys) i with ⟨_, e⟩ | ⟨_, e⟩ | ⟨r, c, hr, hin, _, e⟩
    · simp only [e, if_true]; exact ⟨rfl, rfl⟩
    · have hiN : ¬ (i = nrow * ncol) := by omega
      simp [e, hiN, xyPv0]
    · obtain ⟨_, hlt, e3, e4⟩ := cellIdx_of_inRaster hin
      have hn : ¬ (dsOf nrow ncol (readXY xs ys) i = nrow * ncol) := by omega
      have hxy : xs[i]! = c + 1 ∧ ys[i]! = r + 1 := by
        unfold readXY at hr
        by_cases h1 : xs[i]! = xyNodata
        · simp [h1] at hr
        · by_cases h2 : xs[i]! ∈ xyPits
          · simp [h1, h2] at hr
          · simp only [h1, h2, if_false] at hr
            injection hr with hr hc
            constructor <;> omega
      by_cases hs : dsOf nrow ncol (readXY xs ys) i = i
      · have hs' : i = dsOf nrow ncol (readXY xs ys) i := hs.symm
        constructor
        · rw [if_neg hn, if_neg hn, if_pos hs', if_pos hs]; rfl
        · rw [if_neg hn, if_neg hn, if_pos hs', if_pos hs]; rfl
      · have hs' : ¬ (i = dsOf nrow ncol (readXY xs ys) i) := fun h => hs h.symm
        constructor
        · rw [if_neg hn, if_neg hn, if_neg hs', if_neg hs, e, e4, hxy.1]
        · rw [if_neg hn, if_neg hn, if_neg hs', if_neg hs, e, e3, hxy.2]
  apply Prod.ext
  · apply array_ext_get! (by rw [s1, hsz]; simp [canonXY])
    intro i h1
    have hi : i < nrow * ncol := by rw [s1, hsz] at h1; exact h1
    rw [(hget i (by rw [hsz]; exact hi)).1, (key i hi).1]
    simp [canonXY, hi]
  · apply array_ext_get! (by rw [s2, hsz]; simp [canonXY])
    intro i h1
    have hi : i < nrow * ncol := by rw [s2, hsz] at h1; exact h1
    rw [(hget i (by rw [hsz]; exact hi)).2, (key i hi).2]
    simp [canonXY, hi]

/-! ### remapping -/

theorem readTab_eq_meaning (dirs : List (Nat × (Int × Int))) (pits : List Nat) (mv ncol : Nat) (codes : Array Nat) (i : Nat) :
    readTab dirs pits mv ncol codes i =
      match meaning dirs pits mv codes[i]! with
      | none => .nodata
      | some none => .pit
      | some (some d) => .to ((i / ncol : Nat) + d.1) ((i % ncol : Nat) + d.2) := by
  unfold readTab meaning
  by_cases h1 : codes[i]! = mv
  · simp [h1]
  · by_cases h2 : codes[i]! ∈ pits
    · simp [h1, h2]
    · cases h3 : dirs.lookup codes[i]! <;> simp [h1, h2, h3]

end Pf.Fd
