import PfVerif.Proofs.C06Depth
/-! `max_depth >= 0`: invariants of every state of every run (nodata never pushed / re-opened /
queued / given a direction; nothing lowered; nothing raised by `max_depth` or more). Core Lean only. -/
namespace Pf.C06
open Pf

theorem usCode_ne_247 (dr dc : Int) : usCode dr dc ≠ 247 := by
  unfold usCode
  repeat' split
  all_goals decide

theorem get_set_self {α : Type} [Inhabited α] (a : Array α) (j : Nat) (v : α) (hj : j < a.size) :
    (a.setIfInBounds j v)[j]! = v := by
  rw [get!_setIfInBounds, if_pos ⟨rfl, hj⟩]

theorem get_set_ne {α : Type} [Inhabited α] (a : Array α) (j c : Nat) (v : α) (h : j ≠ c) :
    (a.setIfInBounds j v)[c]! = a[c]! := by
  rw [get!_setIfInBounds, if_neg (fun hh => h hh.1)]

theorem reopen_nod (G : Grid) (conn : Nat) (nod : Array Bool) (j : Nat) (d : Array Bool) (c : Nat)
    (hn : nod[c]! = true) : (reopen G conn nod j d)[c]! = d[c]! := by
  unfold reopen
  generalize offsets conn = l
  induction l generalizing d with
  | nil => rfl
  | cons o l ih =>
    simp only [List.foldl_cons]
    rw [ih]
    split
    · rename_i k _
      split
      · rfl
      · rename_i hk
        apply get_set_ne
        intro hkc
        rw [hkc] at hk
        exact hk hn
    · rfl

/-- per-cell invariants of the depth-limited flood -/
def CellD (elev : Array Int) (nod : Array Bool) (md : Int) (s : StD) (c : Nat) : Prop :=
  (nod[c]! = true → s.done[c]! = true ∧ s.f[c]! = elev[c]! ∧ s.d8[c]! = 247 ∧ s.queued[c]! = false) ∧
  (nod[c]! = false → s.d8[c]! ≠ 247) ∧
  elev[c]! ≤ s.f[c]! ∧ (s.f[c]! = elev[c]! ∨ s.f[c]! - elev[c]! < md)

/-- invariants of the depth-limited flood that hold in every state of every run: nodata cells are
never pushed, never queued, never re-opened, keep elevation and code 247; valid cells are never coded
247, never lowered, and never raised by `max_depth` or more -/
def SafeD (G : Grid) (elev : Array Int) (nod : Array Bool) (md : Int) (s : StD) : Prop :=
  (∀ e : HE, e ∈ s.q → nod[e.idx]! = false) ∧ ∀ c : Nat, c < G.n → CellD elev nod md s c

variable {G : Grid} {conn : Nat} {elev : Array Int} {nod : Array Bool} {md : Int}

theorem safeD_deep (s : StD) (j : Nat) (hnj : nod[j]! = false) (h : SafeD G elev nod md s) :
    SafeD G elev nod md (deepStep G conn elev nod s j) := by
  obtain ⟨hq, hc⟩ := h
  refine ⟨?_, fun c hcn => ?_⟩
  · intro e he
    simp only [deepStep, mem_hpush] at he
    rcases he with rfl | he
    · exact hnj
    · exact hq e he
  · obtain ⟨c1, c2, c3, c4⟩ := hc c hcn
    refine ⟨fun hn => ?_, c2, c3, c4⟩
    obtain ⟨a, b, d, e⟩ := c1 hn
    have hjc : j ≠ c := fun hjc => by rw [hjc] at hnj; rw [hnj] at hn; cases hn
    refine ⟨?_, b, d, ?_⟩
    · simp only [deepStep]; rw [reopen_nod G conn nod j s.done c hn]; exact a
    · simp only [deepStep]; rw [get_set_ne _ _ _ _ hjc]; exact e

theorem safeD_reset (s : StD) (j : Nat) (hs : SizedD G s) (hj : j < G.n) (hnj : nod[j]! = false)
    (h : SafeD G elev nod md s) : SafeD G elev nod md (resetStep elev s j) := by
  obtain ⟨hq, hc⟩ := h
  unfold resetStep
  split
  · refine ⟨hq, fun c hcn => ?_⟩
    obtain ⟨c1, c2, c3, c4⟩ := hc c hcn
    by_cases hjc : j = c
    · subst hjc
      refine ⟨fun hn => (by rw [hnj] at hn; cases hn), c2, ?_, ?_⟩
      · simp only; rw [get_set_self _ _ _ (by rw [hs.2.2.1]; exact hj)]; exact Int.le_refl _
      · left; simp only; rw [get_set_self _ _ _ (by rw [hs.2.2.1]; exact hj)]
    · refine ⟨fun hn => ?_, c2, ?_, ?_⟩
      · obtain ⟨a, b, d, e⟩ := c1 hn
        refine ⟨a, ?_, d, ?_⟩
        · simp only; rw [get_set_ne _ _ _ _ hjc]; exact b
        · simp only; rw [get_set_ne _ _ _ _ hjc]; exact e
      · simp only; rw [get_set_ne _ _ _ _ hjc]; exact c3
      · simp only; rw [get_set_ne _ _ _ _ hjc]; exact c4
  · exact ⟨hq, hc⟩

theorem safeD_fill (s : StD) (j : Nat) (dr dc : Int) (z0 : Int) (hs : SizedD G s) (hj : j < G.n)
    (hnj : nod[j]! = false) (hdeep : tooDeep md (z0 - elev[j]!) = false)
    (h : SafeD G elev nod md s) : SafeD G elev nod md (fillStep elev z0 s j (usCode dr dc)) := by
  obtain ⟨hq, hc⟩ := h
  refine ⟨?_, fun c hcn => ?_⟩
  · intro e he
    simp only [fillStep] at he
    split at he
    · rcases (mem_hpush _ _ _).1 he with rfl | he
      · exact hnj
      · exact hq e he
    · exact hq e he
  · obtain ⟨c1, c2, c3, c4⟩ := hc c hcn
    by_cases hjc : j = c
    · subst hjc
      refine ⟨fun hn => (by rw [hnj] at hn; cases hn), fun _ => ?_, ?_, ?_⟩
      · simp only [fillStep]; rw [get_set_self _ _ _ (by rw [hs.2.2.2.1]; exact hj)]; exact usCode_ne_247 dr dc
      · simp only [fillStep]
        split
        · rename_i hf
          rw [get_set_self _ _ _ (by rw [hs.2.2.1]; exact hj)]
          have := of_decide_eq_true hf; omega
        · exact c3
      · simp only [fillStep]
        split
        · rename_i hf
          rw [get_set_self _ _ _ (by rw [hs.2.2.1]; exact hj)]
          right
          have hpos := of_decide_eq_true hf
          unfold tooDeep at hdeep
          simp only [Bool.and_eq_false_iff, decide_eq_false_iff_not] at hdeep
          rcases hdeep with h1 | h1 <;> omega
        · exact c4
    · refine ⟨fun hn => ?_, fun hn => ?_, ?_, ?_⟩
      · obtain ⟨a, b, d, e⟩ := c1 hn
        refine ⟨?_, ?_, ?_, ?_⟩
        · simp only [fillStep]; rw [get_set_ne _ _ _ _ hjc]; exact a
        · simp only [fillStep]; split
          · rw [get_set_ne _ _ _ _ hjc]; exact b
          · exact b
        · simp only [fillStep]; rw [get_set_ne _ _ _ _ hjc]; exact d
        · simp only [fillStep]; split
          · rw [get_set_ne _ _ _ _ hjc]; exact e
          · exact e
      · simp only [fillStep]; rw [get_set_ne _ _ _ _ hjc]; exact c2 hn
      · simp only [fillStep]; split
        · rw [get_set_ne _ _ _ _ hjc]; exact c3
        · exact c3
      · simp only [fillStep]; split
        · rw [get_set_ne _ _ _ _ hjc]; exact c4
        · exact c4


theorem safeD_visit {z0 : Int} {i0 : Nat} (s : StD) (o : Int × Int) (hs : SizedD G s)
    (h : SafeD G elev nod md s) : SafeD G elev nod md (visitD G conn elev nod md z0 i0 s o) := by
  unfold visitD
  split
  · exact h
  · rename_i j hsh
    have hj : j < G.n := (shift_spec.1 hsh).1
    by_cases hd : s.done[j]! = true
    · rw [if_pos hd]; exact h
    · rw [if_neg hd]
      have hnj : nod[j]! = false := by
        cases hn : nod[j]! with
        | false => rfl
        | true => exact absurd ((h.2 j hj).1 hn).1 hd
      by_cases hdeep : tooDeep md (z0 - elev[j]!) = true
      · rw [if_pos hdeep]; exact safeD_deep s j hnj h
      · rw [if_neg hdeep]
        exact safeD_fill _ j o.1 o.2 z0 (sizedD_reset s j hs) hj hnj (by simpa using hdeep)
          (safeD_reset s j hs hj hnj h)

theorem safeD_fold {z0 : Int} {i0 : Nat} (l : List (Int × Int)) (s : StD) (hs : SizedD G s)
    (h : SafeD G elev nod md s) :
    SafeD G elev nod md (l.foldl (visitD G conn elev nod md z0 i0) s) := by
  induction l generalizing s with
  | nil => exact h
  | cons o l ih => exact ih _ (sizedD_visit s o hs) (safeD_visit s o hs h)

/-- the invariants hold after any number of iterations of the `while` loop -/
theorem safeD_loop (fuel : Nat) (s : StD) (hs : SizedD G s) (h : SafeD G elev nod md s) :
    SafeD G elev nod md (fillLoopD G conn elev nod md fuel s) := by
  induction fuel generalizing s with
  | zero => exact h
  | succ k ih =>
    unfold fillLoopD
    split
    · exact h
    · rename_i hd rest hq
      have hs0 : SizedD G { s with q := rest } := hs
      have h0 : SafeD G elev nod md { s with q := rest } :=
        ⟨fun e he => h.1 e (by rw [hq]; exact List.mem_cons_of_mem _ he), h.2⟩
      exact ih _ (sizedD_fold _ _ hs0) (safeD_fold _ _ hs0 h0)

theorem safeD_init {seed : Array Bool} (hN : nod.size = G.n)
    (hSV : ∀ c : Nat, c < G.n → seed[c]! = true → nod[c]! = false) :
    SafeD G elev nod md (initStateD G elev nod seed) := by
  refine ⟨?_, fun c hc => ?_⟩
  · intro e he
    obtain ⟨i, hi, hsi, rfl⟩ := (mem_initHeap G elev seed e).1 he
    exact hSV i hi hsi
  · have hc' : c < nod.size := by omega
    have hd8 : (initStateD G elev nod seed).d8[c]! = if nod[c]! = true then 247 else 0 := by
      have : nod[c]! = nod[c] := by simp [hc']
      rw [this]
      simp [initStateD, hc']
    refine ⟨fun hn => ⟨hn, rfl, by rw [hd8, if_pos hn], ?_⟩, fun hn => ?_, Int.le_refl _, Or.inl rfl⟩
    · show seed[c]! = false
      cases hs : seed[c]! with
      | false => rfl
      | true => have := hSV c hc hs; rw [hn] at this; cases this
    · rw [hd8, if_neg (by rw [hn]; simp)]; decide

/-- **depth-limited fill, all inputs**: nodata cells are untouched and coded 247, valid cells are
never coded 247, no cell is lowered, and no cell is raised by `max_depth` or more (with
`max_depth = 0` nothing is raised at all) -/
theorem fillModelDepth_safe {pits : Option (List Nat)} {minMode : Bool} {elvMax : Option Int}
    {f : Array Int} {d8 : Array Nat} {fin : Bool} {ev : Nat} {evc : Array Nat}
    (hN : nod.size = G.n) (hE : elev.size = G.n)
    (hpits : ∀ l, pits = some l → ∀ p, p ∈ l → p < G.n → nod[p]! = false)
    (h : fillModelDepth G conn elev nod pits minMode elvMax md = .ok (f, d8, fin, ev, evc))
    (c : Nat) (hc : c < G.n) :
    (nod[c]! = true → f[c]! = elev[c]! ∧ d8[c]! = 247) ∧ (nod[c]! = false → d8[c]! ≠ 247) ∧
    elev[c]! ≤ f[c]! ∧ (f[c]! = elev[c]! ∨ f[c]! - elev[c]! < md) := by
  unfold fillModelDepth at h
  split at h
  · cases h
  · rename_i seed hseed
    injection h with h
    simp only [Prod.mk.injEq] at h
    obtain ⟨h1, h2, _⟩ := h
    have hs := sizedD_init (elev := elev) hN hE (seedsOfE_size hseed)
    have := (safeD_loop (conn := conn) (md := md) (fuelD G) _ hs
      (safeD_init hN (seedsOfE_valid hpits hseed))).2 c hc
    rw [← h1, ← h2]
    exact ⟨fun hn => ⟨(this.1 hn).2.1, (this.1 hn).2.2.1⟩, this.2.1, this.2.2.1, this.2.2.2⟩

end Pf.C06
