import PfVerif.Model.C05_ext
/-! Helper lemmas for the C05 extension: `regions.region_sum / region_slices / region_bounds`.
Core Lean only. -/
namespace Pf.C05x
open Pf

/-! ### `np.unique(regions[regions > 0])` -/

theorem insertAsc_mem (x y : Int) : ∀ l : List Int, y ∈ insertAsc x l ↔ y = x ∨ y ∈ l
  | [] => by simp [insertAsc]
  | z :: zs => by
    simp only [insertAsc]
    split
    · simp
    · split
      · rename_i _ h2
        subst h2
        simp only [List.mem_cons]
        constructor
        · intro h; exact Or.inr h
        · rintro (h | h)
          · exact Or.inl h
          · exact h
      · simp only [List.mem_cons, insertAsc_mem x y zs]
        constructor
        · rintro (h | h | h)
          · exact Or.inr (Or.inl h)
          · exact Or.inl h
          · exact Or.inr (Or.inr h)
        · rintro (h | h | h)
          · exact Or.inr (Or.inl h)
          · exact Or.inl h
          · exact Or.inr (Or.inr h)

theorem insertAsc_sorted (x : Int) : ∀ l : List Int, l.Pairwise (· < ·) → (insertAsc x l).Pairwise (· < ·)
  | [] => by simp [insertAsc]
  | z :: zs => by
    intro h
    have hz := List.pairwise_cons.1 h
    simp only [insertAsc]
    split
    · rename_i h1
      refine List.pairwise_cons.2 ⟨?_, h⟩
      intro a ha
      simp only [List.mem_cons] at ha
      rcases ha with rfl | ha
      · exact h1
      · have := hz.1 a ha; omega
    · split
      · exact h
      · rename_i h1 h2
        refine List.pairwise_cons.2 ⟨?_, insertAsc_sorted x zs hz.2⟩
        intro a ha
        rcases (insertAsc_mem x a zs).1 ha with rfl | ha
        · omega
        · exact hz.1 a ha

theorem uniquePos_aux (xs : List Int) : ∀ acc : List Int, acc.Pairwise (· < ·) →
    (xs.foldl (fun acc x => if x > 0 then insertAsc x acc else acc) acc).Pairwise (· < ·) ∧
    ∀ y, y ∈ xs.foldl (fun acc x => if x > 0 then insertAsc x acc else acc) acc ↔
      y ∈ acc ∨ (y > 0 ∧ y ∈ xs) := by
  induction xs with
  | nil => intro acc h; exact ⟨h, by simp⟩
  | cons x xs ih =>
    intro acc h
    simp only [List.foldl_cons]
    by_cases hx : x > 0
    · simp only [hx, if_true]
      obtain ⟨h1, h2⟩ := ih (insertAsc x acc) (insertAsc_sorted x acc h)
      refine ⟨h1, fun y => ?_⟩
      rw [h2 y, insertAsc_mem]
      simp only [List.mem_cons]
      constructor
      · rintro ((rfl | h) | ⟨h, h'⟩)
        · exact Or.inr ⟨hx, Or.inl rfl⟩
        · exact Or.inl h
        · exact Or.inr ⟨h, Or.inr h'⟩
      · rintro (h | ⟨h, rfl | h'⟩)
        · exact Or.inl (Or.inr h)
        · exact Or.inl (Or.inl rfl)
        · exact Or.inr ⟨h, h'⟩
    · simp only [hx, if_false]
      obtain ⟨h1, h2⟩ := ih acc h
      refine ⟨h1, fun y => ?_⟩
      rw [h2 y]
      simp only [List.mem_cons]
      constructor
      · rintro (h | ⟨h, h'⟩)
        · exact Or.inl h
        · exact Or.inr ⟨h, Or.inr h'⟩
      · rintro (h | ⟨h, rfl | h'⟩)
        · exact Or.inl h
        · exact absurd h hx
        · exact Or.inr ⟨h, h'⟩

theorem mem_toList_iff_get! (regions : Array Int) (l : Int) :
    l ∈ regions.toList ↔ ∃ i, i < regions.size ∧ regions[i]! = l := by
  constructor
  · intro h
    obtain ⟨i, hi, rfl⟩ := List.mem_iff_getElem.1 h
    have hi' : i < regions.size := by simpa using hi
    exact ⟨i, hi', by simp [hi']⟩
  · rintro ⟨i, hi, rfl⟩
    simp only [getElem!_pos regions i hi]
    exact Array.mem_toList_iff.2 (Array.getElem_mem hi)

/-! ### `ndimage.sum` -/

theorem labelSum_aux (data regions : Array Int) (l : Int) : ∀ (cells : List Nat) (s0 : Int),
    cells.foldl (fun s i => if regions[i]! = l then s + data[i]! else s) s0 =
      s0 + ((cells.filter fun i => regions[i]! == l).map fun i => data[i]!).sum := by
  intro cells
  induction cells with
  | nil => intro s0; simp
  | cons c cs ih =>
    intro s0
    simp only [List.foldl_cons, List.filter_cons]
    by_cases h : regions[c]! = l
    · have hb : (regions[c]! == l) = true := by simp [h]
      simp only [h, if_true, ih]
      rw [← h] at hb ⊢
      simp only [beq_self_eq_true, if_true, List.map_cons, List.sum_cons]
      omega
    · have hb : (regions[c]! == l) = false := by simp [h]
      simp only [h, if_false, ih, hb, Bool.false_eq_true]

/-- sum of a constant over a list -/
theorem sum_map_const (a : Int) : ∀ (cells : List Nat) (f : Nat → Int), (∀ i ∈ cells, f i = a) →
    (cells.map f).sum = (cells.length : Int) * a
  | [], _, _ => by simp
  | c :: cs, f, h => by
    have := sum_map_const a cs f (fun i hi => h i (by simp [hi]))
    simp only [List.map_cons, List.sum_cons, this, h c (by simp), List.length_cons, Int.natCast_succ]
    rw [Int.add_mul]; omega

theorem sum_map_add (f g : Int → Int) : ∀ L : List Int,
    (L.map fun l => f l + g l).sum = (L.map f).sum + (L.map g).sum
  | [] => by simp
  | x :: xs => by
    simp only [List.map_cons, List.sum_cons, sum_map_add f g xs]; omega

theorem sum_indicator (v : Int) (d : Int) : ∀ L : List Int, L.Nodup →
    (L.map fun l => if (v == l) = true then d else 0).sum = if v ∈ L then d else 0
  | [], _ => by simp
  | x :: xs, h => by
    have hn := List.nodup_cons.1 h
    simp only [List.map_cons, List.sum_cons, sum_indicator v d xs hn.2, List.mem_cons]
    by_cases h1 : v = x
    · subst h1
      simp [hn.1]
    · have : (v == x) = false := by simp [h1]
      simp [this, h1]

/-- the per-label sums over a duplicate-free label list add up to the sum over the cells whose label
is in the list -/
theorem sum_labels (data regions : Array Int) (L : List Int) (hL : L.Nodup) : ∀ cells : List Nat,
    (L.map fun l => ((cells.filter fun i => regions[i]! == l).map fun i => data[i]!).sum).sum =
      ((cells.filter fun i => decide (regions[i]! ∈ L)).map fun i => data[i]!).sum
  | [] => by
    simp only [List.filter_nil, List.map_nil, List.sum_nil]
    induction L with
    | nil => rfl
    | cons x xs ih => simp [ih (List.nodup_cons.1 hL).2]
  | c :: cs => by
    have ih := sum_labels data regions L hL cs
    have hsplit : ∀ l, ((List.filter (fun i => regions[i]! == l) (c :: cs)).map fun i => data[i]!).sum =
        (if (regions[c]! == l) = true then data[c]! else 0) +
          ((cs.filter fun i => regions[i]! == l).map fun i => data[i]!).sum := by
      intro l
      simp only [List.filter_cons]
      split <;> simp
    simp only [hsplit]
    rw [sum_map_add (fun l => if (regions[c]! == l) = true then data[c]! else 0)
      (fun l => ((cs.filter fun i => regions[i]! == l).map fun i => data[i]!).sum) L, ih,
      sum_indicator regions[c]! data[c]! L hL]
    simp only [List.filter_cons]
    by_cases h : regions[c]! ∈ L
    · simp [h]
    · simp [h]

theorem pairwise_lt_nodup : ∀ L : List Int, L.Pairwise (· < ·) → L.Nodup
  | [], _ => List.nodup_nil
  | x :: xs, h => by
    have hx := List.pairwise_cons.1 h
    refine List.nodup_cons.2 ⟨fun hm => ?_, pairwise_lt_nodup xs hx.2⟩
    have := hx.1 x hm; omega

/-! ### `ndimage.find_objects`: tight bounding boxes -/

/-- cell `i` lies inside the box -/
def InBox (ncol : Nat) (b : Box) (i : Nat) : Prop :=
  b.1 ≤ i / ncol ∧ i / ncol < b.2.1 ∧ b.2.2.1 ≤ i % ncol ∧ i % ncol < b.2.2.2

/-- `b` is the tight bounding box of the cell set `S`: it contains every cell of `S` and each of its
four sides is attained by some cell of `S` -/
structure TightBox (ncol : Nat) (S : Nat → Prop) (b : Box) : Prop where
  inside : ∀ i, S i → InBox ncol b i
  top : ∃ i, S i ∧ i / ncol = b.1
  bottom : ∃ i, S i ∧ i / ncol + 1 = b.2.1
  left : ∃ i, S i ∧ i % ncol = b.2.2.1
  right : ∃ i, S i ∧ i % ncol + 1 = b.2.2.2

/-- invariant of the box fold: no box iff no cell, otherwise the tight box -/
def BoxInv (ncol : Nat) (S : Nat → Prop) : Option Box → Prop
  | none => ∀ i, ¬ S i
  | some b => TightBox ncol S b

theorem BoxInv_congr {ncol : Nat} {S S' : Nat → Prop} (h : ∀ i, S i ↔ S' i) :
    ∀ ob, BoxInv ncol S ob → BoxInv ncol S' ob
  | none => fun hn i hi => hn i ((h i).2 hi)
  | some b => fun ht =>
    { inside := fun i hi => ht.inside i ((h i).2 hi)
      top := by obtain ⟨i, hi, e⟩ := ht.top; exact ⟨i, (h i).1 hi, e⟩
      bottom := by obtain ⟨i, hi, e⟩ := ht.bottom; exact ⟨i, (h i).1 hi, e⟩
      left := by obtain ⟨i, hi, e⟩ := ht.left; exact ⟨i, (h i).1 hi, e⟩
      right := by obtain ⟨i, hi, e⟩ := ht.right; exact ⟨i, (h i).1 hi, e⟩ }

theorem boxStep_inv (ncol : Nat) (regions : Array Int) (l : Int) (done : List Nat) (c : Nat)
    (ob : Option Box) (h : BoxInv ncol (fun i => i ∈ done ∧ regions[i]! = l) ob) :
    BoxInv ncol (fun i => i ∈ done ++ [c] ∧ regions[i]! = l) (boxStep ncol regions l ob c) := by
  by_cases hc : regions[c]! = l
  · simp only [boxStep, hc, if_true]
    cases ob with
    | none =>
      have hn : ∀ i, ¬ (i ∈ done ∧ regions[i]! = l) := h
      have honly : ∀ i, (i ∈ done ++ [c] ∧ regions[i]! = l) → i = c := by
        rintro i ⟨hi, hl⟩
        simp only [List.mem_append, List.mem_singleton] at hi
        rcases hi with hi | hi
        · exact absurd ⟨hi, hl⟩ (hn i)
        · exact hi
      have hcS : c ∈ done ++ [c] ∧ regions[c]! = l := ⟨by simp, hc⟩
      exact { inside := fun i hi => by rw [honly i hi]; simp only [InBox]; omega
              top := ⟨c, hcS, rfl⟩, bottom := ⟨c, hcS, rfl⟩, left := ⟨c, hcS, rfl⟩, right := ⟨c, hcS, rfl⟩ }
    | some b =>
      obtain ⟨r0, r1, c0, c1⟩ := b
      have ht : TightBox ncol (fun i => i ∈ done ∧ regions[i]! = l) (r0, r1, c0, c1) := h
      have hcS : c ∈ done ++ [c] ∧ regions[c]! = l := ⟨by simp, hc⟩
      have hup : ∀ i, (i ∈ done ∧ regions[i]! = l) → (i ∈ done ++ [c] ∧ regions[i]! = l) :=
        fun i hi => ⟨by simp [hi.1], hi.2⟩
      have hin := ht.inside
      simp only [InBox] at hin
      refine { inside := ?_, top := ?_, bottom := ?_, left := ?_, right := ?_ }
      · rintro i ⟨hi, hl⟩
        simp only [List.mem_append, List.mem_singleton] at hi
        simp only [InBox]
        rcases hi with hi | rfl
        · have := hin i ⟨hi, hl⟩; omega
        · omega
      · by_cases hle : r0 ≤ c / ncol
        · obtain ⟨i, hi, e⟩ := ht.top
          exact ⟨i, hup i hi, by simp only at e ⊢; omega⟩
        · exact ⟨c, hcS, by simp only; omega⟩
      · by_cases hle : c / ncol + 1 ≤ r1
        · obtain ⟨i, hi, e⟩ := ht.bottom
          exact ⟨i, hup i hi, by simp only at e ⊢; omega⟩
        · exact ⟨c, hcS, by simp only; omega⟩
      · by_cases hle : c0 ≤ c % ncol
        · obtain ⟨i, hi, e⟩ := ht.left
          exact ⟨i, hup i hi, by simp only at e ⊢; omega⟩
        · exact ⟨c, hcS, by simp only; omega⟩
      · by_cases hle : c % ncol + 1 ≤ c1
        · obtain ⟨i, hi, e⟩ := ht.right
          exact ⟨i, hup i hi, by simp only at e ⊢; omega⟩
        · exact ⟨c, hcS, by simp only; omega⟩
  · simp only [boxStep, hc, if_false]
    refine BoxInv_congr (fun i => ?_) ob h
    simp only [List.mem_append, List.mem_singleton]
    constructor
    · rintro ⟨hi, hl⟩; exact ⟨Or.inl hi, hl⟩
    · rintro ⟨hi | rfl, hl⟩
      · exact ⟨hi, hl⟩
      · exact absurd hl hc

theorem labelBox_aux (ncol : Nat) (regions : Array Int) (l : Int) :
    ∀ (cells done : List Nat) (ob : Option Box),
      BoxInv ncol (fun i => i ∈ done ∧ regions[i]! = l) ob →
      BoxInv ncol (fun i => i ∈ done ++ cells ∧ regions[i]! = l) (cells.foldl (boxStep ncol regions l) ob) := by
  intro cells
  induction cells with
  | nil => intro done ob h; simpa using h
  | cons c cs ih =>
    intro done ob h
    have := ih (done ++ [c]) _ (boxStep_inv ncol regions l done c ob h)
    simpa [List.append_assoc] using this

/-- `find_objects` returns, per label, nothing iff no cell carries the label, else the tight box -/
theorem labelBox_inv (ncol : Nat) (regions : Array Int) (l : Int) :
    BoxInv ncol (fun i => i < regions.size ∧ regions[i]! = l) (labelBox ncol regions l) := by
  have := labelBox_aux ncol regions l (List.range regions.size) [] none (fun i hi => by simp at hi)
  refine BoxInv_congr (fun i => ?_) _ this
  simp

/-! ### coordinates of a box -/

theorem mul_mono_nonneg {x a b : Int} (hx : 0 ≤ x) (h : a ≤ b) : x * a ≤ x * b :=
  Int.mul_le_mul_of_nonneg_left h hx

theorem mul_anti_nonpos {x a b : Int} (hx : x ≤ 0) (h : a ≤ b) : x * b ≤ x * a :=
  Int.mul_le_mul_of_nonpos_left hx h

/-- `axisBounds2` is the doubled hull `[min, max]` of the two outer cell edges, for both signs of the
cell size -/
theorem axisBounds2_hull (x0 xres : Int) (c0 c1 : Nat) (h : c0 < c1) :
    axisBounds2 x0 xres c0 c1 =
      (2 * min (x0 + xres * (c0 : Int)) (x0 + xres * (c1 : Int)),
       2 * max (x0 + xres * (c0 : Int)) (x0 + xres * (c1 : Int))) := by
  obtain ⟨d, rfl⟩ : ∃ d, c1 = d + 1 := ⟨c1 - 1, by omega⟩
  have hd : c0 ≤ d := by omega
  simp only [axisBounds2, centre2, Nat.add_sub_cancel]
  have e0 : xres * (2 * (c0 : Int) + 1) = 2 * (xres * (c0 : Int)) + xres := by grind
  have e1 : xres * (2 * (d : Int) + 1) = 2 * (xres * (d : Int)) + xres := by grind
  have e2 : xres * ((d + 1 : Nat) : Int) = xres * (d : Int) + xres := by
    rw [Int.natCast_succ, Int.mul_add, Int.mul_one]
  have hcd : (c0 : Int) ≤ (d : Int) := by omega
  rw [e0, e1, e2]
  by_cases hx : xres < 0
  · have hm := mul_anti_nonpos (Int.le_of_lt hx) hcd
    simp only [hx, if_true]
    refine Prod.ext ?_ ?_ <;> simp only [] <;> omega
  · have hm := mul_mono_nonneg (Int.not_lt.1 hx) hcd
    simp only [hx, if_false]
    refine Prod.ext ?_ ?_ <;> simp only [] <;> omega

/-- the rectangle of a cell between the outer edges lies inside the hull -/
theorem axis_cell_inside (x0 xres : Int) (c0 c1 c : Nat) (h0 : c0 ≤ c) (h1 : c < c1) :
    min (x0 + xres * (c0 : Int)) (x0 + xres * (c1 : Int)) ≤
      min (x0 + xres * (c : Int)) (x0 + xres * ((c : Int) + 1)) ∧
    max (x0 + xres * (c : Int)) (x0 + xres * ((c : Int) + 1)) ≤
      max (x0 + xres * (c0 : Int)) (x0 + xres * (c1 : Int)) := by
  have ha : (c0 : Int) ≤ (c : Int) := by omega
  have hb : (c : Int) + 1 ≤ (c1 : Int) := by omega
  have hc : (c : Int) ≤ (c : Int) + 1 := by omega
  by_cases hx : xres < 0
  · have m1 := mul_anti_nonpos (Int.le_of_lt hx) ha
    have m2 := mul_anti_nonpos (Int.le_of_lt hx) hb
    have m3 := mul_anti_nonpos (Int.le_of_lt hx) hc
    omega
  · have m1 := mul_mono_nonneg (Int.not_lt.1 hx) ha
    have m2 := mul_mono_nonneg (Int.not_lt.1 hx) hb
    have m3 := mul_mono_nonneg (Int.not_lt.1 hx) hc
    omega

/-! ### minima / maxima of the total box -/

theorem listMin_le (l : List Int) : ∀ d, listMin l d ≤ d ∧ (∀ x ∈ l, listMin l d ≤ x) ∧
    (listMin l d = d ∨ listMin l d ∈ l) := by
  induction l with
  | nil => intro d; simp [listMin]
  | cons y ys ih =>
    intro d
    obtain ⟨h1, h2, h3⟩ := ih (min d y)
    simp only [listMin, List.foldl_cons] at h1 h2 h3 ⊢
    refine ⟨by omega, ?_, ?_⟩
    · intro x hx
      simp only [List.mem_cons] at hx
      rcases hx with rfl | hx
      · omega
      · exact h2 x hx
    · rcases h3 with h3 | h3
      · by_cases hd : d ≤ y
        · left; rw [h3]; omega
        · right; rw [h3]; simp only [List.mem_cons]; left; omega
      · right; simp [h3]

theorem listMax_ge (l : List Int) : ∀ d, d ≤ listMax l d ∧ (∀ x ∈ l, x ≤ listMax l d) ∧
    (listMax l d = d ∨ listMax l d ∈ l) := by
  induction l with
  | nil => intro d; simp [listMax]
  | cons y ys ih =>
    intro d
    obtain ⟨h1, h2, h3⟩ := ih (max d y)
    simp only [listMax, List.foldl_cons] at h1 h2 h3 ⊢
    refine ⟨by omega, ?_, ?_⟩
    · intro x hx
      simp only [List.mem_cons] at hx
      rcases hx with rfl | hx
      · omega
      · exact h2 x hx
    · rcases h3 with h3 | h3
      · by_cases hd : y ≤ d
        · left; rw [h3]; omega
        · right; rw [h3]; simp only [List.mem_cons]; left; omega
      · right; simp [h3]

/-- `filterMap` over a list on which the function is defined everywhere keeps every element -/
theorem filterMap_map_some {β γ : Type} (f : β → Option γ) :
    ∀ L : List β, (∀ l ∈ L, ∃ b, f l = some b) → (L.filterMap f).map some = L.map f
  | [], _ => rfl
  | x :: xs, h => by
    obtain ⟨b, hb⟩ := h x (by simp)
    rw [List.filterMap_cons, hb]
    simp only [List.map_cons, hb]
    rw [filterMap_map_some f xs (fun l hl => h l (by simp [hl]))]

end Pf.C05x
