import PfVerif.Model.C09
/-! Arithmetic of the coarse grid (C09): ceiling division, the coarse cell of a pixel. Core Lean only. -/
namespace Pf

theorem ceilDiv_le_mul (a s : Nat) (hs : 0 < s) : a ≤ ceilDiv a s * s := by
  unfold ceilDiv
  have h1 := Nat.div_add_mod (a + s - 1) s
  have h2 := Nat.mod_lt (a + s - 1) hs
  rw [Nat.mul_comm]
  omega

theorem ceilDiv_mul_lt (a s : Nat) (hs : 0 < s) : ceilDiv a s * s < a + s := by
  unfold ceilDiv
  have h1 := Nat.div_add_mod (a + s - 1) s
  rw [Nat.mul_comm]
  omega

theorem ceilDiv_one (a : Nat) : ceilDiv a 1 = a := by
  unfold ceilDiv; simp

/-- a quotient by the scale factor stays below the ceiling -/
theorem div_lt_ceilDiv (r a s : Nat) (hs : 0 < s) (h : r < a) : r / s < ceilDiv a s := by
  rw [Nat.div_lt_iff_lt_mul hs]
  exact Nat.lt_of_lt_of_le h (ceilDiv_le_mul a s hs)

theorem mul_add_lt (r c nrow ncol : Nat) (hr : r < nrow) (hc : c < ncol) : r * ncol + c < nrow * ncol := by
  have h : (r + 1) * ncol ≤ nrow * ncol := Nat.mul_le_mul_right ncol hr
  rw [Nat.add_mul] at h
  omega

/-- row of the coarse cell of a pixel = ⌊fine row / s⌋ -/
theorem subidx2idx_row (p subncol cs ncol : Nat) (hc : (p % subncol) / cs < ncol) :
    subidx2idx p subncol cs ncol / ncol = p / subncol / cs := by
  unfold subidx2idx
  have hn : 0 < ncol := Nat.lt_of_le_of_lt (Nat.zero_le _) hc
  rw [Nat.add_comm, Nat.add_mul_div_right _ _ hn, Nat.div_eq_of_lt hc, Nat.zero_add]

/-- column of the coarse cell of a pixel = ⌊fine column / s⌋ -/
theorem subidx2idx_col (p subncol cs ncol : Nat) (hc : (p % subncol) / cs < ncol) :
    subidx2idx p subncol cs ncol % ncol = (p % subncol) / cs := by
  unfold subidx2idx
  rw [Nat.add_comm, Nat.add_mul_mod_self_right, Nat.mod_eq_of_lt hc]

theorem subidx2idx_lt (p subnrow subncol cs : Nat) (hs : 0 < cs) (hp : p < subnrow * subncol) :
    subidx2idx p subncol cs (ceilDiv subncol cs) < ceilDiv subnrow cs * ceilDiv subncol cs := by
  have hsc : 0 < subncol := by
    rcases Nat.eq_zero_or_pos subncol with h | h
    · subst h; simp at hp
    · exact h
  unfold subidx2idx
  apply mul_add_lt
  · apply div_lt_ceilDiv _ _ _ hs
    rw [Nat.div_lt_iff_lt_mul hsc]; exact hp
  · exact div_lt_ceilDiv _ _ _ hs (Nat.mod_lt _ hsc)

theorem subidx2idx_one (p subncol : Nat) : subidx2idx p subncol 1 subncol = p := by
  unfold subidx2idx
  simp only [Nat.div_one]
  rw [Nat.mul_comm]; exact Nat.div_add_mod p subncol

/-- geometric hypotheses shared by the theorems: the fine array matches the fine shape, `s ≥ 1` -/
structure Geo.OK (g : Geo) (ds : Array Nat) : Prop where
  size : ds.size = g.subn
  cs : 0 < g.cs

theorem Geo.cell_lt (g : Geo) (ds : Array Nat) (h : g.OK ds) (p : Nat) (hp : p < ds.size) : g.cell p < g.ncell := by
  unfold Geo.cell Geo.ncell Geo.nrow Geo.ncol
  apply subidx2idx_lt _ _ _ _ h.cs
  have := h.size; unfold Geo.subn at this; omega

theorem Geo.subncol_pos (g : Geo) (ds : Array Nat) (h : g.OK ds) (p : Nat) (hp : p < ds.size) : 0 < g.subncol := by
  have := h.size; unfold Geo.subn at this
  rcases Nat.eq_zero_or_pos g.subncol with h0 | h0
  · rw [h0, Nat.mul_zero] at this; omega
  · exact h0

theorem Geo.cell_row (g : Geo) (ds : Array Nat) (h : g.OK ds) (p : Nat) (hp : p < ds.size) :
    g.cell p / g.ncol = p / g.subncol / g.cs :=
  subidx2idx_row _ _ _ _ (div_lt_ceilDiv _ _ _ h.cs (Nat.mod_lt _ (g.subncol_pos ds h p hp)))

theorem Geo.cell_col (g : Geo) (ds : Array Nat) (h : g.OK ds) (p : Nat) (hp : p < ds.size) :
    g.cell p % g.ncol = (p % g.subncol) / g.cs :=
  subidx2idx_col _ _ _ _ (div_lt_ceilDiv _ _ _ h.cs (Nat.mod_lt _ (g.subncol_pos ds h p hp)))

end Pf
