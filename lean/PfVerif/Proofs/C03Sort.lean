import PfVerif.Proofs.C03Order
import PfVerif.Proofs.C03RankAlg
/-! `order_cells('sort')`: `argsort(rank)[-n:]` with `n = #{rank ≥ 0}` is the rank-sorted list of the
cells of rank ≥ 0. -/
namespace Pf

/-- the last `#{f ≥ 0}` entries of a list sorted by `f` are its entries with `f ≥ 0` -/
theorem drop_sorted_eq_filter (f : Nat → Int) :
    ∀ (l : List Nat), l.Pairwise (fun a b => f a ≤ f b) →
      l.drop (l.length - l.countP (fun i => decide (0 ≤ f i))) = l.filter (fun i => decide (0 ≤ f i)) := by
  intro l
  induction l with
  | nil => intro _; rfl
  | cons a l ih =>
    intro hs
    rw [List.pairwise_cons] at hs
    by_cases ha : 0 ≤ f a
    · have hall : ∀ b ∈ a :: l, decide (0 ≤ f b) = true := by
        intro b hb
        simp only [List.mem_cons] at hb
        rcases hb with hb | hb
        · subst hb; simpa using ha
        · have := hs.1 b hb; simp only [decide_eq_true_eq]; omega
      rw [List.countP_eq_length.2 hall, List.filter_eq_self.2 hall]
      simp
    · have hna : ¬ decide (0 ≤ f a) = true := by simpa using ha
      rw [List.countP_cons_of_neg (p := fun i => decide (0 ≤ f i)) hna,
        List.filter_cons_of_neg (p := fun i => decide (0 ≤ f i)) hna]
      have hle : l.countP (fun i => decide (0 ≤ f i)) ≤ l.length := List.countP_le_length
      have : (a :: l).length - l.countP (fun i => decide (0 ≤ f i)) =
          (l.length - l.countP (fun i => decide (0 ≤ f i))) + 1 := by
        simp only [List.length_cons]; omega
      rw [this, List.drop_succ_cons]
      exact ih hs.2

theorem orderSort_spec (ds : Array Nat) (hwf : WF ds) (seq : List Nat) (h : orderSort ds = some seq)
    (hpit : ∃ p, p < ds.size ∧ ds[p]! = p) :
    ∃ r c, rank ds = some (r, c) ∧ RankCertA ds r ∧
      seq.Pairwise (fun a b => r[a]! ≤ r[b]!) ∧ seq.Nodup ∧
      (∀ i, i ∈ seq ↔ (i < ds.size ∧ 0 ≤ r[i]!)) ∧ seq.length = c := by
  obtain ⟨r, c, h1, h2, h3⟩ := rank_cert' ds hwf
  refine ⟨r, c, h1, h2, ?_⟩
  obtain ⟨s, hs⟩ : ∃ s, s = (List.range ds.size).mergeSort (rankLe r) := ⟨_, rfl⟩
  have hperm : s.Perm (List.range ds.size) := by rw [hs]; exact List.mergeSort_perm _ _
  have hsorted : s.Pairwise (fun a b => r[a]! ≤ r[b]!) := by
    have := List.pairwise_mergeSort (le := rankLe r)
      (fun a b c hab hbc => by simp only [rankLe, decide_eq_true_eq] at *; omega)
      (fun a b => by simp only [rankLe, Bool.or_eq_true, decide_eq_true_eq]; omega) (List.range ds.size)
    rw [← hs] at this
    exact this.imp (fun hab => by simpa [rankLe] using hab)
  have hcnt : s.countP (fun i => decide ((0:Int) ≤ r[i]!)) = c := by
    rw [hperm.countP_eq, h3]; rfl
  have hlen : s.length = ds.size := by rw [hperm.length_eq, List.length_range]
  have hc0 : c ≠ 0 := by
    obtain ⟨p, hp, hpp⟩ := hpit
    intro hc
    rw [hc] at hcnt
    have := List.countP_eq_zero.1 hcnt p ((hperm.mem_iff).2 (List.mem_range.2 hp))
    have h0 := h2.pit p hp hpp
    simp [h0] at this
  have hseq : seq = s.filter (fun i => decide ((0:Int) ≤ r[i]!)) := by
    simp only [orderSort, h1, Option.map_some, Option.some.injEq, ← hs, if_neg hc0] at h
    rw [← h, ← hlen, ← hcnt]
    exact drop_sorted_eq_filter (fun i => r[i]!) s hsorted
  have hnd : s.Nodup := (hperm.nodup_iff).2 List.nodup_range
  subst hseq
  refine ⟨hsorted.filter _, List.Nodup.sublist List.filter_sublist hnd, fun i => ?_, ?_⟩
  · simp only [List.mem_filter, decide_eq_true_eq, hperm.mem_iff, List.mem_range]
  · rw [← List.countP_eq_length_filter, hcnt]

end Pf
