import PfVerif.Proofs.C13_bounds2
import PfVerif.Proofs.C06Heap
/-! Helper lemmas for the `dem.fill_depressions` part of `Props/C13_bounds2.lean`: the raster-bounds test of the
source (`r < 0 or r == nrow or c < 0 or c == ncol`) is `Pf.C06.shift`, the logged pairs of one neighbour visit lie
in the raster, and the heap only ever holds cells of the raster. -/
namespace Pf.C13b2
open Pf Pf.C06

@[simp] theorem InB2_nil (nrow ncol : Nat) : InB2 nrow ncol [] := by intro e he; cases he

@[simp] theorem InB2_cons (nrow ncol : Nat) (e : Acc2) (l : List Acc2) :
    InB2 nrow ncol (e :: l) ↔ (0 ≤ e.r ∧ e.r < nrow ∧ 0 ≤ e.c ∧ e.c < ncol) ∧ InB2 nrow ncol l := by
  simp [InB2]

@[simp] theorem InB2_append (nrow ncol : Nat) (l1 l2 : List Acc2) :
    InB2 nrow ncol (l1 ++ l2) ↔ InB2 nrow ncol l1 ∧ InB2 nrow ncol l2 := by
  simp only [InB2, List.mem_append]
  constructor
  · intro h; exact ⟨fun e he => h e (Or.inl he), fun e he => h e (Or.inr he)⟩
  · rintro ⟨h1, h2⟩ e (he | he)
    · exact h1 e he
    · exact h2 e he

theorem offsets_bound {conn : Nat} {o : Int × Int} (h : o ∈ offsets conn) :
    -1 ≤ o.1 ∧ o.1 ≤ 1 ∧ -1 ≤ o.2 ∧ o.2 ≤ 1 := by
  obtain ⟨a, b⟩ := o
  unfold offsets at h
  split at h <;> simp only [List.mem_cons, Prod.mk.injEq, List.mem_nil_iff, or_false] at h <;> omega

theorem rc_of_lt {G : Grid} {i : Nat} (h : i < G.n) : i / G.ncol < G.nrow ∧ i % G.ncol < G.ncol := by
  unfold Grid.n at h
  have hpos : 0 < G.ncol := by
    rcases Nat.eq_zero_or_pos G.ncol with h0 | h0
    · rw [h0] at h; simp at h
    · exact h0
  exact ⟨Nat.div_lt_of_lt_mul (by rw [Nat.mul_comm]; exact h), Nat.mod_lt _ hpos⟩

/-- the row / column of a neighbour of a raster cell are at most `nrow` / `ncol`: this is why testing `r == nrow`
(and not `r >= nrow`) is enough -/
theorem nbr_le {G : Grid} {i0 : Nat} {conn : Nat} {o : Int × Int} (hi : i0 < G.n) (ho : o ∈ offsets conn) :
    ((i0 / G.ncol : Nat) : Int) + o.1 ≤ G.nrow ∧ ((i0 % G.ncol : Nat) : Int) + o.2 ≤ G.ncol ∧
    -1 ≤ ((i0 / G.ncol : Nat) : Int) + o.1 ∧ -1 ≤ ((i0 % G.ncol : Nat) : Int) + o.2 := by
  obtain ⟨h1, h2⟩ := rc_of_lt hi
  have := offsets_bound ho
  generalize i0 / G.ncol = ri at *
  generalize i0 % G.ncol = ci at *
  omega

theorem not_outside {G : Grid} {r c : Int} (h : outside G r c = false) (hr : r ≤ G.nrow) (hc : c ≤ G.ncol) :
    0 ≤ r ∧ r < G.nrow ∧ 0 ≤ c ∧ c < G.ncol := by
  unfold outside at h
  simp only [Bool.or_eq_false_iff, decide_eq_false_iff_not, beq_eq_false_iff_ne, ne_eq] at h
  omega

/-- the guard of the source is the `shift` of the model -/
theorem shift_outside {G : Grid} {i0 : Nat} {conn : Nat} {o : Int × Int} (hi : i0 < G.n) (ho : o ∈ offsets conn) :
    shift G i0 o.1 o.2 =
      if outside G (((i0 / G.ncol : Nat) : Int) + o.1) (((i0 % G.ncol : Nat) : Int) + o.2) then none
      else some ((((i0 / G.ncol : Nat) : Int) + o.1).toNat * G.ncol + (((i0 % G.ncol : Nat) : Int) + o.2).toNat) := by
  obtain ⟨h1, h2, _, _⟩ := nbr_le hi ho
  unfold shift
  dsimp only
  cases hout : outside G (((i0 / G.ncol : Nat) : Int) + o.1) (((i0 % G.ncol : Nat) : Int) + o.2) with
  | false =>
    have := not_outside hout h1 h2
    rw [if_neg (by omega)]
    simp
  | true =>
    unfold outside at hout
    simp only [Bool.or_eq_true, decide_eq_true_eq, beq_iff_eq] at hout
    rw [if_pos (by omega)]
    simp

theorem nbr_lt {G : Grid} {r c : Int} (h : 0 ≤ r ∧ r < G.nrow ∧ 0 ≤ c ∧ c < G.ncol) :
    r.toNat * G.ncol + c.toNat < G.n := by
  apply rc_lt <;> omega

theorem reopenLog_inb (G : Grid) (conn : Nat) (nod : Array Bool) (r c : Int) :
    InB2 G.nrow G.ncol (reopenLog G conn nod r c) := by
  unfold reopenLog
  have : ∀ (os : List (Int × Int)) (l0 : List Acc2), InB2 G.nrow G.ncol l0 →
      InB2 G.nrow G.ncol (os.foldl (fun l o =>
        let r1 := r + o.1
        let c1 := c + o.2
        if r1 ≥ 0 ∧ r1 < G.nrow ∧ c1 ≥ 0 ∧ c1 < G.ncol then
          let l := (⟨.isnodata, r1, c1⟩ : Acc2) :: l
          if nod[r1.toNat * G.ncol + c1.toNat]! then l else ⟨.done, r1, c1⟩ :: l
        else l) l0) := by
    intro os
    induction os with
    | nil => intro l0 h; exact h
    | cons o os ih =>
      intro l0 h
      simp only [List.foldl_cons]
      apply ih
      split
      · rename_i hg
        split <;> simp only [InB2_cons, h, and_true] <;> omega
      · exact h
  exact this _ _ (InB2_nil _ _)

theorem ite_reset_q (lim : Bool) (elev : Array Int) (s : StD) (j : Nat) :
    (if lim = true then resetStep elev s j else s).q = s.q := by
  split
  · unfold resetStep; split <;> rfl
  · rfl

theorem fillStep_q (elev : Array Int) (z0 : Int) (s1 : StD) (j code : Nat) (e : HE)
    (he : e ∈ (fillStep elev z0 s1 j code).q) : e.idx = j ∨ e ∈ s1.q := by
  simp only [fillStep] at he
  split at he
  · rw [mem_hpush] at he
    rcases he with rfl | he
    · exact Or.inl rfl
    · exact Or.inr he
  · exact Or.inr he

section
variable (G : Grid) (conn : Nat) (elev : Array Int) (nod : Array Bool) (lim : Bool) (md : Int)

/-- one neighbour visit: the logged pairs lie in the raster, the heap keeps holding raster cells -/
theorem visitDL_inv (z0 : Int) (i0 : Nat) (s : StD) (o : Int × Int) (hi : i0 < G.n) (ho : o ∈ offsets conn)
    (hq : ∀ e ∈ s.q, e.idx < G.n) :
    (∀ e ∈ (visitDL G conn elev nod lim md z0 i0 s o).1.q, e.idx < G.n) ∧
    InB2 G.nrow G.ncol (visitDL G conn elev nod lim md z0 i0 s o).2 := by
  obtain ⟨h1, h2, _, _⟩ := nbr_le hi ho
  unfold visitDL
  dsimp only
  cases hout : outside G (((i0 / G.ncol : Nat) : Int) + o.1) (((i0 % G.ncol : Nat) : Int) + o.2) with
  | true => simp only [if_true]; exact ⟨hq, InB2_nil _ _⟩
  | false =>
    have hb := not_outside hout h1 h2
    have hj := nbr_lt hb
    have hre := reopenLog_inb G conn nod (((i0 / G.ncol : Nat) : Int) + o.1) (((i0 % G.ncol : Nat) : Int) + o.2)
    simp only [Bool.false_eq_true, if_false]
    split
    · exact ⟨hq, by simp only [InB2_cons, InB2_nil, and_true]; exact hb⟩
    · split
      · refine ⟨?_, ?_⟩
        · intro e he
          simp only [deepStep, mem_hpush] at he
          rcases he with rfl | he
          · exact hj
          · exact hq e he
        · simp only [InB2_append, InB2_cons, InB2_nil, and_true, hre, true_and]
          exact ⟨hb, hb, hb⟩
      · refine ⟨?_, ?_⟩
        · intro e he
          rcases fillStep_q _ _ _ _ _ e he with h | h
          · rw [h]; exact hj
          · rw [ite_reset_q] at h; exact hq e h
        · repeat' split
          all_goals simp only [InB2_cons, InB2_nil, and_true]
          all_goals simp only [hb, and_self]

theorem visitDL_fst_lim (z0 : Int) (i0 : Nat) (s : StD) (o : Int × Int) (hi : i0 < G.n) (ho : o ∈ offsets conn) :
    (visitDL G conn elev nod true md z0 i0 s o).1 = visitD G conn elev nod md z0 i0 s o := by
  unfold visitDL visitD
  rw [shift_outside hi ho]
  dsimp only
  split
  · rfl
  · dsimp only
    split
    · rfl
    · simp only [Bool.true_and, if_true]
      split <;> rfl

theorem visitDL_fst_nolim (z0 : Int) (i0 : Nat) (s : StD) (o : Int × Int) (hi : i0 < G.n) (ho : o ∈ offsets conn) :
    (visitDL G conn elev nod false md z0 i0 s o).1.toSt = visit G elev z0 i0 s.toSt o := by
  unfold visitDL visit
  rw [shift_outside hi ho]
  dsimp only
  split
  · rfl
  · dsimp only
    split
    · rename_i hd
      simp only [StD.toSt, hd, if_true]
    · rename_i hd
      simp only [StD.toSt, hd, Bool.false_and, Bool.false_eq_true, if_false, fillStep]
      rfl

/-- the neighbour loop of one popped cell (any sub-list of the offsets) -/
theorem visitFold_inv (z0 : Int) (i0 : Nat) (hi : i0 < G.n) (os : List (Int × Int)) (hos : ∀ o ∈ os, o ∈ offsets conn)
    (st : StD × List Acc2) (hq : ∀ e ∈ st.1.q, e.idx < G.n) (hl : InB2 G.nrow G.ncol st.2) :
    (∀ e ∈ (os.foldl (fun st o =>
        let r := visitDL G conn elev nod lim md z0 i0 st.1 o
        (r.1, r.2 ++ st.2)) st).1.q, e.idx < G.n) ∧
    InB2 G.nrow G.ncol (os.foldl (fun st o =>
        let r := visitDL G conn elev nod lim md z0 i0 st.1 o
        (r.1, r.2 ++ st.2)) st).2 ∧
    (lim = true → (os.foldl (fun st o =>
        let r := visitDL G conn elev nod lim md z0 i0 st.1 o
        (r.1, r.2 ++ st.2)) st).1 = os.foldl (visitD G conn elev nod md z0 i0) st.1) ∧
    (lim = false → (os.foldl (fun st o =>
        let r := visitDL G conn elev nod lim md z0 i0 st.1 o
        (r.1, r.2 ++ st.2)) st).1.toSt = os.foldl (visit G elev z0 i0) st.1.toSt) := by
  induction os generalizing st with
  | nil => exact ⟨hq, hl, fun _ => rfl, fun _ => rfl⟩
  | cons o os ih =>
    simp only [List.foldl_cons]
    have ho := hos o (List.mem_cons_self ..)
    obtain ⟨hq', hl'⟩ := visitDL_inv G conn elev nod lim md z0 i0 st.1 o hi ho hq
    have := ih (fun o' h' => hos o' (List.mem_cons_of_mem _ h'))
      ((visitDL G conn elev nod lim md z0 i0 st.1 o).1, (visitDL G conn elev nod lim md z0 i0 st.1 o).2 ++ st.2)
      hq' (by simp only [InB2_append]; exact ⟨hl', hl⟩)
    refine ⟨this.1, this.2.1, fun hlim => ?_, fun hlim => ?_⟩
    · rw [this.2.2.1 hlim]
      subst hlim
      rw [visitDL_fst_lim G conn elev nod md z0 i0 st.1 o hi ho]
    · rw [this.2.2.2 hlim]
      subst hlim
      rw [visitDL_fst_nolim G conn elev nod md z0 i0 st.1 o hi ho]

/-- the whole loop, any fuel -/
theorem fillLoopDL_inv (fuel : Nat) (st : StD × List Acc2) (hq : ∀ e ∈ st.1.q, e.idx < G.n)
    (hl : InB2 G.nrow G.ncol st.2) :
    InB2 G.nrow G.ncol (fillLoopDL G conn elev nod lim md fuel st).2 ∧
    (lim = true → (fillLoopDL G conn elev nod lim md fuel st).1 = fillLoopD G conn elev nod md fuel st.1) ∧
    (lim = false → (fillLoopDL G conn elev nod lim md fuel st).1.toSt = fillLoop G conn elev fuel st.1.toSt) := by
  induction fuel generalizing st with
  | zero => exact ⟨hl, fun _ => rfl, fun _ => rfl⟩
  | succ fuel ih =>
    obtain ⟨s, log⟩ := st
    unfold fillLoopDL fillLoopD fillLoop
    cases hqq : s.q with
    | nil =>
      have hq2 : (StD.toSt s).q = [] := hqq
      simp only [hq2]
      exact ⟨hl, fun _ => trivial, fun _ => trivial⟩
    | cons h rest =>
      simp only
      have hh : h.idx < G.n := hq h (by simp [hqq])
      have hrest : ∀ e ∈ ({ s with q := rest } : StD).q, e.idx < G.n := fun e he => hq e (by simp [hqq]; exact Or.inr he)
      obtain ⟨f1, f2, f3, f4⟩ := visitFold_inv G conn elev nod lim md h.z h.idx hh (offsets conn) (fun _ h => h)
        ({ s with q := rest }, log) hrest hl
      have := ih (popStepDL G conn elev nod lim md h ({ s with q := rest }, log)) f1 f2
      refine ⟨this.1, fun hlim => ?_, fun hlim => ?_⟩
      · rw [this.2.1 hlim]
        unfold popStepDL popStepD
        rw [f3 hlim]
      · rw [this.2.2 hlim]
        have : (StD.toSt s).q = h :: rest := hqq
        simp only [this]
        unfold popStepDL popStep
        rw [f4 hlim]
        rfl

end

theorem initHeapLog_inb (G : Grid) (queued : Array Bool) : InB2 G.nrow G.ncol (initHeapLog G queued) := by
  intro e he
  unfold initHeapLog at he
  simp only [List.mem_reverse, List.mem_map, List.mem_filter, List.mem_range] at he
  obtain ⟨i, ⟨hi, _⟩, rfl⟩ := he
  obtain ⟨h1, h2⟩ := rc_of_lt hi
  dsimp only
  generalize i / G.ncol = ri at *
  generalize i % G.ncol = ci at *
  omega

theorem initStateD_q (G : Grid) (elev : Array Int) (nod queued : Array Bool) :
    ∀ e ∈ (initStateD G elev nod queued).q, e.idx < G.n := by
  intro e he
  simp only [initStateD] at he
  obtain ⟨i, hi, _, rfl⟩ := (mem_initHeap G elev queued e).1 he
  exact hi

end Pf.C13b2
