import PfVerif.Proofs.C11Trace
/-! Helper lemmas for C11: existence of a stopping index (termination of `_trace`). Core Lean only. -/
namespace Pf

theorem stopAt_of_end {nxt : Array Nat} {mask : Option (Array Bool)} {maxLen : Option Int}
    {step : Nat → Nat → Int} {s k : Nat}
    (h : nxt[iterA nxt k s]! = iterA nxt k s ∨ nxt[iterA nxt k s]! = nxt.size) :
    stopAt nxt mask maxLen step s k = true := by
  simp only [stopAt, Bool.or_eq_true, beq_iff_eq]
  rcases h with h | h
  · exact Or.inl (Or.inl (Or.inr h))
  · exact Or.inl (Or.inr h)

theorem stopAt_of_mask {nxt : Array Nat} {mask : Option (Array Bool)} {maxLen : Option Int}
    {step : Nat → Nat → Int} {s k : Nat} (h : maskHit mask (iterA nxt k s) = true) :
    stopAt nxt mask maxLen step s k = true := by
  simp [stopAt, h]

theorem stopAt_of_over {nxt : Array Nat} {mask : Option (Array Bool)} {step : Nat → Nat → Int} {s k : Nat}
    {ml : Int} (h : cumLen nxt step s k + step (iterA nxt k s) nxt[iterA nxt k s]! > ml) :
    stopAt nxt mask (some ml) step s k = true := by
  simp [stopAt, overLen, h]

theorem cumLen_ge (nxt : Array Nat) (step : Nat → Nat → Int) (s : Nat) (hstep : ∀ i j, 1 ≤ step i j) :
    ∀ k : Nat, (k : Int) ≤ cumLen nxt step s k
  | 0 => by simp [cumLen]
  | k+1 => by
    have := cumLen_ge nxt step s hstep k
    have := hstep (iterA nxt k s) (iterA nxt (k+1) s)
    simp only [cumLen]; omega

theorem cumLen_ge_mul (nxt : Array Nat) (step : Nat → Nat → Int) (s : Nat) (δ : Int)
    (hstep : ∀ i j, δ ≤ step i j) : ∀ k : Nat, δ * (k : Int) ≤ cumLen nxt step s k
  | 0 => by simp [cumLen]
  | k+1 => by
    have := cumLen_ge_mul nxt step s δ hstep k
    have := hstep (iterA nxt k s) (iterA nxt (k+1) s)
    simp only [cumLen, Int.natCast_succ, Int.mul_add, Int.mul_one]; omega

theorem cumLen_const (nxt : Array Nat) (one : Int) (s : Nat) :
    ∀ k : Nat, cumLen nxt (stepConst one) s k = one * k
  | 0 => by simp [cumLen]
  | k+1 => by
    have := cumLen_const nxt one s k
    simp only [cumLen, stepConst, this, Int.natCast_succ, Int.mul_add, Int.mul_one]

/-- a strictly decreasing measure along the walk yields a cell that is a pit / has no next cell -/
theorem exists_end_of_measure (nxt : Array Nat) (P : Nat → Prop) (μ : Nat → Nat)
    (hμ : ∀ c, P c → nxt[c]! ≠ c → nxt[c]! ≠ nxt.size → P nxt[c]! ∧ μ nxt[c]! < μ c) :
    ∀ (b c : Nat), P c → μ c ≤ b →
      ∃ k, k ≤ b ∧ (nxt[iterA nxt k c]! = iterA nxt k c ∨ nxt[iterA nxt k c]! = nxt.size) := by
  intro b
  induction b with
  | zero =>
    intro c hP hb
    by_cases h1 : nxt[c]! = c
    · exact ⟨0, Nat.le_refl _, Or.inl h1⟩
    · by_cases h2 : nxt[c]! = nxt.size
      · exact ⟨0, Nat.le_refl _, Or.inr h2⟩
      · have := (hμ c hP h1 h2).2; omega
  | succ b ih =>
    intro c hP hb
    by_cases h1 : nxt[c]! = c
    · exact ⟨0, Nat.zero_le _, Or.inl h1⟩
    · by_cases h2 : nxt[c]! = nxt.size
      · exact ⟨0, Nat.zero_le _, Or.inr h2⟩
      · obtain ⟨hP', hlt⟩ := hμ c hP h1 h2
        obtain ⟨k, hk, hend⟩ := ih nxt[c]! hP' (by omega)
        exact ⟨k+1, by omega, hend⟩

/-- along a downstream-first order every cell reaches a pit within `seq.length - 1` steps -/
theorem Topo.reaches_pit {ds : Array Nat} {seq : List Nat} (h : Topo ds seq) :
    ∀ i ∈ seq, ∃ k, k < seq.length ∧ ds[iterA ds k i]! = iterA ds k i := by
  induction h with
  | nil => intro i hi; cases hi
  | @snoc pre i _ _ hds ih =>
    intro j hj
    simp only [List.mem_append, List.mem_singleton] at hj
    rcases hj with hj | hj
    · obtain ⟨k, hk, hp⟩ := ih j hj
      exact ⟨k, by simp; omega, hp⟩
    · subst hj
      rcases hds with hd | hd
      · exact ⟨0, by simp, hd⟩
      · obtain ⟨k, hk, hp⟩ := ih _ hd
        exact ⟨k+1, by simp; omega, hp⟩

/-- in a downstream-first order the downstream cell comes strictly earlier -/
theorem Topo.idxOf_lt {ds : Array Nat} {seq : List Nat} (h : Topo ds seq) :
    ∀ i ∈ seq, ds[i]! ≠ i → seq.idxOf ds[i]! < seq.idxOf i := by
  induction h with
  | nil => intro i hi; cases hi
  | @snoc pre i hpre hi hds ih =>
    intro j hj hne
    have hmem := Topo.ds_mem hpre
    simp only [List.mem_append, List.mem_singleton] at hj
    rcases hj with hj | hj
    · rw [List.idxOf_append, List.idxOf_append, if_pos hj, if_pos (hmem j hj)]
      exact ih j hj hne
    · subst hj
      rcases hds with hd | hd
      · exact absurd hd hne
      · rw [List.idxOf_append, List.idxOf_append, if_pos hd, if_neg hi]
        have := List.idxOf_lt_length_of_mem hd
        omega

end Pf
