import PfVerif.Proofs.C20Cert
/-! C20: partial correctness of the spreading loop itself (`spLoop`), for every input. Core Lean only.

The invariant is the one of a label-correcting shortest-path algorithm and does not depend on the
order in which heap entries are popped:
 * every reached cell carries the cost of an actual walk from its reported origin (`SpBase.walk`);
 * every reached cell is either *pending* (its current `(dst, cell)` is in the heap) or *relaxed*
   (all its allowed neighbours are reached and satisfy `dst b ≤ dst a + w(a, b)`).
When the heap is empty every reached cell is relaxed, which is feasibility; together with the
walks this is optimality. The pop order (Dijkstra) only matters for the number of iterations. -/
namespace Pf
open SpGrid

/-- the state after the update branch of `relax` -/
def SpState.upd (G : SpGrid) (st : SpState) (a b : Nat) (d : Rat) : SpState :=
  { src := st.src.setIfInBounds b st.src[a]!, dst := st.dst.setIfInBounds b d,
    out := st.out.setIfInBounds b G.obs[(st.src[a]!).toNat]!, heap := (d, b) :: st.heap }

theorem relax_cases (G : SpGrid) (a : Nat) (d0 : Rat) (st : SpState) (o : Int × Int) :
    (relax G a d0 st o = st ∧ ∀ b, G.nbrOf a o = some b → G.allowed b = true →
        st.src[b]! ≠ -1 ∧ st.dst[b]! ≤ d0 + G.wgt a o) ∨
    (∃ b, G.nbrOf a o = some b ∧ G.allowed b = true ∧ (st.src[b]! = -1 ∨ d0 + G.wgt a o < st.dst[b]!) ∧
        relax G a d0 st o = st.upd G a b (d0 + G.wgt a o)) := by
  unfold relax
  cases hn : G.nbrOf a o with
  | none => left; exact ⟨rfl, fun b hb => by simp at hb⟩
  | some b =>
    simp only []
    by_cases hab : G.allowed b = false
    · left
      rw [if_pos hab]
      refine ⟨rfl, fun b' hb' ha' => ?_⟩
      have : b' = b := by simpa using hb'.symm
      subst this
      rw [hab] at ha'; exact absurd ha' (by simp)
    · have hab' : G.allowed b = true := by simpa using hab
      rw [if_neg hab]
      by_cases hc : st.src[b]! = -1 ∨ d0 + G.wgt a o < st.dst[b]!
      · right
        rw [if_pos hc]
        exact ⟨b, rfl, hab', hc, rfl⟩
      · left
        rw [if_neg hc]
        refine ⟨rfl, fun b' hb' _ => ?_⟩
        have : b' = b := by simpa using hb'.symm
        subst this
        have h1 : st.src[b']! ≠ -1 := fun h => hc (Or.inl h)
        have h2 : ¬ d0 + G.wgt a o < st.dst[b']! := fun h => hc (Or.inr h)
        exact ⟨h1, by grind⟩

structure SpBase (G : SpGrid) (st : SpState) : Prop where
  ssz : st.src.size = G.n
  dsz : st.dst.size = G.n
  osz : st.out.size = G.n
  dis : ∀ i, i < G.n → G.allowed i = false →
    st.src[i]! = (if G.obs[i]! ≠ G.nodata then (i : Int) else -1) ∧ st.dst[i]! = 0 ∧ st.out[i]! = G.obs[i]!
  unr : ∀ i, i < G.n → st.src[i]! = -1 → st.dst[i]! = 0 ∧ st.out[i]! = G.obs[i]!
  walk : ∀ i, i < G.n → G.allowed i = true → st.src[i]! ≠ -1 →
    ∃ s : Nat, st.src[i]! = (s : Int) ∧ SpWalk G s i st.dst[i]! ∧ st.out[i]! = G.obs[s]!
  srcs : ∀ i, i < G.n → G.isSource i = true → st.src[i]! = (i : Int) ∧ st.dst[i]! = 0 ∧ st.out[i]! = G.obs[i]!
  nonneg : ∀ i, i < G.n → 0 ≤ st.dst[i]!
  heap : ∀ e ∈ st.heap, e.2 < G.n ∧ G.allowed e.2 = true ∧ st.src[e.2]! ≠ -1 ∧ st.dst[e.2]! ≤ e.1

/-- the neighbours of `a` in the directions selected by `D` are reached and feasible -/
def RelaxedOn (G : SpGrid) (st : SpState) (a : Nat) (D : Int × Int → Prop) : Prop :=
  ∀ d ∈ nbrOffsets, D d → ∀ b, G.nbrOf a d = some b → G.allowed b = true →
    st.src[b]! ≠ -1 ∧ st.dst[b]! ≤ st.dst[a]! + G.wgt a d

def Pend (G : SpGrid) (st : SpState) (a : Nat) : Prop :=
  (st.dst[a]!, a) ∈ st.heap ∨ RelaxedOn G st a (fun _ => True)

/-- every reached allowed cell other than `ex` is pending or relaxed -/
def PendAll (G : SpGrid) (st : SpState) (ex : Nat → Prop) : Prop :=
  ∀ a, a < G.n → ¬ ex a → G.allowed a = true → st.src[a]! ≠ -1 → Pend G st a

section upd
variable {G : SpGrid} {st : SpState} {a0 b : Nat} {o : Int × Int}

theorem upd_other (d : Rat) (i : Nat) (h : i ≠ b) :
    (st.upd G a0 b d).src[i]! = st.src[i]! ∧ (st.upd G a0 b d).dst[i]! = st.dst[i]! ∧
      (st.upd G a0 b d).out[i]! = st.out[i]! := by
  have h' : ¬ (b = i ∧ b < st.src.size) := fun x => h x.1.symm
  have h'' : ¬ (b = i ∧ b < st.dst.size) := fun x => h x.1.symm
  have h''' : ¬ (b = i ∧ b < st.out.size) := fun x => h x.1.symm
  simp only [SpState.upd, get!_setIfInBounds, h', h'', h''', if_false, and_self]

theorem upd_self (hb : SpBase G st) (d : Rat) (hbn : b < G.n) :
    (st.upd G a0 b d).src[b]! = st.src[a0]! ∧ (st.upd G a0 b d).dst[b]! = d ∧
      (st.upd G a0 b d).out[b]! = G.obs[(st.src[a0]!).toNat]! := by
  have h1 : b < st.src.size := by rw [hb.ssz]; exact hbn
  have h2 : b < st.dst.size := by rw [hb.dsz]; exact hbn
  have h3 : b < st.out.size := by rw [hb.osz]; exact hbn
  simp only [SpState.upd, get!_setIfInBounds, h1, h2, h3, and_self, if_true]

/-- the update branch preserves the base invariant -/
theorem upd_base (hb : SpBase G st) (ha0 : a0 < G.n) (haa : G.allowed a0 = true) (has : st.src[a0]! ≠ -1)
    (hw : 0 ≤ G.wgt a0 o) (ho : o ∈ nbrOffsets) (hn : G.nbrOf a0 o = some b) (hab : G.allowed b = true)
    (hc : st.src[b]! = -1 ∨ st.dst[a0]! + G.wgt a0 o < st.dst[b]!) :
    b ≠ a0 ∧ SpBase G (st.upd G a0 b (st.dst[a0]! + G.wgt a0 o)) := by
  have hbn : b < G.n := G.nbrOf_lt hn
  have hne : b ≠ a0 := by
    intro h; subst h
    rcases hc with h | h
    · exact has h
    · grind
  obtain ⟨us, ud, uo⟩ := upd_self (a0 := a0) hb (st.dst[a0]! + G.wgt a0 o) hbn
  have hd0 : 0 ≤ st.dst[a0]! := hb.nonneg a0 ha0
  refine ⟨hne, ⟨by simp [SpState.upd, hb.ssz], by simp [SpState.upd, hb.dsz], by simp [SpState.upd, hb.osz],
    ?_, ?_, ?_, ?_, ?_, ?_⟩⟩
  · intro i hi hia
    have : i ≠ b := by intro h; subst h; rw [hab] at hia; exact absurd hia (by simp)
    obtain ⟨e1, e2, e3⟩ := upd_other (G := G) (st := st) (a0 := a0) (st.dst[a0]! + G.wgt a0 o) i this
    rw [e1, e2, e3]; exact hb.dis i hi hia
  · intro i hi his
    by_cases hib : i = b
    · subst hib; rw [us] at his; exact absurd his has
    · obtain ⟨e1, e2, e3⟩ := upd_other (G := G) (st := st) (a0 := a0) (st.dst[a0]! + G.wgt a0 o) i hib
      rw [e1] at his; rw [e2, e3]; exact hb.unr i hi his
  · intro i hi hia his
    by_cases hib : i = b
    · subst hib
      obtain ⟨s, h1, h2, _⟩ := hb.walk a0 ha0 haa has
      refine ⟨s, by rw [us, h1], ?_, ?_⟩
      · rw [ud]; exact SpWalk.step o h2 ho hn hab
      · rw [uo, h1]; simp
    · obtain ⟨e1, e2, e3⟩ := upd_other (G := G) (st := st) (a0 := a0) (st.dst[a0]! + G.wgt a0 o) i hib
      rw [e1] at his; rw [e1, e2, e3]; exact hb.walk i hi hia his
  · intro i hi hsi
    have hib : i ≠ b := by
      intro h; subst h
      obtain ⟨h1, h2, _⟩ := hb.srcs i hi hsi
      rcases hc with h | h
      · rw [h1] at h; omega
      · rw [h2] at h; grind
    obtain ⟨e1, e2, e3⟩ := upd_other (G := G) (st := st) (a0 := a0) (st.dst[a0]! + G.wgt a0 o) i hib
    rw [e1, e2, e3]; exact hb.srcs i hi hsi
  · intro i hi
    by_cases hib : i = b
    · subst hib; rw [ud]; grind
    · obtain ⟨_, e2, _⟩ := upd_other (G := G) (st := st) (a0 := a0) (st.dst[a0]! + G.wgt a0 o) i hib
      rw [e2]; exact hb.nonneg i hi
  · intro e he
    have he' : e = (st.dst[a0]! + G.wgt a0 o, b) ∨ e ∈ st.heap := by
      simpa [SpState.upd] using he
    rcases he' with rfl | he'
    · refine ⟨hbn, hab, ?_, ?_⟩
      · show (st.upd G a0 b _).src[b]! ≠ -1
        rw [us]; exact has
      · show (st.upd G a0 b _).dst[b]! ≤ _
        rw [ud]; grind
    · obtain ⟨h1, h2, h3, h4⟩ := hb.heap e he'
      by_cases heb : e.2 = b
      · refine ⟨h1, h2, ?_, ?_⟩
        · rw [heb, us]; exact has
        · rw [heb, ud]
          rw [heb] at h3 h4
          rcases hc with h | h
          · exact absurd h h3
          · grind
      · obtain ⟨e1, e2, _⟩ := upd_other (G := G) (st := st) (a0 := a0) (st.dst[a0]! + G.wgt a0 o) e.2 heb
        exact ⟨h1, h2, by rw [e1]; exact h3, by rw [e2]; exact h4⟩

/-- reached cells stay reached and distances only decrease -/
theorem upd_mono (hb : SpBase G st) (has : st.src[a0]! ≠ -1) (hbn : b < G.n) (d : Rat)
    (hc : st.src[b]! = -1 ∨ d < st.dst[b]!) (i : Nat) (his : st.src[i]! ≠ -1) :
    (st.upd G a0 b d).src[i]! ≠ -1 ∧ (st.upd G a0 b d).dst[i]! ≤ st.dst[i]! := by
  by_cases hib : i = b
  · subst hib
    obtain ⟨us, ud, _⟩ := upd_self (a0 := a0) hb d hbn
    rw [us, ud]
    rcases hc with h | h
    · exact absurd h his
    · exact ⟨has, by grind⟩
  · obtain ⟨e1, e2, _⟩ := upd_other (G := G) (st := st) (a0 := a0) d i hib
    rw [e1, e2]; exact ⟨his, by grind⟩

theorem upd_relaxedOn (hb : SpBase G st) (has : st.src[a0]! ≠ -1) (hbn : b < G.n) (d : Rat)
    (hc : st.src[b]! = -1 ∨ d < st.dst[b]!) (a : Nat) (hab : a ≠ b) (D : Int × Int → Prop)
    (h : RelaxedOn G st a D) : RelaxedOn G (st.upd G a0 b d) a D := by
  intro d' hd' hD b' hn' hab'
  obtain ⟨h1, h2⟩ := h d' hd' hD b' hn' hab'
  obtain ⟨m1, m2⟩ := upd_mono (a0 := a0) hb has hbn d hc b' h1
  obtain ⟨_, e2, _⟩ := upd_other (G := G) (st := st) (a0 := a0) d a hab
  rw [e2]
  exact ⟨m1, by grind⟩

theorem upd_pendAll (hb : SpBase G st) (has : st.src[a0]! ≠ -1) (hbn : b < G.n) (d : Rat)
    (hc : st.src[b]! = -1 ∨ d < st.dst[b]!) (ex : Nat → Prop) (h : PendAll G st ex) :
    PendAll G (st.upd G a0 b d) ex := by
  intro a ha hex haa has'
  by_cases hab : a = b
  · subst hab
    obtain ⟨_, ud, _⟩ := upd_self (a0 := a0) hb d hbn
    left
    rw [ud]
    simp [SpState.upd]
  · obtain ⟨e1, e2, _⟩ := upd_other (G := G) (st := st) (a0 := a0) d a hab
    rw [e1] at has'
    rcases h a ha hex haa has' with hp | hp
    · left; rw [e2]; simp [SpState.upd, hp]
    · right; exact upd_relaxedOn hb has hbn d hc a hab _ hp

end upd

/-- one direction of the neighbour loop -/
theorem relax_step {G : SpGrid} {st : SpState} {a0 : Nat} {o : Int × Int} {D : Int × Int → Prop}
    (hw : ∀ a d, 0 ≤ G.wgt a d)
    (hb : SpBase G st) (ha0 : a0 < G.n) (haa : G.allowed a0 = true) (has : st.src[a0]! ≠ -1)
    (ho : o ∈ nbrOffsets) (hp : PendAll G st (· = a0)) (hr : RelaxedOn G st a0 D) :
    let st' := relax G a0 st.dst[a0]! st o
    SpBase G st' ∧ st'.src[a0]! ≠ -1 ∧ st'.dst[a0]! = st.dst[a0]! ∧ PendAll G st' (· = a0) ∧
      RelaxedOn G st' a0 (fun d => D d ∨ d = o) := by
  intro st'
  rcases relax_cases G a0 st.dst[a0]! st o with ⟨heq, hinfo⟩ | ⟨b, hn, hab, hc, heq⟩
  · have : st' = st := heq
    rw [this]
    refine ⟨hb, has, rfl, hp, ?_⟩
    intro d hd hD b hn hab
    rcases hD with hD | rfl
    · exact hr d hd hD b hn hab
    · exact hinfo b hn hab
  · have : st' = st.upd G a0 b (st.dst[a0]! + G.wgt a0 o) := heq
    rw [this]
    have hbn : b < G.n := G.nbrOf_lt hn
    obtain ⟨hne, hb'⟩ := upd_base hb ha0 haa has (hw a0 o) ho hn hab hc
    obtain ⟨e1, e2, _⟩ := upd_other (G := G) (st := st) (a0 := a0) (st.dst[a0]! + G.wgt a0 o) a0 hne.symm
    refine ⟨hb', by rw [e1]; exact has, e2, upd_pendAll hb has hbn _ hc _ hp, ?_⟩
    intro d hd hD b' hn' hab'
    rcases hD with hD | rfl
    · exact upd_relaxedOn hb has hbn _ hc a0 hne.symm D hr d hd hD b' hn' hab'
    · have : b' = b := by rw [hn] at hn'; simpa using hn'.symm
      subst this
      obtain ⟨us, ud, _⟩ := upd_self (a0 := a0) hb (st.dst[a0]! + G.wgt a0 d) hbn
      rw [us, ud, e2]
      exact ⟨has, by grind⟩

/-- the whole neighbour loop -/
theorem relax_fold {G : SpGrid} {a0 : Nat} {d0 : Rat} (hw : ∀ a d, 0 ≤ G.wgt a d) (ha0 : a0 < G.n)
    (haa : G.allowed a0 = true) :
    ∀ (os : List (Int × Int)) (st : SpState) (D : Int × Int → Prop), (∀ o ∈ os, o ∈ nbrOffsets) →
      SpBase G st → st.src[a0]! ≠ -1 → st.dst[a0]! = d0 → PendAll G st (· = a0) → RelaxedOn G st a0 D →
      let st' := os.foldl (relax G a0 d0) st
      SpBase G st' ∧ st'.src[a0]! ≠ -1 ∧ st'.dst[a0]! = d0 ∧ PendAll G st' (· = a0) ∧
        RelaxedOn G st' a0 (fun d => D d ∨ d ∈ os) := by
  intro os
  induction os with
  | nil =>
    intro st D _ hb has hd hp hr
    refine ⟨hb, has, hd, hp, ?_⟩
    intro d hd' hD
    rcases hD with hD | hD
    · exact hr d hd' hD
    · simp at hD
  | cons o os ih =>
    intro st D hos hb has hd hp hr
    have hstep := relax_step (o := o) hw hb ha0 haa has (hos o (by simp)) hp hr
    simp only [] at hstep
    rw [hd] at hstep
    obtain ⟨h1, h2, h3, h4, h5⟩ := hstep
    have := ih (relax G a0 d0 st o) (fun d => D d ∨ d = o) (fun o' ho' => hos o' (by simp [ho'])) h1 h2 h3 h4 h5
    simp only [List.foldl_cons]
    obtain ⟨g1, g2, g3, g4, g5⟩ := this
    refine ⟨g1, g2, g3, g4, ?_⟩
    intro d hd' hD
    apply g5 d hd'
    rcases hD with hD | hD
    · exact Or.inl (Or.inl hD)
    · rcases List.mem_cons.1 hD with rfl | hD
      · exact Or.inl (Or.inr rfl)
      · exact Or.inr hD

theorem heapMin_mem : ∀ (h : List (Rat × Nat)) (e : Rat × Nat), heapMin h = some e → e ∈ h := by
  intro h e he
  cases h with
  | nil => simp [heapMin] at he
  | cons x t =>
    simp only [heapMin, Option.some.injEq] at he
    subst he
    suffices ∀ (t : List (Rat × Nat)) (x : Rat × Nat),
        t.foldl (fun m y => if keyLt y m then y else m) x ∈ x :: t from this t x
    intro t
    induction t with
    | nil => intro x; simp
    | cons y t ih =>
      intro x
      simp only [List.foldl_cons]
      have := ih (if keyLt y x then y else x)
      rcases List.mem_cons.1 this with h | h
      · rw [h]; split <;> simp
      · simp [h]

/-- the main loop preserves the invariant and ends with an empty heap -/
theorem spLoop_inv {G : SpGrid} (hw : ∀ a d, 0 ≤ G.wgt a d) :
    ∀ (fuel : Nat) (st st' : SpState), SpBase G st → PendAll G st (fun _ => False) →
      spLoop G fuel st = some st' → SpBase G st' ∧ PendAll G st' (fun _ => False) ∧ st'.heap = [] := by
  intro fuel
  induction fuel with
  | zero =>
    intro st st' hb hp h
    simp only [spLoop] at h
    split at h
    · rename_i he
      have : st' = st := by simpa using h.symm
      subst this
      exact ⟨hb, hp, by simpa using he⟩
    · simp at h
  | succ fuel ih =>
    intro st st' hb hp h
    simp only [spLoop] at h
    cases hm : heapMin st.heap with
    | none =>
      rw [hm] at h
      have : st' = st := by simpa using h.symm
      subst this
      refine ⟨hb, hp, ?_⟩
      cases hh : st'.heap with
      | nil => rfl
      | cons x t => rw [hh] at hm; simp [heapMin] at hm
    | some e =>
      rw [hm] at h
      simp only [] at h
      have hem : e ∈ st.heap := heapMin_mem _ _ hm
      obtain ⟨he1, he2, he3, he4⟩ := hb.heap e hem
      -- the state with the entry removed
      have hb1 : SpBase G { st with heap := st.heap.erase e } :=
        { hb with heap := fun e' he' => hb.heap e' (List.mem_of_mem_erase he') }
      split at h
      · -- stale entry
        rename_i hstale
        have hstale' : st.dst[e.2]! < e.1 := hstale
        refine ih _ _ hb1 ?_ h
        intro a ha hex haa has
        rcases hp a ha hex haa has with hq | hq
        · left
          show (st.dst[a]!, a) ∈ st.heap.erase e
          refine (List.mem_erase_of_ne ?_).2 hq
          intro heq
          rw [← heq] at hstale'
          simp only [] at hstale'
          grind
        · right; exact hq
      · rename_i hns
        have hns' : ¬ st.dst[e.2]! < e.1 := hns
        have hd0 : st.dst[e.2]! = e.1 := by grind
        have hp1 : PendAll G { st with heap := st.heap.erase e } (· = e.2) := by
          intro a ha hex haa has
          rcases hp a ha (fun x => x) haa has with hq | hq
          · left
            show (st.dst[a]!, a) ∈ st.heap.erase e
            refine (List.mem_erase_of_ne ?_).2 hq
            intro heq
            apply hex
            rw [← heq]
          · right; exact hq
        have hr1 : RelaxedOn G { st with heap := st.heap.erase e } e.2 (fun _ => False) :=
          fun d _ hD => absurd hD (fun x => x)
        have := relax_fold (d0 := e.1) hw he1 he2 nbrOffsets _ _ (fun o ho => ho) hb1 he3 hd0 hp1 hr1
        simp only [] at this
        obtain ⟨g1, g2, g3, g4, g5⟩ := this
        refine ih _ _ g1 ?_ h
        intro a ha _ haa has
        by_cases hae : a = e.2
        · subst hae
          right
          intro d hd _ b hn hab
          exact g5 d hd (Or.inr hd) b hn hab
        · exact g4 a ha hae haa has

/-! ### the initial state -/

/-- body of the initial loops -/
def spInitStep (G : SpGrid) (st : SpState) (i : Nat) : SpState :=
  if G.obs[i]! ≠ G.nodata then
    { st with heap := if G.allowed i then (0, i) :: st.heap else st.heap,
              src := st.src.setIfInBounds i (i : Int) }
  else st

theorem spInit_eq (G : SpGrid) : spInit G = (List.range G.n).foldl (spInitStep G)
    { src := Array.replicate G.n (-1), dst := Array.replicate G.n 0, out := G.obs, heap := [] } := rfl

structure SpInitInv (G : SpGrid) (m : Nat) (st : SpState) : Prop where
  ssz : st.src.size = G.n
  dst : st.dst = Array.replicate G.n 0
  out : st.out = G.obs
  src : ∀ i, i < G.n → st.src[i]! = if i < m ∧ G.obs[i]! ≠ G.nodata then (i : Int) else -1
  heap : ∀ e, e ∈ st.heap ↔ e.1 = 0 ∧ e.2 < m ∧ G.obs[e.2]! ≠ G.nodata ∧ G.allowed e.2 = true
  nodup : st.heap.Nodup
  len : st.heap.length ≤ m

theorem spInit_fold (G : SpGrid) : ∀ m, m ≤ G.n → SpInitInv G m ((List.range m).foldl (spInitStep G)
    { src := Array.replicate G.n (-1), dst := Array.replicate G.n 0, out := G.obs, heap := [] }) := by
  intro m
  induction m with
  | zero =>
    intro _
    refine ⟨by simp, rfl, rfl, ?_, ?_, List.nodup_nil, by simp⟩
    · intro i hi; simp [hi]
    · intro e; simp
  | succ m ih =>
    intro hm
    have ih := ih (by omega)
    rw [List.range_succ, List.foldl_append]
    simp only [List.foldl_cons, List.foldl_nil]
    generalize (List.range m).foldl (spInitStep G) _ = st at ih
    unfold spInitStep
    by_cases ho : G.obs[m]! = G.nodata
    · rw [if_neg (by simpa using ho)]
      refine ⟨ih.ssz, ih.dst, ih.out, ?_, ?_, ih.nodup, by have := ih.len; omega⟩
      · intro i hi
        rw [ih.src i hi]
        by_cases him : i = m
        · subst him; simp [ho]
        · have : (i < m + 1) ↔ (i < m) := by omega
          simp only [this]
      · intro e
        rw [ih.heap e]
        constructor
        · rintro ⟨h1, h2, h3, h4⟩; exact ⟨h1, by omega, h3, h4⟩
        · rintro ⟨h1, h2, h3, h4⟩
          refine ⟨h1, ?_, h3, h4⟩
          by_cases hem : e.2 = m
          · rw [hem] at h3; exact absurd ho h3
          · omega
    · rw [if_pos ho]
      have hmsz : m < st.src.size := by rw [ih.ssz]; omega
      refine ⟨by simp [ih.ssz], ih.dst, ih.out, ?_, ?_, ?_, ?_⟩
      rotate_left 2
      · show (if G.allowed m = true then (0, m) :: st.heap else st.heap).Nodup
        split
        · refine List.nodup_cons.2 ⟨?_, ih.nodup⟩
          intro hmem
          have := ((ih.heap _).1 hmem).2.1
          simp at this
        · exact ih.nodup
      · show (if G.allowed m = true then (0, m) :: st.heap else st.heap).length ≤ m + 1
        have := ih.len
        split
        · simp only [List.length_cons]; omega
        · omega
      · intro i hi
        simp only [get!_setIfInBounds, hmsz, and_true]
        by_cases him : m = i
        · subst him; simp [ho]
        · rw [if_neg him, ih.src i hi]
          have : (i < m + 1) ↔ (i < m) := by omega
          simp only [this]
      · intro e
        by_cases ha : G.allowed m = true
        · simp only [ha, if_true, List.mem_cons, ih.heap e]
          constructor
          · rintro (rfl | ⟨h1, h2, h3, h4⟩)
            · exact ⟨rfl, by simp, ho, ha⟩
            · exact ⟨h1, by omega, h3, h4⟩
          · rintro ⟨h1, h2, h3, h4⟩
            by_cases hem : e.2 = m
            · left; exact Prod.ext h1 hem
            · right; exact ⟨h1, by omega, h3, h4⟩
        · have ha' : G.allowed m = false := by simpa using ha
          simp only [ha', Bool.false_eq_true, if_false, ih.heap e]
          constructor
          · rintro ⟨h1, h2, h3, h4⟩; exact ⟨h1, by omega, h3, h4⟩
          · rintro ⟨h1, h2, h3, h4⟩
            refine ⟨h1, ?_, h3, h4⟩
            by_cases hem : e.2 = m
            · rw [hem] at h4; exact absurd h4 ha
            · omega

theorem spInit_inv (G : SpGrid) (hobs : G.obs.size = G.n) :
    SpBase G (spInit G) ∧ PendAll G (spInit G) (fun _ => False) := by
  have h := spInit_fold G G.n (Nat.le_refl _)
  rw [← spInit_eq] at h
  generalize spInit G = st at h
  have hdst : ∀ i : Nat, st.dst[i]! = 0 := by
    intro i
    rw [h.dst]
    by_cases hi : i < G.n
    · simp [hi]
    · simp [hi]; rfl
  have hsrc : ∀ i, i < G.n → (st.src[i]! ≠ -1 ↔ G.obs[i]! ≠ G.nodata) := by
    intro i hi
    rw [h.src i hi]
    by_cases ho : G.obs[i]! = G.nodata
    · simp [ho]
    · simp [ho, hi]
  have hsrc' : ∀ i, i < G.n → G.obs[i]! ≠ G.nodata → st.src[i]! = (i : Int) := by
    intro i hi ho
    rw [h.src i hi]; simp [hi, ho]
  refine ⟨⟨h.ssz, by rw [h.dst]; simp, by rw [h.out]; exact hobs, ?_, ?_, ?_, ?_, ?_, ?_⟩, ?_⟩
  · intro i hi _
    refine ⟨?_, hdst i, by rw [h.out]⟩
    rw [h.src i hi]; simp [hi]
  · intro i _ _
    exact ⟨hdst i, by rw [h.out]⟩
  · intro i hi ha hs
    have ho := (hsrc i hi).1 hs
    refine ⟨i, hsrc' i hi ho, ?_, by rw [h.out]⟩
    rw [hdst i]
    exact SpWalk.src i ((G.isSource_iff i).2 ⟨hi, ho, ha⟩)
  · intro i hi hs
    obtain ⟨_, ho, _⟩ := (G.isSource_iff i).1 hs
    exact ⟨hsrc' i hi ho, hdst i, by rw [h.out]⟩
  · intro i _
    rw [hdst i]; grind
  · intro e he
    obtain ⟨h1, h2, h3, h4⟩ := (h.heap e).1 he
    refine ⟨h2, h4, (hsrc e.2 h2).2 h3, ?_⟩
    rw [hdst, h1]; grind
  · intro a ha _ haa has
    left
    rw [hdst a]
    exact (h.heap (0, a)).2 ⟨rfl, ha, (hsrc a ha).1 has, haa⟩

end Pf
