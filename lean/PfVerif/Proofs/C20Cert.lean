import PfVerif.Model.C20
/-! C20: soundness of the spreading certificate (`spreadCert`). Core Lean only.

The certificate is local (one cell and its 8 neighbours at a time); the conclusions quantify over
all walks. Lower bound: induction on the walk. Attainment: the tight-predecessor chain has strictly
decreasing distance (positive step costs), so induction on the number of cells with smaller distance
ends at an observation cell — no pigeonhole argument is needed. -/
namespace Pf
open SpGrid

/-! ### grid facts -/

theorem get!_nonneg_of_all (f : Array Rat) (h : f.all (fun x => decide (0 ≤ x)) = true) (i : Nat) :
    0 ≤ f[i]! := by
  by_cases hi : i < f.size
  · rw [Array.all_eq_true] at h
    have := h i hi
    simp only [getElem!_pos f i hi]
    simpa using this
  · simp only [getElem!_neg f i hi]
    show (0 : Rat) ≤ 0
    grind


theorem SpGrid.nbrOf_lt (G : SpGrid) {a b : Nat} {o : Int × Int} (h : G.nbrOf a o = some b) : b < G.n := by
  unfold SpGrid.nbrOf at h
  simp only [] at h
  split at h
  · exact absurd h (by simp)
  · rename_i hc
    have hb : b = (((a / G.ncol : Nat) : Int) + o.1).toNat * G.ncol + (((a % G.ncol : Nat) : Int) + o.2).toNat := by
      simpa using h.symm
    have h1 : (((a / G.ncol : Nat) : Int) + o.1).toNat < G.nrow := by omega
    have h2 : (((a % G.ncol : Nat) : Int) + o.2).toNat < G.ncol := by omega
    generalize (((a / G.ncol : Nat) : Int) + o.1).toNat = r at hb h1
    generalize (((a % G.ncol : Nat) : Int) + o.2).toNat = c at hb h2
    have h3 : (r + 1) * G.ncol ≤ G.nrow * G.ncol := Nat.mul_le_mul_right _ h1
    rw [Nat.add_mul] at h3
    unfold SpGrid.n
    omega

theorem SpGrid.isSource_iff (G : SpGrid) (i : Nat) :
    G.isSource i = true ↔ i < G.n ∧ G.obs[i]! ≠ G.nodata ∧ G.allowed i = true := by
  simp [SpGrid.isSource, and_assoc]

theorem SpWalk.facts {G : SpGrid} {s c : Nat} {k : Rat} (h : SpWalk G s c k) :
    G.isSource s = true ∧ c < G.n ∧ G.allowed c = true := by
  induction h with
  | src hs => exact ⟨hs, ((G.isSource_iff _).1 hs).1, ((G.isSource_iff _).1 hs).2.2⟩
  | step o _ _ hn ha ih => exact ⟨ih.1, G.nbrOf_lt hn, ha⟩

/-! ### counting cells with smaller distance -/

theorem countP_lt_of_witness {l : List Nat} {p q : Nat → Bool} (hpq : ∀ x ∈ l, p x = true → q x = true)
    {a : Nat} (ha : a ∈ l) (hpa : p a = false) (hqa : q a = true) : l.countP p < l.countP q := by
  induction l with
  | nil => simp at ha
  | cons x t ih =>
    have hmono : t.countP p ≤ t.countP q :=
      List.countP_mono_left fun y hy hp => hpq y (List.mem_cons_of_mem _ hy) hp
    simp only [List.countP_cons]
    rcases List.mem_cons.1 ha with rfl | hat
    · simp only [hpa, hqa]; simp; omega
    · have := ih (fun y hy => hpq y (List.mem_cons_of_mem _ hy)) hat
      have hx := hpq x (by simp)
      cases hp : p x <;> cases hq : q x <;> simp <;> first | omega | (rw [hp] at hx; simp [hq] at hx)

/-- number of cells `< n` whose distance is smaller than `x` -/
def cntLt (dst : Array Rat) (n : Nat) (x : Rat) : Nat := (List.range n).countP fun c => decide (dst[c]! < x)

theorem cntLt_lt (dst : Array Rat) (n a : Nat) (y : Rat) (ha : a < n) (h : dst[a]! < y) :
    cntLt dst n dst[a]! < cntLt dst n y := by
  unfold cntLt
  refine countP_lt_of_witness (a := a) ?_ (List.mem_range.2 ha) ?_ ?_
  · intro x _ hx
    have hx' : dst[x]! < dst[a]! := by simpa using hx
    have : dst[x]! < y := by grind
    simpa using this
  · have : ¬ dst[a]! < dst[a]! := by grind
    simp
  · simpa using h

/-! ### the certificate as propositions -/

structure SpreadCertP (G : SpGrid) (o : SpOut) : Prop where
  dis : ∀ i, i < G.n → G.allowed i = false →
    o.src[i]! = (if G.obs[i]! ≠ G.nodata then (i : Int) else -1) ∧ o.dst[i]! = 0 ∧ o.out[i]! = G.obs[i]!
  srcs : ∀ i, i < G.n → G.isSource i = true → o.src[i]! = (i : Int) ∧ o.dst[i]! = 0 ∧ o.out[i]! = G.obs[i]!
  unr : ∀ i, i < G.n → G.allowed i = true → o.src[i]! = -1 → o.dst[i]! = 0 ∧ o.out[i]! = G.obs[i]!
  feas : ∀ a, a < G.n → G.allowed a = true → o.src[a]! ≠ -1 → ∀ d ∈ nbrOffsets, ∀ b, G.nbrOf a d = some b →
    G.allowed b = true → o.src[b]! ≠ -1 ∧ o.dst[b]! ≤ o.dst[a]! + G.wgt a d
  tight : ∀ b, b < G.n → G.allowed b = true → o.src[b]! ≠ -1 → G.isSource b = false →
    ∃ a, a < G.n ∧ G.allowed a = true ∧ o.src[a]! ≠ -1 ∧ ∃ d ∈ nbrOffsets, G.nbrOf a d = some b ∧
      o.dst[b]! = o.dst[a]! + G.wgt a d ∧ o.src[b]! = o.src[a]! ∧ o.out[b]! = o.out[a]!

theorem spreadCert_imp (G : SpGrid) (o : SpOut) (h : spreadCert G o = true) : SpreadCertP G o := by
  unfold spreadCert at h
  simp only [Bool.and_eq_true, List.all_eq_true, List.mem_range] at h
  obtain ⟨_, h⟩ := h
  refine ⟨?_, ?_, ?_, ?_, ?_⟩
  · intro i hi ha
    have := (h i hi).1.1.1.1
    simp only [certDisallowed, ha, Bool.false_or, Bool.and_eq_true, beq_iff_eq] at this
    refine ⟨?_, this.1.2, this.2⟩
    rw [this.1.1]
    by_cases hh : G.obs[i]! = G.nodata <;> simp [hh]
  · intro i hi hs
    have := (h i hi).1.1.1.2
    simp only [certSource, hs, Bool.not_true, Bool.false_or, Bool.and_eq_true, beq_iff_eq] at this
    exact ⟨this.1.1, this.1.2, this.2⟩
  · intro i hi ha hs
    have := (h i hi).1.1.2
    simp only [certUnreached, ha, hs, Bool.true_and, beq_self_eq_true, Bool.not_true, Bool.false_or,
      Bool.and_eq_true, beq_iff_eq] at this
    exact this
  · intro a ha haa hs d hd b hn hab
    have := (h a ha).1.2
    have hs' : (o.src[a]! != -1) = true := by simpa using hs
    simp only [certFeasible, haa, hs', Bool.and_self, Bool.not_true, Bool.false_or, List.all_eq_true] at this
    have := this d hd
    simp only [hn, hab, Bool.not_true, Bool.false_or, Bool.and_eq_true, bne_iff_ne, ne_eq,
      decide_eq_true_eq] at this
    exact this
  · intro b hb hab hs hns
    have := (h b hb).2
    have hs' : (o.src[b]! != -1) = true := by simpa using hs
    simp only [certTight, hab, hs', hns, Bool.not_false, Bool.and_self, Bool.not_true, Bool.false_or,
      List.any_eq_true, List.mem_range, Bool.and_eq_true, bne_iff_ne, ne_eq, beq_iff_eq] at this
    obtain ⟨a, ha, ⟨haa, has⟩, d, hd, ⟨⟨⟨h1, h2⟩, h3⟩, h4⟩⟩ := this
    exact ⟨a, ha, haa, has, d, hd, h1, h2, h3, h4⟩

theorem certPositive_imp (G : SpGrid) (h : certPositive G = true) :
    ∀ a, a < G.n → ∀ d ∈ nbrOffsets, ∀ b, G.nbrOf a d = some b → 0 < G.wgt a d := by
  intro a ha d hd b hn
  unfold certPositive at h
  simp only [List.all_eq_true, List.mem_range] at h
  have := h a ha d hd
  simpa [hn] using this

/-! ### soundness -/

/-- no walk from an observation is cheaper than the reported distance, and every cell a walk
reaches is reported as reached -/
theorem cert_lower {G : SpGrid} {o : SpOut} (hc : SpreadCertP G o) {s c : Nat} {k : Rat}
    (hw : SpWalk G s c k) : o.src[c]! ≠ -1 ∧ o.dst[c]! ≤ k := by
  induction hw with
  | src hs =>
    have hlt := ((G.isSource_iff _).1 hs).1
    obtain ⟨h1, h2, _⟩ := hc.srcs _ hlt hs
    refine ⟨by rw [h1]; omega, by rw [h2]; grind⟩
  | @step a b k d hwa hd hn hab ih =>
    obtain ⟨_, ha, haa⟩ := hwa.facts
    obtain ⟨h1, h2⟩ := hc.feas a ha haa ih.1 d hd b hn hab
    exact ⟨h1, by have := ih.2; grind⟩

/-- the reported distance is the cost of a walk from the reported origin, whose value is reported -/
theorem cert_attained {G : SpGrid} {o : SpOut} (hc : SpreadCertP G o)
    (hpos : ∀ a, a < G.n → ∀ d ∈ nbrOffsets, ∀ b, G.nbrOf a d = some b → 0 < G.wgt a d) :
    ∀ c, c < G.n → G.allowed c = true → o.src[c]! ≠ -1 →
      ∃ s : Nat, o.src[c]! = (s : Int) ∧ SpWalk G s c o.dst[c]! ∧ o.out[c]! = G.obs[s]! := by
  have key : ∀ m c, cntLt o.dst G.n o.dst[c]! = m → c < G.n → G.allowed c = true → o.src[c]! ≠ -1 →
      ∃ s : Nat, o.src[c]! = (s : Int) ∧ SpWalk G s c o.dst[c]! ∧ o.out[c]! = G.obs[s]! := by
    intro m
    induction m using Nat.strongRecOn with
    | _ m ih =>
      intro c hm hcn hca hcs
      by_cases hsrc : G.isSource c = true
      · obtain ⟨h1, h2, h3⟩ := hc.srcs c hcn hsrc
        exact ⟨c, h1, by rw [h2]; exact SpWalk.src c hsrc, h3⟩
      · have hsrc' : G.isSource c = false := by simpa using hsrc
        obtain ⟨a, ha, haa, has, d, hd, hn, hdst, hs, ho⟩ := hc.tight c hcn hca hcs hsrc'
        have hp := hpos a ha d hd c hn
        have hlt : o.dst[a]! < o.dst[c]! := by grind
        have hcnt := cntLt_lt o.dst G.n a o.dst[c]! ha hlt
        obtain ⟨s, h1, h2, h3⟩ := ih _ (hm ▸ hcnt) a rfl ha haa has
        refine ⟨s, by rw [hs, h1], ?_, by rw [ho, h3]⟩
        rw [hdst]
        exact SpWalk.step d h2 hd hn hca
  exact fun c => key _ c rfl

end Pf
