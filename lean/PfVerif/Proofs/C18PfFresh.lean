import PfVerif.Proofs.C18Part
/-! Pfafstetter, joint invariant (stage 4), part 3: fresh codes. Every pending entry `(c, d)` of `labs`
owns the block `[c, c + 10^(depth-d+1))`; blocks are pairwise disjoint and contain no code of
`pfaf_branch` other than their root. While `pfInner (pfaf0, d0)` runs, the not yet used part
`[lo, hi)` of the popped block is free of codes and of pending blocks. Pure interval arithmetic. -/
namespace Pf.C18
open Pf

/-- size of the block owned by a pending entry of level `d` -/
def Bsz (depth d : Nat) : Int := (10 : Int) ^ (depth - d + 1)

structure PfFresh (depth : Nat) (br : Array Int) (labs : List (Int × Nat)) : Prop where
  fa : ∀ e ∈ labs, ∀ s : Nat, e.1 ≤ br[s]! → br[s]! < e.1 + Bsz depth e.2 → br[s]! = e.1
  fb : labs.Pairwise (fun e e' => e.1 + Bsz depth e.2 ≤ e'.1 ∨ e'.1 + Bsz depth e'.2 ≤ e.1)

structure PfFreshIn (depth : Nat) (br : Array Int) (labs : List (Int × Nat)) (lo hi : Int) : Prop
    extends PfFresh depth br labs where
  i1 : ∀ e ∈ labs, e.1 + Bsz depth e.2 ≤ lo ∨ hi ≤ e.1
  i2 : ∀ s : Nat, br[s]! < lo ∨ hi ≤ br[s]!

variable {depth : Nat} {br r : Array Int} {labs : List (Int × Nat)} {lo hi : Int}

theorem PfFreshIn.mono (h : PfFreshIn depth br labs lo hi) {lo' : Int} (hle : lo ≤ lo') :
    PfFreshIn depth br labs lo' hi where
  fa := h.fa
  fb := h.fb
  i1 := fun e he => by rcases h.i1 e he with h1 | h1 <;> omega
  i2 := fun s => by rcases h.i2 s with h1 | h1 <;> omega

/-- the unused part of the popped block may also be cut from above (used for the pit loop) -/
theorem PfFreshIn.mono_hi (h : PfFreshIn depth br labs lo hi) {hi' : Int}
    (h1 : ∀ e ∈ labs, e.1 + Bsz depth e.2 ≤ lo) (h2 : ∀ s : Nat, br[s]! < lo) :
    PfFreshIn depth br labs lo hi' where
  fa := h.fa
  fb := h.fb
  i1 := fun e he => Or.inl (h1 e he)
  i2 := fun s => Or.inl (h2 s)

/-- writing the code `lo` (and nothing else), and optionally queueing it with the block `[lo, lo+p)` -/
theorem PfFreshIn.write (h : PfFreshIn depth br labs lo hi) {p : Int} (hp : 0 < p) (hle : lo + p ≤ hi)
    (hr : ∀ s : Nat, r[s]! = br[s]! ∨ r[s]! = lo) (b : Prop) [Decidable b] (d : Nat)
    (hB : b → Bsz depth d = p) :
    PfFreshIn depth r (if b then labs ++ [(lo, d)] else labs) (lo + p) hi := by
  have hold : ∀ e ∈ labs, ∀ s : Nat, e.1 ≤ r[s]! → r[s]! < e.1 + Bsz depth e.2 → r[s]! = e.1 := by
    intro e he s h1 h2
    rcases hr s with h3 | h3
    · rw [h3] at h1 h2 ⊢; exact h.fa e he s h1 h2
    · rw [h3] at h1 h2
      rcases h.i1 e he with h4 | h4 <;> omega
  have hi2 : ∀ s : Nat, r[s]! < lo + p ∨ hi ≤ r[s]! := by
    intro s
    rcases hr s with h3 | h3
    · rw [h3]; rcases h.i2 s with h4 | h4 <;> omega
    · rw [h3]; omega
  by_cases hb : b
  · rw [if_pos hb]
    have hBd := hB hb
    refine ⟨⟨?_, ?_⟩, ?_, hi2⟩
    · intro e he s h1 h2
      rcases List.mem_append.1 he with he | he
      · exact hold e he s h1 h2
      · simp only [List.mem_singleton] at he
        subst he
        simp only at h1 h2 ⊢
        rw [hBd] at h2
        rcases hr s with h3 | h3
        · rw [h3] at h1 h2
          rcases h.i2 s with h4 | h4 <;> omega
        · exact h3
    · rw [List.pairwise_append]
      refine ⟨h.fb, by simp, fun e he e' he' => ?_⟩
      simp only [List.mem_singleton] at he'
      subst he'
      simp only
      rw [hBd]
      rcases h.i1 e he with h4 | h4
      · exact Or.inl h4
      · exact Or.inr (by omega)
    · intro e he
      rcases List.mem_append.1 he with he | he
      · rcases h.i1 e he with h4 | h4
        · exact Or.inl (by omega)
        · exact Or.inr h4
      · simp only [List.mem_singleton] at he
        subst he
        simp only
        rw [hBd]
        exact Or.inl (Int.le_refl _)
  · rw [if_neg hb]
    refine ⟨⟨hold, h.fb⟩, ?_, hi2⟩
    intro e he
    rcases h.i1 e he with h4 | h4
    · exact Or.inl (by omega)
    · exact Or.inr h4

theorem Bsz_pop (depth d0 : Nat) : Bsz depth d0 = 10 * (10 : Int) ^ (depth - d0) := by
  unfold Bsz
  rw [Int.pow_succ, Int.mul_comm]

theorem Bsz_push {depth d0 : Nat} (h : d0 < depth) : Bsz depth (d0 + 1) = (10 : Int) ^ (depth - d0) := by
  unfold Bsz
  congr 1
  omega

/-- popping the head `(pfaf0, d0)`: everything of its block above `pfaf0` itself is unused -/
theorem PfFresh.pop {pfaf0 : Int} {d0 : Nat} (h : PfFresh depth br ((pfaf0, d0) :: labs)) :
    PfFreshIn depth br labs (pfaf0 + (10 : Int) ^ (depth - d0)) (pfaf0 + 10 * (10 : Int) ^ (depth - d0)) := by
  have hpp : (0 : Int) < (10 : Int) ^ (depth - d0) := Int.pow_pos (by decide)
  have hfb := List.pairwise_cons.1 h.fb
  refine ⟨⟨fun e he => h.fa e (List.mem_cons_of_mem _ he), hfb.2⟩, ?_, ?_⟩
  · intro e he
    have := hfb.1 e he
    simp only [Bsz_pop depth d0] at this
    rcases this with h1 | h1
    · exact Or.inr h1
    · exact Or.inl (by omega)
  · intro s
    have := h.fa (pfaf0, d0) (by simp) s
    simp only [Bsz_pop depth d0] at this
    by_cases h1 : br[s]! < pfaf0 + (10 : Int) ^ (depth - d0)
    · exact Or.inl h1
    · by_cases h2 : pfaf0 + 10 * (10 : Int) ^ (depth - d0) ≤ br[s]!
      · exact Or.inr h2
      · have := this (by omega) (by omega)
        omega

/-- dropping a head without tributaries -/
theorem PfFresh.tail {e : Int × Nat} (h : PfFresh depth br (e :: labs)) : PfFresh depth br labs :=
  ⟨fun e' he => h.fa e' (List.mem_cons_of_mem _ he), (List.pairwise_cons.1 h.fb).2⟩

theorem PfFresh.init (depth n : Nat) : PfFresh depth (Array.replicate n 0) [] :=
  ⟨fun _ he => absurd he (List.not_mem_nil), List.Pairwise.nil⟩

/-! ### linear facts about the codes written by `pfInner` -/

theorem pf_lo_bound (i : Nat) (hi : i ≤ 3) (p : Int) (hp : 0 < p) :
    (2 * (i : Int) + 1) * p + 2 * p ≤ 9 * p := by
  have : (2 * (i : Int) + 1) * p ≤ 7 * p := Int.mul_le_mul_of_nonneg_right (by omega) (by omega)
  omega

theorem pf_pint_eq (i : Nat) (p a : Int) :
    a + ((i : Int) + 1) * 2 * p = a + (2 * (i : Int) + 1) * p + p := by grind

theorem pf_lo_next (i : Nat) (p a : Int) :
    a + (2 * ((i + 1 : Nat) : Int) + 1) * p = a + (2 * (i : Int) + 1) * p + p + p := by grind

end Pf.C18
