import PfVerif.Proofs.C18Pfaf
/-! Algorithm-level digit invariant of `subbasins_pfafstetter`: every code ever written to
`pfaf_branch` is, modulo `10^depth`, a `depth`-digit number with digits in 1..9. Core Lean only. -/
namespace Pf

/-- value of a little-endian digit list (head = deepest level) -/
def ofDigits : List Int → Int
  | [] => 0
  | d :: l => d + 10 * ofDigits l

theorem ofDigits_set (l : List Int) : ∀ (e : Nat) (x y : Int), l[e]? = some y →
    ofDigits (l.set e x) = ofDigits l + (x - y) * (10 : Int) ^ e := by
  induction l with
  | nil => intro e x y h; simp at h
  | cons d l ih =>
    intro e x y h
    cases e with
    | zero =>
      simp only [List.getElem?_cons_zero, Option.some.injEq] at h
      subst h
      simp only [List.set_cons_zero, ofDigits, Int.pow_zero]
      omega
    | succ e =>
      simp only [List.getElem?_cons_succ] at h
      simp only [List.set_cons_succ, ofDigits, ih e x y h, Int.pow_succ]
      rw [← Int.mul_assoc]
      generalize (x - y) * (10 : Int) ^ e = t
      omega

theorem ofDigits_snoc (l : List Int) (x : Int) :
    ofDigits (l ++ [x]) = ofDigits l + x * (10 : Int) ^ l.length := by
  induction l with
  | nil => simp [ofDigits]
  | cons d l ih =>
    simp only [List.cons_append, ofDigits, ih, List.length_cons, Int.pow_succ]
    rw [← Int.mul_assoc]
    generalize x * (10 : Int) ^ l.length = t
    omega

theorem ofDigits_bounds (l : List Int) (h : ∀ d ∈ l, 1 ≤ d ∧ d ≤ 9) :
    0 ≤ ofDigits l ∧ ofDigits l < (10 : Int) ^ l.length := by
  induction l with
  | nil => simp [ofDigits]
  | cons d l ih =>
    have hd := h d (by simp)
    have := ih (fun x hx => h x (by simp [hx]))
    simp only [ofDigits, List.length_cons, Int.pow_succ]
    generalize (10 : Int) ^ l.length = t at this ⊢
    omega

/-- `c` is, modulo `10^depth`, a `depth`-digit number with digits in 1..9 -/
def Good (depth : Nat) (c : Int) : Prop :=
  ∃ (l : List Int) (q : Int), l.length = depth ∧ (∀ d ∈ l, 1 ≤ d ∧ d ≤ 9) ∧
    c = ofDigits l + (10 : Int) ^ depth * q

/-- … and its digits at levels `0..e` are still 1 (not yet subdivided) -/
def GoodLow (depth e : Nat) (c : Int) : Prop :=
  ∃ (l : List Int) (q : Int), l.length = depth ∧ (∀ d ∈ l, 1 ≤ d ∧ d ≤ 9) ∧
    c = ofDigits l + (10 : Int) ^ depth * q ∧ ∀ k, k ≤ e → k < depth → l[k]? = some 1

theorem GoodLow.good {depth e : Nat} {c : Int} (h : GoodLow depth e c) : Good depth c := by
  obtain ⟨l, q, h1, h2, h3, _⟩ := h
  exact ⟨l, q, h1, h2, h3⟩

/-- adding `δ·10^e` (δ in 1..8) to a code whose digit `e` is still 1 sets that digit to `1+δ` -/
theorem GoodLow.add {depth e : Nat} {c : Int} (h : GoodLow depth e c) (he : e < depth) (δ : Int)
    (h1 : 1 ≤ δ) (h8 : δ ≤ 8) :
    Good depth (c + δ * (10 : Int) ^ e) ∧
    ∀ e', e' < e → GoodLow depth e' (c + δ * (10 : Int) ^ e) := by
  obtain ⟨l, q, hlen, hdig, hc, hlow⟩ := h
  have hle : l[e]? = some 1 := hlow e (Nat.le_refl e) he
  have hval : c + δ * (10 : Int) ^ e = ofDigits (l.set e (1 + δ)) + (10 : Int) ^ depth * q := by
    rw [ofDigits_set l e (1 + δ) 1 hle, hc]
    have : (1 + δ - 1) = δ := by omega
    rw [this]
    generalize δ * (10 : Int) ^ e = t
    generalize (10 : Int) ^ depth * q = u
    omega
  have hdig' : ∀ d ∈ l.set e (1 + δ), 1 ≤ d ∧ d ≤ 9 := by
    intro d hd
    rcases List.mem_or_eq_of_mem_set hd with hd | hd
    · exact hdig d hd
    · subst hd; omega
  refine ⟨⟨l.set e (1 + δ), q, by simp [hlen], hdig', hval⟩, fun e' he' => ?_⟩
  refine ⟨l.set e (1 + δ), q, by simp [hlen], hdig', hval, fun k hk hkd => ?_⟩
  have hne : e ≠ k := by omega
  rw [List.getElem?_set_ne hne]
  exact hlow k (by omega) hkd

/-- a good code reduced modulo `10^depth` is a `depth`-digit number with digits in 1..9 -/
theorem Good.emod {depth : Nat} {c : Int} (h : Good depth c) :
    ∃ l : List Int, l.length = depth ∧ (∀ d ∈ l, 1 ≤ d ∧ d ≤ 9) ∧ c % (10 : Int) ^ depth = ofDigits l := by
  obtain ⟨l, q, hlen, hdig, hc⟩ := h
  refine ⟨l, hlen, hdig, ?_⟩
  have hb := ofDigits_bounds l hdig
  rw [hlen] at hb
  rw [hc, Int.add_mul_emod_self_left]
  exact Int.emod_eq_of_lt hb.1 hb.2

theorem dig_ofDigits (l : List Int) (hl : ∀ d ∈ l, 1 ≤ d ∧ d ≤ 9) : ∀ (k : Nat) (y : Int), l[k]? = some y →
    dig k (ofDigits l) = y := by
  induction l with
  | nil => intro k y h; simp at h
  | cons d l ih =>
    intro k y h
    have hd := hl d (by simp)
    cases k with
    | zero =>
      simp only [List.getElem?_cons_zero, Option.some.injEq] at h
      subst h
      simp only [dig, ofDigits, Int.pow_zero, Int.ediv_one]
      omega
    | succ k =>
      simp only [List.getElem?_cons_succ] at h
      have := ih (fun x hx => hl x (by simp [hx])) k y h
      unfold dig at this ⊢
      simp only [ofDigits]
      have hp : (10 : Int) ^ (k + 1) = 10 * 10 ^ k := by rw [Int.pow_succ, Int.mul_comm]
      rw [hp, ← Int.ediv_ediv_of_nonneg (by decide : (0 : Int) ≤ 10)]
      have : (d + 10 * ofDigits l) / 10 = ofDigits l := by omega
      rw [this]; assumption

/-- a good code reduced modulo `10^depth`, in the form the certificate `digitsOK` tests -/
theorem Good.emod_dig {depth : Nat} (hd : 1 ≤ depth) {c : Int} (h : Good depth c) :
    0 < c % (10 : Int) ^ depth ∧ c % (10 : Int) ^ depth < (10 : Int) ^ depth ∧
    ∀ k, k < depth → 1 ≤ dig k (c % (10 : Int) ^ depth) ∧ dig k (c % (10 : Int) ^ depth) ≤ 9 := by
  obtain ⟨l, hlen, hdig, hv⟩ := h.emod
  rw [hv]
  have hb := ofDigits_bounds l hdig
  rw [hlen] at hb
  refine ⟨?_, hb.2, fun k hk => ?_⟩
  · cases l with
    | nil => simp at hlen; omega
    | cons d l' =>
      have h1 := hdig d (by simp)
      have h2 := ofDigits_bounds l' (fun x hx => hdig x (by simp [hx]))
      simp only [ofDigits]
      omega
  · have hk' : k < l.length := by omega
    have hget : l[k]? = some l[k] := List.getElem?_eq_getElem hk'
    rw [dig_ofDigits l hdig k _ hget]
    exact hdig _ (List.getElem_mem hk')

/-! ### `pfaf0 = 11…1` -/

theorem pfBase_succ (d : Nat) :
    pfBase (d + 1) = pfBase d + (if d = 0 then 0 else (10 : Int) ^ d) := by
  unfold pfBase
  rw [List.range_succ, List.foldl_append]
  simp only [List.foldl_cons, List.foldl_nil]
  split <;> simp

theorem pfBase_eq : ∀ d, 1 ≤ d → pfBase d = ofDigits (List.replicate d 1) := by
  intro d
  induction d with
  | zero => intro h; omega
  | succ d ih =>
    intro _
    cases d with
    | zero => decide
    | succ d =>
      rw [pfBase_succ, ih (by omega), List.replicate_succ' (n := d + 1), ofDigits_snoc]
      simp

theorem pfaf1_goodLow (depth : Nat) (hd : 1 ≤ depth) (q : Int) (e : Nat) :
    GoodLow depth e (pfBase depth + q * (10 : Int) ^ depth) := by
  refine ⟨List.replicate depth 1, q, by simp, ?_, ?_, ?_⟩
  · intro d hdm
    have := List.eq_of_mem_replicate hdm
    omega
  · rw [pfBase_eq depth hd, Int.mul_comm]
  · intro k _ hk
    simp [hk]

/-! ### the invariant through the loops -/

def BrGood (depth : Nat) (br : Array Int) : Prop := ∀ j : Nat, br[j]! = 0 ∨ Good depth br[j]!

def LabsGood (depth : Nat) (labs : List (Int × Nat)) : Prop :=
  ∀ p ∈ labs, 1 ≤ p.2 ∧ p.2 ≤ depth ∧ GoodLow depth (depth - p.2) p.1

theorem BrGood.set {depth : Nat} {br : Array Int} (h : BrGood depth br) {v : Int} (hv : Good depth v)
    (i : Nat) : BrGood depth (br.setIfInBounds i v) := by
  intro j
  rw [get!_setIfInBounds]
  split
  · exact Or.inr hv
  · exact h j

theorem stemFill_good {depth : Nat} (usMain : Array Nat) (n : Nat) (h : Nat → Int → Bool)
    {v : Int} (hv : Good depth v) :
    ∀ (f idx : Nat) (br r : Array Int), stemFill usMain n h v f idx br = some r →
      BrGood depth br → BrGood depth r := by
  intro f
  induction f with
  | zero => intro idx br r hr; simp [stemFill] at hr
  | succ f ih =>
    intro idx br r hr hb
    simp only [stemFill] at hr
    split at hr
    · simp only [Option.some.injEq] at hr; subst hr; exact hb
    · exact ih _ _ _ hr (hb.set hv _)

theorem LabsGood.snoc {depth : Nat} {labs : List (Int × Nat)} (h : LabsGood depth labs) {c : Int} {d : Nat}
    (h1 : 1 ≤ d) (h2 : d ≤ depth) (h3 : GoodLow depth (depth - d) c) : LabsGood depth (labs ++ [(c, d)]) := by
  intro p hp
  rcases List.mem_append.1 hp with hp | hp
  · exact h p hp
  · simp only [List.mem_singleton] at hp
    subst hp
    exact ⟨h1, h2, h3⟩

theorem pfInner_good (ds usMain : Array Nat) (so : Array Int) (depth : Nat) (pfaf0 : Int) (d0 : Nat)
    (hd1 : 1 ≤ d0) (hd2 : d0 ≤ depth) (hp0 : GoodLow depth (depth - d0) pfaf0) :
    ∀ (l : List Nat) (i : Nat) (st r : PfSt × Int × Bool), i + l.length ≤ 4 →
      pfInner ds usMain so depth pfaf0 d0 l i st = some r →
      BrGood depth st.1.1 → LabsGood depth st.1.2.2 →
      BrGood depth r.1.1 ∧ LabsGood depth r.1.2.2 := by
  intro l
  induction l with
  | nil =>
    intro i st r _ hr hb hl
    simp only [pfInner, Option.some.injEq] at hr; subst hr; exact ⟨hb, hl⟩
  | cons idx rest ih =>
    intro i st r hlen hr hb hl
    obtain ⟨⟨br, idxs, labs⟩, intDs, ok⟩ := st
    simp only [List.length_cons] at hlen
    have he : depth - d0 < depth := by omega
    have hsub := hp0.add he (2 * (i : Int) + 1) (by omega) (by omega)
    have hint := hp0.add he (((i : Int) + 1) * 2) (by omega) (by omega)
    have hlabs : ∀ (c : Int), (∀ e', e' < depth - d0 → GoodLow depth e' c) →
        ∀ labs', LabsGood depth labs' →
          LabsGood depth (if d0 < depth then labs' ++ [(c, d0 + 1)] else labs') := by
      intro c hc labs' hl'
      split
      · rename_i hlt
        exact hl'.snoc (by omega) (by omega) (hc _ (by omega))
      · exact hl'
    simp only [pfInner] at hr
    split at hr
    · cases hr
    · rename_i br1 h1
      have hb1 : BrGood depth br1 := stemFill_good _ _ _ hsub.1 _ _ _ _ h1 (BrGood.set hb hsub.1 _)
      split at hr
      · exact ih _ _ _ (by omega) hr hb1 (hlabs _ hsub.2 _ hl)
      · split at hr
        · cases hr
        · rename_i br2 h2
          have hb2 : BrGood depth br2 := stemFill_good _ _ _ hint.1 _ _ _ _ h2 (BrGood.set hb1 hint.1 _)
          exact ih _ _ _ (by omega) hr hb2 (hlabs _ hint.2 _ (hlabs _ hsub.2 _ hl))

theorem insertDesc_length (key : Nat → Int) (x : Nat) (l : List Nat) :
    (insertDesc key x l).length = l.length + 1 := by
  induction l with
  | nil => rfl
  | cons y r ih =>
    simp only [insertDesc]
    split <;> simp [ih]

theorem sortDesc_length (key : Nat → Int) (l : List Nat) : (sortDesc key l).length = l.length := by
  unfold sortDesc
  suffices h : ∀ acc : List Nat, (l.foldl (fun acc x => insertDesc key x acc) acc).length = acc.length + l.length by
    simpa using h []
  induction l with
  | nil => intro acc; rfl
  | cons x l ih =>
    intro acc
    rw [List.foldl_cons, ih, insertDesc_length]
    simp only [List.length_cons]
    omega

theorem pfLoop_good (ds usMain : Array Nat) (so uparea : Array Int) (trib : List Nat) (depth : Nat) :
    ∀ (f : Nat) (st r : PfSt × Bool × Bool), BrGood depth st.1.1 → LabsGood depth st.1.2.2 →
      pfLoop ds usMain so uparea trib depth f st = some r → BrGood depth r.1.1 := by
  intro f
  induction f with
  | zero =>
    intro st r hb _ h
    obtain ⟨⟨br, idxs, labs⟩, tie, ok⟩ := st
    cases labs with
    | nil => simp only [pfLoop, Option.some.injEq] at h; subst h; exact hb
    | cons a labs => simp [pfLoop] at h
  | succ f ih =>
    intro st r hb hl h
    obtain ⟨⟨br, idxs, labs⟩, tie, ok⟩ := st
    cases labs with
    | nil => simp only [pfLoop, Option.some.injEq] at h; subst h; exact hb
    | cons a labs =>
      obtain ⟨pfaf0, d0⟩ := a
      have ha := hl (pfaf0, d0) (by simp)
      have hl' : LabsGood depth labs := fun p hp => hl p (by simp [hp])
      simp only [pfLoop] at h
      split at h
      · exact ih ((br, idxs, labs), tie, ok) r hb hl' h
      · split at h
        · cases h
        · rename_i st' x ok' hin
          have hlen : 0 + (sortDesc (fun i => uparea[ds[i]!]!)
              (List.take 4 (sortDesc (fun i => uparea[i]!)
                (List.filter (fun idx => br[idx]! == 0 && br[ds[idx]!]! == pfaf0) trib)))).length ≤ 4 := by
            rw [sortDesc_length, List.length_take]
            omega
          have := pfInner_good ds usMain so depth pfaf0 d0 ha.1 ha.2.1 ha.2.2 _ 0
            ((br, idxs, labs), pfaf0, ok) _ hlen hin hb hl'
          exact ih _ _ this.1 this.2 h

theorem pfPits_good (usMain : Array Nat) (n : Nat) (so : Array Int) (depth : Nat) (hd : 1 ≤ depth) :
    ∀ (l : List Nat) (i : Nat) (st r : PfSt), pfPits usMain n so depth l i st = some r →
      BrGood depth st.1 → LabsGood depth st.2.2 →
      BrGood depth r.1 ∧ LabsGood depth r.2.2 := by
  intro l
  induction l with
  | nil =>
    intro i st r hr hb hl
    simp only [pfPits, Option.some.injEq] at hr; subst hr; exact ⟨hb, hl⟩
  | cons idx rest ih =>
    intro i st r hr hb hl
    obtain ⟨br, idxs, labs⟩ := st
    simp only [pfPits] at hr
    have hg := pfaf1_goodLow depth hd ((i : Int) + 1) (depth - 1)
    split at hr
    · cases hr
    · rename_i br1 h1
      exact ih _ _ _ hr (stemFill_good _ _ _ hg.good _ _ _ _ h1 (BrGood.set hb hg.good _))
        (hl.snoc (Nat.le_refl 1) hd hg)

/-- **digit invariant**: every entry of `pfaf_branch` after the two loops is 0 or good -/
theorem pfBranch_good (pits : List Nat) (ds : Array Nat) (seq : List Nat) (usMain : Array Nat)
    (uparea : Array Int) (mask : Option (Array Bool)) (depth : Nat) (hd : 1 ≤ depth)
    (br : Array Int) (idxs : List Nat) (tie ok : Bool)
    (h : pfBranch pits ds seq usMain uparea mask depth = some (br, idxs, tie, ok)) : BrGood depth br := by
  unfold pfBranch at h
  simp only at h
  split at h
  · cases h
  · rename_i st0 hp
    split at h
    · cases h
    · rename_i br' idxs' labs' tie' ok' heq
      simp only [Option.some.injEq, Prod.mk.injEq] at h
      obtain ⟨h1, _, _⟩ := h
      subst h1
      have h0 : BrGood depth (Array.replicate ds.size (0 : Int)) := fun j => Or.inl (replicate_get! _ 0 rfl j)
      have hpg := pfPits_good usMain ds.size (pfStrord ds seq usMain mask depth) depth hd pits 0
        (Array.replicate ds.size 0, [], []) st0 hp h0 (fun p hp => by cases hp)
      exact pfLoop_good _ _ _ _ _ _ _ _ _ hpg.1 hpg.2 heq

end Pf
