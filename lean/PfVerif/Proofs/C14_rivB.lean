import PfVerif.Model.C14_riv
import PfVerif.Proofs.C14Up
/-! Helper lemmas for the extension C14_riv (core Lean only): `dem.slope` windows and the
array plumbing of the Manning branch of `river_depth`. -/
namespace Pf.C14x
open Pf

/-! ### raster indices -/

theorem idx_lt {nrow ncol a b : Nat} (ha : a < nrow) (hb : b < ncol) : a * ncol + b < nrow * ncol := by
  have h1 : (a + 1) * ncol ≤ nrow * ncol := Nat.mul_le_mul_right ncol ha
  rw [Nat.add_mul, Nat.one_mul] at h1
  omega

theorem cell_rc {nrow ncol i : Nat} (hi : i < nrow * ncol) :
    i / ncol < nrow ∧ i % ncol < ncol ∧ i / ncol * ncol + i % ncol = i := by
  have hc : 0 < ncol := by
    rcases Nat.eq_zero_or_pos ncol with h | h
    · subst h; simp at hi
    · exact h
  refine ⟨(Nat.div_lt_iff_lt_mul hc).2 hi, Nat.mod_lt _ hc, Nat.div_add_mod' i ncol⟩

/-! ### the 3×3 window -/

/-- the window entry is the centre value when the neighbour lies outside the raster -/
theorem winAt_outside (nrow ncol : Nat) (elev : Array Int) (nd : Int) (r c : Nat) (dr dc : Int)
    (h : ¬ (0 ≤ (r : Int) + dr ∧ (r : Int) + dr < nrow ∧ 0 ≤ (c : Int) + dc ∧ (c : Int) + dc < ncol)) :
    winAt nrow ncol elev nd r c dr dc = elev[r * ncol + c]! := by
  simp only [winAt]; rw [if_neg h]

/-- inside the raster: the neighbour's value, or the centre value if the neighbour is nodata -/
theorem winAt_inside (nrow ncol : Nat) (elev : Array Int) (nd : Int) (r c : Nat) (dr dc : Int)
    (h : 0 ≤ (r : Int) + dr ∧ (r : Int) + dr < nrow ∧ 0 ≤ (c : Int) + dc ∧ (c : Int) + dc < ncol) :
    winAt nrow ncol elev nd r c dr dc =
      if elev[((r : Int) + dr).toNat * ncol + ((c : Int) + dc).toNat]! ≠ nd
      then elev[((r : Int) + dr).toNat * ncol + ((c : Int) + dc).toNat]! else elev[r * ncol + c]! := by
  simp only [winAt]; rw [if_pos h]

/-- every window entry is the value of a cell of the raster that holds a value, or the centre value -/
theorem winAt_cases (nrow ncol : Nat) (elev : Array Int) (nd : Int) (r c : Nat) (dr dc : Int) :
    winAt nrow ncol elev nd r c dr dc = elev[r * ncol + c]! ∨
    ∃ k, k < nrow * ncol ∧ elev[k]! ≠ nd ∧ winAt nrow ncol elev nd r c dr dc = elev[k]! := by
  by_cases h : 0 ≤ (r : Int) + dr ∧ (r : Int) + dr < nrow ∧ 0 ≤ (c : Int) + dc ∧ (c : Int) + dc < ncol
  · rw [winAt_inside _ _ _ _ _ _ _ _ h]
    by_cases hv : elev[((r : Int) + dr).toNat * ncol + ((c : Int) + dc).toNat]! ≠ nd
    · rw [if_pos hv]
      exact Or.inr ⟨_, idx_lt (by omega) (by omega), hv, rfl⟩
    · rw [if_neg hv]; exact Or.inl rfl
  · exact Or.inl (winAt_outside _ _ _ _ _ _ _ _ h)

/-- adding a constant to every elevation shifts every window entry by that constant -/
theorem winAt_shift (nrow ncol : Nat) (elev elev' : Array Int) (nd t : Int) (r c : Nat) (dr dc : Int)
    (hr : r < nrow) (hc : c < ncol)
    (h' : ∀ k, k < nrow * ncol → elev'[k]! = if elev[k]! = nd then nd else elev[k]! + t)
    (hclash : ∀ k, k < nrow * ncol → elev[k]! ≠ nd → elev[k]! + t ≠ nd)
    (hctr : elev[r * ncol + c]! ≠ nd) :
    winAt nrow ncol elev' nd r c dr dc = winAt nrow ncol elev nd r c dr dc + t := by
  have hcc : elev'[r * ncol + c]! = elev[r * ncol + c]! + t := by
    rw [h' _ (idx_lt hr hc), if_neg hctr]
  by_cases h : 0 ≤ (r : Int) + dr ∧ (r : Int) + dr < nrow ∧ 0 ≤ (c : Int) + dc ∧ (c : Int) + dc < ncol
  · rw [winAt_inside _ _ _ _ _ _ _ _ h, winAt_inside _ _ _ _ _ _ _ _ h]
    have hk : ((r : Int) + dr).toNat * ncol + ((c : Int) + dc).toNat < nrow * ncol :=
      idx_lt (by omega) (by omega)
    rw [h' _ hk]
    by_cases hv : elev[((r : Int) + dr).toNat * ncol + ((c : Int) + dc).toNat]! = nd
    · simp [hv, hcc]
    · have := hclash _ hk hv
      simp [hv, this]
  · rw [winAt_outside _ _ _ _ _ _ _ _ h, winAt_outside _ _ _ _ _ _ _ _ h, hcc]

theorem gradX_shift (w w' : Int → Int → Int) (t : Int) (h : ∀ a b, w' a b = w a b + t) :
    gradX w' = gradX w := by
  simp only [gradX, h]; omega

theorem gradY_shift (w w' : Int → Int → Int) (t : Int) (h : ∀ a b, w' a b = w a b + t) :
    gradY w' = gradY w := by
  simp only [gradY, h]; omega

theorem gradX_const (w : Int → Int → Int) (v : Int) (h : ∀ a b, w a b = v) : gradX w = 0 := by
  simp only [gradX, h]; omega

theorem gradY_const (w : Int → Int → Int) (v : Int) (h : ∀ a b, w a b = v) : gradY w = 0 := by
  simp only [gradY, h]; omega

theorem slopeModel_get {α : Type} [Inhabited α] (hyp : Nat → Int → Int → α) (ndOut : α) (nrow ncol : Nat)
    (elev : Array Int) (nd : Int) (i : Nat) (hi : i < nrow * ncol) :
    (slopeModel hyp ndOut nrow ncol elev nd)[i]! =
      if elev[i]! ≠ nd then hyp (i / ncol) (slopeGx nrow ncol elev nd i) (slopeGy nrow ncol elev nd i)
      else ndOut := by
  simp [slopeModel, hi]

/-! ### Manning branch of `river_depth` -/

theorem rivslpLocal_size (ds : Array Nat) (P : RdParams) : (rivslpLocal ds P).size = ds.size := by
  simp [rivslpLocal]

theorem rivslpLocal_get (ds : Array Nat) (P : RdParams) (i : Nat) (hi : i < ds.size) :
    (rivslpLocal ds P)[i]! =
      if rdDx ds P i ≥ P.K then P.S * rdDz ds P i / rdDx ds P i else P.nd := by
  simp [rivslpLocal, hi]

theorem rivslpFilled_size (ds : Array Nat) (seq : List Nat) (P : RdParams) :
    (rivslpFilled ds seq P).size = ds.size := by
  simp [rivslpFilled, fillDownModel, fillDownState_size, rivslpLocal_size]

theorem rivslpFinal_get (ds : Array Nat) (seq : List Nat) (P : RdParams) (j : Nat) (hj : j < ds.size) :
    (rivslpFinal ds seq P)[j]! = maxSlope P (rivslpFilled ds seq P)[j]! := by
  have := rivslpFilled_size ds seq P
  simp [rivslpFinal, this, hj]

theorem riverDepth_get (ds : Array Nat) (seq : List Nat) (P : RdParams) (pw : Nat → Int × Int → Int)
    (minDph ndOut : Int) (i : Nat) (hi : i < ds.size) :
    (riverDepth ds seq P pw minDph ndOut)[i]! =
      if ds[i]! = ds.size then ndOut else max minDph (pw i (rivslpFinal ds seq P)[i]!) := by
  simp [riverDepth, hi]

end Pf.C14x
