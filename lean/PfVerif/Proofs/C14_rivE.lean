import PfVerif.Proofs.C14_rivC
/-! Helper lemmas for the extension C14_riv (core Lean only): whole-array form of the slope oracle;
order lemmas over `Rat` for the power law of Manning's equation. -/
namespace Pf.C14x
open Pf

/-! ### `dem.slope`: model array = oracle array -/

theorem slopeModel_eq_specModel {α : Type} (hyp : Nat → Int → Int → α) (ndOut : α) (nrow ncol : Nat)
    (elev : Array Int) (nd : Int) :
    slopeModel hyp ndOut nrow ncol elev nd = slopeSpecModel hyp ndOut nrow ncol elev nd := by
  apply Array.ext
  · simp [slopeModel, slopeSpecModel]
  · intro i h1 _
    have hi : i < nrow * ncol := by simpa [slopeModel] using h1
    obtain ⟨hx, hy⟩ := slopeSpec_eq nrow ncol elev nd i hi
    simp only [slopeModel, slopeSpecModel, Array.getElem_map, Array.getElem_range, hx, hy]

/-! ### order lemmas over `Rat` -/

theorem rat_inv_nonneg {a : Rat} (h : 0 ≤ a) : 0 ≤ a⁻¹ := by
  rcases Rat.le_iff_lt_or_eq.1 h with h | h
  · exact Rat.le_of_lt (Rat.inv_pos.2 h)
  · rw [← h]; simp

/-- `0 < d ≤ d'  ⟹  1/d' ≤ 1/d` -/
theorem rat_inv_anti {d d' : Rat} (hd : 0 < d) (hdd : d ≤ d') : d'⁻¹ ≤ d⁻¹ := by
  have hd' : 0 < d' := by grind
  have hne : d ≠ 0 := fun h => by rw [h] at hd; exact Rat.lt_irrefl hd
  have hne' : d' ≠ 0 := fun h => by rw [h] at hd'; exact Rat.lt_irrefl hd'
  have h1 : d'⁻¹ * (d * d⁻¹) ≤ d'⁻¹ * (d' * d⁻¹) :=
    Rat.mul_le_mul_of_nonneg_left
      (Rat.mul_le_mul_of_nonneg_right hdd (Rat.le_of_lt (Rat.inv_pos.2 hd)))
      (Rat.le_of_lt (Rat.inv_pos.2 hd'))
  rw [Rat.mul_inv_cancel d hne, Rat.mul_one, ← Rat.mul_assoc, Rat.inv_mul_cancel d' hne', Rat.one_mul] at h1
  exact h1

/-- the argument of the power law does not decrease with the discharge … -/
theorem manningArg_mono_q (manning q q' sqrtS w : Rat) (hn : 0 ≤ manning) (hd : 0 ≤ sqrtS * w)
    (hq : q ≤ q') : manningArg manning q sqrtS w ≤ manningArg manning q' sqrtS w := by
  simp only [manningArg, Rat.div_def]
  exact Rat.mul_le_mul_of_nonneg_right (Rat.mul_le_mul_of_nonneg_left hq hn) (rat_inv_nonneg hd)

/-- … nor with the roughness … -/
theorem manningArg_mono_n (manning manning' q sqrtS w : Rat) (hq : 0 ≤ q) (hd : 0 ≤ sqrtS * w)
    (hn : manning ≤ manning') : manningArg manning q sqrtS w ≤ manningArg manning' q sqrtS w := by
  simp only [manningArg, Rat.div_def]
  exact Rat.mul_le_mul_of_nonneg_right (Rat.mul_le_mul_of_nonneg_right hn hq) (rat_inv_nonneg hd)

/-- … and does not increase with the width or with (the root of) the slope -/
theorem manningArg_anti_den (manning q sqrtS sqrtS' w w' : Rat) (hnq : 0 ≤ manning * q)
    (hd : 0 < sqrtS * w) (hdd : sqrtS * w ≤ sqrtS' * w') :
    manningArg manning q sqrtS' w' ≤ manningArg manning q sqrtS w := by
  simp only [manningArg, Rat.div_def]
  exact Rat.mul_le_mul_of_nonneg_left (rat_inv_anti hd hdd) hnq

/-! ### `dem.slope` on degenerate rasters: every cell is a border cell -/

/-- one row: the rows above and below lie outside the raster and are replaced by the centre, so the
north-south difference vanishes and the east-west difference is `2·(W − E)` -/
theorem slope_one_row (ncol : Nat) (elev : Array Int) (nd : Int) (i : Nat) (hi : i < ncol) :
    slopeGy 1 ncol elev nd i = 0 ∧
    slopeGx 1 ncol elev nd i = 2 * (winAt 1 ncol elev nd 0 i 0 (-1) - winAt 1 ncol elev nd 0 i 0 1) := by
  have hr : i / ncol = 0 := Nat.div_eq_of_lt hi
  have hc : i % ncol = i := Nat.mod_eq_of_lt hi
  have ho : ∀ (dr dc : Int), dr ≠ 0 → winAt 1 ncol elev nd 0 i dr dc = elev[0 * ncol + i]! :=
    fun dr dc h => winAt_outside 1 ncol elev nd 0 i dr dc (by omega)
  simp only [slopeGx, slopeGy, gradX, gradY, hr, hc]
  rw [ho (-1) (-1) (by decide), ho (-1) 0 (by decide), ho (-1) 1 (by decide), ho 1 (-1) (by decide),
    ho 1 0 (by decide), ho 1 1 (by decide)]
  constructor <;> omega

/-- one column: the east-west difference vanishes and the north-south difference is `2·(N − S)` -/
theorem slope_one_col (nrow : Nat) (elev : Array Int) (nd : Int) (i : Nat) :
    slopeGx nrow 1 elev nd i = 0 ∧
    slopeGy nrow 1 elev nd i = 2 * (winAt nrow 1 elev nd i 0 (-1) 0 - winAt nrow 1 elev nd i 0 1 0) := by
  have hr : i / 1 = i := Nat.div_one i
  have hc : i % 1 = 0 := Nat.mod_one i
  have ho : ∀ (dr dc : Int), dc ≠ 0 → winAt nrow 1 elev nd i 0 dr dc = elev[i * 1 + 0]! :=
    fun dr dc h => winAt_outside nrow 1 elev nd i 0 dr dc (by omega)
  simp only [slopeGx, slopeGy, gradX, gradY, hr, hc]
  rw [ho (-1) (-1) (by decide), ho 0 (-1) (by decide), ho 1 (-1) (by decide), ho (-1) 1 (by decide),
    ho 0 1 (by decide), ho 1 1 (by decide)]
  constructor <;> omega

theorem int_max_mono (m a b : Int) (h : a ≤ b) : max m a ≤ max m b := by omega

end Pf.C14x
