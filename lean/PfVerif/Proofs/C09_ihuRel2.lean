import PfVerif.Proofs.C09_ihuRel
import PfVerif.Proofs.C09Arith
/-! `ihu_relocate_outlets` keeps the well-formedness invariant `WArr` and never runs out of fuel: STEPS 1-3 (trace,
tributaries, connections), the `np.argsort` oracle, the loop @0A (C09 extension, fourth stage). Core Lean only. -/
namespace Pf.C09ihu
open Pf

/-! ### `core._d8_idx` -/

theorem d8Idx_lt (idx0 nrow ncol i : Nat) (h : i ∈ d8Idx idx0 nrow ncol) : i < nrow * ncol := by
  unfold d8Idx at h
  simp only [List.mem_filterMap] at h
  obtain ⟨⟨dr, dc⟩, _, hx⟩ := h
  simp only at hx
  split at hx
  · rename_i hc
    simp only [Option.some.injEq] at hx
    obtain ⟨h1, h2, h3, h4⟩ := hc
    obtain ⟨r, hr⟩ := Int.eq_ofNat_of_zero_le h1
    obtain ⟨c, hc⟩ := Int.eq_ofNat_of_zero_le h3
    rw [hr] at h2 hx
    rw [hc] at h4 hx
    simp only [Int.ofNat_eq_natCast] at h2 h4 hx
    have hx' : r * ncol + c = i := by
      have : ((r : Int) * (ncol : Int) + (c : Int)) = ((r * ncol + c : Nat) : Int) := by
        simp [Int.natCast_add, Int.natCast_mul]
      rw [this, Int.toNat_natCast] at hx
      exact hx
    rw [← hx']
    exact mul_add_lt r c nrow ncol (by omega) (by omega)
  · cases hx

theorem upstreamD8_mem (cds : Array Nat) (idx0 nrow ncol i : Nat) (h : i ∈ upstreamD8 cds idx0 nrow ncol) :
    i < nrow * ncol ∧ cds[i]! = idx0 := by
  unfold upstreamD8 at h
  simp only [List.mem_filter, beq_iff_eq] at h
  exact ⟨d8Idx_lt _ _ _ _ h.1, h.2⟩

/-! ### the `np.argsort` oracle: every permutation handed out has entries below the number of keys -/

theorem insertByKey_mem (keys : Array Int) (i : Nat) : ∀ (l : List Nat) (x : Nat), x ∈ insertByKey keys i l → x = i ∨ x ∈ l := by
  intro l
  induction l with
  | nil => intro x hx; simp [insertByKey] at hx; exact Or.inl hx
  | cons j rest ih =>
    intro x hx
    simp only [insertByKey] at hx
    split at hx
    · simp only [List.mem_cons] at hx ⊢
      exact hx
    · simp only [List.mem_cons] at hx ⊢
      rcases hx with hx | hx
      · exact Or.inr (Or.inl hx)
      · rcases ih x hx with h | h
        · exact Or.inl h
        · exact Or.inr (Or.inr h)

theorem insertByKey_length (keys : Array Int) (i : Nat) : ∀ l : List Nat, (insertByKey keys i l).length = l.length + 1 := by
  intro l
  induction l with
  | nil => simp [insertByKey]
  | cons j rest ih =>
    simp only [insertByKey]
    split
    · simp
    · simp [ih]

theorem stableArgsort_ok (keys : Array Int) :
    (stableArgsort keys).length = keys.size ∧ ∀ x ∈ stableArgsort keys, x < keys.size := by
  unfold stableArgsort
  have key : ∀ (l : List Nat) (acc : List Nat), (∀ x ∈ l, x < keys.size) → (∀ x ∈ acc, x < keys.size) →
      (l.foldl (fun acc i => insertByKey keys i acc) acc).length = acc.length + l.length ∧
        ∀ x ∈ l.foldl (fun acc i => insertByKey keys i acc) acc, x < keys.size := by
    intro l
    induction l with
    | nil => intro acc _ h2; exact ⟨rfl, h2⟩
    | cons a l ih =>
      intro acc h1 h2
      rw [List.foldl_cons]
      have := ih (insertByKey keys a acc) (fun x hx => h1 x (List.mem_cons_of_mem _ hx)) (fun x hx => by
        rcases insertByKey_mem keys a acc x hx with h | h
        · rw [h]; exact h1 a List.mem_cons_self
        · exact h2 x h)
      refine ⟨?_, this.2⟩
      rw [this.1, insertByKey_length]
      simp only [List.length_cons]
      omega
  have := key (List.range keys.size).reverse [] (fun x hx => by simpa using hx) (fun _ h => by cases h)
  refine ⟨?_, this.2⟩
  rw [this.1]; simp

theorem isSortPerm_lt (keys : Array Int) (p : List Nat) (h : isSortPerm keys p = true) :
    p.length = keys.size ∧ ∀ x ∈ p, x < keys.size := by
  unfold isSortPerm at h
  simp only [Bool.and_eq_true, beq_iff_eq, List.all_eq_true, List.mem_range, List.contains_iff_mem] at h
  obtain ⟨⟨hlen, hall⟩, _⟩ := h
  refine ⟨hlen, ?_⟩
  intro x hx
  by_cases hlt : x < keys.size
  · exact hlt
  · exfalso
    have hsub : List.range keys.size ⊆ p.erase x := by
      intro a ha
      have ha' := List.mem_range.mp ha
      exact (List.mem_erase_of_ne (by omega)).2 (hall a ha')
    have h1 := (List.nodup_range (n := keys.size)).length_le_of_subset hsub
    have h2 : (p.erase x).length = p.length - 1 := by rw [List.length_erase]; simp [hx]
    have h3 : 1 ≤ p.length := List.length_pos_of_mem hx
    simp only [List.length_range] at h1
    omega

theorem Sorts.take_ok (s : Sorts) (keys : Array Int) :
    (s.take keys).1.length = keys.size ∧ ∀ x ∈ (s.take keys).1, x < keys.size := by
  unfold Sorts.take
  split
  · split
    · rename_i h; exact isSortPerm_lt keys _ h
    · exact stableArgsort_ok keys
  · exact stableArgsort_ok keys

/-! ### STEP 1 -/

section rel2
variable {e : Env} {n : Nat} {W : Nat → Nat → Nat → Prop} {A B : Nat → Prop}

/-- list form of the trace facts -/
def TrL (e : Env) (n : Nat) (A B : Nat → Prop) (cells pixs : List Nat) : Prop :=
  cells.length = pixs.length ∧ (∀ c ∈ cells, c < n ∧ A c ∧ B c) ∧ ∀ p ∈ pixs, ValidPx e.ds p

theorem TrL.trw {cells pixs : List Nat} (h : TrL e n A B cells pixs) : TrW e n A B cells pixs := by
  refine ⟨fun j hj => ?_⟩
  have h1 := h.2.1 _ (getElem!_mem cells j (by rw [h.1]; exact hj))
  exact ⟨h1.1, h1.2.1, h1.2.2, h.2.2 _ (getElem!_mem pixs j hj)⟩

theorem relocTrace_w (hcell : ∀ p, ValidPx e.ds p → e.cell p < n) (hwf : FineWF e.ds) (cds out : Array Nat)
    (hAB : ∀ c, c < n → cds[c]! ≠ cds.size → A c ∧ B c) :
    ∀ fuel subidx idx0 idxds0 cells pixs t, relocTrace e cds out fuel subidx idx0 idxds0 cells pixs = some t →
      ValidPx e.ds subidx → idx0 = e.cell subidx → TrL e n A B cells pixs → TrL e n A B t.cells t.pixs := by
  intro fuel
  induction fuel with
  | zero => intro subidx idx0 idxds0 cells pixs t h; simp [relocTrace] at h
  | succ f ih =>
    intro subidx idx0 idxds0 cells pixs t h hp h0 htr
    have hp1 := hwf.next hp
    simp only [relocTrace] at h
    split at h
    · have htr' : TrL e n A B (if (cds[idx0]! != cds.size) = true then cells ++ [idx0] else cells)
          (if (cds[idx0]! != cds.size) = true then pixs ++ [subidx] else pixs) := by
        split
        · rename_i hk
          simp only [bne_iff_ne, ne_eq] at hk
          have hlt : idx0 < n := by rw [h0]; exact hcell _ hp
          refine ⟨by simp [htr.1], ?_, ?_⟩
          · intro c hc
            rcases List.mem_append.mp hc with hc | hc
            · exact htr.2.1 c hc
            · simp only [List.mem_singleton] at hc
              subst hc
              exact ⟨hlt, hAB _ hlt hk⟩
          · intro p hp'
            rcases List.mem_append.mp hp' with hp' | hp'
            · exact htr.2.2 p hp'
            · simp only [List.mem_singleton] at hp'; exact hp' ▸ hp
        · exact htr
      split at h
      · simp only [Option.some.injEq] at h
        subst h
        exact htr'
      · exact ih _ _ _ _ _ _ h hp1 rfl htr'
    · rename_i hx
      have h1 : idx0 = e.cell e.ds[subidx]! := by
        simp only [Bool.or_eq_true, beq_iff_eq, bne_iff_ne, not_or, Decidable.not_not] at hx
        exact hx.2
      exact ih _ _ _ _ _ _ h hp1 h1 htr

/-! ### STEP 2 -/

theorem insertUniq_mem (x : Nat) : ∀ (l : List Nat) (y : Nat), y ∈ insertUniq x l → y = x ∨ y ∈ l := by
  intro l
  induction l with
  | nil => intro y hy; simp [insertUniq] at hy; exact Or.inl hy
  | cons z r ih =>
    intro y hy
    simp only [insertUniq] at hy
    split at hy
    · simpa using hy
    · split at hy
      · exact Or.inr hy
      · simp only [List.mem_cons] at hy ⊢
        rcases hy with hy | hy
        · exact Or.inr (Or.inl hy)
        · rcases ih y hy with h | h
          · exact Or.inl h
          · exact Or.inr (Or.inr h)

theorem uniqueSorted_mem (l : List Nat) (y : Nat) (h : y ∈ uniqueSorted l) : y ∈ l := by
  unfold uniqueSorted at h
  have key : ∀ (l acc : List Nat), y ∈ l.foldl (fun acc x => insertUniq x acc) acc → y ∈ acc ∨ y ∈ l := by
    intro l
    induction l with
    | nil => intro acc h; exact Or.inl h
    | cons a l ih =>
      intro acc h
      rw [List.foldl_cons] at h
      rcases ih _ h with h | h
      · rcases insertUniq_mem a acc y h with h | h
        · exact Or.inr (by rw [h]; exact List.mem_cons_self)
        · exact Or.inl h
      · exact Or.inr (List.mem_cons_of_mem _ h)
  rcases key l [] h with h | h
  · cases h
  · exact h

theorem relocTribs_mem (cds out : Array Nat) (idx00 : Nat) (t : Trace) (i : Nat)
    (h : i ∈ relocTribs e cds out idx00 t) : i < e.nrow * e.ncol ∧ cds[i]! ∈ t.cells := by
  unfold relocTribs at h
  revert h
  refine foldl_inv _ (fun acc => i ∈ acc → i < e.nrow * e.ncol ∧ cds[i]! ∈ t.cells) _ ?_ _ (fun h => by cases h)
  intro acc idxds hidxds hacc
  refine foldl_inv _ (fun acc => i ∈ acc → i < e.nrow * e.ncol ∧ cds[i]! ∈ t.cells) _ ?_ _ hacc
  intro acc idx0 hidx0 hacc
  split
  · exact hacc
  · intro hi
    rcases List.mem_append.mp hi with hi | hi
    · exact hacc hi
    · simp only [List.mem_singleton] at hi
      subst hi
      have := upstreamD8_mem _ _ _ _ _ hidx0
      exact ⟨this.1, by rw [this.2]; exact uniqueSorted_mem _ _ hidxds⟩

/-! ### STEP 3 -/

theorem relocConn_tot (hr : ∀ p, ValidPx e.ds p → ∃ k, k ≤ e.ds.size ∧ PitAt e.ds k p) (out : Array Nat)
    (pixs : List Nat) : ∀ (tribs : List Nat) (st : List Nat × List Nat × Nat),
      (∀ i ∈ tribs, ValidPx e.ds e.ds[out[i]!]!) →
      ∃ st', tribs.foldlM (fun (st : List Nat × List Nat × Nat) idx0 =>
        match connLoop e pixs idx0 (e.ds.size + 1) e.ds[out[idx0]!]! idx0 0 ⟨0, 0, false, st.2.2⟩ with
        | none => none
        | some c =>
          if c.connected then some (st.1 ++ [c.j0], st.2.1 ++ [c.j1], c.idx1)
          else some (st.1 ++ [pixs.length - 1], st.2.1 ++ [pixs.length - 1], c.idx1)) st = some st' ∧
        st'.1.length = st.1.length + tribs.length ∧ st'.2.1.length = st.2.1.length + tribs.length := by
  intro tribs
  induction tribs with
  | nil => intro st _; exact ⟨st, rfl, rfl, rfl⟩
  | cons a l ih =>
    intro st hv
    obtain ⟨k, hk, hpit⟩ := hr _ (hv a List.mem_cons_self)
    have hsome := (connLoop_stable e pixs a k _ hpit (e.ds.size + 1) (e.ds.size + 1) (by omega) (by omega) a 0
      ⟨0, 0, false, st.2.2⟩).2
    obtain ⟨c, hc⟩ := Option.isSome_iff_exists.mp hsome
    rw [List.foldlM_cons]
    simp only [hc]
    split
    · obtain ⟨st', h1, h2, h3⟩ := ih (st.1 ++ [c.j0], st.2.1 ++ [c.j1], c.idx1)
        (fun i hi => hv i (List.mem_cons_of_mem _ hi))
      refine ⟨st', h1, ?_, ?_⟩
      · rw [h2]; simp only [List.length_append, List.length_cons, List.length_nil]; omega
      · rw [h3]; simp only [List.length_append, List.length_cons, List.length_nil]; omega
    · obtain ⟨st', h1, h2, h3⟩ := ih (st.1 ++ [pixs.length - 1], st.2.1 ++ [pixs.length - 1], c.idx1)
        (fun i hi => hv i (List.mem_cons_of_mem _ hi))
      refine ⟨st', h1, ?_, ?_⟩
      · rw [h2]; simp only [List.length_append, List.length_cons, List.length_nil]; omega
      · rw [h3]; simp only [List.length_append, List.length_cons, List.length_nil]; omega

theorem relocConn_tot' (hr : ∀ p, ValidPx e.ds p → ∃ k, k ≤ e.ds.size ∧ PitAt e.ds k p) (out : Array Nat)
    (pixs tribs : List Nat) (idx1 : Nat) (hv : ∀ i ∈ tribs, ValidPx e.ds e.ds[out[i]!]!) :
    ∃ r, relocConn e out pixs tribs idx1 = some r ∧ r.1.length = tribs.length ∧ r.2.1.length = tribs.length := by
  obtain ⟨st', h1, h2, h3⟩ := relocConn_tot hr out pixs tribs ([], [], idx1) hv
  simp only [List.length_nil, Nat.zero_add] at h2 h3
  exact ⟨st', h1, h2, h3⟩

end rel2

/-! ### one flagged cell (loop @0A) -/

section rel3
variable {e : Env} {n : Nat} {W : Nat → Nat → Nat → Prop} {A B : Nat → Prop}

theorem WArr.mono {A' B' : Nat → Prop} {cds out : Array Nat} (h : WArr e n W A' B' cds out)
    (hA : ∀ c, A c → A' c) (hB : ∀ c, B c → B' c) : WArr e n W A B cds out :=
  ⟨h.szc, h.szo, h.ok, fun c hc ha => h.actC c hc (hA c ha), fun c hc hb => h.actO c hc (hB c hb)⟩

theorem getElem!_map_toArray (l : List Nat) (f : Nat → Nat) (k : Nat) (hk : k < l.length) :
    (l.map f).toArray[k]! = f l[k]! := by
  simp [hk]

theorem relocOne_tot (hw : WCtx e n W) (hr : ∀ p, ValidPx e.ds p → ∃ k, k ≤ e.ds.size ∧ PitAt e.ds k p)
    (st : RelSt) (idx00 : Nat) (h : WArr e n W A B st.cds st.out) (hlt : idx00 < n) (hb : B idx00) :
    ∃ st', relocOne e st idx00 = some st' ∧ WArr e n W A B st'.cds st'.out := by
  -- cells that are linked / have an outlet pixel now must keep them
  have h' : WArr e n W (fun c => A c ∨ st.cds[c]! ≠ n) (fun c => B c ∨ st.out[c]! ≠ e.ds.size) st.cds st.out :=
    ⟨h.szc, h.szo, h.ok, fun c hc ha => ha.elim (h.actC c hc) id, fun c hc hb => hb.elim (h.actO c hc) id⟩
  have hmono : ∀ {cds out : Array Nat},
      WArr e n W (fun c => A c ∨ st.cds[c]! ≠ n) (fun c => B c ∨ st.out[c]! ≠ e.ds.size) cds out →
      WArr e n W A B cds out := fun hh => hh.mono (fun _ ha => Or.inl ha) (fun _ hb => Or.inl hb)
  have hv00 : ValidPx e.ds st.out[idx00]! := h.valid_of_out hw idx00 hlt (h.actO idx00 hlt hb)
  have hv0 : ValidPx e.ds e.ds[st.out[idx00]!]! := hw.wf.next hv00
  -- STEP 1
  obtain ⟨k, hk, hpit⟩ := hr _ hv0
  have htsome := (relocTrace_stable e st.cds st.out k _ hpit (e.ds.size + 1) (e.ds.size + 1) (by omega) (by omega)
    (e.cell e.ds[st.out[idx00]!]!) st.cds[idx00]! [] []).2
  obtain ⟨t, ht⟩ := Option.isSome_iff_exists.mp htsome
  have htl : TrL e n (fun c => A c ∨ st.cds[c]! ≠ n) (fun c => B c ∨ st.out[c]! ≠ e.ds.size) t.cells t.pixs := by
    refine relocTrace_w hw.cell hw.wf st.cds st.out ?_ _ _ _ _ _ _ t ht hv0 rfl
      ⟨rfl, fun _ hc => absurd hc List.not_mem_nil, fun _ hp => absurd hp List.not_mem_nil⟩
    intro c hc hne
    rw [h.szc] at hne
    refine ⟨Or.inr hne, Or.inr ?_⟩
    have := (h.valid_of_link hw c hc hne).1
    omega
  unfold relocOne
  simp only [ht]
  split
  · exact ⟨st, rfl, h⟩
  · -- STEPS 2, 3
    have htribs : ∀ i ∈ relocTribs e st.cds st.out idx00 t, i < n ∧ st.cds[i]! ≠ n := by
      intro i hi
      have := relocTribs_mem st.cds st.out idx00 t i hi
      rw [hw.ncell] at this
      exact ⟨this.1, by have := (htl.2.1 _ this.2).1; omega⟩
    obtain ⟨⟨conn, conn1, idx1⟩, hconn, hl1, hl2⟩ := relocConn_tot' hr st.out t.pixs
      (relocTribs e st.cds st.out idx00 t) t.idx1
      (fun i hi => hw.wf.next (h.valid_of_link hw i (htribs i hi).1 (htribs i hi).2))
    simp only at hl1 hl2
    simp only [hconn]
    -- the sorted tributaries
    have htake := Sorts.take_ok st.sorts (conn.map Int.ofNat).toArray
    generalize st.sorts.take (conn.map Int.ofNat).toArray = tk at htake
    obtain ⟨seq1, sorts⟩ := tk
    simp only [List.size_toArray, List.length_map] at htake
    have htrok : TrOK n (fun c => A c ∨ st.cds[c]! ≠ n)
        { us0 := (seq1.map fun k => (relocTribs e st.cds st.out idx00 t)[k]!).toArray,
          sds0 := ((seq1.map fun k => (relocTribs e st.cds st.out idx00 t)[k]!).map
            fun c => st.out[st.cds[c]!]!).toArray,
          conn := (seq1.map fun k => conn[k]!).toArray, conn1 := (seq1.map fun k => conn1[k]!).toArray } := by
      intro k hk
      simp only [List.size_toArray, List.length_map] at hk
      simp only
      rw [getElem!_map_toArray _ _ _ hk]
      have hmem : seq1[k]! ∈ seq1 := getElem!_mem seq1 k hk
      have hlt' : seq1[k]! < (relocTribs e st.cds st.out idx00 t).length := by
        have := htake.2 _ hmem; omega
      have := htribs _ (getElem!_mem _ _ hlt')
      exact ⟨this.1, Or.inr this.2⟩
    -- STEP 4
    obtain ⟨s, hs, hs1, hs2⟩ := step4_tot hw hr idx00 (Or.inl hb) t.cells t.pixs _ htl.trw htrok
      (st.cds.size + 3)
      { cds := st.cds, out := st.out, outEd := [], dsEd := [], idx0 := idx00, j0 := 0, k0 := 0,
        nextiter := false, bott := [], idx1 := idx1 } h' List.nodup_nil (fun _ hb => by cases hb)
      (by simp only [List.length_nil]; rw [h.szc]; omega)
    simp only [hs]
    split
    · exact ⟨_, rfl, hmono hs2⟩
    · exact ⟨_, rfl, hmono hs1⟩

theorem relocateOutlets_tot (hw : WCtx e n W) (hr : ∀ p, ValidPx e.ds p → ∃ k, k ≤ e.ds.size ∧ PitAt e.ds k p)
    (fix : List Nat) (cds out : Array Nat) (sorts : Sorts) (h : WArr e n W A B cds out)
    (hfix : ∀ c ∈ fix, c < n ∧ B c) :
    ∃ r, relocateOutlets e fix cds out sorts = some r ∧ WArr e n W A B r.cds r.out := by
  unfold relocateOutlets
  have htake := Sorts.take_ok sorts (fix.map fun c => e.upa[out[c]!]!).toArray
  generalize sorts.take (fix.map fun c => e.upa[out[c]!]!).toArray = tk at htake
  obtain ⟨seq, sorts'⟩ := tk
  simp only [List.size_toArray, List.length_map] at htake
  simp only
  refine foldlM_tot _ (fun (st : RelSt) => WArr e n W A B st.cds st.out) seq ?_ _ h
  intro b i0 hi0 hb
  have hf := hfix _ (getElem!_mem fix i0 (htake.2 i0 hi0))
  exact relocOne_tot hw hr b _ hb hf.1 hf.2

end rel3

end Pf.C09ihu
