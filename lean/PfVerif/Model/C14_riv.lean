import PfVerif.Model.C14
/-! Extension C14_riv: models of three operators that were not inside the Lean model yet, loop for
loop, plus the independent declarative definitions (`…Spec`) the driver evaluates as oracles.
Core Lean only.

Anchors: `rivers.classify_estuary` (+ `Flwdir.classify_estuaries`), the Manning branch of
`Flwdir.river_depth`, `dem.slope`.

Numbers. All fields are exact rationals sent as integers over a common scale chosen by the harness
(the quantities the code compares are scale free: `dw/dx`, `dz/dx`; thresholds travel as
numerator/denominator). The two transcendental pieces - the power law of Manning's equation
`((n·Q)/(√s·w))^(3/5)` and `math.hypot` (+ `degree_metres_x/y`) - are *parameters* of the model. -/
namespace Pf.C14x
open Pf

/-! ### `rivers.classify_estuary`

```
estuary = zeros(n, int8); estuary[idxs_pit[elevtn[idxs_pit] <= max_elevtn]] = 1
for idx in seq:                                   # down- to upstream
    idx_ds = idxs_ds[idx]
    if estuary[idx_ds] == 0 or idx == idx_ds: continue
    dx = rivdst[idx] - rivdst[idx_ds];  dw = rivwth[idx_ds] - rivwth[idx]
    if (rivdst[idx_ds] == 0 and dw <= 0) or (dx > 0 and dw / dx > min_convergence): estuary[idx] = 1
    else: estuary[idx_ds] = 2
```
`dw / dx` is only evaluated when `dx > 0` (short-circuit `and`), so no division by zero occurs and
`dw/dx > mc ⟺ dw·mcDen > mcNum·dx` for `mc = mcNum/mcDen`, `mcDen > 0`. -/

structure EstParams where
  rivdst : Array Int      -- distance to outlet, scaled by a common factor with `rivwth`
  rivwth : Array Int
  mcNum : Int             -- `min_convergence = mcNum / mcDen`, `mcDen > 0`
  mcDen : Int

/-- the link test of the loop body for the link `i → ds[i]` -/
def estCond (P : EstParams) (ds : Array Nat) (i : Nat) : Bool :=
  let d := ds[i]!
  let dx := P.rivdst[i]! - P.rivdst[d]!
  let dw := P.rivwth[d]! - P.rivwth[i]!
  (P.rivdst[d]! == 0 && decide (dw ≤ 0)) || (decide (dx > 0) && decide (dw * P.mcDen > P.mcNum * dx))

/-- one iteration of the loop (generic in the link test) -/
def estStep (ds : Array Nat) (cond : Nat → Bool) (est : Array Int) (i : Nat) : Array Int :=
  let d := ds[i]!
  if est[d]! = 0 ∨ i = d then est
  else if cond i then est.setIfInBounds i 1 else est.setIfInBounds d 2

/-- `estuary[idxs_pit[elevtn[idxs_pit] <= max_elevtn]] = 1` on `zeros(n)` -/
def estInit (n : Nat) (pits : List Nat) (elevtn : Array Int) (maxElev : Int) : Array Int :=
  (pits.filter fun p => decide (elevtn[p]! ≤ maxElev)).foldl (fun a p => a.setIfInBounds p 1)
    (Array.replicate n 0)

def estSweep (ds : Array Nat) (cond : Nat → Bool) (seq : List Nat) (init : Array Int) : Array Int :=
  seq.foldl (estStep ds cond) init

def classifyEstuary (ds : Array Nat) (seq pits : List Nat) (P : EstParams) (elevtn : Array Int)
    (maxElev : Int) : Array Int :=
  estSweep ds (estCond P ds) seq (estInit ds.size pits elevtn maxElev)

/-- declarative oracle (walk): is `i` part of an estuary? - an outlet cell of an estuary, or every
link on the way down to one passes the test -/
def estWalk (ds : Array Nat) (cond : Nat → Bool) (isOutlet : Nat → Bool) : Nat → Nat → Bool
  | 0, _ => false
  | fuel+1, i => isOutlet i || (ds[i]! != i && cond i && estWalk ds cond isOutlet fuel ds[i]!)

/-- declarative oracle of the class: 0 outside, 2 if some inflowing link fails the test, else 1 -/
def estSpec (ds : Array Nat) (cond : Nat → Bool) (isOutlet : Nat → Bool) (i : Nat) : Int :=
  if estWalk ds cond isOutlet (ds.size + 1) i then
    (if (List.range ds.size).any fun c => isValid ds c && ds[c]! == i && c != i && !cond c then 2 else 1)
  else 0

/-! ### `Flwdir.river_depth(method='manning')`

```
dz = zs - self.downstream(zs);  dx = rivdst - self.downstream(rivdst)
rivslp = np.where(dx >= 1, dz / np.maximum(1, dx), -9999)
rivslp = self.fillnodata(rivslp, nodata=-9999)            # direction='down', how='max'
rivslp = np.maximum(min_rivslp, rivslp)
rivdph = ((manning * qbankfull) / (np.sqrt(rivslp) * rivwth)) ** (3 / 5)
rivdph = np.maximum(min_rivdph, rivdph);  rivdph[self.idxs_ds == self._mv] = -9999.0
```
`zs`, `rivdst` are integers over a common scale `K` (`K` = one metre); a slope `q` is represented by
the integer `S·q` for a scale `S > 0` supplied with the input such that every division below is exact
(`riverExact`; the harness sends the least common multiple of the `dx`). -/

structure RdParams where
  zs : Array Int
  rivdst : Array Int
  K : Int                 -- scaled value of 1 m  (`dx >= 1`  ⟺  `dx_scaled ≥ K`)
  S : Int                 -- slope scale
  minNum : Int            -- `min_rivslp = minNum / minDen`, `minDen > 0`
  minDen : Int

/-- nodata of the slope field (`-9999`) over the scale `S` -/
def RdParams.nd (P : RdParams) : Int := -9999 * P.S

def rdDz (ds : Array Nat) (P : RdParams) (i : Nat) : Int := P.zs[i]! - (downstreamModel ds P.zs)[i]!
def rdDx (ds : Array Nat) (P : RdParams) (i : Nat) : Int := P.rivdst[i]! - (downstreamModel ds P.rivdst)[i]!

/-- `np.where(dx >= 1, dz / np.maximum(1, dx), -9999)` -/
def rivslpLocal (ds : Array Nat) (P : RdParams) : Array Int :=
  (Array.range ds.size).map fun i =>
    if rdDx ds P i ≥ P.K then P.S * rdDz ds P i / rdDx ds P i else P.nd

/-- every division of `rivslpLocal` is exact -/
def riverExact (ds : Array Nat) (P : RdParams) : Bool :=
  (List.range ds.size).all fun i =>
    !decide (rdDx ds P i ≥ P.K) || (P.S * rdDz ds P i) % rdDx ds P i == 0

/-- `self.fillnodata(rivslp, nodata=-9999)` -/
def rivslpFilled (ds : Array Nat) (seq : List Nat) (P : RdParams) : Array Int :=
  fillDownModel ds seq (rivslpLocal ds P) P.nd 0

/-- `max(min_rivslp, v/S)` as a fraction -/
def maxSlope (P : RdParams) (v : Int) : Int × Int :=
  if P.minNum * P.S ≤ v * P.minDen then (v, P.S) else (P.minNum, P.minDen)

/-- `np.maximum(min_rivslp, rivslp)`: the slope every cell uses, as a fraction `(num, den)` -/
def rivslpFinal (ds : Array Nat) (seq : List Nat) (P : RdParams) : Array (Int × Int) :=
  (rivslpFilled ds seq P).map (maxSlope P)

/-- the Manning branch; `pw i s` is the power law at cell `i` for slope `s` (a parameter: the values
are opaque ordered tokens), `minDph` the token of `min_rivdph`, `ndOut` that of `-9999.0` -/
def riverDepth (ds : Array Nat) (seq : List Nat) (P : RdParams) (pw : Nat → Int × Int → Int)
    (minDph ndOut : Int) : Array Int :=
  (Array.range ds.size).map fun i =>
    if ds[i]! = ds.size then ndOut else max minDph (pw i (rivslpFinal ds seq P)[i]!)

/-- declarative oracle, independent of `S`, `seq` and the fill sweep: local slope of cell `k` as a
fraction `dz/dx` -/
def locFrac (ds : Array Nat) (P : RdParams) (k : Nat) : Option (Int × Int) :=
  let d := if isValid ds k then ds[k]! else k
  let dz := P.zs[k]! - P.zs[d]!
  let dx := P.rivdst[k]! - P.rivdst[d]!
  if dx ≥ P.K ∧ dz ≠ -9999 * dx then some (dz, dx) else none

/-- does the walk downstream from `k` reach `j` through cells without a local slope only? -/
def feedsWalk (ds : Array Nat) (P : RdParams) (j : Nat) : Nat → Nat → Bool
  | 0, _ => false
  | fuel+1, c =>
    let d := ds[c]!
    if d = c ∨ d ≥ ds.size then false
    else if (locFrac ds P d).isSome then false
    else d == j || feedsWalk ds P j fuel d

/-- `a ≤ b` for fractions with positive denominators -/
def fracLe (a b : Int × Int) : Bool := decide (a.1 * b.2 ≤ b.1 * a.2)

def fracMax (a b : Int × Int) : Int × Int := if fracLe a b then b else a

/-- the slope cell `j` uses: its own local slope, else the largest local slope among the nearest
cells upstream that have one, else none; then the maximum with `min_rivslp` -/
def rivslpSpec (ds : Array Nat) (P : RdParams) (j : Nat) : Int × Int :=
  let own : Option (Int × Int) :=
    match locFrac ds P j with
    | some q => some q
    | none =>
      (List.range ds.size).foldl (fun acc k =>
        match locFrac ds P k with
        | none => acc
        | some q =>
          if isValid ds k && feedsWalk ds P j (ds.size + 1) k then
            (match acc with | none => some q | some a => some (fracMax a q))
          else acc) none
  match own with
  | none => (P.minNum, P.minDen)
  | some q => fracMax (P.minNum, P.minDen) q

/-! ### `dem.slope`

```
for r, c:  if elevtn[r, c] != nodata:
    elev[:, :] = elevtn[r, c]                       # 3x3 window, centre value everywhere
    for dr, dc in -1..1: if inside and elevtn[r+dr, c+dc] != nodata: elev[dr+1, dc+1] = elevtn[r+dr, c+dc]
    dzdx = ((e00 + 2 e10 + e20) - (e02 + 2 e12 + e22)) / (8 |xres|)
    dzdy = ((e00 + 2 e01 + e02) - (e20 + 2 e21 + e22)) / (8 |yres|)
    slp = hypot(dzdx, dzdy)          |  latlon: hypot(dzdx / deg_x(lat_r), dzdy / deg_y(lat_r))
else: slp = nodata
```
The model computes the two integer numerators; the last line is the parameter `hyp row gx gy`. -/

/-- entry `(dr, dc)` of the 3×3 window of cell `(r, c)`: the neighbour's elevation if it lies inside
the raster and holds a value, else the centre value -/
def winAt (nrow ncol : Nat) (elev : Array Int) (nd : Int) (r c : Nat) (dr dc : Int) : Int :=
  let rr : Int := (r : Int) + dr
  let cc : Int := (c : Int) + dc
  if 0 ≤ rr ∧ rr < nrow ∧ 0 ≤ cc ∧ cc < ncol then
    (if elev[rr.toNat * ncol + cc.toNat]! ≠ nd then elev[rr.toNat * ncol + cc.toNat]! else elev[r * ncol + c]!)
  else elev[r * ncol + c]!

/-- numerator of `dzdx`: west column minus east column, weights 1 2 1 -/
def gradX (w : Int → Int → Int) : Int :=
  (w (-1) (-1) + 2 * w 0 (-1) + w 1 (-1)) - (w (-1) 1 + 2 * w 0 1 + w 1 1)

/-- numerator of `dzdy`: north row minus south row, weights 1 2 1 -/
def gradY (w : Int → Int → Int) : Int :=
  (w (-1) (-1) + 2 * w (-1) 0 + w (-1) 1) - (w 1 (-1) + 2 * w 1 0 + w 1 1)

def slopeGx (nrow ncol : Nat) (elev : Array Int) (nd : Int) (i : Nat) : Int :=
  gradX (winAt nrow ncol elev nd (i / ncol) (i % ncol))

def slopeGy (nrow ncol : Nat) (elev : Array Int) (nd : Int) (i : Nat) : Int :=
  gradY (winAt nrow ncol elev nd (i / ncol) (i % ncol))

/-- `dem.slope`; `hyp row gx gy` is `hypot(gx/(8|xres|·…), gy/(8|yres|·…))` (a parameter), `ndOut` the
nodata value of the result -/
def slopeModel {α : Type} (hyp : Nat → Int → Int → α) (ndOut : α) (nrow ncol : Nat) (elev : Array Int)
    (nd : Int) : Array α :=
  (Array.range (nrow * ncol)).map fun i =>
    if elev[i]! ≠ nd then hyp (i / ncol) (slopeGx nrow ncol elev nd i) (slopeGy nrow ncol elev nd i)
    else ndOut

/-- Newton iteration from above for the integer square root (structural recursion on a fuel that is
never exhausted: the guess at least halves until it is within a factor two of the root) -/
def isqrtN (n : Nat) : Nat → Nat → Nat
  | 0, g => g
  | f+1, g => let next := (g + n / g) / 2; if next < g then isqrtN n f next else g

def isqrtNewton (n : Nat) : Nat := isqrtN n n n

/-- exact `hypot` on a projected grid: `dzdx = gx·xn/xd`, `dzdy = gy·yn/yd` (`xn/xd = 1/(8|xres|·scale)`);
returns `(num, den, exact)`: `num/den = √(dzdx² + dzdy²)` when `exact = 1`, rounded down otherwise -/
def hypExact (xn xd yn yd : Int) (_row : Nat) (gx gy : Int) : Int × Int × Int :=
  let a := gx * xn * yd
  let b := gy * yn * xd
  let q := (a * a + b * b).toNat
  let s := isqrtNewton q
  (Int.ofNat s, xd * yd, if s * s = q then 1 else 0)

/-- declarative oracle of the two numerators: pad the raster with one ring of nodata, read the nine
cells of the window from the padded raster, replace nodata by the centre, apply the weight masks -/
def padded (nrow ncol : Nat) (elev : Array Int) (nd : Int) : Array Int :=
  (Array.range ((nrow + 2) * (ncol + 2))).map fun k =>
    let r := k / (ncol + 2)
    let c := k % (ncol + 2)
    if 1 ≤ r ∧ r ≤ nrow ∧ 1 ≤ c ∧ c ≤ ncol then elev[(r - 1) * ncol + (c - 1)]! else nd

def window9 (nrow ncol : Nat) (elev : Array Int) (nd : Int) (i : Nat) : List Int :=
  let p := padded nrow ncol elev nd
  let r := i / ncol + 1
  let c := i % ncol + 1
  let ctr := p[r * (ncol + 2) + c]!
  [(r-1, c-1), (r-1, c), (r-1, c+1), (r, c-1), (r, c), (r, c+1), (r+1, c-1), (r+1, c), (r+1, c+1)].map
    fun (rc : Nat × Nat) => let v := p[rc.1 * (ncol + 2) + rc.2]!; if v = nd then ctr else v

def dot9 (m w : List Int) : Int := ((m.zip w).map fun (p : Int × Int) => p.1 * p.2).sum

def slopeSpecGx (nrow ncol : Nat) (elev : Array Int) (nd : Int) (i : Nat) : Int :=
  dot9 [1, 0, -1, 2, 0, -2, 1, 0, -1] (window9 nrow ncol elev nd i)

def slopeSpecGy (nrow ncol : Nat) (elev : Array Int) (nd : Int) (i : Nat) : Int :=
  dot9 [1, 2, 1, 0, 0, 0, -1, -2, -1] (window9 nrow ncol elev nd i)

/-- whole-array form of the declarative oracle of `dem.slope`: the padded-raster convolution at every
cell holding a value, nodata elsewhere (what the driver returns as `spec.gx`, `spec.gy`) -/
def slopeSpecModel {α : Type} (hyp : Nat → Int → Int → α) (ndOut : α) (nrow ncol : Nat) (elev : Array Int)
    (nd : Int) : Array α :=
  (Array.range (nrow * ncol)).map fun i =>
    if elev[i]! ≠ nd then hyp (i / ncol) (slopeSpecGx nrow ncol elev nd i) (slopeSpecGy nrow ncol elev nd i)
    else ndOut

/-! ### the power law of Manning's equation written out (rational model)

`rivdph = ((manning * qbankfull) / (np.sqrt(rivslp) * rivwth)) ** (3 / 5)` at one cell, over the
rationals: `pow` stands for `x ↦ x^(3/5)` and `sq` for `√` of the slope fraction (parameters, only
their monotonicity is used); `tok` maps the value to the ordered integer token `riverDepth` works with
(the harness uses the bit pattern of the non-negative float64). -/

def manningArg (manning q sqrtS w : Rat) : Rat := (manning * q) / (sqrtS * w)

def manningPw (pow : Rat → Rat) (sq : Int × Int → Rat) (tok : Rat → Int) (manning q w : Array Rat)
    (i : Nat) (s : Int × Int) : Int :=
  tok (pow (manningArg manning[i]! q[i]! (sq s) w[i]!))

/-- the power law as a finite table (how the driver receives the parameter `pw`): candidate slopes
`cn[c]/cd[c]`, value `tab[c·n + i]` at cell `i`; `-1` (no token of a non-negative float) when the slope
is not a candidate. Depends on the slope only as a fraction (`pwTable_frac`). -/
def pwTable (n : Nat) (cn cd tab : Array Int) (i : Nat) (s : Int × Int) : Int :=
  match (List.range cn.size).find? fun c => cn[c]! * s.2 == s.1 * cd[c]! with
  | some c => tab[c * n + i]!
  | none => -1

end Pf.C14x
