import PfVerif.Model.Core
/-! Models of the along-network operators (C14), loop for loop, plus the independent declarative
definitions (`…Spec`) the driver evaluates as oracles. Core Lean only.

Anchors: `Flwdir.downstream`, `arithmetics.upstream_sum`, `core.fillnodata_upstream/_downstream`,
`core._window`, `arithmetics.moving_average/_average/moving_median`, `streams.stream_distance`,
`gis_utils.distance` (projected grids), `dem.height_above_nearest_drain`, `dem.floodplains`. -/
namespace Pf

/-! ### `Flwdir.downstream`:  `out = data.copy(); out[mask] = data[idxs_ds[mask]]` -/
def downstreamModel (ds : Array Nat) (data : Array Int) : Array Int :=
  (Array.range ds.size).map fun i => if ds[i]! ≠ ds.size then data[ds[i]!]! else data[i]!

/-! ### `arithmetics.upstream_sum` -/
def upstreamSumStep (ds : Array Nat) (data : Array Int) (nodata : Int) (arr : Array Int) (idx0 : Nat) :
    Array Int :=
  let d := ds[idx0]!
  if d ≠ ds.size ∧ d ≠ idx0 then
    if data[idx0]! = nodata ∨ data[d]! = nodata then arr.setIfInBounds idx0 nodata
    else arr.setIfInBounds d (arr[d]! + data[idx0]!)
  else arr

def upstreamSumModel (ds : Array Nat) (data : Array Int) (nodata : Int) : Array Int :=
  (List.range ds.size).foldl (upstreamSumStep ds data nodata) (Array.replicate ds.size 0)

/-- declarative: the direct inflow cells of `j` (all cells, increasing index) -/
def inflows (ds : Array Nat) (j : Nat) : List Nat :=
  (List.range ds.size).filter fun i => ds[i]! == j && i != j

/-- declarative: sum over the direct inflow cells that hold a value -/
def upstreamSumSpec (ds : Array Nat) (data : Array Int) (nodata : Int) (j : Nat) : Int :=
  (((inflows ds j).filter fun i => data[i]! != nodata).map fun i => data[i]!).sum

/-- the cells at which `upstream_sum` is fixed by the property: the cell holds a value and so does
its downstream cell (if it has one other than itself) -/
def upstreamSumFixed (ds : Array Nat) (data : Array Int) (nodata : Int) (j : Nat) : Bool :=
  data[j]! != nodata && (ds[j]! == j || ds[j]! == ds.size || data[ds[j]!]! != nodata)

/-- the loop overwrites `arr_sum[j]` with nodata at step `j`: `j` has a downstream cell other than
itself and one of the two cells is empty -/
def upsumFlagged (ds : Array Nat) (data : Array Int) (nodata : Int) (j : Nat) : Bool :=
  ds[j]! != ds.size && ds[j]! != j && (data[j]! == nodata || data[ds[j]!]! == nodata)

/-- what `upstream_sum` returns on its FULL domain (fields with missing values included): additions
reach `j` from its inflow cells holding a value if `j` holds one; if `j` is flagged, the additions made
before step `j` are overwritten with nodata and the later ones (inflow index > j) are added to nodata -/
def upstreamSumExact (ds : Array Nat) (data : Array Int) (nodata : Int) (j : Nat) : Int :=
  (if upsumFlagged ds data nodata j then nodata else 0) +
  (((inflows ds j).filter fun i => data[i]! != nodata && data[j]! != nodata &&
      (!upsumFlagged ds data nodata j || decide (j < i))).map fun i => data[i]!).sum

/-! ### `core.fillnodata_downstream` (with the `filled` array) as an instance of the generic
up-to-downstream sweep; the state of a cell is the pair `(data_out[i], filled[i])` -/

/-- `how`: 0 = max, 1 = min, 2 = sum -/
def mergeHow (how : Nat) (vc acc : Int) : Int :=
  if how = 0 then max vc acc else if how = 1 then min vc acc else acc + vc

/-- the loop body: `c` is the current cell, `acc = (data_out, filled)[ds c]`, `vc = (data_out, filled)[c]` -/
def updFillDown (ds : Array Nat) (data : Array Int) (nd : Int) (how : Nat) (c : Nat)
    (acc vc : Int × Bool) : Int × Bool :=
  if data[ds[c]!]! = nd ∧ vc.2 = true then
    (if acc.2 = false then (vc.1, true) else (mergeHow how vc.1 acc.1, true))
  else acc

/-- `data_out = data.copy(); filled = data != nodata` -/
def fillDownInit (data : Array Int) (nd : Int) : Array (Int × Bool) := data.map fun v => (v, v != nd)

def fillDownState (ds : Array Nat) (seq : List Nat) (data : Array Int) (nd : Int) (how : Nat) :
    Array (Int × Bool) :=
  sweepUp ds (updFillDown ds data nd how) seq (fillDownInit data nd)

def fillDownModel (ds : Array Nat) (seq : List Nat) (data : Array Int) (nd : Int) (how : Nat) : Array Int :=
  (fillDownState ds seq data nd how).map (·.1)

/-- the value a cell holds, if any -/
def optOf (s : Int × Bool) : Option Int := if s.2 then some s.1 else none

/-- the (in)filled value of cell `j` after the sweep, `none` if the cell stays empty -/
def fillOpt (ds : Array Nat) (seq : List Nat) (data : Array Int) (nd : Int) (how : Nat) (j : Nat) : Option Int :=
  optOf (fillDownState ds seq data nd how)[j]!

/-- merge rule on optional branch values (an empty branch is ignored) -/
def mergeOpt (how : Nat) (acc v : Option Int) : Option Int :=
  match v with
  | none => acc
  | some x => match acc with
    | none => some x
    | some a => some (mergeHow how x a)

def mergeBranches (how : Nat) (vals : List (Option Int)) : Option Int := vals.foldl (mergeOpt how) none

/-- declarative oracle (independent of the cell order): every cell holding a value walks
downstream and is merged into each empty cell it meets before the next cell holding a value. -/
def fillDownWalk (ds : Array Nat) (data : Array Int) (nd : Int) (how : Nat) (v : Int) :
    Nat → Nat → Array (Option Int) → Array (Option Int)
  | 0, _, acc => acc
  | fuel+1, cur, acc =>
    let d := ds[cur]!
    if d = cur ∨ d ≥ ds.size then acc
    else if data[d]! ≠ nd then acc
    else fillDownWalk ds data nd how v fuel d (acc.setIfInBounds d (mergeOpt how acc[d]! (some v)))

def fillDownSpec (ds : Array Nat) (data : Array Int) (nd : Int) (how : Nat) : Array Int :=
  let acc := (List.range ds.size).foldl (fun acc k =>
    if isValid ds k && data[k]! != nd then fillDownWalk ds data nd how data[k]! (ds.size + 1) k acc
    else acc) (Array.replicate ds.size none)
  ((List.range ds.size).map fun j => if data[j]! != nd then data[j]! else (acc[j]!).getD nd).toArray

/-! ### `core._window` without accumulators (declarative recursion) -/

def higherOrd (strord : Option (Array Int)) (s0 : Int) (d : Nat) : Bool :=
  match strord with
  | none => false
  | some s => decide (s[d]! > s0)

/-- may the window be extended from `c` to its downstream cell? -/
def downOK (ds : Array Nat) (strord : Option (Array Int)) (s0 : Int) (c : Nat) : Bool :=
  ds[c]! != c && ds[c]! != ds.size && !higherOrd strord s0 ds[c]!

def downList (ds : Array Nat) (strord : Option (Array Int)) (s0 : Int) : Nat → Nat → List Nat
  | 0, _ => []
  | k+1, c => if downOK ds strord s0 c then ds[c]! :: downList ds strord s0 k ds[c]! else []

def upList (ds usMain : Array Nat) : Nat → Nat → List Nat
  | 0, _ => []
  | k+1, c => if usMain[c]! ≠ ds.size then usMain[c]! :: upList ds usMain k usMain[c]! else []

def strord0 (strord : Option (Array Int)) (idx0 : Nat) : Int :=
  match strord with
  | none => 0
  | some s => s[idx0]!

/-- iterate-based oracle of the window: the downstream part (nearest cell first) -/
def windowSpecDown (ds : Array Nat) (strord : Option (Array Int)) (n idx0 : Nat) : List Nat :=
  let s0 := strord0 strord idx0
  let kd := ((List.range n).takeWhile fun k => downOK ds strord s0 (iterA ds k idx0)).length
  (List.range kd).map fun k => iterA ds (k+1) idx0

/-- the upstream part along the main stem (nearest cell first) -/
def windowSpecUp (ds usMain : Array Nat) (n idx0 : Nat) : List Nat :=
  let ku := ((List.range n).takeWhile fun k => usMain[iterA usMain k idx0]! != ds.size).length
  (List.range ku).map fun k => iterA usMain (k+1) idx0

/-- the whole window from the most upstream to the most downstream cell -/
def windowSpec (ds usMain : Array Nat) (strord : Option (Array Int)) (n idx0 : Nat) : List Nat :=
  (windowSpecUp ds usMain n idx0).reverse ++ [idx0] ++ windowSpecDown ds strord n idx0

/-! ### `arithmetics.moving_average` / `_average` / `moving_median`
Results are exact rationals `num/den`; an unset cell is `(nodata, 1)`. -/

def weightAt (weights : Option (Array Int)) (i : Nat) : Int :=
  match weights with
  | none => 1
  | some w => w[i]!

/-- `_average(data[idxs], w, nodata)`: (Σ w·v, Σ w) over the entries holding a value -/
def averageAcc (data : Array Int) (weights : Option (Array Int)) (nd : Int) (idxs : List Nat) : Int × Int :=
  idxs.foldl (fun (vw : Int × Int) i =>
    if data[i]! = nd then vw else (vw.1 + weightAt weights i * data[i]!, vw.2 + weightAt weights i)) (0, 0)

def movingAverageCell (ds usMain : Array Nat) (strord : Option (Array Int)) (data : Array Int)
    (weights : Option (Array Int)) (n : Nat) (nd : Int) (idx0 : Nat) : Int × Int :=
  if data[idx0]! = nd then (nd, 1)
  else
    let vw := averageAcc data weights nd (window ds usMain strord n idx0)
    if vw.2 ≠ 0 then vw else (nd, 1)

def movingAverageModel (ds usMain : Array Nat) (strord : Option (Array Int)) (data : Array Int)
    (weights : Option (Array Int)) (n : Nat) (nd : Int) : Array (Int × Int) :=
  (Array.range data.size).map (movingAverageCell ds usMain strord data weights n nd)

def leInt (a b : Int) : Bool := decide (a ≤ b)

/-- twice the median of a non-empty list (`np.nanmedian`): middle element, or the sum of the two
middle elements -/
def median2 (vals : List Int) : Int :=
  let s := vals.mergeSort leInt
  let m := s.length
  if m % 2 = 1 then 2 * s[m / 2]! else s[m / 2 - 1]! + s[m / 2]!

def windowVals (data : Array Int) (nd : Int) (idxs : List Nat) : List Int :=
  (idxs.map fun i => data[i]!).filter fun v => v != nd

def movingMedianCell (ds usMain : Array Nat) (strord : Option (Array Int)) (data : Array Int)
    (n : Nat) (nd : Int) (idx0 : Nat) : Int × Int :=
  if data[idx0]! = nd then (nd, 1)
  else (median2 (windowVals data nd (window ds usMain strord n idx0)), 2)

def movingMedianModel (ds usMain : Array Nat) (strord : Option (Array Int)) (data : Array Int)
    (n : Nat) (nd : Int) : Array (Int × Int) :=
  (Array.range data.size).map (movingMedianCell ds usMain strord data n nd)

/-- order-statistic oracle by counting (no sorting): the `k`-th smallest value of `l` -/
def kthSmallest (l : List Int) (k : Nat) : Int :=
  match l.find? (fun x => decide ((l.filter fun y => decide (y < x)).length ≤ k) &&
                          decide (k < (l.filter fun y => decide (y ≤ x)).length)) with
  | some x => x
  | none => 0

def median2Spec (l : List Int) : Int :=
  kthSmallest l ((l.length - 1) / 2) + kthSmallest l (l.length / 2)

/-! ### `streams.stream_distance` -/

def isqrtAux (n : Nat) : Nat → Nat → Nat
  | 0, r => r
  | fuel+1, r => if (r+1)*(r+1) ≤ n then isqrtAux n fuel (r+1) else r

def isqrt (n : Nat) : Nat := isqrtAux n n 0

/-- `gis_utils.distance` on a projected grid: `hypot(yres*dr, xres*dc)`; exact when the squared
length is a perfect square (the harness uses 3×4 cells), otherwise rounded down -/
def cellDist2 (ncol : Nat) (xres yres : Int) (i j : Nat) : Nat :=
  let dr : Int := (Int.ofNat (j / ncol) - Int.ofNat (i / ncol)).natAbs
  let dc : Int := (Int.ofNat (j % ncol) - Int.ofNat (i % ncol)).natAbs
  ((yres * dr) * (yres * dr) + (xres * dc) * (xres * dc)).toNat

def cellDist (ncol : Nat) (xres yres : Int) (i j : Nat) : Int :=
  Int.ofNat (isqrt (cellDist2 ncol xres yres i j))

def cellDistExact (ncol : Nat) (xres yres : Int) (i j : Nat) : Bool :=
  let q := cellDist2 ncol xres yres i j
  isqrt q * isqrt q == q

/-- `out = full(n, mv); out[seq] = 0` -/
def initSeq {α : Type} (n : Nat) (seq : List Nat) (mv zero : α) : Array α :=
  seq.foldl (fun a i => a.setIfInBounds i zero) (Array.replicate n mv)

def stopAt_c14 (ds : Array Nat) (mask : Option (Array Bool)) (i : Nat) : Bool :=
  ds[i]! == i || (match mask with | none => false | some m => m[i]!)

def gDist (ds : Array Nat) (mask : Option (Array Bool)) (step : Nat → Nat → Int) (i : Nat) (own dsv : Int) : Int :=
  if stopAt_c14 ds mask i then own else dsv + step i ds[i]!

def streamDistanceModel (ds : Array Nat) (seq : List Nat) (mask : Option (Array Bool))
    (step : Nat → Nat → Int) : Array Int :=
  sweepDown ds (gDist ds mask step) seq (initSeq ds.size seq (-9999) 0)

/-- declarative walk: length of the path to the next masked cell or pit -/
def walkDist (ds : Array Nat) (mask : Option (Array Bool)) (step : Nat → Nat → Int) : Nat → Nat → Option Int
  | 0, _ => none
  | fuel+1, i =>
    if stopAt_c14 ds mask i then some 0
    else (walkDist ds mask step fuel ds[i]!).map fun v => v + step i ds[i]!

/-! ### `dem.height_above_nearest_drain` -/

def gHand (ds : Array Nat) (drain : Array Bool) (elev : Array Int) (i : Nat) (own dsv : Int) : Int :=
  if drain[i]! then own else dsv + (elev[i]! - elev[ds[i]!]!)

def handModel (ds : Array Nat) (seq : List Nat) (drain : Array Bool) (elev : Array Int) : Array Int :=
  sweepDown ds (gHand ds drain elev) seq (initSeq ds.size seq (-9999) 0)

/-- first cell on the downstream path of `i` (including `i`) that satisfies `p` or is a pit -/
def walkFirst (ds : Array Nat) (p : Nat → Bool) : Nat → Nat → Option Nat
  | 0, _ => none
  | fuel+1, i => if p i || ds[i]! == i then some i else walkFirst ds p fuel ds[i]!

def handSpec (ds : Array Nat) (drain : Array Bool) (elev : Array Int) (i : Nat) : Option Int :=
  (walkFirst ds (fun c => drain[c]!) (ds.size + 1) i).map fun k => elev[i]! - elev[k]!

/-! ### `dem.floodplains`
`uparea ** b` is a parameter: `hnum[i] / hden` is the (float32) value the implementation stores for
cell `i`; `uparea`, `upaMin` are exact integers. State per cell: (flag, drainz, drainh·hden). -/

structure FpParams where
  elev : Array Int
  uparea : Array Int
  upaMin : Int
  hnum : Array Int
  hden : Int

def isStream (P : FpParams) (i : Nat) : Bool := decide (P.uparea[i]! ≥ P.upaMin)

def gFlood (P : FpParams) (i : Nat) (own dsv : Int × Int × Int) : Int × Int × Int :=
  if isStream P i then (1, P.elev[i]!, P.hnum[i]!)
  else if dsv.1 = 1 ∧ (P.elev[i]! - dsv.2.1) * P.hden ≤ dsv.2.2 then (1, dsv.2.1, dsv.2.2)
  else own

def floodState (ds : Array Nat) (seq : List Nat) (P : FpParams) : Array (Int × Int × Int) :=
  sweepDown ds (gFlood P) seq (initSeq ds.size seq (-1, -9999, -9999) (0, -9999, -9999))

def floodplainsModel (ds : Array Nat) (seq : List Nat) (P : FpParams) : Array Int :=
  (floodState ds seq P).map (·.1)

/-- declarative oracle: `i` is flagged iff a stream cell `s` is met walking downstream (before
running into a pit) and every cell `c` passed on the way satisfies `elev c − elev s ≤ h s` -/
def floodWalk (ds : Array Nat) (P : FpParams) (s : Nat) : Nat → Nat → Bool
  | 0, _ => false
  | fuel+1, c =>
    if c = s then true
    else decide ((P.elev[c]! - P.elev[s]!) * P.hden ≤ P.hnum[s]!) && floodWalk ds P s fuel ds[c]!

def floodSpec (ds : Array Nat) (P : FpParams) (i : Nat) : Int :=
  match walkFirst ds (isStream P) (ds.size + 1) i with
  | none => -2
  | some s => if isStream P s && floodWalk ds P s (ds.size + 1) i then 1 else 0

/-! ### `streams.smooth_rivlen` (exact rationals; `Flwdir.smooth_rivlen` passes no stream order)

`n = max_window // 2`; for every cell below `min_rivlen` the window `idxs[n-i : n+i+1]` is grown for
`i = 1 .. n-1` (sic: the half-width `n` itself is never tried) while remembering the window with the
largest mean of the CURRENT values; the loop stops as soon as that mean exceeds `min_rivlen`; the
remembered window is then overwritten with its mean. -/

/-- `idxs[n-i : n+i+1]` without the empty slots: up to `i` cells up the main stem, the cell, up to `i`
cells downstream (the slots of `_window` are filled contiguously from the centre) -/
def rivSlice (ds usMain : Array Nat) (n i idx0 : Nat) : List Nat :=
  ((upList ds usMain n idx0).take i).reverse ++ [idx0] ++ (downList ds none 0 n idx0).take i

def meanAt (a : Array Rat) (idxs : List Nat) : Rat :=
  (idxs.map fun k => a[k]!).sum / (idxs.length : Rat)

/-- one pass of `for i in range(1, n)` from half-width `i`, `cnt` iterations left;
state = (`len_avg1`, `idxs1`) -/
def smoothInner (ds usMain : Array Nat) (a : Array Rat) (nd minLen : Rat) (n idx0 : Nat) :
    Nat → Nat → Rat × List Nat → Rat × List Nat
  | 0, _, st => st
  | cnt+1, i, st =>
    let idxs0 := (rivSlice ds usMain n i idx0).filter fun k => a[k]! != nd
    let avg0 := meanAt a idxs0
    let st' := if avg0 > st.1 then (avg0, idxs0) else st
    if st'.1 > minLen then st' else smoothInner ds usMain a nd minLen n idx0 cnt (i+1) st'

/-- `rivlen_out[idxs1] = len_avg1` -/
def setAll (a : Array Rat) (idxs : List Nat) (v : Rat) : Array Rat :=
  idxs.foldl (fun a k => a.setIfInBounds k v) a

/-- body of the outer loop; the flag records that every value written so far is an integer (then
the implementation's float arithmetic is exact on integer input) -/
def smoothStep (ds usMain : Array Nat) (nd minLen : Rat) (n : Nat) (st : Array Rat × Bool) (idx0 : Nat) :
    Array Rat × Bool :=
  let a := st.1
  let len0 := a[idx0]!
  if len0 != nd && decide (len0 < minLen) then
    let r := smoothInner ds usMain a nd minLen n idx0 (n - 1) 1 (len0, [])
    if r.1 > len0 then (setAll a r.2 r.1, st.2 && r.1.den == 1) else st
  else st

def smoothRivlenModel (ds usMain : Array Nat) (rivlen : Array Rat) (minLen : Rat) (maxWindow : Nat)
    (nd : Rat) : Array Rat × Bool :=
  (List.range rivlen.size).foldl (smoothStep ds usMain nd minLen (maxWindow / 2)) (rivlen, true)

/-- well-formedness of the main-stem array `idxs_us_main` (executable; the driver's `usmain_ok`):
every entry is the missing value or an inflow cell of its cell -/
def usMainOK_c14 (ds usMain : Array Nat) : Bool :=
  (List.range ds.size).all fun d =>
    usMain[d]! == ds.size || (usMain[d]! < ds.size && usMain[d]! != d && ds[usMain[d]!]! == d)

/-- hypothesis `hcov` of the model = oracle theorems (`fill_down_eq_spec`, `estModel_eq_spec`,
`river_slope_eq_spec`): the cell order holds every cell of the network -/
def coversNet_c14 (ds : Array Nat) (seq : List Nat) : Bool :=
  let seen := seq.foldl (fun a i => a.setIfInBounds i true) (Array.replicate ds.size false)
  (List.range ds.size).all fun c => !isValid ds c || seen[c]!

end Pf
