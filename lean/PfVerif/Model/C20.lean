import PfVerif.Model.Core
/-! Models of `gis_utils.spread2d` and `regions.region_dissolve` (C20). Core Lean only.

A raster of `nrow × ncol` cells is flattened row-major (`i = r * ncol + c`). Distances, friction and
cell sizes are exact rationals (`Rat`, core). The geometric pieces that are not rational are
*parameters*: per row `r` the cell width `dxs[r]`, the cell height `dys[r]` and the diagonal
`dgs[r]` (= `hypot(dy, dx)` as evaluated by the implementation's own `np.hypot`); for geographic
grids the metres-per-degree values are a table keyed by latitude and the model decides at which
latitude (`north + (r + 1/2) * transform[4]`, signed resolution) each row looks them up. -/
namespace Pf

/-- inputs of `spread2d` after the geometry has been resolved to per-row cell sizes -/
structure SpGrid where
  nrow : Nat
  ncol : Nat
  obs : Array Int
  msk : Option (Array Bool)
  nodata : Int
  frc : Option (Array Rat)
  dxs : Array Rat
  dys : Array Rat
  dgs : Array Rat

namespace SpGrid
def n (G : SpGrid) : Nat := G.nrow * G.ncol
/-- `msk is None or msk[r, c]` -/
def allowed (G : SpGrid) (i : Nat) : Bool :=
  match G.msk with
  | none => true
  | some m => m[i]!
/-- `f0 = 1.0 if frc is None else frc[r, c]` -/
def fric (G : SpGrid) (i : Nat) : Rat :=
  match G.frc with
  | none => 1
  | some f => f[i]!
/-- `np.hypot(dr * dy, dc * dx)` for `dr, dc ∈ {-1,0,1}`, not both 0, at row `r` -/
def stepLen (G : SpGrid) (r : Nat) (o : Int × Int) : Rat :=
  if o.1 = 0 then (G.dxs[r]!).abs else if o.2 = 0 then (G.dys[r]!).abs else G.dgs[r]!
/-- cost of leaving cell `a` in direction `o`: step length (at the row of `a`) times friction of `a` -/
def wgt (G : SpGrid) (a : Nat) (o : Int × Int) : Rat := G.stepLen (a / G.ncol) o * G.fric a
/-- the neighbour of `a` in direction `o = (dr, dc)` if inside the raster -/
def nbrOf (G : SpGrid) (a : Nat) (o : Int × Int) : Option Nat :=
  let r1 : Int := ((a / G.ncol : Nat) : Int) + o.1
  let c1 : Int := ((a % G.ncol : Nat) : Int) + o.2
  if r1 < 0 ∨ r1 ≥ (G.nrow : Int) ∨ c1 < 0 ∨ c1 ≥ (G.ncol : Int) then none
  else some (r1.toNat * G.ncol + c1.toNat)
end SpGrid

/-- `for dr in range(-1, 2): for dc in range(-1, 2): if dr == 0 and dc == 0: continue` -/
def nbrOffsets : List (Int × Int) :=
  [(-1, -1), (-1, 0), (-1, 1), (0, -1), (0, 1), (1, -1), (1, 0), (1, 1)]

/-- state of the spreading loop; `src[i] = -1` = not reached; the heap is a multiset of
`(distance, cell)` (python tuples `(d, r, c)` compare like `(d, r * ncol + c)`) -/
structure SpState where
  src : Array Int
  dst : Array Rat
  out : Array Int
  heap : List (Rat × Nat)

/-- tuple order of the heap entries -/
def keyLt (x y : Rat × Nat) : Bool := x.1 < y.1 || (x.1 == y.1 && x.2 < y.2)

/-- the entry `heapq.heappop` returns: a least entry (any two least entries are equal) -/
def heapMin : List (Rat × Nat) → Option (Rat × Nat)
  | [] => none
  | x :: t => some (t.foldl (fun m y => if keyLt y m then y else m) x)

/-- the two initial loops: sources get their own index; allowed sources are pushed with key 0 -/
def spInit (G : SpGrid) : SpState :=
  (List.range G.n).foldl (fun st i =>
    if G.obs[i]! ≠ G.nodata then
      { st with heap := if G.allowed i then (0, i) :: st.heap else st.heap,
                src := st.src.setIfInBounds i (i : Int) }
    else st)
    { src := Array.replicate G.n (-1), dst := Array.replicate G.n 0, out := G.obs, heap := [] }

/-- body of the neighbour loop for the popped entry `(d0, a)` and one direction -/
def relax (G : SpGrid) (a : Nat) (d0 : Rat) (st : SpState) (o : Int × Int) : SpState :=
  match G.nbrOf a o with
  | none => st
  | some b =>
    if G.allowed b = false then st
    else if st.src[b]! = -1 ∨ d0 + G.wgt a o < st.dst[b]! then
      { src := st.src.setIfInBounds b st.src[a]!,
        dst := st.dst.setIfInBounds b (d0 + G.wgt a o),
        out := st.out.setIfInBounds b G.obs[(st.src[a]!).toNat]!,
        heap := (d0 + G.wgt a o, b) :: st.heap }
    else st

/-- `while len(q) > 0:` with fuel; `none` = fuel exhausted -/
def spLoop (G : SpGrid) : Nat → SpState → Option SpState
  | 0, st => if st.heap.isEmpty then some st else none
  | fuel + 1, st =>
    match heapMin st.heap with
    | none => some st
    | some e =>
      let st1 : SpState := { st with heap := st.heap.erase e }
      if st1.dst[e.2]! < e.1 then spLoop G fuel st1
      else spLoop G fuel (nbrOffsets.foldl (relax G e.2 e.1) st1)

/-- `spread2d` on resolved geometry: every non-stale pop pushes at most 8 entries and (for positive
costs) every cell is popped non-stale at most once, so `10 n + 1` pops suffice -/
def spread2d (G : SpGrid) : Option SpState := spLoop G (10 * G.n + 1) (spInit G)

/-! ### geometry: `xres, yres, north = transform[0], abs(transform[4]), transform[5]` -/

/-- row latitudes `north + (arange(nrow) + 0.5) * transform[4]` -/
def rowLat (north t4 : Rat) (r : Nat) : Rat := north + ((r : Rat) + 1 / 2) * t4

/-- projected grid: `dx, dy = xres, yres` on every row; `dg` = the value of `hypot(dy, dx)` -/
def geomProjected (nrow : Nat) (xres t4 dg : Rat) : Array Rat × Array Rat × Array Rat :=
  (Array.replicate nrow xres, Array.replicate nrow t4.abs, Array.replicate nrow dg)

/-- a table of the metres-per-degree functions: `(lat, degree_metres_x lat, degree_metres_y lat,
hypot(degree_metres_y lat * yres, degree_metres_x lat * xres))` -/
abbrev DegTable := List (Rat × Rat × Rat × Rat)

def DegTable.find (t : DegTable) (lat : Rat) : Option (Rat × Rat × Rat) :=
  (t.find? fun e => e.1 == lat).map (·.2)

/-- geographic grid: `dys = degree_metres_y(lats) * yres`, `dxs = degree_metres_x(lats) * xres`;
`none` if a row latitude is not in the table -/
def geomLatLon (nrow : Nat) (north xres t4 : Rat) (tab : DegTable) :
    Option (Array Rat × Array Rat × Array Rat) :=
  (List.range nrow).foldlM (fun (acc : Array Rat × Array Rat × Array Rat) r =>
    match tab.find (rowLat north t4 r) with
    | none => none
    | some (mx, my, dg) => some (acc.1.push (mx * xres), acc.2.1.push (my * t4.abs), acc.2.2.push dg))
    (#[], #[], #[])

/-! ### `regions.region_dissolve` -/

/-- `regions0[np.isin(regions, labels)] = 0` -/
def dissolveSeeds (regions : Array Int) (labels : List Int) : Array Int :=
  regions.map fun v => if labels.contains v then 0 else v

/-- `ndimage.minimum_position(dst, regions, label)`: the first cell (row-major) of the region where
`dst` is least; `(0, 0)` if the label does not occur -/
def minPosition (dst : Array Rat) (regions : Array Int) (lab : Int) : Nat :=
  match (List.range regions.size).filter (fun i => regions[i]! == lab) with
  | [] => 0
  | i :: t => t.foldl (fun m j => if dst[j]! < dst[m]! then j else m) i

/-- `np.vectorize(lambda x: d.get(x, x))(regions)` with `d = dict(zip(labels, labels1))`
(later pairs overwrite earlier ones) -/
def relabelVal (labels labels1 : List Int) (v : Int) : Int :=
  match (labels.zip labels1).reverse.find? (fun p => p.1 == v) with
  | some p => p.2
  | none => v

def relabel (regions : Array Int) (labels labels1 : List Int) : Array Int :=
  regions.map (relabelVal labels labels1)

/-- the checks that raise `ValueError("Found non-unique or zero-value labels.")` -/
def labelsOk (labels : List Int) : Bool :=
  labels.all (· > 0) && labels.eraseDups.length == labels.length

/-- body of `region_dissolve` after argument validation. `idxs = none`: by labels (location =
cell of the region nearest to a surviving region); `some idxs`: by location, `labels` must be
`regions.flat[idxs]`. The geometry and the optional `msk`/`frc` keyword arguments are in `G0`
(whose `obs` and `nodata` are replaced). `none` = spreading ran out of fuel. -/
def regionDissolve (G0 : SpGrid) (regions : Array Int) (labels : List Int) (idxs : Option (List Nat)) :
    Option (Array Int) :=
  let G : SpGrid := { G0 with obs := dissolveSeeds regions labels, nodata := 0 }
  match spread2d G with
  | none => none
  | some st =>
    let locs := match idxs with
      | some l => l
      | none => labels.map fun lab => minPosition st.dst regions lab
    some (relabel regions labels (locs.map fun i => st.out[i]!))

/-! ### declarative side: walks, least cost by exhaustive relaxation, certificate -/

/-- an observation cell from which spreading starts -/
def SpGrid.isSource (G : SpGrid) (i : Nat) : Bool :=
  decide (i < G.n) && (G.obs[i]! != G.nodata) && G.allowed i

/-- `SpWalk G s c k`: there is a walk by 8-neighbour steps from the observation cell `s` to `c`
through allowed cells whose accumulated cost (step length × friction of the cell stepped from) is `k` -/
inductive SpWalk (G : SpGrid) : Nat → Nat → Rat → Prop
  | src (s : Nat) : G.isSource s = true → SpWalk G s s 0
  | step {s a b : Nat} {k : Rat} (o : Int × Int) : SpWalk G s a k → o ∈ nbrOffsets →
      G.nbrOf a o = some b → G.allowed b = true → SpWalk G s b (k + G.wgt a o)

/-- one round of relaxation of every edge (Bellman–Ford), `none` = no walk found yet -/
def bfRound (G : SpGrid) (D : Array (Option Rat)) : Array (Option Rat) :=
  (List.range G.n).foldl (fun acc a =>
    match D[a]! with
    | none => acc
    | some da =>
      nbrOffsets.foldl (fun acc o =>
        match G.nbrOf a o with
        | none => acc
        | some b =>
          if G.allowed b = false then acc else
          match acc[b]! with
          | none => acc.setIfInBounds b (some (da + G.wgt a o))
          | some db => if da + G.wgt a o < db then acc.setIfInBounds b (some (da + G.wgt a o)) else acc)
        acc) D

def bfIter (G : SpGrid) : Nat → Array (Option Rat) → Array (Option Rat)
  | 0, D => D
  | k + 1, D =>
    let D' := bfRound G D
    if D' == D then D else bfIter G k D'

/-- least cost of a walk from any source in `srcs` (exhaustive relaxation to the fixed point) -/
def bfDist (G : SpGrid) (isSrc : Nat → Bool) : Array (Option Rat) :=
  bfIter G (G.n + 1) ((Array.range G.n).map fun i => if isSrc i then some 0 else none)

/-- the decidable local certificate for an output `(src, dst, out)` of spreading -/
structure SpOut where
  src : Array Int
  dst : Array Rat
  out : Array Int

def SpState.toOut (st : SpState) : SpOut := ⟨st.src, st.dst, st.out⟩

def certSizes (G : SpGrid) (o : SpOut) : Bool :=
  o.src.size == G.n && o.dst.size == G.n && o.out.size == G.n

/-- disallowed cells are untouched (an observation there still reports itself as origin) -/
def certDisallowed (G : SpGrid) (o : SpOut) (i : Nat) : Bool :=
  G.allowed i || (o.src[i]! == (if G.obs[i]! != G.nodata then (i : Int) else -1) && o.dst[i]! == 0 &&
    o.out[i]! == G.obs[i]!)

/-- observation cells keep their value, distance 0, origin = themselves -/
def certSource (G : SpGrid) (o : SpOut) (i : Nat) : Bool :=
  !(G.isSource i) || (o.src[i]! == (i : Int) && o.dst[i]! == 0 && o.out[i]! == G.obs[i]!)

/-- cells not reached are untouched -/
def certUnreached (G : SpGrid) (o : SpOut) (i : Nat) : Bool :=
  !(G.allowed i && o.src[i]! == -1) || (o.dst[i]! == 0 && o.out[i]! == G.obs[i]!)

/-- feasibility: every allowed step out of a reached cell reaches, and `dst b ≤ dst a + w(a, b)` -/
def certFeasible (G : SpGrid) (o : SpOut) (a : Nat) : Bool :=
  !(G.allowed a && o.src[a]! != -1) ||
    nbrOffsets.all fun d =>
      match G.nbrOf a d with
      | none => true
      | some b => !(G.allowed b) || (o.src[b]! != -1 && decide (o.dst[b]! ≤ o.dst[a]! + G.wgt a d))

/-- tightness: a reached cell that is not an observation has a reached predecessor `a` with
`dst b = dst a + w(a, b)` from which origin and value are inherited -/
def certTight (G : SpGrid) (o : SpOut) (b : Nat) : Bool :=
  !(G.allowed b && o.src[b]! != -1 && !(G.isSource b)) ||
    (List.range G.n).any fun a =>
      G.allowed a && o.src[a]! != -1 &&
        nbrOffsets.any fun d =>
          G.nbrOf a d == some b && o.dst[b]! == o.dst[a]! + G.wgt a d && o.src[b]! == o.src[a]! &&
            o.out[b]! == o.out[a]!

/-- every allowed step has positive cost (positive friction, non-degenerate cells) -/
def certPositive (G : SpGrid) : Bool :=
  (List.range G.n).all fun a => nbrOffsets.all fun d =>
    match G.nbrOf a d with
    | none => true
    | some _ => decide (0 < G.wgt a d)

def spreadCert (G : SpGrid) (o : SpOut) : Bool :=
  certSizes G o && (List.range G.n).all fun i =>
    certDisallowed G o i && certSource G o i && certUnreached G o i && certFeasible G o i && certTight G o i

/-- the cell sizes are consistent: the diagonal is the Euclidean length of (dx, dy) -/
def geomOk (G : SpGrid) : Bool :=
  G.dxs.size == G.nrow && G.dys.size == G.nrow && G.dgs.size == G.nrow &&
  (List.range G.nrow).all fun r =>
    decide (0 ≤ G.dgs[r]!) && G.dgs[r]! * G.dgs[r]! == G.dxs[r]! * G.dxs[r]! + G.dys[r]! * G.dys[r]!

end Pf
