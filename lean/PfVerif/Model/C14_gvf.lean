import PfVerif.Model.Core
/-! Extension C14_gvf: model of `rivers.rivdph_gvf`, the `method='gvf'` branch of `Flwdir.river_depth`,
loop for loop. Core Lean only.

```
rivdph_out = rivdph.copy();  zb = zs - rivdph
for _ in range(n_iter):
    for idx in seq:                                     # from down- to upstream
        idx_ds = idxs_ds[idx]
        if qbankfull[idx] <= 0 or rivwth[idx] <= 0 or idx == idx_ds: continue
        dz = zb[idx] - zb[idx_ds];  dx = rivdst[idx] - rivdst[idx_ds]
        slp = max(min_rivslp, dz / dx)
        h0 = rivdph_out[idx_ds]
        sol = solve_ivp(_gvf, [0, dx], [h0], method="RK45", args=(manning[idx], qbankfull[idx], slp, rivwth[idx]))
        h1 = sol.y[-1][-1]
        if abs((h1 - h0) / dx) > 1 or h1 < 0 or not sol.success: logger.warning(sol.message)
        else: rivdph_out[idx] = max(min_rivdph, h1)
    zb = zs - rivdph_out
return rivdph_out
```

**The ODE solver is an oracle.** `solve_ivp` cannot be modelled. The harness replaces the module attribute
`pyflwdir.rivers.solve_ivp` by a recording stand-in and hands the recorded answers `(h1, success)`, in call
order, to the model, which consumes them in order. Everything else is decided by the model: *which* cells call
the solver, in which order, with which arguments (`h0`, `dx`, `slp`, `manning`, `qbankfull`, `rivwth`), which
answers are accepted, what is stored and what stays unchanged. The harness compares the predicted argument of
every call with the recorded one, so a model that got out of step with the implementation is noticed at the
first call that differs.

**Numbers.** No input discipline is needed: every value is an IEEE-754 binary64 *bit pattern* (a natural number
below 2^64) and the three float operations of the loop that are not copies - `a - b`, `a / b` and the
comparisons - are modelled exactly (`fSub`, `fDiv`: the exact dyadic / rational result rounded to nearest, ties
to even, with the IEEE rules for zeros, infinities and NaN; `fLt`/`fLe`: IEEE comparisons, false on NaN). So the
slope `slp = max(min_rivslp, dz/dx)` is *computed by the model* - it is neither passed in from the implementation
nor are the inputs restricted to values on which the division happens to be exact - and compared bit for bit
with the argument the solver received. Python's `max(a, b)` is `b if b > a else a` (`pyMax`). NaN results carry the canonical
quiet-NaN pattern; the harness canonicalises NaN patterns on the implementation side as well. The float layer
itself is validated against numpy by the op `c14g_farith`.

The model is written in two layers: a **generic kernel** (`Kernel`, `step`, `sweep`, `iter`, `run`, `gvf`)
over an arbitrary value type - eligibility, acceptance test, stored value, bed-level update and the extra solver
arguments are parameters - about which all structural theorems are proved, and the **binary64 instance**
`gvfKernel`. -/
namespace Pf.C14g
open Pf

/-! ## generic kernel -/

/-- one oracle answer: `h1 = sol.y[-1][-1]`, `ok = sol.success` -/
structure Ans (α : Type) where
  h1 : α
  ok : Bool

/-- one solver call as the model sees it: the cell, `h0`, the other solver arguments (`ext`), the oracle answer
consumed (`none`: the oracle was exhausted) and whether the answer was accepted -/
structure Ev (α γ : Type) where
  cell : Nat
  h0 : α
  ext : γ
  ans : Option (Ans α)
  acc : Bool

/-- state of the loops: `rivdph_out`, the remaining oracle answers, the calls made so far in call order -/
structure St (α γ : Type) where
  out : Array α
  orc : List (Ans α)
  ev : List (Ev α γ)

/-- the parameters of the loop body -/
structure Kernel (α γ : Type) where
  /-- `not (qbankfull[idx] <= 0 or rivwth[idx] <= 0)` -/
  elig : Nat → Bool
  /-- `not (abs((h1 - h0) / dx) > 1 or h1 < 0 or not sol.success)` for the call of cell `idx` -/
  accept : Nat → α → Ans α → Bool
  /-- `max(min_rivdph, h1)` -/
  store : α → α
  /-- `zs - rivdph_out` -/
  mkZb : Array α → Array α
  /-- the solver arguments other than `h0`, computed from the bed levels `zb` of this iteration -/
  ext : Array α → Nat → γ

variable {α γ : Type} [Inhabited α]

/-- a cell calls the solver iff it is not skipped by the `continue` -/
def eligible (K : Kernel α γ) (ds : Array Nat) (i : Nat) : Bool := K.elig i && ds[i]! != i

/-- what happens with the answer of one call -/
def call (K : Kernel α γ) (ds : Array Nat) (zb : Array α) (s : St α γ) (i : Nat) : St α γ :=
  let h0 := s.out[ds[i]!]!
  match s.orc with
  | [] => { s with ev := s.ev ++ [⟨i, h0, K.ext zb i, none, false⟩] }
  | a :: rest =>
    if K.accept i h0 a then
      { out := s.out.setIfInBounds i (K.store a.h1), orc := rest,
        ev := s.ev ++ [⟨i, h0, K.ext zb i, some a, true⟩] }
    else { s with orc := rest, ev := s.ev ++ [⟨i, h0, K.ext zb i, some a, false⟩] }

/-- the body of the inner loop -/
def step (K : Kernel α γ) (ds : Array Nat) (zb : Array α) (s : St α γ) (i : Nat) : St α γ :=
  if eligible K ds i then call K ds zb s i else s

/-- `for idx in seq: …` -/
def sweep (K : Kernel α γ) (ds : Array Nat) (zb : Array α) (seq : List Nat) (s : St α γ) : St α γ :=
  seq.foldl (step K ds zb) s

/-- one iteration of the outer loop on (`zb`, state): the sweep, then `zb = zs - rivdph_out` -/
def iter (K : Kernel α γ) (ds : Array Nat) (seq : List Nat) (p : Array α × St α γ) : Array α × St α γ :=
  let s' := sweep K ds p.1 seq p.2
  (K.mkZb s'.out, s')

/-- `for _ in range(n_iter): …` -/
def run (K : Kernel α γ) (ds : Array Nat) (seq : List Nat) : Nat → Array α × St α γ → Array α × St α γ
  | 0, p => p
  | n+1, p => iter K ds seq (run K ds seq n p)

/-- the state the loops start from: `rivdph_out = rivdph.copy()`, `zb = zs - rivdph` -/
def start (K : Kernel α γ) (rivdph : Array α) (orc : List (Ans α)) : Array α × St α γ :=
  (K.mkZb rivdph, ⟨rivdph, orc, []⟩)

/-- `rivers.rivdph_gvf` with the oracle `orc`: final `rivdph_out`, unused answers, the calls -/
def gvf (K : Kernel α γ) (ds : Array Nat) (seq : List Nat) (nIter : Nat) (rivdph : Array α)
    (orc : List (Ans α)) : St α γ :=
  (run K ds seq nIter (start K rivdph orc)).2

/-- the cells that call the solver in one iteration, in call order -/
def callers (K : Kernel α γ) (ds : Array Nat) (seq : List Nat) : List Nat := seq.filter (eligible K ds)

/-- `l` repeated `n` times -/
def repeatList {β : Type} : Nat → List β → List β
  | 0, _ => []
  | n+1, l => repeatList n l ++ l

/-- the first `k` oracle answers, `none` where the oracle has none -/
def takePad {β : Type} : Nat → List β → List (Option β)
  | 0, _ => []
  | k+1, [] => none :: takePad k []
  | k+1, a :: l => some a :: takePad k l

/-- number of calls that found the oracle exhausted -/
def missing (evs : List (Ev α γ)) : Nat := (evs.filter fun e => e.ans.isNone).length

/-- the last accepted call of cell `i` -/
def lastAcc (evs : List (Ev α γ)) (i : Nat) : Option (Ev α γ) :=
  evs.reverse.find? fun e => e.acc && e.cell == i

/-- what cell `i` holds after the calls `evs`: the value stored by its last accepted call, else its initial
value -/
def valueAfter (K : Kernel α γ) (init : Array α) (evs : List (Ev α γ)) (i : Nat) : α :=
  match lastAcc evs i with
  | some e => (match e.ans with | some a => K.store a.h1 | none => init[i]!)
  | none => init[i]!

/-- position-indexed form of one iteration as an instance of the shared `sweepDown`: the answer of cell `i`
is the `(number of callers before i in seq)`-th answer -/
def posOf (K : Kernel α γ) (ds : Array Nat) (seq : List Nat) (i : Nat) : Nat :=
  ((seq.takeWhile (· != i)).filter (eligible K ds)).length

/-- loop body of `sweepDown` for one iteration that consumes the answers `orc`: `cur` is the cell's own value,
`dsv` the value of its downstream cell -/
def gStep (K : Kernel α γ) (ds : Array Nat) (seq : List Nat) (orc : List (Ans α)) (i : Nat) (cur dsv : α) : α :=
  if eligible K ds i then
    match orc[posOf K ds seq i]? with
    | some a => if K.accept i dsv a then K.store a.h1 else cur
    | none => cur
  else cur

/-! ## binary64

A float is its bit pattern `b < 2^64`: sign `b / 2^63`, biased exponent `b / 2^52 % 2^11`, fraction `b % 2^52`. -/

def two52 : Nat := 4503599627370496
def two63 : Nat := 9223372036854775808
def posInf : Nat := 2047 * two52
/-- the canonical quiet NaN `0x7ff8000000000000` -/
def canonNaN : Nat := 2047 * two52 + two52 / 2
def fZero : Nat := 0
/-- `1.0` -/
def fOne : Nat := 1023 * two52

def fSign (b : Nat) : Bool := decide (b / two63 % 2 = 1)
def fExp (b : Nat) : Nat := b / two52 % 2048
def fFrac (b : Nat) : Nat := b % two52
/-- exponent and fraction bits -/
def fMag (b : Nat) : Nat := b % two63
def fIsNaN (b : Nat) : Bool := decide (fMag b > posInf)
def fIsInf (b : Nat) : Bool := decide (fMag b = posInf)
def fIsZero (b : Nat) : Bool := decide (fMag b = 0)

/-- order-preserving key of a non-NaN float (`-0.0` and `0.0` both map to 0) -/
def fKey (b : Nat) : Int := if fSign b then -(fMag b : Int) else (fMag b : Int)

/-- IEEE `a < b` -/
def fLt (a b : Nat) : Bool := !fIsNaN a && !fIsNaN b && decide (fKey a < fKey b)
/-- IEEE `a <= b` -/
def fLe (a b : Nat) : Bool := !fIsNaN a && !fIsNaN b && decide (fKey a ≤ fKey b)
/-- IEEE `a > b` -/
def fGt (a b : Nat) : Bool := fLt b a

/-- `abs` clears the sign bit -/
def fAbs (b : Nat) : Nat := fMag b
def fNeg (b : Nat) : Nat := if fSign b then fMag b else fMag b + two63
def withSign (neg : Bool) (mag : Nat) : Nat := if neg then mag + two63 else mag

/-- Python's `max(a, b)` on floats: `b if b > a else a` -/
def pyMax (a b : Nat) : Nat := if fGt b a then b else a

/-- a finite float as `m · 2^e` (`m` the integer significand) -/
def fMant (b : Nat) : Nat := if fExp b = 0 then fFrac b else two52 + fFrac b
def fExpo (b : Nat) : Int := if fExp b = 0 then -1074 else (fExp b : Int) - 1075

/-- round the positive value `p/q · 2^e` (`p, q > 0`) to the nearest binary64, ties to even; overflow gives
infinity, underflow a subnormal or zero. `k` is `⌊log2 (p/q)⌋`, `E` the exponent of the result's binade
(clamped to the subnormal range), `m` the significand in units of `2^(E-52)`; the encoding
`(E + 1022) · 2^52 + m` is correct for normal and subnormal results alike, and a significand rounded up to
`2^53` carries into the exponent. -/
def roundPos (p q : Nat) (e : Int) : Nat :=
  let k0 : Int := (Nat.log2 p : Int) - (Nat.log2 q : Int)
  let ge : Bool := if k0 ≥ 0 then decide (p ≥ q * 2 ^ k0.toNat) else decide (p * 2 ^ (-k0).toNat ≥ q)
  let k : Int := if ge then k0 else k0 - 1
  let ex : Int := k + e
  let E : Int := if ex < -1022 then -1022 else ex
  let t : Int := E - 52 - e
  let num : Nat := if t ≤ 0 then p * 2 ^ (-t).toNat else p
  let den : Nat := if t ≤ 0 then q else q * 2 ^ t.toNat
  let m := num / den
  let r := num % den
  let m' := if 2 * r > den ∨ (2 * r = den ∧ m % 2 = 1) then m + 1 else m
  let bits := (E + 1022).toNat * two52 + m'
  if bits ≥ posInf then posInf else bits

/-- IEEE `a - b` (round to nearest even) -/
def fSub (a b : Nat) : Nat :=
  if fIsNaN a || fIsNaN b then canonNaN
  else if fIsInf a then (if fIsInf b && (fSign a == fSign b) then canonNaN else a)
  else if fIsInf b then fNeg b
  else
    let e : Int := if fExpo a ≤ fExpo b then fExpo a else fExpo b
    let ia : Int := (fMant a * 2 ^ (fExpo a - e).toNat : Nat)
    let ib : Int := (fMant b * 2 ^ (fExpo b - e).toNat : Nat)
    let d : Int := (if fSign a then -ia else ia) - (if fSign b then -ib else ib)
    if d = 0 then
      -- `(-0) - (+0) = -0`; every other exact zero is `+0`
      (if fIsZero a && fIsZero b && fSign a && !fSign b then two63 else 0)
    else withSign (decide (d < 0)) (roundPos d.natAbs 1 e)

/-- IEEE `a / b` (round to nearest even) -/
def fDiv (a b : Nat) : Nat :=
  let neg := fSign a != fSign b
  if fIsNaN a || fIsNaN b then canonNaN
  else if fIsInf a then (if fIsInf b then canonNaN else withSign neg posInf)
  else if fIsInf b then withSign neg 0
  else if fIsZero b then (if fIsZero a then canonNaN else withSign neg posInf)
  else if fIsZero a then withSign neg 0
  else withSign neg (roundPos (fMant a) (fMant b) (fExpo a - fExpo b))

/-! ## the binary64 instance -/

/-- the arrays and thresholds `rivdph_gvf` receives, as bit patterns -/
structure GvfParams where
  zs : Array Nat
  rivdst : Array Nat
  qbankfull : Array Nat
  rivwth : Array Nat
  manning : Array Nat
  minSlp : Nat
  minDph : Nat

/-- the solver arguments besides `h0`: `t_span[1] = dx` and `args = (manning, qbankfull, slp, rivwth)` -/
structure SolverArgs where
  dx : Nat
  slp : Nat
  manning : Nat
  q : Nat
  w : Nat

/-- `dx = rivdst[idx] - rivdst[idx_ds]` -/
def gvfDx (P : GvfParams) (ds : Array Nat) (i : Nat) : Nat := fSub P.rivdst[i]! P.rivdst[ds[i]!]!

/-- `slp = max(min_rivslp, (zb[idx] - zb[idx_ds]) / dx)` -/
def gvfSlp (P : GvfParams) (ds : Array Nat) (zb : Array Nat) (i : Nat) : Nat :=
  pyMax P.minSlp (fDiv (fSub zb[i]! zb[ds[i]!]!) (gvfDx P ds i))

/-- `not (abs((h1 - h0) / dx) > 1 or h1 < 0 or not sol.success)` -/
def gvfAccept (P : GvfParams) (ds : Array Nat) (i : Nat) (h0 : Nat) (a : Ans Nat) : Bool :=
  !(fGt (fAbs (fDiv (fSub a.h1 h0) (gvfDx P ds i))) fOne || fLt a.h1 fZero || !a.ok)

/-- `zs - rivdph_out` (element-wise) -/
def gvfZb (P : GvfParams) (out : Array Nat) : Array Nat :=
  (Array.range out.size).map fun i => fSub P.zs[i]! out[i]!

def gvfKernel (P : GvfParams) (ds : Array Nat) : Kernel Nat SolverArgs where
  elig := fun i => !(fLe P.qbankfull[i]! fZero || fLe P.rivwth[i]! fZero)
  accept := gvfAccept P ds
  store := fun h1 => pyMax P.minDph h1
  mkZb := gvfZb P
  ext := fun zb i => ⟨gvfDx P ds i, gvfSlp P ds zb i, P.manning[i]!, P.qbankfull[i]!, P.rivwth[i]!⟩

/-- `rivers.rivdph_gvf` on bit patterns -/
def rivdphGvf (P : GvfParams) (ds : Array Nat) (seq : List Nat) (nIter : Nat) (rivdph : Array Nat)
    (orc : List (Ans Nat)) : St Nat SolverArgs :=
  gvf (gvfKernel P ds) ds seq nIter rivdph orc

end Pf.C14g
