import PfVerif.Model.Core
/-! Models of `dem.adjust_elevation`, `dem._adjust_elevation`, `dem.dig_4connectivity`,
`dem._local_d4` (C15), loop for loop. Core Lean only.

Elevations are `Int`: the harness scales the (integer valued / dyadic / multiples of `dz_min`)
elevations to integers; every operation used by the kernels (`max`, `min`, `|a-b|` sums, order
comparisons, `np.unique`) commutes with a positive scaling. -/
namespace Pf

/-! ## `_adjust_elevation` : fix one streamline (profile ordered up- to downstream) -/

/-- `np.arange(a, b)` -/
def rangeL (a b : Nat) : List Nat := List.range' a (b - a)

/-- insert into a strictly decreasing list, dropping duplicates -/
def insDesc (x : Int) : List Int → List Int
  | [] => [x]
  | y :: r => if x > y then x :: y :: r else if x = y then y :: r else y :: insDesc x r

/-- `np.unique(l)[::-1]`: the distinct values in decreasing order -/
def uniqDesc (l : List Int) : List Int := l.foldr insDesc []

/-- a candidate modification `elevtn[a:b] = zmod`, where `zmod[k]` is
`min z elevtn[k]` (mode 0, dig), `max z elevtn[k]` (mode 1, fill) or `z` (mode 2, dig & fill) -/
structure Cand where
  cost : Int
  a : Nat
  b : Nat
  mode : Nat
  z : Int

def candVal (mode : Nat) (z v : Int) : Int :=
  if mode = 0 then min z v else if mode = 1 then max z v else z

/-- `cost = np.sum(np.abs(elevtn[idxs] - zmod))` -/
def candCost (e : Array Int) (a b mode : Nat) (z : Int) : Int :=
  ((rangeL a b).map fun k => ((e[k]! - candVal mode z e[k]!).natAbs : Int)).sum

def mkCand (e : Array Int) (a b mode : Nat) (z : Int) : Cand :=
  { cost := candCost e a b mode z, a := a, b := b, mode := mode, z := z }

/-- `if cost2 < cost: cost, idxs, zmod = cost2, idxs2, zmod2` -/
def pick (c c2 : Cand) : Cand := if c2.cost < c.cost then c2 else c

/-- `elevtn[idxs] = zmod` -/
def applyCand (e : Array Int) (c : Cand) : Array Int :=
  (rangeL c.a c.b).foldl (fun e k => e.setIfInBounds k (candVal c.mode c.z e[k]!)) e

/-- `for j in range(lo, lo+fuel+1): if elevtn[j] <= z: break` — the value of `j` afterwards
(`lo` when the range is empty: the variable keeps its previous value, which is `lo`) -/
def firstLe (e : Array Int) (z : Int) : Nat → Nat → Nat
  | 0, lo => lo
  | f+1, lo => if e[lo]! ≤ z then lo else firstLe e z f (lo+1)

/-- the `for z in zs[1:]` loop of option 3 -/
def opt3 (e : Array Int) (imin imax i : Nat) : List Int → Nat → Nat → Cand → Cand
  | [], _, _, best => best
  | z :: zs, i0, i1, best =>
    let j0 := firstLe e z (imin - i0) i0
    let j1 := firstLe e z (i - i1) i1
    opt3 e imin imax i zs j0 j1 (pick best (mkCand e j0 (max (imax+1) j1) 2 z))

/-- loop state of `_adjust_elevation`; `pit` is `imin >= 0` (`imin`, `imax` start at -1 in the
code; `imax` is always assigned at `i = 0` before it is read, `imin` is read only under `imin >= 0`) -/
structure A1 where
  e : Array Int
  pit : Bool
  imax : Nat
  imin : Nat
  zmax : Int
  zmin : Int
  z1 : Int
  z2 : Int

/-- the modification made at a pit (the body of `if imin >= 0:`), `imax`/`zmax` already updated -/
def a1Fix (e : Array Int) (imin imax i : Nat) (zmin zmax : Int) : Array Int :=
  let c1 := mkCand e imin i 0 zmin
  let c2 := mkCand e 0 imax 1 zmax
  let zs := uniqDesc ((rangeL (imin+1) i).map (e[·]!))
  applyCand e (opt3 e imin imax i zs.tail 0 imax (pick c1 c2))

def a1Step (n : Nat) (s : A1) (i : Nat) : A1 :=
  let zi := s.e[i]!
  let zmax := if zi ≥ s.zmax then zi else s.zmax
  let imax := if zi ≥ s.zmax then i else s.imax
  let s2 : A1 :=
    if (zi > s.z1 ∧ s.z2 ≥ s.z1) ∨ (s.pit = true ∧ i + 1 = n) then
      let e := if s.pit then a1Fix s.e s.imin imax i s.zmin zmax else s.e
      { s with e := e, pit := true, imax := i, imin := i - 1, zmax := e[i]!, zmin := e[i - 1]! }
    else { s with zmax := zmax, imax := imax }
  { s2 with z2 := if s.z2 ≠ s.z1 then s.z1 else s.z2, z1 := zi }

def a1Init (l : Array Int) : A1 :=
  let last := l[l.size - 1]!
  { e := l.map (max · last), pit := false, imax := 0, imin := 0,
    zmax := l[0]!, zmin := l[0]!, z1 := l[0]!, z2 := l[0]! }

/-- `dem._adjust_elevation(elevtn)` (the code fails on an empty profile; never called with one) -/
def adjust1d (l : List Int) : List Int :=
  ((List.range l.length).foldl (a1Step l.length) (a1Init l.toArray)).e.toList

/-! ## `adjust_elevation` -/

/-- `core._trace(idx0, idxs_ds, mask=mask)[0]`: downstream until a pit or a masked cell
(included). `fuel` bounds the `while`. -/
def traceMask (ds : Array Nat) (mask : Array Bool) : Nat → Nat → List Nat
  | 0, i => [i]
  | fuel+1, i =>
    if mask[i]! then [i] else
    if ds[i]! = i ∨ ds[i]! = ds.size then [i] else i :: traceMask ds mask fuel ds[i]!

/-- `a[idxs] = vals` -/
def scatter {α : Type} (a : Array α) (idxs : List Nat) (vals : List α) : Array α :=
  (idxs.zip vals).foldl (fun a p => a.setIfInBounds p.1 p.2) a

def markAll (mask : Array Bool) (idxs : List Nat) : Array Bool :=
  idxs.foldl (fun m i => m.setIfInBounds i true) mask

/-- body of the loop of `adjust_elevation`, for an arbitrary streamline fixer `f`; the trace is
run with fuel `fuel` (the model uses the number of cells of the network) -/
def adjStep (f : List Int → List Int) (ds : Array Nat) (fuel : Nat)
    (st : Array Int × Array Bool) (idx0 : Nat) : Array Int × Array Bool :=
  if st.2[idx0]! then st else
  let p := traceMask ds st.2 fuel idx0
  (scatter st.1 p (f (p.map (st.1[·]!))), markAll st.2 p)

/-- `adjust_elevation` with streamline fixer `f` (`for idx0 in seq[::-1]`) -/
def adjustWith (f : List Int → List Int) (ds : Array Nat) (seq : List Nat) (elev : Array Int) :
    Array Int × Array Bool :=
  seq.foldr (fun i st => adjStep f ds seq.length st i) (elev, Array.replicate elev.size false)

/-- `dem.adjust_elevation(idxs_ds, seq, elevtn)` -/
def adjustElevation (ds : Array Nat) (seq : List Nat) (elev : Array Int) : Array Int :=
  (adjustWith adjust1d ds seq elev).1

/-! ## `_local_d4`, `dig_4connectivity` -/

/-- `_local_d4(idx0, idx_ds, ncol)`; `[]` where the code raises (`idx_ds` not a diagonal neighbour).
Natural-number arithmetic: exact for cells of a D8 network (the two side neighbours between a
cell and its diagonal neighbour are inside the raster). -/
def localD4 (ncol idx0 idxds : Nat) : List Nat :=
  if idxds ≠ idx0 then
    if idxds + ncol + 1 = idx0 then [idx0 - ncol, idx0 - 1]        -- nw : n, w
    else if idxds + 1 = idx0 + ncol then [idx0 - 1, idx0 + ncol]   -- sw : w, s
    else if idxds = idx0 + ncol + 1 then [idx0 + ncol, idx0 + 1]   -- se : s, e
    else if idxds + ncol = idx0 + 1 then [idx0 + 1, idx0 - ncol]   -- ne : e, n
    else []
  else [idx0 - 1, idx0 + ncol, idx0 + 1, idx0 - ncol]              -- w, s, e, n

/-- first index of `l` with the smallest elevation (`idxs[np.argmin(zs - z0)]`) -/
def argminFirst (elv : Array Int) : List Nat → Option Nat
  | [] => none
  | k :: r => some (r.foldl (fun b j => if elv[j]! < elv[b]! then j else b) k)

/-- exact arithmetic: `min(e - dz_min, z0)` -/
def digExact (dz : Int) (e z0 : Int) : Int := min (e - dz) z0

/-- integer elevation dtype with the default `dz_min = 1e-3`: `min(e - 0.001, z0)` is `z0` iff
`z0 < e`, otherwise `e - 0.001` which the store truncates towards zero -/
def digTrunc (e z0 : Int) : Int := if z0 < e then z0 else if e ≥ 1 then e - 1 else e

/-- `abs(int(idx0) - int(idx_ds))` -/
def absDiffIdx (a b : Nat) : Nat := if a ≥ b then a - b else b - a

/-- the `if dd > 1 and dd != ncol:` block; `none` is the `continue` of the code (no valid side
neighbour), which also skips the pit block -/
def digDiag (digf : Int → Int → Int) (ncol : Nat) (nodata : Int) (elv : Array Int) (idx0 idxds : Nat) :
    Option (Array Int) :=
  if absDiffIdx idx0 idxds > 1 ∧ absDiffIdx idx0 idxds ≠ ncol then
    match argminFirst elv ((localD4 ncol idx0 idxds).filter fun k => elv[k]! != nodata) with
    | none => none
    | some k => some (elv.setIfInBounds k (digf elv[k]! elv[idx0]!))
  else some elv

/-- the `if idxs_ds[idx_ds] == idx_ds:` block -/
def digPit (ds : Array Nat) (nrow ncol : Nat) (nodata : Int) (elv1 : Array Int) (idx0 idxds : Nat) : Array Int :=
  if ds[idxds]! = idxds then
    if idxds / ncol = 0 ∨ idxds / ncol + 1 = nrow ∨ idxds % ncol = 0 ∨ idxds % ncol + 1 = ncol then elv1
    else if (localD4 ncol idxds idxds).any (fun k => elv1[k]! == nodata) then elv1
    else
      ((localD4 ncol idxds idxds).filter (· != idx0)).foldl
        (fun e k => e.setIfInBounds k (min elv1[idxds]! e[k]!)) elv1
  else elv1

/-- body of the loop of `dig_4connectivity` -/
def digStep (digf : Int → Int → Int) (ds : Array Nat) (nrow ncol : Nat) (mask : Option (Array Bool))
    (nodata : Int) (elv : Array Int) (idx0 : Nat) : Array Int :=
  if maskAt mask idx0 = false then elv else
  match digDiag digf ncol nodata elv idx0 ds[idx0]! with
  | none => elv
  | some elv1 => digPit ds nrow ncol nodata elv1 idx0 ds[idx0]!

/-- `dem.dig_4connectivity(idxs_ds, seq, elv_flat, shape, mask, nodata, dz_min)` -/
def digD4 (digf : Int → Int → Int) (ds : Array Nat) (seq : List Nat) (nrow ncol : Nat)
    (mask : Option (Array Bool)) (nodata : Int) (elv : Array Int) : Array Int :=
  seq.foldr (fun i e => digStep digf ds nrow ncol mask nodata e i) elv

/-- the four side neighbours of `a` in index arithmetic (n, w, s, e) -/
def d4nbrs (ncol a : Nat) : List Nat := [a - ncol, a - 1, a + ncol, a + 1]

end Pf
