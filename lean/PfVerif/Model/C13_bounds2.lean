import PfVerif.Model.C04
import PfVerif.Model.C06Depth
import PfVerif.Model.C08
import PfVerif.Model.C14
import PfVerif.Model.C15
/-! # C13_bounds2 - access-logging variants of the kernels OUTSIDE `core.py`

Same technique as `Model/C13_bounds.lean` (which covers `pyflwdir/core.py`): every kernel model the other
properties use is repeated with one extra component, the list of scalar accesses `arr[i]` (reads and writes,
newest first) in the short-circuit evaluation order of the Python source.

* the two sweep combinators of `Core/Sweep.lean` get GENERIC logging variants `sweepDownL` / `sweepUpL`
  (a loop body is described by its state function and by its access trace `tr i state`); the kernels that
  are literally instances of the combinators are instantiated: `streams.accuflux`, `streams.accuflux_ds`,
  `streams.upstream_area`, `core.fillnodata_upstream`, `core.fillnodata_downstream`, `streams.stream_order`,
  `streams.stream_distance`, `dem.height_above_nearest_drain`, `dem.floodplains`;
* `streams.strahler_order` (`foldr` over `seq`) and `arithmetics.upstream_sum` (`foldl` over all cells) through
  the underlying generic folds `foldlL` / `foldrL`;
* `dem.fill_depressions`: the neighbour loop with 2-D accesses `(array, r, c)` and the guard of the CURRENT
  source `r < 0 or r == nrow or c < 0 or c == ncol or done[r, c]`, in this order;
* `dem._adjust_elevation`: every index used on the profile - scalars `elevtn[i]`, `elevtn[j0]`, `elevtn[j1]`,
  `elevtn[imax]`, `elevtn[imin]` and the index vectors `arange(imin, i)`, `arange(0, imax)`,
  `arange(j0, max(imax + 1, j1))`.

Core Lean only (the driver prints the logs). -/
namespace Pf.C13b2
open Pf

/-- the arrays that are indexed with a computed scalar -/
inductive Arr
  | ds        -- `idxs_ds`
  | data      -- `data` (input field)
  | out       -- the result array (`accu`, `data_out`, `uparea`, `strord`, `dist`, `hand`, `fldpln`, `arr_sum`)
  | filled    -- `filled` of `fillnodata_downstream`
  | mask      -- `mask`
  | nup       -- `nup` (from `core.upstream_count`)
  | usMain    -- `idxs_us_main`
  | drain     -- `drain`
  | elevtn    -- `elevtn`
  | uparea    -- `uparea` (input of `floodplains`)
  | drainz    -- `drainz` (work array of `floodplains`)
  | drainh    -- `drainh` (work array of `floodplains`)
  | strmax    -- `strmax` (work array of `strahler_order`)
  deriving DecidableEq, Repr, Inhabited

structure Acc where
  arr : Arr
  idx : Nat
  size : Nat
  deriving DecidableEq, Repr, Inhabited

/-- the access `xs[i]` (read or write) of the array named `a` -/
def acc {α : Type} (a : Arr) (xs : Array α) (i : Nat) : Acc := ⟨a, i, xs.size⟩

/-- every logged index addresses a slot of its array -/
def InB (log : List Acc) : Prop := ∀ e ∈ log, e.idx < e.size

instance (log : List Acc) : Decidable (InB log) := by unfold InB; infer_instance

/-- the indices at which array `a` was touched -/
def touched (a : Arr) (log : List Acc) : List Nat := (log.filter (·.arr == a)).map (·.idx)

/-- optional-array access: nothing is touched when the argument is `None` -/
def accOpt {α : Type} (a : Arr) (xs : Option (Array α)) (i : Nat) : List Acc :=
  match xs with
  | none => []
  | some m => [acc a m i]

/-! ### generic: folds and sweeps with an access trace

`tr i s` = the accesses of the loop body at cell `i` in state `s`, newest first. -/

def foldlL {σ : Type} (step : σ → Nat → σ) (tr : Nat → σ → List Acc) (seq : List Nat) (st : σ × List Acc) :
    σ × List Acc :=
  seq.foldl (fun st i => (step st.1 i, tr i st.1 ++ st.2)) st

def foldrL {σ : Type} (step : Nat → σ → σ) (tr : Nat → σ → List Acc) (seq : List Nat) (st : σ × List Acc) :
    σ × List Acc :=
  seq.foldr (fun i st => (step i st.1, tr i st.1 ++ st.2)) st

/-- logging variant of `Pf.sweepDown` (`for idx0 in seq`) -/
def sweepDownL {α : Type} [Inhabited α] (ds : Array Nat) (g : Nat → α → α → α) (tr : Nat → Array α → List Acc)
    (seq : List Nat) (out : Array α) : Array α × List Acc :=
  foldlL (stepDown ds g) tr seq (out, [])

/-- logging variant of `Pf.sweepUp` (`for idx0 in seq[::-1]`) -/
def sweepUpL {α : Type} [Inhabited α] (ds : Array Nat) (upd : Nat → α → α → α) (tr : Nat → Array α → List Acc)
    (seq : List Nat) (out : Array α) : Array α × List Acc :=
  foldrL (stepUp ds upd) tr seq (out, [])

/-- a body trace is CELL-SHAPED: it addresses arrays of `n` slots, at the cell `i` or at its downstream cell -/
def CellTr (ds : Array Nat) (n i : Nat) (l : List Acc) : Prop :=
  ∀ e ∈ l, e.size = n ∧ (e.idx = i ∨ e.idx = ds[i]!)

/-- the sequence is closed: its entries are cells and so are their downstream entries -/
def Closed (ds : Array Nat) (n : Nat) (seq : List Nat) : Prop := ∀ i ∈ seq, i < n ∧ ds[i]! < n

/-! ### `streams.accuflux`, `streams.accuflux_ds`, `streams.upstream_area` -/

/-- `idx_ds = idxs_ds[idx0]; if idx0 != idx_ds and data[idx_ds] != nodata and data[idx0] != nodata:` -/
def trLink (ds : Array Nat) (data : Array Int) (nodata : Int) (i : Nat) (body : List Acc) : List Acc :=
  let d := ds[i]!
  let l := [acc .ds ds i]
  if i = d then l else
  let l := acc .data data d :: l
  if data[d]! == nodata then l else
  let l := acc .data data i :: l
  if data[i]! == nodata then l else body ++ l

/-- `accu[idx_ds] += accu[idx0]`: read `accu[idx_ds]`, read `accu[idx0]`, write `accu[idx_ds]` -/
def trAccuflux (ds : Array Nat) (data : Array Int) (nodata : Int) (i : Nat) (accu : Array Int) : List Acc :=
  trLink ds data nodata i [acc .out accu ds[i]!, acc .out accu i, acc .out accu ds[i]!]

def accufluxL (ds : Array Nat) (seq : List Nat) (data : Array Int) (nodata : Int) : Array Int × List Acc :=
  sweepUpL ds (updAdd (linkOk ds data nodata)) (trAccuflux ds data nodata) seq data

/-- `accu[idx0] += accu[idx_ds]` -/
def trAccufluxDs (ds : Array Nat) (data : Array Int) (nodata : Int) (i : Nat) (accu : Array Int) : List Acc :=
  trLink ds data nodata i [acc .out accu i, acc .out accu ds[i]!, acc .out accu i]

def accufluxDsL (ds : Array Nat) (seq : List Nat) (data : Array Int) (nodata : Int) : Array Int × List Acc :=
  sweepDownL ds (gAddDown ds (linkOk ds data nodata)) (trAccufluxDs ds data nodata) seq data

/-- `idx_ds = idxs_ds[idx0]; if idx0 != idx_ds: uparea[idx_ds] += uparea[idx0]` -/
def trUparea (ds : Array Nat) (i : Nat) (upa : Array Int) : List Acc :=
  if i = ds[i]! then [acc .ds ds i]
  else [acc .out upa ds[i]!, acc .out upa i, acc .out upa ds[i]!, acc .ds ds i]

/-- the accumulation loop of `streams.upstream_area` (the initialisation `uparea[idx] = …` for `idx in seq`
writes the cells of `seq`: logged first) -/
def upstreamAreaL (ds : Array Nat) (seq : List Nat) (ncol : Nat) (rowArea : Array Int) (nodata : Int) :
    Array Int × List Acc :=
  let init := seq.foldl (fun a idx => a.setIfInBounds idx rowArea[idx / ncol]!) (Array.replicate ds.size nodata)
  let r := sweepUpL ds (updAdd fun _ => true) (trUparea ds) seq init
  (r.1, r.2 ++ (seq.map fun idx => (⟨.out, idx, ds.size⟩ : Acc)).reverse)

/-! ### `core.fillnodata_upstream`, `core.fillnodata_downstream` -/

/-- `idx_ds = idxs_ds[idx0]; if data_out[idx0] == nodata and data_out[idx_ds] != nodata:
data_out[idx0] = data_out[idx_ds]` -/
def trFillUp (ds : Array Nat) (nodata : Int) (i : Nat) (out : Array Int) : List Acc :=
  let d := ds[i]!
  let l := [acc .out out i, acc .ds ds i]
  if out[i]! ≠ nodata then l else
  let l := acc .out out d :: l
  if out[d]! = nodata then l else acc .out out i :: acc .out out d :: l

def fillnodataUpstreamL (ds : Array Nat) (seq : List Nat) (data : Array Int) (nodata : Int) : Array Int × List Acc :=
  sweepDownL ds (gFillNd nodata) (trFillUp ds nodata) seq data

/-- `idx_ds = idxs_ds[idx0]; if idx_ds == idx0: continue;
if data[idx_ds] == nodata and filled[idx0]: if not filled[idx_ds]: data_out[idx_ds] = data_out[idx0];
filled[idx_ds] = True; else data_out[idx_ds] = merge(data_out[idx0], data_out[idx_ds])` -/
def trFillDown (ds : Array Nat) (data : Array Int) (nd : Int) (i : Nat) (st : Array (Int × Bool)) : List Acc :=
  let d := ds[i]!
  let l := [acc .ds ds i]
  if d = i then l else
  let l := acc .data data d :: l
  if data[d]! ≠ nd then l else
  let l := acc .filled st i :: l
  if st[i]!.2 = false then l else
  let l := acc .filled st d :: l
  if st[d]!.2 = false then acc .filled st d :: acc .out st d :: acc .out st i :: l
  else acc .out st d :: acc .out st d :: acc .out st i :: l

def fillnodataDownstreamL (ds : Array Nat) (seq : List Nat) (data : Array Int) (nd : Int) (how : Nat) :
    Array (Int × Bool) × List Acc :=
  sweepUpL ds (updFillDown ds data nd how) (trFillDown ds data nd) seq (fillDownInit data nd)

/-! ### `streams.stream_order` (classic) -/

/-- `if mask is not None and not mask[idx0]: continue; idx_ds = idxs_ds[idx0];
if idx_ds == idx0: strord[idx0] = 1
elif nup[idx_ds] > 1 and idxs_us_main[idx_ds] != idx0: strord[idx0] = strord[idx_ds] + 1
else: strord[idx0] = strord[idx_ds]` -/
def trClassic (ds : Array Nat) (nup : Array Int) (usMain : Array Nat) (mask : Option (Array Bool)) (i : Nat)
    (so : Array Nat) : List Acc :=
  let l := accOpt .mask mask i
  if !maskAt mask i then l else
  let d := ds[i]!
  let l := acc .ds ds i :: l
  if d = i then acc .out so i :: l else
  let l := acc .nup nup d :: l
  let l := if nup[d]! > 1 then acc .usMain usMain d :: l else l
  acc .out so i :: acc .out so d :: l

def classicOrderWithL (ds : Array Nat) (seq : List Nat) (usMain : Array Nat) (nup : Array Int)
    (mask : Option (Array Bool)) : Array Nat × List Acc :=
  sweepDownL ds (gClassic ds nup usMain mask) (trClassic ds nup usMain mask) seq (Array.replicate ds.size 0)

/-! ### `streams.stream_distance`, `dem.height_above_nearest_drain`, `dem.floodplains` -/

/-- `idx_ds = idxs_ds[idx0]; if idx0 == idx_ds or (mask is not None and mask[idx0]): continue;
dist[idx0] = dist[idx_ds] + d` -/
def trDist (ds : Array Nat) (mask : Option (Array Bool)) (i : Nat) (dist : Array Int) : List Acc :=
  let l := [acc .ds ds i]
  if ds[i]! = i then l else
  let l := accOpt .mask mask i ++ l
  if stopAt_c14 ds mask i then l else acc .out dist i :: acc .out dist ds[i]! :: l

def streamDistanceL (ds : Array Nat) (seq : List Nat) (mask : Option (Array Bool)) (step : Nat → Nat → Int) :
    Array Int × List Acc :=
  sweepDownL ds (gDist ds mask step) (trDist ds mask) seq (initSeq ds.size seq (-9999) 0)

/-- `if drain[idx0] != 1: idx_ds = idxs_ds[idx0]; dz = elevtn[idx0] - elevtn[idx_ds]; hand[idx0] = hand[idx_ds] + dz` -/
def trHand (ds : Array Nat) (drain : Array Bool) (elev : Array Int) (i : Nat) (hand : Array Int) : List Acc :=
  let l := [acc .drain drain i]
  if drain[i]! then l
  else [acc .out hand i, acc .out hand ds[i]!, acc .elevtn elev ds[i]!, acc .elevtn elev i, acc .ds ds i] ++ l

def handL (ds : Array Nat) (seq : List Nat) (drain : Array Bool) (elev : Array Int) : Array Int × List Acc :=
  sweepDownL ds (gHand ds drain elev) (trHand ds drain elev) seq (initSeq ds.size seq (-9999) 0)

/-- `if uparea[idx0] >= upa_min: drainh[idx0] = uparea[idx0] ** b; drainz[idx0] = elevtn[idx0]; fldpln[idx0] = 1
else: idx_ds = idxs_ds[idx0]; if fldpln[idx_ds] == 1: z0 = drainz[idx_ds]; h0 = drainh[idx_ds];
dh = elevtn[idx0] - z0; if dh <= h0: fldpln[idx0] = 1; drainz[idx0] = z0; drainh[idx0] = h0` -/
def trFlood (ds : Array Nat) (P : FpParams) (i : Nat) (st : Array (Int × Int × Int)) : List Acc :=
  let l := [acc .uparea P.uparea i]
  if isStream P i then
    [acc .out st i, acc .drainz st i, acc .elevtn P.elev i, acc .drainh st i, acc .uparea P.uparea i] ++ l
  else
    let d := ds[i]!
    let l := acc .out st d :: acc .ds ds i :: l
    if st[d]!.1 ≠ 1 then l else
    let l := acc .elevtn P.elev i :: acc .drainh st d :: acc .drainz st d :: l
    if (P.elev[i]! - st[d]!.2.1) * P.hden ≤ st[d]!.2.2 then
      acc .drainh st i :: acc .drainz st i :: acc .out st i :: l
    else l

def floodL (ds : Array Nat) (seq : List Nat) (P : FpParams) : Array (Int × Int × Int) × List Acc :=
  sweepDownL ds (gFlood P) (trFlood ds P) seq (initSeq ds.size seq (-1, -9999, -9999) (0, -9999, -9999))

/-! ### `streams.strahler_order` (not an instance of `sweepUp`: two work arrays; generic `foldrL`) -/

/-- accesses of the body of `for idx0 in seq[::-1]` (see `Pf.strahlerStep`) -/
def trStrahler (ds : Array Nat) (mask : Option (Array Bool)) (i : Nat) (st : Array Nat × Array Nat) : List Acc :=
  let l := accOpt .mask mask i
  if !maskAt mask i then l else
  let l := acc .out st.1 i :: l                                   -- `if strord[idx0] == 0`
  let l := if st.1[i]! = 0 then acc .out st.1 i :: l else l       -- `strord[idx0] = 1`
  let so := if st.1[i]! = 0 then st.1.setIfInBounds i 1 else st.1
  let d := ds[i]!
  let l := acc .ds ds i :: l
  if d = i then l else
  let l := acc .strmax st.2 d :: acc .out so d :: acc .out so i :: l
  let sto := so[i]!
  let stoDs := so[d]!
  let stoUp := st.2[d]!
  let l :=
    if stoDs < sto then acc .out so d :: l
    else if sto = stoDs ∧ stoUp = sto then acc .out so d :: acc .out so d :: l
    else l
  if stoUp < sto then acc .strmax st.2 d :: l else l

def strahlerL (ds : Array Nat) (seq : List Nat) (mask : Option (Array Bool)) : (Array Nat × Array Nat) × List Acc :=
  foldrL (strahlerStep ds mask) (trStrahler ds mask) seq ((Array.replicate ds.size 0, Array.replicate ds.size 0), [])

/-! ### `arithmetics.upstream_sum` (`for idx0 in range(data.size)`, guarded by `idx_ds != mv`) -/

def trUpsum (ds : Array Nat) (data : Array Int) (nodata : Int) (i : Nat) (arr : Array Int) : List Acc :=
  let d := ds[i]!
  let l := [acc .ds ds i]
  if d = ds.size ∨ d = i then l else
  let l := acc .data data i :: l
  if data[i]! = nodata then acc .out arr i :: l else
  let l := acc .data data d :: l
  if data[d]! = nodata then acc .out arr i :: l
  else acc .out arr d :: acc .data data i :: acc .out arr d :: l

def upstreamSumL (ds : Array Nat) (data : Array Int) (nodata : Int) : Array Int × List Acc :=
  foldlL (upstreamSumStep ds data nodata) (trUpsum ds data nodata) (List.range ds.size)
    (Array.replicate ds.size 0, [])

/-! ### `dem.fill_depressions`: the neighbour loop with 2-D accesses

An access is `(array, r, c)` with INTEGER row / column (the source computes `r = r0 + dr`, `c = c0 + dc` with
`dr, dc ∈ {-1, 0, 1}` before testing them); the guard of the current source is evaluated left to right:
`if r < 0 or r == nrow or c < 0 or c == ncol or done[r, c]: continue`. -/

inductive Arr2
  | elevtn | done | queued | delv | elevOut | d8 | isnodata
  deriving DecidableEq, Repr, Inhabited

structure Acc2 where
  arr : Arr2
  r : Int
  c : Int
  deriving DecidableEq, Repr, Inhabited

/-- every logged pair lies in `[0, nrow) × [0, ncol)` -/
def InB2 (nrow ncol : Nat) (log : List Acc2) : Prop := ∀ e ∈ log, 0 ≤ e.r ∧ e.r < nrow ∧ 0 ≤ e.c ∧ e.c < ncol

instance (nrow ncol : Nat) (log : List Acc2) : Decidable (InB2 nrow ncol log) := by unfold InB2; infer_instance

open Pf.C06

/-- the raster-bounds test of the source, literally: `r < 0 or r == nrow or c < 0 or c == ncol` -/
def outside (G : Grid) (r c : Int) : Bool := decide (r < 0) || r == (G.nrow : Int) || decide (c < 0) || c == (G.ncol : Int)

/-- `for dr1, dc1 in zip(drs, dcs): r1, c1 = r + dr1, c + dc1;
if r1 >= 0 and r1 < nrow and c1 >= 0 and c1 < ncol: if not isnodata[r1, c1]: done[r1, c1] = False` -/
def reopenLog (G : Grid) (conn : Nat) (nod : Array Bool) (r c : Int) : List Acc2 :=
  (offsets conn).foldl (fun l o =>
    let r1 := r + o.1
    let c1 := c + o.2
    if r1 ≥ 0 ∧ r1 < G.nrow ∧ c1 ≥ 0 ∧ c1 < G.ncol then
      let l := ⟨.isnodata, r1, c1⟩ :: l
      if nod[r1.toNat * G.ncol + c1.toNat]! then l else ⟨.done, r1, c1⟩ :: l
    else l) []

/-- body of the neighbour loop for the popped cell `(z0, r0, c0)`, offset `o`. `lim` = `max_depth >= 0` (the
block `if max_depth >= 0:` of the source is executed), `md` = `max_depth`. Returns the new state and the accesses
(newest first). With `lim` the state function is `Pf.C06.visitD`, without it `Pf.C06.visit` (on the state without
depth bookkeeping) - written with the guard of the source instead of `shift`. -/
def visitDL (G : Grid) (conn : Nat) (elev : Array Int) (nod : Array Bool) (lim : Bool) (md : Int) (z0 : Int) (i0 : Nat)
    (s : StD) (o : Int × Int) : StD × List Acc2 :=
  let r : Int := (i0 / G.ncol : Nat) + o.1
  let c : Int := (i0 % G.ncol : Nat) + o.2
  if outside G r c then (s, []) else
  let j := r.toNat * G.ncol + c.toNat
  let l : List Acc2 := [⟨.done, r, c⟩]
  if s.done[j]! then (s, l) else
  let l : List Acc2 := ⟨.elevtn, r, c⟩ :: l                         -- z1 = elevtn[r, c]
  if lim && tooDeep md (z0 - elev[j]!) then
    (deepStep G conn elev nod s j, reopenLog G conn nod r c ++ (⟨.queued, r, c⟩ :: l))
  else
    let l : List Acc2 := if lim then ⟨.delv, r, c⟩ :: l else l       -- elif delv[r, c] > 0
    let l : List Acc2 := if lim && decide (s.delv[j]! > 0) then
        ⟨.elevtn, r, c⟩ :: ⟨.elevOut, r, c⟩ :: ⟨.delv, r, c⟩ :: ⟨.queued, r, c⟩ :: l else l
    let s1 := if lim then resetStep elev s j else s
    let l : List Acc2 := if z0 - elev[j]! > 0 then ⟨.elevOut, r, c⟩ :: ⟨.delv, r, c⟩ :: l else l
    let l : List Acc2 := ⟨.queued, r, c⟩ :: l                      -- if ~queued[r, c]
    let l : List Acc2 := if !s1.queued[j]! then ⟨.queued, r, c⟩ :: l else l
    (fillStep elev z0 s1 j (usCode o.1 o.2), ⟨.d8, r, c⟩ :: ⟨.done, r, c⟩ :: l)

/-- the HISTORICAL neighbour loop (defect F13): `done[r, c]` is consulted before the raster-bounds test -/
def visitBadL (G : Grid) (i0 : Nat) (o : Int × Int) : List Acc2 :=
  let r : Int := (i0 / G.ncol : Nat) + o.1
  let c : Int := (i0 % G.ncol : Nat) + o.2
  [⟨.done, r, c⟩]

def popStepDL (G : Grid) (conn : Nat) (elev : Array Int) (nod : Array Bool) (lim : Bool) (md : Int) (h : HE)
    (st : StD × List Acc2) : StD × List Acc2 :=
  (offsets conn).foldl (fun st o =>
    let r := visitDL G conn elev nod lim md h.z h.idx st.1 o
    (r.1, r.2 ++ st.2)) st

def fillLoopDL (G : Grid) (conn : Nat) (elev : Array Int) (nod : Array Bool) (lim : Bool) (md : Int) :
    Nat → StD × List Acc2 → StD × List Acc2
  | 0, st => st
  | fuel + 1, st =>
    match st.1.q with
    | [] => st
    | h :: rest =>
      fillLoopDL G conn elev nod lim md fuel (popStepDL G conn elev nod lim md h ({ st.1 with q := rest }, st.2))

/-- `for r, c in zip(*np.where(queued)): heappush(q, (elevtn[r, c], 1, r, c))` -/
def initHeapLog (G : Grid) (queued : Array Bool) : List Acc2 :=
  (((List.range G.n).filter fun i => queued[i]!).map fun i =>
    (⟨.elevtn, ((i / G.ncol : Nat) : Int), ((i % G.ncol : Nat) : Int)⟩ : Acc2)).reverse

/-- the whole `fill_depressions` after the outlets have been chosen (`queued`) -/
def fillL (G : Grid) (conn : Nat) (elev : Array Int) (nod : Array Bool) (lim : Bool) (md : Int) (fuel : Nat)
    (queued : Array Bool) : StD × List Acc2 :=
  fillLoopDL G conn elev nod lim md fuel (initStateD G elev nod queued, [])

/-! ### `dem._adjust_elevation`: the indices used on the 1-D profile

The state functions are the ones of `Model/C15.lean` (`a1Step`, `a1Fix`, `opt3`, `firstLe`); the traces below list,
oldest first, the indices the source uses at the same places: scalar reads and the index vectors
`np.arange(a, b)` (every element is an index: `elevtn[idxs]`, `elevtn[idxs] = zmod`). Slices
(`elevtn[imin + 1 : i]`) cannot leave an array and are not logged. -/

/-- `elevtn[np.arange(a, b)]` -/
def rangeAcc (e : Array Int) (a b : Nat) : List Acc := (rangeL a b).map fun k => acc .elevtn e k

/-- the reads of `for j in range(lo, lo + f): if elevtn[j] <= z: break` (`f` = length of the range) -/
def firstLeLog (e : Array Int) (z : Int) : Nat → Nat → List Acc
  | 0, _ => []
  | f+1, lo => acc .elevtn e lo :: (if e[lo]! ≤ z then [] else firstLeLog e z f (lo+1))

/-- the `for z in zs[1:]` loop of option 3: `for j0 in range(i0, imin + 1)`, `for j1 in range(i1, i + 1)`,
`idxs2 = np.arange(j0, max(imax + 1, j1))`, `elevtn[idxs2]` -/
def opt3Log (e : Array Int) (imin imax i : Nat) : List Int → Nat → Nat → List Acc
  | [], _, _ => []
  | z :: zs, i0, i1 =>
    let j0 := firstLe e z (imin - i0) i0
    let j1 := firstLe e z (i - i1) i1
    firstLeLog e z (imin + 1 - i0) i0 ++ firstLeLog e z (i + 1 - i1) i1 ++ rangeAcc e j0 (max (imax+1) j1) ++
      opt3Log e imin imax i zs j0 j1

/-- the body of `if imin >= 0:` (`imax` already updated): options 1, 2, 3 and the write `elevtn[idxs] = zmod` -/
def a1FixLog (e : Array Int) (imin imax i : Nat) (zmin zmax : Int) : List Acc :=
  let c1 := mkCand e imin i 0 zmin
  let c2 := mkCand e 0 imax 1 zmax
  let zs := uniqDesc ((rangeL (imin+1) i).map (e[·]!))
  let best := opt3 e imin imax i zs.tail 0 imax (pick c1 c2)
  rangeAcc e imin i ++ rangeAcc e 0 imax ++ opt3Log e imin imax i zs.tail 0 imax ++ rangeAcc e best.a best.b

/-- one iteration of `for i in range(elevtn.size)` -/
def a1StepLog (n : Nat) (i : Nat) (s : A1) : List Acc :=
  let zi := s.e[i]!
  let zmax := if zi ≥ s.zmax then zi else s.zmax
  let imax := if zi ≥ s.zmax then i else s.imax
  let l := [acc .elevtn s.e i]                                                    -- zi = elevtn[i]
  if (zi > s.z1 ∧ s.z2 ≥ s.z1) ∨ (s.pit = true ∧ i + 1 = n) then
    let l := if s.pit then a1FixLog s.e s.imin imax i s.zmin zmax ++ l else l
    let e := if s.pit then a1Fix s.e s.imin imax i s.zmin zmax else s.e
    acc .elevtn e (i - 1) :: acc .elevtn e i :: l                                -- elevtn[imax], elevtn[imin]
  else l

/-- `dem._adjust_elevation(elevtn)`: result and the indices used on the profile (the first three:
`elevtn[0]`, `elevtn[0]`, `elevtn[-1]`) -/
def adjust1dL (l : List Int) : A1 × List Acc :=
  foldlL (a1Step l.length) (a1StepLog l.length) (List.range l.length)
    (a1Init l.toArray, [acc .elevtn l.toArray (l.length - 1), acc .elevtn l.toArray 0, acc .elevtn l.toArray 0])

end Pf.C13b2
