import PfVerif.Model.Core
/-! Models of `pyflwdir/subgrid.py` (unit catchments, sub-grid river segments) and of the three
`upscale.py` kernels `subgrid.outlets` calls (C10). Core Lean only.

Conventions (as everywhere): the fine network is `ds : Array Nat` of size `n`, `n` = missing value;
the outlet vector `outs : List Nat` is `idxs_out.ravel()` with the missing value mapped to `n`.
All numbers are integers; the harness scales dyadic rationals by a common denominator.
Everything lives in namespace `Pf.C10` so that no name clashes with other properties' models. -/
namespace Pf.C10
open Pf

/-! ## `ucat_area`, `ucat_volume` -/

/-- first loop of `ucat_area`, map part: `ucatch_map[idxs_out[i]] = i + 1` for the non-missing
entries, sequentially (a later duplicate overwrites an earlier one). `k` = position offset. -/
def mapSeedAux (mv : Nat) : List Nat → Nat → Array Int → Array Int
  | [], _, m => m
  | o :: rest, k, m =>
    mapSeedAux mv rest (k + 1) (if o ≠ mv then m.setIfInBounds o ((k : Int) + 1) else m)

def mapSeed (n : Nat) (outs : List Nat) : Array Int :=
  mapSeedAux n outs 0 (Array.replicate n 0)

/-- first loop, accumulator part: `ucatch_are[i] = area[idxs_out[i]]`, `-9999` for missing outlets
(entry `i` is written in iteration `i` only) -/
def accSeed (n : Nat) (outs : List Nat) (w : Nat → Int) : Array Int :=
  (outs.map fun o => if o ≠ n then w o else -9999).toArray

/-- body of the second loop (`for idx0 in seq`) -/
def ucatStep (ds : Array Nat) (w : Nat → Int) (st : Array Int × Array Int) (idx0 : Nat) :
    Array Int × Array Int :=
  let ucatDs := st.1[ds[idx0]!]!
  if st.1[idx0]! = 0 ∧ ucatDs ≠ 0 then
    (st.1.setIfInBounds idx0 ucatDs,
     st.2.setIfInBounds (ucatDs - 1).toNat (st.2[(ucatDs - 1).toNat]! + w idx0))
  else st

/-- the shared kernel of `ucat_area` / `ucat_volume`: (unit catchment map, accumulated weight per
outlet) for a per-cell weight `w` -/
def ucatAccum (ds : Array Nat) (seq outs : List Nat) (w : Nat → Int) : Array Int × Array Int :=
  seq.foldl (ucatStep ds w) (mapSeed ds.size outs, accSeed ds.size outs w)

/-- `subgrid.ucat_area` -/
def ucatArea (ds : Array Nat) (seq outs : List Nat) (area : Array Int) : Array Int × Array Int :=
  ucatAccum ds seq outs (fun i => area[i]!)

/-- flooded volume of one cell at one depth: `area * max(0, depth - hand)` -/
def volW (area hand : Array Int) (depth : Int) (i : Nat) : Int :=
  area[i]! * max 0 (depth - hand[i]!)

/-- `subgrid.ucat_volume`: the NumPy row operations `fldpln_vol[:, k] (+)= area * max(0, depths - hand)`
act independently on every depth row, so row `d` is the accumulator of the shared kernel for the
weight `volW area hand depths[d]`. -/
def ucatVolume (ds : Array Nat) (seq outs : List Nat) (hand area : Array Int) (depths : List Int) :
    Array Int × List (Array Int) :=
  ((ucatAccum ds seq outs (fun _ => 0)).1,
   depths.map fun d => (ucatAccum ds seq outs (volW area hand d)).2)

/-! ### declarative oracles (independent of the cell order) -/

/-- `FirstOutlet ds outs i v`: walking downstream from `i` (including `i`), `v` is `1 +` the position in
`outs` of the first cell met that is a listed outlet pixel (its last position, should it be listed
twice); `0` if a pit is reached first. -/
inductive FirstOutlet (ds : Array Nat) (outs : List Nat) : Nat → Int → Prop
  | here (i p : Nat) : outs[p]? = some i → i < ds.size → (∀ q, outs[q]? = some i → q ≤ p) →
      FirstOutlet ds outs i ((p : Int) + 1)
  | pit (i : Nat) : (i ∉ outs ∨ ds.size ≤ i) → ds[i]! = i → FirstOutlet ds outs i 0
  | down (i : Nat) (v : Int) : (i ∉ outs ∨ ds.size ≤ i) → ds[i]! ≠ i → FirstOutlet ds outs ds[i]! v →
      FirstOutlet ds outs i v

/-- 1-based position of the last occurrence of `i` in `outs` (positions counted from `k`), `acc` if absent -/
def lastPosAux (i : Nat) : List Nat → Nat → Int → Int
  | [], _, acc => acc
  | o :: rest, k, acc => lastPosAux i rest (k + 1) (if o = i then (k : Int) + 1 else acc)

/-- 1-based position of the last occurrence of `i` in `outs`, 0 if absent -/
def lastPos1 (outs : List Nat) (i : Nat) : Int := lastPosAux i outs 0 0

/-- executable declarative label: walk downstream from `i`, return the 1-based position of the first
listed outlet pixel, 0 at a pit; `none` if the fuel runs out (cell on a loop) -/
def labelWalk (ds : Array Nat) (outs : List Nat) : Nat → Nat → Option Int
  | 0, _ => none
  | fuel+1, i =>
    if i < ds.size ∧ lastPos1 outs i ≠ 0 then some (lastPos1 outs i)
    else if ds[i]! = i then some 0
    else labelWalk ds outs fuel ds[i]!

/-- brute-force sum of `f` over the cells `i < n` with `p i` -/
def sumIf (l : List Nat) (p : Nat → Bool) (f : Nat → Int) : Int :=
  ((l.filter p).map f).sum

/-! ## `upscale.subidx_2_idx`, `cell_edge`, `dmm_exitcell` / `eam_repcell`, `ihu_outlets` -/

/-- `subidx_2_idx`: coarse cell of a fine cell -/
def cellOf (subncol cellsize ncol subidx : Nat) : Nat :=
  (subidx / subncol) / cellsize * ncol + (subidx % subncol) / cellsize

/-- `cell_edge` -/
def cellEdge (subncol cellsize subidx : Nat) : Bool :=
  let ri := (subidx / subncol) % cellsize
  let ci := (subidx % subncol) % cellsize
  ri == 0 || ci == 0 || ri + 1 == cellsize || ci + 1 == cellsize

/-- loop body shared by `dmm_exitcell` (`cand = cell_edge`) and `eam_repcell`
(`cand = effective_area`, passed in as a table because of its float `**0.5` test) -/
def repStep (ds : Array Nat) (upa : Array Int) (cand : Nat → Bool) (subncol cellsize ncol : Nat)
    (st : Array Nat × Array Int) (subidx : Nat) : Array Nat × Array Int :=
  let d := ds[subidx]!
  if d = ds.size then st
  else if d = subidx ∨ cand subidx = true then
    let idx := cellOf subncol cellsize ncol subidx
    if upa[subidx]! > st.2[idx]! then
      (st.1.setIfInBounds idx subidx, st.2.setIfInBounds idx upa[subidx]!)
    else st
  else st

def repCell (ds : Array Nat) (upa : Array Int) (cand : Nat → Bool)
    (subncol cellsize ncells ncol : Nat) : Array Nat :=
  ((List.range ds.size).foldl (repStep ds upa cand subncol cellsize ncol)
    (Array.replicate ncells ds.size, Array.replicate ncells 0)).1

/-- the `while True` of `ihu_outlets` for coarse cell `idx0` -/
def ihuTrace (ds : Array Nat) (subncol cellsize ncol idx0 : Nat) : Nat → Nat → Option Nat
  | 0, _ => none
  | fuel+1, subidx =>
    let s1 := ds[subidx]!
    if idx0 ≠ cellOf subncol cellsize ncol s1 ∨ s1 = subidx then some subidx
    else ihuTrace ds subncol cellsize ncol idx0 fuel s1

/-- `ihu_outlets`; `none` = fuel exhausted (flow path on a loop) -/
def ihuOutlets (ds : Array Nat) (rep : Array Nat) (subncol cellsize ncol : Nat) : Option (List Nat) :=
  (List.range rep.size).mapM fun idx0 =>
    if rep[idx0]! = ds.size then some ds.size
    else ihuTrace ds subncol cellsize ncol idx0 (ds.size + 1) rep[idx0]!

/-- `subgrid.outlets`: `dmm = true` → `dmm_exitcell`; else `eam_repcell` + `ihu_outlets` -/
def outletsModel (ds : Array Nat) (upa : Array Int) (effare : Array Bool) (dmm : Bool)
    (subncol cellsize nrowc ncolc : Nat) : Option (List Nat) :=
  if dmm then
    some (repCell ds upa (cellEdge subncol cellsize) subncol cellsize (nrowc * ncolc) ncolc).toList
  else
    ihuOutlets ds (repCell ds upa (fun i => effare[i]!) subncol cellsize (nrowc * ncolc) ncolc)
      subncol cellsize ncolc

/-! ## river segments: `segment_length`, `segment_average`, `segment_median`, `segment_slope` -/

/-- the temporary boolean outlet array -/
def outletFlags (n : Nat) (outs : List Nat) : Array Bool :=
  outs.foldl (fun a o => if o ≠ n then a.setIfInBounds o true else a) (Array.replicate n false)

/-- no admissible next cell: `idx1 == mv or idx1 == idx or (mask is not None and mask[idx1] == False)` -/
def blocked (nxt : Array Nat) (mask : Option (Array Bool)) (idx : Nat) : Bool :=
  nxt[idx]! == nxt.size || nxt[idx]! == idx || !(maskAt mask nxt[idx]!)

/-- stop test of `segment_average/median/slope`: additionally stop *before* the next outlet pixel -/
def stopExcl (nxt : Array Nat) (isOut : Array Bool) (mask : Option (Array Bool)) (idx : Nat) : Bool :=
  nxt[idx]! == nxt.size || nxt[idx]! == idx || isOut[nxt[idx]!]! || !(maskAt mask nxt[idx]!)

/-- `while True` of `segment_length`: returns the last cell `idx` (next outlet pixel *included*) -/
def lenWalk (nxt : Array Nat) (isOut : Array Bool) (mask : Option (Array Bool)) : Nat → Nat → Option Nat
  | 0, _ => none
  | fuel+1, idx =>
    if blocked nxt mask idx then some idx
    else if isOut[nxt[idx]!]! then some nxt[idx]!
    else lenWalk nxt isOut mask fuel nxt[idx]!

/-- `while True` of `segment_average/median/slope`: the list `idxs` (next outlet pixel *excluded*) -/
def exclWalk (nxt : Array Nat) (isOut : Array Bool) (mask : Option (Array Bool)) : Nat → Nat → Option (List Nat)
  | 0, _ => none
  | fuel+1, idx =>
    if stopExcl nxt isOut mask idx then some [idx]
    else (exclWalk nxt isOut mask fuel nxt[idx]!).map (idx :: ·)

/-- per-outlet result: `none` = the output keeps its initial `nodata` -/
abbrev PerOutlet (α : Type) := List (Option α)

/-- `segment_length` (distances are integers after scaling): `abs(distnc[idx] - distnc[idx0])` -/
def segLength (nxt : Array Nat) (outs : List Nat) (distnc : Array Int) (mask : Option (Array Bool)) :
    Option (PerOutlet Int) :=
  let isOut := outletFlags nxt.size outs
  outs.mapM fun idx0 =>
    if idx0 = nxt.size then some none
    else (lenWalk nxt isOut mask (nxt.size + 1) idx0).map fun idx =>
      some (distnc[idx]! - distnc[idx0]!).natAbs

/-- `arithmetics._average` on integers: (Σ w·v, Σ w) over the entries with `v ≠ nodata` -/
def avgNumDen (cells : List Nat) (data weights : Array Int) (nodata : Int) : Int × Int :=
  cells.foldl (fun (vw : Int × Int) c =>
    if data[c]! = nodata then vw else (vw.1 + weights[c]! * data[c]!, vw.2 + weights[c]!)) (0, 0)

/-- `segment_average`: `some (num, den)` with `den ≠ 0`, or `none` (nodata) when the weights sum to 0 -/
def segAverage (nxt : Array Nat) (outs : List Nat) (data weights : Array Int) (nodata : Int)
    (mask : Option (Array Bool)) : Option (PerOutlet (Int × Int)) :=
  let isOut := outletFlags nxt.size outs
  outs.mapM fun idx0 =>
    if idx0 = nxt.size then some none
    else (exclWalk nxt isOut mask (nxt.size + 1) idx0).map fun cells =>
      let vw := avgNumDen cells data weights nodata
      if vw.2 ≠ 0 then some vw else none

/-- insertion sort (structural, so that closed examples evaluate by `decide`) -/
def insSorted (x : Int) : List Int → List Int
  | [] => [x]
  | y :: t => if x ≤ y then x :: y :: t else y :: insSorted x t

def insSort : List Int → List Int
  | [] => []
  | x :: t => insSorted x (insSort t)

/-- twice the median of a list of integers (`np.nanmedian`: middle element, or mean of the two middle
elements); `none` for the empty list (NaN) -/
def median2 (vals : List Int) : Option Int :=
  let s := (insSort vals).toArray
  if s.size = 0 then none
  else if s.size % 2 = 1 then some (2 * s[s.size / 2]!)
  else some (s[s.size / 2 - 1]! + s[s.size / 2]!)

/-- `segment_median`: outer `none` = nodata (missing outlet), `some none` = NaN (all values nodata),
`some (some m2)` = median `m2 / 2` -/
def segMedian (nxt : Array Nat) (outs : List Nat) (data : Array Int) (nodata : Int)
    (mask : Option (Array Bool)) : Option (PerOutlet (Option Int)) :=
  let isOut := outletFlags nxt.size outs
  outs.mapM fun idx0 =>
    if idx0 = nxt.size then some none
    else (exclWalk nxt isOut mask (nxt.size + 1) idx0).map fun cells =>
      some (median2 ((cells.map fun c => data[c]!).filter (· ≠ nodata)))

/-- `arithmetics.lstsq(x, y)[0]` as a fraction: (n Σxy − Σx Σy, n Σx² − (Σx)²) -/
def lstsqNumDen (xs ys : List Int) : Int × Int :=
  let n : Int := xs.length
  let sx := xs.sum
  let sy := ys.sum
  let sxx := (xs.map fun x => x * x).sum
  let sxy := ((xs.zip ys).map fun p => p.1 * p.2).sum
  (n * sxy - sx * sy, n * sxx - sx * sx)

/-- slope of one segment as a fraction (numerator, denominator) before `abs`; a single cell gives 0/1 -/
def slopeNumDen (cells : List Nat) (elevtn distnc : Array Int) (lstsq : Bool) : Int × Int :=
  if cells.length > 1 then
    if lstsq then lstsqNumDen (cells.map fun c => distnc[c]!) (cells.map fun c => elevtn[c]!)
    else (elevtn[cells.head!]! - elevtn[cells.getLast!]!, distnc[cells.head!]! - distnc[cells.getLast!]!)
  else (0, 1)

/-- `segment_slope` (same walk as the average / median, mask included) -/
def segSlope (nxt : Array Nat) (outs : List Nat) (elevtn distnc : Array Int) (lstsq : Bool)
    (mask : Option (Array Bool)) : Option (PerOutlet (Int × Int)) :=
  let isOut := outletFlags nxt.size outs
  outs.mapM fun idx0 =>
    if idx0 = nxt.size then some none
    else (exclWalk nxt isOut mask (nxt.size + 1) idx0).map fun cells =>
      some (slopeNumDen cells elevtn distnc lstsq)

/-- least `j ≤ bound` with `p j` -/
def leastIdx (bound : Nat) (p : Nat → Bool) : Option Nat :=
  (List.range (bound + 1)).find? p

/-! ### `fixed_length_slope` (`subgrid_rivslp(direction="both")`) -/

/-- first `while`: move downstream while the cell lies less than `length/2` below the outlet pixel;
stop at a pit, at a cell without downstream cell (start cell outside the network: `idx_ds == mv`) or on a
cell that is masked out (`mask[idx0] == False`, the *current* cell) -/
def flsDown (ds : Array Nat) (distnc : Array Int) (mask : Option (Array Bool)) (x0 : Int) :
    Nat → Nat → Option Nat
  | 0, _ => none
  | fuel+1, idx =>
    if distnc[idx]! > x0 then
      if ds[idx]! = idx ∨ ds[idx]! = ds.size ∨ maskAt mask idx = false then some idx
      else flsDown ds distnc mask x0 fuel ds[idx]!
    else some idx

/-- second `while`: collect cells along the main upstream path while less than `length/2` above; stop
when there is no main upstream cell or it is masked out (`mask[idx_us] == False`) -/
def flsUp (usMain : Array Nat) (distnc : Array Int) (mask : Option (Array Bool)) (x1 : Int) :
    Nat → Nat → Option (List Nat)
  | 0, _ => none
  | fuel+1, idx =>
    if distnc[idx]! < x1 then
      if usMain[idx]! = usMain.size ∨ maskAt mask usMain[idx]! = false then some [idx]
      else (flsUp usMain distnc mask x1 fuel usMain[idx]!).map (idx :: ·)
    else some [idx]

/-- `fixed_length_slope` (`half = length / 2`, scaled like `distnc`) -/
def fixedLengthSlope (ds usMain : Array Nat) (outs : List Nat) (elevtn distnc : Array Int) (half : Int)
    (lstsq : Bool) (mask : Option (Array Bool)) : Option (PerOutlet (Int × Int)) :=
  outs.mapM fun idx0 =>
    if idx0 = ds.size then some none
    else
      match flsDown ds distnc mask (distnc[idx0]! - half) (ds.size + 1) idx0 with
      | none => none
      | some d =>
        (flsUp usMain distnc mask (distnc[idx0]! + half) (ds.size + 1) d).map fun cells =>
          some (slopeNumDen cells elevtn distnc lstsq)

/-- declarative version: least stop indices along the iterates of `ds`, then of `usMain` -/
def fixedLengthCellsSpec (ds usMain : Array Nat) (distnc : Array Int) (half : Int)
    (mask : Option (Array Bool)) (s : Nat) : Option (List Nat) :=
  match leastIdx ds.size (fun j => !(decide (distnc[iterA ds j s]! > distnc[s]! - half)) ||
      ds[iterA ds j s]! == iterA ds j s || ds[iterA ds j s]! == ds.size || !(maskAt mask (iterA ds j s))) with
  | none => none
  | some kd =>
    let d := iterA ds kd s
    (leastIdx ds.size (fun j => !(decide (distnc[iterA usMain j d]! < distnc[s]! + half)) ||
      usMain[iterA usMain j d]! == usMain.size || !(maskAt mask usMain[iterA usMain j d]!))).map fun ku =>
      (List.range (ku + 1)).map fun j => iterA usMain j d

/-! ### declarative segment: least stopping index along the iterates of `nxt` -/

/-- stop predicate of the inclusive walk at step `j` from `s` -/
def stopInclAt (nxt : Array Nat) (isOut : Array Bool) (mask : Option (Array Bool)) (s j : Nat) : Bool :=
  (decide (1 ≤ j) && isOut[iterA nxt j s]!) || blocked nxt mask (iterA nxt j s)

/-- declarative exclusive segment: cells `iterA nxt 0 s … iterA nxt K s`, `K` least with `stopExcl` -/
def segExclSpec (nxt : Array Nat) (isOut : Array Bool) (mask : Option (Array Bool)) (s : Nat) :
    Option (List Nat) :=
  (leastIdx nxt.size fun j => stopExcl nxt isOut mask (iterA nxt j s)).map fun K =>
    (List.range (K + 1)).map fun j => iterA nxt j s

/-- declarative end cell of the inclusive segment -/
def segInclEndSpec (nxt : Array Nat) (isOut : Array Bool) (mask : Option (Array Bool)) (s : Nat) :
    Option Nat :=
  (leastIdx nxt.size (stopInclAt nxt isOut mask s)).map fun K => iterA nxt K s

end Pf.C10
