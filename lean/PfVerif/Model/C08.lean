import PfVerif.Model.Core
import PfVerif.Core.Strahler
/-! Models of `streams.strahler_order`, `streams.stream_order` (classic / Hack order) and the
dispatch of `Flwdir.stream_order` (C08), plus the declarative oracles the driver evaluates.
Core Lean only.

Orders are `Nat` in the model (the code stores `uint8`; see `Pf.C08.strahler_no_u8_overflow` for why a
Strahler order cannot reach 256 on any raster that fits in memory). -/
namespace Pf

/-! ### `streams.strahler_order` -/

/-- body of `for idx0 in seq[::-1]` of `strahler_order`; state = `(strord, strmax)` -/
def strahlerStep (ds : Array Nat) (mask : Option (Array Bool)) (idx0 : Nat)
    (st : Array Nat × Array Nat) : Array Nat × Array Nat :=
  if !maskAt mask idx0 then st else            -- `if mask is not None and not mask[idx0]: continue`
  -- `if strord[idx0] == 0: strord[idx0] = 1`
  let so := if st.1[idx0]! = 0 then st.1.setIfInBounds idx0 1 else st.1
  let d := ds[idx0]!
  if d = idx0 then (so, st.2) else             -- pit: `continue`
  let sto := so[idx0]!
  let stoDs := so[d]!
  let stoUp := st.2[d]!
  let so' :=
    if stoDs < sto then so.setIfInBounds d sto
    else if sto = stoDs ∧ stoUp = sto then so.setIfInBounds d (so[d]! + 1)
    else so
  let sm' := if stoUp < sto then st.2.setIfInBounds d sto else st.2
  (so', sm')

/-- both work arrays of `strahler_order` after the loop -/
def strahlerState (ds : Array Nat) (seq : List Nat) (mask : Option (Array Bool)) :
    Array Nat × Array Nat :=
  seq.foldr (strahlerStep ds mask) (Array.replicate ds.size 0, Array.replicate ds.size 0)

/-- `streams.strahler_order(idxs_ds, seq, mask)` -/
def strahlerOrder (ds : Array Nat) (seq : List Nat) (mask : Option (Array Bool)) : Array Nat :=
  (strahlerState ds seq mask).1

/-! ### `streams.stream_order` (classic) -/

/-- body of `for idx0 in seq` of `stream_order` as a down-to-upstream sweep step:
`own` = `strord[idx0]` before, `dsv` = `strord[idx_ds]` -/
def gClassic (ds : Array Nat) (nup : Array Int) (usMain : Array Nat) (mask : Option (Array Bool))
    (i : Nat) (own dsv : Nat) : Nat :=
  if !maskAt mask i then own                                   -- `continue`
  else if ds[i]! = i then 1                                    -- pit
  else if nup[ds[i]!]! > 1 ∧ usMain[ds[i]!]! ≠ i then dsv + 1  -- joins a larger stream
  else dsv

def classicOrderWith (ds : Array Nat) (seq : List Nat) (usMain : Array Nat) (nup : Array Int)
    (mask : Option (Array Bool)) : Array Nat :=
  sweepDown ds (gClassic ds nup usMain mask) seq (Array.replicate ds.size 0)

/-- `streams.stream_order(idxs_ds, seq, idxs_us_main, mask)`; `nup = core.upstream_count(mask=mask)` -/
def classicOrder (ds : Array Nat) (seq : List Nat) (usMain : Array Nat)
    (mask : Option (Array Bool)) : Array Nat :=
  classicOrderWith ds seq usMain (upstreamCount ds mask) mask

/-- the same loop with the code's `uint8` arithmetic (`strord[idx_ds] + 1` stored into a `uint8`
array wraps modulo 256) -/
def gClassicU8 (ds : Array Nat) (nup : Array Int) (usMain : Array Nat) (mask : Option (Array Bool))
    (i : Nat) (own dsv : Nat) : Nat :=
  if !maskAt mask i then own
  else if ds[i]! = i then 1
  else if nup[ds[i]!]! > 1 ∧ usMain[ds[i]!]! ≠ i then (dsv + 1) % 256
  else dsv

def classicOrderU8 (ds : Array Nat) (seq : List Nat) (usMain : Array Nat)
    (mask : Option (Array Bool)) : Array Nat :=
  sweepDown ds (gClassicU8 ds (upstreamCount ds mask) usMain mask) seq (Array.replicate ds.size 0)

/-! ### `Flwdir.stream_order(type, mask)` dispatch
`type.lower()` is compared with "strahler" / "classic"; the harness sends 0 / 1, and 2 for any other
string (`ValueError`).
The classic branch uses `self.idxs_us_main = core.main_upstream(idxs_ds, uparea)` (`upa_min = 0`)
with the object's own upstream area. -/
def streamOrder (type : Nat) (ds : Array Nat) (seq : List Nat) (mask : Option (Array Bool))
    (uparea : Array Int) : Option (Array Nat) :=
  if type = 0 then some (strahlerOrder ds seq mask)
  else if type = 1 then some (classicOrder ds seq (mainUpstream ds uparea 0) mask)
  else none   -- `raise ValueError`

/-! ### declarative oracles (independent of any cell order) -/

/-- the inflowing cells of `j` that lie in the mask, increasing index -/
def inflowsM (ds : Array Nat) (mask : Option (Array Bool)) (j : Nat) : List Nat :=
  (upsOf ds j).filter (maskAt mask)

/-- the Strahler rule applied to the orders of the inflowing streams; a cell of the considered
network without inflowing stream (`l = []`) is a headwater -/
def strahlerRule (inNet : Bool) (l : List Nat) : Nat :=
  if l = [] then (if inNet then 1 else 0) else strahler l

/-- Strahler order by recursion over the upstream tree (fuel = height bound) -/
def strahlerSpecAux (ds : Array Nat) (mask : Option (Array Bool)) : Nat → Nat → Nat
  | 0, _ => 0
  | f+1, j => strahlerRule true ((inflowsM ds mask j).map (strahlerSpecAux ds mask f))

/-- declarative Strahler order of one cell: the rule applied to the recursively computed orders of
the inflowing streams (`fuel` bounds the height of the upstream tree). For a downstream-closed
mask a cell outside the mask or the network has no inflowing stream, hence order 0. -/
def strahlerSpecF (ds : Array Nat) (mask : Option (Array Bool)) (fuel j : Nat) : Nat :=
  strahlerRule (isValid ds j && maskAt mask j)
    ((inflowsM ds mask j).map (strahlerSpecAux ds mask fuel))

def strahlerSpec (ds : Array Nat) (mask : Option (Array Bool)) (j : Nat) : Nat :=
  strahlerSpecF ds mask ds.size j

/-- local certificate: the array satisfies the recursive definition at every cell. `net j` tells
whether `j` belongs to the considered network. -/
def strahlerCert (ds : Array Nat) (mask : Option (Array Bool)) (ord : Array Nat) : Bool :=
  ord.size == ds.size &&
  (List.range ds.size).all fun j =>
    ord[j]! == strahlerRule (isValid ds j && maskAt mask j) ((inflowsM ds mask j).map (ord[·]!))

/-- number of inflowing masked cells -/
def nupSpec (ds : Array Nat) (mask : Option (Array Bool)) (d : Nat) : Nat :=
  (inflowsM ds mask d).length

/-- main upstream cell: the least-index inflow of maximal upstream area, provided that area exceeds
`upaMin`; `ds.size` (= none) otherwise -/
def mainSpec (ds : Array Nat) (uparea : Array Int) (upaMin : Int) (d : Nat) : Nat :=
  let ups := upsOf ds d
  match ups.filter (fun i => decide (uparea[i]! > upaMin) && ups.all (fun j => decide (uparea[j]! ≤ uparea[i]!))) with
  | [] => ds.size
  | i :: _ => i

/-- certificate for a main-upstream array (leaves the tie-breaking free): `um[d]` is an inflow of `d`
whose upstream area exceeds `upaMin` and is maximal among the inflows of `d`, or `ds.size` (none)
when no inflow exceeds `upaMin` -/
def mainCert (ds : Array Nat) (uparea : Array Int) (upaMin : Int) (um : Array Nat) : Bool :=
  um.size == ds.size &&
  (List.range ds.size).all fun d =>
    let ups := upsOf ds d
    if um[d]! = ds.size then ups.all (fun j => decide (uparea[j]! ≤ upaMin))
    else ups.contains um[d]! && decide (uparea[um[d]!]! > upaMin) &&
      ups.all (fun j => decide (uparea[j]! ≤ uparea[um[d]!]!))

/-- classic order by walking downstream: 1 at the pit, +1 for every step that joins a confluence
(`≥ 2` inflowing streams) from a branch that is not the main one; `none` = fuel exhausted -/
def classicWalk (ds : Array Nat) (mask : Option (Array Bool)) (nup : Nat → Nat) (main : Nat → Nat) :
    Nat → Nat → Option Nat
  | 0, _ => none
  | f+1, i =>
    if !maskAt mask i then some 0
    else if ds[i]! = i then some 1
    else (classicWalk ds mask nup main f ds[i]!).map
      (· + (if nup ds[i]! > 1 ∧ main ds[i]! ≠ i then 1 else 0))

/-- mask is downstream closed on the valid cells -/
def maskClosed (ds : Array Nat) (mask : Option (Array Bool)) : Bool :=
  (List.range ds.size).all fun i => !(isValid ds i && maskAt mask i) || maskAt mask ds[i]!

end Pf
