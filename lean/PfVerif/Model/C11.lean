import PfVerif.Model.Core
/-! Models for C11 (paths and snapping): `core._trace` / `core.path` / `core.snap`
(`Pf.trace`, `Pf.traceFrom` of `Model/Core.lean` are reused unchanged), `core.main_upstream`
(`Pf.mainUpstream`, reused), the step-length functions (`d = 1.0`, projected branch of
`gis_utils.distance`, table of implementation-supplied lengths for the geographic branch),
`gis_utils.coords_to_idxs` for unrotated transforms, and the *declarative specification* of a trace
(least stopping index, prefix of the iterates, sum of step lengths) that the theorems of
`Props/C11.lean` relate to the loop. Core Lean only.

Numbers: every length (step lengths, `max_length`, coordinates, cell sizes) is an integer obtained
by the harness by multiplying with one common denominator. -/
namespace Pf

/-! ### step lengths -/

/-- `unit='cell'` (and every `Flwdir.path`): `d = 1.0` for every step; `one` is the scaled 1 -/
def stepConst (one : Int) (_ _ : Nat) : Int := one

/-- lengths supplied per link `i → nxt[i]` (geographic grids: the implementation's own
`gis_utils.distance` values, exact rationals scaled by a power of two) -/
def stepTab (tab : Array Int) (i _ : Nat) : Int := tab[i]!

def absDiff_c11 (a b : Nat) : Nat := if a ≤ b then b - a else a - b

/-- squared length of the step `i → j` on a projected raster: `(yres*dr)^2 + (xres*dc)^2` with
`dr = |r1 - r0|`, `dc = |c1 - c0|`, `r = idx // ncol`, `c = idx % ncol`
(the argument of `math.hypot` in `gis_utils.distance`, `latlon=False`) -/
def distProjSq (ncol : Nat) (xres yres : Int) (i j : Nat) : Nat :=
  let dr := absDiff_c11 (i / ncol) (j / ncol)
  let dc := absDiff_c11 (i % ncol) (j % ncol)
  ((yres * dr) * (yres * dr) + (xres * dc) * (xres * dc)).toNat

/-- `gis_utils.distance(idx0, idx1, ncol, False, transform)`: `math.hypot(yres*dr, xres*dc)`.
Exact (and equal to the float result under the input discipline) iff `distProjExact`. -/
def distProj (ncol : Nat) (xres yres : Int) (i j : Nat) : Int :=
  (Nat.sqrt (distProjSq ncol xres yres i j) : Nat)

def distProjExact (ncol : Nat) (xres yres : Int) (i j : Nat) : Bool :=
  let r := Nat.sqrt (distProjSq ncol xres yres i j)
  r * r == distProjSq ncol xres yres i j

/-! ### `core.path`, `core.snap` -/

/-- `core.path`: one `_trace` per start cell (`none` = the `while` loop did not end within `fuel`) -/
def pathModel (nxt : Array Nat) (mask : Option (Array Bool)) (maxLen : Option Int)
    (step : Nat → Nat → Int) (fuel : Nat) (starts : List Nat) : List (Option (List Nat × Int)) :=
  starts.map (traceFrom nxt mask maxLen step fuel)

/-- `core.snap`: `idxs[i] = path[-1]`, `dists[i] = d` -/
def snapOne (nxt : Array Nat) (mask : Option (Array Bool)) (maxLen : Option Int)
    (step : Nat → Nat → Int) (fuel : Nat) (s : Nat) : Option (Nat × Int) :=
  (traceFrom nxt mask maxLen step fuel s).map fun pd => (pd.1.getLastD nxt.size, pd.2)

def snapModel (nxt : Array Nat) (mask : Option (Array Bool)) (maxLen : Option Int)
    (step : Nat → Nat → Int) (fuel : Nat) (starts : List Nat) : List (Option (Nat × Int)) :=
  starts.map (snapOne nxt mask maxLen step fuel)

/-! ### declarative specification of a trace -/

def maskHit (mask : Option (Array Bool)) (i : Nat) : Bool :=
  match mask with
  | none => false
  | some m => m[i]!

def overLen (maxLen : Option Int) (x : Int) : Bool :=
  match maxLen with
  | none => false
  | some ml => decide (x > ml)

/-- travelled length after `m` steps from `s`: `Σ_{k<m} step (iter k s) (iter (k+1) s)` -/
def cumLen (nxt : Array Nat) (step : Nat → Nat → Int) (s : Nat) : Nat → Int
  | 0 => 0
  | k+1 => cumLen nxt step s k + step (iterA nxt k s) (iterA nxt (k+1) s)

/-- the walk must stop at its `m`-th cell: that cell is flagged in the mask, or is a pit / has no
next cell, or the next step would make the travelled length exceed `max_length` -/
def stopAt (nxt : Array Nat) (mask : Option (Array Bool)) (maxLen : Option Int)
    (step : Nat → Nat → Int) (s m : Nat) : Bool :=
  let c := iterA nxt m s
  maskHit mask c || nxt[c]! == c || nxt[c]! == nxt.size ||
    overLen maxLen (cumLen nxt step s m + step c nxt[c]!)

/-- `[iter 0 s, …, iter m s]` -/
def pathTo (nxt : Array Nat) (s m : Nat) : List Nat := (List.range (m+1)).map fun k => iterA nxt k s

/-- least `m ∈ [k, k+fuel)` with `p m` -/
def leastFrom (p : Nat → Bool) : Nat → Nat → Option Nat
  | 0, _ => none
  | f+1, k => if p k then some k else leastFrom p f (k+1)

/-- specification of `_trace`: stop at the least stopping index (searched below `fuel`) -/
def specTrace (nxt : Array Nat) (mask : Option (Array Bool)) (maxLen : Option Int)
    (step : Nat → Nat → Int) (fuel s : Nat) : Option (List Nat × Int) :=
  (leastFrom (stopAt nxt mask maxLen step s) fuel 0).map fun m => (pathTo nxt s m, cumLen nxt step s m)

def specSnap (nxt : Array Nat) (mask : Option (Array Bool)) (maxLen : Option Int)
    (step : Nat → Nat → Int) (fuel s : Nat) : Option (Nat × Int) :=
  (leastFrom (stopAt nxt mask maxLen step s) fuel 0).map fun m => (iterA nxt m s, cumLen nxt step s m)

/-! ### main upstream cell: decidable certificate -/

/-- `i` is an inflowing (upstream) neighbour of `j` -/
def inflow (ds : Array Nat) (i j : Nat) : Bool := i < ds.size && ds[i]! == j && i != j

/-- certificate for an `idxs_us_main` array `us`: for every cell `j`, either `us[j]` is the missing
value and no inflowing cell has an area above `upaMin`, or `us[j]` is an inflowing cell of `j` whose
area is above `upaMin` and is the largest among all inflowing cells -/
def isMainArgmax (ds : Array Nat) (uparea : Array Int) (upaMin : Int) (us : Array Nat) : Bool :=
  us.size == ds.size &&
  (List.range ds.size).all fun j =>
    if us[j]! = ds.size then
      (List.range ds.size).all fun i => !inflow ds i j || decide (uparea[i]! ≤ upaMin)
    else
      inflow ds us[j]! j && decide (uparea[us[j]!]! > upaMin) &&
      (List.range ds.size).all fun i => !inflow ds i j || decide (uparea[i]! ≤ uparea[us[j]!]!)

/-! ### `gis_utils.coords_to_idxs` (unrotated transform, `op = floor`, no precision) -/

/-- floor of `a / b` for `b ≠ 0` -/
def floorDiv (a b : Int) : Int := if b > 0 then a / b else (-a) / (-b)

/-- `coords_to_idxs`: `none` = `IndexError` (outside the raster). All six numbers share one scale. -/
def cellOf (nrow ncol : Nat) (x0 y0 xres yres x y : Int) : Option Nat :=
  let col := floorDiv (x - x0) xres
  let row := floorDiv (y - y0) yres
  if 0 ≤ row ∧ row < nrow ∧ 0 ≤ col ∧ col < ncol then some (row.toNat * ncol + col.toNat) else none

/-- `FlwdirRaster.path(xy=(x, y), …)` / `snap(xy=…)` for one point: `_check_idxs_xy` turns the point
into a linear index with `coords_to_idxs`, then `_trace` runs. Outer `none` = `IndexError`. -/
def traceXY (nrow ncol : Nat) (x0 y0 xres yres x y : Int) (nxt : Array Nat) (mask : Option (Array Bool))
    (maxLen : Option Int) (step : Nat → Nat → Int) (fuel : Nat) : Option (Option (List Nat × Int)) :=
  (cellOf nrow ncol x0 y0 xres yres x y).map (traceFrom nxt mask maxLen step fuel)

end Pf
