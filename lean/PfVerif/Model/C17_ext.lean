import PfVerif.Model.C17
/-! # C17 extension — the remaining geo-reference helpers of `pyflwdir/gis_utils.py`

`reggrid_dx`, `reggrid_dy`, `reggrid_area` (cell sizes of a regular grid given by its coordinate vectors),
`get_edge` with an arbitrary 3x3 structuring element, and the full 2-D result of `area_grid` (so that sums
over the grid can be stated).  Core Lean only; numbers are exact rationals; the transcendental pieces
(`degree_metres_x/y`, `cellarea`'s sine) stay parameters exactly as in `Model/C17.lean`.

NaN: `np.mean` of an empty array is NaN (`np.diff` of a vector of length 0 or 1 is empty).  A NaN
resolution makes every entry of the result NaN; the model returns `none` for "every entry is NaN"
(the shape is still `(lats.size, lons.size)`). -/
namespace Pf.C17x
open Pf.C17

/-! ### `np.diff`, `np.mean`, resolution of a coordinate vector -/

/-- `np.diff(v)` -/
def diffL : List Rat → List Rat
  | a :: b :: r => (b - a) :: diffL (b :: r)
  | _ => []

/-- `np.mean(v)`; `none` = NaN (empty input) -/
def meanL (v : List Rat) : Option Rat :=
  if v.isEmpty then none else some (v.sum / (v.length : Rat))

/-- `np.abs(np.mean(np.diff(v)))` -/
def resOf (v : List Rat) : Option Rat := (meanL (diffL v)).map absQ

/-! ### `reggrid_dx`, `reggrid_dy`, `reggrid_area` -/

/-- `reggrid_dx(lats, lons)`: `xres = |mean(diff(lons))|`, `dx = degree_metres_x(lats) * xres`,
`dx[:, None] * ones((lats.size, lons.size))` -/
def reggridDx (dmx : Rat → Rat) (lats lons : List Rat) : Option (List (List Rat)) :=
  match resOf lons with
  | none => none
  | some xres => some (lats.map fun l => List.replicate lons.length (dmx l * xres * 1))

/-- `reggrid_dy(lats, lons)`: `yres = |mean(diff(lats))|`, `dy = degree_metres_y(lats) * yres` -/
def reggridDy (dmy : Rat → Rat) (lats lons : List Rat) : Option (List (List Rat)) :=
  match resOf lats with
  | none => none
  | some yres => some (lats.map fun l => List.replicate lons.length (dmy l * yres * 1))

/-- `reggrid_area(lats, lons)`: `cellarea(lats, xres, yres)[:, None] * ones`; `cell` = `cellarea` -/
def reggridArea (cell : Rat → Rat → Rat → Rat) (lats lons : List Rat) : Option (List (List Rat)) :=
  match resOf lons, resOf lats with
  | some xres, some yres => some (lats.map fun l => List.replicate lons.length (cell l xres yres * 1))
  | _, _ => none

/-! ### the 2-D result of `area_grid` and sums over a grid -/

/-- every row value of `Pf.C17.areaGrid` repeated `ncol` times (`np.full` / `[:, None] * ones`) -/
def expandRows (ncol : Nat) (rows : List Rat) : List (List Rat) := rows.map (List.replicate ncol)

/-- `area.sum()` -/
def gridSum (g : List (List Rat)) : Rat := (g.map List.sum).sum

/-! ### `get_edge(a, structure)` for an arbitrary 3x3 structuring element -/

/-- `a[r, c]` of a row-major boolean raster (`false` outside: never read by the code) -/
def at2 (ncol : Nat) (a : Array Bool) (r c : Nat) : Bool := a[r * ncol + c]!

/-- the nine window offsets in the order of `structure.ravel()` -/
def win : List (Int × Int) :=
  [(-1, -1), (-1, 0), (-1, 1), (0, -1), (0, 0), (0, 1), (1, -1), (1, 0), (1, 1)]

/-- `s = np.where(structure.ravel())[0]` as offsets -/
def selected (st : Array Bool) : List (Int × Int) :=
  ((List.range 9).filter fun k => st[k]!).map fun k => win[k]!

/-- body of the double loop for the cell `(r, c)`: border cells and invalid cells keep `a[r, c]`;
an interior valid cell is cleared iff `np.all(a0[s])` -/
def edgeCell (nrow ncol : Nat) (a st : Array Bool) (r c : Nat) : Bool :=
  if !at2 ncol a r c || r == 0 || r == nrow - 1 || c == 0 || c == ncol - 1 then at2 ncol a r c
  else if (selected st).all fun o => at2 ncol a ((r : Int) + o.1).toNat ((c : Int) + o.2).toNat then false
  else at2 ncol a r c

/-- `get_edge(a, structure)`, row-major (the loop only reads `a` and writes `edge[r, c]`) -/
def getEdgeS (nrow ncol : Nat) (a st : Array Bool) : List Bool :=
  (List.range (nrow * ncol)).map fun i => edgeCell nrow ncol a st (i / ncol) (i % ncol)

/-- declarative edge: a valid cell on the border of the raster, or with an invalid cell among the window
positions selected by the structuring element -/
def IsEdgeS (nrow ncol : Nat) (a st : Array Bool) (r c : Nat) : Prop :=
  at2 ncol a r c = true ∧
  (r = 0 ∨ r + 1 = nrow ∨ c = 0 ∨ c + 1 = ncol ∨
    ∃ k, k < 9 ∧ st[k]! = true ∧
      at2 ncol a ((r : Int) + (win[k]!).1).toNat ((c : Int) + (win[k]!).2).toNat = false)

instance (nrow ncol : Nat) (a st : Array Bool) (r c : Nat) : Decidable (IsEdgeS nrow ncol a st r c) := by
  unfold IsEdgeS; exact inferInstance

end Pf.C17x
