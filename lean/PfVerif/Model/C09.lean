import PfVerif.Model.Core
/-! Models of `pyflwdir/upscale.py` (C09), loop for loop. Core Lean only.

Conventions
* fine network `ds : Array Nat` of size `subn = subnrow * subncol`, missing value `subn`;
* per-coarse-cell pixel arrays (`rep`, `out`) have size `ncell = nrow * ncol`, missing value `subn`;
* coarse network `cds : Array Nat` of size `ncell`, missing value `ncell`;
* `upa : Array Int` upstream area (the harness passes integer-valued areas, so `>` on float64 is exact);
* `ea : Array Bool` is the implementation's own `effective_area(subidx, subncol, cellsize, 0.5)` per pixel
  (its `x ** 0.5` float test is a *parameter* of the model, see DESIGN §5.5);
* every `while True` is a structural recursion on fuel returning `Option`; a kernel returns `none`
  iff one of its traces ran out of fuel (`collect`).

Modelled: `subidx_2_idx`, `in_d8`, `cell_edge`, `map_celledge`, `map_effare` (as a relabelling of `ea`),
`dmm_exitcell`, `dmm_nextidx`, `dmm`, `eam_repcell`, `eam_nextidx`, `eam`, `ihu_outlets`, `ihu_nextidx`,
`eam_plus` (= `ihu(niter=0)`), `upscale_error`, `upscale_check`.
Not modelled: `ihu_relocate_outlets`, `ihu_optimize_rivlen`, `ihu_minimize_error`, `new_outlet`, `outlet_pix`
(the iterative stages of `ihu`); their output is validated per run by `upscaleOK` below. -/
namespace Pf

/-! ### shapes -/

/-- `int(np.ceil(a / s))` -/
def ceilDiv (a s : Nat) : Nat := (a + s - 1) / s

/-- fine shape and scale factor; the coarse shape is derived exactly as in `dmm`/`eam`/`ihu` -/
structure Geo where
  subnrow : Nat
  subncol : Nat
  cs : Nat
  deriving Repr, DecidableEq

def Geo.nrow (g : Geo) : Nat := ceilDiv g.subnrow g.cs
def Geo.ncol (g : Geo) : Nat := ceilDiv g.subncol g.cs
def Geo.ncell (g : Geo) : Nat := g.nrow * g.ncol
def Geo.subn (g : Geo) : Nat := g.subnrow * g.subncol

/-! ### generic convenience functions -/

/-- `subidx_2_idx(subidx, subncol, cellsize, ncol)` -/
def subidx2idx (subidx subncol cs ncol : Nat) : Nat :=
  (subidx / subncol / cs) * ncol + (subidx % subncol) / cs

/-- the coarse cell of a pixel -/
def Geo.cell (g : Geo) (p : Nat) : Nat := subidx2idx p g.subncol g.cs g.ncol

def absDiff (a b : Nat) : Nat := (a - b) + (b - a)

/-- `in_d8(idx0, idx_ds, ncol)` -/
def inD8 (idx0 idxds ncol : Nat) : Bool :=
  decide (absDiff (idxds % ncol) (idx0 % ncol) ≤ 1) && decide (absDiff (idxds / ncol) (idx0 / ncol) ≤ 1)

/-- `cell_edge(subidx, subncol, cellsize)` -/
def cellEdge (subidx subncol cs : Nat) : Bool :=
  let ri := (subidx / subncol) % cs
  let ci := (subidx % subncol) % cs
  ri == 0 || ci == 0 || ri + 1 == cs || ci + 1 == cs

/-- `map_celledge` / `map_effare`: `-1` on missing pixels, else `1`/`0` -/
def mapFlag (ds : Array Nat) (flag : Nat → Bool) : Array Int :=
  ((List.range ds.size).map fun p =>
    if ds[p]! = ds.size then (-1 : Int) else if flag p then 1 else 0).toArray

def mapCellEdge (ds : Array Nat) (subncol cs : Nat) : Array Int :=
  mapFlag ds fun p => cellEdge p subncol cs

def mapEffare (ds : Array Nat) (ea : Array Bool) : Array Int :=
  mapFlag ds fun p => ea[p]!

/-- run `f` for `c = 0 … n-1`; `none` iff some run failed (ran out of fuel) -/
def collect {α : Type} [Inhabited α] (n : Nat) (f : Nat → Option α) : Option (Array α) :=
  let rs := (List.range n).map f
  if rs.all Option.isSome then some (rs.map fun o => o.getD default).toArray else none

/-! ### representative / exit pixel (`dmm_exitcell`, `eam_repcell`) -/

/-- one iteration of the pixel loop shared by `dmm_exitcell` (`cand = cell_edge`) and `eam_repcell`
(`cand = effective_area`); state = (`subidxs_rep`, `uparea`) -/
def repStep (ds : Array Nat) (upa : Array Int) (cand : Nat → Bool) (cell : Nat → Nat)
    (st : Array Nat × Array Int) (p : Nat) : Array Nat × Array Int :=
  if ds[p]! = ds.size then st
  else if ds[p]! = p ∨ cand p = true then
    if upa[p]! > st.2[cell p]! then (st.1.setIfInBounds (cell p) p, st.2.setIfInBounds (cell p) upa[p]!)
    else st
  else st

def repFold (ds : Array Nat) (upa : Array Int) (cand : Nat → Bool) (cell : Nat → Nat) (ncell k : Nat) :
    Array Nat × Array Int :=
  (List.range k).foldl (repStep ds upa cand cell) (Array.replicate ncell ds.size, Array.replicate ncell 0)

def repCells (ds : Array Nat) (upa : Array Int) (cand : Nat → Bool) (cell : Nat → Nat) (ncell : Nat) :
    Array Nat :=
  (repFold ds upa cand cell ncell ds.size).1

/-- `dmm_exitcell(subidxs_ds, subuparea, subshape, shape, cellsize)` -/
def dmmExitcell (ds : Array Nat) (upa : Array Int) (subncol cs ncol ncell : Nat) : Array Nat :=
  repCells ds upa (fun p => cellEdge p subncol cs) (fun p => subidx2idx p subncol cs ncol) ncell

/-- `eam_repcell(subidxs_ds, subuparea, subshape, shape, cellsize)` -/
def eamRepcell (ds : Array Nat) (upa : Array Int) (ea : Array Bool) (subncol cs ncol ncell : Nat) :
    Array Nat :=
  repCells ds upa (fun p => ea[p]!) (fun p => subidx2idx p subncol cs ncol) ncell

/-! ### `dmm_nextidx` -/

/-- `abs(subr - subr0) > R0 or abs(subc - subc0) > R0`, everything multiplied by two:
`c2r = 2*subr0`, `thr = 2*R0` -/
def dmmOutside (subncol thr : Nat) (c2r c2c : Int) (p : Nat) : Bool :=
  decide ((2 * Int.ofNat (p / subncol) - c2r).natAbs > thr) ||
  decide ((2 * Int.ofNat (p % subncol) - c2c).natAbs > thr)

/-- the `while True` of `dmm_nextidx`; state (`subidx`, `idx`) -/
def dmmTrace (ds : Array Nat) (cell : Nat → Nat) (outside : Nat → Bool) (idx0 : Nat) :
    Nat → Nat → Nat → Option Nat
  | 0, _, _ => none
  | fuel+1, p, idx =>
    let p1 := ds[p]!
    let idx1 := cell p1
    if p1 = p then some idx
    else if idx1 ≠ idx0 ∧ outside p = true then some idx
    else dmmTrace ds cell outside idx0 fuel p1 idx1

/-- offset-cell centre and radius (both times two) of `dmm_nextidx`: `dr = ri // (cs/2) = ⌊2 ri / cs⌋`,
`subr0 = (r0+dr)*cs - 0.5`, `R0 = cs/2`; for `cellsize == 1` the window is the cell itself
(`subr0 = r0`, `R0 = 0`) -/
def dmmCentre (subncol cs ncol idx0 p : Nat) : Int × Int × Nat :=
  if cs = 1 then (2 * Int.ofNat (idx0 / ncol), 2 * Int.ofNat (idx0 % ncol), 0)
  else
    let dr := (2 * ((p / subncol) % cs)) / cs
    let dc := (2 * ((p % subncol) % cs)) / cs
    (2 * Int.ofNat ((idx0 / ncol + dr) * cs) - 1, 2 * Int.ofNat ((idx0 % ncol + dc) * cs) - 1, cs)

/-- `dmm_nextidx(subidxs_rep, subidxs_ds, subshape, shape, cellsize)` -/
def dmmNextidx (ds rep : Array Nat) (subncol cs ncol : Nat) : Option (Array Nat) :=
  collect rep.size fun idx0 =>
    let p := rep[idx0]!
    if p = ds.size then some rep.size
    else
      let c := dmmCentre subncol cs ncol idx0 p
      dmmTrace ds (fun q => subidx2idx q subncol cs ncol) (dmmOutside subncol c.2.2 c.1 c.2.1) idx0
        (ds.size + 1) p idx0

/-- `dmm(subidxs_ds, subuparea, subshape, cellsize)` → (`idxs_ds`, `subidxs_out`) -/
def dmmModel (ds : Array Nat) (upa : Array Int) (g : Geo) : Option (Array Nat × Array Nat) :=
  let rep := dmmExitcell ds upa g.subncol g.cs g.ncol g.ncell
  (dmmNextidx ds rep g.subncol g.cs g.ncol).map fun cds => (cds, rep)

/-! ### `eam_nextidx` -/

/-- the `while True` of `eam_nextidx`; returns `idx1` -/
def eamTrace (ds : Array Nat) (ea : Array Bool) (cell : Nat → Nat) (idx0 : Nat) : Nat → Nat → Option Nat
  | 0, _ => none
  | fuel+1, p =>
    let p1 := ds[p]!
    let idx1 := cell p1
    if p1 = p then some idx1
    else if idx1 ≠ idx0 ∧ ea[p1]! = true then some idx1
    else eamTrace ds ea cell idx0 fuel p1

def eamNextidx (ds rep : Array Nat) (ea : Array Bool) (subncol cs ncol : Nat) : Option (Array Nat) :=
  collect rep.size fun idx0 =>
    let p := rep[idx0]!
    if p = ds.size then some rep.size
    else eamTrace ds ea (fun q => subidx2idx q subncol cs ncol) idx0 (ds.size + 1) p

/-- `eam(subidxs_ds, subuparea, subshape, cellsize)` → (`idxs_ds`, `subidxs_rep`) -/
def eamModel (ds : Array Nat) (upa : Array Int) (ea : Array Bool) (g : Geo) :
    Option (Array Nat × Array Nat) :=
  let rep := eamRepcell ds upa ea g.subncol g.cs g.ncol g.ncell
  (eamNextidx ds rep ea g.subncol g.cs g.ncol).map fun cds => (cds, rep)

/-! ### `ihu_outlets`, `ihu_nextidx`, `eam_plus` -/

/-- the `while True` of `ihu_outlets`: follow the stream to the last pixel inside coarse cell `idx0` -/
def ihuOutTrace (ds : Array Nat) (cell : Nat → Nat) (idx0 : Nat) : Nat → Nat → Option Nat
  | 0, _ => none
  | fuel+1, p =>
    let p1 := ds[p]!
    if idx0 ≠ cell p1 ∨ p1 = p then some p
    else ihuOutTrace ds cell idx0 fuel p1

def ihuOutlets (ds rep : Array Nat) (subncol cs ncol : Nat) : Option (Array Nat) :=
  collect rep.size fun idx0 =>
    let p := rep[idx0]!
    if p = ds.size then some ds.size
    else ihuOutTrace ds (fun q => subidx2idx q subncol cs ncol) idx0 (ds.size + 1) p

/-- the `while True` of `ihu_nextidx`; state (`subidx`, `subidx_ds`); returns (`subidx_ds`, flagged) -/
def ihuNextTrace (ds out : Array Nat) (ea : Array Bool) (cell : Nat → Nat) (ncol idx0 : Nat) :
    Nat → Nat → Option Nat → Option (Option Nat × Bool)
  | 0, _, _ => none
  | fuel+1, p, sd =>
    let p1 := ds[p]!
    let idx1 := cell p1
    if out[idx1]! = p1 ∨ p1 = p then
      if inD8 idx0 idx1 ncol = false then some (sd, true)
      else some (some p1, decide (out[idx1]! ≠ p1))
    else
      ihuNextTrace ds out ea cell ncol idx0 fuel p1 (if sd.isNone ∧ ea[p1]! = true then some p1 else sd)

/-- `ihu_nextidx(subidxs_out, subidxs_ds, subshape, shape, cellsize)` → (`idxs_ds`, `idxs_fix`).
`subidx_2_idx(mv, …)` (no effective-area pixel met before a non-adjacent outlet) is the missing value. -/
def ihuNextidx (ds out : Array Nat) (ea : Array Bool) (subncol cs ncol : Nat) :
    Option (Array Nat × List Nat) :=
  let cell := fun q => subidx2idx q subncol cs ncol
  (collect out.size fun idx0 =>
    let p := out[idx0]!
    if p = ds.size then some (out.size, false)
    else (ihuNextTrace ds out ea cell ncol idx0 (ds.size + 1) p none).map fun r =>
      (match r.1 with
        | some q => cell q
        | none => out.size, r.2)).map fun a =>
    (a.map (·.1), (List.range a.size).filter fun c => a[c]!.2)

/-- `eam_plus` = `ihu(niter=0)` → (`idxs_ds`, `subidxs_out`, `idxs_fix`) -/
def eamPlusModel (ds : Array Nat) (upa : Array Int) (ea : Array Bool) (g : Geo) :
    Option (Array Nat × Array Nat × List Nat) :=
  let rep := eamRepcell ds upa ea g.subncol g.cs g.ncol g.ncell
  match ihuOutlets ds rep g.subncol g.cs g.ncol with
  | none => none
  | some out => (ihuNextidx ds out ea g.subncol g.cs g.ncol).map fun r => (r.1, out, r.2)

/-! ### `upscale_error`, `upscale_check` -/

/-- the boolean `outlets` array of `upscale_error` -/
def outletMask (subn : Nat) (out : Array Nat) : Array Bool :=
  out.toList.foldl (fun m p => if p = subn then m else m.setIfInBounds p true) (Array.replicate subn false)

/-- the `while True` of `upscale_error`: the first pixel strictly downstream of `p` that is an outlet
pixel or a pit -/
def errWalk (ds : Array Nat) (isOut : Nat → Bool) : Nat → Nat → Option Nat
  | 0, _ => none
  | fuel+1, p =>
    let p1 := ds[p]!
    if isOut p1 = true ∨ p1 = p then some p1 else errWalk ds isOut fuel p1

/-- `upscale_error(subidxs_out, idxs_ds, subidxs_ds)[0]`: 1 connected, 0 erroneous, 255 missing -/
def upscaleError (ds out cds : Array Nat) : Option (Array Nat) :=
  let mask := outletMask ds.size out
  collect cds.size fun idx0 =>
    if cds[idx0]! ≠ cds.size ∧ out[idx0]! ≠ ds.size then
      (errWalk ds (fun q => mask[q]!) (ds.size + 1) out[idx0]!).map fun q =>
        if q ≠ out[cds[idx0]!]! then 0 else 1
    else some 255

/-- second output of `upscale_error`: the erroneous cells in increasing order -/
def upscaleErrorFix (flags : Array Nat) : List Nat :=
  (List.range flags.size).filter fun c => flags[c]! == 0

/-- initial `streams` array of `upscale_check` -/
def streamsInit (subn : Nat) (out : Array Nat) : Array Int :=
  (List.range out.size).foldl (fun (s : Array Int) (idx : Nat) =>
    if out[idx]! = subn then s else s.setIfInBounds out[idx]! (Int.ofNat idx)) (Array.replicate subn (-9))

/-- the `while True` of `upscale_check` for one coarse cell; state (`subidx`, `d`, `streams`);
returns (reached pixel, `d`, `streams`) -/
def checkWalk (ds : Array Nat) : Nat → Nat → Nat → Array Int → Option (Nat × Nat × Array Int)
  | 0, _, _, _ => none
  | fuel+1, p, d, streams =>
    let p1 := ds[p]!
    if streams[p1]! ≥ 0 ∨ p1 = p then some (p1, d, streams)
    else checkWalk ds fuel p1 (d + 1) (streams.setIfInBounds p (max streams[p]! (-1)))

/-- `upscale_check(subidxs_out, idxs_ds, subidxs_ds, minlen)` with `minlen = minNum / minDen`;
returns (`valid`, `streams`, `idxs_fix`, `idxs_short`) -/
def upscaleCheck (ds out cds : Array Nat) (minNum minDen : Nat) :
    Option (Array Bool × Array Int × List Nat × List Nat) :=
  (List.range cds.size).foldlM (fun (st : Array Bool × Array Int × List Nat × List Nat) idx0 =>
    let (valid, streams, fix, short) := st
    if cds[idx0]! = cds.size then some st
    else match checkWalk ds (ds.size + 1) out[idx0]! 0 streams with
      | none => none
      | some (q, d, streams) =>
        if q ≠ out[cds[idx0]!]! then some (valid.setIfInBounds idx0 false, streams, fix ++ [idx0], short)
        else if minNum > 0 ∧ (d + 1) * minDen ≤ minNum then some (valid, streams, fix, short ++ [idx0])
        else some (valid, streams, fix, short))
    (Array.replicate cds.size true, streamsInit ds.size out, [], [])

/-! ### pieces of the iterative stages of `ihu`: `outlet_pix`, `new_outlet` (modelled for correspondence only) -/

/-- `outlet_pix(idx, subidxs_ds, ncol, subncol, cellsize, all)`: pits of the coarse cell and edge pixels whose
downstream pixel lies outside it, column by column. `subidx_2_idx(mv, …)` (a missing pixel on the edge) is never the
cell itself for the signed index types the library uses. -/
def outletPix (ds : Array Nat) (idx ncol subncol cs : Nat) (all : Bool) : List Nat :=
  let subnrow := ds.size / subncol
  let cul := (idx % ncol) * cs
  let rul := (idx / ncol) * cs
  (List.range cs).foldl (fun acc ci =>
    if cul + ci ≥ subncol then acc else
    (List.range cs).foldl (fun acc ri =>
      if rul + ri ≥ subnrow then acc else
      let p := (rul + ri) * subncol + cul + ci
      let p1 := ds[p]!
      let edge := ci == 0 || ci + 1 == cs || ri == 0 || ri + 1 == cs
      if p = p1 then acc ++ [p]
      else if edge && (all || p1 == ds.size || subidx2idx p1 subncol cs ncol != idx) then acc ++ [p]
      else acc) acc) []

/-- the `while True` of `new_outlet`: follow the stream from a candidate pixel to the next outlet pixel or pit;
returns (`path`, last `subidx`, `subidx_ds`) -/
def newOutletWalk (ds : Array Nat) (streams : Array Int) : Nat → Nat → List Nat → Option (List Nat × Nat × Nat)
  | 0, _, _ => none
  | fuel+1, p, path =>
    let p1 := ds[p]!
    if streams[p1]! ≥ 0 ∨ p = p1 then some (path ++ [p1], p, p1)
    else newOutletWalk ds streams fuel p1 (path ++ [p1])

/-- `new_outlet(idx0, subidx0, streams, idxs_ds, subidxs_out, subidxs_ds, subuparea, ncol, subncol, cellsize,
minlen, minupa, subidx1)` with `minlen = minNum/minDen`; `upa` and `minupa` are scaled by the same factor.
Returns (`streams`, `idxs_ds`, `subidxs_out`, found). -/
def newOutlet (ds : Array Nat) (upa : Array Int) (idx0 subidx0 : Nat) (streams : Array Int)
    (cds out : Array Nat) (ncol subncol cs minNum minDen : Nat) (minupa : Int) (target : Option Nat) :
    Option (Array Int × Array Nat × Array Nat × Bool) :=
  let streams := streams.setIfInBounds subidx0 (-1)
  let cands := outletPix ds idx0 ncol subncol cs false
  -- state: upa0, subidx_out, idx_ds, path0 (`none` = nothing found yet)
  let res := cands.foldlM (fun (st : Int × Option (Nat × Nat × List Nat)) cand =>
    if streams[cand]! ≠ -9 ∨ upa[cand]! ≤ st.1 then some st
    else match newOutletWalk ds streams (ds.size + 1) cand [] with
      | none => none
      | some (path, last, pds) =>
        let n := path.length
        let idx1 := subidx2idx pds subncol cs ncol
        let outlet1 := match target with
          | none => true
          | some t => t == pds
        let outlet := decide (n * minDen > minNum) && inD8 idx0 idx1 ncol && idx0 != idx1
        let pit := n == 1 && last == path.head! && idx0 == idx1
        if outlet1 && (outlet || pit) then some (upa[cand]!, some (cand, idx1, path)) else some st)
    (minupa, none)
  match res with
  | none => none
  | some (_, none) => some (streams.setIfInBounds subidx0 (Int.ofNat idx0), cds, out, false)
  | some (_, some (pout, idxds, path0)) =>
    let streams := streams.setIfInBounds pout (Int.ofNat idx0)
    let streams := path0.foldl (fun s p => s.setIfInBounds p (max s[p]! (-1))) streams
    some (streams, cds.setIfInBounds idx0 idxds, out.setIfInBounds idx0 pout, true)

/-! ### specification side: certificate checker `UpscaleOK` and the declarative connection check -/

/-- witnesses handed to the checker (computed by unverified code in the driver):
`rk` rank of every coarse cell, `inv` pixel → coarse cell reporting it, `wit` coarse cell → a valid pixel in it -/
structure UpCert where
  rk : Array Int
  inv : Array Nat
  wit : Array Nat

def allCells (n : Nat) (p : Nat → Bool) : Bool := (List.range n).all p

/-- every coarse link stays inside the raster and the 3×3 neighbourhood -/
def okD8 (cds : Array Nat) (ncol : Nat) : Bool :=
  allCells cds.size fun c => cds[c]! == cds.size || (decide (cds[c]! < cds.size) && inD8 c cds[c]! ncol)

/-- diagnostic part of `okRank`: every valid coarse cell points to a valid coarse cell -/
def okTarget (cds : Array Nat) : Bool :=
  allCells cds.size fun c => cds[c]! == cds.size ||
    (decide (cds[c]! < cds.size) && cds[cds[c]!]! != cds.size)

/-- local rank conditions: rank 0 at pits, else the downstream cell is valid with rank one less -/
def okRank (cds : Array Nat) (rk : Array Int) : Bool :=
  allCells cds.size fun c => cds[c]! == cds.size ||
    (decide (cds[c]! < cds.size) &&
      (if cds[c]! = c then rk[c]! == 0
       else decide (cds[cds[c]!]! < cds.size) && decide (0 ≤ rk[cds[c]!]!) && rk[c]! == rk[cds[c]!]! + 1))

/-- a coarse cell is valid exactly where an outlet pixel is reported -/
def okValidIff (cds out : Array Nat) (subn : Nat) : Bool :=
  out.size == cds.size && allCells cds.size fun c => (cds[c]! != cds.size) == (out[c]! != subn)

/-- outlet pixels are valid fine cells, pairwise distinct (`inv` is a left inverse) -/
def okOutlets (ds out inv : Array Nat) : Bool :=
  allCells out.size fun c => out[c]! == ds.size ||
    (decide (out[c]! < ds.size) && ds[out[c]!]! != ds.size && inv[out[c]!]! == c)

/-- every coarse cell with an outlet contains a valid fine cell (`wit`) -/
def okCellValid (ds out wit : Array Nat) (cell : Nat → Nat) : Bool :=
  allCells out.size fun c => out[c]! == ds.size ||
    (decide (wit[c]! < ds.size) && ds[wit[c]!]! != ds.size && cell wit[c]! == c)

/-- every outlet pixel lies in its own coarse cell (claimed for dmm, eam, eam_plus only) -/
def okOwnCell (ds out : Array Nat) (cell : Nat → Nat) : Bool :=
  allCells out.size fun c => out[c]! == ds.size || cell out[c]! == c

/-- the decidable certificate predicate evaluated on the implementation's output -/
def upscaleOK (ds : Array Nat) (g : Geo) (cds out : Array Nat) (w : UpCert) : Bool :=
  cds.size == g.ncell && okD8 cds g.ncol && okRank cds w.rk && okValidIff cds out ds.size &&
    okOutlets ds out w.inv && okCellValid ds out w.wit g.cell

/-- witnesses for a given output -/
def mkCert (ds : Array Nat) (g : Geo) (cds out : Array Nat) : UpCert where
  rk := match rank cds with
    | some (r, _) => r
    | none => Array.replicate cds.size (-1)
  inv := (List.range out.size).foldl (fun a c => a.setIfInBounds out[c]! c) (Array.replicate ds.size out.size)
  wit := (List.range ds.size).foldl (fun a p =>
    if ds[p]! = ds.size then a else a.setIfInBounds (g.cell p) p) (Array.replicate out.size ds.size)

/-! ### executable checks of the hypotheses of the by-construction theorems (evaluated by the driver on every case) -/

def centreAxB (cs x : Nat) : Bool := decide (cs ≤ 2 * (x % cs) + 2) && decide (2 * (x % cs) ≤ cs)

/-- the effective-area map contains the centre cross of every coarse cell -/
def chkEaCross (g : Geo) (ea : Array Bool) (n : Nat) : Bool :=
  allCells n fun p => !(centreAxB g.cs (p / g.subncol) || centreAxB g.cs (p % g.subncol)) || ea[p]!

/-- fine links join 8-neighbours -/
def chkFineD8 (ds : Array Nat) (subncol : Nat) : Bool :=
  allCells ds.size fun p => ds[p]! == ds.size || inD8 p ds[p]! subncol

/-- valid fine cells point to valid fine cells -/
def chkFineWF (ds : Array Nat) : Bool :=
  allCells ds.size fun p => ds[p]! == ds.size || (decide (ds[p]! < ds.size) && ds[ds[p]!]! != ds.size)

/-- the upstream area strictly increases downstream -/
def chkUpaMono (ds : Array Nat) (upa : Array Int) : Bool :=
  allCells ds.size fun p => ds[p]! == ds.size || ds[p]! == p || decide (upa[p]! < upa[ds[p]!]!)

/-- declarative version of the connection check for one coarse cell: the walk decides membership in the
outlet list directly (no mask array) -/
def errSpec (ds out cds : Array Nat) (c : Nat) : Nat :=
  if cds[c]! = cds.size ∨ out[c]! = ds.size then 255
  else match errWalk ds (fun q => out.toList.contains q) (ds.size + 1) out[c]! with
    | some q => if q = out[cds[c]!]! then 1 else 0
    | none => 2

end Pf
