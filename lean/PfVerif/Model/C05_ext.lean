import PfVerif.Model.C05
import PfVerif.Model.C11
/-! Extension of C05: region and mask operations next to basin delineation.

* `core.outflow_idxs` / `core.inflow_idxs` (`Pf.outflowIdxs` / `Pf.inflowIdxs` of `Model/Core.lean`,
  reused unchanged) with the wrappers `FlwdirRaster.outflow_idxs` / `inflow_idxs`;
* `basins.interbasin_mask` (region, optional stream) with `FlwdirRaster.interbasin_mask`;
* `regions.region_sum`, `region_area`, `region_slices`, `region_bounds`, `FlwdirRaster.basin_bounds`;
* the snapping path of `FlwdirRaster.basins(idxs=… | xy=…, streams=mask)`.

Core Lean only. Numbers: data values, coordinates and cell sizes are integers obtained by the
harness by multiplying with one common denominator; bounding boxes are returned doubled (the cell
centres lie on half cells). -/
namespace Pf.C05x
open Pf

/-! ### `Flwdir._check_data(data, name, flatten=True)` -/

/-- a size-1 input is broadcast to the network size, any other size than `n` raises `ValueError`
(`none`) -/
def checkData {α : Type} (n : Nat) (data : Array α) : Option (Array α) :=
  if h : data.size = 1 then some (Array.replicate n (data[0]'(by omega)))
  else if data.size = n then some data else none

/-! ### vocabulary for the in/outflow cells of a region -/

/-- `i` lies in the region and its downstream cell is itself (pit) or lies outside the region -/
def exitCell (ds : Array Nat) (region : Array Bool) (i : Nat) : Bool :=
  region[i]! && (ds[i]! == i || !region[ds[i]!]!)

/-- `i` is not a pit, lies outside the region and its downstream cell lies inside -/
def enterCell (ds : Array Nat) (region : Array Bool) (i : Nat) : Bool :=
  ds[i]! != i && region[ds[i]!]! && !region[i]!

/-- no exit cell on the whole flow path that starts at `j` (including `j`) -/
def NoExit (ds : Array Nat) (region : Array Bool) (j : Nat) : Prop :=
  ∀ k, exitCell ds region (iterA ds k j) = false

/-- executable version of `NoExit`: walk downstream until a pit (fuel-bounded; `none` = no pit met) -/
def walkClear (ds : Array Nat) (region : Array Bool) : Nat → Nat → Option Bool
  | 0, _ => none
  | fuel+1, j =>
    if exitCell ds region j then some false
    else if ds[j]! = j then some true
    else walkClear ds region fuel ds[j]!

/-- declarative outflow cells (independent of the cell order): the valid cells that are exit cells and
have no exit cell further downstream, in increasing index order; `none` if a walk did not end -/
def outflowSpec (ds : Array Nat) (region : Array Bool) : Option (List Nat) :=
  (List.range ds.size).foldr (fun i acc =>
    match acc with
    | none => none
    | some l =>
      if isValid ds i && exitCell ds region i then
        if ds[i]! == i then some (i :: l)
        else match walkClear ds region (ds.size + 1) ds[i]! with
          | none => none
          | some b => if b then some (i :: l) else some l
      else some l) (some [])

/-- the first cell of `seq` that drains into `j` (the inflowing cell `inflow_idxs` processes last) -/
def firstKid (ds : Array Nat) (seq : List Nat) (j : Nat) : Option Nat :=
  seq.find? fun c => ds[c]! == j && c != j

/-- no entering edge on the chain `j ← firstKid j ← firstKid (firstKid j) ← …` up to a headwater -/
inductive ChainClear (ds : Array Nat) (seq : List Nat) (region : Array Bool) : Nat → Prop
  | head (j : Nat) : firstKid ds seq j = none → ChainClear ds seq region j
  | up (j c : Nat) : firstKid ds seq j = some c → enterCell ds region c = false →
      ChainClear ds seq region c → ChainClear ds seq region j

/-- executable version of `ChainClear` (fuel-bounded) -/
def chainClear (ds : Array Nat) (seq : List Nat) (region : Array Bool) : Nat → Nat → Option Bool
  | 0, _ => none
  | fuel+1, j =>
    match firstKid ds seq j with
    | none => some true
    | some c => if enterCell ds region c then some false else chainClear ds seq region fuel c

/-- declarative inflow cells for the order `seq`: entering cells whose first-kid chain is clear,
in the order the implementation reports them (up- to downstream = reversed `seq`) -/
def inflowSpec (ds : Array Nat) (seq : List Nat) (region : Array Bool) : List Nat :=
  seq.reverse.filter fun i =>
    enterCell ds region i && (chainClear ds seq region (ds.size + 1) i == some true)

/-- `k`-fold upstream test: `y` drains through `x` (`x` is on the flow path of `y`) within `fuel` steps -/
def reachesWithin (ds : Array Nat) (x : Nat) : Nat → Nat → Bool
  | 0, y => y == x
  | fuel+1, y => y == x || (ds[y]! != y && reachesWithin ds x fuel ds[y]!)

/-- order-independent lower bound of `inflow_idxs`: entering cells with no entering cell strictly
upstream of them (these are reported whatever the order of the cells) -/
def inflowMust (ds : Array Nat) (region : Array Bool) : List Nat :=
  (List.range ds.size).filter fun i =>
    isValid ds i && enterCell ds region i &&
      (List.range ds.size).all fun y =>
        !(isValid ds y && y != i && enterCell ds region y && reachesWithin ds i ds.size y)

/-- order-independent upper bound of `inflow_idxs`: all entering cells -/
def inflowMay (ds : Array Nat) (region : Array Bool) : List Nat :=
  (List.range ds.size).filter fun i => isValid ds i && enterCell ds region i

/-! ### wrappers `FlwdirRaster.outflow_idxs` / `inflow_idxs` -/

def outflowRaster (ds : Array Nat) (seq : List Nat) (region : Array Bool) : Option (List Nat) :=
  (checkData ds.size region).map (outflowIdxs ds seq)

def inflowRaster (ds : Array Nat) (seq : List Nat) (region : Array Bool) : Option (List Nat) :=
  (checkData ds.size region).map (inflowIdxs ds seq)

/-! ### `basins.interbasin_mask` -/

/-- body of the first loop: `if mask[idx0]: mask[idxs_ds[idx0]] = True` -/
def streamStep (ds : Array Nat) (idx0 : Nat) (m : Array Bool) : Array Bool :=
  if m[idx0]! then m.setIfInBounds ds[idx0]! true else m

/-- first loop (`for idx0 in seq[::-1]`): the stream mask extended downstream -/
def streamDown (ds : Array Nat) (seq : List Nat) (stream : Array Bool) : Array Bool :=
  seq.foldr (streamStep ds) stream

/-- body of the second loop: `mask[idx0] = mask[idx_ds]`, reset where the flow enters the region -/
def gInter (ds : Array Nat) (region : Array Bool) (i : Nat) (_own dsv : Bool) : Bool :=
  if !region[i]! && region[ds[i]!]! then false else dsv

def interMask0 (ds : Array Nat) (seq : List Nat) (region : Array Bool) (stream : Option (Array Bool)) :
    Array Bool :=
  match stream with
  | some s => streamDown ds seq s
  | none => Array.replicate region.size true

/-- the mask after the second loop (before `np.logical_and(mask, region)`) -/
def interSweep (ds : Array Nat) (seq : List Nat) (region : Array Bool) (stream : Option (Array Bool)) :
    Array Bool :=
  sweepDown ds (gInter ds region) seq (interMask0 ds seq region stream)

/-- `basins.interbasin_mask(idxs_ds, seq, region, stream)` -/
def interbasinMask (ds : Array Nat) (seq : List Nat) (region : Array Bool) (stream : Option (Array Bool)) :
    Array Bool :=
  let mask := interSweep ds seq region stream
  (Array.range region.size).map fun i => mask[i]! && region[i]!

/-- `FlwdirRaster.interbasin_mask(region, stream)`; `none` = `ValueError` of `_check_data` -/
def interbasinRaster (ds : Array Nat) (seq : List Nat) (region : Array Bool) (stream : Option (Array Bool)) :
    Option (Array Bool) :=
  match checkData ds.size region with
  | none => none
  | some r =>
    match stream with
    | none => some (interbasinMask ds seq r none)
    | some s => (checkData ds.size s).map fun s' => interbasinMask ds seq r (some s')

/-- the flow path from `i` ends in a pit whose start value is `true` and never steps from outside the
region into the region (declarative meaning of the mask after the second loop) -/
inductive InterOK (ds : Array Nat) (region : Array Bool) (mask0 : Array Bool) : Nat → Prop
  | pit (i : Nat) : ds[i]! = i → mask0[i]! = true → InterOK ds region mask0 i
  | down (i : Nat) : ds[i]! ≠ i → enterCell ds region i = false → InterOK ds region mask0 ds[i]! →
      InterOK ds region mask0 i

/-- executable version of `InterOK` with the pit value given by `pitOK` -/
def walkInter (ds : Array Nat) (region : Array Bool) (pitOK : Nat → Bool) : Nat → Nat → Option Bool
  | 0, _ => none
  | fuel+1, i =>
    if ds[i]! = i then some (pitOK i)
    else if enterCell ds region i then some false
    else walkInter ds region pitOK fuel ds[i]!

/-- some cell `y` with `stream[y]` drains to `p` (brute force over all cells) -/
def streamReaches (ds : Array Nat) (stream : Array Bool) (p : Nat) : Bool :=
  (List.range ds.size).any fun y => isValid ds y && stream[y]! && reachesWithin ds p ds.size y

/-- declarative interbasin mask, independent of the cell order (valid cells only; the other cells keep
`mask0 ∧ region`); `-1` where the walk did not end -/
def interbasinSpec (ds : Array Nat) (region : Array Bool) (stream : Option (Array Bool)) : Array Int :=
  (Array.range region.size).map fun i =>
    if isValid ds i then
      match walkInter ds region (fun p => match stream with
          | none => true
          | some s => streamReaches ds s p) (ds.size + 1) i with
      | none => -1
      | some b => if b && region[i]! then 1 else 0
    else
      let m0 := match stream with
        | none => true
        | some s => s[i]!
      if m0 && region[i]! then 1 else 0

/-! ### `regions.region_sum` / `region_area` -/

/-- insert into a strictly increasing list, dropping duplicates -/
def insertAsc (x : Int) : List Int → List Int
  | [] => [x]
  | y :: ys => if x < y then x :: y :: ys else if x = y then y :: ys else y :: insertAsc x ys

/-- `np.unique(regions[regions > 0])` -/
def uniquePos (regions : Array Int) : List Int :=
  regions.toList.foldl (fun acc x => if x > 0 then insertAsc x acc else acc) []

/-- `ndimage.sum(data, regions, index=l)` for one label -/
def labelSum (data regions : Array Int) (l : Int) : Int :=
  (List.range regions.size).foldl (fun s i => if regions[i]! = l then s + data[i]! else s) 0

/-- `regions.region_sum(data, regions)` -/
def regionSum (data regions : Array Int) : List Int × List Int :=
  let lbs := uniquePos regions
  (lbs, lbs.map (labelSum data regions))

/-- number of cells with label `l` -/
def labelCount (regions : Array Int) (l : Int) : Nat :=
  ((List.range regions.size).filter fun i => regions[i]! == l).length

/-- independent definition of the sum of one label: list the cells, read the data, add -/
def labelSumSpec (data regions : Array Int) (l : Int) : Int :=
  (((List.range regions.size).filter fun i => regions[i]! == l).map fun i => data[i]!).sum

/-- `region_area` on a projected grid: `area_grid` is the constant `|xres * yres|` -/
def regionAreaProj (xres yres : Int) (regions : Array Int) : List Int × List Int :=
  regionSum (Array.replicate regions.size (xres * yres).natAbs) regions

/-- `region_area` on a geographic grid: `area_grid` is `cellarea(lat_row)` per row; the values are
the implementation's own (exact rationals scaled by the harness) -/
def regionAreaRows (ncol : Nat) (rowArea : Array Int) (regions : Array Int) : List Int × List Int :=
  regionSum ((Array.range regions.size).map fun i => rowArea[i / ncol]!) regions

/-! ### `regions.region_slices` / `region_bounds`, `FlwdirRaster.basin_bounds` -/

/-- (row start, row stop, column start, column stop) of `slice(r0, r1), slice(c0, c1)` -/
abbrev Box := Nat × Nat × Nat × Nat

def boxStep (ncol : Nat) (regions : Array Int) (l : Int) (b : Option Box) (i : Nat) : Option Box :=
  if regions[i]! = l then
    let r := i / ncol
    let c := i % ncol
    match b with
    | none => some (r, r + 1, c, c + 1)
    | some (r0, r1, c0, c1) => some (min r0 r, max r1 (r + 1), min c0 c, max c1 (c + 1))
  else b

/-- `ndimage.find_objects(regions)[l - 1]` -/
def labelBox (ncol : Nat) (regions : Array Int) (l : Int) : Option Box :=
  (List.range regions.size).foldl (boxStep ncol regions l) none

/-- `regions.region_slices`; `none` = `ValueError("No regions found in data")` -/
def regionSlices (ncol : Nat) (regions : Array Int) : Option (List Int × List Box) :=
  let lbs := uniquePos regions
  if lbs.isEmpty then none else some (lbs, lbs.filterMap (labelBox ncol regions))

/-- doubled centre coordinate of column/row `c`: `2 * (x0 + xres * (c + 1/2))`
(`affine_to_coords` for an unrotated transform) -/
def centre2 (x0 xres : Int) (c : Nat) : Int := 2 * x0 + xres * (2 * (c : Int) + 1)

/-- doubled `[lo - |res|/2, hi + |res|/2]` where `lo, hi = coords[slice][[0, -1]]`, swapped for `res < 0` -/
def axisBounds2 (x0 xres : Int) (c0 c1 : Nat) : Int × Int :=
  let a := centre2 x0 xres c0
  let b := centre2 x0 xres (c1 - 1)
  let lohi : Int × Int := if xres < 0 then (b, a) else (a, b)
  (lohi.1 - (xres.natAbs : Int), lohi.2 + (xres.natAbs : Int))

/-- doubled `[xmin, ymin, xmax, ymax]` -/
abbrev BBox := Int × Int × Int × Int

def boxBounds2 (x0 y0 xres yres : Int) (b : Box) : BBox :=
  let xs := axisBounds2 x0 xres b.2.2.1 b.2.2.2
  let ys := axisBounds2 y0 yres b.1 b.2.1
  (xs.1, ys.1, xs.2, ys.2)

def listMin (l : List Int) (d : Int) : Int := l.foldl min d
def listMax (l : List Int) (d : Int) : Int := l.foldl max d

/-- `np.hstack([bboxs[:, :2].min(axis=0), bboxs[:, 2:].max(axis=0)])` -/
def totalBounds (bbs : List BBox) : Option BBox :=
  match bbs with
  | [] => none
  | b :: rest =>
    some (listMin (rest.map (·.1)) b.1, listMin (rest.map (·.2.1)) b.2.1,
          listMax (rest.map (·.2.2.1)) b.2.2.1, listMax (rest.map (·.2.2.2)) b.2.2.2)

/-- `regions.region_bounds(regions, transform)` for an unrotated transform; `none` = `ValueError` -/
def regionBounds (ncol : Nat) (x0 y0 xres yres : Int) (regions : Array Int) :
    Option (List Int × List BBox × BBox) :=
  match regionSlices ncol regions with
  | none => none
  | some (lbs, boxes) =>
    let bbs := boxes.map (boxBounds2 x0 y0 xres yres)
    (totalBounds bbs).map fun t => (lbs, bbs, t)

/-- `FlwdirRaster.basin_bounds(basins)`: `basins=None` computes `self.basins()` (outlets = all pits,
ids `1..k`); a size-1 array is broadcast; another size raises (`none`) -/
def basinBounds (ds : Array Nat) (seq pits : List Nat) (basins : Option (Array Int))
    (ncol : Nat) (x0 y0 xres yres : Int) : Option (List Int × List BBox × BBox) :=
  let reg := match basins with
    | none => some (basinsModel ds seq pits (defaultIds pits.length))
    | some b => checkData ds.size b
  reg.bind (regionBounds ncol x0 y0 xres yres)

/-- independent definition of the doubled bounding box of label `l`: hull of the cell rectangles
`[x0 + xres*c, x0 + xres*(c+1)] × [y0 + yres*r, y0 + yres*(r+1)]` of all cells with that label -/
def hullSpec (ncol : Nat) (x0 y0 xres yres : Int) (regions : Array Int) (l : Int) : Option BBox :=
  let cells := (List.range regions.size).filter fun i => regions[i]! == l
  match cells with
  | [] => none
  | i0 :: _ =>
    let xl := fun (i : Nat) => min (2 * (x0 + xres * ((i % ncol : Nat) : Int))) (2 * (x0 + xres * (((i % ncol : Nat) : Int) + 1)))
    let xh := fun (i : Nat) => max (2 * (x0 + xres * ((i % ncol : Nat) : Int))) (2 * (x0 + xres * (((i % ncol : Nat) : Int) + 1)))
    let yl := fun (i : Nat) => min (2 * (y0 + yres * ((i / ncol : Nat) : Int))) (2 * (y0 + yres * (((i / ncol : Nat) : Int) + 1)))
    let yh := fun (i : Nat) => max (2 * (y0 + yres * ((i / ncol : Nat) : Int))) (2 * (y0 + yres * (((i / ncol : Nat) : Int) + 1)))
    some (listMin (cells.map xl) (xl i0), listMin (cells.map yl) (yl i0),
          listMax (cells.map xh) (xh i0), listMax (cells.map yh) (yh i0))

/-! ### the snapping path of `FlwdirRaster.basins(idxs=… | xy=…, streams=mask, ids=…)` -/

/-- `snap(idxs, mask=streams)[0]` for one outlet: the last cell of the trace that stops at the first
`True` cell of `streams`, at a pit, or at a cell without downstream cell -/
def snapTo (ds : Array Nat) (streams : Array Bool) (fuel o : Nat) : Option Nat :=
  (snapOne ds (some streams) none (stepConst 1) fuel o).map (·.1)

/-- declarative target: the first cell of the walk from `o` that is flagged, a pit, or has no
downstream cell (searched below `fuel`) -/
def snapSpec (ds : Array Nat) (streams : Array Bool) (fuel o : Nat) : Option Nat :=
  (leastFrom (fun m => streams[iterA ds m o]! || ds[iterA ds m o]! == iterA ds m o ||
    ds[iterA ds m o]! == ds.size) fuel 0).map fun m => iterA ds m o

inductive Err | valueError | indexError | fuel
  deriving DecidableEq, Repr

/-- the `ids` checks of `FlwdirRaster.basins` -/
def checkIds (k : Nat) (ids : Option (List Int)) : Except Err (List Int) :=
  match ids with
  | none => .ok (defaultIds k)
  | some l => if l.length ≠ k then .error .valueError else if l.any (· == 0) then .error .valueError else .ok l

/-- `FlwdirRaster.basins(idxs=outlets, streams=streams, ids=ids)`; `idxs=None` means all pits (and
`streams` is then not looked at) -/
def basinsRaster (ds : Array Nat) (seq pits : List Nat) (idxs : Option (List Nat))
    (streams : Option (Array Bool)) (ids : Option (List Int)) (fuel : Nat) : Except Err (Array Int) := do
  let outlets ← match idxs with
    | none => pure pits
    | some os =>
      match streams with
      | none => pure os
      | some s =>
        match checkData ds.size s with
        | none => throw Err.valueError
        | some s' =>
          match os.mapM (snapTo ds s' fuel) with
          | none => throw Err.fuel
          | some sn => pure sn
  let ids' ← checkIds outlets.length ids
  pure (basinsModel ds seq outlets ids')

/-- `FlwdirRaster.basins(xy=(xs, ys), streams=streams, ids=ids)`: `coords_to_idxs` first
(`IndexError` if any point lies outside the raster) -/
def basinsRasterXY (nrow ncol : Nat) (x0 y0 xres yres : Int) (xs ys : List Int)
    (ds : Array Nat) (seq pits : List Nat) (streams : Option (Array Bool)) (ids : Option (List Int))
    (fuel : Nat) : Except Err (Array Int) :=
  match (xs.zip ys).mapM (fun p => cellOf nrow ncol x0 y0 xres yres p.1 p.2) with
  | none => .error .indexError
  | some os => basinsRaster ds seq pits (some os) streams ids fuel

end Pf.C05x
