import PfVerif.Model.C16_mach
import PfVerif.Model.C03
import PfVerif.Model.C08
import PfVerif.Model.C18
/-! # C16 extension `C16_val` — capacity of the fixed-width VALUE arrays

`Model/C16_mach.lean` reads the INDEX arrays as machine integers. The kernels also allocate VALUE arrays
with a dtype that does not follow the index dtype:

| kernel | array | dtype |
|---|---|---|
| `core.rank` | `ranks` (`-9999`, `-1`, steps to the pit) | `int32` |
| `core.upstream_count` | `n_up` (`-9`, number of inflows) | `int32` |
| `streams.strahler_order`, `streams.stream_order` | `strord`, `strmax` | `uint8` |
| `basins.basins` | `ids = arange(1, npits+1)` | `uint32` |
| `basins.subbasins_streamorder` / `subbasins_area` | labels `1..#outlets` | `int32` / `uint32` |
| `basins.subbasins_pfafstetter` | `pfaf_branch` (`pfaf0 + (i+1)*10**depth`) | `int32` |
| `streams.stream_distance(real_length=False)` | cell counts | `int32` |
| `dem.floodplains`, `upscale.upscale_error` | flags `-1, 0, 1` | `int8` |
| `dem.fill_depressions` | heap entries `(r, c)` | `uint32` |
| `dem._adjust_elevation` | `np.arange(i, j, dtype=np.uint32)` positions along a stream | `uint32` |

The kernel models (`Model/C03.lean`, `C08.lean`, `C18.lean`, …) compute these values in `Int` / `Nat`.
This file gives the machine reading: a value dtype (`ValTy` = width + signedness, the same structure as
the index dtypes), the store into the array (`store` = C cast = truncation to `w` bits; this is what an
assignment of an `int64` to an array element does under Numba and what NumPy scalar arithmetic at the
dtype does), the load (`load` = two's complement / unsigned reading) and the capacity predicate `Fits`.
`wrapZ` is the closed form of `load ∘ store`. Machine-level versions of the three loops that do
arithmetic AT the value dtype (`rnk += 1` on `int32`, `strord[idx_ds] + 1` on `uint8`, `dist[idx_ds] + 1`
on `int32`) are given width-generically (`classicOrderW`, `chainCountM`).

Core Lean only. -/
namespace Pf.C16v
open Pf Pf.C16m

/-- a value dtype: width and signedness -/
abbrev ValTy := IdxTy

@[reducible] def i8 : ValTy := ⟨8, true⟩
@[reducible] def u8 : ValTy := ⟨8, false⟩

/-- least / largest number of the dtype -/
def lo (t : ValTy) : Int := if t.signed then -((2 ^ (t.w - 1) : Nat) : Int) else 0
def hi (t : ValTy) : Int := if t.signed then ((2 ^ (t.w - 1) : Nat) : Int) - 1 else ((2 ^ t.w : Nat) : Int) - 1

/-- the number is representable -/
def Fits (t : ValTy) (x : Int) : Prop := lo t ≤ x ∧ x ≤ hi t

instance (t : ValTy) (x : Int) : Decidable (Fits t x) := by unfold Fits; exact inferInstance

/-- `arr[i] = x`: C cast of a (wide) integer to the element type, i.e. truncation to `w` bits -/
def store (t : ValTy) (x : Int) : BitVec t.w := BitVec.ofInt t.w x

/-- reading an element: two's complement for the signed types -/
def load (t : ValTy) (v : BitVec t.w) : Int := val t v

/-- closed form of store-then-load: the representative of `x` modulo `2^w` in the dtype's range -/
def wrapZ (t : ValTy) (x : Int) : Int :=
  if t.signed then x.bmod (2 ^ t.w) else x % ((2 ^ t.w : Nat) : Int)

def storeArr (t : ValTy) (a : Array Int) : Array (BitVec t.w) := a.map (store t)
def loadArr (t : ValTy) (a : Array (BitVec t.w)) : Array Int := a.map (load t)

/-- every entry of the (unbounded) model array is representable -/
def FitsArr (t : ValTy) (a : Array Int) : Prop := ∀ x ∈ a, Fits t x

def fitsArrB (t : ValTy) (a : Array Int) : Bool := a.toList.all fun x => decide (Fits t x)

/-! ## loops that do arithmetic at the value dtype -/

/-- `rnk += 1` / `dist[idx_ds] + d` / `strord[idx_ds] + 1` at the element type: machine addition -/
def incM {w : Nat} (v : BitVec w) : BitVec w := v + 1

/-- the counter of `core.rank` (`rnk = np.int32(-1)` at the pit, then `rnk += 1` per popped cell) and of
`streams.stream_distance(real_length=False)` (`dist[idx0] = dist[idx_ds] + 1`, pit 0) along a flow
path: the machine value after `k` increments from `start` -/
def chainCountM {w : Nat} (start : BitVec w) : Nat → BitVec w
  | 0 => start
  | k+1 => incM (chainCountM start k)

/-- `streams.stream_order` with `strord` of an unsigned dtype of `w` bits: `strord[idx_ds] + 1` stored
into the array wraps modulo `2^w` (`w = 8` is the code: `Pf.gClassicU8`) -/
def gClassicW (w : Nat) (ds : Array Nat) (nup : Array Int) (usMain : Array Nat) (mask : Option (Array Bool))
    (i : Nat) (own dsv : Nat) : Nat :=
  if !maskAt mask i then own
  else if ds[i]! = i then 1
  else if nup[ds[i]!]! > 1 ∧ usMain[ds[i]!]! ≠ i then (dsv + 1) % 2 ^ w
  else dsv

def classicOrderW (w : Nat) (ds : Array Nat) (seq : List Nat) (usMain : Array Nat)
    (mask : Option (Array Bool)) : Array Nat :=
  sweepDown ds (gClassicW w ds (upstreamCount ds mask) usMain mask) seq (Array.replicate ds.size 0)

/-! ## Pfafstetter seeds -/

/-- the label written for pit number `i` (0-based) before the final `% 10**depth`:
`pfaf1 = pfaf0 + (i + 1) * 10**depth` (the expression of `Pf.pfPits`) -/
def pfafSeed (depth i : Nat) : Int := pfBase depth + ((i : Int) + 1) * (10 : Int) ^ depth

/-- largest label a subbasin or interbasin of a pit label can get: all further digits 9 -/
def pfafMax (depth npits : Nat) : Int := ((npits : Int) + 1) * (10 : Int) ^ depth - 1

/-! ## heap entries and positions -/

/-- the `(np.uint32(r), np.uint32(c))` heap entries of `dem.fill_depressions` and the
`np.arange(i, j, dtype=np.uint32)` positions of `dem._adjust_elevation`: a `Nat` stored as `uint32` -/
def storeNat (t : ValTy) (k : Nat) : BitVec t.w := BitVec.ofNat t.w k

end Pf.C16v
