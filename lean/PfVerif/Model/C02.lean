import PfVerif.Model.C01
/-! # C02 — re-encoding (`to_array` ×3) and the direct D8 ↔ LDD value remapping

Models of `core_d8.to_array`, `core_ldd.to_array`, `core_nextxy._to_array`, `FlwdirRaster.to_array` and
`core_conversion.d8_to_ldd / ldd_to_d8`; declarative canonical forms in `Pf.Fd.Spec`.
Core Lean only; does not import `PfVerif.Generated`. A network on a raster is `ds : Array Nat` of size
`n = nrow * ncol`, `ds[i] = n` on cells outside the graph (the code's `mv`). -/
namespace Pf.Fd

/-- `core_d8._ds`, `core_ldd._ds` (3×3, row-major: index `(dr + 1) * 3 + (dc + 1)`) as the model reads them -/
def d8DsTab : Array Nat := #[32, 64, 128, 16, 0, 1, 8, 4, 2]
def lddDsTab : Array Nat := #[7, 8, 9, 4, 5, 6, 1, 2, 3]

/-- `dr = int32(idx_ds // ncol) - int32(idx0 // ncol)`, `dc = int32(idx_ds % ncol) - int32(idx0 % ncol)` -/
def drOf (ncol idx0 idx_ds : Nat) : Int := ((idx_ds / ncol : Nat) : Int) - ((idx0 / ncol : Nat) : Int)
def dcOf (ncol idx0 idx_ds : Nat) : Int := ((idx_ds % ncol : Nat) : Int) - ((idx0 % ncol : Nat) : Int)

/-- `dr >= -1 and dr <= 1 and dc >= -1 and dc <= 1` -/
def in8 (dr dc : Int) : Bool := decide (dr ≥ -1) && decide (dr ≤ 1) && decide (dc ≥ -1) && decide (dc ≤ 1)

/-- the loop of `core_d8.to_array` / `core_ldd.to_array` over the remaining cells; `.error "ValueError"` is
`raise ValueError("Invalid data downstream index outside 8 neighbors.")` -/
def toArrayLoop (tab : Array Nat) (ncol : Nat) (ds : Array Nat) : List Nat → Array Nat → Except String (Array Nat)
  | [], flw => .ok flw
  | idx0 :: rest, flw =>
    let idx_ds := ds[idx0]!
    if idx_ds = ds.size then toArrayLoop tab ncol ds rest flw          -- continue
    else
      let dr := drOf ncol idx0 idx_ds
      let dc := dcOf ncol idx0 idx_ds
      if in8 dr dc then
        toArrayLoop tab ncol ds rest (flw.setIfInBounds idx0 tab[((dr + 1) * 3 + (dc + 1)).toNat]!)
      else .error "ValueError"

/-- `core_x.to_array(idxs_ds, shape, mv)` for the table formats (flat result) -/
def toArrayTab (tab : Array Nat) (mv : Nat) (ncol : Nat) (ds : Array Nat) : Except String (Array Nat) :=
  toArrayLoop tab ncol ds (List.range ds.size) (Array.replicate ds.size mv)

def toArrayD8 := toArrayTab d8DsTab d8Mv
def toArrayLdd := toArrayTab lddDsTab lddMv

/-- body of the loop of `core_nextxy._to_array` -/
def toXYStep (ncol : Nat) (ds : Array Nat) (st : Array Int × Array Int) (idx0 : Nat) : Array Int × Array Int :=
  let idx_ds := ds[idx0]!
  if idx_ds = ds.size then st                                          -- continue
  else if idx0 = idx_ds then (st.1.setIfInBounds idx0 xyPv0, st.2.setIfInBounds idx0 xyPv0)
  else (st.1.setIfInBounds idx0 ((idx_ds % ncol : Nat) + 1), st.2.setIfInBounds idx0 ((idx_ds / ncol : Nat) + 1))

/-- `core_nextxy._to_array`: `(nextx, nexty)` -/
def toArrayXY (ncol : Nat) (ds : Array Nat) : Array Int × Array Int :=
  (List.range ds.size).foldl (toXYStep ncol ds) (Array.replicate ds.size xyMv, Array.replicate ds.size xyMv)

/-- `FlwdirRaster.to_array(ftype)` and re-parsing with `core_x.from_array` -/
def toArray (t : Ftype) (nrow ncol : Nat) (ds : Array Nat) : Except String Data :=
  match t with
  | .d8 => (toArrayD8 ncol ds).map (Data.u8 nrow ncol)
  | .ldd => (toArrayLdd ncol ds).map (Data.u8 nrow ncol)
  | .nextxy => .ok (.xy nrow ncol (toArrayXY ncol ds).1 (toArrayXY ncol ds).2)

/-! ### `core_conversion` -/

/-- the `remap` dictionary of `d8_to_ldd` as an association list in override order (`dict.update` entries
first), default `core_ldd._mv` -/
def d8ToLdd (v : Nat) : Nat :=
  (([(255, 5), (d8Mv, lddMv)] ++ d8DsTab.toList.zip lddDsTab.toList).lookup v).getD lddMv

def lddToD8 (v : Nat) : Nat :=
  (([(5, 0), (lddMv, d8Mv)] ++ lddDsTab.toList.zip d8DsTab.toList).lookup v).getD d8Mv

/-! ### specification -/
namespace Spec

/-- network on an `nrow × ncol` raster: one entry per cell, entries are cells or the sentinel, and the
downstream cell of a cell of the network is in the network -/
structure RasterNet (nrow ncol : Nat) (ds : Array Nat) : Prop where
  size : ds.size = nrow * ncol
  closed : ∀ i, i < nrow * ncol → ds[i]! ≤ nrow * ncol ∧ (ds[i]! < nrow * ncol → ds[ds[i]!]! < nrow * ncol)

/-- every link joins a cell to itself or one of its 8 neighbours -/
def D8links (ncol : Nat) (ds : Array Nat) : Prop :=
  ∀ i, i < ds.size → ds[i]! < ds.size →
    -1 ≤ drOf ncol i ds[i]! ∧ drOf ncol i ds[i]! ≤ 1 ∧ -1 ≤ dcOf ncol i ds[i]! ∧ dcOf ncol i ds[i]! ≤ 1

/-- executable version of `D8links` -/
def d8links (ncol : Nat) (ds : Array Nat) : Bool :=
  (List.range ds.size).all fun i => ds[i]! ≥ ds.size || in8 (drOf ncol i ds[i]!) (dcOf ncol i ds[i]!)

/-- the code that denotes the link `i → j` in a table format: the entry of the compass table with that
delta; the primary pit code when `j = i` -/
def codeOf (dirs : List (Nat × (Int × Int))) (pit0 : Nat) (dr dc : Int) : Option Nat :=
  if dr = 0 ∧ dc = 0 then some pit0 else (dirs.find? fun p => p.2 == (dr, dc)).map (·.1)

/-- declarative encoding of a network in a table format (`none`: some link is not an 8-neighbour link) -/
def encodeTab (dirs : List (Nat × (Int × Int))) (pit0 mv : Nat) (ncol : Nat) (ds : Array Nat) : Option (Array Nat) :=
  ((List.range ds.size).mapM fun i =>
    if ds[i]! = ds.size then some mv else codeOf dirs pit0 (drOf ncol i ds[i]!) (dcOf ncol i ds[i]!)).map List.toArray

def encodeD8 := encodeTab d8Dirs 0 d8Nodata
def encodeLdd := encodeTab lddDirs 5 lddNodata

/-- declarative NEXTXY encoding: one-based column / row of the downstream cell, (-9, -9) at pits -/
def encodeXY (ncol : Nat) (ds : Array Nat) : Array Int × Array Int :=
  let f := fun (sel : Nat → Int) =>
    ((List.range ds.size).map fun i =>
      if ds[i]! = ds.size then xyNodata else if ds[i]! = i then (-9 : Int) else sel ds[i]!).toArray
  (f fun j => (j % ncol : Nat) + 1, f fun j => (j / ncol : Nat) + 1)

/-- **documented canonicalisation** of a table raster: nodata stays nodata, every cell that decodes to a
pit (pit variants, off-grid pointers, pointers into nodata) gets the primary pit code, every other cell
keeps its code -/
def canonTab (pit0 mv : Nat) (nrow ncol : Nat) (read : Nat → Code) (codes : Array Nat) : Array Nat :=
  ((List.range (nrow * ncol)).map fun i =>
    if dsOf nrow ncol read i = nrow * ncol then mv
    else if dsOf nrow ncol read i = i then pit0 else codes[i]!).toArray

/-- canonicalisation of a NEXTXY raster: pits become (-9, -9), other cells keep (x, y) -/
def canonXY (nrow ncol : Nat) (xs ys : Array Int) : Array Int × Array Int :=
  let rd := readXY xs ys
  let f := fun (a : Array Int) =>
    ((List.range (nrow * ncol)).map fun i =>
      if dsOf nrow ncol rd i = nrow * ncol then xyNodata
      else if dsOf nrow ncol rd i = i then (-9 : Int) else a[i]!).toArray
  (f xs, f ys)

/-- position-independent meaning of a table code: `none` = nodata, `some none` = pit, `some (some d)` = delta -/
def meaning (dirs : List (Nat × (Int × Int))) (pits : List Nat) (mv : Nat) (v : Nat) : Option (Option (Int × Int)) :=
  if v = mv then none else if v ∈ pits then some none else (dirs.lookup v).map some

def meaningD8 := meaning d8Dirs d8Pits d8Nodata
def meaningLdd := meaning lddDirs lddPits lddNodata

end Spec
end Pf.Fd
