import PfVerif.Model.Core
/-! # C13_bounds - access-logging variants of the `core.py` models

The models of `Model/Core.lean` read arrays with `a[i]!`, which silently returns a default outside the
array, so "never reads or writes outside an array" is not intrinsic to them. Every kernel below is the
model of `Model/Core.lean` again, loop for loop, with one extra component: the list of *accesses*
`(array, index, size of that array at the moment of the access)` in the order (reversed: newest first)
and under the short-circuit evaluation of the Python source (`pyflwdir/core.py`). `Props/C13_bounds.lean`
proves (i) the first component is the original model, (ii) every logged index is `<` the logged size on
the documented domain. Core Lean only (the driver prints the logs). -/
namespace Pf.C13b
open Pf

/-- the arrays of `core.py` that are indexed with a computed scalar -/
inductive Arr
  | ds        -- `idxs_ds`
  | mask      -- `mask`
  | nup       -- `n_up` (created inside `upstream_count`)
  | uparea    -- `uparea`
  | upaMain   -- `upa_main` (created inside `main_upstream`)
  | usMain    -- `idxs_us_main` (created inside `main_upstream`; argument of `_window`)
  | ranks     -- `ranks` (created inside `rank`)
  | strord    -- `strord`
  | nxt       -- `idxs_nxt` of `_trace`
  | seqOut    -- `idxs_seq` (created inside `idxs_seq`)
  | win       -- `idxs` (created inside `_window`, `2n+1` slots)
  deriving DecidableEq, Repr, Inhabited

structure Acc where
  arr : Arr
  idx : Nat
  size : Nat
  deriving DecidableEq, Repr, Inhabited

/-- the access `xs[i]` (read or write) of the array named `a` -/
def acc {α : Type} (a : Arr) (xs : Array α) (i : Nat) : Acc := ⟨a, i, xs.size⟩

/-- every logged index addresses a slot of its array -/
def InB (log : List Acc) : Prop := ∀ e ∈ log, e.idx < e.size

instance (log : List Acc) : Decidable (InB log) := by unfold InB; infer_instance

/-- the indices at which array `a` was touched -/
def touched (a : Arr) (log : List Acc) : List Nat := (log.filter (·.arr == a)).map (·.idx)

/-- optional-array access: nothing is touched when the argument is `None` -/
def accOpt {α : Type} (a : Arr) (xs : Option (Array α)) (i : Nat) (log : List Acc) : List Acc :=
  match xs with
  | none => log
  | some m => acc a m i :: log

/-! ### `upstream_count` -/

def upstreamCountStepL (ds : Array Nat) (mask : Option (Array Bool)) (st : Array Int × List Acc) (idx0 : Nat) :
    Array Int × List Acc :=
  let nup := st.1
  let log := acc .ds ds idx0 :: st.2                       -- idx_ds = idxs_ds[idx0]
  let d := ds[idx0]!
  if d ≠ ds.size then
    let log := acc .nup nup idx0 :: log                    -- n_up[idx0] = max(n_up[idx0], 0)
    let nup1 := nup.setIfInBounds idx0 (max nup[idx0]! 0)
    let log := accOpt .mask mask idx0 log                  -- mask is None or mask[idx0]
    if idx0 ≠ d ∧ maskAt mask idx0 then
      (nup1.setIfInBounds d (max nup1[d]! 0 + 1), acc .nup nup1 d :: log)   -- n_up[idx_ds] = …
    else (nup1, log)
  else (nup, log)

def upstreamCountL (ds : Array Nat) (mask : Option (Array Bool)) : Array Int × List Acc :=
  (List.range ds.size).foldl (upstreamCountStepL ds mask) (Array.replicate ds.size (-9), [])

/-! ### `main_upstream` -/

def mainUpstreamStepL (ds : Array Nat) (uparea : Array Int) (st : (Array Nat × Array Int) × List Acc) (idx0 : Nat) :
    (Array Nat × Array Int) × List Acc :=
  let um := st.1.1
  let upa := st.1.2
  let log := acc .ds ds idx0 :: st.2
  let d := ds[idx0]!
  if d = idx0 ∨ d = ds.size then (st.1, log)
  else
    let log := acc .upaMain upa d :: acc .uparea uparea idx0 :: log       -- uparea[idx0] > upa_main[idx_ds]
    if uparea[idx0]! > upa[d]! then
      ((um.setIfInBounds d idx0, upa.setIfInBounds d uparea[idx0]!),
        acc .upaMain upa d :: acc .uparea uparea idx0 :: acc .usMain um d :: log)
    else (st.1, log)

def mainUpstreamL (ds : Array Nat) (uparea : Array Int) (upaMin : Int) : Array Nat × List Acc :=
  let r := (List.range ds.size).foldl (mainUpstreamStepL ds uparea)
    ((Array.replicate ds.size ds.size, Array.replicate ds.size upaMin), [])
  (r.1.1, r.2)

/-! ### `pit_indices` -/

def pitIndicesL (ds : Array Nat) : List Nat × List Acc :=
  (List.range ds.size).foldr (fun i st =>
    (if ds[i]! == i then i :: st.1 else st.1, acc .ds ds i :: st.2)) ([], [])

/-! ### `_trace` -/

def traceL (nxt : Array Nat) (mask : Option (Array Bool)) (maxLen : Option Int)
    (step : Nat → Nat → Int) : Nat → Nat → List Nat → Int → List Acc → Option ((List Nat × Int) × List Acc)
  | 0, _, _, _, _ => none
  | fuel+1, idx0, acc0, dist, log =>
    let log := accOpt .mask mask idx0 log                   -- while mask is None or mask[idx0] == False
    let stop := match mask with
      | none => false
      | some m => m[idx0]!
    if stop then some ((acc0.reverse, dist), log) else
    let log := acc .nxt nxt idx0 :: log                     -- idx1 = idxs_nxt[idx0]
    let idx1 := nxt[idx0]!
    if idx1 = idx0 ∨ idx1 = nxt.size then some ((acc0.reverse, dist), log) else
    let d := step idx0 idx1
    let over := match maxLen with
      | none => false
      | some ml => decide (dist + d > ml)
    if over then some ((acc0.reverse, dist), log)
    else traceL nxt mask maxLen step fuel idx1 (idx1 :: acc0) (dist + d) log

def traceFromL (nxt : Array Nat) (mask : Option (Array Bool)) (maxLen : Option Int)
    (step : Nat → Nat → Int) (fuel : Nat) (idx0 : Nat) : Option ((List Nat × Int) × List Acc) :=
  traceL nxt mask maxLen step fuel idx0 [idx0] 0 []

/-! ### `_window`

`w` is the half width (`n` of the code), the result array `idxs` has `2w+1` slots; `pos` is the slot
written next by the downstream loop (`n + i + 1`); the upstream loop writes slot `n - i - 1`, which is
the remaining count `k` of the model. -/

def windowDownL (ds : Array Nat) (strord : Option (Array Int)) (strord0 : Int) (w : Nat) :
    Nat → Nat → Nat → List Nat → List Acc → List Nat × List Acc
  | 0, _, _, acc0, log => (acc0.reverse, log)
  | k+1, pos, idx0, acc0, log =>
    let log := acc .ds ds idx0 :: log                       -- idx_ds = idxs_ds[idx0]
    let d := ds[idx0]!
    if d = idx0 ∨ d = ds.size then (acc0.reverse, log)      -- idx_ds == idx0 or idx_ds == mv or …
    else
      let log := accOpt .strord strord d log                --   … strord is not None and strord[idx_ds] > strord0
      let higher := match strord with
        | none => false
        | some s => decide (s[d]! > strord0)
      if higher = true then (acc0.reverse, log)
      else windowDownL ds strord strord0 w k (pos + 1) d (d :: acc0) (⟨.win, pos, 2 * w + 1⟩ :: log)

def windowUpL (ds usMain : Array Nat) (w : Nat) : Nat → Nat → List Nat → List Acc → List Nat × List Acc
  | 0, _, acc0, log => (acc0, log)
  | k+1, idx0, acc0, log =>
    let log := acc .usMain usMain idx0 :: log               -- idx_us = idxs_us_main[idx0]
    let u := usMain[idx0]!
    if u = ds.size then (acc0, log)
    else windowUpL ds usMain w k u (u :: acc0) (⟨.win, k, 2 * w + 1⟩ :: log)   -- idxs[n - i - 1] = idx0

def windowL (ds usMain : Array Nat) (strord : Option (Array Int)) (n idx0 : Nat) : List Nat × List Acc :=
  let log : List Acc := [⟨.win, n, 2 * n + 1⟩]              -- idxs[n] = idx0
  let log := accOpt .strord strord idx0 log                 -- strord0 = 0 if strord is None else strord[idx0]
  let s0 : Int := match strord with
    | none => 0
    | some s => s[idx0]!
  let dn := windowDownL ds strord s0 n n (n + 1) idx0 [] log
  let up := windowUpL ds usMain n n idx0 [] (⟨.win, n, 2 * n + 1⟩ :: dn.2)      -- idx0 = idxs[n]
  (up.1 ++ [idx0] ++ dn.1, up.2)

/-- the HISTORICAL `_window` (defect F16c / C13-16): `strord[idx_ds] > strord0` is evaluated before
`idx_ds == mv`, so the missing value is used as an index -/
def windowDownBadL (ds : Array Nat) (strord : Option (Array Int)) (strord0 : Int) (w : Nat) :
    Nat → Nat → Nat → List Nat → List Acc → List Nat × List Acc
  | 0, _, _, acc0, log => (acc0.reverse, log)
  | k+1, pos, idx0, acc0, log =>
    let log := acc .ds ds idx0 :: log
    let d := ds[idx0]!
    let log := accOpt .strord strord d log                  -- strord[idx_ds] first
    let higher := match strord with
      | none => false
      | some s => decide (s[d]! > strord0)
    if higher = true ∨ d = idx0 ∨ d = ds.size then (acc0.reverse, log)
    else windowDownBadL ds strord strord0 w k (pos + 1) d (d :: acc0) (⟨.win, pos, 2 * w + 1⟩ :: log)

/-- a `_trace` that reads the mask of the NEXT cell before testing `idx1 == mv` (the same defect class
on the trace side) -/
def traceBadL (nxt : Array Nat) (mask : Array Bool) : Nat → Nat → List Nat → List Acc → Option (List Nat × List Acc)
  | 0, _, _, _ => none
  | fuel+1, idx0, acc0, log =>
    let log := acc .nxt nxt idx0 :: log
    let idx1 := nxt[idx0]!
    let log := acc .mask mask idx1 :: log                   -- mask[idx1] before idx1 == mv
    if mask[idx1]! ∨ idx1 = idx0 ∨ idx1 = nxt.size then some (acc0.reverse, log)
    else traceBadL nxt mask fuel idx1 (idx1 :: acc0) log

/-! ### `rank`, `loop_indices` -/

def rankAssignL (ranks : Array Int) : List Nat → Int → List Acc → (Array Int × Nat) × List Acc
  | [], _, log => ((ranks, 0), log)
  | i :: rest, rnk, log =>
    let r := rankAssignL (ranks.setIfInBounds i (rnk + 1)) rest (rnk + 1) (acc .ranks ranks i :: log)
    ((r.1.1, r.1.2 + 1), r.2)

def rankMarkLoopL (ranks : Array Int) (stack : List Nat) (log : List Acc) : Array Int × List Acc :=
  stack.foldl (fun st i => (st.1.setIfInBounds i (-1), acc .ranks st.1 i :: st.2)) (ranks, log)

def rankWalkL (ds : Array Nat) (ranks : Array Int) :
    Nat → Nat → Nat → List Nat → List Acc → Option ((Array Int × Nat) × List Acc)
  | 0, _, _, _, _ => none
  | fuel+1, idx0, idxds, stack, log =>
    let log := acc .ranks ranks idxds :: log                -- rnk = ranks[idx_ds]
    let rnk := ranks[idxds]!
    if rnk ≥ 0 then some (rankAssignL ranks stack rnk log)
    else if idxds = idx0 then some (rankAssignL ranks stack (-1) log)
    else if rnk = -1 ∨ idxds ∈ stack then
      let r := rankMarkLoopL ranks stack log
      some ((r.1, 0), r.2)
    else rankWalkL ds ranks fuel idxds ds[idxds]! (idxds :: stack) (acc .ds ds idxds :: log)

def rankStepL (ds : Array Nat) (st : (Array Int × Nat) × List Acc) (idx0 : Nat) :
    Option ((Array Int × Nat) × List Acc) :=
  let ranks := st.1.1
  let n := st.1.2
  let log := acc .ds ds idx0 :: st.2                        -- idx_ds = idxs_ds[idx0]
  if ds[idx0]! = ds.size then some ((ranks, n), log)        -- idx_ds == mv or …
  else
    let log := acc .ranks ranks idx0 :: log                 --   … ranks[idx0] != -9999
    if ranks[idx0]! ≠ -9999 then some ((ranks, n), log)
    else match rankWalkL ds ranks (ds.size + 1) idx0 ds[idx0]! [idx0] log with
      | none => none
      | some r => some ((r.1.1, n + r.1.2), r.2)

def rankL (ds : Array Nat) : Option ((Array Int × Nat) × List Acc) :=
  (List.range ds.size).foldlM (rankStepL ds) ((Array.replicate ds.size (-9999), 0), [])

def loopIndicesL (ds : Array Nat) : Option (List Nat × List Acc) :=
  (rankL ds).map fun r =>
    ((List.range ds.size).filter fun i => r.1.1[i]! == -1,
     (List.range ds.size).map (fun i => acc .ranks r.1.1 i) ++ r.2)

/-! ### `upstream_matrix` rows and `idxs_seq`

`upsOf` abstracts a row of `upstream_matrix` (a filter over all cells); its construction reads `idxs_ds`
at every cell. The output array `idxs_seq` has `n` slots: slot `i` is read at the start of iteration `i`
(`i` = number of cells already emitted), slot `j` is written for every enqueued cell (`j` = cells emitted
+ cells waiting). -/

def upsOfL (ds : Array Nat) (j : Nat) : List Nat × List Acc :=
  (upsOf ds j, (List.range ds.size).map fun i => acc .ds ds i)

/-- the writes `idxs_seq[j] = idx; j += 1` for a list of cells -/
def enqLog (n j : Nat) (cells : List Nat) (log : List Acc) : List Acc :=
  ((List.range cells.length).map fun k => (⟨.seqOut, j + k, n⟩ : Acc)).reverse ++ log

def seqWalkLoopL (ds : Array Nat) : Nat → List Nat → List Nat → List Acc → List Nat × List Acc
  | 0, _, acc0, log => (acc0.reverse, log)
  | _+1, [], acc0, log => (acc0.reverse, ⟨.seqOut, acc0.length, ds.size⟩ :: log)   -- reads mv, breaks
  | fuel+1, q :: rest, acc0, log =>
    let log := ⟨.seqOut, acc0.length, ds.size⟩ :: log       -- idx0 = idxs_seq[i]
    let ups := upsOf ds q
    seqWalkLoopL ds fuel (rest ++ ups) (q :: acc0)
      (enqLog ds.size (acc0.length + 1 + rest.length) ups log)

def idxsSeqL (ds : Array Nat) (pits : List Nat) : List Nat × List Acc :=
  seqWalkLoopL ds ds.size pits [] (enqLog ds.size 0 pits [])

end Pf.C13b
