import PfVerif.Core.FirstOutlet
/-! Executable models of `pyflwdir/core.py`, loop for loop. Core Lean only.

Conventions: a network is `ds : Array Nat` of size `n`; `ds[i] = n` encodes the missing value
(`-1`, `2^32-1`, `2^64-1` in the code); pits are fixed points. Optional arguments are `Option`. -/
namespace Pf

/-- the missing-value sentinel of a network of `n` cells -/
def mvOf (ds : Array Nat) : Nat := ds.size

def isValid (ds : Array Nat) (i : Nat) : Bool := i < ds.size && ds[i]! != ds.size
def isPit (ds : Array Nat) (i : Nat) : Bool := i < ds.size && ds[i]! == i

/-- k-fold downstream cell -/
def iterA (ds : Array Nat) : Nat → Nat → Nat
  | 0, i => i
  | k+1, i => iterA ds k (ds[i]!)

def maskAt (mask : Option (Array Bool)) (i : Nat) : Bool :=
  match mask with
  | none => true
  | some m => m[i]!

/-! ### `core.rank` -/

/-- second inner loop of `rank`: pop the stack, assigning `rnk+1, rnk+2, …` (stack head = last pushed) -/
def rankAssign (ranks : Array Int) : List Nat → Int → Array Int × Nat
  | [], _ => (ranks, 0)
  | i :: rest, rnk =>
    let (r, c) := rankAssign (ranks.setIfInBounds i (rnk + 1)) rest (rnk + 1)
    (r, c + 1)

def rankMarkLoop (ranks : Array Int) (stack : List Nat) : Array Int :=
  stack.foldl (fun r i => r.setIfInBounds i (-1)) ranks

/-- first inner `while True` of `rank`; `stack` holds `idxs_lst` (head = last appended) -/
def rankWalk (ds : Array Nat) (ranks : Array Int) : Nat → Nat → Nat → List Nat → Option (Array Int × Nat)
  | 0, _, _, _ => none
  | fuel+1, idx0, idxds, stack =>
    let rnk := ranks[idxds]!
    if rnk ≥ 0 then some (rankAssign ranks stack rnk)
    else if idxds = idx0 then some (rankAssign ranks stack (-1))
    else if rnk = -1 ∨ idxds ∈ stack then some (rankMarkLoop ranks stack, 0)
    else rankWalk ds ranks fuel idxds ds[idxds]! (idxds :: stack)

/-- `core.rank`: returns `(ranks, n)`; `none` only if the fuel `n+1` were exhausted -/
def rank (ds : Array Nat) : Option (Array Int × Nat) :=
  (List.range ds.size).foldlM (fun (st : Array Int × Nat) idx0 =>
    let (ranks, n) := st
    if ds[idx0]! = ds.size ∨ ranks[idx0]! ≠ -9999 then some (ranks, n)
    else match rankWalk ds ranks (ds.size + 1) idx0 ds[idx0]! [idx0] with
      | none => none
      | some (r, c) => some (r, n + c))
    (Array.replicate ds.size (-9999), 0)

/-! ### `core.upstream_count`, `upstream_matrix`, `idxs_seq` -/

/-- `upstream_count` (unbounded counter; the code uses int8). `-9` on missing cells. -/
def upstreamCount (ds : Array Nat) (mask : Option (Array Bool)) : Array Int :=
  (List.range ds.size).foldl (fun nup idx0 =>
    let d := ds[idx0]!
    if d ≠ ds.size then
      let nup := nup.setIfInBounds idx0 (max nup[idx0]! 0)
      if idx0 ≠ d ∧ maskAt mask idx0 then nup.setIfInBounds d (max nup[d]! 0 + 1) else nup
    else nup) (Array.replicate ds.size (-9))

/-- a row of `upstream_matrix`: the inflowing cells of `j` in increasing index order -/
def upsOf (ds : Array Nat) (j : Nat) : List Nat :=
  (List.range ds.size).filter fun i => ds[i]! == j && i != j && ds[i]! != ds.size

/-- the `while i < idxs_seq.size` loop of `idxs_seq` (breadth-first from the pits) -/
def seqWalkLoop (ds : Array Nat) : Nat → List Nat → List Nat → List Nat
  | 0, _, acc => acc.reverse
  | _+1, [], acc => acc.reverse
  | fuel+1, q :: rest, acc => seqWalkLoop ds fuel (rest ++ upsOf ds q) (q :: acc)

def idxsSeq (ds : Array Nat) (pits : List Nat) : List Nat :=
  seqWalkLoop ds ds.size pits []

/-! ### `fillnodata_upstream` (`fillnodata_downstream` is modelled in Model/C14.lean) -/


def fillnodataUpstream (ds : Array Nat) (seq : List Nat) (data : Array Int) (nodata : Int) : Array Int :=
  sweepDown ds (gFillNd nodata) seq data

/-! ### `main_upstream` -/

/-- returns `idxs_us_main` (`n` = none); `uparea`, `upa_min` are rationals scaled to integers by the harness -/
def mainUpstream (ds : Array Nat) (uparea : Array Int) (upaMin : Int) : Array Nat :=
  ((List.range ds.size).foldl (fun (st : Array Nat × Array Int) idx0 =>
    let (um, upa) := st
    let d := ds[idx0]!
    if d = idx0 ∨ d = ds.size then st
    else if uparea[idx0]! > upa[d]! then (um.setIfInBounds d idx0, upa.setIfInBounds d uparea[idx0]!)
    else st) (Array.replicate ds.size ds.size, Array.replicate ds.size upaMin)).1

/-! ### `pit_indices`, `loop_indices` -/

def pitIndices (ds : Array Nat) : List Nat :=
  (List.range ds.size).filter fun i => ds[i]! == i

def loopIndices (ds : Array Nat) : Option (List Nat) :=
  (rank ds).map fun (r, _) => (List.range ds.size).filter fun i => r[i]! == -1

/-! ### `_trace`, `path`, `snap`, `_window` -/

/-- `_trace` with step length function `step i j` (1 per step in cell units) and optional
`max_length`; lengths are integers scaled by the harness. Returns (cells, dist); `none` = fuel. -/
def trace (nxt : Array Nat) (mask : Option (Array Bool)) (maxLen : Option Int)
    (step : Nat → Nat → Int) : Nat → Nat → List Nat → Int → Option (List Nat × Int)
  | 0, _, _, _ => none
  | fuel+1, idx0, acc, dist =>
    let stop := match mask with
      | none => false
      | some m => m[idx0]!
    if stop then some (acc.reverse, dist) else
    let idx1 := nxt[idx0]!
    if idx1 = idx0 ∨ idx1 = nxt.size then some (acc.reverse, dist) else
    let d := step idx0 idx1
    let over := match maxLen with
      | none => false
      | some ml => decide (dist + d > ml)
    if over then some (acc.reverse, dist)
    else trace nxt mask maxLen step fuel idx1 (idx1 :: acc) (dist + d)

def traceFrom (nxt : Array Nat) (mask : Option (Array Bool)) (maxLen : Option Int)
    (step : Nat → Nat → Int) (fuel : Nat) (idx0 : Nat) : Option (List Nat × Int) :=
  trace nxt mask maxLen step fuel idx0 [idx0] 0

/-- `_window`: `2n+1` slots, `ds.size` = empty -/
def windowDown (ds : Array Nat) (strord : Option (Array Int)) (strord0 : Int) :
    Nat → Nat → List Nat → List Nat
  | 0, _, acc => acc.reverse
  | k+1, idx0, acc =>
    let d := ds[idx0]!
    let higher := match strord with
      | none => false
      | some s => decide (s[d]! > strord0)
    if d = idx0 ∨ d = ds.size ∨ higher = true then acc.reverse
    else windowDown ds strord strord0 k d (d :: acc)

def windowUp (ds usMain : Array Nat) : Nat → Nat → List Nat → List Nat
  | 0, _, acc => acc
  | k+1, idx0, acc =>
    let u := usMain[idx0]!
    if u = ds.size then acc else windowUp ds usMain k u (u :: acc)

/-- the non-empty entries of `_window` from the most upstream to the most downstream cell -/
def window (ds usMain : Array Nat) (strord : Option (Array Int)) (n idx0 : Nat) : List Nat :=
  let s0 : Int := match strord with
    | none => 0
    | some s => s[idx0]!
  windowUp ds usMain n idx0 [] ++ [idx0] ++ windowDown ds strord s0 n idx0 []

/-! ### `inflow_idxs`, `outflow_idxs` -/

def outflowIdxs (ds : Array Nat) (seq : List Nat) (region : Array Bool) : List Nat :=
  ((seq.foldl (fun (st : Array Bool × List Nat) idx0 =>
    let (mask, acc) := st
    let d := ds[idx0]!
    if mask[d]! && region[idx0]! && (d == idx0 || !region[d]!) then
      (mask.setIfInBounds idx0 false, idx0 :: acc)
    else (mask.setIfInBounds idx0 mask[d]!, acc))
    (Array.replicate ds.size true, [])).2).reverse

def inflowIdxs (ds : Array Nat) (seq : List Nat) (region : Array Bool) : List Nat :=
  ((seq.foldr (fun idx0 (st : Array Bool × List Nat) =>
    let (mask, acc) := st
    let d := ds[idx0]!
    if idx0 ≠ d then
      if mask[idx0]! && region[d]! && !region[idx0]! then (mask.setIfInBounds d false, idx0 :: acc)
      else (mask.setIfInBounds d mask[idx0]!, acc)
    else st) (Array.replicate ds.size true, [])).2).reverse

/-! ### `flwdir_tuples` -/
def flwdirTuples (nxt : Array Nat) (mask : Option (Array Bool)) : List (Nat × Nat) :=
  ((List.range nxt.size).filter fun i => nxt[i]! != nxt.size && maskAt mask i).map fun i => (i, nxt[i]!)

/-! ### order predicates (executable versions of `Topo`) -/

/-- executable check of `Topo ds seq` plus range: every cell in range, not seen before, and its
downstream cell is itself or was seen before -/
def isTopoAux (ds : Array Nat) : List Nat → Array Bool → Bool
  | [], _ => true
  | i :: rest, seen =>
    i < ds.size && !seen[i]! && (ds[i]! == i || (ds[i]! < ds.size && seen[ds[i]!]!)) &&
      isTopoAux ds rest (seen.setIfInBounds i true)

def isTopo (ds : Array Nat) (seq : List Nat) : Bool :=
  isTopoAux ds seq (Array.replicate ds.size false)

end Pf
