import PfVerif.Model.C11
/-! Model-side definitions of the `C11_fn` extension (translator tie for the `while` loop of `core._trace`).
Core Lean only; never imports `Generated`.

`genStep` is the step-length function the CODE of `_trace` uses, written over the flags the code tests: the loop
re-computes `d` with `gis_utils.distance` iff `real_length and ncol is not None` (a loop-invariant test), otherwise `d`
keeps its initial value `1.0` (`one`, scaled). -/
namespace Pf

/-- step length used by `core._trace` as a function of its flags; `distance` is the external
`gis_utils.distance(idx0, idx1, ncol, latlon, transform)` (an explicit parameter: assumption "pure function") -/
def genStep {Opaque : Type} (ncol : Option Nat) (realLength latlon : Bool) (transform : Opaque) (one : Int)
    (distance : Nat → Nat → Nat → Bool → Opaque → Int) : Nat → Nat → Int :=
  if (realLength && ncol.isSome) = true then fun i j => distance i j (ncol.getD 0) latlon transform
  else stepConst one

end Pf
