/-! # C01_fn - declarative counterparts of the straight-line index helpers (core Lean only)

The helpers `upscale.subidx_2_idx`, `upscale.in_d8`, `upscale.cell_edge` are *translated mechanically* from /repo
(`Generated/Funcs.lean`) and proved equal to the hand-written models of C09 / C10 in `Props/C01_fn.lean`.  This file
holds what the driver reports as `spec.*` for them: definitions that use **no division** - the block of `x` for block
size `n` is *searched* as the `q` with `q * n ≤ x < (q + 1) * n` - so that an error shared by the Python source, the
translator's reading of `//`, `%` and the hand-written model cannot hide. `Proofs/C01_fn.lean` proves
`blockOf x n = x / n`. -/
namespace Pf.FnSpec

/-- the `q` with `q * n ≤ x < (q + 1) * n`, found by search (0 when there is none, i.e. `n = 0`) -/
def blockOf (x n : Nat) : Nat :=
  ((List.range (x + 1)).find? fun q => decide (q * n ≤ x) && decide (x < (q + 1) * n)).getD 0

/-- offset inside the block -/
def offsetOf (x n : Nat) : Nat := x - blockOf x n * n

/-- the coarse cell `(R, C)` (flattened with `ncol`) whose `cs × cs` block of fine pixels contains pixel `subidx` -/
def cellOf (subidx subncol cs ncol : Nat) : Nat :=
  blockOf (blockOf subidx subncol) cs * ncol + blockOf (offsetOf subidx subncol) cs

/-- `i` and `j` lie in the same or in neighbouring rows and columns: some offset `(dr, dc) ∈ {-1,0,1}²` leads from
the row / column of `i` to those of `j` -/
def near (i j ncol : Nat) : Bool :=
  let off : List Int := [-1, 0, 1]
  off.any fun dr => off.any fun dc =>
    decide ((blockOf i ncol : Int) + dr = blockOf j ncol) && decide ((offsetOf i ncol : Int) + dc = offsetOf j ncol)

/-- position `x` is the first or the last of its block of size `n`: the position before it (or after it) belongs to
another block, or there is none before it -/
def blockBorder (x n : Nat) : Bool :=
  x == 0 || blockOf (x - 1) n != blockOf x n || blockOf (x + 1) n != blockOf x n

/-- pixel `subidx` lies on the border of its coarse cell -/
def onCellEdge (subidx subncol cs : Nat) : Bool :=
  blockBorder (blockOf subidx subncol) cs || blockBorder (offsetOf subidx subncol) cs

end Pf.FnSpec
