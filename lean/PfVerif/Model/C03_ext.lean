import PfVerif.Model.C03
import PfVerif.Model.C01
/-! # C03 extension — construction and persistence of network objects

Executable, loop-for-loop models (core Lean only) of

* `flwdir.get_loc_idx` / `flwdir.from_dataframe` (`getLocIdx`, `fromDataframe`) with the declarative
  row lookup `rowOf` / `specLocIdx`;
* the missing-value sentinel `Flwdir._mv` per index dtype (`mvSel`), the dtype selection of
  `pyflwdir.from_array` (`selectDtype`), the raw (machine) view of `idxs_ds` and its canonical abstraction
  (`canon`: sentinel ↦ `n`), `Flwdir.mask` on the raw array (`maskRaw`);
* `Flwdir.__init__` / `FlwdirRaster.__init__` (`ctorVec`, `ctorRaster`) with every `ValueError` they raise,
  the properties `idxs_pit`, `nnodes`, `mask`, `n_upstream`, `__getitem__`;
* `pyflwdir.from_array` up to the constructed object, including `idxs_outlet` (`outletsOf`, `fromArray`);
* `_dict`, `dump`, `load` of both classes (`dictOf`, `load`); `pickle` itself is the identity (trusted).

Abstract state of an object = `Obj`; networks are canonical (`ds : Array Nat`, `ds[i] = n` missing). -/
namespace Pf.C03x
open Pf Pf.Fd

/-! ## 1. `get_loc_idx`, `from_dataframe` -/

/-- a Python `dict` with integer keys: association list, newest binding first -/
def dictSet (m : List (Int × Nat)) (k : Int) (v : Nat) : List (Int × Nat) := (k, v) :: m

/-- `m.get(k, dflt)` -/
def dictGet (m : List (Int × Nat)) (k : Int) (dflt : Nat) : Nat :=
  match m.lookup k with
  | some v => v
  | none => dflt

/-- `idx_map = {idx: i for i, idx in enumerate(idxs)}` (a repeated id keeps its last row) -/
def idxMap (ids : Array Int) : List (Int × Nat) :=
  (List.range ids.size).foldl (fun m i => dictSet m ids[i]! i) []

/-- `get_loc_idx(idxs, idxs_ds)`: `idxs_ds0 = np.empty_like(idxs)`;
`for i, idx_ds in enumerate(idxs_ds): idxs_ds0[i] = idx_map.get(idx_ds, i)`.
(`np.empty_like` is modelled as zeros; with `idxs_ds.size = idxs.size`, the only use the code makes of
it, every entry is overwritten.) -/
def getLocIdx (ids dsids : Array Int) : Array Nat :=
  let m := idxMap ids
  (List.range dsids.size).foldl (fun out i => out.setIfInBounds i (dictGet m dsids[i]! i))
    (Array.replicate ids.size 0)

/-- declarative: the row holding id `k` (the last one if the id is repeated) -/
def rowOf (ids : Array Int) (k : Int) : Option Nat :=
  (List.range ids.size).reverse.find? fun j => k == ids[j]!

/-- declarative result: row `i` points to the row holding its downstream id, to itself if there is none -/
def specLocIdx (ids dsids : Array Int) : Array Nat :=
  ((List.range ids.size).map fun i => (rowOf ids dsids[i]!).getD i).toArray

/-- the ids of a dataframe index are pairwise distinct -/
def Distinct (ids : Array Int) : Prop :=
  ∀ i j, i < ids.size → j < ids.size → ids[i]! = ids[j]! → i = j

def distinctB (ids : Array Int) : Bool :=
  (List.range ids.size).all fun i => (List.range ids.size).all fun j => !(ids[i]! == ids[j]!) || i == j

/-! ## 2. index dtypes and the missing-value sentinel -/

inductive Dtype
  | i32 | i64 | u32 | u64
  deriving DecidableEq, Repr

def Dtype.signed : Dtype → Bool
  | .i32 | .i64 => true
  | _ => false

def Dtype.bits : Dtype → Nat
  | .i32 | .u32 => 32
  | _ => 64

/-- largest value the dtype stores -/
def Dtype.maxVal (d : Dtype) : Int := if d.signed then 2 ^ (d.bits - 1) - 1 else 2 ^ d.bits - 1

/-- `core._mv = np.intp(-1)` -/
def coreMv : Int := -1

/-- `np.uint32(x)` / `np.uint64(x)` of a NumPy integer scalar: reduction modulo `2^bits` -/
def wrapU (bits : Nat) (x : Int) : Int := x % (2 ^ bits : Int)

/-- `dtype(x)` as `np.full(size, x, dtype=dtype)` / `astype` store it (two's complement) -/
def castTo (d : Dtype) (x : Int) : Int :=
  if d.signed then (x + 2 ^ (d.bits - 1)) % (2 ^ d.bits : Int) - 2 ^ (d.bits - 1) else wrapU d.bits x

/-- `Flwdir.__init__`: `self._mv = core._mv; if idxs_ds.dtype == np.uint32: self._mv = np.uint32(self._mv);
if idxs_ds.dtype == np.uint64: self._mv = np.uint64(self._mv)` -/
def mvSel (d : Dtype) : Int :=
  let mv := coreMv
  let mv := if d = .u32 then wrapU 32 mv else mv
  let mv := if d = .u64 then wrapU 64 mv else mv
  mv

/-- `pyflwdir.from_array`: `dtype = np.int32 if n < 2147483647 else (np.uint32 if n < 4294967294 else np.uint64)` -/
def selectDtype (n : Nat) : Dtype :=
  if n < 2147483647 then .i32 else if n < 4294967294 then .u32 else .u64

/-- canonical abstraction of a raw index array: the sentinel becomes `n`, everything else is an index -/
def canon (d : Dtype) (raw : Array Int) : Array Nat :=
  raw.map fun x => if x = mvSel d then raw.size else x.toNat

/-- `Flwdir.mask` as the code computes it: `self.idxs_ds != self._mv` -/
def maskRaw (d : Dtype) (raw : Array Int) : Array Bool := raw.map fun x => x != mvSel d

/-- a raw index array of the documented domain: every entry is a cell index or the dtype's sentinel -/
def RawOK (d : Dtype) (raw : Array Int) : Prop :=
  ∀ i, i < raw.size → raw[i]! = mvSel d ∨ (0 ≤ raw[i]! ∧ raw[i]! < raw.size)

def rawOKB (d : Dtype) (raw : Array Int) : Bool :=
  (List.range raw.size).all fun i =>
    raw[i]! == mvSel d || (decide (0 ≤ raw[i]!) && decide (raw[i]! < raw.size))

/-! ## 3. objects and constructors -/

structure RasterAttrs where
  shape : Nat × Nat
  ftype : Ftype
  /-- the six coefficients of the affine transform, in the integer encoding of the harness -/
  transform : Array Int
  latlon : Bool
  deriving DecidableEq, Repr

/-- abstract state of a `Flwdir` (`rast = none`) / `FlwdirRaster` (`rast = some _`) object -/
structure Obj where
  dtype : Dtype
  ds : Array Nat
  /-- `_pit` -/
  pit : Option (List Nat)
  /-- `idxs_outlet` -/
  outlet : Option (List Nat)
  /-- `_seq` -/
  seq : Option (List Nat)
  /-- `_nnodes` -/
  nnodes : Option Nat
  cache : Bool
  rast : Option RasterAttrs
  deriving DecidableEq, Repr

/-- `Flwdir.__init__(idxs_ds, idxs_pit, idxs_outlet, idxs_seq, nnodes, cache)`.
`size <= 1` raises; the last statement evaluates the property `idxs_pit`
(`if self._pit is None: self._pit = core.pit_indices(self.idxs_ds)`) and raises when it is empty. -/
def ctorVec (dtype : Dtype) (ds : Array Nat) (pit outlet seq : Option (List Nat)) (nnodes : Option Nat)
    (cache : Bool) : Except String Obj :=
  if ds.size ≤ 1 then .error "ValueError"                 -- Invalid FlwdirRaster: size
  else
    let pit' := match pit with
      | some p => p
      | none => pitIndices ds
    if pit'.length = 0 then .error "ValueError"             -- no pits found
    else .ok { dtype := dtype, ds := ds, pit := some pit', outlet := outlet, seq := seq, nnodes := nnodes,
               cache := cache, rast := none }

/-- `Affine(*transform)` inside `set_transform`: six coefficients are accepted, fewer than six or more
than nine raise `TypeError`, re-raised as `ValueError`. (7-9 values are decided by the `affine` package.) -/
def transformCheck (t : Array Int) : Except String Unit :=
  if t.size = 6 then .ok ()
  else if t.size < 6 ∨ 9 < t.size then .error "ValueError"
  else .error "unmodelled"

/-- `FlwdirRaster.__init__`. `ftype = none` stands for a name outside `FTYPES`. Order of the checks as in
the code: `Flwdir.__init__` (size, pits), `ftype`,
`len(shape) != 2 or np.multiply(*np.array(shape, np.uint64)) != size`, `set_transform`. -/
def ctorRaster (dtype : Dtype) (ds : Array Nat) (shape : List Nat) (ftype : Option Ftype)
    (pit outlet seq : Option (List Nat)) (nnodes : Option Nat) (transform : Array Int) (latlon : Bool)
    (cache : Bool) : Except String Obj :=
  match ctorVec dtype ds pit outlet seq nnodes cache with
  | .error e => .error e
  | .ok o =>
    match ftype with
    | none => .error "ValueError"                          -- Unknown flow direction type
    | some ft =>
      match shape with
      | [nrow, ncol] =>
        if (nrow * ncol) % 2 ^ 64 ≠ ds.size then .error "ValueError"   -- shape does not match size
        else match transformCheck transform with
          | .error e => .error e
          | .ok () => .ok { o with rast := some { shape := (nrow, ncol), ftype := ft, transform := transform, latlon := latlon } }
      | _ => .error "ValueError"                           -- a shape that is not 2-D does not match either

/-- property `idxs_pit` -/
def Obj.idxsPit (o : Obj) : List Nat :=
  match o.pit with
  | some p => p
  | none => pitIndices o.ds

/-- property `nnodes`: `if self._nnodes is None: self._nnodes = int(np.sum(self.rank >= 0))`;
`none` only if the fuel of `rank` ran out -/
def Obj.nnodesP (o : Obj) : Option Nat :=
  match o.nnodes with
  | some k => some k
  | none => nnodesRank o.ds

/-- property `mask` on the canonical network -/
def Obj.mask (o : Obj) : Array Bool := o.ds.map fun x => x != o.ds.size

/-- property `n_upstream`: `core.upstream_count(self.idxs_ds, mv=self._mv)` -/
def Obj.nUpstream (o : Obj) : Array Int := upstreamCount o.ds none

/-- declarative inflow count: `-9` off the network, else the number of other cells draining into `v` -/
def specNup (ds : Array Nat) (v : Nat) : Int :=
  if ds[v]! = ds.size then -9
  else (((List.range ds.size).filter fun j => ds[j]! == v && j != v).length : Int)

/-- `__getitem__(idx)` for an integer: `self.idxs_ds[idx]` (NumPy: a negative index counts from the end,
out of range raises `IndexError`) -/
def Obj.getitem (o : Obj) (idx : Int) : Except String Nat :=
  let n : Int := o.ds.size
  if 0 ≤ idx ∧ idx < n then .ok o.ds[idx.toNat]!
  else if -n ≤ idx ∧ idx < 0 then .ok o.ds[(idx + n).toNat]!
  else .error "IndexError"

/-- `from_dataframe(df)`: `Flwdir(idxs_ds=get_loc_idx(df.index.values, df[ds_col].values))`; the result
array has the dtype of the index column -/
def fromDataframe (dtype : Dtype) (ids dsids : Array Int) : Except String Obj :=
  ctorVec dtype (getLocIdx ids dsids) none none none none true

/-! ## 4. `pyflwdir.from_array` including `idxs_outlet` -/

/-- `fd._pv` membership of `data.flat[i]` for `i < nrow * ncol` (for NEXTXY `data` is the stacked
`(2, nrow, ncol)` array, so these positions are in the `nextx` layer) -/
def isPvAt : Ftype → Data → Nat → Bool
  | .d8, .u8 _ _ codes, i => d8Pv.contains codes[i]!
  | .ldd, .u8 _ _ codes, i => lddPv.contains codes[i]!
  | .nextxy, .xy _ _ xs _, i => xs[i]! == xyPv0 || xs[i]! == xyPv1
  | _, _, _ => false

/-- `idxs_outlet = idxs_pit[np.isin(data.flat[idxs_pit], fd._pv)]` -/
def outletsOf (ft : Ftype) (data : Data) (pits : Array Nat) : List Nat :=
  pits.toList.filter (isPvAt ft data)

/-- `data.size` after `np.asarray` (NEXTXY: both layers) and the raster shape -/
def dataSize : Data → Nat
  | .u8 nrow ncol _ => nrow * ncol
  | .xy nrow ncol _ _ => 2 * (nrow * ncol)
  | .other => 0

def dataShape : Data → Nat × Nat
  | .u8 nrow ncol _ => (nrow, ncol)
  | .xy nrow ncol _ _ => (nrow, ncol)
  | .other => (0, 0)

/-- `pyflwdir.from_array(data, ftype, check_ftype, mask, transform, latlon)` up to the constructed object -/
def fromArray (ft : Option Ftype) (check : Bool) (data : Data) (mask : Option (List Nat × Array Bool))
    (transform : Array Int) (latlon : Bool) : Except String Obj :=
  match selectFtype ft check data with
  | .error e => .error e
  | .ok (ftype, check) =>
    if check && !isvalid ftype data then .error "ValueError" else
    match maskData ftype data mask with
    | .error e => .error e
    | .ok data' =>
      match decodeData ftype data' with
      | .error e => .error e
      | .ok d =>
        ctorRaster (selectDtype (dataSize data')) d.ds [(dataShape data').1, (dataShape data').2] (some ftype) (some d.pits.toList)
          (some (outletsOf ftype data' d.pits)) none none transform latlon true

/-- declarative outlets: the cells whose (masked) code is an explicit pit code -/
def specOutlets (nrow ncol : Nat) (read : Nat → Spec.Code) : List Nat :=
  (List.range (nrow * ncol)).filter fun i => read i == .pit

/-- declarative edge pits: cells with a direction code whose target is off the raster or nodata -/
def specEdgePits (nrow ncol : Nat) (read : Nat → Spec.Code) : List Nat :=
  (List.range (nrow * ncol)).filter fun i =>
    match read i with
    | .to r c => !(Spec.inRaster nrow ncol r c && read (Spec.cellIdx ncol r c) != .nodata) ||
                 Spec.cellIdx ncol r c == i
    | _ => false

/-! ## 5. `_dict`, `dump`, `load` -/

/-- the dictionary that `dump` pickles (`Flwdir._dict` / `FlwdirRaster._dict`) -/
structure Dict where
  dtype : Dtype                  -- carried by the `idxs_ds` array
  nnodes : Nat
  ds : Array Nat
  seq : Option (List Nat)
  pit : Option (List Nat)
  rast : Option RasterAttrs      -- `ftype`, `shape`, `transform`, `latlon` (FlwdirRaster only)
  deriving DecidableEq, Repr

/-- evaluating `self._dict`: forces `nnodes` (which is memoised in `_nnodes`), reads `_seq` and `_pit`
as they are. Returns the dictionary and the object afterwards. -/
def dictOf (o : Obj) : Option (Dict × Obj) :=
  match o.nnodesP with
  | none => none
  | some k =>
    some ({ dtype := o.dtype, nnodes := k, ds := o.ds, seq := o.seq, pit := o.pit, rast := o.rast },
          { o with nnodes := some k })

/-- `Flwdir.load` / `FlwdirRaster.load`: `Flwdir(**kwargs)` / `FlwdirRaster(**kwargs)` -/
def load (d : Dict) : Except String Obj :=
  match d.rast with
  | none => ctorVec d.dtype d.ds d.pit none d.seq (some d.nnodes) true
  | some r => ctorRaster d.dtype d.ds [r.shape.1, r.shape.2] (some r.ftype) d.pit none d.seq (some d.nnodes)
      r.transform r.latlon true

/-- `dump` then `load` (pickle = identity) -/
def roundTrip (o : Obj) : Option (Except String Obj) := (dictOf o).map fun p => load p.1

/-- what an object shows: network, stored order, pits, node count, raster attributes -/
structure View where
  dtype : Dtype
  ds : Array Nat
  seq : Option (List Nat)
  pits : List Nat
  nnodes : Option Nat
  rast : Option RasterAttrs
  deriving DecidableEq, Repr

def Obj.view (o : Obj) : View :=
  { dtype := o.dtype, ds := o.ds, seq := o.seq, pits := o.idxsPit, nnodes := o.nnodesP, rast := o.rast }

/-- what the constructors guarantee -/
structure Obj.Inv (o : Obj) : Prop where
  size : 1 < o.ds.size
  pit : ∃ p, o.pit = some p ∧ p ≠ []
  shape : ∀ r, o.rast = some r → (r.shape.1 * r.shape.2) % 2 ^ 64 = o.ds.size
  transform : ∀ r, o.rast = some r → r.transform.size = 6

end Pf.C03x
