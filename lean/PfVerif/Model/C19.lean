import PfVerif.Model.Core
/-! Models of `streams.streams`, `gis_utils.features`, `core.flwdir_tuples` (via `Model/Core`),
`subgrid.segment_indices` and of the declarative certificate `StreamsOK` (C19). Core Lean only. -/
namespace Pf

/-! ### the split arithmetic of `streams.streams` -/

/-- Python's `round(a / b)` for non-negative integers `a`, `b > 0` (round half to even), computed
exactly on the rational `a / b` (the float quotient rounds the same way as long as `a, b < 2^50`). -/
def roundHalfEven (a b : Nat) : Nat :=
  if 2 * (a % b) < b then a / b
  else if b < 2 * (a % b) then a / b + 1
  else if (a / b) % 2 = 0 then a / b else a / b + 1

/-- consecutive vertex pairs of a polyline -/
def pairsOf (l : List Nat) : List (Nat × Nat) := l.zip l.tail

/-- the `for i in range(k)` loop: slices `idxs[i*n : n*(i+1)+1]`, the last one `idxs[i*n:]` -/
def splitLoop (idxs : List Nat) (n k : Nat) : List (List Nat) :=
  (List.range k).map fun i =>
    if i + 1 = k then idxs.drop (i * n) else (idxs.drop (i * n)).take (n + 1)

/-- `(n, k)` as computed by the code for a stream of `l` vertices (`l > max_len > 0`) -/
def splitNK (l maxLen : Nat) : Nat × Nat :=
  if 2 * l > 3 * maxLen then            -- (l / max_len) > 1.5
    let k := roundHalfEven l maxLen
    (roundHalfEven l k, k)
  else (l, 1)

/-- what is appended to `streams` for one walked stream `idxs` (without the pit feature) -/
def splitPieces (idxs : List Nat) (maxLen : Nat) : List (List Nat) :=
  if idxs.length > maxLen ∧ maxLen > 0 then
    splitLoop idxs (splitNK idxs.length maxLen).1 (splitNK idxs.length maxLen).2
  else [idxs]

/-! ### `streams.streams` -/

/-- result of the inner `while True`: the vertex list, whether it ended at a pit, the last
downstream cell, the updated `done` flags -/
structure WalkRes where
  idxs : List Nat
  pit : Bool
  last : Nat
  done : Array Bool

/-- inner `while True` of `streams`; `acc` is `idxs` reversed. `none` = fuel exhausted. -/
def streamWalk (ds : Array Nat) (nup : Array Int) : Nat → Nat → List Nat → Array Bool → Option WalkRes
  | 0, _, _, _ => none
  | fuel+1, idx0, acc, done =>
    let done := done.setIfInBounds idx0 true
    let d := ds[idx0]!
    let pit := d == idx0
    let acc := if pit then acc else d :: acc
    if decide (nup[d]! > 1) || pit then some ⟨acc.reverse, pit, d, done⟩
    else streamWalk ds nup fuel d acc done

/-- features appended for one finished walk -/
def walkFeatures (w : WalkRes) (maxLen : Nat) : List (List Nat) :=
  splitPieces w.idxs maxLen ++ (if w.pit then [[w.last, w.last]] else [])

/-- body of `for idx0 in seq[::-1]` -/
def streamsStep (ds : Array Nat) (nup : Array Int) (mask : Option (Array Bool)) (maxLen : Nat)
    (st : List (List Nat) × Array Bool) (idx0 : Nat) : Option (List (List Nat) × Array Bool) :=
  if st.2[idx0]! || !maskAt mask idx0 then some st
  else match streamWalk ds nup (ds.size + 1) idx0 [idx0] st.2 with
    | none => none
    | some w => some (st.1 ++ walkFeatures w maxLen, w.done)

/-- `streams.streams(idxs_ds, seq, mask, max_len)`: list of index arrays in the order appended -/
def streamsModel (ds : Array Nat) (seq : List Nat) (mask : Option (Array Bool)) (maxLen : Nat) :
    Option (List (List Nat)) :=
  (seq.reverse.foldlM (streamsStep ds (upstreamCount ds mask) mask maxLen)
    ([], Array.replicate ds.size false)).map (·.1)

/-! ### `gis_utils.features` -/

/-- one geo-feature: vertex coordinates (as the cells they are sampled at), `idx`, `idx_ds`, `pit`,
and the sampled extra maps -/
structure Feat where
  cells : List Nat
  coords : List (Int × Int)
  idx : Nat
  idxDs : Nat
  pit : Bool
  props : List Int
  deriving DecidableEq, Repr

/-- `gis_utils.features`: loop over the flow paths, skipping paths with fewer than two vertices;
`coord i` is `(xs[i], ys[i])` resp. the cell centre from the transform; `maps` are the `kwargs`. -/
def featuresModel (paths : List (List Nat)) (coord : Nat → Int × Int) (maps : List (Array Int)) :
    List Feat :=
  paths.foldl (fun feats idxs =>
    if idxs.length < 2 then feats
    else
      let idx0 := idxs.head!
      let last := idxs.getLast!
      let pit := last == (idxs.dropLast).getLast!
      feats ++ [⟨idxs, idxs.map coord, idx0, last, pit, maps.map (·[idx0]!)⟩]) []

/-- twice the cell-centre coordinates of cell `i` on a raster with `ncol` columns and affine
transform `(a, b, c, d, e, f)` (integers): `transform * translation(.5, .5) * (col, row)` -/
def centre2 (ncol : Nat) (t : Array Int) (i : Nat) : Int × Int :=
  let r : Int := (i / ncol : Nat)
  let c : Int := (i % ncol : Nat)
  (t[0]! * (2 * c + 1) + t[1]! * (2 * r + 1) + 2 * t[2]!,
   t[3]! * (2 * c + 1) + t[4]! * (2 * r + 1) + 2 * t[5]!)

/-! ### `subgrid.segment_indices` (used by `streams(idxs_out=...)`) -/

/-- the `break` condition at the top of the loop body: no next cell, pit, next cell masked out, or
`max_len` vertices collected (`len = len(idxs)`) -/
def segStop (nxt : Array Nat) (mask : Option (Array Bool)) (maxLen : Nat) (idx len : Nat) : Bool :=
  nxt[idx]! = nxt.size || nxt[idx]! == idx || (match mask with
    | none => false
    | some m => !m[nxt[idx]!]!) || (decide (maxLen > 0) && len == maxLen)

/-- inner `while True`; returns `(idxs, pit, idx1)` -/
def segWalk (nxt : Array Nat) (outlets : Array Bool) (mask : Option (Array Bool)) (maxLen : Nat) :
    Nat → Nat → List Nat → Option (List Nat × Bool × Nat)
  | 0, _, _ => none
  | fuel+1, idx, acc =>
    let idx1 := nxt[idx]!
    let pit := idx1 == idx
    if segStop nxt mask maxLen idx acc.length then
      some (acc.reverse, pit, idx1)
    else if outlets[idx1]! then some ((idx1 :: acc).reverse, pit, idx1)
    else segWalk nxt outlets mask maxLen fuel idx1 (idx1 :: acc)

/-- the temporary boolean array with the outlets -/
def segOutlets (idxsOut : List Nat) (n : Nat) : Array Bool :=
  idxsOut.foldl (fun o i => if i ≠ n then o.setIfInBounds i true else o) (Array.replicate n false)

/-- what one outlet appends: the segment if it has more than one vertex, the zero-length feature at a pit -/
def segFeatures (r : List Nat × Bool × Nat) : List (List Nat) :=
  (if r.1.length > 1 then [r.1] else []) ++ (if r.2.1 then [[r.2.2, r.2.2]] else [])

/-- body of `for i in range(idxs_out.size)` -/
def segStep (nxt : Array Nat) (outlets : Array Bool) (mask : Option (Array Bool)) (maxLen : Nat)
    (out : List (List Nat)) (idx0 : Nat) : Option (List (List Nat)) :=
  if idx0 = nxt.size then some out
  else match segWalk nxt outlets mask maxLen (nxt.size + 1) idx0 [idx0] with
    | none => none
    | some r => some (out ++ segFeatures r)

def segmentIndices (idxsOut : List Nat) (nxt : Array Nat) (mask : Option (Array Bool)) (maxLen : Nat) :
    Option (List (List Nat)) :=
  idxsOut.foldlM (segStep nxt (segOutlets idxsOut nxt.size) mask maxLen) []

/-! ### the declarative certificate `StreamsOK` -/

/-- stream cell: valid cell of the network selected by the mask -/
def inStream (ds : Array Nat) (mask : Option (Array Bool)) (i : Nat) : Bool :=
  isValid ds i && maskAt mask i

/-- number of stream cells flowing into `v` (declarative, by enumeration) -/
def nupM (ds : Array Nat) (mask : Option (Array Bool)) (v : Nat) : Nat :=
  ((List.range ds.size).filter fun j => inStream ds mask j && ds[j]! == v && j != v).length

/-- the mask is downstream closed: the downstream cell of a stream cell is a stream cell -/
def dsClosed (ds : Array Nat) (mask : Option (Array Bool)) : Bool :=
  (List.range ds.size).all fun i => !inStream ds mask i || inStream ds mask ds[i]!

/-- the zero-length feature `[p, p]` -/
def isPitFeat (f : List Nat) : Bool :=
  match f with
  | [a, b] => a == b
  | _ => false

def streamFeats (feats : List (List Nat)) : List (List Nat) := feats.filter (!isPitFeat ·)
def pitFeats (feats : List (List Nat)) : List (List Nat) := feats.filter isPitFeat
/-- all (vertex, next vertex) pairs of the stream features -/
def allPairs (feats : List (List Nat)) : List (Nat × Nat) := (streamFeats feats).flatMap pairsOf
/-- interior vertices of a polyline -/
def interior (f : List Nat) : List Nat := f.tail.dropLast

/-- (C1) every consecutive pair of every stream feature is a link of a stream cell -/
def okLinked (ds : Array Nat) (mask : Option (Array Bool)) (feats : List (List Nat)) : Bool :=
  (allPairs feats).all fun p => inStream ds mask p.1 && ds[p.1]! == p.2 && p.1 != p.2
/-- (C2) no cell is the upstream end of two pairs -/
def okOnce (feats : List (List Nat)) : Bool := decide ((allPairs feats).map (·.1)).Nodup
/-- (C3) every link of a stream cell occurs -/
def okCover (ds : Array Nat) (mask : Option (Array Bool)) (feats : List (List Nat)) : Bool :=
  (List.range ds.size).all fun i =>
    !(inStream ds mask i && ds[i]! != i) || ((allPairs feats).map (·.1)).contains i
/-- (C4) no interior vertex is a confluence -/
def okInterior (ds : Array Nat) (mask : Option (Array Bool)) (feats : List (List Nat)) : Bool :=
  (streamFeats feats).all fun f => (interior f).all fun v => nupM ds mask v ≤ 1
/-- (C5) a stream feature is non-empty, starts at a headwater, a confluence or where another
stream feature ends, and ends at a confluence, a pit or where another stream feature starts
(the last two alternatives only with a maximum length) -/
def okEnds (ds : Array Nat) (mask : Option (Array Bool)) (maxLen : Nat) (feats : List (List Nat)) : Bool :=
  (streamFeats feats).all fun f =>
    match f.head?, f.getLast? with
    | some s, some e =>
      inStream ds mask s &&
      (nupM ds mask s != 1 ||
        (decide (maxLen > 0) && (streamFeats feats).any fun g => g.length ≥ 2 && g.getLast? == some s)) &&
      (decide (nupM ds mask e > 1) || ds[e]! == e ||
        (decide (maxLen > 0) && (streamFeats feats).any fun g => g.length ≥ 2 && g.head? == some e))
    | _, _ => false
/-- (C6) exactly one zero-length feature `[p, p]` per pit of the stream network, none elsewhere -/
def okPits (ds : Array Nat) (mask : Option (Array Bool)) (feats : List (List Nat)) : Bool :=
  decide (pitFeats feats).Nodup &&
  ((pitFeats feats).all fun f => inStream ds mask f.head! && ds[f.head!]! == f.head!) &&
  (List.range ds.size).all fun p =>
    !(inStream ds mask p && ds[p]! == p) || (pitFeats feats).contains [p, p]
/-- (C7) with a maximum length no stream feature has more than `(3·max_len + 1) / 2` vertices -/
def okSize (maxLen : Nat) (feats : List (List Nat)) : Bool :=
  maxLen == 0 || (streamFeats feats).all fun f => 2 * f.length ≤ 3 * maxLen + 1

/-- the decidable certificate evaluated on the implementation's output in every case -/
def StreamsOK (ds : Array Nat) (mask : Option (Array Bool)) (maxLen : Nat) (feats : List (List Nat)) : Bool :=
  okLinked ds mask feats && okOnce feats && okCover ds mask feats && okInterior ds mask feats &&
  okEnds ds mask maxLen feats && okPits ds mask feats && okSize maxLen feats

end Pf
