import PfVerif.Model.C01
/-! # C01 extension — the per-cell helpers of the flow-direction formats

Executable models (loop for loop) of the functions of `/repo/pyflwdir` next to `from_array` that no other
model mentions:

* `core_d8._downstream_idx`, `core_ldd._downstream_idx` (`downstreamIdx`): the downstream neighbour of one
  cell read off its code. **Not** the rule of `from_array`: a link that leaves the raster gives the missing
  value (there: a pit), the target's nodata is not looked at (there: a pit), and a nodata *code* has
  `drdc = (0, 0)` and therefore gives the cell itself.
* `core_d8._upstream_idx`, `core_ldd._upstream_idx` (`upstreamIdx`): the in-bounds 8-neighbours whose code
  equals the entry of the `_us` table for that offset, in the loop order `dr = -1..1`, `dc = -1..1`.
* `ispit`, `isnodata` of the three formats.
* `core.headwater_indices`, `core.confluence_indices` on top of `Pf.upstreamCount`.

and the *declarative* side the theorems of `Props/C01_ext.lean` relate them to (`Spec.downOf`,
`Spec.upOf`, `Spec.inflowCount`, `Spec.headwaters`, `Spec.confluences`). The code tables are the ones of
`Model/C01.lean` (`Spec.d8Dirs`, `Spec.lddDirs`, …); nothing is retyped here except the two `_us` tables of
the code (module constants, tied to /repo by an obligation against `Generated.d8Us` / `Generated.lddUs`).

Core Lean only; the missing value (`core._mv`, `-1` as `intp`) of a raster of `n = nrow * ncol` cells is `n`. -/
namespace Pf.Fd

/-! ## Specification -/
namespace Spec

/-- **the cell a code designates, declaratively** (`_downstream_idx`): the designated cell `(r, c)` if it lies
on the raster, the missing value `n` if it does not; a cell that designates nothing (pit code, nodata code)
is returned itself. -/
def downOf (nrow ncol : Nat) (read : Nat → Code) (i : Nat) : Nat :=
  match read i with
  | .to r c => if inRaster nrow ncol r c then cellIdx ncol r c else nrow * ncol
  | _ => i

/-- **the upstream neighbours of `i`, declaratively**: the cells `j ≠ i` of the raster that designate `i`,
in increasing index order -/
def upOf (nrow ncol : Nat) (read : Nat → Code) (i : Nat) : List Nat :=
  (List.range (nrow * ncol)).filter fun j => j != i && downOf nrow ncol read j == i

/-- `i` and `j` are cells at row and column distance ≤ 1 (8-neighbours or equal) -/
def nbr8 (ncol i j : Nat) : Prop :=
  ((i / ncol : Nat) : Int) - (j / ncol : Nat) ≤ 1 ∧ ((j / ncol : Nat) : Int) - (i / ncol : Nat) ≤ 1 ∧
  ((i % ncol : Nat) : Int) - (j % ncol : Nat) ≤ 1 ∧ ((j % ncol : Nat) : Int) - (i % ncol : Nat) ≤ 1

/-- number of cells `j ≠ i` with `ds[j] = i` that the mask admits (no mask: all) -/
def inflowCount (ds : Array Nat) (mask : Option (Array Bool)) (i : Nat) : Nat :=
  ((List.range ds.size).filter fun j => j != i && ds[j]! == i && maskAt mask j).length

/-- cells of the network without an (admitted) inflowing cell, in increasing order -/
def headwaters (ds : Array Nat) (mask : Option (Array Bool)) : List Nat :=
  (List.range ds.size).filter fun i => ds[i]! != ds.size && inflowCount ds mask i == 0

/-- cells of the network with two or more (admitted) inflowing cells, in increasing order -/
def confluences (ds : Array Nat) (mask : Option (Array Bool)) : List Nat :=
  (List.range ds.size).filter fun i => ds[i]! != ds.size && decide (2 ≤ inflowCount ds mask i)

/-- the cells the user mask of `pyflwdir.from_array` keeps (`mask != 0`; no mask: all) -/
def maskFun (mask : Option (List Nat × Array Bool)) : Nat → Bool :=
  match mask with
  | none => fun _ => true
  | some (_, m) => fun i => m[i]!

end Spec

/-- the arrays of a container have one entry per cell -/
def Data.WellShaped : Data → Prop
  | .u8 nrow ncol codes => codes.size = nrow * ncol
  | .xy nrow ncol xs ys => xs.size = nrow * ncol ∧ ys.size = nrow * ncol
  | .other => True

/-- a data-shaped (3-D) mask on NEXTXY data hides the same cells in both layers (only then does the property
give the masked raster a meaning) -/
def MaskLayersAgree : Data → Option (List Nat × Array Bool) → Prop
  | .xy nrow ncol _ _, some (sh, m) => sh = [2, nrow, ncol] → ∀ i, i < nrow * ncol → m[nrow * ncol + i]! = m[i]!
  | _, _ => True

/-! ## Model of the code -/

/-- `_us` of `core_d8` (row-major 3×3: entry `(dr + 1) * 3 + (dc + 1)` is the code with which the neighbour
at offset `(dr, dc)` points at the centre) -/
def d8Us : List Nat := [2, 4, 8, 1, 0, 16, 128, 64, 32]
/-- `_us` of `core_ldd` -/
def lddUs : List Nat := [3, 2, 1, 6, 5, 4, 9, 8, 7]

/-- `core_d8._downstream_idx` / `core_ldd._downstream_idx` (identical source up to `drdc`):
```
r0 = idx0 // ncol; c0 = idx0 % ncol
dr, dc = drdc(flwdir_flat[idx0]); r_ds, c_ds = r0 + dr, c0 + dc
if r_ds >= 0 and r_ds < nrow and c_ds >= 0 and c_ds < ncol: idx_ds = c_ds + r_ds * ncol
else: idx_ds = mv
``` -/
def downstreamIdx (drdc : Nat → Int × Int) (nrow ncol : Nat) (codes : Array Nat) (idx0 : Nat) : Nat :=
  let d := drdc codes[idx0]!
  let r_ds : Int := ((idx0 / ncol : Nat) : Int) + d.1
  let c_ds : Int := ((idx0 % ncol : Nat) : Int) + d.2
  if r_ds ≥ 0 ∧ r_ds < nrow ∧ c_ds ≥ 0 ∧ c_ds < ncol then (c_ds + r_ds * ncol).toNat else nrow * ncol

def downstreamIdxD8 := downstreamIdx d8Drdc
def downstreamIdxLdd := downstreamIdx lddDrdc

/-- the body of the two nested loops of `_upstream_idx` for one offset: `some idx` when `idx` is appended -/
def usCand (us : List Nat) (nrow ncol : Nat) (codes : Array Nat) (idx0 : Nat) (dr dc : Int) : Option Nat :=
  if dr = 0 ∧ dc = 0 then none      -- `continue`
  else
    let r_us : Int := ((idx0 / ncol : Nat) : Int) + dr
    let c_us : Int := ((idx0 % ncol : Nat) : Int) + dc
    if r_us ≥ 0 ∧ r_us < nrow ∧ c_us ≥ 0 ∧ c_us < ncol then
      let idx := (r_us * ncol + c_us).toNat
      if codes[idx]! = us[((dr + 1) * 3 + (dc + 1)).toNat]! then some idx else none
    else none

/-- `range(-1, 2)` -/
def range3 : List Int := [-1, 0, 1]

/-- `idxs_lst.append(idx)` when the candidate was accepted -/
def pushCand (lst : List Nat) : Option Nat → List Nat
  | some idx => lst ++ [idx]
  | none => lst

/-- `core_d8._upstream_idx(idx0, flwdir_flat, shape, _us)`:
`for dr in range(-1, 2): for dc in range(-1, 2): … idxs_lst.append(idx)` -/
def upstreamIdx (us : List Nat) (nrow ncol : Nat) (codes : Array Nat) (idx0 : Nat) : List Nat :=
  range3.foldl (fun lst dr =>
    range3.foldl (fun lst dc => pushCand lst (usCand us nrow ncol codes idx0 dr dc)) lst) []

def upstreamIdxD8 := upstreamIdx d8Us
/-- `core_ldd._upstream_idx` calls `core_d8._upstream_idx` with its own `_us` -/
def upstreamIdxLdd := upstreamIdx lddUs

/-- the eight offsets in the loop order of `_upstream_idx` -/
def offs8 : List (Int × Int) := [(-1, -1), (-1, 0), (-1, 1), (0, -1), (0, 1), (1, -1), (1, 0), (1, 1)]

/-! ### `ispit`, `isnodata` -/

/-- `core_d8.ispit`: `np.any(dd == _pv)` -/
def d8IsPit (dd : Nat) : Bool := d8Pv.any fun p => dd == p
/-- `core_d8.isnodata`: `dd == _mv` -/
def d8IsNodata (dd : Nat) : Bool := dd == d8Mv
/-- `core_ldd.ispit`: `dd == _pv` (`_pv` is the scalar 5; the extracted constant is the one-element list) -/
def lddIsPit (dd : Nat) : Bool := lddPv.any fun p => dd == p
/-- `core_ldd.isnodata`: `core_d8.isnodata(dd, _mv)` -/
def lddIsNodata (dd : Nat) : Bool := dd == lddMv
/-- `core_nextxy.isnodata`: `dd == _mv` (`core_nextxy.ispit` is `xyIsPit` of `Model/C01.lean`) -/
def xyIsNodata (dd : Int) : Bool := dd == xyMv

/-! ### `core.headwater_indices`, `core.confluence_indices` -/

/-- `nup = upstream_count(idxs_ds, mask=mask, mv=mv); return np.where(nup == 0)[0]` -/
def headwaterIndices (ds : Array Nat) (mask : Option (Array Bool)) : List Nat :=
  let nup := upstreamCount ds mask
  (List.range nup.size).filter fun i => nup[i]! == 0

/-- `nup = upstream_count(idxs_ds, mask=mask, mv=mv); return np.where(nup > 1)[0]` -/
def confluenceIndices (ds : Array Nat) (mask : Option (Array Bool)) : List Nat :=
  let nup := upstreamCount ds mask
  (List.range nup.size).filter fun i => decide (nup[i]! > 1)

end Pf.Fd
