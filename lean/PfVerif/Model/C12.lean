/-! # C12 — abstract machine of the caching / memoisation protocol of `Flwdir` / `FlwdirRaster`

The machine *interprets a protocol table* (one entry per method: which cache keys / memo attributes
it may read, write, pop, reset, which components of the abstract state it mutates, and which call
arguments flow into a stored value). The table for the real code is regenerated from the source on
every run (`Generated/CacheProtocol.lean`); this file is independent of it. Core Lean only. -/
namespace Pf.C12

abbrev Key := String
abbrev Comp := String

structure Write where
  key : Key
  /-- call arguments the stored value depends on (after `p is None` guards are taken into account) -/
  taint : List String
  flagGuarded : Bool
  deriving DecidableEq, Repr

structure Read where
  key : Key
  /-- arguments the uncached computation depends on that the guard of the read does not force to None -/
  unguarded : List String
  deriving DecidableEq, Repr

/-- an in-place write (subscript / augmented assignment, `out=`, `np.copyto`, `.fill`, a kernel that
assigns into its parameter, ...) through a name that may alias the value stored under `target`
(found by the alias analysis of `harness/extract_cache.py`; `via` is a description for the reader) -/
structure InPlace where
  target : Key
  via : String
  deriving DecidableEq, Repr

structure Entry where
  cls : String
  name : String
  reads : List Read
  writes : List Write
  pops : List Key
  memoSet : List Write       -- memo attributes (`_seq`, `_nnodes`, `_pit`) assigned a value
  memoReset : List Key
  mutates : List Comp
  /-- in-place writes into values that live in the cache -/
  inplace : List InPlace := []
  deriving DecidableEq, Repr

/-- **Spec (hand-written)**: the components of the abstract state (`ds` = the network, `transform`,
`latlon`; shape, ftype, constructor-supplied area are immutable) each memoised quantity is a function of. -/
def deps : Key → List Comp
  | "rank" => ["ds"]
  | "idxs_us_main" => ["ds"]
  | "strord" => ["ds"]
  | "distnc" => ["ds", "transform", "latlon"]
  | "area" => ["transform", "latlon"]
  | "_seq" => ["ds"]
  | "_nnodes" => ["ds"]
  | "_pit" => ["ds"]
  | _ => ["ds", "transform", "latlon"]      -- unknown key: assume it depends on everything

def allKeys : List Key := ["rank", "idxs_us_main", "strord", "distnc", "area", "_seq", "_nnodes", "_pit"]

/-- memo attributes a *mutator* may assign from its arguments because it keeps them in sync with the
new state (`add_pits` sets `_pit` to the sorted union of the old pits and the new ones). This is an
assumption of the model; the harness checks `idxs_pit` against a fresh object after every mutation. -/
def syncAllowed : List Key := ["_pit"]

def dependsOn (k : Key) (cs : List Comp) : Bool := (deps k).any fun c => cs.contains c

def Entry.isMutator (e : Entry) : Bool := !e.mutates.isEmpty

/-- a mutator re-synchronises memo attribute `k` (assigns it unconditionally from its arguments and
the old value) -/
def Entry.syncs (e : Entry) (k : Key) : Bool :=
  e.isMutator && syncAllowed.contains k && e.memoSet.any (·.key == k)

def Entry.drops (e : Entry) (k : Key) : Bool := e.pops.contains k || e.memoReset.contains k

/-- the method may write in place into the value stored under `k` -/
def Entry.writesInPlace (e : Entry) (k : Key) : Bool := e.inplace.any (·.target == k)

/-- clause (6) of coherence: a value that lives in the cache is immutable -/
def Entry.noInPlace (e : Entry) : Bool := e.inplace.isEmpty

/-- the coherence condition on one table entry -/
def Entry.coherent (e : Entry) : Bool :=
  -- (1) no stored cache value depends on a call argument
  e.writes.all (fun w => w.taint.isEmpty) &&
  -- (2) no cache read can answer a query whose uncached value depends on an argument
  e.reads.all (fun r => r.unguarded.isEmpty) &&
  -- (3) memo attributes: argument-dependent only when re-synchronised by a mutator
  e.memoSet.all (fun w => w.taint.isEmpty || e.syncs w.key) &&
  -- (4) a mutator pops / resets / re-synchronises every key that depends on what it changes
  allKeys.all (fun k => !dependsOn k e.mutates || e.drops k || e.syncs k) &&
  -- (5) only known keys are ever stored
  e.writes.all (fun w => allKeys.contains w.key) && e.memoSet.all (fun w => allKeys.contains w.key) &&
  -- (6) no in-place write through a name that may alias a stored value (stored values are immutable)
  e.noInPlace

def Coherent (t : List Entry) : Bool := t.all Entry.coherent

/-- every cache write is guarded by the `cache` flag (needed only for the cache-off corollary) -/
def FlagGuarded (t : List Entry) : Bool := t.all fun e => e.writes.all (·.flagGuarded)

/-! ## semantics -/

/-- abstract semantics: `S` abstract object state, `V` values, `A` call arguments -/
structure Sem (S V A : Type) where
  /-- the value a freshly constructed object with state `s` computes for key `k` -/
  recompute : Key → S → V
  /-- effect of calling method `e` with argument `a` on the abstract state -/
  mutate : Entry → A → S → S
  /-- frame: a quantity only depends on the components listed in `deps` -/
  frame : ∀ e a s k, dependsOn k e.mutates = false → recompute k (mutate e a s) = recompute k s

/-- concrete object state: abstract state + what is currently cached / memoised -/
structure Obj (S V : Type) where
  s : S
  cache : Key → Option V

/-- the nondeterminism of one call (the table is a may-analysis of the method body): which of the
entry's possible writes happen, whether a stored value was computed before or after the mutation,
and what an argument-dependent write stores -/
structure Choice (V : Type) where
  doWrite : Key → Bool
  late : Key → Bool
  junk : Key → V
  /-- what an in-place write through an alias of the value stored under a key leaves there
  (`none`: the write does not happen on this path) -/
  clobber : Key → Option V := fun _ => none

variable {S V A : Type}

/-- value stored for key `k` by the (possible) writes `ws` of entry `e` -/
def writeVal (sem : Sem S V A) (e : Entry) (a : A) (ch : Choice V) (s : S) (ws : List Write) (k : Key) : V :=
  if (ws.filter (·.key == k)).all (·.taint.isEmpty) then
    (if ch.late k then sem.recompute k (sem.mutate e a s) else sem.recompute k s)
  else ch.junk k

/-- the protocol part of one call (reads / writes / pops / resets of the cache *dictionary*) -/
def stepCore (sem : Sem S V A) (e : Entry) (a : A) (ch : Choice V) (o : Obj S V) : Obj S V :=
  { s := sem.mutate e a o.s
    cache := fun k =>
      if e.syncs k then some (sem.recompute k (sem.mutate e a o.s))
      else if e.drops k then none
      else if e.writes.any (·.key == k) && ch.doWrite k then some (writeVal sem e a ch o.s e.writes k)
      else if e.memoSet.any (·.key == k) && ch.doWrite k then some (writeVal sem e a ch o.s e.memoSet k)
      else o.cache k }

/-- the stored *objects* are mutable: an in-place write of method `e` through an alias of the value
stored under `k` replaces what is stored there by an arbitrary value (the dictionary is untouched:
a key that holds nothing stays empty) -/
def clobbered (e : Entry) (ch : Choice V) (k : Key) (c : Option V) : Option V :=
  if e.writesInPlace k then
    match c, ch.clobber k with
    | some _, some v' => some v'
    | c, _ => c
  else c

/-- one call of method `e` with argument `a`: the protocol part, then the in-place writes -/
def step (sem : Sem S V A) (e : Entry) (a : A) (ch : Choice V) (o : Obj S V) : Obj S V :=
  { s := sem.mutate e a o.s
    cache := fun k => clobbered e ch k ((stepCore sem e a ch o).cache k) }

/-- what a query of quantity `k` returns on object `o` -/
def query (sem : Sem S V A) (o : Obj S V) (k : Key) : V :=
  match o.cache k with
  | some v => v
  | none => sem.recompute k o.s

def fresh (s : S) : Obj S V := { s := s, cache := fun _ => none }

/-- invariant: only known keys are cached, and whatever is cached equals its recomputation from the
abstract state -/
def Inv (sem : Sem S V A) (o : Obj S V) : Prop :=
  ∀ k v, o.cache k = some v → allKeys.contains k = true ∧ v = sem.recompute k o.s

/-- a history: a list of calls -/
abbrev Call (V A : Type) := Entry × A × Choice V

def run (sem : Sem S V A) (o : Obj S V) : List (Call V A) → Obj S V
  | [] => o
  | (e, a, ch) :: rest => run sem (step sem e a ch o) rest

end Pf.C12
