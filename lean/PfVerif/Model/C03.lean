import PfVerif.Model.Core
/-! Models and executable specifications for C03 (cell order, rank, loops, repair).

`core.rank`, `core.upstream_count`, `core.idxs_seq` (walk), `core.pit_indices`, `core.loop_indices` are
modelled loop for loop in `Model/Core.lean` (`rank`, `rankWalk`, `upstreamCount`, `upsOf`, `idxsSeq`,
`pitIndices`, `loopIndices`). This file adds the wrappers of `flwdir.py` (`order_cells`, `nnodes`,
`isvalid`, `repair_loops`/`add_pits`) and the *declarative* side: the decidable rank certificate, the
decidable "complete downstream-first order" certificate and a fuel-bounded walk oracle. Core Lean only. -/
namespace Pf

/-! ### well-formed networks -/

/-- every entry is an index or the sentinel `n`, and a valid cell never points to a missing cell -/
def WF (ds : Array Nat) : Prop :=
  ∀ i, i < ds.size → ds[i]! ≤ ds.size ∧ (ds[i]! < ds.size → ds[ds[i]!]! < ds.size)

def wfB (ds : Array Nat) : Bool :=
  (List.range ds.size).all fun i =>
    decide (ds[i]! ≤ ds.size) && (!decide (ds[i]! < ds.size) || decide (ds[ds[i]!]! < ds.size))

/-- `i` is a cell of the network (in range, not the missing value) -/
def Valid (ds : Array Nat) (i : Nat) : Prop := i < ds.size ∧ ds[i]! < ds.size

/-- the `k`-th downstream cell of `i` is a pit and no earlier one is: `k` is the least number of steps to a pit -/
def StepsToPit (ds : Array Nat) (i k : Nat) : Prop :=
  ds[iterA ds k i]! = iterA ds k i ∧ ∀ m, m < k → ds[iterA ds m i]! ≠ iterA ds m i

/-- some iterate is a pit (unbounded ∃): the cell drains to a pit -/
def ReachesPit (ds : Array Nat) (i : Nat) : Prop := ∃ k, ds[iterA ds k i]! = iterA ds k i

/-! ### rank certificate (decidable local condition) -/

/-- the local rank condition at cell `i`: `-9999` on missing cells, `0` at pits, elsewhere either
`-1` together with the downstream cell or one more than a non-negative downstream rank -/
def rankCertAt (ds : Array Nat) (rk : Array Int) (i : Nat) : Bool :=
  if ds[i]! = ds.size then rk[i]! == -9999
  else decide (ds[i]! < ds.size) &&
    (if ds[i]! = i then rk[i]! == 0
     else (rk[i]! == -1 && rk[ds[i]!]! == -1) ||
          (decide (0 ≤ rk[ds[i]!]!) && rk[i]! == rk[ds[i]!]! + 1))

def checkRankCert (ds : Array Nat) (rk : Array Int) : Bool :=
  rk.size == ds.size && (List.range ds.size).all (rankCertAt ds rk)

/-- Prop form of the certificate -/
structure RankCertA (ds : Array Nat) (rk : Array Int) : Prop where
  size : rk.size = ds.size
  nodata : ∀ i, i < ds.size → ds[i]! = ds.size → rk[i]! = -9999
  lt : ∀ i, i < ds.size → ds[i]! ≠ ds.size → ds[i]! < ds.size
  pit : ∀ i, i < ds.size → ds[i]! = i → rk[i]! = 0
  step : ∀ i, i < ds.size → ds[i]! ≠ ds.size → ds[i]! ≠ i →
    (rk[i]! = -1 ∧ rk[ds[i]!]! = -1) ∨ (0 ≤ rk[ds[i]!]! ∧ rk[i]! = rk[ds[i]!]! + 1)

/-! ### complete downstream-first order (decidable certificate for `idxs_seq`) -/

/-- `isTopo` (downstream-first, no duplicates, in range) plus closure: every pit is listed and every
cell whose downstream cell is listed is listed -/
def isCompleteTopo (ds : Array Nat) (seq : List Nat) : Bool :=
  isTopo ds seq &&
  (List.range ds.size).all fun j =>
    !(ds[j]! == j || (decide (ds[j]! < ds.size) && seq.contains ds[j]!)) || seq.contains j

/-! ### walk oracle (independent declarative spec used by the driver) -/

/-- steps to the first pit walking downstream, at most `fuel` cells visited -/
def stepsToPit (ds : Array Nat) : Nat → Nat → Option Nat
  | 0, _ => none
  | fuel+1, i =>
    if ds[i]! = i then some 0
    else if ds[i]! < ds.size then (stepsToPit ds fuel ds[i]!).map (· + 1)
    else none

/-- rank as the property states it: steps to the pit, `-1` if no pit within `n+1` cells, `-9999` off the network -/
def specRank (ds : Array Nat) : Array Int :=
  ((List.range ds.size).map fun i =>
    if ds[i]! ≥ ds.size then (-9999 : Int)
    else match stepsToPit ds (ds.size + 1) i with
      | some k => (k : Int)
      | none => -1).toArray

/-! ### wrappers of `flwdir.py` -/

/-- `Flwdir.isvalid`: `np.all(rank != -1)` -/
def isValidNet (ds : Array Nat) : Option Bool :=
  (rank ds).map fun (r, _) => (List.range ds.size).all fun i => r[i]! != -1

/-- `Flwdir.nnodes` when no order was computed: `np.sum(rank >= 0)` -/
def nnodesRank (ds : Array Nat) : Option Nat :=
  (rank ds).map fun (r, _) => (List.range ds.size).countP fun i => decide (r[i]! ≥ 0)

/-- `order_cells('walk')` -/
def orderWalk (ds : Array Nat) : List Nat := idxsSeq ds (pitIndices ds)

def rankLe (r : Array Int) (a b : Nat) : Bool := decide (r[a]! ≤ r[b]!)

/-- `order_cells('sort')`: `np.argsort(rnk)[-n:]`. `argsort` is modelled as *a* sort by rank (here the
stable one); the order among cells of equal rank is not fixed by the code (NumPy's default sort kind
is not stable), so the harness compares this output only up to that freedom. `[-0:]` is the whole array. -/
def orderSort (ds : Array Nat) : Option (List Nat) :=
  (rank ds).map fun (r, c) =>
    let s := (List.range ds.size).mergeSort (rankLe r)
    if c = 0 then s else s.drop (ds.size - c)

/-- `self.idxs_ds[idxs] = idxs` -/
def addPits (ds : Array Nat) (idxs : List Nat) : Array Nat :=
  idxs.foldl (fun a i => a.setIfInBounds i i) ds

/-- `repair_loops`: a pit at every cell reported by `loop_indices` -/
def repairLoops (ds : Array Nat) : Option (Array Nat) :=
  (loopIndices ds).map fun l => addPits ds l

/-- repair expressed through a rank array (what the theorems speak about) -/
def repairBy (ds : Array Nat) (rk : Array Int) : Array Nat :=
  addPits ds ((List.range ds.size).filter fun i => rk[i]! == -1)

/-- the rank array after repair: former loop cells are pits -/
def rankAfterRepair (rk : Array Int) : Array Int := rk.map fun v => if v = -1 then 0 else v

/-- a list is ordered by non-decreasing rank -/
def rankSorted (r : Array Int) : List Nat → Bool
  | [] => true
  | [_] => true
  | a :: b :: rest => decide (r[a]! ≤ r[b]!) && rankSorted r (b :: rest)

end Pf
